/-
  C13 — lemmas about the text helpers: decimal numerals (`decimal` / `canonNat?` are inverse),
  `rsplitColon`, Python `int()` on canonical numerals, `lower`.
-/
import Upnp.Model.C13Str
namespace Upnp.C13

/-! ### digits -/

theorem digitChar_toNat {d : Nat} (h : d < 10) : (digitChar d).toNat = 48 + d := by
  have : d = 0 ∨ d = 1 ∨ d = 2 ∨ d = 3 ∨ d = 4 ∨ d = 5 ∨ d = 6 ∨ d = 7 ∨ d = 8 ∨ d = 9 := by omega
  rcases this with h | h | h | h | h | h | h | h | h | h <;> subst h <;> decide

theorem isDigit_digitChar {d : Nat} (h : d < 10) : isDigit (digitChar d) = true := by
  simp only [isDigit, digitChar_toNat h, Bool.and_eq_true, decide_eq_true_eq]; omega

theorem isDigit_iff {c : Char} : isDigit c = true ↔ 48 ≤ c.toNat ∧ c.toNat ≤ 57 := by
  simp [isDigit]

theorem digitChar_of_isDigit {c : Char} (h : isDigit c = true) : digitChar (c.toNat - 48) = c := by
  rw [isDigit_iff] at h
  have : 48 + (c.toNat - 48) = c.toNat := by omega
  simp only [digitChar, this]
  exact Char.ofNat_toNat c

theorem ne_colon_of_isDigit {c : Char} (h : isDigit c = true) : c ≠ ':' := by
  rintro rfl; revert h; decide

/-! ### `decimal` -/

theorem decimalF_fuel : ∀ (f g n : Nat), n ≤ f → n ≤ g → decimalF f n = decimalF g n := by
  intro f
  induction f with
  | zero =>
    intro g n hf _
    have : n = 0 := by omega
    subst this
    cases g <;> simp [decimalF]
  | succ f ih =>
    intro g n hf hg
    cases g with
    | zero =>
      have : n = 0 := by omega
      subst this; simp [decimalF]
    | succ g =>
      simp only [decimalF]
      split
      · rfl
      · rw [ih g (n / 10) (by omega) (by omega)]

theorem decimal_eq (n : Nat) :
    decimal n = if n < 10 then [digitChar n] else decimal (n / 10) ++ [digitChar (n % 10)] := by
  unfold decimal
  cases n with
  | zero => simp [decimalF]
  | succ m =>
    simp only [decimalF]
    split
    · rfl
    · rw [decimalF_fuel m ((m + 1) / 10) ((m + 1) / 10) (by omega) (Nat.le_refl _)]

theorem natOfDigits_append (l : Str) (c : Char) :
    natOfDigits (l ++ [c]) = natOfDigits l * 10 + (c.toNat - 48) := by
  simp [natOfDigits, List.foldl_append]

/-- everything `canonNat?` checks, for `decimal n` -/
theorem decimal_spec (n : Nat) :
    (decimal n).all isDigit = true ∧ natOfDigits (decimal n) = n ∧
    ∃ c r, decimal n = c :: r ∧ (c ≠ '0' ∨ (r = [] ∧ n = 0)) := by
  induction n using Nat.strongRecOn with
  | _ n ih =>
    rw [decimal_eq]
    split
    · rename_i h
      refine ⟨by simp [isDigit_digitChar h], ?_, digitChar n, [], rfl, ?_⟩
      · simp [natOfDigits, digitChar_toNat h]
      · by_cases h0 : n = 0
        · right; exact ⟨rfl, h0⟩
        · left; intro hc
          have := congrArg Char.toNat hc
          rw [digitChar_toNat h] at this
          have h48 : ('0' : Char).toNat = 48 := by decide
          omega
    · rename_i h
      obtain ⟨h1, h2, c, r, h3, h4⟩ := ih (n / 10) (by omega)
      have hd : n % 10 < 10 := Nat.mod_lt _ (by omega)
      refine ⟨?_, ?_, c, r ++ [digitChar (n % 10)], by rw [h3]; rfl, ?_⟩
      · rw [List.all_append, h1]; simp [isDigit_digitChar hd]
      · rw [natOfDigits_append, h2, digitChar_toNat hd]; omega
      · left
        rcases h4 with h4 | ⟨_, h4⟩
        · exact h4
        · omega

theorem decimal_ne_nil (n : Nat) : decimal n ≠ [] := by
  obtain ⟨_, _, c, r, h, _⟩ := decimal_spec n; rw [h]; simp

theorem canonNat_decimal (n : Nat) : canonNat? (decimal n) = some n := by
  obtain ⟨h1, h2, c, r, h3, h4⟩ := decimal_spec n
  rw [h3] at h1 h2
  rw [h3]
  simp only [canonNat?]
  have : (c != '0' || r.isEmpty) = true := by
    rcases h4 with h4 | ⟨h4, _⟩
    · simp [h4]
    · simp [h4]
  simp [h1, this, h2]

theorem colon_not_mem_decimal (n : Nat) : ':' ∉ decimal n := by
  intro h
  have := (decimal_spec n).1
  rw [List.all_eq_true] at this
  exact ne_colon_of_isDigit (this _ h) rfl

/-- a non-empty digit string with a non-zero leading digit has a positive value -/
theorem natOfDigits_pos_aux (r : Str) : ∀ acc, 1 ≤ acc →
    1 ≤ r.foldl (fun acc c => acc * 10 + (c.toNat - 48)) acc := by
  induction r with
  | nil => intro acc h; simpa using h
  | cons c r ih => intro acc h; simp only [List.foldl_cons]; apply ih; omega

theorem natOfDigits_pos {c : Char} {r : Str} (hc : isDigit c = true) (h0 : c ≠ '0') :
    1 ≤ natOfDigits (c :: r) := by
  simp only [natOfDigits, List.foldl_cons]
  apply natOfDigits_pos_aux
  rw [isDigit_iff] at hc
  have : c.toNat ≠ 48 := by
    intro h; apply h0
    have := Char.ofNat_toNat c
    rw [h] at this; rw [← this]
  omega

theorem rev_ind {α : Type} {P : List α → Prop} (h0 : P []) (h1 : ∀ i l, P i → P (i ++ [l]))
    (s : List α) : P s := by
  have : ∀ r : List α, P r.reverse := by
    intro r; induction r with
    | nil => exact h0
    | cons a r ih => rw [List.reverse_cons]; exact h1 _ _ ih
  simpa using this s.reverse

/-- canonical numerals are exactly what `decimal` prints -/
theorem decimal_of_canonNat : ∀ (s : Str) (n : Nat), canonNat? s = some n → s = decimal n := by
  intro s
  induction s using rev_ind with
  | h0 => intro n h; simp [canonNat?] at h
  | h1 init last ih =>
    intro n h
    -- unpack canonNat?
    have hne : init ++ [last] ≠ [] := by simp
    obtain ⟨c, r, hcr⟩ : ∃ c r, init ++ [last] = c :: r := by
      cases hh : init ++ [last] with
      | nil => exact absurd hh hne
      | cons c r => exact ⟨c, r, rfl⟩
    rw [hcr] at h
    simp only [canonNat?] at h
    split at h
    · rename_i hcond
      simp only [Bool.and_eq_true] at hcond
      obtain ⟨hall, hlead⟩ := hcond
      injection h with h
      rw [← hcr] at hall h
      rw [List.all_append] at hall
      simp only [Bool.and_eq_true, List.all_cons, List.all_nil, Bool.and_true] at hall
      obtain ⟨hinit, hlast⟩ := hall
      rw [natOfDigits_append] at h
      have hl := isDigit_iff.mp hlast
      cases init with
      | nil =>
        simp only [natOfDigits, List.foldl_nil] at h
        have hn : n < 10 := by omega
        rw [decimal_eq, if_pos hn]
        have : n = last.toNat - 48 := by omega
        rw [this, digitChar_of_isDigit hlast]; rfl
      | cons c' r' =>
        -- head of the whole string is c' and it is not '0' (the string has ≥ 2 chars)
        have hc : c = c' ∧ r = r' ++ [last] := by
          simp only [List.cons_append, List.cons.injEq] at hcr
          exact ⟨hcr.1.symm, hcr.2.symm⟩
        have hc0 : c' ≠ '0' := by
          rcases hc with ⟨rfl, rfl⟩
          simp only [Bool.or_eq_true, bne_iff_ne, ne_eq, List.isEmpty_iff] at hlead
          rcases hlead with hlead | hlead
          · exact hlead
          · simp at hlead
        have hc'd : isDigit c' = true := by
          simp only [List.all_cons, Bool.and_eq_true] at hinit; exact hinit.1
        have hpos := natOfDigits_pos (r := r') hc'd hc0
        have hcanon : canonNat? (c' :: r') = some (natOfDigits (c' :: r')) := by
          simp only [canonNat?]
          have : (c' != '0' || r'.isEmpty) = true := by simp [hc0]
          simp [hinit, this]
        have hinit' := ih _ hcanon
        have hn10 : ¬ n < 10 := by omega
        rw [decimal_eq n, if_neg hn10]
        have hq : n / 10 = natOfDigits (c' :: r') := by omega
        have hr : n % 10 = last.toNat - 48 := by omega
        rw [hq, hr, ← hinit', digitChar_of_isDigit hlast]
    · exact absurd h (by simp)

/-! ### `rsplitColon` -/

theorem rsplitColon_none_of_not_mem : ∀ (s : Str), ':' ∉ s → rsplitColon s = none := by
  intro s
  induction s with
  | nil => intro _; rfl
  | cons c r ih =>
    intro h
    simp only [List.mem_cons, not_or] at h
    simp only [rsplitColon, ih h.2]
    simp [Ne.symm h.1]

theorem rsplitColon_append (b d : Str) (hd : ':' ∉ d) : rsplitColon (b ++ ':' :: d) = some (b, d) := by
  induction b with
  | nil => simp [rsplitColon, rsplitColon_none_of_not_mem d hd]
  | cons c b ih => simp [rsplitColon, ih]

theorem rsplitColon_spec : ∀ (s : Str),
    (rsplitColon s = none → ':' ∉ s) ∧
    (∀ b d, rsplitColon s = some (b, d) → s = b ++ ':' :: d ∧ ':' ∉ d) := by
  intro s
  induction s with
  | nil => exact ⟨fun _ => by simp, fun b d h => by simp [rsplitColon] at h⟩
  | cons c r ih =>
    obtain ⟨ih1, ih2⟩ := ih
    constructor
    · intro h
      simp only [rsplitColon] at h
      cases hr : rsplitColon r with
      | some p => rw [hr] at h; simp at h
      | none =>
        rw [hr] at h
        simp only at h
        split at h
        · simp at h
        · rename_i hc
          simp only [List.mem_cons, not_or]
          exact ⟨fun e => hc e.symm, ih1 hr⟩
    · intro b d h
      simp only [rsplitColon] at h
      cases hr : rsplitColon r with
      | some p =>
        obtain ⟨a, b'⟩ := p
        rw [hr] at h
        simp only [Option.some.injEq, Prod.mk.injEq] at h
        obtain ⟨rfl, rfl⟩ := h
        obtain ⟨e, hn⟩ := ih2 _ _ hr
        exact ⟨by rw [e]; rfl, hn⟩
      | none =>
        rw [hr] at h
        simp only at h
        split at h
        · rename_i hc
          simp only [Option.some.injEq, Prod.mk.injEq] at h
          obtain ⟨rfl, rfl⟩ := h
          exact ⟨by rw [hc]; rfl, ih1 hr⟩
        · simp at h

theorem rsplitColon_some {s b d : Str} (h : rsplitColon s = some (b, d)) : s = b ++ ':' :: d ∧ ':' ∉ d :=
  (rsplitColon_spec s).2 b d h

/-! ### Python `int()` on a canonical numeral -/

theorem canonNat_some {s : Str} {n : Nat} (h : canonNat? s = some n) :
    s ≠ [] ∧ s.all isDigit = true ∧ natOfDigits s = n := by
  cases s with
  | nil => simp [canonNat?] at h
  | cons c r =>
    simp only [canonNat?] at h
    split at h
    · rename_i hc
      simp only [Bool.and_eq_true] at hc
      injection h with h
      exact ⟨by simp, hc.1, h⟩
    · simp at h

theorem not_isSpace_of_isDigit {c : Char} (h : isDigit c = true) : isSpace c = false := by
  rw [isDigit_iff] at h
  cases hs : isSpace c with
  | false => rfl
  | true =>
    simp only [isSpace, Bool.or_eq_true, decide_eq_true_eq, Bool.and_eq_true] at hs
    omega

theorem stripL_of_digit {c : Char} {r : Str} (h : isDigit c = true) : stripL (c :: r) = c :: r := by
  simp [stripL, not_isSpace_of_isDigit h]

theorem strip_digits {d : Str} (hne : d ≠ []) (hd : d.all isDigit = true) : strip d = d := by
  rw [List.all_eq_true] at hd
  unfold strip
  cases d with
  | nil => exact absurd rfl hne
  | cons c r =>
    rw [stripL_of_digit (hd c (by simp))]
    cases hr : (c :: r).reverse with
    | nil => simp at hr
    | cons c' r' =>
      have : c' ∈ c :: r := by
        have : c' ∈ (c :: r).reverse := by rw [hr]; simp
        exact List.mem_reverse.mp this
      rw [stripL_of_digit (hd c' this), ← hr, List.reverse_reverse]

theorem digitsU_digits : ∀ (d : Str) (acc : Nat) (p : Bool), d ≠ [] → d.all isDigit = true →
    digitsU acc p d = some (d.foldl (fun acc c => acc * 10 + (c.toNat - 48)) acc) := by
  intro d
  induction d with
  | nil => intro _ _ h; exact absurd rfl h
  | cons c r ih =>
    intro acc p _ hd
    simp only [List.all_cons, Bool.and_eq_true] at hd
    simp only [digitsU, hd.1, if_true, List.foldl_cons]
    cases r with
    | nil => simp [digitsU]
    | cons c' r' => exact ih _ _ (by simp) hd.2

theorem pyInt_of_canon {d : Str} {n : Nat} (h : canonNat? d = some n) : pyInt? d = some (Int.ofNat n) := by
  obtain ⟨hne, hd, hv⟩ := canonNat_some h
  unfold pyInt?
  rw [strip_digits hne hd]
  have hall := List.all_eq_true.mp hd
  split
  · rename_i r; exact absurd (hall '-' (by simp)) (by decide)
  · rename_i r; exact absurd (hall '+' (by simp)) (by decide)
  · rw [digitsU_digits d 0 false hne hd]
    simp only [Option.map_some, Option.some.injEq]
    rw [← hv]; rfl

/-! ### `lower` -/

theorem ofNat_toNat_small {n : Nat} (h : n < 200) : (Char.ofNat n).toNat = n := by
  have : n.isValidChar := by left; omega
  simp [Char.ofNat, this, Char.ofNatAux, Char.toNat]

theorem lowerC_idem (c : Char) : lowerC (lowerC c) = lowerC c := by
  unfold lowerC
  split
  · rename_i h
    have := ofNat_toNat_small (n := c.toNat + 32) (by omega)
    rw [if_neg]
    rw [this]; omega
  · rfl

theorem lower_lower (s : Str) : lower (lower s) = lower s := by
  simp [lower, List.map_map, Function.comp_def, lowerC_idem]

theorem lower_append (a b : Str) : lower (a ++ b) = lower a ++ lower b := by simp [lower]

theorem lower_nil_iff {s : Str} : lower s = [] ↔ s = [] := by simp [lower]

/-! ### `startsWith`, `beforeSep2` -/

theorem startsWith_append (p r : Str) : startsWith (p ++ r) p = true := by
  induction p with
  | nil => cases r <;> rfl
  | cons c p ih => simp [startsWith, ih]

theorem startsWith_self (p : Str) : startsWith p p = true := by
  have := startsWith_append p []; simpa using this

theorem startsWith_trans_append {s p : Str} (r : Str) (h : startsWith s p = true) : startsWith (s ++ r) p = true := by
  induction p generalizing s with
  | nil => cases s <;> cases r <;> rfl
  | cons c p ih =>
    cases s with
    | nil => simp [startsWith] at h
    | cons a s =>
      simp only [startsWith, Bool.and_eq_true] at h
      simp [startsWith, h.1, ih h.2]

theorem beforeSep2_append : ∀ (u r : Str), noSep u = true → beforeSep2 ':' ':' (u ++ ':' :: ':' :: r) = u := by
  intro u
  induction u with
  | nil => intro r _; simp [beforeSep2]
  | cons c u ih =>
    intro r h
    cases u with
    | nil =>
      simp only [noSep, bne_iff_ne, ne_eq] at h
      simp [beforeSep2, h]
    | cons d u' =>
      simp only [noSep, Bool.and_eq_true, Bool.not_eq_true', Bool.and_eq_false_iff, beq_eq_false_iff_ne] at h
      have ih' := ih r h.2
      simp only [List.cons_append] at ih' ⊢
      rw [beforeSep2]
      have : ¬ (c = ':' ∧ d = ':') := by
        rcases h.1 with h1 | h1
        · exact fun e => h1 e.1
        · exact fun e => h1 e.2
      rw [if_neg this, ih']

theorem beforeSep2_self : ∀ (u : Str), noSep u = true → beforeSep2 ':' ':' u = u := by
  intro u
  induction u with
  | nil => intro _; rfl
  | cons c u ih =>
    intro h
    cases u with
    | nil => rfl
    | cons d u' =>
      simp only [noSep, Bool.and_eq_true, Bool.not_eq_true', Bool.and_eq_false_iff, beq_eq_false_iff_ne] at h
      rw [beforeSep2]
      have : ¬ (c = ':' ∧ d = ':') := by
        rcases h.1 with h1 | h1
        · exact fun e => h1 e.1
        · exact fun e => h1 e.2
      rw [if_neg this, ih h.2]

end Upnp.C13
