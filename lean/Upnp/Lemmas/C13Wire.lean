/-
  C13 — `parsePacket` (how the driver reads the implementation's datagrams) inverts `packet`
  (`build_ssdp_packet`) on CR-free text with colon-free header names.
-/
import Upnp.Model.C13Run
namespace Upnp.C13

theorem splitCrlf_cons_ne {c : Char} (hc : c ≠ '\r') (r : Str) :
    splitCrlf (c :: r) = match splitCrlf r with | [] => [[c]] | l :: ls => (c :: l) :: ls := by
  cases r with
  | nil => simp [splitCrlf]
  | cons d r' =>
    rw [splitCrlf]
    all_goals first | rfl | (intros; simp_all)

theorem splitCrlf_append (a r : Str) (ha : '\r' ∉ a) :
    splitCrlf (a ++ '\r' :: '\n' :: r) = a :: splitCrlf r := by
  induction a with
  | nil => simp [splitCrlf]
  | cons c a ih =>
    simp only [List.mem_cons, not_or] at ha
    rw [List.cons_append, splitCrlf_cons_ne (Ne.symm ha.1), ih ha.2]

theorem splitCrlf_lines (ls : List Str) (tail : Str) (h : ∀ l ∈ ls, '\r' ∉ l) :
    splitCrlf (crlf.intercalate ls ++ crlf ++ tail) = (if ls = [] then [[]] else ls) ++ splitCrlf tail := by
  induction ls with
  | nil => simp [List.intercalate, crlf, splitCrlf]
  | cons a ls ih =>
    cases ls with
    | nil =>
      have := splitCrlf_append a tail (h a (by simp))
      simpa [List.intercalate, crlf] using this
    | cons b ls' =>
      have ih' := ih (fun l hl => h l (List.mem_cons_of_mem _ hl))
      simp only [reduceCtorEq, if_false] at ih' ⊢
      have e : crlf.intercalate (a :: b :: ls') ++ crlf ++ tail
          = a ++ '\r' :: '\n' :: (crlf.intercalate (b :: ls') ++ crlf ++ tail) := by
        simp [List.intercalate, crlf, List.intersperse]
      rw [e, splitCrlf_append a _ (h a (by simp)), ih']
      rfl

theorem splitColon_append (k v : Str) (hk : ':' ∉ k) : splitColon (k ++ ':' :: v) = some (k, v) := by
  induction k with
  | nil => simp [splitColon]
  | cons c k ih =>
    simp only [List.mem_cons, not_or] at hk
    simp [splitColon, Ne.symm hk.1, ih hk.2]

/-- **wire round trip**: reading back a packet built by `build_ssdp_packet` returns its start line
    and its headers, in order -/
theorem parsePacket_packet (line : Str) (hs : List (Str × Str)) (hl : '\r' ∉ line)
    (hh : ∀ h ∈ hs, ':' ∉ h.1 ∧ '\r' ∉ h.1 ∧ '\r' ∉ h.2) :
    parsePacket (packet line hs) = some (line, hs) := by
  unfold parsePacket packet
  have hcr : ∀ l ∈ hs.map (fun h => h.1 ++ ':' :: h.2), '\r' ∉ l := by
    intro l hl'
    obtain ⟨h, hm, rfl⟩ := List.mem_map.mp hl'
    obtain ⟨_, h2, h3⟩ := hh h hm
    simp only [List.mem_append, List.mem_cons, not_or]
    exact ⟨h2, by decide, h3⟩
  have e : line ++ crlf ++ crlf.intercalate (hs.map fun h => h.1 ++ ':' :: h.2) ++ crlf ++ crlf
      = line ++ '\r' :: '\n' :: (crlf.intercalate (hs.map fun h => h.1 ++ ':' :: h.2) ++ crlf ++ crlf) := by
    simp [crlf]
  rw [e, splitCrlf_append line _ hl, splitCrlf_lines _ _ hcr]
  have e2 : splitCrlf crlf = [[], []] := by simp [crlf, splitCrlf]
  rw [e2]
  simp only [Option.some.injEq, Prod.mk.injEq, true_and]
  have hne : ∀ h ∈ hs, (h.1 ++ ':' :: h.2 ≠ []) := by intro h _; simp
  have hfilter : ((if hs.map (fun h : Str × Str => h.1 ++ ':' :: h.2) = [] then [[]]
        else hs.map (fun h : Str × Str => h.1 ++ ':' :: h.2)) ++ [[], []]).filter (· ≠ [])
      = hs.map (fun h : Str × Str => h.1 ++ ':' :: h.2) := by
    split
    · rename_i h0; simp [h0]
    · rw [List.filter_append]
      have : (hs.map fun h => h.1 ++ ':' :: h.2).filter (· ≠ []) = hs.map fun h => h.1 ++ ':' :: h.2 := by
        rw [List.filter_eq_self]
        intro l hl'
        obtain ⟨h, _, rfl⟩ := List.mem_map.mp hl'
        simp
      rw [this]; simp
  rw [hfilter]
  clear hfilter e hcr
  induction hs with
  | nil => rfl
  | cons h hs ih =>
    simp only [List.map_cons, List.filterMap_cons]
    rw [splitColon_append _ _ (hh h (by simp)).1]
    simp only [List.cons.injEq, true_and]
    exact ih (fun h' hm => hh h' (List.mem_cons_of_mem _ hm)) (fun h' hm => hne h' (List.mem_cons_of_mem _ hm))

end Upnp.C13
