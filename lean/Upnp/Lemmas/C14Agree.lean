/-
  C14 ↔ C08 codec agreement: the texts C14's `out` writes are the texts `C08.coerceUpnp` (the coercer
  C06 / C07 now use) writes — proved for the integer, string and boolean families (incl. a `bool`
  under an integer type); for float / date / time values, whose text C14 carries as a
  harness-supplied canonical string, it is the per-value statement `ValAgree`.
-/
import Upnp.Lemmas.C14Call06
namespace Upnp.C14
open Upnp

/-- C14's decimal writer (fuel + accumulator) writes C08's digits -/
theorem natDigits_eq : ∀ (fuel n : Nat) (acc : Str), n < fuel →
    natDigits fuel n acc = ((C08.digitsRev fuel n).reverse.map C08.dc) ++ acc := by
  intro fuel
  induction fuel with
  | zero => intro n acc h; omega
  | succ f ih =>
    intro n acc h
    by_cases h10 : n < 10
    · simp [natDigits, C08.digitsRev, h10, C08.dc]
    · have hlt : n / 10 < f := by omega
      simp only [natDigits, C08.digitsRev, h10, ↓reduceIte, List.reverse_cons, List.map_append, List.map_cons,
        List.map_nil, List.append_assoc, List.cons_append, List.nil_append]
      rw [ih (n / 10) _ hlt]
      rfl

theorem decOfNat_eq (n : Nat) : decOfNat n = C08.decNat n := by
  unfold decOfNat C08.decNat C08.natDigits
  rw [natDigits_eq (n + 1) n [] (by omega)]
  simp

theorem decOfInt_eq (i : Int) : decOfInt i = C08.decInt i := by
  cases i with
  | ofNat n =>
    have : ¬ (Int.ofNat n < 0) := by simp
    simp [decOfInt, C08.decInt, decOfNat_eq]
  | negSucc n =>
    have : Int.negSucc n < 0 := Int.negSucc_lt_zero n
    simp [decOfInt, C08.decInt, this, decOfNat_eq, Int.natAbs]

/-- the text C08's `coerce_upnp` writes for `w` under `row` is the text C14's `out` writes for `v` -/
def ValAgree (O : C06.Oracles) (row : C06.TypeRow) (v : Val) (w : C06.PyVal) : Prop :=
  C06.coerceUpnp O row w = .ok (out v)

theorem agree_int (O : C06.Oracles) (row : C06.TypeRow) (h : row.outK = .strInt) (n : Int)
    (hs : (C08.natDigits n.natAbs).length ≤ C08.maxStrDigits) : ValAgree O row (.int n) (.int n) := by
  have : ¬ ((C08.natDigits n.natAbs).length > C08.maxStrDigits) := by omega
  simp [ValAgree, C06.coerceUpnp, C08.coerceUpnp, h, C08.pyIntOf, C08.intStr, this, out, decOfInt_eq]

theorem agree_bool_as_int (O : C06.Oracles) (row : C06.TypeRow) (h : row.outK = .strInt) (b : Bool) :
    ValAgree O row (.bool b) (.bool b) := by
  have h0 : C08.intStr 0 = .ok ['0'] := rfl
  have h1 : C08.intStr 1 = .ok ['1'] := rfl
  cases b <;> simp [ValAgree, C06.coerceUpnp, C08.coerceUpnp, h, C08.pyIntOf, h0, h1, out]

theorem agree_str (O : C06.Oracles) (row : C06.TypeRow) (h : row.outK = .str) (s : Str) :
    ValAgree O row (.str s) (.str s) := by
  simp [ValAgree, C06.coerceUpnp, C08.coerceUpnp, h, C08.pyStr, out]

theorem agree_bool (O : C06.Oracles) (row : C06.TypeRow) (h : row.outK = .ifElse ['1'] ['0']) (b : Bool) :
    ValAgree O row (.bool b) (.bool b) := by
  cases b <;> simp [ValAgree, C06.coerceUpnp, C08.coerceUpnp, h, C08.truthy, out]

/-- **`hagree` discharged**: argument by argument agreement gives the agreement of the whole
    argument list `C06.coerceArgs` renders -/
theorem hagree_of_agree (O : C06.Oracles) (decls : SArg → C06.VarDecl) (kw : C06.Kwargs)
    (args : List (Str × Val)) (ins : List SArg)
    (h : ∀ x ∈ ins, ∃ w, kw.lookup x.name = some w ∧ ValAgree O (decls x).row (argVal args x) w) :
    C06.coerceArgs O (ins.map fun x => ⟨x.name, true, decls x⟩) kw
      = .ok (ins.map fun x => (x.name, out (argVal args x))) := by
  induction ins with
  | nil => rfl
  | cons x r ih =>
    obtain ⟨w, hw, ha⟩ := h x List.mem_cons_self
    have := ih (fun y hy => h y (List.mem_cons_of_mem _ hy))
    unfold ValAgree at ha
    simp only [List.map_cons, C06.coerceArgs, hw, ha, this]

end Upnp.C14
