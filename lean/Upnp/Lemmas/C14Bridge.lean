/-
  C14 ↔ C05 bridge lemmas: `client_factory`'s merged model (C05) reads the documents served by the
  C14 server model exactly as it reads C05's canonical rendering of the description they denote.
-/
import Upnp.Model.C14Bridge
import Upnp.Lemmas.C14Svc
import Upnp.Lemmas.C05Service
namespace Upnp.C14
open Upnp

theorem x05L_map (l : List Xml) : x05L l = l.map x05 := by
  induction l with
  | nil => simp [x05L]
  | cons e r ih => simp [x05L, ih]

@[simp] theorem x05Ns_svc : x05Ns svcNs = .service := by decide
@[simp] theorem x05Ns_dev : x05Ns devNs = .device := by decide
@[simp] theorem x05Ns_sq (t : String) : x05Ns (sq t).ns = .service := x05Ns_svc
@[simp] theorem x05Tag_scpd : x05Tag (sq "scpd").name = .scpd := by decide
@[simp] theorem x05Tag_actionList : x05Tag (sq "actionList").name = .actionList := by decide
@[simp] theorem x05Tag_action : x05Tag (sq "action").name = .action := by decide
@[simp] theorem x05Tag_name : x05Tag (sq "name").name = .name := by decide
@[simp] theorem x05Tag_argumentList : x05Tag (sq "argumentList").name = .argumentList := by decide
@[simp] theorem x05Tag_argument : x05Tag (sq "argument").name = .argument := by decide
@[simp] theorem x05Tag_direction : x05Tag (sq "direction").name = .direction := by decide
@[simp] theorem x05Tag_relatedStateVariable : x05Tag (sq "relatedStateVariable").name = .relatedStateVariable := by decide
@[simp] theorem x05Tag_serviceStateTable : x05Tag (sq "serviceStateTable").name = .serviceStateTable := by decide
@[simp] theorem x05Tag_stateVariable : x05Tag (sq "stateVariable").name = .stateVariable := by decide
@[simp] theorem x05Tag_dataType : x05Tag (sq "dataType").name = .dataType := by decide
@[simp] theorem x05Tag_allowedValueList : x05Tag (sq "allowedValueList").name = .allowedValueList := by decide
@[simp] theorem x05Tag_allowedValue : x05Tag (sq "allowedValue").name = .allowedValue := by decide
@[simp] theorem x05Tag_allowedValueRange : x05Tag (sq "allowedValueRange").name = .allowedValueRange := by decide
@[simp] theorem x05Tag_minimum : x05Tag (sq "minimum").name = .minimum := by decide
@[simp] theorem x05Tag_maximum : x05Tag (sq "maximum").name = .maximum := by decide
@[simp] theorem x05Tag_defaultValue : x05Tag (sq "defaultValue").name = .defaultValue := by decide
@[simp] theorem x05Tag_specVersion : x05Tag (sq "specVersion").name = .other "specVersion".toList := by decide
@[simp] theorem x05Tag_major : x05Tag (sq "major").name = .other "major".toList := by decide
@[simp] theorem x05Tag_minor : x05Tag (sq "minor").name = .other "minor".toList := by decide

@[simp] theorem x05_node (t : QName) (a : List (QName × Str)) (x : Option Str) (k : List Xml) :
    x05 (.node t a x k) = .node (x05Ns t.ns) (x05Tag t.name)
      ((a.find? (fun p => p.1 = plain "sendEvents".toList)).map (·.2)) x (k.map x05) := by
  simp [x05, x05L_map]


section
variable {F : Type} (fo : C08.FloatOps F) (tb : C08.Table)

theorem allowed_texts_bridge (A : List Val) :
    (List.filter (C05.Xml.isNamed .service .allowedValue)
      (List.map (fun v => C05.Xml.node .service .allowedValue none (textOf (pyStr v)) []) A)).map (·.text)
    = (A.map pyStr).map (fun s => if s.isEmpty then none else some s) := by
  induction A with
  | nil => rfl
  | cons v r ih =>
    simp only [List.map_cons, List.filter_cons, C05.Xml.isNamed, C05.Xml.ns, C05.Xml.tag, beq_self_eq_true,
      Bool.and_self, ↓reduceIte]
    rw [ih]
    simp [C05.Xml.text, textOf]

/-- `client_factory` (merged model) reads the served `<stateVariable>` as it reads C05's canonical
    rendering of `specOfVar`: both are `varOf` of the same pieces -/
theorem createVar_bridge (nonStrict : Bool) (fs : Facts) (vd : VarDef) :
    C05.createVar fo tb nonStrict (x05 (serializeVar fs vd)) = C05.mirrorVar fo tb nonStrict (specOfVar fs vd) := by
  unfold C05.createVar C05.mirrorVar serializeVar specOfVar
  generalize dedupPy (allowedVals fs vd) = A
  generalize typed fs vd.dtype vd.min = mn
  generalize typed fs vd.dtype vd.max = mx
  generalize typed fs vd.dtype vd.default = df
  have hal := allowed_texts_bridge A
  simp only [C05.Xml.text, List.map_map, Function.comp_def, List.isEmpty_iff] at hal
  cases hA : A.isEmpty <;> cases mn <;> cases mx <;> cases df <;> cases hev : vd.evented <;>
    simp [leaf, C05.Xml.find, C05.Xml.findtext, C05.Xml.findall, C05.Xml.children, C05.Xml.sendEvents,
      C05.Xml.isNamed, C05.Xml.ns, C05.Xml.tag, C05.Xml.text, textOf_getD, hA, hal, Function.comp_def]


/-! ### actions -/

theorem x05_arg_fields (dir : String) (x : SArg) :
    (x05 (serializeArg dir x)).findtext .service .name = some x.name
    ∧ (x05 (serializeArg dir x)).findtext .service .direction = some dir.toList
    ∧ (x05 (serializeArg dir x)).findtext .service .relatedStateVariable = some x.var.name := by
  refine ⟨?_, ?_, ?_⟩ <;>
    simp [serializeArg, leaf, C05.Xml.findtext, C05.Xml.find, C05.Xml.children, C05.Xml.isNamed, C05.Xml.ns,
      C05.Xml.tag, C05.Xml.text, textOf_getD]

theorem x05_arg_named (dir : String) (x : SArg) :
    C05.Xml.isNamed .service .argument (x05 (serializeArg dir x)) = true := by
  simp [serializeArg, C05.Xml.isNamed, C05.Xml.ns, C05.Xml.tag]

theorem parseArgs_bridge (a : SAct) :
    C05.parseArgs (x05 (serializeAct a)) = C05.parseArgs (C05.renderAction (specOfAct a)) := by
  rw [C05.parseArgs_render]
  have hall : (x05 (serializeAct a)).findall2 .service .argumentList .argument
      = (a.ins.map (serializeArg "in") ++ a.outs.map (serializeArg "out")).map x05 := by
    have hn : ∀ l : List Xml, (∀ e ∈ l, C05.Xml.isNamed .service .argument (x05 e) = true) →
        (l.map x05).filter (C05.Xml.isNamed .service .argument) = l.map x05 := by
      intro l h
      apply List.filter_eq_self.mpr
      intro y hy; obtain ⟨e, he, rfl⟩ := List.mem_map.mp hy; exact h e he
    have hnamed : ∀ e ∈ a.ins.map (serializeArg "in") ++ a.outs.map (serializeArg "out"),
        C05.Xml.isNamed .service .argument (x05 e) = true := by
      intro e he
      rcases List.mem_append.mp he with h | h <;> (obtain ⟨x, _, rfl⟩ := List.mem_map.mp h; exact x05_arg_named _ x)
    by_cases he : (a.ins.isEmpty && a.outs.isEmpty) = true
    · have he' := he
      simp only [Bool.and_eq_true, List.isEmpty_iff] at he'
      simp [serializeAct, he, he'.1, he'.2, leaf, C05.Xml.findall2, C05.Xml.findall, C05.Xml.children,
        C05.Xml.isNamed, C05.Xml.ns, C05.Xml.tag]
    · simp only [serializeAct, he, Bool.false_eq_true, ↓reduceIte]
      simp only [x05_node, List.map_cons, List.map_nil, leaf, C05.Xml.findall2, C05.Xml.findall, C05.Xml.children,
        x05Ns_sq, x05Tag_name, x05Tag_argumentList, List.filter_cons, C05.Xml.isNamed, C05.Xml.ns, C05.Xml.tag]
      simp only [beq_self_eq_true, Bool.true_and, List.filter_nil, List.flatMap_cons, List.flatMap_nil,
        List.append_nil, show (C05.Tag.name == C05.Tag.argumentList) = false from rfl, Bool.false_eq_true, ↓reduceIte]
      exact hn _ hnamed
  unfold C05.parseArgs
  rw [hall, List.filterMap_map]
  simp only [specOfAct, List.map_append, List.filterMap_append, List.filterMap_map]
  have hfm : ∀ (dir : String) (l : List SArg),
      List.filterMap ((fun g => C05.completeArg (g.findtext .service .name) (g.findtext .service .direction)
        ((g.findtext .service .relatedStateVariable).map C05.stripWs)) ∘ x05 ∘ serializeArg dir) l
      = List.filterMap ((fun g => C05.completeArg g.name g.direction (g.related.map C05.stripWs)) ∘ specOfArg dir) l := by
    intro dir l
    congr 1
    funext x
    obtain ⟨h1, h2, h3⟩ := x05_arg_fields dir x
    simp [Function.comp, h1, h2, h3, specOfArg]
  simp only [Function.comp_def] at hfm ⊢
  rw [hfm, hfm]

theorem actionName_bridge (a : SAct) :
    (x05 (serializeAct a)).findtext .service .name = some a.name := by
  by_cases he : (a.ins.isEmpty && a.outs.isEmpty) = true <;>
    simp [serializeAct, he, leaf, C05.Xml.findtext, C05.Xml.find, C05.Xml.children, C05.Xml.isNamed, C05.Xml.ns,
      C05.Xml.tag, C05.Xml.text, textOf_getD]

theorem createAction_bridge (vars : List (C05.VarM F)) (a : SAct) :
    C05.createAction vars (x05 (serializeAct a)) = C05.createAction vars (C05.renderAction (specOfAct a)) := by
  unfold C05.createAction
  rw [parseArgs_bridge, actionName_bridge, C05.actionName_render]
  rfl

theorem x05_act_named (a : SAct) : C05.Xml.isNamed .service .action (x05 (serializeAct a)) = true := by
  simp [serializeAct, C05.Xml.isNamed, C05.Xml.ns, C05.Xml.tag]

theorem x05_var_named (fs : Facts) (vd : VarDef) :
    C05.Xml.isNamed .service .stateVariable (x05 (serializeVar fs vd)) = true := by
  simp [serializeVar, C05.Xml.isNamed, C05.Xml.ns, C05.Xml.tag]


/-! ### the whole SCPD -/

theorem filter_map_x05 {n : C05.Ns} {t : C05.Tag} {α : Type} (g : α → Xml) (l : List α)
    (h : ∀ a, C05.Xml.isNamed n t (x05 (g a)) = true) :
    (l.map (fun a => x05 (g a))).filter (C05.Xml.isNamed n t) = l.map (fun a => x05 (g a)) := by
  apply List.filter_eq_self.mpr
  intro y hy; obtain ⟨a, _, rfl⟩ := List.mem_map.mp hy; exact h a

theorem createVars_bridge (nonStrict : Bool) (fs : Facts) (vars : List VarDef) (sacts : List SAct) :
    C05.createVars fo tb nonStrict (x05 (serializeScpd fs vars sacts))
      = C05.createVars fo tb nonStrict (C05.renderScpd (specOfScpd fs vars sacts)) := by
  rw [C05.createVars_render]
  have hf := filter_map_x05 (n := .service) (t := .stateVariable) (serializeVar fs) vars (x05_var_named fs)
  simp only [specOfScpd]
  simp only [C05.createVars, serializeScpd, specVersion, x05_node, List.map_cons, List.map_nil, List.map_map,
    Function.comp_def, C05.Xml.find, C05.Xml.findall, C05.Xml.children, List.find?_cons, C05.Xml.isNamed, C05.Xml.ns,
    C05.Xml.tag, x05Ns_sq, x05Tag_specVersion, x05Tag_actionList, x05Tag_serviceStateTable]
  simp only [beq_self_eq_true, Bool.true_and, show (C05.Tag.other "specVersion".toList == C05.Tag.serviceStateTable) = false from rfl,
    show (C05.Tag.actionList == C05.Tag.serviceStateTable) = false from rfl]
  rw [hf, C05.mapE_map, C05.mapE_map]
  exact C05.mapE_congr _ _ vars (fun v _ => createVar_bridge fo tb nonStrict fs v)

theorem createActions_bridge (nonStrict : Bool) (cvars : List (C05.VarM F)) (fs : Facts) (vars : List VarDef)
    (sacts : List SAct) :
    C05.createActions nonStrict cvars (x05 (serializeScpd fs vars sacts))
      = C05.createActions nonStrict cvars (C05.renderScpd (specOfScpd fs vars sacts)) := by
  have hf := filter_map_x05 (n := .service) (t := .action) serializeAct sacts x05_act_named
  have hr : (sacts.map (fun a => C05.renderAction (specOfAct a))).filter (C05.Xml.isNamed .service .action)
      = sacts.map (fun a => C05.renderAction (specOfAct a)) := by
    apply List.filter_eq_self.mpr
    intro y hy; obtain ⟨a, _, rfl⟩ := List.mem_map.mp hy; rfl
  have lhs : C05.createActions nonStrict cvars (x05 (serializeScpd fs vars sacts))
      = C05.mapE (C05.createAction cvars) (sacts.map (fun a => x05 (serializeAct a))) := by
    simp only [C05.createActions, serializeScpd, specVersion, x05_node, List.map_cons, List.map_nil, List.map_map,
      Function.comp_def, C05.Xml.find, C05.Xml.findall, C05.Xml.children, List.find?_cons, C05.Xml.isNamed, C05.Xml.ns,
      C05.Xml.tag, x05Ns_sq, x05Tag_specVersion, x05Tag_actionList, x05Tag_serviceStateTable]
    simp only [beq_self_eq_true, Bool.true_and, show (C05.Tag.other "specVersion".toList == C05.Tag.serviceStateTable) = false from rfl,
      show (C05.Tag.actionList == C05.Tag.serviceStateTable) = false from rfl,
      show (C05.Tag.other "specVersion".toList == C05.Tag.actionList) = false from rfl, Option.isNone_some, Bool.and_false,
      Bool.false_eq_true, ↓reduceIte]
    rw [hf]
  have rhs : C05.createActions nonStrict cvars (C05.renderScpd (specOfScpd fs vars sacts))
      = C05.mapE (C05.createAction cvars) (sacts.map (fun a => C05.renderAction (specOfAct a))) := by
    simp [C05.createActions, C05.renderScpd, specOfScpd, C05.Xml.find, C05.Xml.findall, C05.Xml.children,
      C05.Xml.isNamed, C05.Xml.ns, C05.Xml.tag, List.map_map, Function.comp_def]
    rw [hr]
  rw [lhs, rhs]
  rw [C05.mapE_map, C05.mapE_map]
  exact C05.mapE_congr _ _ sacts (fun a _ => createAction_bridge cvars a)

/-- **The merged factory model cannot tell the C14 server's SCPD from C05's canonical rendering of
    the description it denotes.** -/
theorem serviceBody_bridge (nonStrict : Bool) (fs : Facts) (vars : List VarDef) (sacts : List SAct) :
    C05.serviceBody fo tb nonStrict (.doc (x05 (serializeScpd fs vars sacts)))
      = C05.serviceBody fo tb nonStrict (C05.renderDoc (.scpd (specOfScpd fs vars sacts))) := by
  have hroot : C05.Xml.isNamed .service .scpd (x05 (serializeScpd fs vars sacts)) = true := by
    simp [serializeScpd, C05.Xml.isNamed, C05.Xml.ns, C05.Xml.tag]
  have hroot' : C05.Xml.isNamed .service .scpd (C05.renderScpd (specOfScpd fs vars sacts)) = true := rfl
  unfold C05.serviceBody
  simp only [C05.renderDoc, hroot, hroot', createVars_bridge, createActions_bridge]


/-! ### relating the C14 judge's view to C05's mirror -/

def seOf (sa se : Option Str) : Bool :=
  match sa with
  | some a => a == ['y', 'e', 's']
  | none => match se with
    | some e => e == ['y', 'e', 's']
    | none => false

theorem varOf_header (nonStrict : Bool) (sa se dt df nm : Option Str) (rg : Option (Option Str × Option Str))
    (al : Option (List (Option Str))) (m : C05.VarM F) (h : C05.varOf fo tb nonStrict sa se dt df nm rg al = .ok m) :
    m.name = C05.stripWs (nm.getD []) ∧ some m.dataType = dt
    ∧ m.sendEvents = seOf sa se := by
  unfold C05.varOf at h
  cases dt with
  | none => simp at h
  | some d =>
    simp only at h
    cases hr : tb.row? d with
    | none => simp [hr] at h
    | some row =>
      simp only [hr] at h
      cases hs : C08.mkSchema fo tb row (!nonStrict)
          { range := rg, allowed := al.map (C05.allowedTexts (row.ty == .str)), default := df } with
      | error e => simp [hs] at h
      | ok sc =>
        simp only [hs, Except.ok.injEq] at h
        subst h
        exact ⟨rfl, rfl, rfl⟩

/-- the variable object C05's mirror holds for the served description of `vd` carries the
    definition's name, data type and evented flag — the untyped part of C14's `varMatches` -/
theorem mirror_var_header (nonStrict : Bool) (fs : Facts) (vd : VarDef) (m : C05.VarM F)
    (h : C05.mirrorVar fo tb nonStrict (specOfVar fs vd) = .ok m) :
    m.name = C05.stripWs vd.name ∧ m.dataType = vd.dtype ∧ m.sendEvents = vd.evented := by
  obtain ⟨h1, h2, h3⟩ := varOf_header fo tb nonStrict _ _ _ _ _ _ _ m h
  refine ⟨by simpa [specOfVar] using h1, by simpa [specOfVar] using h2, ?_⟩
  rw [h3]
  cases hv : vd.evented <;> simp [specOfVar, hv, seOf] <;> decide

end
end Upnp.C14
