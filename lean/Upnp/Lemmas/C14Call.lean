/-
  C14 helper lemmas: a call written by the client (`createRequest`) is read by the server
  (`parseActionBody`) as the same typed values; a response written by the server is read by the
  client as the handler's typed results.
-/
import Upnp.Lemmas.C14Ctl
namespace Upnp.C14
open Upnp PyDict

instance : Inhabited Val := ⟨.int 0⟩

/-! ### the SOAPAction header -/

theorem splitHash_noHash {s : Str} (h : '#' ∉ s) : splitHash s = [s] := by
  induction s with
  | nil => rfl
  | cons c r ih =>
    have hc : c ≠ '#' := fun e => h (by simp [e])
    have hr : '#' ∉ r := fun e => h (List.mem_cons_of_mem _ e)
    simp [splitHash, ih hr, hc]

theorem splitHash_mid {a b : Str} (ha : '#' ∉ a) (hb : '#' ∉ b) : splitHash (a ++ '#' :: b) = [a, b] := by
  induction a with
  | nil => simp [splitHash, splitHash_noHash hb]
  | cons c r ih =>
    have hc : c ≠ '#' := fun e => ha (by simp [e])
    have hr : '#' ∉ r := fun e => ha (List.mem_cons_of_mem _ e)
    simp [splitHash, ih hr, hc]

theorem dropWhile_quote_of_head {m : Str} (h : ∀ c r, m = c :: r → c ≠ '"') :
    m.dropWhile (· = '"') = m := by
  cases m with
  | nil => rfl
  | cons c r => simp [List.dropWhile, h c r rfl]

theorem stripQuotes_quoted {m : Str} (hne : m ≠ []) (h : ∀ c ∈ m, c ≠ '"') :
    stripQuotes ('"' :: m ++ ['"']) = m := by
  unfold stripQuotes
  have h1 : ('"' :: m ++ ['"']).dropWhile (· = '"') = m ++ ['"'] := by
    cases m with
    | nil => exact absurd rfl hne
    | cons c r => simp [List.dropWhile, h c (by simp)]
  rw [h1]
  have h2 : (m ++ ['"']).reverse = '"' :: m.reverse := by simp
  rw [h2]
  have h3 : ('"' :: m.reverse).dropWhile (· = '"') = m.reverse := by
    cases hr : m.reverse with
    | nil => simp at hr; exact absurd hr hne
    | cons c r =>
      have : c ∈ m := List.mem_reverse.mp (by simp [hr])
      simp [List.dropWhile, h c this]
  rw [h3, List.reverse_reverse]

theorem header_roundtrip {stype name : Str} (h1 : '#' ∉ stype) (h2 : '"' ∉ stype) (h3 : '#' ∉ name) (h4 : '"' ∉ name) :
    splitHash (stripQuotes ('"' :: stype ++ '#' :: name ++ ['"'])) = [stype, name] := by
  have e : '"' :: stype ++ '#' :: name ++ ['"'] = '"' :: (stype ++ '#' :: name) ++ ['"'] := by simp
  rw [e, stripQuotes_quoted (by simp)]
  · exact splitHash_mid h1 h3
  · intro c hc
    simp only [List.mem_append, List.mem_cons] at hc
    rcases hc with hc | rfl | hc
    · exact fun e => h2 (e ▸ hc)
    · decide
    · exact fun e => h4 (e ▸ hc)

/-! ### request arguments -/

/-- the value the caller passes for an argument -/
def argVal (args : List (Str × Val)) (a : SArg) : Val := (get? args a.name).getD default

/-- the argument elements the client writes -/
def argEls (args : List (Str × Val)) (l : List SArg) : List Xml :=
  l.map fun a => leaf (plain a.name) (out (argVal args a))

/-- every in-argument is supplied with a value that passes the schema and survives the wire -/
def ArgsOk (fs : Facts) (args : List (Str × Val)) (l : List SArg) : Prop :=
  ∀ a ∈ l, ∃ v, get? args a.name = some v ∧ schemaOk fs a.var v = true
    ∧ inp fs a.var.dtype (out v) = some v

theorem requestArgs_ok {fs : Facts} {args : List (Str × Val)} {l : List SArg} (h : ArgsOk fs args l) :
    requestArgs fs l args = .ok (argEls args l) := by
  induction l with
  | nil => rfl
  | cons a r ih =>
    obtain ⟨v, hv, hs, _⟩ := h a List.mem_cons_self
    have := ih (fun x hx => h x (List.mem_cons_of_mem _ hx))
    simp [requestArgs, hv, hs, this, argEls, argVal]

theorem parseArgs_cons_leaf {fs : Facts} {act : SAct} (a : SArg) (v : Val) (rest : List Xml) (kw : PyDict Str Val)
    (hf : act.ins.find? (fun x => x.name = a.name) = some a) (hrt : inp fs a.var.dtype (out v) = some v) :
    parseArgs fs act (leaf (plain a.name) (out v) :: rest) kw = parseArgs fs act rest (set kw a.name v) := by
  have e1 : (leaf (plain a.name) (out v)).tag = ⟨[], a.name⟩ := rfl
  have e2 : (leaf (plain a.name) (out v)).text.getD [] = out v := by simp [leaf, Xml.text, textOf_getD]
  rw [parseArgs, e1, e2]
  simp only [ne_eq, not_true_eq_false, ↓reduceIte]
  rw [hf]
  simp only [hrt]

/-- the server reads the argument elements back into the keyword dictionary -/
theorem parseArgs_argEls {fs : Facts} {act : SAct} {args : List (Str × Val)} (l : List SArg)
    (hfind : ∀ a ∈ l, act.ins.find? (fun x => x.name = a.name) = some a)
    (hok : ArgsOk fs args l) (kw0 : PyDict Str Val) :
    parseArgs fs act (argEls args l) kw0 =
      parseArgs fs act [] ((l.map fun a => (a.name, argVal args a)).foldl (fun acc p => set acc p.1 p.2) kw0) := by
  induction l generalizing kw0 with
  | nil => rfl
  | cons a r ih =>
    obtain ⟨v, hv, _, hrt⟩ := hok a List.mem_cons_self
    have hf := hfind a List.mem_cons_self
    have hav : argVal args a = v := by simp [argVal, hv]
    have ih' := ih (fun x hx => hfind x (List.mem_cons_of_mem _ hx))
      (fun x hx => hok x (List.mem_cons_of_mem _ hx)) (set kw0 a.name v)
    simp only [argEls, List.map_cons, List.foldl_cons, hav] at ih' ⊢
    rw [← ih']
    exact parseArgs_cons_leaf a v _ kw0 hf hrt


theorem find_self_of_nodup {l : List SArg} (hnd : (l.map (·.name)).Nodup) {a : SArg} (ha : a ∈ l) :
    l.find? (fun x => x.name = a.name) = some a := by
  induction l with
  | nil => cases ha
  | cons b r ih =>
    simp only [List.map_cons, List.nodup_cons] at hnd
    simp only [List.mem_cons] at ha
    rcases ha with rfl | ha
    · simp
    · have hne : b.name ≠ a.name := by
        intro e; exact hnd.1 (e ▸ List.mem_map_of_mem ha)
      simp [List.find?, hne, ih hnd.2 ha]

/-- the keyword dictionary the handler is called with -/
def kwOf (args : List (Str × Val)) (act : SAct) : PyDict Str Val :=
  PyDict.ofList (act.ins.map fun a => (a.name, argVal args a))

theorem get?_kwOf {args : List (Str × Val)} {act : SAct} (hnd : (act.ins.map (·.name)).Nodup)
    {a : SArg} (ha : a ∈ act.ins) : get? (kwOf args act) a.name = some (argVal args a) := by
  unfold kwOf
  have hk : (keys (act.ins.map fun a => (a.name, argVal args a))) = act.ins.map (·.name) := by
    simp [keys, List.map_map, Function.comp_def]
  rw [get?_ofList, get?_reverse_nodup _ (by rw [hk]; exact hnd)]
  apply get?_of_mem_nodup (by rw [hk]; exact hnd)
  exact List.mem_map.mpr ⟨a, ha, rfl⟩

theorem find_body (ks : List Xml) :
    (envelope ks).find (soapq "Body") = some (.node (soapq "Body") [] none ks) := by
  simp [envelope, Xml.find, Xml.kids, Xml.tag]

/-- the request `create_request` writes -/
def reqOf (stype : Str) (act : SAct) (args : List (Str × Val)) : Req :=
  { soapAction := some ('"' :: stype ++ '#' :: act.name ++ ['"']),
    body := some (envelope [.node ⟨stype, act.name⟩ [] none (argEls args act.ins)]) }

/-- **request half of the round trip**: the request the client writes for valid arguments is
    parsed by the server into exactly those typed values, passes validation and reaches the handler -/
theorem request_reaches_handler {fs : Facts} {stype : Str} {acts : List SAct} {act : SAct}
    {args : List (Str × Val)}
    (h1 : '#' ∉ stype) (h2 : '"' ∉ stype) (h3 : '#' ∉ act.name) (h4 : '"' ∉ act.name)
    (hfind : acts.find? (fun a => a.name = act.name) = some act)
    (hnd : (act.ins.map (·.name)).Nodup) (hok : ArgsOk fs args act.ins) :
    createRequest fs stype act args = .ok (reqOf stype act args)
      ∧ parseActionBody fs acts (reqOf stype act args) = .ok act (kwOf args act)
      ∧ handlerInput fs acts (reqOf stype act args) = some (act.name, kwOf args act) := by
  refine ⟨by simp [createRequest, requestArgs_ok hok, reqOf], ?_⟩
  have hpa : parseArgs fs act (argEls args act.ins) [] = .ok act (kwOf args act) := by
    rw [parseArgs_argEls act.ins (fun a ha => find_self_of_nodup hnd ha) hok []]
    have hall : act.ins.all (fun a => PyDict.contains (kwOf args act) a.name) = true := by
      simp only [List.all_eq_true]
      intro a ha
      simp [PyDict.contains, get?_kwOf hnd ha]
    simp only [parseArgs]
    unfold kwOf PyDict.ofList PyDict.merge at hall
    simp only [hall, ↓reduceIte]
    rfl
  have hpb : parseActionBody fs acts (reqOf stype act args) = .ok act (kwOf args act) := by
    unfold parseActionBody reqOf
    simp only [Option.getD_some, header_roundtrip h1 h2 h3 h4, find_body, Xml.kids, hfind, hpa]
  refine ⟨hpb, ?_⟩
  unfold handlerInput
  rw [hpb]
  have hv : argsValid fs act (kwOf args act) = true := by
    unfold argsValid
    simp only [List.all_eq_true]
    intro a ha
    obtain ⟨v, hv, hs, _⟩ := hok a ha
    rw [get?_kwOf hnd ha]
    simp [argVal, hv, hs]
  simp [hv]


/-! ### the response -/

/-- the handler's results are out-arguments whose values pass the schema and survive the wire -/
def ValsOk (fs : Facts) (act : SAct) (vals : List (Str × Val)) : Prop :=
  ∀ p ∈ vals, ∃ a, act.outs.find? (fun x => x.name = p.1) = some a ∧ schemaOk fs a.var p.2 = true
    ∧ inp fs a.var.dtype (out p.2) = some p.2

def valEls (vals : List (Str × Val)) : List Xml := vals.map fun p => leaf (plain p.1) (out p.2)

theorem responseKids_ok {fs : Facts} {act : SAct} {vals : List (Str × Val)} (h : ValsOk fs act vals) :
    responseKids fs act vals = .ok (valEls vals) := by
  induction vals with
  | nil => rfl
  | cons p r ih =>
    obtain ⟨k, v⟩ := p
    obtain ⟨a, hf, hs, _⟩ := h (k, v) List.mem_cons_self
    have := ih (fun x hx => h x (List.mem_cons_of_mem _ hx))
    simp only [responseKids]
    rw [hf, this]
    simp [hs, valEls]

theorem respStep_leaf {fs : Facts} {act : SAct} (d : List (Str × Val)) (k : Str) (v : Val) (a : SArg)
    (hf : act.outs.find? (fun x => x.name = k) = some a) (hrt : inp fs a.var.dtype (out v) = some v) :
    respStep fs act (.ok d) (leaf (plain k) (out v)) = .ok (set d k v) := by
  have e1 : (leaf (plain k) (out v)).tag = ⟨[], k⟩ := rfl
  have e2 : (leaf (plain k) (out v)).text.getD [] = out v := by simp [leaf, Xml.text, textOf_getD]
  unfold respStep
  rw [e1, e2]
  simp only [ne_eq, not_true_eq_false, ↓reduceIte]
  rw [hf]
  simp only [hrt]

theorem responseDict_fold {fs : Facts} {act : SAct} {vals : List (Str × Val)} (h : ValsOk fs act vals)
    (d : List (Str × Val)) :
    (valEls vals).foldl (respStep fs act) (.ok d) = .ok (vals.foldl (fun acc p => set acc p.1 p.2) d) := by
  induction vals generalizing d with
  | nil => rfl
  | cons p r ih =>
    obtain ⟨k, v⟩ := p
    obtain ⟨a, hf, _, hrt⟩ := h (k, v) List.mem_cons_self
    simp only [valEls, List.map_cons, List.foldl_cons]
    rw [respStep_leaf d k v a hf hrt]
    exact ih (fun x hx => h x (List.mem_cons_of_mem _ hx)) _

theorem descL_valEls (vals : List (Str × Val)) : Xml.descL (valEls vals) = valEls vals := by
  induction vals with
  | nil => rfl
  | cons p r ih =>
    simp only [valEls, List.map_cons] at ih ⊢
    simp only [leaf] at ih ⊢
    simp [Xml.descL, Xml.descendants, ih]

theorem soapNs_ne_nil' : ([] : Str) ≠ soapNs := by decide

@[simp] theorem tag_node (t : QName) (a : List (QName × Str)) (x : Option Str) (k : List Xml) :
    (Xml.node t a x k).tag = t := rfl
@[simp] theorem kids_node (t : QName) (a : List (QName × Str)) (x : Option Str) (k : List Xml) :
    (Xml.node t a x k).kids = k := rfl

theorem filter_valEls_ns (vals : List (Str × Val)) (q : QName) (hq : q.ns ≠ []) :
    (valEls vals).filter (fun c => c.tag = q) = [] := by
  induction vals with
  | nil => rfl
  | cons p r ih =>
    simp only [valEls, List.map_cons] at ih ⊢
    have hne : (leaf (plain p.1) (out p.2)).tag ≠ q := by
      intro e; apply hq; rw [← e]; rfl
    simp [List.filter, hne, ih]

theorem responseTag_ne_body (stype name : Str) : responseTag stype name ≠ soapq "Body" := by
  intro e
  have := congrArg (fun q => q.name.length) e
  simp [responseTag, soapq] at this

theorem responseTag_ne_fault (stype name : Str) : responseTag stype name ≠ soapq "Fault" := by
  intro e
  have := congrArg (fun q => q.name.length) e
  simp [responseTag, soapq] at this

/-- **response half of the round trip**: the response the server writes for the handler's results is
    decoded by the client into exactly those typed values -/
theorem response_reaches_caller {fs : Facts} {stype : Str} {act : SAct} {vals : List (Str × Val)}
    (h : ValsOk fs act vals) :
    clientDecode fs stype act (.resp 200 (envelope [.node (responseTag stype act.name) [] none (valEls vals)]))
      = .ok (PyDict.ofList vals) := by
  have hb := responseTag_ne_body stype act.name
  have hf := responseTag_ne_fault stype act.name
  have hb' : soapq "Body" ≠ responseTag stype act.name := fun e => hb e.symm
  have hpf : parseFault (envelope [.node (responseTag stype act.name) [] none (valEls vals)]) = none := by
    have hq : (soapq "Body").ns ≠ [] := by decide
    simp [parseFault, envelope, Xml.descendants, Xml.descL, descL_valEls, Xml.findall,
      List.filter, hb, hf, filter_valEls_ns _ _ hq]
  have hfd : (envelope [.node (responseTag stype act.name) [] none (valEls vals)]).findDesc
      (responseTag stype act.name) = some (.node (responseTag stype act.name) [] none (valEls vals)) := by
    simp [Xml.findDesc, envelope, Xml.descendants, Xml.descL, hb']
  simp only [clientDecode, wire, ne_eq, not_true_eq_false, ↓reduceIte, hpf, hfd, kids_node, responseDict,
    responseDict_fold h []]
  rfl

end Upnp.C14
