/-
  C14 ↔ C06 bridge lemmas: the envelope C06's `create_request` model writes, as the parser reads it
  back (`C06.readEnvelope` / `Envelope.tree`), is parsed by the C14 server model exactly like the
  request of C14's minimal client.
-/
import Upnp.Model.C14Call06
import Upnp.Lemmas.C14Call
import Upnp.Lemmas.C06Main
namespace Upnp.C14
open Upnp PyDict

theorem y06L_map (l : List C06.Xml) : y06L l = l.map y06 := by
  induction l with
  | nil => simp [y06L]
  | cons e r ih => simp [y06L, ih]

theorem takeWhile_brace (ns loc : Str) (h : '}' ∉ ns) :
    (ns ++ '}' :: loc).takeWhile (· != '}') = ns ∧ (ns ++ '}' :: loc).dropWhile (· != '}') = '}' :: loc := by
  induction ns with
  | nil => simp
  | cons c r ih =>
    have hc : c ≠ '}' := fun e => h (by simp [e])
    have hr : '}' ∉ r := fun e => h (List.mem_cons_of_mem _ e)
    obtain ⟨i1, i2⟩ := ih hr
    simp [List.takeWhile, List.dropWhile, hc, i1, i2]

theorem qnameOfClark_clark (ns loc : Str) (h : '}' ∉ ns) : qnameOfClark (C06.Xml.clark ns loc) = ⟨ns, loc⟩ := by
  obtain ⟨h1, h2⟩ := takeWhile_brace ns loc h
  simp [qnameOfClark, C06.Xml.clark, h1, h2]

theorem qnameOfClark_plain (n : Str) (h : ∀ r, n ≠ '{' :: r) : qnameOfClark n = ⟨[], n⟩ := by
  unfold qnameOfClark
  split
  · rename_i r; exact absurd rfl (h r)
  · rfl

theorem soapNs_no_brace : '}' ∉ C06.soapEnvNs := by decide
theorem soapNs_eq : C06.soapEnvNs = soapNs := by decide

/-- the tree of a C06 envelope, re-read as a C14 tree -/
theorem y06_envelope (e : C06.Envelope) (hns : '}' ∉ e.ns) (hargs : ∀ p ∈ e.args, ∀ r, p.1 ≠ '{' :: r) :
    y06 e.tree = .node (soapq "Envelope") [] none [.node (soapq "Body") [] none
      [.node ⟨e.ns, e.action⟩ [] none (e.args.map fun p => leaf (plain p.1) p.2)]] := by
  have hk : (e.args.map fun p => C06.Xml.node p.1 (if p.2.isEmpty then none else some p.2) []).map y06
      = e.args.map fun p => leaf (plain p.1) p.2 := by
    rw [List.map_map]
    apply List.map_congr_left
    intro p hp
    simp [y06, y06L, qnameOfClark_plain p.1 (hargs p hp), leaf, plain, textOf]
  simp only [C06.Envelope.tree, y06, y06L, y06L_map, hk, qnameOfClark_clark _ _ soapNs_no_brace,
    qnameOfClark_clark _ _ hns, soapNs_eq, soapq]
  rfl

/-- the server does not look at the root's name or attributes: only at its `Body` child -/
theorem parseActionBody_root (fs : Facts) (acts : List SAct) (sa : Option Str) (t : QName)
    (a : List (QName × Str)) (x : Option Str) (ks : List Xml) :
    parseActionBody fs acts ⟨sa, some (.node t a x [.node (soapq "Body") [] none ks])⟩
      = parseActionBody fs acts ⟨sa, some (envelope ks)⟩ := rfl


theorem xmlNameOk_no_brace (n : Str) (h : C06.xmlNameOk n = true) : ∀ r, n ≠ '{' :: r := by
  intro r e
  subst e
  simp only [C06.xmlNameOk, Bool.and_eq_true] at h
  exact absurd h.1 (by decide)

/-- **request half composed with C06**: whatever request C06's `create_request` model builds for an
    action — provided it renders the argument texts C14's `out` renders (`hagree`: the codec
    interface, to be discharged by the common C08 type model) — its body reads back (C06's
    `body_reads_back`: escape table, `quoteattr` namespace) as an envelope whose tree the C14 server
    model parses, validates and hands to the handler with exactly the caller's typed values -/
theorem c06_request_reaches_handler (O : C06.Oracles) (a : C06.ActionDecl) (kw : C06.Kwargs) (req : C06.Request)
    (extra : List (Char × Str)) (nsq : Bool)
    (hrb : ∀ (name st : Str) (args : List (Str × Str)), C06.xmlNameOk name = true →
        (∀ p ∈ args, C06.xmlNameOk p.1 = true) →
        C06.readEnvelope (C06.renderBody extra nsq name st args) = some { action := name, ns := st, args := args })
    (hreq : C06.createRequest O extra nsq a kw = .ok req)
    (fs : Facts) (stype : Str) (sacts : List SAct) (sact : SAct) (args : List (Str × Val))
    (ha : a.name = sact.name) (hst : a.serviceType = stype)
    (hagree : C06.coerceArgs O a.inArgs kw = .ok (sact.ins.map fun x => (x.name, out (argVal args x))))
    (hxn : C06.xmlNameOk sact.name = true) (hxa : ∀ x ∈ sact.ins, C06.xmlNameOk x.name = true)
    (hbr : '}' ∉ stype)
    (h1 : '#' ∉ stype) (h2 : '"' ∉ stype) (h3 : '#' ∉ sact.name) (h4 : '"' ∉ sact.name)
    (hfind : sacts.find? (fun x => x.name = sact.name) = some sact)
    (hnd : (sact.ins.map (·.name)).Nodup) (hok : ArgsOk fs args sact.ins) :
    ∃ e, C06.readEnvelope req.body = some e
      ∧ req.headers.lookup "SOAPAction".toList = some ('"' :: stype ++ '#' :: sact.name ++ ['"'])
      ∧ handlerInput fs sacts ⟨some ('"' :: stype ++ '#' :: sact.name ++ ['"']), some (y06 e.tree)⟩
          = some (sact.name, kwOf args sact) := by
  unfold C06.createRequest at hreq
  cases hu : C06.urljoin a.deviceUrl a.controlUrl with
  | none => simp [hu] at hreq
  | some url =>
    simp only [hu] at hreq
    cases hv : C06.validateArgs O a.strict a.inArgs kw with
    | error e => simp [hv] at hreq
    | ok u =>
      simp only [hv, hagree, Except.ok.injEq] at hreq
      subst hreq
      let ts := sact.ins.map fun x => (x.name, out (argVal args x))
      have hts : ∀ p ∈ ts, C06.xmlNameOk p.1 = true := by
        intro p hp
        obtain ⟨x, hx, rfl⟩ := List.mem_map.mp hp
        exact hxa x hx
      refine ⟨{ action := sact.name, ns := stype, args := ts }, ?_, ?_, ?_⟩
      · simp only [ha, hst]
        exact hrb sact.name stype ts hxn hts
      · simp [List.lookup, ha, hst]
      · rw [y06_envelope _ hbr (fun p hp => xmlNameOk_no_brace p.1 (hts p hp))]
        obtain ⟨_, _, hi⟩ := request_reaches_handler (acts := sacts) (stype := stype) h1 h2 h3 h4 hfind hnd hok
        have hkids : (ts.map fun p => leaf (plain p.1) p.2) = argEls args sact.ins := by
          simp [ts, argEls, List.map_map, Function.comp_def]
        unfold handlerInput at hi ⊢
        rw [parseActionBody_root, hkids]
        exact hi

end Upnp.C14
