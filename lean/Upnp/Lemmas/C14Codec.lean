/-
  C14 helper lemmas: the integer codec (`str(n)` read back by `int()`), strings, booleans.
-/
import Upnp.Spec.C14
namespace Upnp.C14
open Upnp

def isDig (c : Char) : Prop := ∃ d : Fin 10, c = Char.ofNat (48 + d.val)

theorem dig_facts : ∀ d : Fin 10,
    digitVal (Char.ofNat (48 + d.val)) = some d.val ∧ Char.ofNat (48 + d.val) ≠ '_'
    ∧ isWs (Char.ofNat (48 + d.val)) = false ∧ Char.ofNat (48 + d.val) ≠ '-'
    ∧ Char.ofNat (48 + d.val) ≠ '+' := by decide

theorem pyDigits_dig (d : Fin 10) (r : Str) (a : Nat) (prev : Bool) :
    pyDigits (Char.ofNat (48 + d.val) :: r) a prev = pyDigits r (a * 10 + d.val) true := by
  obtain ⟨h1, h2, _⟩ := dig_facts d
  simp [pyDigits, h1, h2]

/-- reading back the digits written by `natDigits` -/
theorem pyDigits_natDigits (n : Nat) : ∀ (fuel : Nat), n < fuel → ∀ (acc : Str) (a : Nat) (prev : Bool),
    ∃ a', pyDigits (natDigits fuel n acc) a prev = pyDigits acc a' true ∧ (a = 0 → a' = n) := by
  induction n using Nat.strongRecOn with
  | _ n ih =>
    intro fuel hf acc a prev
    cases fuel with
    | zero => omega
    | succ fuel =>
      simp only [natDigits]
      split
      · rename_i hlt
        refine ⟨a * 10 + n, ?_, by intro h; simp [h]⟩
        exact pyDigits_dig ⟨n, hlt⟩ acc a prev
      · rename_i hge
        have hdiv : n / 10 < n := by omega
        obtain ⟨a', h1, h2⟩ := ih (n / 10) hdiv fuel (by omega) (Char.ofNat (48 + n % 10) :: acc) a prev
        refine ⟨a' * 10 + n % 10, ?_, ?_⟩
        · rw [h1]
          exact pyDigits_dig ⟨n % 10, by omega⟩ acc a' true
        · intro h; rw [h2 h]; omega

theorem natDigits_all (n : Nat) : ∀ (fuel : Nat) (acc : Str), (∀ c ∈ acc, isDig c) → fuel ≠ 0 →
    (∀ c ∈ natDigits fuel n acc, isDig c) ∧ natDigits fuel n acc ≠ [] := by
  induction n using Nat.strongRecOn with
  | _ n ih =>
    intro fuel acc hacc hf
    cases fuel with
    | zero => omega
    | succ fuel =>
      simp only [natDigits]
      split
      · rename_i hlt
        refine ⟨?_, by simp⟩
        intro c hc
        simp only [List.mem_cons] at hc
        rcases hc with rfl | hc
        · exact ⟨⟨n, hlt⟩, rfl⟩
        · exact hacc c hc
      · rename_i hge
        cases fuel with
        | zero =>
          simp only [natDigits]
          refine ⟨?_, by simp⟩
          intro c hc
          simp only [List.mem_cons] at hc
          rcases hc with rfl | hc
          · exact ⟨⟨n % 10, by omega⟩, rfl⟩
          · exact hacc c hc
        | succ fuel =>
          have hdiv : n / 10 < n := by omega
          apply ih (n / 10) hdiv (fuel + 1) _ _ (by omega)
          intro c hc
          simp only [List.mem_cons] at hc
          rcases hc with rfl | hc
          · exact ⟨⟨n % 10, by omega⟩, rfl⟩
          · exact hacc c hc

theorem decOfNat_all (n : Nat) : (∀ c ∈ decOfNat n, isDig c) ∧ decOfNat n ≠ [] :=
  natDigits_all n (n + 1) [] (by simp) (by omega)

theorem pyDigits_decOfNat (n : Nat) : pyDigits (decOfNat n) 0 false = some n := by
  obtain ⟨a', h1, h2⟩ := pyDigits_natDigits n (n + 1) (by omega) [] 0 false
  unfold decOfNat
  rw [h1, h2 rfl]
  simp [pyDigits]

theorem isDig_notWs {c : Char} (h : isDig c) : isWs c = false := by
  obtain ⟨d, rfl⟩ := h; exact (dig_facts d).2.2.1

theorem lstrip_cons_notWs {c : Char} {r : Str} (h : isWs c = false) : lstrip (c :: r) = c :: r := by
  simp [lstrip, List.dropWhile, h]

/-- `strip` leaves a text alone whose first and last characters are not whitespace -/
theorem strip_eq_self {s : Str} (h1 : ∀ c r, s = c :: r → isWs c = false)
    (h2 : ∀ c r, s.reverse = c :: r → isWs c = false) : strip s = s := by
  unfold strip
  have e1 : lstrip s = s := by
    cases s with
    | nil => rfl
    | cons c r => exact lstrip_cons_notWs (h1 c r rfl)
  rw [e1]
  have e2 : lstrip s.reverse = s.reverse := by
    cases hs : s.reverse with
    | nil => rfl
    | cons c r => exact lstrip_cons_notWs (h2 c r hs)
  rw [e2, List.reverse_reverse]

theorem strip_noWs {s : Str} (h : ∀ c ∈ s, isWs c = false) : strip s = s := by
  apply strip_eq_self
  · intro c r hs; exact h c (by simp [hs])
  · intro c r hs
    have : c ∈ s.reverse := by simp [hs]
    exact h c (List.mem_reverse.mp this)

theorem pyInt_decOfNat (n : Nat) : pyInt? (decOfNat n) = some (Int.ofNat n) := by
  obtain ⟨hall, hne⟩ := decOfNat_all n
  unfold pyInt?
  rw [strip_noWs (fun c hc => isDig_notWs (hall c hc))]
  cases hs : decOfNat n with
  | nil => exact absurd hs hne
  | cons c r =>
    have hc : isDig c := hall c (by simp [hs])
    obtain ⟨d, rfl⟩ := hc
    obtain ⟨_, _, _, hm, hp⟩ := dig_facts d
    have := pyDigits_decOfNat n
    rw [hs] at this
    split
    · rename_i heq; simp only [List.cons.injEq] at heq; exact absurd heq.1 hm
    · rename_i heq; simp only [List.cons.injEq] at heq; exact absurd heq.1 hp
    · simp [this]

/-- **`int(str(n)) == n`** for the model's decimal writer and reader -/
theorem pyInt_decOfInt (n : Int) : pyInt? (decOfInt n) = some n := by
  cases n with
  | ofNat n => exact pyInt_decOfNat n
  | negSucc n =>
    obtain ⟨hall, hne⟩ := decOfNat_all (n + 1)
    simp only [decOfInt]
    unfold pyInt?
    have hstrip : strip ('-' :: decOfNat (n + 1)) = '-' :: decOfNat (n + 1) := by
      apply strip_eq_self
      · intro c r h; simp only [List.cons.injEq] at h; rw [← h.1]; decide
      · intro c r h
        have hc : c ∈ ('-' :: decOfNat (n + 1)).reverse := by simp [h]
        rw [List.reverse_cons] at h
        cases hr : (decOfNat (n + 1)).reverse with
        | nil => simp at hr; exact absurd hr hne
        | cons c' r' =>
          rw [hr] at h
          simp only [List.cons_append, List.cons.injEq] at h
          have : c' ∈ decOfNat (n + 1) := List.mem_reverse.mp (by simp [hr])
          rw [← h.1]; exact isDig_notWs (hall c' this)
    rw [hstrip]
    simp [pyDigits_decOfNat, Int.negSucc_eq]

theorem decOfInt_ne_nil (n : Int) : decOfInt n ≠ [] := by
  cases n with
  | ofNat n => exact (decOfNat_all n).2
  | negSucc n => simp [decOfInt]

end Upnp.C14
