/-
  C14 helper lemmas: the control path (`parseArgs`, `parseActionBody`, `serverHandle`).
-/
import Upnp.Spec.C14
import Upnp.Lemmas.PyDict
import Upnp.Lemmas.C14Codec
namespace Upnp.C14
open Upnp PyDict

theorem parseArgs_ok {fs : Facts} {act a : SAct} {l : List Xml} {kw0 kw : PyDict Str Val}
    (h : parseArgs fs act l kw0 = .ok a kw) :
    a = act ∧ act.ins.all (fun x => PyDict.contains kw x.name) = true := by
  induction l generalizing kw0 with
  | nil =>
    simp only [parseArgs] at h
    split at h
    · rename_i hall
      cases h; exact ⟨rfl, hall⟩
    · cases h
  | cons e rest ih =>
    simp only [parseArgs] at h
    split at h
    · cases h
    · split at h
      · cases h
      · split at h
        · cases h
        · exact ih h

theorem parseActionBody_ok {fs : Facts} {acts : List SAct} {r : Req} {a : SAct} {kw : PyDict Str Val}
    (h : parseActionBody fs acts r = .ok a kw) :
    a ∈ acts ∧ a.ins.all (fun x => PyDict.contains kw x.name) = true := by
  unfold parseActionBody at h
  split at h
  · split at h
    · cases h
    · split at h
      · cases h
      · split at h
        · cases h
        · split at h
          · cases h
          · rename_i act hfind
            obtain ⟨rfl, hall⟩ := parseArgs_ok h
            exact ⟨List.mem_of_find?_eq_some hfind, hall⟩
  · cases h


/-- results that keep the handler's contract can always be rendered -/
theorem responseKids_isOk {fs : Facts} {act : SAct} {vals : List (Str × Val)}
    (h : vals.all (fun p => match act.outs.find? (fun a => a.name = p.1) with
                             | some a => schemaOk fs a.var p.2
                             | none => false) = true) :
    ∃ ks, responseKids fs act vals = .ok ks := by
  induction vals with
  | nil => exact ⟨[], rfl⟩
  | cons p rest ih =>
    obtain ⟨k, v⟩ := p
    simp only [List.all_cons, Bool.and_eq_true] at h
    obtain ⟨h1, h2⟩ := h
    obtain ⟨ks, hks⟩ := ih h2
    simp only [responseKids]
    cases hf : act.outs.find? (fun a => a.name = k) with
    | none => simp [hf] at h1
    | some a =>
      simp only [hf] at h1
      exact ⟨leaf (plain k) (out v) :: ks, by simp [h1, hks]⟩

/-- the handler keeps its contract for every action of the service -/
def HandlerOk (fs : Facts) (acts : List SAct) (h : Handler) : Prop :=
  ∀ act ∈ acts, ∀ kw, match h act.name kw with
    | .ret vals => validResults fs act vals = true
    | .retVars vals _ => validResults fs act vals = true
    | .err _ => True

/-- outcome of the server for every request (any header, any body) is an HTTP response:
    either a 400, a SOAP fault with status 500, or a 200 -/
theorem serverHandle_cases (fs : Facts) (stype : Str) (acts : List SAct) (h : Handler) (r : Req)
    (hh : HandlerOk fs acts h) :
    (∃ reason, serverHandle fs stype acts h r = .http 400 reason)
    ∨ (∃ code, serverHandle fs stype acts h r = .resp 500 (faultDoc code))
    ∨ (∃ body, serverHandle fs stype acts h r = .resp 200 body) := by
  unfold serverHandle
  cases hp : parseActionBody fs acts r with
  | bad reason => exact Or.inl ⟨_, rfl⟩
  | ok act kw =>
    obtain ⟨hmem, hall⟩ := parseActionBody_ok hp
    simp only [hall, Bool.not_true, Bool.false_eq_true, ↓reduceIte]
    split
    · exact Or.inr (Or.inl ⟨_, rfl⟩)
    · have hk := hh act hmem kw
      cases hres : h act.name kw with
      | err code => exact Or.inr (Or.inl ⟨_, rfl⟩)
      | ret vals =>
        simp only [hres] at hk
        simp only [validResults, Bool.and_eq_true] at hk
        obtain ⟨ks, hr⟩ := responseKids_isOk hk.1
        exact Or.inr (Or.inr ⟨envelope [Xml.node (responseTag stype act.name) [] none ks], by simp [renderResult, hr]⟩)
      | retVars vals asVar =>
        simp only [hres] at hk
        simp only [validResults, Bool.and_eq_true] at hk
        obtain ⟨ks, hr⟩ := responseKids_isOk hk.1
        by_cases hv : asVarValid fs act vals asVar = true
        · exact Or.inr (Or.inr ⟨envelope [Xml.node (responseTag stype act.name) [] none ks], by simp [renderResult, hr, hv]⟩)
        · exact Or.inr (Or.inl ⟨402, by simp [renderResult, hv]⟩)


/-- an invalid request (Spec: `invalidReq`) is answered 400 or with the SOAP fault 402 -/
theorem invalid_cases (fs : Facts) (stype : Str) (acts : List SAct) (h : Handler) (r : Req)
    (hinv : invalidReq fs acts r = true) :
    (∃ reason, serverHandle fs stype acts h r = .http 400 reason)
    ∨ serverHandle fs stype acts h r = .resp 500 (faultDoc 402) := by
  unfold invalidReq at hinv
  unfold serverHandle
  cases hp : parseActionBody fs acts r with
  | bad reason => exact Or.inl ⟨_, rfl⟩
  | ok act kw =>
    obtain ⟨_, hall⟩ := parseActionBody_ok hp
    rw [hp] at hinv
    simp only [hall, Bool.not_true, Bool.false_eq_true, ↓reduceIte]
    simp only at hinv
    right
    split
    · rfl
    · rename_i hn; exact absurd hinv hn

/-- when the handler is reached, the server's answer is determined by the handler's result -/
theorem serverHandle_reached {fs : Facts} {stype : Str} {acts : List SAct} {h : Handler} {r : Req}
    {n : Str} {kw : PyDict Str Val} (hi : handlerInput fs acts r = some (n, kw)) :
    ∃ act, act ∈ acts ∧ act.name = n ∧ parseActionBody fs acts r = .ok act kw ∧
      serverHandle fs stype acts h r = renderResult fs stype act (h n kw) := by
  unfold handlerInput at hi
  cases hp : parseActionBody fs acts r with
  | bad reason => simp [hp] at hi
  | ok act kw' =>
    obtain ⟨hmem, hall⟩ := parseActionBody_ok hp
    rw [hp] at hi
    simp only at hi
    split at hi
    · rename_i hs
      simp only [Option.some.injEq, Prod.mk.injEq] at hi
      obtain ⟨rfl, rfl⟩ := hi
      refine ⟨act, hmem, rfl, rfl, ?_⟩
      unfold serverHandle
      rw [hp]
      simp only [hall, hs, Bool.not_true, Bool.false_eq_true, ↓reduceIte]
    · cases hi

theorem textOf_getD (s : Str) : (textOf s).getD [] = s := by
  unfold textOf; cases s <;> simp

theorem ctlNs_ne_nil : ctlNs ≠ [] := by decide
theorem soapNs_ne_nil : soapNs ≠ [] := by decide
theorem ctlNs_ne_soapNs : ctlNs ≠ soapNs := by decide

/-- the client reads the UPnP error code the server wrote -/
theorem parseFault_faultDoc (c : Nat) : parseFault (faultDoc c) = some (.ok (some c)) := by
  have hne : decOfNat c ≠ [] := (decOfNat_all c).2
  have ht : textOf (decOfNat c) = some (decOfNat c) := by
    unfold textOf; cases h : decOfNat c with
    | nil => exact absurd h hne
    | cons a b => simp
  simp [parseFault, faultDoc, envelope, Xml.descendants, Xml.descL, Xml.findall, Xml.kids, Xml.tag, leaf,
    Xml.findDesc, Xml.text, ht, hne, pyInt_decOfNat, soapq, ctlq, plain, ctlNs_ne_nil, soapNs_ne_nil,
    ctlNs_ne_soapNs]

theorem clientDecode_fault (fs : Facts) (stype : Str) (act : SAct) (c : Nat) :
    clientDecode fs stype act (.resp 500 (faultDoc c)) = .actionError (some c) (some 500) := by
  simp [clientDecode, wire, parseFault_faultDoc]

end Upnp.C14
