/-
  C14 helper lemmas: the description round trip of one state variable
  (`parseVar ∘ serializeVar`) and the typed comparison with the definition.
-/
import Upnp.Lemmas.C14Ctl
namespace Upnp.C14
open Upnp

theorem svcNs_ne_nil : svcNs ≠ [] := by decide

/-- what the client reads back from the served description of `vd` -/
def clientVarOf (fs : Facts) (vd : VarDef) : VarDef :=
  let A := dedupPy (allowedVals fs vd)
  { name := vd.name, dtype := vd.dtype, evented := vd.evented
    min := (typed fs vd.dtype vd.min).map pyStr
    max := (typed fs vd.dtype vd.max).map pyStr
    allowed := if A.isEmpty then none else
      some ((A.map pyStr).filterMap (fun s => allowedText (famOf vd.dtype == some .str) (textOf s)))
    default := (typed fs vd.dtype vd.default).map pyStr }

theorem filterMap_text_leaf (q : QName) (b : Bool) (A : List Val) :
    List.filterMap (fun c => allowedText b (match c with | Xml.node _ _ t _ => t))
      (List.filter (fun c => decide ((match c with | Xml.node t _ _ _ => t) = q))
        (List.map (fun v => Xml.node q [] (textOf (pyStr v)) []) A))
    = List.filterMap (fun v => allowedText b (textOf (pyStr v))) A := by
  induction A with
  | nil => rfl
  | cons v r ih =>
    simp only [List.map_cons, List.filter_cons, decide_true, ↓reduceIte, List.filterMap_cons]
    rw [ih]

/-- the factory's parse of the served `<stateVariable>` element -/
theorem parseVar_serializeVar (fs : Facts) (vd : VarDef)
    (hname : ∀ c ∈ vd.name, isWs c = false) (hfam : (famOf vd.dtype).isSome = true) :
    parseVar (serializeVar fs vd) = some (clientVarOf fs vd) := by
  unfold serializeVar clientVarOf parseVar
  generalize dedupPy (allowedVals fs vd) = A
  generalize typed fs vd.dtype vd.min = mn
  generalize typed fs vd.dtype vd.max = mx
  generalize typed fs vd.dtype vd.default = df
  have hstrip := strip_noWs hname
  have hfam' : ¬ famOf vd.dtype = none := by
    intro h; rw [h] at hfam; cases hfam
  cases hA : A.isEmpty <;> cases mn <;> cases mx <;> cases df <;>
    simp [Xml.attr?, Xml.findtext, Xml.find, Xml.findall, Xml.kids, Xml.attrs, Xml.tag, Xml.text, leaf, sq, plain,
      textOf_getD, hstrip, hfam, hfam', hA, svcNs_ne_nil]
  all_goals exact filterMap_text_leaf _ _ A

/-! ### typed comparison -/

theorem eqPy_refl (v : Val) : eqPy v v = true := by cases v <;> simp [eqPy]
theorem eqPy_symm {a b : Val} (h : eqPy a b = true) : eqPy b a = true := by
  cases a <;> cases b <;> simp_all [eqPy] <;> omega
theorem eqPy_trans {a b c : Val} (h1 : eqPy a b = true) (h2 : eqPy b c = true) : eqPy a c = true := by
  cases a <;> cases b <;> cases c <;> simp_all [eqPy]

/-- the text the serializer writes for `v` (`pyStr` = the type's `out` coercer) is read back (by the type's `in` coercer) as an equal value -/
def RTok (fs : Facts) (dt : Str) (v : Val) : Prop :=
  ∃ v', inp fs dt (pyStr v) = some v' ∧ eqPy v' v = true

/-- an optional definition text coerces, and its value survives `out` / `in` -/
def OptWF (fs : Facts) (dt : Str) (o : Option Str) : Prop :=
  ∀ s, o = some s → ∃ v, inp fs dt s = some v ∧ RTok fs dt v

theorem tv_roundtrip {fs : Facts} {dt : Str} {o : Option Str} (h : OptWF fs dt o) :
    tvEq (tvOf fs dt ((typed fs dt o).map pyStr)) (tvOf fs dt o) = true := by
  cases o with
  | none => rfl
  | some s =>
    obtain ⟨v, hv, v', hv', he⟩ := h s rfl
    simp [typed, tvOf, hv, hv', tvEq, he]

/-- for the modelled codec families every coerced value survives `out` / `in` -/
theorem rtok_int {fs : Facts} {dt : Str} (hf : famOf dt = some .int) (n : Int) : RTok fs dt (.int n) :=
  ⟨.int n, by simp [inp, hf, pyStr, out, pyInt_decOfInt], eqPy_refl _⟩
theorem rtok_str {fs : Facts} {dt : Str} (hf : famOf dt = some .str) (s : Str) : RTok fs dt (.str s) :=
  ⟨.str s, by simp [inp, hf, pyStr, out], eqPy_refl _⟩
theorem rtok_bool {fs : Facts} {dt : Str} (hf : famOf dt = some .bool) (b : Bool) : RTok fs dt (.bool b) := by
  refine ⟨.bool b, ?_, eqPy_refl _⟩
  cases b <;> simp [inp, hf, pyStr] <;> decide

theorem rtok_modelled {fs : Facts} {dt s : Str} {v : Val}
    (hf : famOf dt = some .int ∨ famOf dt = some .str ∨ famOf dt = some .bool)
    (hv : inp fs dt s = some v) : RTok fs dt v := by
  rcases hf with hf | hf | hf
  · simp only [inp, hf] at hv
    cases hp : pyInt? s with
    | none => simp [hp] at hv
    | some n => simp [hp] at hv; subst hv; exact rtok_int hf n
  · simp only [inp, hf, Option.some.injEq] at hv; subst hv; exact rtok_str hf s
  · simp only [inp, hf, Option.some.injEq] at hv; subst hv; exact rtok_bool hf _

theorem pyStr_ne_nil_int (n : Int) : pyStr (.int n) ≠ [] := by simp [pyStr, out, decOfInt_ne_nil]
theorem pyStr_ne_nil_bool (b : Bool) : pyStr (.bool b) ≠ [] := by cases b <;> simp [pyStr] <;> decide

/-! ### allowed sets -/

theorem mem_dedupPy {l : List Val} {v : Val} (h : v ∈ dedupPy l) : v ∈ l := by
  induction l with
  | nil => cases h
  | cons a r ih =>
    simp only [dedupPy, List.mem_cons, List.mem_filter] at h
    rcases h with rfl | ⟨h, _⟩
    · exact List.mem_cons_self
    · exact List.mem_cons_of_mem _ (ih h)

theorem dedupPy_covers {l : List Val} {v : Val} (h : v ∈ l) : ∃ a ∈ dedupPy l, eqPy a v = true := by
  induction l with
  | nil => cases h
  | cons a r ih =>
    simp only [List.mem_cons] at h
    rcases h with rfl | h
    · exact ⟨v, by simp [dedupPy], eqPy_refl _⟩
    · obtain ⟨b, hb, hbv⟩ := ih h
      by_cases hab : eqPy a b = true
      · exact ⟨a, by simp [dedupPy], eqPy_trans hab hbv⟩
      · refine ⟨b, ?_, hbv⟩
        simp only [dedupPy, List.mem_cons, List.mem_filter]
        right; exact ⟨hb, by simpa using hab⟩

theorem dedupPy_isEmpty {l : List Val} : (dedupPy l).isEmpty = l.isEmpty := by
  cases l <;> simp [dedupPy]


theorem sameVals_iff (a b : List Val) :
    sameVals a b = true ↔ (∀ x ∈ a, ∃ y ∈ b, eqPy x y = true) ∧ (∀ y ∈ b, ∃ x ∈ a, eqPy y x = true) := by
  simp [sameVals, List.all_eq_true, List.any_eq_true]

theorem allowedView_some {fs : Facts} {vd : VarDef}
    (h : ∀ a ∈ vd.allowed.getD [], (inp fs vd.dtype a).isSome = true) :
    allowedView fs vd = some (allowedVals fs vd) := by
  unfold allowedView allowedVals
  have : ((vd.allowed.getD []).map (inp fs vd.dtype)).all (·.isSome) = true := by
    simp only [List.all_map, List.all_eq_true]
    intro a ha; exact h a ha
  simp only [this, ↓reduceIte, List.filterMap_map]
  rfl

/-- well-formed variable definition: an XML-name without blanks, a supported type, and texts that
    coerce to values which survive the type's `out` coercer followed by its `in` coercer -/
structure VarWF (fs : Facts) (vd : VarDef) : Prop where
  name_ok : ∀ c ∈ vd.name, isWs c = false
  fam_ok : (famOf vd.dtype).isSome = true
  min_ok : OptWF fs vd.dtype vd.min
  max_ok : OptWF fs vd.dtype vd.max
  default_ok : OptWF fs vd.dtype vd.default
  allowed_ok : ∀ a ∈ vd.allowed.getD [], ∃ v, inp fs vd.dtype a = some v ∧ RTok fs vd.dtype v ∧ pyStr v ≠ []

theorem mem_allowedVals {fs : Facts} {vd : VarDef} {v : Val} (h : v ∈ allowedVals fs vd) :
    ∃ a ∈ vd.allowed.getD [], inp fs vd.dtype a = some v := by
  simpa [allowedVals, List.mem_filterMap] using h

theorem allowedText_textOf {b : Bool} {s : Str} (h : s ≠ []) : allowedText b (textOf s) = some s := by
  unfold textOf
  cases s with
  | nil => exact absurd rfl h
  | cons _ _ => simp [allowedText]

theorem filterMap_textOf_eq {b : Bool} {l : List Str} (h : ∀ s ∈ l, s ≠ []) :
    l.filterMap (fun s => allowedText b (textOf s)) = l := by
  induction l with
  | nil => rfl
  | cons a r ih =>
    simp only [List.filterMap_cons, allowedText_textOf (h a List.mem_cons_self)]
    rw [ih (fun s hs => h s (List.mem_cons_of_mem _ hs))]

/-- the client's typed view of the served description of `vd` equals the definition -/
theorem var_roundtrip {fs : Facts} {vd : VarDef} (h : VarWF fs vd) :
    varMatches fs vd (viewOf fs (clientVarOf fs vd)) = true := by
  have hA : ∀ v ∈ dedupPy (allowedVals fs vd), RTok fs vd.dtype v ∧ pyStr v ≠ [] := by
    intro v hv
    obtain ⟨a, ha, hav⟩ := mem_allowedVals (mem_dedupPy hv)
    obtain ⟨v', hv', hr, hn⟩ := h.allowed_ok a ha
    rw [hav] at hv'; cases hv'; exact ⟨hr, hn⟩
  have hd : allowedView fs vd = some (allowedVals fs vd) := by
    apply allowedView_some
    intro a ha
    obtain ⟨v, hv, _⟩ := h.allowed_ok a ha
    simp [hv]
  -- the allowed part
  have hal : (match (viewOf fs (clientVarOf fs vd)).tallowed, (viewOf fs vd).tallowed with
      | some a, some b => sameVals a b
      | _, _ => false) = true := by
    simp only [viewOf, hd]
    by_cases he : (dedupPy (allowedVals fs vd)).isEmpty = true
    · have he' : (allowedVals fs vd) = [] := by
        rw [dedupPy_isEmpty] at he; simpa using he
      simp [clientVarOf, allowedView, he', sameVals, dedupPy]
    · have hcv : (clientVarOf fs vd).allowed = some ((dedupPy (allowedVals fs vd)).map pyStr) := by
        simp only [clientVarOf, he, Bool.false_eq_true, ↓reduceIte, Option.some.injEq]
        apply filterMap_textOf_eq
        intro s hs
        obtain ⟨v, hv, rfl⟩ := List.mem_map.mp hs
        exact (hA v hv).2
      have hdt : (clientVarOf fs vd).dtype = vd.dtype := rfl
      have hview : allowedView fs (clientVarOf fs vd) = some (allowedVals fs (clientVarOf fs vd)) := by
        apply allowedView_some
        intro a ha
        rw [hcv] at ha
        simp only [Option.getD_some] at ha
        obtain ⟨v, hv, rfl⟩ := List.mem_map.mp ha
        obtain ⟨v', hv', _⟩ := (hA v hv).1
        rw [hdt, hv']; rfl
      rw [hview]
      simp only
      rw [sameVals_iff]
      constructor
      · intro x hx
        obtain ⟨a, ha, hax⟩ := mem_allowedVals hx
        rw [hcv] at ha
        simp only [Option.getD_some] at ha
        obtain ⟨v, hv, rfl⟩ := List.mem_map.mp ha
        obtain ⟨v', hv', hev⟩ := (hA v hv).1
        rw [hdt, hv'] at hax
        cases hax
        exact ⟨v, mem_dedupPy hv, hev⟩
      · intro y hy
        obtain ⟨a, ha, hay⟩ := dedupPy_covers hy
        obtain ⟨a', ha', hea⟩ := (hA a ha).1
        refine ⟨a', ?_, eqPy_symm (eqPy_trans hea hay)⟩
        simp only [allowedVals, hcv, Option.getD_some, List.mem_filterMap, List.mem_map]
        exact ⟨pyStr a, ⟨a, ha, rfl⟩, by rw [hdt]; exact ha'⟩
  unfold varMatches
  simp only [Bool.and_eq_true]
  refine ⟨?_, hal⟩
  simp [viewOf, clientVarOf, tv_roundtrip h.min_ok, tv_roundtrip h.max_ok, tv_roundtrip h.default_ok]

end Upnp.C14

namespace Upnp.C14
open Upnp

theorem bound_builds {fs : Facts} {dt : Str} {o : Option Str} (h : OptWF fs dt o) :
    (match (typed fs dt o).map pyStr with
     | some s => s.isEmpty || (inp fs dt s).isSome
     | none => true) = true := by
  cases o with
  | none => rfl
  | some s =>
    obtain ⟨v, hv, v', hv', _⟩ := h s rfl
    simp [typed, hv, hv']

theorem clientVar_allowed_builds {fs : Facts} {vd : VarDef} (h : VarWF fs vd) :
    ((clientVarOf fs vd).allowed.getD []).all (fun a => (inp fs vd.dtype a).isSome) = true := by
  simp only [List.all_eq_true]
  intro a ha
  by_cases he : (dedupPy (allowedVals fs vd)).isEmpty = true
  · simp [clientVarOf, he] at ha
  · simp only [clientVarOf, he, Bool.false_eq_true, ↓reduceIte, Option.getD_some, List.mem_filterMap,
      List.mem_map] at ha
    obtain ⟨s, ⟨v, hv, rfl⟩, hs⟩ := ha
    obtain ⟨a0, ha0, hav⟩ := mem_allowedVals (mem_dedupPy hv)
    obtain ⟨v0, hv0, ⟨v', hv', _⟩, hne⟩ := h.allowed_ok a0 ha0
    rw [hav] at hv0; cases hv0
    have : a = pyStr v := by
      rw [allowedText_textOf hne] at hs
      cases hs; rfl
    rw [this, hv']; rfl

/-- the client's eager schema construction succeeds on what it parsed -/
theorem schemaBuilds_clientVarOf {fs : Facts} {vd : VarDef} (h : VarWF fs vd) :
    schemaBuilds fs (clientVarOf fs vd) = true := by
  unfold schemaBuilds
  have h1 := clientVar_allowed_builds h
  have h2 := bound_builds h.min_ok
  have h3 := bound_builds h.max_ok
  simp only [Bool.and_eq_true]
  exact ⟨⟨h1, h2⟩, h3⟩

/-- the whole state table: every served variable is read back, in order -/
theorem parseVars_serialize {fs : Facts} {vars : List VarDef} (hw : ∀ vd ∈ vars, VarWF fs vd) :
    parseVars fs (vars.map (serializeVar fs)) = some (vars.map (clientVarOf fs)) := by
  induction vars with
  | nil => rfl
  | cons vd r ih =>
    have hv := hw vd List.mem_cons_self
    have := ih (fun x hx => hw x (List.mem_cons_of_mem _ hx))
    simp only [List.map_cons, parseVars, parseVar_serializeVar fs vd hv.name_ok hv.fam_ok, this,
      schemaBuilds_clientVarOf hv, ↓reduceIte]

end Upnp.C14
