/-
  C14 helper lemmas: the device description tree (`parseDevEl ∘ serializeDev`), any nesting depth.
-/
import Upnp.Lemmas.C14Svc
namespace Upnp.C14
open Upnp

theorem devNs_ne_nil : devNs ≠ [] := by decide

theorem serializeDevs_eq_map (l : List DevDef) : serializeDevs l = l.map serializeDev := by
  induction l with
  | nil => simp [serializeDevs]
  | cons d r ih => simp [serializeDevs, ih]

theorem parseSvcInfo_serialize (s : SvcInfo) : parseSvcInfo (serializeSvcInfo s) = s := by
  simp [parseSvcInfo, serializeSvcInfo, Xml.findtext, Xml.find, leaf, dq, textOf_getD]

theorem filter_svcs_tag (l : List SvcInfo) :
    (l.map serializeSvcInfo).filter (fun c => c.tag = dq "service") = l.map serializeSvcInfo := by
  induction l with
  | nil => rfl
  | cons x r ih => simp [serializeSvcInfo, ih]

theorem tag_serializeDev (d : DevDef) : (serializeDev d).tag = dq "device" := by
  cases d; simp [serializeDev]

theorem filter_devs_tag (l : List DevDef) :
    (l.map serializeDev).filter (fun c => c.tag = dq "device") = l.map serializeDev := by
  induction l with
  | nil => rfl
  | cons x r ih => simp [tag_serializeDev, ih]

/-- the twelve text fields as the client reads them: every element is present, an absent value
    (`None`) is served as an empty element and read back as the empty text -/
theorem dev_fields (f : List (Option Str)) (hlen : f.length = 12) (svcs : List SvcInfo) (emb : List DevDef) :
    devFields.map (fun p => (serializeDev (.mk f svcs emb)).findtext (dq p.1) (if p.2 then some [] else none))
      = f.map (fun o => some (o.getD [])) := by
  match f, hlen with
  | [a1, a2, a3, a4, a5, a6, a7, a8, a9, a10, a11, a12], _ =>
    simp [serializeDev, devFields, Xml.findtext, Xml.find, leaf, dq, textOf_getD]


theorem dq_eq_iff (a b : String) : (dq a = dq b) ↔ a.toList = b.toList := by simp [dq]

theorem dev_services (f : List (Option Str)) (hlen : f.length = 12) (svcs : List SvcInfo) (emb : List DevDef) :
    (((serializeDev (.mk f svcs emb)).findall (dq "serviceList")).flatMap (·.findall (dq "service"))).map parseSvcInfo
      = svcs := by
  match f, hlen with
  | [a1, a2, a3, a4, a5, a6, a7, a8, a9, a10, a11, a12], _ =>
    simp [serializeDev, devFields, Xml.findall, leaf, dq_eq_iff, filter_svcs_tag, Function.comp_def,
      parseSvcInfo_serialize]

theorem dev_embedded (f : List (Option Str)) (hlen : f.length = 12) (svcs : List SvcInfo) (emb : List DevDef) :
    ((serializeDev (.mk f svcs emb)).findall (dq "deviceList")).flatMap (·.findall (dq "device"))
      = emb.map serializeDev := by
  match f, hlen with
  | [a1, a2, a3, a4, a5, a6, a7, a8, a9, a10, a11, a12], _ =>
    simp [serializeDev, devFields, Xml.findall, leaf, dq_eq_iff, serializeDevs_eq_map, filter_devs_tag]

/-- `fits n d`: every device of the tree has its twelve fields and the tree is at most `n` levels
    of embedded devices deep -/
def fits : Nat → DevDef → Prop
  | 0, d => d.fields.length = 12 ∧ d.embedded = []
  | n + 1, d => d.fields.length = 12 ∧ ∀ c ∈ d.embedded, fits n c

theorem allMatch_optEq (f : List (Option Str)) : allMatch optEq f (f.map fun o => some (o.getD [])) = true := by
  induction f with
  | nil => rfl
  | cons a r ih => simp [allMatch, optEq, ih]

theorem allMatch_map {α β : Type} (m : α → β → Bool) (g : α → β) (l : List α) (h : ∀ a ∈ l, m a (g a) = true) :
    allMatch m l (l.map g) = true := by
  induction l with
  | nil => rfl
  | cons a r ih =>
    simp only [List.map_cons, allMatch, Bool.and_eq_true]
    exact ⟨h a List.mem_cons_self, ih (fun x hx => h x (List.mem_cons_of_mem _ hx))⟩

/-- the client's device tree equals the definition, whatever the nesting depth `n` -/
theorem dev_roundtrip : ∀ (n : Nat) (d : DevDef), fits n d →
    devMatches (n + 1) d (parseDevEl n (serializeDev d)) = true := by
  intro n
  induction n with
  | zero =>
    intro d hfit
    obtain ⟨f, svcs, emb⟩ := d
    obtain ⟨hlen, hemb⟩ := hfit
    simp only [DevDef.fields] at hlen
    simp only [DevDef.embedded] at hemb
    subst hemb
    unfold parseDevEl
    simp only [dev_fields f hlen, dev_services f hlen, devMatches, allMatch_optEq, allMatch, decide_true, Bool.and_self]
  | succ n ih =>
    intro d hfit
    obtain ⟨f, svcs, emb⟩ := d
    obtain ⟨hlen, hemb⟩ := hfit
    simp only [DevDef.fields] at hlen
    simp only [DevDef.embedded] at hemb
    unfold parseDevEl
    simp only [dev_fields f hlen, dev_services f hlen, dev_embedded f hlen, devMatches, allMatch_optEq, decide_true,
      Bool.true_and, List.map_map]
    exact allMatch_map _ _ emb (fun c hc => ih c (hemb c hc))

theorem fits_mono : ∀ (n : Nat) (d : DevDef), fits n d → fits (n + 1) d := by
  intro n
  induction n with
  | zero =>
    intro d h
    obtain ⟨h1, h2⟩ := h
    exact ⟨h1, by rw [h2]; intro c hc; cases hc⟩
  | succ n ih =>
    intro d h
    obtain ⟨h1, h2⟩ := h
    exact ⟨h1, fun c hc => ih c (h2 c hc)⟩


theorem fits_le {n m : Nat} (h : n ≤ m) (d : DevDef) (hf : fits n d) : fits m d := by
  induction h with
  | refl => exact hf
  | step _ ih => exact fits_mono _ d ih

mutual
/-- number of levels of embedded devices below `d` -/
def DevDef.depth : DevDef → Nat
  | .mk _ _ e => depthL e
def depthL : List DevDef → Nat
  | [] => 0
  | d :: r => max (d.depth + 1) (depthL r)
end

mutual
/-- every device of the tree has its twelve text fields -/
def DevDef.wf : DevDef → Prop
  | .mk f _ e => f.length = 12 ∧ wfL e
def wfL : List DevDef → Prop
  | [] => True
  | d :: r => d.wf ∧ wfL r
end

mutual
/-- every finite device tree fits its own depth: `dev_roundtrip` applies to trees of any depth -/
theorem fits_depth : ∀ (d : DevDef), d.wf → fits d.depth d
  | .mk f s e, h => by
    simp only [DevDef.wf] at h
    have hl := fits_depthL e h.2
    simp only [DevDef.depth]
    cases hd : depthL e with
    | zero =>
      refine ⟨h.1, ?_⟩
      cases e with
      | nil => rfl
      | cons c r => simp [depthL] at hd
    | succ k =>
      refine ⟨h.1, ?_⟩
      intro c hc
      have := hl c hc
      rw [hd] at this
      exact this
theorem fits_depthL : ∀ (l : List DevDef), wfL l → ∀ c ∈ l, fits (depthL l - 1) c
  | [], _ => fun c hc => by cases hc
  | d :: r, h => by
    simp only [wfL] at h
    intro c hc
    simp only [List.mem_cons] at hc
    simp only [depthL]
    rcases hc with rfl | hc
    · exact fits_le (by omega) c (fits_depth c h.1)
    · exact fits_le (by omega) c (fits_depthL r h.2 c hc)
end

end Upnp.C14
