/-
  C14 ↔ C05 bridge, device level: `client_factory`'s merged model run against what the C14 server
  serves (device document + every SCPD) equals the same model run against C05's canonical rendering
  of the description those documents denote.
-/
import Upnp.Lemmas.C14Bridge
import Upnp.Lemmas.C14Dev
import Upnp.Lemmas.C05Wf
namespace Upnp.C14
open Upnp

@[simp] theorem x05Ns_dq (t : String) : x05Ns (dq t).ns = .device := x05Ns_dev
@[simp] theorem x05Tag_d_root : x05Tag (dq "root").name = .root := by decide
@[simp] theorem x05Tag_d_device : x05Tag (dq "device").name = .device := by decide
@[simp] theorem x05Tag_d_deviceType : x05Tag (dq "deviceType").name = .deviceType := by decide
@[simp] theorem x05Tag_d_friendlyName : x05Tag (dq "friendlyName").name = .friendlyName := by decide
@[simp] theorem x05Tag_d_manufacturer : x05Tag (dq "manufacturer").name = .manufacturer := by decide
@[simp] theorem x05Tag_d_manufacturerURL : x05Tag (dq "manufacturerURL").name = .manufacturerURL := by decide
@[simp] theorem x05Tag_d_modelDescription : x05Tag (dq "modelDescription").name = .modelDescription := by decide
@[simp] theorem x05Tag_d_modelName : x05Tag (dq "modelName").name = .modelName := by decide
@[simp] theorem x05Tag_d_modelNumber : x05Tag (dq "modelNumber").name = .modelNumber := by decide
@[simp] theorem x05Tag_d_modelURL : x05Tag (dq "modelURL").name = .modelURL := by decide
@[simp] theorem x05Tag_d_serialNumber : x05Tag (dq "serialNumber").name = .serialNumber := by decide
@[simp] theorem x05Tag_d_UDN : x05Tag (dq "UDN").name = .UDN := by decide
@[simp] theorem x05Tag_d_UPC : x05Tag (dq "UPC").name = .UPC := by decide
@[simp] theorem x05Tag_d_presentationURL : x05Tag (dq "presentationURL").name = .presentationURL := by decide
@[simp] theorem x05Tag_d_iconList : x05Tag (dq "iconList").name = .iconList := by decide
@[simp] theorem x05Tag_d_serviceList : x05Tag (dq "serviceList").name = .serviceList := by decide
@[simp] theorem x05Tag_d_service : x05Tag (dq "service").name = .service := by decide
@[simp] theorem x05Tag_d_serviceType : x05Tag (dq "serviceType").name = .serviceType := by decide
@[simp] theorem x05Tag_d_serviceId : x05Tag (dq "serviceId").name = .serviceId := by decide
@[simp] theorem x05Tag_d_controlURL : x05Tag (dq "controlURL").name = .controlURL := by decide
@[simp] theorem x05Tag_d_eventSubURL : x05Tag (dq "eventSubURL").name = .eventSubURL := by decide
@[simp] theorem x05Tag_d_SCPDURL : x05Tag (dq "SCPDURL").name = .SCPDURL := by decide
@[simp] theorem x05Tag_d_deviceList : x05Tag (dq "deviceList").name = .deviceList := by decide
@[simp] theorem x05Tag_d_specVersion : x05Tag (dq "specVersion").name = .other "specVersion".toList := by decide
@[simp] theorem x05Tag_d_major : x05Tag (dq "major").name = .other "major".toList := by decide
@[simp] theorem x05Tag_d_minor : x05Tag (dq "minor").name = .other "minor".toList := by decide

section
variable {F : Type} (fo : C08.FloatOps F) (tb : C08.Table)

/-! ### the factory uses the requester only through `serviceBody` -/

theorem createService_congr (f g : Str → C05.Fetch) (nonStrict : Bool) (base : Str)
    (h : ∀ u, C05.serviceBody fo tb nonStrict (f u) = C05.serviceBody fo tb nonStrict (g u)) (sd : C05.Xml) :
    C05.createService fo tb f nonStrict base sd = C05.createService fo tb g nonStrict base sd := by
  unfold C05.createService
  cases C05.joinOpt base (sd.findtext .device .SCPDURL) with
  | none => rfl
  | some u => simp only [h u]

theorem createDevice_congr (f g : Str → C05.Fetch) (nonStrict : Bool) (base : Str)
    (h : ∀ u, C05.serviceBody fo tb nonStrict (f u) = C05.serviceBody fo tb nonStrict (g u)) :
    ∀ (fuel : Nat) (el : C05.Xml),
      C05.createDevice fo tb f nonStrict base fuel el = C05.createDevice fo tb g nonStrict base fuel el := by
  intro fuel
  induction fuel with
  | zero => intro el; rfl
  | succ n ih =>
    intro el
    have hs : C05.createService fo tb f nonStrict base = C05.createService fo tb g nonStrict base :=
      funext (createService_congr fo tb f g nonStrict base h)
    have hd : C05.createDevice fo tb f nonStrict base n = C05.createDevice fo tb g nonStrict base n := funext ih
    simp only [C05.createDevice, hs, hd]


/-! ### what the factory reads off the served device element -/

theorem x05_svc_named (s : SvcInfo) : C05.Xml.isNamed .device .service (x05 (serializeSvcInfo s)) = true := by
  simp [serializeSvcInfo, C05.Xml.isNamed, C05.Xml.ns, C05.Xml.tag]

theorem x05_dev_named (d : DevDef) : C05.Xml.isNamed .device .device (x05 (serializeDev d)) = true := by
  cases d; simp [serializeDev, C05.Xml.isNamed, C05.Xml.ns, C05.Xml.tag]

theorem filter_x05_all {n : C05.Ns} {t : C05.Tag} {α : Type} (g : α → Xml) (l : List α)
    (h : ∀ a, C05.Xml.isNamed n t (x05 (g a)) = true) :
    (l.map (fun a => x05 (g a))).filter (C05.Xml.isNamed n t) = l.map (fun a => x05 (g a)) := by
  apply List.filter_eq_self.mpr
  intro y hy; obtain ⟨a, _, rfl⟩ := List.mem_map.mp hy; exact h a

structure DevKids (f : List (Option Str)) (svcs : List SvcInfo) (emb : List DevDef) : Prop where
  hIcons : (x05 (serializeDev (.mk f svcs emb))).findall2 .device .iconList .icon = []
  hSvcs : (x05 (serializeDev (.mk f svcs emb))).findall2 .device .serviceList .service
            = svcs.map (fun s => x05 (serializeSvcInfo s))
  hEmb : (x05 (serializeDev (.mk f svcs emb))).findall2 .device .deviceList .device
            = emb.map (fun c => x05 (serializeDev c))
  hInfo : C05.parseInfo (x05 (serializeDev (.mk f svcs emb))) = f.map (fun o => some (o.getD []))

theorem devKids (f : List (Option Str)) (hlen : f.length = 12) (svcs : List SvcInfo) (emb : List DevDef) :
    DevKids f svcs emb := by
  have hs := filter_x05_all (n := .device) (t := .service) serializeSvcInfo svcs x05_svc_named
  have he := filter_x05_all (n := .device) (t := .device) serializeDev emb x05_dev_named
  match f, hlen with
  | [a1, a2, a3, a4, a5, a6, a7, a8, a9, a10, a11, a12], _ =>
    refine ⟨?_, ?_, ?_, ?_⟩
    · simp [serializeDev, devFields, leaf, C05.Xml.findall2, C05.Xml.findall, C05.Xml.children, C05.Xml.isNamed,
        C05.Xml.ns, C05.Xml.tag]
    · simp [serializeDev, devFields, leaf, C05.Xml.findall2, C05.Xml.findall, C05.Xml.children, C05.Xml.isNamed,
        C05.Xml.ns, C05.Xml.tag, List.map_map, Function.comp_def]
      intro a _
      have := x05_svc_named a
      simpa [C05.Xml.isNamed, C05.Xml.ns, C05.Xml.tag] using this
    · simp [serializeDev, devFields, leaf, C05.Xml.findall2, C05.Xml.findall, C05.Xml.children, C05.Xml.isNamed,
        C05.Xml.ns, C05.Xml.tag, serializeDevs_eq_map, List.map_map, Function.comp_def]
      intro a _
      have := x05_dev_named a
      simpa [C05.Xml.isNamed, C05.Xml.ns, C05.Xml.tag] using this
    · simp [C05.parseInfo, C05.infoTags, serializeDev, devFields, leaf, C05.Xml.findtext, C05.Xml.find,
        C05.Xml.children, C05.Xml.isNamed, C05.Xml.ns, C05.Xml.tag, C05.Xml.text, textOf_getD]


theorem x05_svc_fields (s : SvcInfo) :
    (x05 (serializeSvcInfo s)).findtext .device .serviceType = some s.stype ∧
    (x05 (serializeSvcInfo s)).findtext .device .serviceId = some s.sid ∧
    (x05 (serializeSvcInfo s)).findtext .device .SCPDURL = some s.scpd ∧
    (x05 (serializeSvcInfo s)).findtext .device .controlURL = some s.ctl ∧
    (x05 (serializeSvcInfo s)).findtext .device .eventSubURL = some s.evt := by
  refine ⟨?_, ?_, ?_, ?_, ?_⟩ <;>
    simp [serializeSvcInfo, leaf, C05.Xml.findtext, C05.Xml.find, C05.Xml.children, C05.Xml.isNamed, C05.Xml.ns,
      C05.Xml.tag, C05.Xml.text, textOf_getD]

theorem createService_bridge (g : Str → C05.Fetch) (nonStrict : Bool) (base : Str) (fs : Facts) (body : SvcBody)
    (s : SvcInfo) :
    C05.createService fo tb g nonStrict base (x05 (serializeSvcInfo s))
      = C05.createService fo tb g nonStrict base (C05.renderService (denoteSvc fs body s)) := by
  obtain ⟨a1, a2, a3, a4, a5⟩ := x05_svc_fields s
  obtain ⟨b1, b2, b3, b4, b5⟩ := C05.findtext_service (denoteSvc fs body s)
  unfold C05.createService
  rw [a1, a2, a3, a4, a5, b1, b2, b3, b4, b5]
  rfl

theorem renderDevices_denote (fs : Facts) (body : SvcBody) (l : List DevDef) :
    C05.renderDevices (denoteDevs fs body l) = l.map (fun c => C05.renderDevice (denoteDev fs body c)) := by
  induction l with
  | nil => simp [denoteDevs, C05.renderDevices]
  | cons d r ih => simp [denoteDevs, C05.renderDevices, ih]

theorem mirrorInfo_somes (f : List (Option Str)) (hlen : f.length = 12) :
    C05.mirrorInfo C05.infoTags (f.map fun o => some (o.getD [])) = f.map fun o => some (o.getD []) := by
  match f, hlen with
  | [a1, a2, a3, a4, a5, a6, a7, a8, a9, a10, a11, a12], _ => simp [C05.mirrorInfo, C05.infoTags]

theorem wfL_mem {l : List DevDef} (h : wfL l) : ∀ c ∈ l, c.wf := by
  induction l with
  | nil => intro c hc; cases hc
  | cons d r ih =>
    simp only [wfL] at h
    intro c hc
    simp only [List.mem_cons] at hc
    rcases hc with rfl | hc
    · exact h.1
    · exact ih h.2 c hc

/-- **the factory reads the served device element as it reads C05's rendering of what it denotes** -/
theorem createDevice_bridge (g : Str → C05.Fetch) (nonStrict : Bool) (base : Str) (fs : Facts) (body : SvcBody) :
    ∀ (fuel : Nat) (d : DevDef), d.wf →
      C05.createDevice fo tb g nonStrict base fuel (x05 (serializeDev d))
        = C05.createDevice fo tb g nonStrict base fuel (C05.renderDevice (denoteDev fs body d)) := by
  intro fuel
  induction fuel with
  | zero => intro d _; rfl
  | succ n ih =>
    intro d hwf
    obtain ⟨f, svcs, emb⟩ := d
    simp only [DevDef.wf] at hwf
    obtain ⟨hlen, hemb⟩ := hwf
    obtain ⟨k1, k2, k3, k4⟩ := devKids f hlen svcs emb
    obtain ⟨r1, r2, r3, r4⟩ := C05.devChildren (f.map fun o => some (o.getD [])) [] (svcs.map (denoteSvc fs body))
      (denoteDevs fs body emb)
    have e2 : C05.mapE (C05.createService fo tb g nonStrict base) (svcs.map fun s => x05 (serializeSvcInfo s))
        = C05.mapE (C05.createService fo tb g nonStrict base) ((svcs.map (denoteSvc fs body)).map C05.renderService) := by
      rw [C05.mapE_map, List.map_map, C05.mapE_map]
      exact C05.mapE_congr _ _ svcs (fun s _ => createService_bridge fo tb g nonStrict base fs body s)
    have e3 : C05.mapE (C05.createDevice fo tb g nonStrict base n) (emb.map fun c => x05 (serializeDev c))
        = C05.mapE (C05.createDevice fo tb g nonStrict base n) (C05.renderDevices (denoteDevs fs body emb)) := by
      rw [renderDevices_denote, C05.mapE_map, C05.mapE_map]
      exact C05.mapE_congr _ _ emb (fun c hc => ih c (wfL_mem hemb c hc))
    simp only [denoteDev]
    rw [C05.createDevice, C05.createDevice, k1, k2, k3, k4, r1, r2, r3, r4, e2, e3, mirrorInfo_somes f hlen]
    rfl


/-! ### the two requesters -/

mutual
theorem allServices_denote (fs : Facts) (body : SvcBody) :
    ∀ (d : DevDef), (denoteDev fs body d).allServices = (allSvcs d).map (denoteSvc fs body)
  | .mk f svcs emb => by
    simp only [denoteDev, C05.DeviceSpec.allServices, allSvcs, List.map_append, allServicesL_denote fs body emb]
theorem allServicesL_denote (fs : Facts) (body : SvcBody) :
    ∀ (l : List DevDef), C05.allServicesL (denoteDevs fs body l) = (allSvcsL l).map (denoteSvc fs body)
  | [] => by simp [denoteDevs, C05.allServicesL, allSvcsL]
  | d :: r => by
    simp only [denoteDevs, C05.allServicesL, allSvcsL, List.map_append, allServices_denote fs body d,
      allServicesL_denote fs body r]
end

theorem serviceBody_roots (nonStrict : Bool) (fs : Facts) (body : SvcBody) (d : DevDef) :
    C05.serviceBody fo tb nonStrict (.doc (x05 (serializeRoot d)))
      = C05.serviceBody fo tb nonStrict (.doc (C05.renderRoot (denoteDev fs body d))) := by
  cases nonStrict <;>
    simp [C05.serviceBody, serializeRoot, specVersion, C05.renderRoot, C05.Xml.isNamed, C05.Xml.ns, C05.Xml.tag,
      C05.createVars, C05.createActions, C05.Xml.find, C05.Xml.children, tag_serializeDev, leaf]
  all_goals (cases d; simp [serializeDev, denoteDev, C05.renderDevice, C05.Xml.isNamed, C05.Xml.ns, C05.Xml.tag])

/-- whatever URL the factory asks for, it gets from the C14 server a document it reads as it reads
    the one C05's canonical requester serves for the denoted description -/
theorem serve_bridge (nonStrict : Bool) (fs : Facts) (body : SvcBody) (base : Str) (d : DevDef) (u : Str) :
    C05.serviceBody fo tb nonStrict (serve14 fs body base d u)
      = C05.serviceBody fo tb nonStrict (C05.serve base (denoteDev fs body d) u) := by
  unfold serve14 C05.serve
  by_cases hb : (u == base) = true
  · simp only [hb, ↓reduceIte]
    exact serviceBody_roots fo tb nonStrict fs body d
  · simp only [hb, Bool.false_eq_true, ↓reduceIte]
    rw [allServices_denote, List.find?_map]
    have hk : ((fun s => C05.joinOpt base s.scpdURL == some u) ∘ denoteSvc fs body)
        = fun s => C05.joinOpt base (some s.scpd) == some u := by
      funext s; rfl
    rw [hk]
    cases (allSvcs d).find? (fun s => C05.joinOpt base (some s.scpd) == some u) with
    | none => rfl
    | some s =>
      simp only [Option.map_some, denoteSvc]
      exact serviceBody_bridge fo tb nonStrict fs (body s).1 (body s).2

end
end Upnp.C14
