/-
  C14 ↔ C07 bridge, fault half: the SOAP fault document the C14 server model writes
  (`faultDoc c`), as C07's `decode` reads it.
-/
import Upnp.Lemmas.C14Agree
import Upnp.Model.C07Decode
import Upnp.Lemmas.C08Digits
namespace Upnp.C14
open Upnp

/-- `faultDoc c` with Clark-notation tags (the tree type of C06 / C07) -/
def faultDoc06 (c : Nat) : C06.Xml :=
  .node (C06.Xml.clark C06.soapEnvNs "Envelope".toList) none
    [.node C07.bodyTag none
      [.node C07.faultTag none
        [.node "faultcode".toList (some "s:Client".toList) [],
         .node "faultstring".toList (some "UPnPError".toList) [],
         .node "detail".toList none
           [.node (C06.Xml.clark C07.ctlNs "UPnPError".toList) none
             [.node C07.errorCodeTag (some (decOfNat c)) [],
              .node C07.errorDescTag (some "Action Failed".toList) []]]]]]

theorem tq_tEnv_tBody : ((C06.Xml.clark C06.soapEnvNs "Envelope".toList) == C07.bodyTag) = false := by decide
theorem tq_tEnv_tFault : ((C06.Xml.clark C06.soapEnvNs "Envelope".toList) == C07.faultTag) = false := by decide
theorem tq_tEnv_tEC : ((C06.Xml.clark C06.soapEnvNs "Envelope".toList) == C07.errorCodeTag) = false := by decide
theorem tq_tEnv_tED : ((C06.Xml.clark C06.soapEnvNs "Envelope".toList) == C07.errorDescTag) = false := by decide
theorem tq_tBody_tBody : ((C07.bodyTag) == C07.bodyTag) = true := by decide
theorem tq_tBody_tFault : ((C07.bodyTag) == C07.faultTag) = false := by decide
theorem tq_tBody_tEC : ((C07.bodyTag) == C07.errorCodeTag) = false := by decide
theorem tq_tBody_tED : ((C07.bodyTag) == C07.errorDescTag) = false := by decide
theorem tq_tFault_tBody : ((C07.faultTag) == C07.bodyTag) = false := by decide
theorem tq_tFault_tFault : ((C07.faultTag) == C07.faultTag) = true := by decide
theorem tq_tFault_tEC : ((C07.faultTag) == C07.errorCodeTag) = false := by decide
theorem tq_tFault_tED : ((C07.faultTag) == C07.errorDescTag) = false := by decide
theorem tq_tFc_tBody : (("faultcode".toList) == C07.bodyTag) = false := by decide
theorem tq_tFc_tFault : (("faultcode".toList) == C07.faultTag) = false := by decide
theorem tq_tFc_tEC : (("faultcode".toList) == C07.errorCodeTag) = false := by decide
theorem tq_tFc_tED : (("faultcode".toList) == C07.errorDescTag) = false := by decide
theorem tq_tFs_tBody : (("faultstring".toList) == C07.bodyTag) = false := by decide
theorem tq_tFs_tFault : (("faultstring".toList) == C07.faultTag) = false := by decide
theorem tq_tFs_tEC : (("faultstring".toList) == C07.errorCodeTag) = false := by decide
theorem tq_tFs_tED : (("faultstring".toList) == C07.errorDescTag) = false := by decide
theorem tq_tDet_tBody : (("detail".toList) == C07.bodyTag) = false := by decide
theorem tq_tDet_tFault : (("detail".toList) == C07.faultTag) = false := by decide
theorem tq_tDet_tEC : (("detail".toList) == C07.errorCodeTag) = false := by decide
theorem tq_tDet_tED : (("detail".toList) == C07.errorDescTag) = false := by decide
theorem tq_tUE_tBody : ((C06.Xml.clark C07.ctlNs "UPnPError".toList) == C07.bodyTag) = false := by decide
theorem tq_tUE_tFault : ((C06.Xml.clark C07.ctlNs "UPnPError".toList) == C07.faultTag) = false := by decide
theorem tq_tUE_tEC : ((C06.Xml.clark C07.ctlNs "UPnPError".toList) == C07.errorCodeTag) = false := by decide
theorem tq_tUE_tED : ((C06.Xml.clark C07.ctlNs "UPnPError".toList) == C07.errorDescTag) = false := by decide
theorem tq_tEC_tBody : ((C07.errorCodeTag) == C07.bodyTag) = false := by decide
theorem tq_tEC_tFault : ((C07.errorCodeTag) == C07.faultTag) = false := by decide
theorem tq_tEC_tEC : ((C07.errorCodeTag) == C07.errorCodeTag) = true := by decide
theorem tq_tEC_tED : ((C07.errorCodeTag) == C07.errorDescTag) = false := by decide
theorem tq_tED_tBody : ((C07.errorDescTag) == C07.bodyTag) = false := by decide
theorem tq_tED_tFault : ((C07.errorDescTag) == C07.faultTag) = false := by decide
theorem tq_tED_tEC : ((C07.errorDescTag) == C07.errorCodeTag) = false := by decide
theorem tq_tED_tED : ((C07.errorDescTag) == C07.errorDescTag) = true := by decide

theorem decOfNat_cons (c : Nat) : ∃ h t, decOfNat c = h :: t := by
  have := (decOfNat_all c).2
  cases hd : decOfNat c with
  | nil => exact absurd hd this
  | cons h t => exact ⟨h, t, rfl⟩

/-- C07's `_parse_fault` reads the UPnP error code (and description) the C14 server wrote -/
theorem c07_parseFault_faultDoc (c : Nat) (hs : (C08.natDigits c).length ≤ C08.maxStrDigits) (st : Int) :
    C07.parseFault (faultDoc06 c) (some st)
      = some (.actionResponseError (some (Int.ofNat c)) (some "Action Failed".toList) st) := by
  have hp : C08.pyInt? (decOfNat c) = some (Int.ofNat c) := by
    have := C08.pyInt_decInt (Int.ofNat c) (by simpa using hs)
    have hd : C08.decInt (Int.ofNat c) = C08.decNat c := by
      have : ¬ (Int.ofNat c < 0) := by simp
      simp [C08.decInt]
    rw [hd, ← decOfNat_eq] at this
    exact this
  obtain ⟨h, t, hc⟩ := decOfNat_cons c
  have hfc : C07.faultCode (some (decOfNat c)) = some (some (Int.ofNat c)) := by
    rw [hc] at hp ⊢
    simp [C07.faultCode, hp]
  simp only [C07.parseFault, C07.faults, faultDoc06, C06.Xml.descendants, C06.Xml.descList, C06.Xml.tag,
    C06.Xml.children, C06.Xml.truthy, C06.Xml.findTextDesc, C06.Xml.findDesc, C06.Xml.text, List.filter_cons,
    List.filter_nil, List.append_nil, List.nil_append, List.cons_append, List.find?_cons, List.flatMap_cons,
    List.flatMap_nil, List.head?_cons, tq_tEnv_tBody, tq_tEnv_tFault, tq_tEnv_tEC, tq_tEnv_tED, tq_tBody_tBody, tq_tBody_tFault, tq_tBody_tEC, tq_tBody_tED, tq_tFault_tBody, tq_tFault_tFault, tq_tFault_tEC, tq_tFault_tED, tq_tFc_tBody, tq_tFc_tFault, tq_tFc_tEC, tq_tFc_tED, tq_tFs_tBody, tq_tFs_tFault, tq_tFs_tEC, tq_tFs_tED, tq_tDet_tBody, tq_tDet_tFault, tq_tDet_tEC, tq_tDet_tED, tq_tUE_tBody, tq_tUE_tFault, tq_tUE_tEC, tq_tUE_tED, tq_tEC_tBody, tq_tEC_tFault, tq_tEC_tEC, tq_tEC_tED, tq_tED_tBody, tq_tED_tFault, tq_tED_tEC, tq_tED_tED,
    Bool.false_eq_true, ↓reduceIte, List.isEmpty_cons, Bool.not_false, Bool.not_true, Option.map_some, Option.getD_some,
    hfc]


theorem clarkOf_soapq (l : String) : clarkOf (soapq l) = C06.Xml.clark C06.soapEnvNs l.toList := by
  have : soapNs.isEmpty = false := by decide
  simp [clarkOf, soapq, this, soapNs_eq]

theorem ctlNs_eq : C07.ctlNs = ctlNs := by decide

theorem clarkOf_ctlq (l : String) : clarkOf (ctlq l) = C06.Xml.clark C07.ctlNs l.toList := by
  have : ctlNs.isEmpty = false := by decide
  simp [clarkOf, ctlq, this, ctlNs_eq]

theorem clarkOf_plain (n : Str) : clarkOf (plain n) = n := by simp [clarkOf, plain]

/-- the fault document of the C14 server model, re-read as a C06 / C07 tree -/
theorem z06_faultDoc (c : Nat) : z06 (faultDoc c) = faultDoc06 c := by
  have ht : textOf (decOfNat c) = some (decOfNat c) := by
    obtain ⟨h, t, hc⟩ := decOfNat_cons c
    simp [textOf, hc]
  simp only [faultDoc, envelope, leaf, z06, z06L, clarkOf_soapq, clarkOf_ctlq, clarkOf_plain, ht, faultDoc06,
    C07.bodyTag, C07.faultTag, C07.errorCodeTag, C07.errorDescTag]
  rfl

end Upnp.C14
