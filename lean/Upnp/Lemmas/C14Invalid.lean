/-
  C14: the invalid classes of the property text, one lemma each — which requests `invalidReq` (the
  antecedent of `invalid_request_rejected`) contains.
-/
import Upnp.Lemmas.C14Ctl
namespace Upnp.C14
open Upnp

theorem invalid_of_bad {fs : Facts} {acts : List SAct} {r : Req} {s : String}
    (h : parseActionBody fs acts r = .bad s) : invalidReq fs acts r = true := by
  unfold invalidReq; rw [h]

/-- malformed envelope: the body is not XML at all -/
theorem not_xml_invalid (fs : Facts) (acts : List SAct) (r : Req) (h : r.body = none) : invalidReq fs acts r = true := by
  have : parseActionBody fs acts r = .bad "InvalidSoap" := by
    unfold parseActionBody; split <;> simp [h]
  exact invalid_of_bad this

/-- malformed envelope: the root element has no SOAP `Body` child -/
theorem no_body_invalid (fs : Facts) (acts : List SAct) (r : Req) (root : Xml) (h : r.body = some root)
    (hb : root.find (soapq "Body") = none) : invalidReq fs acts r = true := by
  have : parseActionBody fs acts r = .bad "InvalidSoap" := by
    unfold parseActionBody; split <;> simp [h, hb]
  exact invalid_of_bad this

/-- malformed envelope: the `Body` is empty (no call element) -/
theorem empty_body_invalid (fs : Facts) (acts : List SAct) (r : Req) (root b : Xml) (h : r.body = some root)
    (hb : root.find (soapq "Body") = some b) (he : b.kids = []) : invalidReq fs acts r = true := by
  have : parseActionBody fs acts r = .bad "InvalidSoap" := by
    unfold parseActionBody; split <;> simp [h, hb, he]
  exact invalid_of_bad this

/-- malformed header: the `SOAPAction` value (quotes stripped) is not of the form `type#action` -/
theorem bad_header_invalid (fs : Facts) (acts : List SAct) (r : Req)
    (h : ∀ a b, splitHash (stripQuotes (r.soapAction.getD [])) ≠ [a, b]) : invalidReq fs acts r = true := by
  have : parseActionBody fs acts r = .bad "InvalidSoap" := by
    unfold parseActionBody
    split
    · rename_i a b heq; exact absurd heq (h a b)
    · rfl
  exact invalid_of_bad this

/-- unknown action: the header names an action the service does not have -/
theorem unknown_action_invalid (fs : Facts) (acts : List SAct) (r : Req) (t name : Str)
    (hh : splitHash (stripQuotes (r.soapAction.getD [])) = [t, name])
    (hf : acts.find? (fun a => a.name = name) = none) : invalidReq fs acts r = true := by
  have : ∃ s, parseActionBody fs acts r = .bad s := by
    unfold parseActionBody
    rw [hh]
    simp only
    cases r.body with
    | none => exact ⟨_, rfl⟩
    | some root =>
      simp only
      cases root.find (soapq "Body") with
      | none => exact ⟨_, rfl⟩
      | some b =>
        simp only
        cases b.kids with
        | nil => exact ⟨_, rfl⟩
        | cons rpc rest => exact ⟨"InvalidAction", by simp [hf]⟩
  obtain ⟨s, hs⟩ := this
  exact invalid_of_bad hs

/-- out of range / not allowed: the request parses, but a value fails its variable's schema -/
theorem schema_invalid (fs : Facts) (acts : List SAct) (r : Req) (act : SAct) (kw : PyDict Str Val)
    (hp : parseActionBody fs acts r = .ok act kw) (a : SArg) (ha : a ∈ act.ins) (v : Val)
    (hv : PyDict.get? kw a.name = some v) (hs : schemaOk fs a.var v = false) : invalidReq fs acts r = true := by
  unfold invalidReq
  rw [hp]
  simp only [argsValid, Bool.not_eq_true', List.all_eq_false]
  exact ⟨a, ha, by simp [hv, hs]⟩

end Upnp.C14
