/-
  C14 helper lemmas: the client's re-parsed variable accepts exactly the values the definition
  accepts (`schemaOk_clientVarOf`) — what lets `call_roundtrip` speak of arguments "valid for the
  definition" only.
-/
import Upnp.Lemmas.C14Svc
namespace Upnp.C14
open Upnp

theorem allowed_sameVals {fs : Facts} {vd : VarDef} (h : VarWF fs vd) :
    sameVals (allowedVals fs (clientVarOf fs vd)) (allowedVals fs vd) = true := by
  have hd : allowedView fs vd = some (allowedVals fs vd) := by
    apply allowedView_some
    intro a ha
    obtain ⟨v, hv, _⟩ := h.allowed_ok a ha
    simp [hv]
  have hc : allowedView fs (clientVarOf fs vd) = some (allowedVals fs (clientVarOf fs vd)) := by
    apply allowedView_some
    have := clientVar_allowed_builds h
    simp only [List.all_eq_true] at this
    exact this
  have hm := var_roundtrip h
  unfold varMatches at hm
  simp only [Bool.and_eq_true] at hm
  have hlast := hm.2
  simp only [viewOf, hd, hc] at hlast
  exact hlast

theorem any_eqPy_congr {X Y : List Val} (h : sameVals X Y = true) (v : Val) :
    (X.isEmpty || X.any (fun a => eqPy a v)) = (Y.isEmpty || Y.any (fun a => eqPy a v)) := by
  rw [sameVals_iff] at h
  obtain ⟨h1, h2⟩ := h
  cases X with
  | nil =>
    cases Y with
    | nil => rfl
    | cons y r => obtain ⟨x, hx, _⟩ := h2 y List.mem_cons_self; cases hx
  | cons x r =>
    cases Y with
    | nil => obtain ⟨y, hy, _⟩ := h1 x List.mem_cons_self; cases hy
    | cons y s =>
      simp only [List.isEmpty_cons, Bool.false_or]
      apply Bool.eq_iff_iff.mpr
      simp only [List.any_eq_true]
      constructor
      · rintro ⟨a, ha, hav⟩
        obtain ⟨b, hb, hab⟩ := h1 a ha
        exact ⟨b, hb, eqPy_trans (eqPy_symm hab) hav⟩
      · rintro ⟨b, hb, hbv⟩
        obtain ⟨a, ha, hba⟩ := h2 b hb
        exact ⟨a, ha, eqPy_trans (eqPy_symm hba) hbv⟩

theorem keyOf_eqPy {a b : Val} (h : eqPy a b = true) : keyOf a = keyOf b := by
  cases a <;> cases b <;> simp_all [eqPy, keyOf]

theorem leVal_congr_left {a b : Val} (h : eqPy a b = true) (v : Val) : leVal a v = leVal b v := by
  have hk := keyOf_eqPy h
  cases a <;> cases b <;> simp_all [eqPy, leVal]

theorem leVal_congr_right {a b : Val} (h : eqPy a b = true) (v : Val) : leVal v a = leVal v b := by
  have hk := keyOf_eqPy h
  cases a <;> cases b <;> cases v <;> simp_all [eqPy, leVal]

/-- two bounds are the same for `vol.Range`: both absent, or equal as Python values -/
def boundEq : Option Val → Option Val → Prop
  | none, none => True
  | some a, some b => eqPy a b = true
  | _, _ => False

theorem inRange_congr {lo lo' hi hi' : Option Val} (h1 : boundEq lo lo') (h2 : boundEq hi hi') (v : Val) :
    inRange lo hi v = inRange lo' hi' v := by
  cases lo <;> cases lo' <;> cases hi <;> cases hi' <;>
    first
    | rfl
    | (exfalso; simpa [boundEq] using h1)
    | (exfalso; simpa [boundEq] using h2)
    | (simp only [boundEq] at h1 h2; simp [inRange, leVal_congr_left h1 v, leVal_congr_right h2 v])
    | (simp only [boundEq] at h1; simp [inRange, leVal_congr_left h1 v])
    | (simp only [boundEq] at h2; simp [inRange, leVal_congr_right h2 v])

/-- a declared bound is a non-empty text whose value is written as a non-empty text (an empty bound
    text is "absent" for the schema but not for the serializer; ASSUMPTIONS: bounds are non-empty) -/
def BoundNe (fs : Facts) (dt : Str) (o : Option Str) : Prop :=
  ∀ s, o = some s → s ≠ [] ∧ ∀ w, inp fs dt s = some w → pyStr w ≠ []

theorem bound_client {fs : Facts} {dt : Str} {o : Option Str} (h : OptWF fs dt o) (hne : BoundNe fs dt o) :
    boundEq (schemaBound fs dt ((typed fs dt o).map pyStr)) (schemaBound fs dt o) := by
  cases o with
  | none => simp [typed, schemaBound, boundEq]
  | some s =>
    obtain ⟨w, hw, w', hw', he⟩ := h s rfl
    obtain ⟨hs, hp⟩ := hne s rfl
    have hs' : s.isEmpty = false := by cases s with | nil => exact absurd rfl hs | cons _ _ => rfl
    have hp' : (pyStr w).isEmpty = false := by
      cases hq : pyStr w with
      | nil => exact absurd hq (hp w hw)
      | cons _ _ => rfl
    simp [typed, schemaBound, hw, hw', hs', hp', boundEq, he]

/-- for the modelled codec families the second half of `BoundNe` is automatic -/
theorem boundNe_modelled {fs : Facts} {dt : Str} {o : Option Str}
    (hf : famOf dt = some .int ∨ famOf dt = some .bool ∨ famOf dt = some .str) (hs : ∀ s, o = some s → s ≠ []) :
    BoundNe fs dt o := by
  intro s hso
  refine ⟨hs s hso, ?_⟩
  intro w hw
  rcases hf with hf | hf | hf
  · simp only [inp, hf] at hw
    cases hp : pyInt? s with
    | none => simp [hp] at hw
    | some n => simp [hp] at hw; subst hw; exact pyStr_ne_nil_int n
  · simp only [inp, hf, Option.some.injEq] at hw; subst hw; exact pyStr_ne_nil_bool _
  · simp only [inp, hf, Option.some.injEq] at hw; subst hw; simpa [pyStr, out] using hs s hso

/-- **the client's re-parsed variable accepts exactly the values the definition accepts** -/
theorem schemaOk_clientVarOf {fs : Facts} {vd : VarDef} (h : VarWF fs vd)
    (hmin : BoundNe fs vd.dtype vd.min) (hmax : BoundNe fs vd.dtype vd.max) (v : Val) :
    schemaOk fs (clientVarOf fs vd) v = schemaOk fs vd v := by
  have hdt : (clientVarOf fs vd).dtype = vd.dtype := rfl
  have e1 : (clientVarOf fs vd).min = (typed fs vd.dtype vd.min).map pyStr := rfl
  have e2 : (clientVarOf fs vd).max = (typed fs vd.dtype vd.max).map pyStr := rfl
  unfold schemaOk
  simp only [hdt, e1, e2]
  rw [any_eqPy_congr (allowed_sameVals h) _,
    inRange_congr (bound_client h.min_ok hmin) (bound_client h.max_ok hmax) _]

/-- the definition's variable is well formed for the client/server agreement -/
def VarAgreeWF (fs : Facts) (vd : VarDef) : Prop :=
  VarWF fs vd ∧ BoundNe fs vd.dtype vd.min ∧ BoundNe fs vd.dtype vd.max

/-- arguments valid for the server's action (the definition) are valid for the client's own action
    object: `hokC` of `call_roundtrip` follows from `hokS` -/
theorem argsOk_cactOf {fs : Facts} {sact : SAct} {args : List (Str × Val)}
    (hw : ∀ a ∈ sact.ins, VarAgreeWF fs a.var) (hok : ArgsOk fs args sact.ins) :
    ArgsOk fs args (cactOf fs sact).ins := by
  intro a ha
  simp only [cactOf, List.mem_map] at ha
  obtain ⟨x, hx, rfl⟩ := ha
  obtain ⟨v, hv, hs, hr⟩ := hok x hx
  obtain ⟨h1, h2, h3⟩ := hw x hx
  exact ⟨v, hv, by rw [schemaOk_clientVarOf h1 h2 h3]; exact hs, hr⟩

/-- results that are valid for the out-arguments stay valid when the handler returns them as
    state-variable objects (the assignment inside the handler validates with the same schema) -/
theorem asVarValid_of_valsOk {fs : Facts} {act : SAct} {vals : List (Str × Val)} (h : ValsOk fs act vals)
    (asVar : List Str) : asVarValid fs act vals asVar = true := by
  unfold asVarValid
  simp only [List.all_eq_true]
  intro k _
  cases hf : act.outs.find? (fun a => a.name = k) with
  | none => rfl
  | some a =>
    cases hg : PyDict.get? vals k with
    | none => rfl
    | some v =>
      obtain ⟨a', hf', hs, _⟩ := h (k, v) (PyDict.mem_of_get? hg)
      simp only at hf'
      rw [hf] at hf'
      cases hf'
      exact hs

theorem renderResult_retVars {fs : Facts} {stype : Str} {act : SAct} {vals : List (Str × Val)}
    (h : ValsOk fs act vals) (asVar : List Str) :
    renderResult fs stype act (.retVars vals asVar) = renderResult fs stype act (.ret vals) := by
  simp [renderResult, asVarValid_of_valsOk h asVar]

/-- for the integer, string and boolean families `VarAgreeWF` needs no codec hypothesis: a blank-free
    name, declared texts that parse, non-empty bound texts, allowed values written as non-empty texts -/
theorem varAgreeWF_modelled {fs : Facts} {vd : VarDef}
    (hf : famOf vd.dtype = some .int ∨ famOf vd.dtype = some .str ∨ famOf vd.dtype = some .bool)
    (hname : ∀ c ∈ vd.name, isWs c = false)
    (hparse : ∀ s, (vd.min = some s ∨ vd.max = some s ∨ vd.default = some s ∨ s ∈ vd.allowed.getD []) →
        (inp fs vd.dtype s).isSome = true)
    (hbne : ∀ s, (vd.min = some s ∨ vd.max = some s) → s ≠ [])
    (hane : ∀ a ∈ vd.allowed.getD [], ∀ v, inp fs vd.dtype a = some v → pyStr v ≠ []) :
    VarAgreeWF fs vd := by
  have hfs : (famOf vd.dtype).isSome = true := by rcases hf with h | h | h <;> simp [h]
  have hf' : famOf vd.dtype = some .int ∨ famOf vd.dtype = some .bool ∨ famOf vd.dtype = some .str := by
    rcases hf with h | h | h
    · exact Or.inl h
    · exact Or.inr (Or.inr h)
    · exact Or.inr (Or.inl h)
  have opt : ∀ o : Option Str, (∀ s, o = some s → (inp fs vd.dtype s).isSome = true) → OptWF fs vd.dtype o := by
    intro o ho s hs
    cases hv : inp fs vd.dtype s with
    | none => have := ho s hs; simp [hv] at this
    | some v => exact ⟨v, rfl, rtok_modelled hf hv⟩
  refine ⟨⟨hname, hfs, opt _ (fun s h => hparse s (Or.inl h)), opt _ (fun s h => hparse s (Or.inr (Or.inl h))),
    opt _ (fun s h => hparse s (Or.inr (Or.inr (Or.inl h)))), ?_⟩,
    boundNe_modelled hf' (fun s h => hbne s (Or.inl h)), boundNe_modelled hf' (fun s h => hbne s (Or.inr h))⟩
  intro a ha
  cases hv : inp fs vd.dtype a with
  | none => have := hparse a (Or.inr (Or.inr (Or.inr ha))); simp [hv] at this
  | some v => exact ⟨v, rfl, rtok_modelled hf hv, hane a ha v hv⟩

end Upnp.C14
