/-
  C14 helper lemmas: the action list and the whole SCPD (`parseScpd ∘ serializeScpd`).
-/
import Upnp.Lemmas.C14Desc
import Upnp.Lemmas.C14Call
namespace Upnp.C14
open Upnp

/-- the action definition the client reads back: argument names with the related variable's name -/
def adefOf (a : SAct) : ActDef :=
  ⟨a.name, a.ins.map (fun x => ⟨x.name, x.var.name⟩), a.outs.map (fun x => ⟨x.name, x.var.name⟩)⟩

/-- the client's bound action: same argument names, bound to the client's variables -/
def cactOf (fs : Facts) (a : SAct) : SAct :=
  ⟨a.name, a.ins.map (fun x => ⟨x.name, clientVarOf fs x.var⟩), a.outs.map (fun x => ⟨x.name, clientVarOf fs x.var⟩)⟩

@[simp] theorem text_node (t : QName) (a : List (QName × Str)) (x : Option Str) (k : List Xml) :
    (Xml.node t a x k).text = x := rfl

theorem parseArgEl_serializeArg (dir : String) (x : SArg) :
    parseArgEl (serializeArg dir x) = some (x.name, dir.toList, x.var.name) := by
  simp [parseArgEl, serializeArg, Xml.findtext, Xml.find, leaf, sq, textOf_getD, svcNs_ne_nil]

theorem filterMap_args (dir : String) (l : List SArg) :
    (l.map (serializeArg dir)).filterMap parseArgEl = l.map fun x => (x.name, dir.toList, x.var.name) := by
  induction l with
  | nil => rfl
  | cons x r ih => simp [parseArgEl_serializeArg, ih]

theorem filter_args_tag (dir : String) (l : List SArg) :
    (l.map (serializeArg dir)).filter (fun c => c.tag = sq "argument") = l.map (serializeArg dir) := by
  induction l with
  | nil => rfl
  | cons x r ih => simp [serializeArg, ih]

theorem act_name (a : SAct) : (serializeAct a).findtext (sq "name") none = some a.name := by
  simp [serializeAct, Xml.findtext, Xml.find, leaf, textOf_getD]

theorem act_argEls (a : SAct) :
    ((serializeAct a).findall (sq "argumentList")).flatMap (·.findall (sq "argument"))
      = a.ins.map (serializeArg "in") ++ a.outs.map (serializeArg "out") := by
  have hne : sq "name" ≠ sq "argumentList" := by decide
  by_cases he : (a.ins.isEmpty && a.outs.isEmpty) = true
  · have he' := he
    simp only [Bool.and_eq_true, List.isEmpty_iff] at he'
    simp [serializeAct, he, Xml.findall, leaf, hne, he'.1, he'.2]
  · simp only [serializeAct, he, Bool.false_eq_true, ↓reduceIte, Xml.findall, kids_node]
    simp only [List.filter, leaf, tag_node, hne, decide_false, decide_true, List.flatMap_cons, List.flatMap_nil,
      List.append_nil, kids_node]
    rw [List.filter_append, filter_args_tag, filter_args_tag]

theorem parseAction_serializeAct (a : SAct) : parseAction (serializeAct a) = adefOf a := by
  have hin : "out".toList ≠ "in".toList := by decide
  have hout : "in".toList ≠ "out".toList := by decide
  unfold parseAction adefOf
  have ft : ∀ l : List SArg, l.filter (fun _ => true) = l := by
    intro l; induction l <;> simp_all [List.filter]
  have ff : ∀ l : List SArg, l.filter (fun _ => false) = [] := by
    intro l; induction l <;> simp_all [List.filter]
  rw [act_name, act_argEls, List.filterMap_append, filterMap_args, filterMap_args]
  simp [List.filter_append, List.filter_map, Function.comp_def, hin, hout, ft, ff]


/-! ### binding arguments to variables, on the server and on the client -/

theorem lookupVar_name {vars : List VarDef} {n : Str} {v : VarDef} (h : lookupVar vars n = some v) : v.name = n := by
  have := List.find?_some h
  simpa using this

theorem lookupVar_client (fs : Facts) (vars : List VarDef) (n : Str) :
    lookupVar (vars.map (clientVarOf fs)) n = (lookupVar vars n).map (clientVarOf fs) := by
  induction vars with
  | nil => rfl
  | cons v r ih =>
    have hn : (clientVarOf fs v).name = v.name := rfl
    simp only [lookupVar, List.map_cons, List.find?_cons, hn] at ih ⊢
    by_cases h : v.name = n
    · simp [h]
    · simp [h, ih]

/-- every argument of the action is bound to the variable of that name in `vars` -/
def BoundIn (vars : List VarDef) (l : List SArg) : Prop :=
  ∀ x ∈ l, lookupVar vars x.var.name = some x.var

theorem resolveArgs_spec {vars : List VarDef} {l : List ArgDef} {rs : List SArg}
    (h : resolveArgs vars l = some rs) :
    rs.map (fun x => (⟨x.name, x.var.name⟩ : ArgDef)) = l ∧ BoundIn vars rs := by
  induction l generalizing rs with
  | nil => simp only [resolveArgs, Option.some.injEq] at h; subst h; exact ⟨rfl, fun _ hx => by cases hx⟩
  | cons a r ih =>
    simp only [resolveArgs] at h
    cases hl : lookupVar vars a.var with
    | none => simp [hl] at h
    | some v =>
      cases hr : resolveArgs vars r with
      | none => simp [hl, hr] at h
      | some rs' =>
        simp only [hl, hr, Option.some.injEq] at h
        subst h
        obtain ⟨h1, h2⟩ := ih hr
        have hv := lookupVar_name hl
        refine ⟨by simp [h1, hv], ?_⟩
        intro x hx
        simp only [List.mem_cons] at hx
        rcases hx with rfl | hx
        · simp only [hv]; exact hl
        · exact h2 x hx

theorem resolveArgs_client (fs : Facts) {vars : List VarDef} {rs : List SArg} (h : BoundIn vars rs) :
    resolveArgs (vars.map (clientVarOf fs)) (rs.map fun x => (⟨x.name, x.var.name⟩ : ArgDef))
      = some (rs.map fun x => ⟨x.name, clientVarOf fs x.var⟩) := by
  induction rs with
  | nil => rfl
  | cons x r ih =>
    have hx := h x List.mem_cons_self
    have := ih (fun y hy => h y (List.mem_cons_of_mem _ hy))
    simp only [List.map_cons, resolveArgs, lookupVar_client, hx, Option.map_some, this]

/-- a server-side action all of whose arguments are bound in `vars` -/
def ActBound (vars : List VarDef) (a : SAct) : Prop := BoundIn vars a.ins ∧ BoundIn vars a.outs

theorem resolveAct_spec {vars : List VarDef} {ad : ActDef} {sa : SAct} (h : resolveAct vars ad = some sa) :
    adefOf sa = ad ∧ ActBound vars sa := by
  unfold resolveAct at h
  cases hi : resolveArgs vars ad.ins with
  | none => simp [hi] at h
  | some i =>
    cases ho : resolveArgs vars ad.outs with
    | none => simp [hi, ho] at h
    | some o =>
      simp only [hi, ho, Option.some.injEq] at h
      subst h
      obtain ⟨i1, i2⟩ := resolveArgs_spec hi
      obtain ⟨o1, o2⟩ := resolveArgs_spec ho
      exact ⟨by simp [adefOf, i1, o1], i2, o2⟩

theorem resolveActs_spec {vars : List VarDef} {ads : List ActDef} {sas : List SAct}
    (h : resolveActs vars ads = some sas) : sas.map adefOf = ads ∧ ∀ sa ∈ sas, ActBound vars sa := by
  induction ads generalizing sas with
  | nil => simp only [resolveActs, Option.some.injEq] at h; subst h; exact ⟨rfl, fun _ hx => by cases hx⟩
  | cons a r ih =>
    simp only [resolveActs] at h
    cases ha : resolveAct vars a with
    | none => simp [ha] at h
    | some x =>
      cases hr : resolveActs vars r with
      | none => simp [ha, hr] at h
      | some xs =>
        simp only [ha, hr, Option.some.injEq] at h
        subst h
        obtain ⟨a1, a2⟩ := resolveAct_spec ha
        obtain ⟨r1, r2⟩ := ih hr
        refine ⟨by simp [a1, r1], ?_⟩
        intro sa hsa
        simp only [List.mem_cons] at hsa
        rcases hsa with rfl | hsa
        · exact a2
        · exact r2 sa hsa

theorem resolveActs_client (fs : Facts) {vars : List VarDef} {sas : List SAct}
    (h : ∀ sa ∈ sas, ActBound vars sa) :
    resolveActs (vars.map (clientVarOf fs)) (sas.map adefOf) = some (sas.map (cactOf fs)) := by
  induction sas with
  | nil => rfl
  | cons a r ih =>
    obtain ⟨hi, ho⟩ := h a List.mem_cons_self
    have := ih (fun y hy => h y (List.mem_cons_of_mem _ hy))
    simp only [List.map_cons, resolveActs, resolveAct, adefOf, resolveArgs_client fs hi,
      resolveArgs_client fs ho, this, cactOf]

/-! ### the whole service description -/

theorem filter_vars_tag (fs : Facts) (vars : List VarDef) :
    (vars.map (serializeVar fs)).filter (fun c => c.tag = sq "stateVariable") = vars.map (serializeVar fs) := by
  induction vars with
  | nil => rfl
  | cons x r ih => simp [serializeVar, ih]

theorem filter_acts_tag (acts : List SAct) :
    (acts.map serializeAct).filter (fun c => c.tag = sq "action") = acts.map serializeAct := by
  induction acts with
  | nil => rfl
  | cons x r ih => simp [serializeAct, ih]

/-- the factory's parse of the served SCPD document -/
theorem parseScpd_serializeScpd (fs : Facts) (vars : List VarDef) (sacts : List SAct)
    (hw : ∀ vd ∈ vars, VarWF fs vd) (hb : ∀ sa ∈ sacts, ActBound vars sa) :
    parseScpd fs (serializeScpd fs vars sacts) = some (vars.map (clientVarOf fs), sacts.map (cactOf fs)) := by
  have h1 : sq "specVersion" ≠ sq "serviceStateTable" := by decide
  have h2 : sq "actionList" ≠ sq "serviceStateTable" := by decide
  have h3 : sq "specVersion" ≠ sq "actionList" := by decide
  unfold parseScpd serializeScpd
  simp only [tag_node, ne_eq, not_true_eq_false, ↓reduceIte, Xml.find, kids_node, specVersion, List.find?, h1, h2, h3,
    decide_false, decide_true, Xml.findall, filter_vars_tag, filter_acts_tag, parseVars_serialize hw]
  have hm : List.map parseAction (List.map serializeAct sacts) = sacts.map adefOf := by
    rw [List.map_map]; congr 1; funext a; exact parseAction_serializeAct a
  rw [hm, resolveActs_client fs hb]
  rfl

end Upnp.C14

namespace Upnp.C14
open Upnp PyDict

/-! ### the client's action (`cactOf`) against the server's -/

theorem actMatches_cactOf (fs : Facts) (sa : SAct) : actMatches (adefOf sa) (actViewOf (cactOf fs sa)) = true := by
  simp [actMatches, adefOf, actViewOf, cactOf, List.map_map, Function.comp_def, clientVarOf]

theorem allMatch_acts (fs : Facts) (sas : List SAct) :
    allMatch actMatches (sas.map adefOf) ((sas.map (cactOf fs)).map actViewOf) = true := by
  induction sas with
  | nil => rfl
  | cons a r ih => simp only [List.map_cons, allMatch, actMatches_cactOf, ih, Bool.and_self]

theorem argEls_cactOf (fs : Facts) (args : List (Str × Val)) (sa : SAct) :
    argEls args (cactOf fs sa).ins = argEls args sa.ins := by
  simp [argEls, cactOf, argVal, List.map_map, Function.comp_def]

theorem find_outs_cactOf (fs : Facts) (sa : SAct) (k : Str) :
    (cactOf fs sa).outs.find? (fun a => a.name = k)
      = (sa.outs.find? (fun a => a.name = k)).map (fun x => ⟨x.name, clientVarOf fs x.var⟩) := by
  simp only [cactOf]
  induction sa.outs with
  | nil => rfl
  | cons x r ih =>
    simp only [List.map_cons, List.find?_cons]
    by_cases h : x.name = k
    · simp [h]
    · simp [h, ih]

theorem respStep_cactOf (fs : Facts) (sa : SAct) (acc : Except String (List (Str × Val))) (e : Xml) :
    respStep fs (cactOf fs sa) acc e = respStep fs sa acc e := by
  unfold respStep
  cases acc with
  | error x => rfl
  | ok d =>
    simp only [find_outs_cactOf]
    cases sa.outs.find? (fun a => a.name = e.tag.name) with
    | none => rfl
    | some a => rfl

/-- decoding a response with the client's action is decoding it with the server's: the client's
    out-arguments have the same names and data types -/
theorem clientDecode_cactOf (fs : Facts) (stype : Str) (sa : SAct) (o : Outcome) :
    clientDecode fs stype (cactOf fs sa) o = clientDecode fs stype sa o := by
  have hr : ∀ kids, responseDict fs (cactOf fs sa) kids = responseDict fs sa kids := by
    intro kids
    unfold responseDict
    congr 1
    funext acc e
    exact respStep_cactOf fs sa acc e
  unfold clientDecode
  simp only [hr]
  rfl

theorem createRequest_cactOf {fs : Facts} {stype : Str} {sa : SAct} {args : List (Str × Val)}
    (hok : ArgsOk fs args (cactOf fs sa).ins) :
    createRequest fs stype (cactOf fs sa) args = .ok (reqOf stype sa args) := by
  have := requestArgs_ok hok
  simp only [createRequest, this, argEls_cactOf, reqOf]
  rfl

end Upnp.C14
