/-
  C15 — clock advances: the moderation timers that fall due fire in order of their deadlines
  (ties together), each firing is accepted by the monitor and re-establishes the relation,
  and the fuel of `advance` (number of variables + 1) is never exhausted.
-/
import Upnp.Lemmas.C15Ops
namespace Upnp.C15

/-! ### the earliest deadline -/

theorem minFire_none : ∀ (l : List Var), minFire l = none → ∀ v ∈ l, v.deferred = none := by
  intro l
  induction l with
  | nil => intro _ v hv; cases hv
  | cons a l ihl =>
    intro hn v hv
    unfold minFire at hn
    cases ha : a.deferred with
    | some x =>
      rw [ha] at hn
      cases hl : minFire l <;> rw [hl] at hn <;> cases hn
    | none =>
      rw [ha] at hn
      rcases List.mem_cons.mp hv with rfl | hv
      · exact ha
      · exact ihl hn v hv

theorem minFire_le : ∀ (vs : List Var) (f : Int), minFire vs = some f →
    ∀ v ∈ vs, ∀ g, v.deferred = some g → f ≤ g := by
  intro vs
  induction vs with
  | nil => intro f h; cases h
  | cons v vs ih =>
    intro f h w hw g hg
    unfold minFire at h
    cases hd : v.deferred with
    | none =>
      rw [hd] at h
      simp only at h
      rcases List.mem_cons.mp hw with rfl | hw
      · rw [hd] at hg; cases hg
      · exact ih f h w hw g hg
    | some d =>
      rw [hd] at h
      cases hm : minFire vs with
      | none =>
        rw [hm] at h
        simp only [Option.some.injEq] at h
        subst h
        rcases List.mem_cons.mp hw with rfl | hw
        · rw [hd] at hg; cases hg; exact Int.le_refl _
        · rw [minFire_none vs hm w hw] at hg; cases hg
      | some e =>
        rw [hm] at h
        simp only [Option.some.injEq] at h
        rcases List.mem_cons.mp hw with rfl | hw
        · rw [hd] at hg; cases hg
          by_cases hde : g ≤ e
          · rw [if_pos hde] at h; omega
          · rw [if_neg hde] at h; omega
        · have := ih e hm w hw g hg
          by_cases hde : d ≤ e
          · rw [if_pos hde] at h; omega
          · rw [if_neg hde] at h; omega

theorem minFire_mem : ∀ (vs : List Var) (f : Int), minFire vs = some f → ∃ v ∈ vs, v.deferred = some f := by
  intro vs
  induction vs with
  | nil => intro f h; cases h
  | cons v vs ih =>
    intro f h
    unfold minFire at h
    cases hd : v.deferred with
    | none =>
      rw [hd] at h
      obtain ⟨w, hw, hwd⟩ := ih f h
      exact ⟨w, List.mem_cons_of_mem _ hw, hwd⟩
    | some d =>
      rw [hd] at h
      cases hm : minFire vs with
      | none =>
        rw [hm] at h
        simp only [Option.some.injEq] at h
        subst h
        exact ⟨v, List.mem_cons_self, hd⟩
      | some e =>
        rw [hm] at h
        simp only [Option.some.injEq] at h
        by_cases hde : d ≤ e
        · rw [if_pos hde] at h; subst h; exact ⟨v, List.mem_cons_self, hd⟩
        · rw [if_neg hde] at h; subst h
          obtain ⟨w, hw, hwd⟩ := ih e hm
          exact ⟨w, List.mem_cons_of_mem _ hw, hwd⟩

/-! ### the variables whose timer is due at `f` -/

theorem mem_dueIdx (f : Int) : ∀ (vs : List Var) (o k : Nat),
    k ∈ dueIdx f o vs ↔ ∃ i v, k = o + i ∧ vs[i]? = some v ∧ v.deferred = some f := by
  intro vs
  induction vs with
  | nil => intro o k; simp [dueIdx]
  | cons a vs ih =>
    intro o k
    unfold dueIdx
    by_cases ha : a.deferred = some f
    · rw [if_pos ha, List.mem_cons, ih]
      constructor
      · rintro (rfl | ⟨i, v, rfl, hv, hd⟩)
        · exact ⟨0, a, rfl, rfl, ha⟩
        · exact ⟨i + 1, v, by omega, by simpa using hv, hd⟩
      · rintro ⟨i, v, rfl, hv, hd⟩
        cases i with
        | zero => left; rfl
        | succ i => right; exact ⟨i, v, by omega, by simpa using hv, hd⟩
    · rw [if_neg ha, ih]
      constructor
      · rintro ⟨i, v, rfl, hv, hd⟩
        exact ⟨i + 1, v, by omega, by simpa using hv, hd⟩
      · rintro ⟨i, v, rfl, hv, hd⟩
        cases i with
        | zero =>
          simp only [List.getElem?_cons_zero, Option.some.injEq] at hv
          subst hv; exact absurd hd ha
        | succ i => exact ⟨i, v, by omega, by simpa using hv, hd⟩

theorem nodup_dueIdx (f : Int) : ∀ (vs : List Var) (o : Nat), (dueIdx f o vs).Nodup := by
  intro vs
  induction vs with
  | nil => intro o; simp [dueIdx]
  | cons a vs ih =>
    intro o
    unfold dueIdx
    by_cases ha : a.deferred = some f
    · rw [if_pos ha, List.nodup_cons]
      refine ⟨?_, ih (o + 1)⟩
      intro h
      obtain ⟨i, v, hk, _, _⟩ := (mem_dueIdx f vs (o + 1) o).mp h
      omega
    · rw [if_neg ha]; exact ih (o + 1)

/-! ### fuel: every firing removes a pending timer -/

def pending (vs : List Var) : Nat := (vs.filter (fun v => v.deferred.isSome)).length

/-- what a firing at `f` does to one variable -/
def clr (f : Int) (v : Var) : Var :=
  if v.deferred = some f then { v with deferred := none, lastSent := f } else v

theorem pending_clr_le (f : Int) : ∀ vs : List Var, pending (vs.map (clr f)) ≤ pending vs := by
  intro vs
  induction vs with
  | nil => simp [pending]
  | cons a vs ih =>
    unfold pending at ih ⊢
    simp only [List.map_cons, List.filter_cons]
    by_cases ha : a.deferred = some f
    · have h1 : (clr f a).deferred = none := by simp [clr, ha]
      rw [h1, ha]; simp only [Option.isSome_none, Bool.false_eq_true, if_false, Option.isSome_some, if_true,
        List.length_cons]
      omega
    · have h1 : clr f a = a := by simp [clr, ha]
      rw [h1]
      split <;> (try simp only [List.length_cons]) <;> omega

theorem pending_clr_lt (f : Int) : ∀ vs : List Var, (∃ v ∈ vs, v.deferred = some f) →
    pending (vs.map (clr f)) < pending vs := by
  intro vs
  induction vs with
  | nil => rintro ⟨v, hv, _⟩; cases hv
  | cons a vs ih =>
    rintro ⟨v, hv, hd⟩
    have hle := pending_clr_le f vs
    unfold pending at ih hle ⊢
    simp only [List.map_cons, List.filter_cons]
    by_cases ha : a.deferred = some f
    · have h1 : (clr f a).deferred = none := by simp [clr, ha]
      rw [h1, ha]; simp only [Option.isSome_none, Bool.false_eq_true, if_false, Option.isSome_some, if_true,
        List.length_cons]
      omega
    · have h1 : clr f a = a := by simp [clr, ha]
      rw [h1]
      have hv' : ∃ v ∈ vs, v.deferred = some f := by
        rcases List.mem_cons.mp hv with rfl | hv
        · exact absurd hd ha
        · exact ⟨v, hv, hd⟩
      have := ih hv'
      split <;> (try simp only [List.length_cons]) <;> omega

theorem pending_le_length (vs : List Var) : pending vs ≤ vs.length := by
  unfold pending; exact List.length_filter_le _ _

/-! ### the monitor on the trigger items of one firing -/

theorem lapse_fields (j : Mon) (t : Int) :
    (j.lapse t).ok = j.ok ∧ (j.lapse t).now = j.now ∧ (j.lapse t).target = j.target ∧ (j.lapse t).evented = j.evented
    ∧ (j.lapse t).rate = j.rate ∧ (j.lapse t).cur = j.cur ∧ (j.lapse t).lastChange = j.lastChange
    ∧ (j.lapse t).lastTrig = j.lastTrig ∧ (j.lapse t).awaiting = j.awaiting ∧ (j.lapse t).pendingChg = j.pendingChg := by
  unfold Mon.lapse; split <;> exact ⟨rfl, rfl, rfl, rfl, rfl, rfl, rfl, rfl, rfl, rfl⟩

/-- what lapsing does to one entry -/
def lapsed (c : Bool) (sm : SubMon) : SubMon := if c then { sm with credit := 0 } else sm

theorem lapse_subs (j : Mon) (t : Int) : (j.lapse t).subs = j.subs.map (lapsed (decide (j.now < t))) := by
  unfold Mon.lapse
  by_cases h : j.now < t
  · rw [if_pos h]; simp [lapsed, h]
  · rw [if_neg h]
    have : lapsed (decide (j.now < t)) = id := by funext sm; simp [lapsed, h]
    rw [this, List.map_id]

theorem trig_step (j : Mon) (x : Nat) (t : Int) (h1 : j.evented.getD x false = true)
    (hnow : j.now ≤ t) (htgt : t ≤ j.target)
    (h3 : j.lastTrig[x]? = some none ∨ ∃ u, j.lastTrig[x]? = some (some u) ∧ u + (j.rate.getD x 0 : Int) ≤ t)
    (hp : ∃ n, j.pendingChg[x]? = some n ∧ 0 < n) :
    j.onObs (.trig x t) = (j.lapse t).triggered x t := by
  obtain ⟨f1, f2, f3, f4, f5, _, _, f8, _, f10⟩ := lapse_fields j t
  have h2 : timeOk (j.lapse t) t = true := by simp [timeOk, f2, f3, hnow, htgt]
  obtain ⟨n, hn, hpos⟩ := hp
  have hpd : decide (0 < (j.lapse t).pendingChg.getD x 0) = true := by
    rw [f10]; simp [List.getD_eq_getElem?_getD, hn, hpos]
  simp only [Mon.onObs, Mon.trigAt, Mon.triggered, f4, h1, h2, hpd]
  congr 1
  rw [f8, f5]
  rcases h3 with e | ⟨u, e, hu⟩
  · rw [e]; simp
  · rw [e]; simp only [decide_eq_true hu]; simp

theorem trigs_ok (f : Int) (D : List Nat) : ∀ (j : Mon), D.Nodup → j.now ≤ f → f ≤ j.target →
    (∀ x ∈ D, j.evented.getD x false = true ∧
      (j.lastTrig[x]? = some none ∨ ∃ u, j.lastTrig[x]? = some (some u) ∧ u + (j.rate.getD x 0 : Int) ≤ f)
      ∧ ∃ n, j.pendingChg[x]? = some n ∧ 0 < n) →
    (j.obsRun (D.map (fun x => Obs.trig x f))).ok = j.ok
    ∧ (D ≠ [] → (j.obsRun (D.map (fun x => Obs.trig x f))).now = f)
    ∧ (j.obsRun (D.map (fun x => Obs.trig x f))).target = j.target
    ∧ (j.obsRun (D.map (fun x => Obs.trig x f))).evented = j.evented
    ∧ (j.obsRun (D.map (fun x => Obs.trig x f))).rate = j.rate
    ∧ (j.obsRun (D.map (fun x => Obs.trig x f))).cur = j.cur
    ∧ (j.obsRun (D.map (fun x => Obs.trig x f))).lastChange = j.lastChange
    ∧ (j.obsRun (D.map (fun x => Obs.trig x f))).awaiting = j.awaiting
    ∧ (∀ x ∈ D, (j.obsRun (D.map (fun x => Obs.trig x f))).lastTrig[x]? = some (some f))
    ∧ (∀ x, x ∉ D → (j.obsRun (D.map (fun x => Obs.trig x f))).lastTrig[x]? = j.lastTrig[x]?)
    ∧ (∃ g : SubMon → SubMon,
        (∀ sm, (g sm).alive = sm.alive ∧ (g sm).url = sm.url ∧ (g sm).nextSeq = sm.nextSeq ∧ (g sm).expires = sm.expires
          ∧ (g sm).gotInitial = sm.gotInitial ∧ (g sm).lastVals = sm.lastVals
          ∧ (g sm).credit = (if j.now < f ∧ D ≠ [] then 0 else sm.credit) + D.length)
        ∧ (j.obsRun (D.map (fun x => Obs.trig x f))).subs = j.subs.map g)
    ∧ (∀ x, x ∉ D → (j.obsRun (D.map (fun x => Obs.trig x f))).pendingChg[x]? = j.pendingChg[x]?)
    ∧ (∀ x ∈ D, ∃ n, (j.obsRun (D.map (fun x => Obs.trig x f))).pendingChg[x]? = some n) := by
  induction D with
  | nil =>
    intro j _ _ _ _
    refine ⟨rfl, fun h => absurd rfl h, rfl, rfl, rfl, rfl, rfl, rfl, fun x hx => (by cases hx), fun _ _ => rfl,
      ⟨id, fun sm => ⟨rfl, rfl, rfl, rfl, rfl, rfl, by simp⟩, by show j.subs = _; simp⟩, fun _ _ => rfl,
      fun x hx => (by cases hx)⟩
  | cons x D ih =>
    intro j hnd hnow htgt hD
    obtain ⟨hx1, hx3, hxp⟩ := hD x List.mem_cons_self
    have hxD : x ∉ D := (List.nodup_cons.mp hnd).1
    have hnd' : D.Nodup := (List.nodup_cons.mp hnd).2
    have hstep := trig_step j x f hx1 hnow htgt hx3 hxp
    obtain ⟨f1, f2, f3, f4, f5, f6, f7, f8, f9, f10⟩ := lapse_fields j f
    have hlt : x < j.lastTrig.length := by
      rcases hx3 with e | ⟨u, e, _⟩ <;> exact (List.getElem?_eq_some_iff.mp e).1
    have hrun : j.obsRun ((x :: D).map (fun x => Obs.trig x f))
        = ((j.lapse f).triggered x f).obsRun (D.map (fun x => Obs.trig x f)) := by
      show (j.onObs (.trig x f)).obsRun _ = _
      rw [hstep]
    rw [hrun]
    have ih' := ih ((j.lapse f).triggered x f) hnd' (Int.le_refl f) (by show f ≤ (j.lapse f).target; rw [f3]; exact htgt) (by
      intro y hy
      have hne : x ≠ y := fun e => hxD (e ▸ hy)
      obtain ⟨hy1, hy3, hyp⟩ := hD y (List.mem_cons_of_mem _ hy)
      refine ⟨by show (j.lapse f).evented.getD y false = true; rw [f4]; exact hy1, ?_, ?_⟩
      · rcases hy3 with e | ⟨u, e, hu⟩
        · left
          show ((j.lapse f).lastTrig.set x (some f))[y]? = some none
          rw [List.getElem?_set_ne hne, f8]; exact e
        · right
          refine ⟨u, ?_, by show u + (((j.lapse f).rate.getD y 0 : Nat) : Int) ≤ f; rw [f5]; exact hu⟩
          show ((j.lapse f).lastTrig.set x (some f))[y]? = _
          rw [List.getElem?_set_ne hne, f8]; exact e
      · obtain ⟨n, hn, hpos⟩ := hyp
        exact ⟨n, by show ((j.lapse f).pendingChg.modify x (· - 1))[y]? = some n
                     rw [pc_modify_ne _ _ _ _ (Ne.symm hne), f10]; exact hn, hpos⟩)
    obtain ⟨h1, h2, h3, h4, h5, h6, h7, h8, h9, h10, ⟨g2, hg2, h11⟩, h12, h13⟩ := ih'
    refine ⟨h1.trans f1, fun _ => ?_, h3.trans f3, h4.trans f4, h5.trans f5, h6.trans f6, h7.trans f7, h8.trans f9,
      ?_, ?_, ?_, ?_, ?_⟩
    · by_cases hD0 : D = []
      · subst hD0; rfl
      · exact h2 hD0
    · intro y hy
      rcases List.mem_cons.mp hy with rfl | hy
      · rw [h10 y hxD]
        show ((j.lapse f).lastTrig.set y (some f))[y]? = _
        rw [f8, List.getElem?_set_self hlt]
      · exact h9 y hy
    · intro y hy
      have hne : x ≠ y := fun e => hy (e ▸ List.mem_cons_self)
      rw [h10 y (fun h => hy (List.mem_cons_of_mem _ h))]
      show ((j.lapse f).lastTrig.set x (some f))[y]? = _
      rw [List.getElem?_set_ne hne, f8]
    · refine ⟨fun sm => g2 { (lapsed (decide (j.now < f)) sm) with credit := (lapsed (decide (j.now < f)) sm).credit + 1 }, ?_, ?_⟩
      · intro sm
        obtain ⟨a1, a2, a3, a4, a5, a6, a7⟩ := hg2 { (lapsed (decide (j.now < f)) sm) with credit := (lapsed (decide (j.now < f)) sm).credit + 1 }
        have hl : ∀ c, (lapsed c sm).alive = sm.alive ∧ (lapsed c sm).url = sm.url ∧ (lapsed c sm).nextSeq = sm.nextSeq
            ∧ (lapsed c sm).expires = sm.expires ∧ (lapsed c sm).gotInitial = sm.gotInitial ∧ (lapsed c sm).lastVals = sm.lastVals := by
          intro c; unfold lapsed; split <;> exact ⟨rfl, rfl, rfl, rfl, rfl, rfl⟩
        obtain ⟨l1, l2, l3, l4, l5, l6⟩ := hl (decide (j.now < f))
        refine ⟨a1.trans l1, a2.trans l2, a3.trans l3, a4.trans l4, a5.trans l5, a6.trans l6, ?_⟩
        rw [a7]
        have hnn : ¬ (((j.lapse f).triggered x f).now < f ∧ D ≠ []) := fun h => absurd h.1 (Int.lt_irrefl f)
        rw [if_neg hnn]
        show (lapsed (decide (j.now < f)) sm).credit + 1 + D.length = _
        by_cases hlt' : j.now < f
        · rw [if_pos ⟨hlt', by simp⟩]; simp [lapsed, hlt']; omega
        · rw [if_neg (fun h => hlt' h.1)]; simp [lapsed, hlt']; omega
      · rw [h11]
        show ((j.lapse f).subs.map _).map g2 = _
        rw [lapse_subs, List.map_map, List.map_map]
        rfl
    · intro y hy
      have hne : y ≠ x := fun e => hy (e ▸ List.mem_cons_self)
      rw [h12 y (fun h => hy (List.mem_cons_of_mem _ h))]
      show ((j.lapse f).pendingChg.modify x (· - 1))[y]? = _
      rw [pc_modify_ne _ _ _ _ hne, f10]
    · intro y hy
      rcases List.mem_cons.mp hy with rfl | hy
      · rw [h12 y hxD]
        obtain ⟨n, hn, _⟩ := hxp
        exact ⟨n - 1, by show ((j.lapse f).pendingChg.modify y (· - 1))[y]? = _
                         rw [f10]; exact pc_modify_self _ _ _ _ hn⟩
      · exact h13 y hy

/-! ### one firing -/

theorem clr_evented (f : Int) (v : Var) : (clr f v).evented = v.evented := by unfold clr; split <;> rfl
theorem clr_rate (f : Int) (v : Var) : (clr f v).rate = v.rate := by unfold clr; split <;> rfl
theorem clr_value (f : Int) (v : Var) : (clr f v).value = v.value := by unfold clr; split <;> rfl

theorem fire_fst_vars (m : State) (f : Int) : (fire m f).1.vars = m.vars.map (clr f) := by
  have hb : ∀ (n : Nat) (m : State), (broadcastN n m).1.vars = m.vars := by
    intro n
    induction n with
    | zero => intro m; rfl
    | succ n ih => intro m; show (broadcastN n (broadcast m).1).1.vars = _; rw [ih]; rfl
  show (broadcastN _ _).1.vars = _
  rw [hb]; rfl

theorem fire_ok (T : Int) (m : State) (j : Mon) (f : Int) (h : RelT T m j)
    (hmin : minFire m.vars = some f) (hfT : f ≤ T) :
    RelT T (fire m f).1 (j.obsRun (fire m f).2) := by
  -- the due set
  have hDmem : ∀ x, x ∈ dueIdx f 0 m.vars ↔ ∃ v, m.vars[x]? = some v ∧ v.deferred = some f := by
    intro x
    rw [mem_dueIdx]
    constructor
    · rintro ⟨i, v, rfl, hv, hd⟩; exact ⟨v, by simpa using hv, hd⟩
    · rintro ⟨v, hv, hd⟩; exact ⟨x, v, by omega, hv, hd⟩
  obtain ⟨v0, hv0m, hv0d⟩ := minFire_mem m.vars f hmin
  obtain ⟨i0, hi0⟩ := List.mem_iff_getElem?.mp hv0m
  have hDne : dueIdx f 0 m.vars ≠ [] := by
    intro e
    have : i0 ∈ dueIdx f 0 m.vars := (hDmem i0).mpr ⟨v0, hi0, hv0d⟩
    rw [e] at this; cases this
  have hnowf : m.now < f := ((h.vars i0 v0 hi0).dfr f hv0d).2.2.2
  have hle : ∀ (i : Nat) (v : Var) (g : Int), m.vars[i]? = some v → v.deferred = some g → f ≤ g := by
    intro i v g hv hg
    exact minFire_le m.vars f hmin v (List.mem_of_getElem? hv) g hg
  -- the trigger observations
  have hT := trigs_ok f (dueIdx f 0 m.vars) j (nodup_dueIdx f m.vars 0) (by have := h.now; omega)
    (by rw [h.tgt]; exact hfT) (by
      intro x hx
      obtain ⟨v, hv, hd⟩ := (hDmem x).mp hx
      obtain ⟨e1, e2, _, _⟩ := (h.vars x v hv).dfr f hd
      refine ⟨by rw [h.ev, getD_map_of_getElem? _ _ _ _ _ hv]; exact e1, ?_⟩
      refine ⟨?_, ?_⟩
      · rcases (h.vars x v hv).trig with e | e
        · left; exact e
        · right; refine ⟨v.lastSent, e, ?_⟩
          rw [h.rate, getD_map_of_getElem? _ _ _ _ _ hv]; omega
      · obtain ⟨n, hn, hpos⟩ := (h.vars x v hv).pc
        exact ⟨n, hn, hpos (by rw [hd]; exact fun e => by cases e)⟩)
  obtain ⟨t1, t2, t3, t4, t5, t6, t7, t8, t9, t10, ⟨g, hg, t11⟩, t12, t13⟩ := hT
  -- the fan-outs
  have hrun : j.obsRun (fire m f).2
      = (j.obsRun ((dueIdx f 0 m.vars).map (fun x => Obs.trig x f))).obsRun
          (broadcastN (dueIdx f 0 m.vars).length { m with now := f, vars := m.vars.map (clr f) }).2 := by
    show j.obsRun (_ ++ _) = _
    rw [Mon.obsRun_append]; rfl
  have hfst : (fire m f).1 = (broadcastN (dueIdx f 0 m.vars).length { m with now := f, vars := m.vars.map (clr f) }).1 := rfl
  have hB := broadcastN_ok (dueIdx f 0 m.vars).length { m with now := f, vars := m.vars.map (clr f) }
    (j.obsRun ((dueIdx f 0 m.vars).map (fun x => Obs.trig x f))) 0
    (t2 hDne) (by rw [t3, h.tgt]; exact hfT)
    (by rw [t4, h.ev]; show _ = (m.vars.map (clr f)).map _; rw [List.map_map]
        apply List.map_congr_left; intro v _; exact (clr_evented f v).symm)
    (by rw [t6, h.cur]; show _ = (m.vars.map (clr f)).map _; rw [List.map_map]
        apply List.map_congr_left; intro v _; exact (clr_value f v).symm)
    (by rw [t11]
        exact SubsOk.congr (m' := { m with now := f, vars := m.vars.map (clr f) }) _ h.subs rfl rfl
          (by show m.now ≤ f; omega) (fun sm => ⟨(hg sm).1, (hg sm).2.1, (hg sm).2.2.1, (hg sm).2.2.2.1, (hg sm).2.2.2.2.1⟩))
    (by intro s _ sm hsm
        rw [t11, List.getElem?_map] at hsm
        cases hj : j.subs[s.sid]? with
        | none => rw [hj] at hsm; cases hsm
        | some sm0 =>
          rw [hj] at hsm
          simp only [Option.map_some, Option.some.injEq] at hsm
          subst hsm
          rw [(hg sm0).2.2.2.2.2.2]
          omega)
  obtain ⟨bf, bnow, bvars, bnsid, bsubs, bcv⟩ := hB
  rw [hrun, hfst]
  refine ⟨?_, ?_, ?_, ?_, ?_, ?_, ?_, ?_, ?_, bsubs, ?_, ?_⟩
  · rw [bf.ok, t1]; exact h.ok
  · rw [bf.target, t3]; exact h.tgt
  · rw [bf.now, t2 hDne, bnow]; exact Int.le_refl _
  · rw [bf.awaiting, t8]; exact h.awaiting
  · rw [bf.evented, t4, h.ev, bvars]; show _ = (m.vars.map (clr f)).map _; rw [List.map_map]
    apply List.map_congr_left; intro v _; exact (clr_evented f v).symm
  · rw [bf.rate, t5, h.rate, bvars]; show _ = (m.vars.map (clr f)).map _; rw [List.map_map]
    apply List.map_congr_left; intro v _; exact (clr_rate f v).symm
  · rw [bf.cur, t6, h.cur, bvars]; show _ = (m.vars.map (clr f)).map _; rw [List.map_map]
    apply List.map_congr_left; intro v _; exact (clr_value f v).symm
  · rw [bf.lastChange, t7, bvars]; show _ = (m.vars.map (clr f)).length; rw [List.length_map]; exact h.lcLen
  · rw [bf.lastChange, bf.lastTrig, bf.pendingChg, t7, bvars, bnow]
    intro i v' hv'
    have hv'' : (m.vars.map (clr f))[i]? = some v' := hv'
    rw [List.getElem?_map] at hv''
    cases hv : m.vars[i]? with
    | none => rw [hv] at hv''; cases hv''
    | some v =>
      rw [hv] at hv''
      simp only [Option.map_some, Option.some.injEq] at hv''
      subst hv''
      have hvo := h.vars i v hv
      by_cases hd : v.deferred = some f
      · have hi : i ∈ dueIdx f 0 m.vars := (hDmem i).mpr ⟨v, hv, hd⟩
        have e : clr f v = { v with deferred := none, lastSent := f } := by simp [clr, hd]
        rw [e]
        obtain ⟨n, hn⟩ := t13 i hi
        exact ⟨Int.le_refl _, Or.inr (t9 i hi), fun g hg => (by cases hg), ⟨n, hn, fun hd' => absurd rfl hd'⟩⟩
      · have hi : i ∉ dueIdx f 0 m.vars := by
          intro hi
          obtain ⟨w, hw, hwd⟩ := (hDmem i).mp hi
          rw [hv] at hw; cases hw; exact hd hwd
        have e : clr f v = v := by simp [clr, hd]
        rw [e]
        refine ⟨by have := hvo.sent_le; show v.lastSent ≤ f; omega, by rw [t10 i hi]; exact hvo.trig, fun g hg => ?_,
          by rw [t12 i hi]; exact hvo.pc⟩
        obtain ⟨a1, a2, a3, _⟩ := hvo.dfr g hg
        have := hle i v g hv hg
        have hne : g ≠ f := fun e => hd (e ▸ hg)
        exact ⟨a1, a2, a3, by show f < g; omega⟩
  · intro s hs sm hsm i v hv _ _
    obtain ⟨_, hl⟩ := bcv s hs sm hsm
    have hpos : 0 < (dueIdx f 0 m.vars).length := List.length_pos_iff.mpr hDne
    rw [hl hpos, t6, h.cur]
    rw [bvars] at hv
    have hv' : (m.vars.map (clr f))[i]? = some v := hv
    rw [List.getElem?_map] at hv' ⊢
    cases hm : m.vars[i]? with
    | none => rw [hm] at hv'; cases hv'
    | some w =>
      rw [hm] at hv'
      simp only [Option.map_some, Option.some.injEq] at hv'
      subst hv'
      simp [clr_value]
  · rw [bnow]; exact hfT

/-! ### the whole advance -/

theorem RelT.finish {T : Int} {m : State} {j : Mon} (h : RelT T m j)
    (hd : ∀ (i : Nat) (v : Var) (g : Int), m.vars[i]? = some v → v.deferred = some g → T < g) :
    Rel { m with now := T } j := by
  have hT := h.nowT
  refine ⟨h.ok, h.tgt, by have := h.now; show j.now ≤ T; omega, h.awaiting, h.ev, h.rate, h.cur, h.lcLen, ?_,
    h.subs.state rfl rfl hT, h.vals, Int.le_refl _⟩
  intro i v hv
  have hvo := h.vars i v hv
  exact ⟨by have := hvo.sent_le; show v.lastSent ≤ T; omega, hvo.trig, fun g hg => by
    obtain ⟨a1, a2, a3, _⟩ := hvo.dfr g hg
    exact ⟨a1, a2, a3, hd i v g hv hg⟩, hvo.pc⟩

theorem advance_ok (T : Int) : ∀ (fuel : Nat) (m : State) (j : Mon), RelT T m j → pending m.vars < fuel →
    Rel (advance fuel m T).1 (j.obsRun (advance fuel m T).2) := by
  intro fuel
  induction fuel with
  | zero => intro m j _ hp; omega
  | succ fuel ih =>
    intro m j h hp
    unfold advance
    cases hmin : minFire m.vars with
    | none =>
      exact h.finish (fun i v g hv hg => by
        rw [minFire_none m.vars hmin v (List.mem_of_getElem? hv)] at hg; cases hg)
    | some f =>
      by_cases hfT : f ≤ T
      · simp only [hfT, if_true]
        rw [Mon.obsRun_append]
        apply ih
        · exact fire_ok T m j f h hmin hfT
        · rw [fire_fst_vars]
          have := pending_clr_lt f m.vars (minFire_mem m.vars f hmin)
          omega
      · simp only [hfT, if_false]
        exact h.finish (fun i v g hv hg => by
          have := minFire_le m.vars f hmin v (List.mem_of_getElem? hv) g hg
          omega)

end Upnp.C15
