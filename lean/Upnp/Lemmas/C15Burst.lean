/-
  C15 — several assignments without yielding to the loop (`setMany`): while the trigger tasks
  are pending the relation holds in the weaker form `RelP`; when they run (`flush`) the
  monitor accepts their triggers and fan-outs and the full relation is back.
-/
import Upnp.Lemmas.C15Adv
namespace Upnp.C15

/-- the relation in the middle of a burst: `pend` = variables whose trigger task has been created but has not run -/
structure RelP (pend : List Nat) (m : State) (j : Mon) : Prop where
  ok : j.ok = true
  tgt : j.target = m.now
  now : j.now = m.now
  awaiting : j.awaiting = none
  ev : j.evented = m.vars.map (·.evented)
  rate : j.rate = m.vars.map (·.rate)
  cur : j.cur = m.vars.map (·.value)
  lcLen : j.lastChange.length = m.vars.length
  vars : ∀ i v, m.vars[i]? = some v → VarOk m.now j.lastTrig j.lastChange j.pendingChg i v
  subs : SubsOk m j.subs
  vals : ∀ s ∈ m.subs, ∀ sm, j.subs[s.sid]? = some sm → ∀ (i : Nat) (v : Var), m.vars[i]? = some v →
    v.evented = true → v.deferred = none → i ∉ pend → sm.lastVals[i]? = some v.value
  pnd : ∀ x ∈ pend, ∃ v, m.vars[x]? = some v ∧ v.evented = true ∧ v.deferred = none ∧ v.lastSent + v.rate ≤ m.now
    ∧ ∃ n, j.pendingChg[x]? = some n ∧ 0 < n
  nodup : pend.Nodup

theorem RelP.of_rel {m : State} {j : Mon} (h : Rel m j) (hn : j.now = m.now) : RelP [] m j :=
  ⟨h.ok, h.tgt, hn, h.awaiting, h.ev, h.rate, h.cur, h.lcLen, h.vars, h.subs,
   fun s hs sm hsm i v hv he hd _ => h.vals s hs sm hsm i v hv he hd,
   fun x hx => (by cases hx), List.nodup_nil⟩

/-- one assignment of a burst that changes the value -/
theorem assignP_rel (pend pend' : List Nat) (m : State) (j : Mon) (x : Nat) (val : Val) (v0 : Var) (g : Var → Var)
    (h : RelP pend m j) (hx : m.vars[x]? = some v0)
    (hg : ∀ v, (g v).evented = v.evented ∧ (g v).rate = v.rate ∧ (g v).value = v.value ∧ (g v).lastSent = v.lastSent)
    (hd : ∀ f, (g { v0 with value := some val }).deferred = some f →
        v0.evented = true ∧ f = v0.lastSent + v0.rate ∧ m.now < f)
    (hq : v0.evented = true → (g { v0 with value := some val }).deferred ≠ none ∨ x ∈ pend')
    (hpend : pend' = pend ∨ (pend' = pend ++ [x] ∧ x ∉ pend ∧ v0.evented = true
        ∧ (g { v0 with value := some val }).deferred = none ∧ v0.lastSent + v0.rate ≤ m.now))
    (hkeep : x ∈ pend → (g { v0 with value := some val }).deferred = none) :
    RelP pend' { m with vars := m.vars.modify x (fun v => g { v with value := some val }) } (j.assigned x val) := by
  have hlc : x < j.lastChange.length := by
    rw [h.lcLen]; exact (List.getElem?_eq_some_iff.mp hx).1
  have hsub : ∀ y, y ∈ pend → y ∈ pend' := by
    intro y hy
    rcases hpend with e | ⟨e, _⟩
    · rw [e]; exact hy
    · rw [e]; exact List.mem_append_left _ hy
  refine ⟨h.ok, h.tgt, h.now, h.awaiting, ?_, ?_, ?_, ?_, ?_, h.subs.state rfl rfl (Int.le_refl _), ?_, ?_, ?_⟩
  · show j.evented = _
    rw [map_modify_same _ _ _ _ (fun a => by simp [(hg _).1])]; exact h.ev
  · show j.rate = _
    rw [map_modify_same _ _ _ _ (fun a => by simp [(hg _).2.1])]; exact h.rate
  · show j.cur.set x (some val) = _
    rw [map_modify_set _ _ _ _ (some val) (fun a => by simp [(hg _).2.2.1]), h.cur]
  · show (j.lastChange.set x j.now).length = _
    rw [List.length_set, List.length_modify]; exact h.lcLen
  · apply forall_modify
    · intro i a hi hne
      have := h.vars i a hi
      exact ⟨this.sent_le, this.trig, fun f hf => by
        obtain ⟨a1, a2, a3, a4⟩ := this.dfr f hf
        exact ⟨a1, a2, by show _ ≤ (j.lastChange.set x j.now).getD i 0; rw [getD_set_ne _ _ _ _ _ hne]; exact a3, a4⟩,
        by show ∃ n, (j.pendingChg.modify x (· + 1))[i]? = some n ∧ _
           rw [pc_modify_ne _ _ _ _ hne]; exact this.pc⟩
    · intro a ha
      rw [hx] at ha; cases ha
      have := h.vars x v0 hx
      obtain ⟨n0, hn0, _⟩ := this.pc
      refine ⟨by rw [(hg _).2.2.2]; exact this.sent_le, by rw [(hg _).2.2.2]; exact this.trig, fun f hf => ?_,
        ⟨n0 + 1, pc_modify_self _ _ _ _ hn0, fun _ => Nat.succ_pos _⟩⟩
      obtain ⟨b1, b2, b3⟩ := hd f hf
      refine ⟨by rw [(hg _).1]; exact b1, by rw [(hg _).2.2.2, (hg _).2.1]; exact b2, ?_, b3⟩
      show _ ≤ (j.lastChange.set x j.now).getD x 0
      rw [getD_set_self _ _ _ _ hlc, (hg _).2.2.2, h.now]; exact this.sent_le
  · intro s hs sm hsm
    apply forall_modify
    · intro i a hi hne he hdn hnp
      exact h.vals s hs sm hsm i a hi he hdn (fun hp => hnp (hsub i hp))
    · intro a ha he hdn hnp
      rw [hx] at ha; cases ha
      rw [(hg _).1] at he
      rcases hq he with hq | hq
      · exact absurd hdn hq
      · exact absurd hq hnp
  · intro y hy
    obtain ⟨nx, hnx, _⟩ := (h.vars x v0 hx).pc
    have hold : ∀ y, y ∈ pend → ∃ v, (m.vars.modify x (fun v => g { v with value := some val }))[y]? = some v
        ∧ v.evented = true ∧ v.deferred = none ∧ v.lastSent + v.rate ≤ m.now
        ∧ ∃ n, (j.pendingChg.modify x (· + 1))[y]? = some n ∧ 0 < n := by
      intro y hy
      obtain ⟨v, hv, h1, h2, h3, n, hn, hpos⟩ := h.pnd y hy
      by_cases hyx : y = x
      · subst hyx
        rw [hx] at hv; cases hv
        refine ⟨g { v0 with value := some val }, ?_, by rw [(hg _).1]; exact h1, hkeep hy,
          by rw [(hg _).2.2.2, (hg _).2.1]; exact h3, ⟨nx + 1, pc_modify_self _ _ _ _ hnx, Nat.succ_pos _⟩⟩
        rw [List.getElem?_modify_eq, hx]; rfl
      · exact ⟨v, by rw [List.getElem?_modify_ne _ _ (fun e => hyx e.symm)]; exact hv, h1, h2, h3,
          ⟨n, by rw [pc_modify_ne _ _ _ _ hyx]; exact hn, hpos⟩⟩
    rcases hpend with e | ⟨e, _, h1, h2, h3⟩
    · rw [e] at hy; exact hold y hy
    · rw [e] at hy
      rcases List.mem_append.mp hy with hy | hy
      · exact hold y hy
      · simp only [List.mem_singleton] at hy
        subst hy
        refine ⟨g { v0 with value := some val }, ?_, by rw [(hg _).1]; exact h1, h2,
          by rw [(hg _).2.2.2, (hg _).2.1]; exact h3, ⟨nx + 1, pc_modify_self _ _ _ _ hnx, Nat.succ_pos _⟩⟩
        rw [List.getElem?_modify_eq, hx]; rfl
  · rcases hpend with e | ⟨e, hn, _⟩
    · rw [e]; exact h.nodup
    · rw [e, List.nodup_append]
      refine ⟨h.nodup, by simp, ?_⟩
      intro a ha b hb
      simp only [List.mem_singleton] at hb
      subst hb
      exact fun e => hn (e ▸ ha)

/-- the assignments of a burst, one after the other -/
theorem assignMany_ok : ∀ (l : List (Nat × Val)) (m : State) (pend : List Nat) (j : Mon), RelP pend m j →
    RelP (assignMany m pend l).2 (assignMany m pend l).1 (l.foldl (fun j p => j.assign p.1 p.2) j) := by
  intro l
  induction l with
  | nil => intro m pend j h; exact h
  | cons p rest ih =>
    intro m pend j h
    obtain ⟨x, val⟩ := p
    show RelP (assignMany m pend ((x, val) :: rest)).2 (assignMany m pend ((x, val) :: rest)).1
      (rest.foldl (fun j p => j.assign p.1 p.2) (j.assign x val))
    unfold assignMany
    cases hx : m.vars[x]? with
    | none =>
      rw [assign_none m j x val h.cur hx]; exact ih m pend j h
    | some v0 =>
      by_cases hval : v0.value = some val
      · simp only [hval, if_true]
        rw [assign_same m j x val v0 h.cur hx hval]; exact ih m pend j h
      · simp only [hval, if_false]
        rw [assign_changed m j x val v0 h.cur hx hval]
        by_cases hc : (!v0.evented || v0.deferred.isSome || pend.contains x) = true
        · rw [if_pos hc]
          apply ih
          refine assignP_rel pend pend m j x val v0 id h hx (fun _ => ⟨rfl, rfl, rfl, rfl⟩) ?_ ?_ (Or.inl rfl) ?_
          · intro f hf
            obtain ⟨a1, a2, _, a4⟩ := (h.vars x v0 hx).dfr f hf
            exact ⟨a1, a2, a4⟩
          · intro he
            simp only [he, Bool.not_true, Bool.false_or, Bool.or_eq_true, List.contains_eq_mem, decide_eq_true_eq] at hc
            rcases hc with hc | hc
            · left; show v0.deferred ≠ none
              intro e; rw [e] at hc; cases hc
            · right; exact hc
          · intro hp
            obtain ⟨v, hv, _, h2, _, _⟩ := h.pnd x hp
            rw [hx] at hv; cases hv; exact h2
        · rw [if_neg hc]
          simp only [Bool.or_eq_true, Bool.not_eq_true', List.contains_eq_mem, decide_eq_true_eq, not_or,
            Bool.not_eq_false] at hc
          obtain ⟨⟨hev, hdf⟩, hnp⟩ := hc
          have hdn : v0.deferred = none := by
            cases hd : v0.deferred with
            | none => rfl
            | some f => rw [hd] at hdf; simp at hdf
          by_cases hnext : v0.lastSent + v0.rate ≤ m.now
          · rw [if_pos hnext]
            apply ih
            exact assignP_rel pend (pend ++ [x]) m j x val v0 id h hx (fun _ => ⟨rfl, rfl, rfl, rfl⟩)
              (fun f hf => by rw [show (id { v0 with value := some val } : Var).deferred = v0.deferred from rfl, hdn] at hf; cases hf)
              (fun _ => Or.inr (List.mem_append_right _ (List.mem_singleton.mpr rfl)))
              (Or.inr ⟨rfl, hnp, hev, hdn, hnext⟩) (fun hp => absurd hp hnp)
          · rw [if_neg hnext]
            rw [List.modify_modify_eq]
            apply ih
            exact assignP_rel pend pend m j x val v0 (fun v => { v with deferred := some (v.lastSent + v.rate) }) h hx
              (fun _ => ⟨rfl, rfl, rfl, rfl⟩)
              (fun f hf => by
                have : f = v0.lastSent + v0.rate := by
                  have : some (v0.lastSent + (v0.rate : Int)) = some f := hf
                  cases this; rfl
                exact ⟨hev, this, by omega⟩)
              (fun _ => Or.inl (by intro e; cases e)) (Or.inl rfl) (fun hp => absurd hp hnp)

/-! ### the pending trigger tasks run -/

theorem getElem?_markSent (f : Var → Var) : ∀ (D : List Nat) (vars : List Var) (i : Nat), D.Nodup →
    (D.foldl (fun vs x => vs.modify x f) vars)[i]? = (vars[i]?).map (fun v => if i ∈ D then f v else v) := by
  intro D
  induction D with
  | nil => intro vars i _; simp
  | cons x D ih =>
    intro vars i hnd
    have hxD : x ∉ D := (List.nodup_cons.mp hnd).1
    show (D.foldl (fun vs x => vs.modify x f) (vars.modify x f))[i]? = _
    rw [ih _ i (List.nodup_cons.mp hnd).2, List.getElem?_modify]
    cases vars[i]? with
    | none => rfl
    | some v =>
      simp only [Option.map_eq_map, Option.map_some, Option.some.injEq]
      by_cases hxi : x = i
      · subst hxi
        simp [hxD]
      · have : i ≠ x := fun e => hxi e.symm
        simp [hxi, this]

theorem flush_fst_vars (m : State) (D : List Nat) :
    (flush m D).1.vars = D.foldl (fun vs x => vs.modify x (fun v => { v with lastSent := m.now })) m.vars := by
  have hb : ∀ (n : Nat) (m : State), (broadcastN n m).1.vars = m.vars := by
    intro n
    induction n with
    | zero => intro m; rfl
    | succ n ih => intro m; show (broadcastN n (broadcast m).1).1.vars = _; rw [ih]; rfl
  show (broadcastN _ _).1.vars = _
  rw [hb]

theorem flush_ok (m : State) (j : Mon) (D : List Nat) (h : RelP D m j) :
    Rel (flush m D).1 (j.obsRun (flush m D).2) := by
  obtain ⟨vars1, hvars1⟩ : ∃ l, l = D.foldl (fun vs x => vs.modify x (fun v => { v with lastSent := m.now })) m.vars :=
    ⟨_, rfl⟩
  have hget : ∀ i : Nat, vars1[i]? = (m.vars[i]?).map (fun v => if i ∈ D then { v with lastSent := m.now } else v) := by
    intro i; rw [hvars1]; exact getElem?_markSent _ D m.vars i h.nodup
  have hmapE : vars1.map (·.evented) = m.vars.map (·.evented) := by
    apply List.ext_getElem?; intro i
    rw [List.getElem?_map, List.getElem?_map, hget]
    cases m.vars[i]? with
    | none => rfl
    | some v => simp only [Option.map_some]; split <;> rfl
  have hmapR : vars1.map (·.rate) = m.vars.map (·.rate) := by
    apply List.ext_getElem?; intro i
    rw [List.getElem?_map, List.getElem?_map, hget]
    cases m.vars[i]? with
    | none => rfl
    | some v => simp only [Option.map_some]; split <;> rfl
  have hmapV : vars1.map (·.value) = m.vars.map (·.value) := by
    apply List.ext_getElem?; intro i
    rw [List.getElem?_map, List.getElem?_map, hget]
    cases m.vars[i]? with
    | none => rfl
    | some v => simp only [Option.map_some]; split <;> rfl
  have hlen : vars1.length = m.vars.length := by
    have := congrArg List.length hmapE
    simpa using this
  -- the trigger observations
  have hT := trigs_ok m.now D j h.nodup (by rw [h.now]; exact Int.le_refl _) (by rw [h.tgt]; exact Int.le_refl _) (by
      intro x hx
      obtain ⟨v, hv, e1, _, e3, hpc⟩ := h.pnd x hx
      refine ⟨by rw [h.ev, getD_map_of_getElem? _ _ _ _ _ hv]; exact e1, ?_, hpc⟩
      rcases (h.vars x v hv).trig with e | e
      · left; exact e
      · right; refine ⟨v.lastSent, e, ?_⟩
        rw [h.rate, getD_map_of_getElem? _ _ _ _ _ hv]; exact e3)
  obtain ⟨t1, t2, t3, t4, t5, t6, t7, t8, t9, t10, ⟨g, hg, t11⟩, t12, t13⟩ := hT
  have hnow2 : (j.obsRun (D.map (fun x => Obs.trig x m.now))).now = m.now := by
    by_cases hD : D = []
    · subst hD; exact h.now
    · exact t2 hD
  have hrun : j.obsRun (flush m D).2
      = (j.obsRun (D.map (fun x => Obs.trig x m.now))).obsRun (broadcastN D.length { m with vars := vars1 }).2 := by
    show j.obsRun (_ ++ _) = _
    rw [Mon.obsRun_append, hvars1]
  have hfst : (flush m D).1 = (broadcastN D.length { m with vars := vars1 }).1 := by rw [hvars1]; rfl
  have hB := broadcastN_ok D.length { m with vars := vars1 } (j.obsRun (D.map (fun x => Obs.trig x m.now))) 0
    hnow2 (by rw [t3, h.tgt]; exact Int.le_refl _)
    (by rw [t4, h.ev]; exact hmapE.symm) (by rw [t6, h.cur]; exact hmapV.symm)
    (by rw [t11]
        exact SubsOk.congr (m' := { m with vars := vars1 }) _ h.subs rfl rfl (Int.le_refl _)
          (fun sm => ⟨(hg sm).1, (hg sm).2.1, (hg sm).2.2.1, (hg sm).2.2.2.1, (hg sm).2.2.2.2.1⟩))
    (by intro s _ sm hsm
        rw [t11, List.getElem?_map] at hsm
        cases hj : j.subs[s.sid]? with
        | none => rw [hj] at hsm; cases hsm
        | some sm0 =>
          rw [hj] at hsm
          simp only [Option.map_some, Option.some.injEq] at hsm
          subst hsm
          rw [(hg sm0).2.2.2.2.2.2]
          omega)
  obtain ⟨bf, bnow, bvars, bnsid, bsubs, bcv⟩ := hB
  rw [hrun, hfst]
  refine ⟨?_, ?_, ?_, ?_, ?_, ?_, ?_, ?_, ?_, bsubs, ?_, ?_⟩
  · rw [bf.ok, t1]; exact h.ok
  · rw [bf.target, t3, bnow]; exact h.tgt
  · rw [bf.now, hnow2, bnow]; exact Int.le_refl _
  · rw [bf.awaiting, t8]; exact h.awaiting
  · rw [bf.evented, t4, h.ev, bvars]; exact hmapE.symm
  · rw [bf.rate, t5, h.rate, bvars]; exact hmapR.symm
  · rw [bf.cur, t6, h.cur, bvars]; exact hmapV.symm
  · rw [bf.lastChange, t7, bvars]; show _ = vars1.length; rw [hlen]; exact h.lcLen
  · rw [bf.lastChange, bf.lastTrig, bf.pendingChg, t7, bvars, bnow]
    intro i v' hv'
    have hv'' : vars1[i]? = some v' := hv'
    rw [hget] at hv''
    cases hv : m.vars[i]? with
    | none => rw [hv] at hv''; cases hv''
    | some v =>
      rw [hv] at hv''
      simp only [Option.map_some, Option.some.injEq] at hv''
      have hvo := h.vars i v hv
      by_cases hi : i ∈ D
      · rw [if_pos hi] at hv''; subst hv''
        obtain ⟨w, hw, _, hwd, _, _⟩ := h.pnd i hi
        rw [hv] at hw; cases hw
        obtain ⟨n, hn⟩ := t13 i hi
        exact ⟨Int.le_refl _, Or.inr (t9 i hi), fun g hg => (by rw [show ({ v with lastSent := m.now } : Var).deferred = v.deferred from rfl, hwd] at hg; cases hg),
          ⟨n, hn, fun hd' => absurd hwd hd'⟩⟩
      · rw [if_neg hi] at hv''; subst hv''
        exact ⟨hvo.sent_le, by rw [t10 i hi]; exact hvo.trig, hvo.dfr, by rw [t12 i hi]; exact hvo.pc⟩
  · intro s hs sm hsm i v hv he hd
    obtain ⟨_, hl⟩ := bcv s hs sm hsm
    rw [bvars] at hv
    have hv' : vars1[i]? = some v := hv
    by_cases hD : D = []
    · -- no trigger ran: nothing was sent, the subscriber was already up to date
      subst hD
      have e0 : (broadcastN ([] : List Nat).length { m with vars := vars1 }) = ({ m with vars := vars1 }, []) := rfl
      rw [e0] at hs hsm
      have hsm' : j.subs[s.sid]? = some sm := hsm
      rw [hget] at hv'
      cases hm : m.vars[i]? with
      | none => rw [hm] at hv'; cases hv'
      | some w =>
        rw [hm] at hv'
        simp only [Option.map_some, List.not_mem_nil, if_false, Option.some.injEq] at hv'
        subst hv'
        exact h.vals s hs sm hsm' i w hm he hd (by simp)
    · have hpos : 0 < D.length := List.length_pos_iff.mpr hD
      rw [hl hpos, t6, h.cur, ← hmapV, List.getElem?_map, hv']; rfl
  · rw [bnow]; exact Int.le_refl _

theorem setMany_ok (m : State) (j : Mon) (l : List (Nat × Val)) (h : Rel m j) (hn : j.now = m.now) :
    Rel (setMany m l).1 ((j.beginOp (.setMany l)).obsRun (setMany m l).2) := by
  show Rel (flush (assignMany m [] l).1 (assignMany m [] l).2).1
    ((l.foldl (fun j p => j.assign p.1 p.2) j).obsRun (flush (assignMany m [] l).1 (assignMany m [] l).2).2)
  exact flush_ok _ _ _ (assignMany_ok l m [] j (RelP.of_rel h hn))

end Upnp.C15
