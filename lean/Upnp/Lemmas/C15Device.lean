/-
  C15 — services of one device are independent: the part of a device trace that concerns service k is
  exactly the trace of service k alone under the operations it takes part in.
-/
import Upnp.Model.C15Device
namespace Upnp.C15

theorem project_append (k : Nat) (a b : List (Nat × Item)) : project k (a ++ b) = project k a ++ project k b := by
  simp [project, List.filterMap_append]

theorem project_tagged_self (k : Nat) (o : Op) (obs : List Obs) :
    project k (tagged k o obs) = Item.op o :: obs.map Item.obs := by
  simp only [project, tagged, List.filterMap_cons, if_true]
  congr 1
  induction obs with
  | nil => rfl
  | cons x xs ih => simp only [List.map_cons, List.filterMap_cons, if_true, ih]

theorem project_tagged_ne (k i : Nat) (o : Op) (obs : List Obs) (h : i ≠ k) : project k (tagged i o obs) = [] := by
  simp only [project, tagged, List.filterMap_cons, if_neg h]
  induction obs with
  | nil => rfl
  | cons x xs ih => simp only [List.map_cons, List.filterMap_cons, if_neg h, ih]

theorem advAll_spec (dt : Nat) : ∀ (ms : List State) (i j : Nat),
    (advAll dt i ms).1[j]? = (ms[j]?).map (fun m => (step m (.adv dt)).1)
    ∧ project (i + j) (advAll dt i ms).2
        = (match ms[j]? with
           | some m => Item.op (.adv dt) :: (step m (.adv dt)).2.map Item.obs
           | none => [])
    ∧ (∀ q, q < i → project q (advAll dt i ms).2 = []) := by
  intro ms
  induction ms with
  | nil => intro i j; simp [advAll, project]
  | cons m ms ih =>
    intro i j
    have hlow : ∀ q, q < i → project q (advAll dt i (m :: ms)).2 = [] := by
      intro q hq
      show project q (tagged i (.adv dt) _ ++ _) = []
      rw [project_append, project_tagged_ne _ _ _ _ (by omega), (ih (i + 1) 0).2.2 q (by omega)]
      rfl
    refine ⟨?_, ?_, hlow⟩
    · cases j with
      | zero => rfl
      | succ j => simpa [advAll] using (ih (i + 1) j).1
    · show project (i + j) (tagged i (.adv dt) _ ++ _) = _
      rw [project_append]
      cases j with
      | zero =>
        rw [Nat.add_zero, project_tagged_self, (ih (i + 1) 0).2.2 i (by omega)]
        simp
      | succ j =>
        rw [project_tagged_ne _ _ _ _ (by omega)]
        have := (ih (i + 1) j).2.1
        rw [show i + 1 + j = i + (j + 1) by omega] at this
        simpa using this

/-- **Frame**: an operation on service k changes no other service and produces nothing that concerns another service -/
theorem svc_frame (d : Device) (k i : Nat) (o : Op) (h : i ≠ k) :
    (stepDev d (.svc k o)).1[i]? = d[i]? ∧ project i (stepDev d (.svc k o)).2 = [] := by
  cases hk : d[k]? with
  | none =>
    have e : stepDev d (.svc k o) = (d, []) := by simp [stepDev, hk]
    rw [e]; exact ⟨rfl, rfl⟩
  | some m =>
    have e : stepDev d (.svc k o) = (d.set k (step m o).1, tagged k o (step m o).2) := by simp [stepDev, hk]
    rw [e]
    refine ⟨?_, project_tagged_ne _ _ _ _ (fun e => h e.symm)⟩
    show (d.set k _)[i]? = _
    rw [List.getElem?_set_ne (fun e => h e.symm)]

/-- the device trace, seen from service k, is the trace of service k alone -/
theorem project_runDev : ∀ (ops : List DevOp) (d : Device) (k : Nat) (m : State), d[k]? = some m →
    project k (runDev d ops) = run m (opsFor k ops) := by
  intro ops
  induction ops with
  | nil => intro d k m _; rfl
  | cons o os ih =>
    intro d k m hm
    show project k ((stepDev d o).2 ++ runDev (stepDev d o).1 os) = _
    rw [project_append]
    cases o with
    | adv dt =>
      have hs := advAll_spec dt d 0 k
      rw [Nat.zero_add, hm] at hs
      obtain ⟨h1, h2, _⟩ := hs
      show project k (advAll dt 0 d).2 ++ project k (runDev (advAll dt 0 d).1 os) = run m (.adv dt :: opsFor k os)
      rw [h2, ih (advAll dt 0 d).1 k (step m (.adv dt)).1 (by rw [h1]; rfl)]
      rfl
    | svc k' o =>
      by_cases hk : k' = k
      · subst hk
        have hstep : stepDev d (.svc k' o) = (d.set k' (step m o).1, tagged k' o (step m o).2) := by
          simp [stepDev, hm]
        rw [hstep, project_tagged_self]
        have hlt : k' < d.length := (List.getElem?_eq_some_iff.mp hm).1
        rw [ih (d.set k' (step m o).1) k' (step m o).1 (by rw [List.getElem?_set_self hlt])]
        show _ = run m (opsFor k' (.svc k' o :: os))
        simp only [opsFor, if_true]
        rfl
      · obtain ⟨f1, f2⟩ := svc_frame d k' k o (fun e => hk e.symm)
        rw [f2, ih (stepDev d (.svc k' o)).1 k m (by rw [f1]; exact hm)]
        show _ = run m (opsFor k (.svc k' o :: os))
        simp only [opsFor, if_neg hk]
        rfl

end Upnp.C15
