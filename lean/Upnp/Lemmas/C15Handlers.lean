/-
  C15 — the request handlers (SUBSCRIBE new / renewal, UNSUBSCRIBE), NOTIFY completion and the
  key preset: each response is accepted by the monitor and the relation is preserved.
-/
import Upnp.Lemmas.C15Ops
import Upnp.Lemmas.C15Text
namespace Upnp.C15

theorem findSub_some {subs : List Sub} {k : Nat} {s : Sub} (h : findSub subs k = some s) : s ∈ subs ∧ s.sid = k := by
  unfold findSub at h
  exact ⟨List.mem_of_find?_eq_some h, by simpa using List.find?_some h⟩

theorem findSub_none {subs : List Sub} {k : Nat} (h : findSub subs k = none) : ∀ s ∈ subs, s.sid ≠ k := by
  unfold findSub at h
  intro s hs e
  have := List.find?_eq_none.mp h s hs
  simp [e] at this

/-- the relation only reads `now`, `vars`, `subs`, `nextSid` of the model state -/
theorem RelT.state {T : Int} {m m' : State} {j : Mon} (h : RelT T m j)
    (h1 : m'.now = m.now) (h2 : m'.vars = m.vars) (h3 : m'.subs = m.subs) (h4 : m'.nextSid = m.nextSid) :
    RelT T m' j := by
  cases m; cases m'
  simp only at h1 h2 h3 h4
  subst h1 h2 h3 h4
  exact ⟨h.ok, h.tgt, h.now, h.awaiting, h.ev, h.rate, h.cur, h.lcLen, h.vars,
    ⟨h.subs.nsid, h.subs.nodup, h.subs.subs, h.subs.live⟩, h.vals, h.nowT⟩

/-- the monitor changes entry `k` by `fm`, the model the subscribers with SID `k` by `fs` -/
theorem SubsOk.modify_both {m : State} {js : List SubMon} (h : SubsOk m js) (k : Nat)
    (fs : Sub → Sub) (fm : SubMon → SubMon)
    (hsid : ∀ s, (fs s).sid = s.sid) (hurl : ∀ s, (fs s).url = s.url)
    (halive : ∀ sm, (fm sm).alive = sm.alive) (hmurl : ∀ sm, (fm sm).url = sm.url)
    (hinit : ∀ sm, (fm sm).gotInitial = sm.gotInitial)
    (hcompat : ∀ s sm, sm.nextSeq = s.key → sm.expires = s.expires →
      (fm sm).nextSeq = (fs s).key ∧ (fm sm).expires = (fs s).expires)
    (hexp : (∃ s ∈ m.subs, s.sid = k) ∨ ∀ sm, (fm sm).expires = sm.expires) :
    SubsOk { m with subs := m.subs.map (fun s => if s.sid = k then fs s else s) } (js.modify k fm) := by
  have hgsid : ∀ s : Sub, (if s.sid = k then fs s else s).sid = s.sid := by
    intro s; split
    · exact hsid s
    · rfl
  refine ⟨by rw [List.length_modify]; exact h.nsid, ?_, ?_, ?_⟩
  · show ((m.subs.map _).map _).Nodup
    rw [List.map_map]
    have : ((fun s : Sub => s.sid) ∘ fun s => if s.sid = k then fs s else s) = fun s => s.sid := by
      funext s; exact hgsid s
    rw [this]; exact h.nodup
  · intro s' hs'
    obtain ⟨s, hs, rfl⟩ := List.mem_map.mp hs'
    obtain ⟨sm, htr⟩ := h.subs s hs
    by_cases hk : s.sid = k
    · rw [if_pos hk]
      obtain ⟨c1, c2⟩ := hcompat s sm htr.seq htr.exp
      refine ⟨fm sm, ?_, by rw [halive]; exact htr.alive, by rw [hmurl, hurl]; exact htr.url, c1, c2,
        by rw [hinit]; exact htr.init⟩
      rw [hsid, hk, List.getElem?_modify_eq, ← hk, htr.at_]; rfl
    · rw [if_neg hk]
      refine ⟨sm, ?_, htr.alive, htr.url, htr.seq, htr.exp, htr.init⟩
      rw [List.getElem?_modify_ne _ _ (fun e => hk e.symm)]; exact htr.at_
  · intro k' sm' hk' ha
    rw [List.getElem?_modify] at hk'
    cases hj : js[k']? with
    | none => rw [hj] at hk'; cases hk'
    | some sm0 =>
      rw [hj] at hk'
      simp only [Option.map_eq_map, Option.map_some, Option.some.injEq] at hk'
      have hmem : ∀ s ∈ m.subs, s.sid = k' → ∃ s' ∈ m.subs.map (fun s => if s.sid = k then fs s else s), s'.sid = k' :=
        fun s hs e => ⟨_, List.mem_map_of_mem hs, by rw [hgsid]; exact e⟩
      by_cases hkk : k = k'
      · rw [if_pos hkk] at hk'; subst hk'
        rw [halive] at ha
        obtain ⟨hi, hex⟩ := h.live k' sm0 hj ha
        refine ⟨by rw [hinit]; exact hi, fun hlt => ?_⟩
        rcases hexp with ⟨s, hs, e⟩ | he
        · exact hmem s hs (e.trans hkk)
        · rw [he] at hlt
          obtain ⟨s, hs, e⟩ := hex hlt
          exact hmem s hs e
      · rw [if_neg hkk] at hk'; subst hk'
        obtain ⟨hi, hex⟩ := h.live k' sm0 hj ha
        refine ⟨hi, fun hlt => ?_⟩
        obtain ⟨s, hs, e⟩ := hex hlt
        exact hmem s hs e

theorem vals_modify_both {m : State} {js : List SubMon} (h : ValsOk m js) (k : Nat)
    (fs : Sub → Sub) (fm : SubMon → SubMon) (hsid : ∀ s, (fs s).sid = s.sid)
    (hl : ∀ sm, (fm sm).lastVals = sm.lastVals) :
    ValsOk { m with subs := m.subs.map (fun s => if s.sid = k then fs s else s) } (js.modify k fm) := by
  intro s' hs' sm' hsm'
  obtain ⟨s, hs, rfl⟩ := List.mem_map.mp hs'
  have hgsid : (if s.sid = k then fs s else s).sid = s.sid := by
    split
    · exact hsid s
    · rfl
  rw [hgsid, List.getElem?_modify] at hsm'
  cases hj : js[s.sid]? with
  | none => rw [hj] at hsm'; cases hsm'
  | some sm0 =>
    rw [hj] at hsm'
    simp only [Option.map_eq_map, Option.map_some, Option.some.injEq] at hsm'
    have : sm'.lastVals = sm0.lastVals := by
      rw [← hsm']; split
      · exact hl sm0
      · rfl
    rw [this]
    exact h s hs sm0 hj

/-- a subscription ends: the model drops SID `k`, the monitor marks it dead -/
theorem SubsOk.kill {m : State} {js : List SubMon} (h : SubsOk m js) (k : Nat) :
    SubsOk { m with subs := m.subs.filter (fun s => s.sid != k) }
      (js.modify k (fun s => { s with alive := false })) := by
  refine ⟨by rw [List.length_modify]; exact h.nsid, h.nodup.sublist ((List.filter_sublist).map _), ?_, ?_⟩
  · intro s hs
    obtain ⟨hs, hk⟩ := List.mem_filter.mp hs
    have hk : s.sid ≠ k := by simpa using hk
    obtain ⟨sm, htr⟩ := h.subs s hs
    refine ⟨sm, ?_, htr.alive, htr.url, htr.seq, htr.exp, htr.init⟩
    rw [List.getElem?_modify_ne _ _ (fun e => hk e.symm)]; exact htr.at_
  · intro k' sm' hk' ha
    rw [List.getElem?_modify] at hk'
    cases hj : js[k']? with
    | none => rw [hj] at hk'; cases hk'
    | some sm0 =>
      rw [hj] at hk'
      simp only [Option.map_eq_map, Option.map_some, Option.some.injEq] at hk'
      by_cases hkk : k = k'
      · rw [if_pos hkk] at hk'; subst hk'; cases ha
      · rw [if_neg hkk] at hk'; subst hk'
        obtain ⟨hi, hex⟩ := h.live k' sm0 hj ha
        refine ⟨hi, fun hlt => ?_⟩
        obtain ⟨s, hs, e⟩ := hex hlt
        have hne : s.sid ≠ k := fun e' => hkk (e'.symm.trans e)
        exact ⟨s, List.mem_filter.mpr ⟨hs, by simpa using hne⟩, e⟩

theorem vals_kill {m : State} {js : List SubMon} (h : ValsOk m js) (k : Nat) :
    ValsOk { m with subs := m.subs.filter (fun s => s.sid != k) }
      (js.modify k (fun s => { s with alive := false })) := by
  intro s hs sm' hsm'
  obtain ⟨hs, hk⟩ := List.mem_filter.mp hs
  have hk : s.sid ≠ k := by simpa using hk
  rw [List.getElem?_modify_ne _ _ (fun e => hk e.symm)] at hsm'
  exact h s hs sm' hsm'

theorem filter_ne_self {subs : List Sub} {k : Nat} (h : ∀ s ∈ subs, s.sid ≠ k) :
    subs.filter (fun s => s.sid != k) = subs := by
  apply List.filter_eq_self.mpr
  intro s hs; simpa using h s hs

/-- rebuild the relation after a handler: the variables are untouched, the subscriber part is given -/
theorem RelT.replace {T : Int} {m m' : State} {j j' : Mon} (h : RelT T m j)
    (hok : j'.ok = true) (htgt : j'.target = j.target) (hnow : j'.now = j.now) (haw : j'.awaiting = none)
    (hev : j'.evented = j.evented) (hrate : j'.rate = j.rate) (hcur : j'.cur = j.cur)
    (hlc : j'.lastChange = j.lastChange) (hlt : j'.lastTrig = j.lastTrig)
    (hmnow : m'.now = m.now) (hmvars : m'.vars = m.vars)
    (hsubs : SubsOk m' j'.subs) (hvals : ValsOk m' j'.subs)
    (hpc : j'.pendingChg = j.pendingChg := by rfl) : RelT T m' j' := by
  refine ⟨hok, htgt.trans h.tgt, by rw [hnow, hmnow]; exact h.now, haw, by rw [hev, hmvars]; exact h.ev,
    by rw [hrate, hmvars]; exact h.rate, by rw [hcur, hmvars]; exact h.cur, by rw [hlc, hmvars]; exact h.lcLen,
    ?_, hsubs, hvals, by rw [hmnow]; exact h.nowT⟩
  rw [hmvars, hmnow, hlc, hlt, hpc]; exact h.vars

theorem done_ok (m : State) (j : Mon) (k : Nat) (h : Rel m j) :
    Rel (deliveryDone m k).1 ((j.beginOp (.done k)).obsRun (deliveryDone m k).2) := by
  unfold deliveryDone
  cases m.inflight.find? (fun p => p.1 == k) with
  | none => exact h
  | some p =>
    have hj : ∀ l : List Obs, (∀ o ∈ l, ∃ sid, o = Obs.ret sid) → (j.beginOp (.done k)).obsRun l = j := by
      intro l
      induction l with
      | nil => intro _; rfl
      | cons o l ih =>
        intro hl
        obtain ⟨sid, rfl⟩ := hl o List.mem_cons_self
        show (j.onObs (.ret sid)).obsRun l = j
        exact ih (fun o ho => hl o (List.mem_cons_of_mem _ ho))
    simp only
    rw [hj]
    · exact RelT.state h rfl rfl rfl rfl
    · intro o ho
      cases hp : p.2 with
      | none => rw [hp] at ho; cases ho
      | some sid => rw [hp] at ho; exact ⟨sid, by simpa using ho⟩

theorem fail_ok (m : State) (j : Mon) (k : Nat) (h : Rel m j) :
    Rel (deliveryFailed m k).1 ((j.beginOp (.fail k)).obsRun (deliveryFailed m k).2) := by
  unfold deliveryFailed
  cases m.inflight.find? (fun p => p.1 == k) with
  | none => exact h
  | some p =>
    have hj : ∀ l : List Obs, (∀ o ∈ l, ∃ sid, o = Obs.exc sid) → (j.beginOp (.fail k)).obsRun l = j := by
      intro l
      induction l with
      | nil => intro _; rfl
      | cons o l ih =>
        intro hl
        obtain ⟨sid, rfl⟩ := hl o List.mem_cons_self
        show (j.onObs (.exc sid)).obsRun l = j
        exact ih (fun o ho => hl o (List.mem_cons_of_mem _ ho))
    simp only
    rw [hj]
    · exact RelT.state h rfl rfl rfl rfl
    · intro o ho
      cases hp : p.2 with
      | none => rw [hp] at ho; cases ho
      | some sid => rw [hp] at ho; exact ⟨sid, by simpa using ho⟩

theorem setKey_ok (m : State) (j : Mon) (sid kk : Nat) (h : Rel m j) :
    Rel (step m (.setKey sid kk)).1 ((j.beginOp (.setKey sid kk)).obsRun (step m (.setKey sid kk)).2) := by
  show RelT m.now { m with subs := m.subs.map (fun s => if s.sid = sid then { s with key := kk } else s) }
    { j with subs := j.subs.modify sid (fun s => { s with nextSeq := kk }) }
  exact RelT.replace h h.ok rfl rfl h.awaiting rfl rfl rfl rfl rfl rfl rfl
    (SubsOk.modify_both h.subs sid (fun s => { s with key := kk }) (fun s => { s with nextSeq := kk })
      (fun _ => rfl) (fun _ => rfl) (fun _ => rfl) (fun _ => rfl) (fun _ => rfl)
      (fun _ _ _ he => ⟨rfl, he⟩) (Or.inr (fun _ => rfl)))
    (vals_modify_both h.vals sid (fun s => { s with key := kk }) (fun s => { s with nextSeq := kk })
      (fun _ => rfl) (fun _ => rfl))

/-- the monitor reads a response to the request it is waiting for -/
theorem onObs_resp (j : Mon) (o : Op) (st : Nat) (sid : Option Nat) (g : Option Int) :
    ({ j with awaiting := some o } : Mon).onObs (.resp st sid g)
      = { (({ j with awaiting := some o } : Mon).onResp o st sid g) with awaiting := none } := rfl

theorem unsubscribe_ok (m : State) (j : Mon) (sid : SidRef) (h : Rel m j) (hn : j.now = m.now) :
    Rel (unsubscribe m sid).1 ((j.beginOp (.unsubscribe sid)).obsRun (unsubscribe m sid).2) := by
  have hb : j.beginOp (.unsubscribe sid) = { j with awaiting := some (.unsubscribe sid) } := rfl
  rw [hb]
  -- a refusal that the monitor merely checks
  have checked : ∀ (s : SidRef),
      ({ j with awaiting := some (.unsubscribe s) } : Mon).onResp (.unsubscribe s) 412 none none
        = check { j with awaiting := some (.unsubscribe s) } (refused 412) →
      RelT m.now m (({ j with awaiting := some (.unsubscribe s) } : Mon).onObs (.resp 412 none none)) := by
    intro s hs
    rw [onObs_resp, hs]
    exact RelT.replace h (by simp [check, h.ok, show refused 412 = true from by decide]) rfl rfl rfl rfl rfl rfl rfl rfl rfl rfl h.subs h.vals
  cases sid with
  | unknown => exact checked .unknown rfl
  | absent => exact checked .absent rfl
  | known k =>
    cases hf : findSub m.subs k with
    | some s =>
      obtain ⟨hs, hsk⟩ := findSub_some hf
      obtain ⟨sm, htr⟩ := h.subs.subs s hs
      have hat : j.subs[k]? = some sm := hsk ▸ htr.at_
      have hm : unsubscribe m (.known k)
          = ({ m with subs := m.subs.filter (fun s => s.sid != k) }, [.resp 200 none none]) := by
        simp [unsubscribe, hf]
      rw [hm]
      show RelT m.now _ (({ j with awaiting := some (.unsubscribe (.known k)) } : Mon).onObs (.resp 200 none none))
      rw [onObs_resp]
      have : ({ j with awaiting := some (.unsubscribe (.known k)) } : Mon).onResp (.unsubscribe (.known k)) 200 none none
          = markDead { j with awaiting := some (.unsubscribe (.known k)) } k := by
        simp [Mon.onResp, hat, htr.alive]
      rw [this]
      exact RelT.replace h h.ok rfl rfl rfl rfl rfl rfl rfl rfl rfl rfl (h.subs.kill k) (vals_kill h.vals k)
    | none =>
      have hnone := findSub_none hf
      have hm : unsubscribe m (.known k) = (m, [.resp 412 none none]) := by
        simp [unsubscribe, hf]
      rw [hm]
      show RelT m.now m (({ j with awaiting := some (.unsubscribe (.known k)) } : Mon).onObs (.resp 412 none none))
      have hkill : SubsOk m (j.subs.modify k (fun s => { s with alive := false })) :=
        (h.subs.kill k).state (filter_ne_self hnone).symm rfl (Int.le_refl _)
      have hvkill : ValsOk m (j.subs.modify k (fun s => { s with alive := false })) := by
        have := vals_kill h.vals k
        intro s hs
        exact this s (by show s ∈ m.subs.filter _; rw [filter_ne_self hnone]; exact hs)
      cases hj : j.subs[k]? with
      | none => exact checked (.known k) (by simp [Mon.onResp, hj])
      | some sm =>
        cases ha : sm.alive with
        | false => exact checked (.known k) (by simp [Mon.onResp, hj, ha])
        | true =>
          have hexp : ¬ (j.now < sm.expires) := by
            intro hlt
            obtain ⟨_, hex⟩ := h.subs.live k sm hj ha
            obtain ⟨s, hs, e⟩ := hex (by rw [← hn]; exact hlt)
            exact hnone s hs e
          rw [onObs_resp]
          have : ({ j with awaiting := some (.unsubscribe (.known k)) } : Mon).onResp (.unsubscribe (.known k)) 412 none none
              = markDead { j with awaiting := some (.unsubscribe (.known k)) } k := by
            simp [Mon.onResp, hj, ha, hexp]
          rw [this]
          exact RelT.replace h h.ok rfl rfl rfl rfl rfl rfl rfl rfl rfl rfl hkill hvkill

/-- a new subscriber: appended to the model's list and to the monitor's table -/
theorem SubsOk.push {m : State} {js : List SubMon} (h : SubsOk m js) (s : Sub) (sm : SubMon)
    (hsid : s.sid = m.nextSid) (halive : sm.alive = true) (hurl : sm.url = none ∨ sm.url = some s.url)
    (hseq : sm.nextSeq = s.key) (hexp : sm.expires = s.expires) (hinit : sm.gotInitial = true) :
    SubsOk { m with subs := m.subs ++ [s], nextSid := m.nextSid + 1 } (js ++ [sm]) := by
  have hlt : ∀ s' ∈ m.subs, s'.sid < js.length := by
    intro s' hs'
    obtain ⟨sm', htr⟩ := h.subs s' hs'
    exact (List.getElem?_eq_some_iff.mp htr.at_).1
  refine ⟨by simp [h.nsid], ?_, ?_, ?_⟩
  · show ((m.subs ++ [s]).map (·.sid)).Nodup
    rw [List.map_append, List.nodup_append]
    refine ⟨h.nodup, by simp, ?_⟩
    intro a ha b hb
    simp only [List.map_cons, List.map_nil, List.mem_singleton] at hb
    obtain ⟨s', hs', rfl⟩ := List.mem_map.mp ha
    have := hlt s' hs'
    rw [hb, hsid, ← h.nsid]; omega
  · intro s' hs'
    rcases List.mem_append.mp hs' with hs' | hs'
    · obtain ⟨sm', htr⟩ := h.subs s' hs'
      refine ⟨sm', ?_, htr.alive, htr.url, htr.seq, htr.exp, htr.init⟩
      rw [List.getElem?_append_left (hlt s' hs')]; exact htr.at_
    · simp only [List.mem_singleton] at hs'
      subst hs'
      refine ⟨sm, ?_, halive, hurl, hseq, hexp, hinit⟩
      rw [hsid, ← h.nsid, List.getElem?_append_right (Nat.le_refl _)]; simp
  · intro k sm' hk ha
    by_cases hkl : k < js.length
    · rw [List.getElem?_append_left hkl] at hk
      obtain ⟨hi, hex⟩ := h.live k sm' hk ha
      refine ⟨hi, fun hlt' => ?_⟩
      obtain ⟨s', hs', e⟩ := hex hlt'
      exact ⟨s', List.mem_append_left _ hs', e⟩
    · have hkl' : js.length ≤ k := by omega
      rw [List.getElem?_append_right hkl'] at hk
      have hk0 : k - js.length = 0 := by
        cases hkk : k - js.length with
        | zero => rfl
        | succ n => rw [hkk] at hk; simp at hk
      rw [hk0] at hk
      simp only [List.getElem?_cons_zero, Option.some.injEq] at hk
      subst hk
      exact ⟨hinit, fun _ => ⟨s, List.mem_append_right _ (List.mem_singleton.mpr rfl), by rw [hsid, ← h.nsid]; omega⟩⟩

theorem timeoutOk_parse (to : Option Str) (h : timeoutOk to = true) : (parseTO to).isSome = true := by
  cases to with
  | none => rfl
  | some s =>
    have hs : strictTimeout s = true := h
    have := parseTimeout_strict s hs
    show ((parseTimeout s).map some).isSome = true
    cases hp : parseTimeout s with
    | none => rw [hp] at this; cases this
    | some n => rfl

/-- the monitor's entry for a new subscriber right after the 200 response ... -/
def entry0 (cb : Option Str) (exp : Int) : SubMon :=
  { alive := true, url := callbackUrl cb, nextSeq := 0, expires := exp, gotInitial := false, credit := 0, lastVals := [] }
/-- ... and after its initial event -/
def entry1 (cb : Option Str) (exp : Int) (cur : List (Option Val)) : SubMon :=
  { alive := true, url := callbackUrl cb, nextSeq := specNextKey 0, expires := exp, gotInitial := true, credit := 0,
    lastVals := cur }

theorem subscribe_new_ok (m : State) (j : Mon) (c : Char) (cs : Str) (to : Option Str) (tv : Option Int)
    (h : Rel m j) (hn : j.now = m.now) (hp : parseTO to = some tv) :
    Rel (subscribe m .absent (some (c :: cs)) to).1
      (({ j with awaiting := some (.subscribe .absent (some (c :: cs)) to) } : Mon).obsRun
        (subscribe m .absent (some (c :: cs)) to).2) := by
  obtain ⟨timeout, htimeout⟩ : ∃ t : Int, t = tv.getD Gen.C15.defaultTimeout := ⟨_, rfl⟩
  obtain ⟨s0, hs0⟩ : ∃ s : Sub, s = Sub.mk m.nextSid (stripBrackets (c :: cs)) Gen.C15.seqStart timeout (m.now + timeout * usPerS) :=
    ⟨_, rfl⟩
  have hm : subscribe m .absent (some (c :: cs)) to
      = ({ m with subs := m.subs ++ [s0.bump], nextSid := m.nextSid + 1, nextDel := m.nextDel + 1,
                  inflight := m.inflight ++ [(m.nextDel, some s0.sid)] },
         [.resp 200 (some s0.sid) (some timeout), notifyOf m.now m.body s0]) := by
    simp [subscribe, hp, hs0, htimeout]
  rw [hm]
  have hs0sid : s0.sid = m.nextSid := by rw [hs0]
  have hs0key : s0.key = 0 := by rw [hs0]; rfl
  have hs0url : s0.url = stripBrackets (c :: cs) := by rw [hs0]
  have hs0exp : s0.expires = m.now + timeout * usPerS := by rw [hs0]
  have hlen : j.subs.length = m.nextSid := h.subs.nsid
  have hbody : m.body = bodyOf j.evented j.cur := by rw [State.body, h.ev, h.cur]
  have hurl : callbackUrl (some (c :: cs)) = none ∨ callbackUrl (some (c :: cs)) = some s0.url := by
    unfold callbackUrl
    by_cases hsc : strictCallback (c :: cs) = true
    · right; simp [hsc, hs0url]
    · left; simp [hsc]
  -- the monitor on the two observations
  have hmon : (({ j with awaiting := some (.subscribe .absent (some (c :: cs)) to) } : Mon).obsRun
      [.resp 200 (some s0.sid) (some timeout), notifyOf m.now m.body s0])
      = { j with subs := j.subs ++ [entry1 (some (c :: cs)) (j.now + timeout * usPerS) j.cur] } := by
    show ((({ j with awaiting := some (.subscribe .absent (some (c :: cs)) to) } : Mon).onObs
      (.resp 200 (some s0.sid) (some timeout))).onObs (notifyOf m.now m.body s0)) = _
    rw [onObs_resp]
    have e1 : ({ j with awaiting := some (.subscribe .absent (some (c :: cs)) to) } : Mon).onResp
        (.subscribe .absent (some (c :: cs)) to) 200 (some s0.sid) (some timeout)
        = { j with awaiting := some (.subscribe .absent (some (c :: cs)) to),
                   subs := j.subs ++ [entry0 (some (c :: cs)) (j.now + timeout * usPerS)] } := by
      simp [Mon.onResp, hlen, hs0sid, entry0]
    rw [e1]
    have hget : (j.subs ++ [entry0 (some (c :: cs)) (j.now + timeout * usPerS)])[s0.sid]?
        = some (entry0 (some (c :: cs)) (j.now + timeout * usPerS)) := by
      rw [hs0sid, ← hlen, List.getElem?_append_right (Nat.le_refl _)]; simp
    have hset : (j.subs ++ [entry0 (some (c :: cs)) (j.now + timeout * usPerS)]).set s0.sid
          (entry1 (some (c :: cs)) (j.now + timeout * usPerS) j.cur)
        = j.subs ++ [entry1 (some (c :: cs)) (j.now + timeout * usPerS) j.cur] := by
      rw [hs0sid, ← hlen]; simp
    have hurlb : ((callbackUrl (some (c :: cs))).isNone || callbackUrl (some (c :: cs)) == some s0.url) = true := by
      rcases hurl with e | e
      · rw [e]; rfl
      · rw [e]; simp
    have hlapse : ∀ (js : List SubMon), ({ j with subs := js, awaiting := none } : Mon).lapse m.now
        = { j with subs := js, awaiting := none } := by
      intro js
      unfold Mon.lapse
      rw [if_neg (by show ¬ j.now < m.now; rw [hn]; exact Int.lt_irrefl _)]
    simp only [notifyOf, Mon.onObs, hlapse, Mon.notifyAt, hget]
    have hE : ∀ (a b : Mon), a.ok = b.ok → a.now = b.now → a.target = b.target → a.evented = b.evented → a.rate = b.rate →
        a.cur = b.cur → a.lastChange = b.lastChange → a.lastTrig = b.lastTrig → a.subs = b.subs → a.awaiting = b.awaiting →
        a.pendingChg = b.pendingChg → a = b := by
      intro a b; cases a; cases b; simp only; intro h1 h2 h3 h4 h5 h6 h7 h8 h9 h10 h11
      subst h1 h2 h3 h4 h5 h6 h7 h8 h9 h10 h11; rfl
    apply hE
    · show (j.ok && timeOk _ m.now && _) = j.ok
      have htime : ∀ (js : List SubMon), timeOk { j with subs := js, awaiting := none } m.now = true := by
        intro js
        show (decide (j.now ≤ m.now) && decide (m.now ≤ j.target)) = true
        simp [hn, h.tgt]
      rw [htime, hbody]
      simp [entry0, hs0key, hurlb, h.ok, bodyOk_bodyOf]
    · show m.now = j.now
      exact hn.symm
    · rfl
    · rfl
    · rfl
    · rfl
    · rfl
    · rfl
    · show (j.subs ++ [entry0 (some (c :: cs)) (j.now + timeout * usPerS)]).set s0.sid _ = _
      rw [← hset]
      congr 1
      simp [entry0, entry1, hs0key]
    · exact h.awaiting.symm
    · rfl
  rw [hmon]
  have hpush := SubsOk.push h.subs s0.bump (entry1 (some (c :: cs)) (j.now + timeout * usPerS) j.cur) hs0sid rfl
    hurl
    (by show specNextKey 0 = nextKey _ _ _ s0.key; rw [nextKey_gen, hs0key])
    (by show j.now + _ = s0.expires; rw [hn, hs0exp]) rfl
  refine RelT.replace h h.ok rfl rfl h.awaiting rfl rfl rfl rfl rfl rfl rfl
    (hpush.state rfl rfl (Int.le_refl _)) ?_
  intro s hs sm hsm i v hv he hd
  have hlt : ∀ s' ∈ m.subs, s'.sid < j.subs.length := by
    intro s' hs'
    obtain ⟨sm', htr⟩ := h.subs.subs s' hs'
    exact (List.getElem?_eq_some_iff.mp htr.at_).1
  rcases List.mem_append.mp hs with hs | hs
  · have hsm' : (j.subs ++ [entry1 (some (c :: cs)) (j.now + timeout * usPerS) j.cur])[s.sid]? = some sm := hsm
    rw [List.getElem?_append_left (hlt s hs)] at hsm'
    exact h.vals s hs sm hsm' i v hv he hd
  · simp only [List.mem_singleton] at hs
    subst hs
    have hsm' : (j.subs ++ [entry1 (some (c :: cs)) (j.now + timeout * usPerS) j.cur])[s0.sid]? = some sm := hsm
    rw [hs0sid, ← hlen, List.getElem?_append_right (Nat.le_refl _)] at hsm'
    simp only [Nat.sub_self, List.getElem?_cons_zero, Option.some.injEq] at hsm'
    subst hsm'
    show j.cur[i]? = _
    rw [h.cur, List.getElem?_map, hv]; rfl

theorem subscribe_ok (m : State) (j : Mon) (sid : SidRef) (cb to : Option Str) (h : Rel m j) (hn : j.now = m.now) :
    Rel (subscribe m sid cb to).1 ((j.beginOp (.subscribe sid cb to)).obsRun (subscribe m sid cb to).2) := by
  have hb : j.beginOp (.subscribe sid cb to) = { j with awaiting := some (.subscribe sid cb to) } := rfl
  rw [hb]
  -- a response after which the monitor is `check ja true`-like or unchanged
  have checked : ∀ (st : Nat) (c : Bool), c = true →
      ({ j with awaiting := some (.subscribe sid cb to) } : Mon).onResp (.subscribe sid cb to) st none none
        = check { j with awaiting := some (.subscribe sid cb to) } c →
      RelT m.now m (({ j with awaiting := some (.subscribe sid cb to) } : Mon).onObs (.resp st none none)) := by
    intro st c hc hs
    rw [onObs_resp, hs]
    exact RelT.replace h (by simp [check, h.ok, hc]) rfl rfl rfl rfl rfl rfl rfl rfl rfl rfl h.subs h.vals
  have same : ∀ (st : Nat),
      ({ j with awaiting := some (.subscribe sid cb to) } : Mon).onResp (.subscribe sid cb to) st none none
        = { j with awaiting := some (.subscribe sid cb to) } →
      RelT m.now m (({ j with awaiting := some (.subscribe sid cb to) } : Mon).onObs (.resp st none none)) := by
    intro st hs
    rw [onObs_resp, hs]
    exact RelT.replace h h.ok rfl rfl rfl rfl rfl rfl rfl rfl rfl rfl h.subs h.vals
  -- a refused renewal of SID k that is not (any more) in the model's list
  have gone : ∀ (k : Nat) (st : Nat), sid = .known k → st ≠ 200 → refused st = true → (∀ s ∈ m.subs, s.sid ≠ k) →
      RelT m.now m (({ j with awaiting := some (.subscribe sid cb to) } : Mon).onObs (.resp st none none)) := by
    intro k st hsid hst hst' hnone
    subst hsid
    have hkill : SubsOk m (j.subs.modify k (fun s => { s with alive := false })) :=
      (h.subs.kill k).state (filter_ne_self hnone).symm rfl (Int.le_refl _)
    have hvkill : ValsOk m (j.subs.modify k (fun s => { s with alive := false })) := by
      have := vals_kill h.vals k
      intro s hs
      exact this s (by show s ∈ m.subs.filter _; rw [filter_ne_self hnone]; exact hs)
    cases hj : j.subs[k]? with
    | none => exact checked st (refused st) hst' (by simp [Mon.onResp, hj])
    | some sm =>
      cases ha : sm.alive with
      | false => exact checked st (refused st) hst' (by simp [Mon.onResp, hj, ha])
      | true =>
        have hexp : ¬ (j.now < sm.expires) := by
          intro hlt
          obtain ⟨_, hex⟩ := h.subs.live k sm hj ha
          obtain ⟨s, hs, e⟩ := hex (by rw [← hn]; exact hlt)
          exact hnone s hs e
        cases hto : timeoutOk to with
        | false => exact same st (by simp [Mon.onResp, hj, ha, hst, hto])
        | true =>
          rw [onObs_resp]
          have : ({ j with awaiting := some (.subscribe (.known k) cb to) } : Mon).onResp (.subscribe (.known k) cb to) st none none
              = markDead { j with awaiting := some (.subscribe (.known k) cb to) } k := by
            simp [Mon.onResp, hj, ha, hst, hto, hexp]
          rw [this]
          exact RelT.replace h h.ok rfl rfl rfl rfl rfl rfl rfl rfl rfl rfl hkill hvkill
  cases hp : parseTO to with
  | none =>
    -- malformed TIMEOUT: 400
    have hm : subscribe m sid cb to = (m, [.resp 400 none none]) := by simp [subscribe, hp]
    rw [hm]
    have hto : timeoutOk to = false := by
      cases hto : timeoutOk to with
      | false => rfl
      | true => have := timeoutOk_parse to hto; rw [hp] at this; cases this
    show RelT m.now m (({ j with awaiting := some (.subscribe sid cb to) } : Mon).onObs (.resp 400 none none))
    cases sid with
    | absent => exact checked 400 (!mustAccept cb to) (by simp [mustAccept, hto]) (by simp [Mon.onResp])
    | unknown => exact checked 400 (refused 400) (by decide) (by simp [Mon.onResp])
    | known k =>
      cases hj : j.subs[k]? with
      | none => exact checked 400 (refused 400) (by decide) (by simp [Mon.onResp, hj])
      | some sm =>
        cases ha : sm.alive with
        | false => exact checked 400 (refused 400) (by decide) (by simp [Mon.onResp, hj, ha])
        | true => exact same 400 (by simp [Mon.onResp, hj, ha, hto])
  | some tv =>
    cases sid with
    | unknown =>
      have hm : subscribe m .unknown cb to = (m, [.resp 404 none none]) := by simp [subscribe, hp]
      rw [hm]
      show RelT m.now m (({ j with awaiting := some (.subscribe .unknown cb to) } : Mon).onObs (.resp 404 none none))
      exact checked 404 (refused 404) (by decide) (by simp [Mon.onResp])
    | known k =>
      cases hf : findSub m.subs k with
      | none =>
        have hm : subscribe m (.known k) cb to = (m, [.resp 404 none none]) := by simp [subscribe, hp, hf]
        rw [hm]
        show RelT m.now m (({ j with awaiting := some (.subscribe (.known k) cb to) } : Mon).onObs (.resp 404 none none))
        exact gone k 404 rfl (by decide) (by decide) (findSub_none hf)
      | some s =>
        obtain ⟨hs, hsk⟩ := findSub_some hf
        obtain ⟨sm, htr⟩ := h.subs.subs s hs
        have hat : j.subs[k]? = some sm := hsk ▸ htr.at_
        have hm : subscribe m (.known k) cb to
            = ({ m with subs := m.subs.map (fun s => if s.sid = k then
                  { s with timeout := tv.getD Gen.C15.defaultTimeout,
                           expires := m.now + tv.getD Gen.C15.defaultTimeout * usPerS } else s) },
               [.resp 200 (some k) (some (tv.getD Gen.C15.defaultTimeout))]) := by
          simp [subscribe, hp, hf]
        rw [hm]
        show RelT m.now _ (({ j with awaiting := some (.subscribe (.known k) cb to) } : Mon).onObs
            (.resp 200 (some k) (some (tv.getD Gen.C15.defaultTimeout))))
        rw [onObs_resp]
        have : ({ j with awaiting := some (.subscribe (.known k) cb to) } : Mon).onResp (.subscribe (.known k) cb to) 200
              (some k) (some (tv.getD Gen.C15.defaultTimeout))
            = { j with awaiting := some (.subscribe (.known k) cb to),
                       subs := j.subs.modify k (fun s => { s with expires := j.now + tv.getD Gen.C15.defaultTimeout * usPerS }) } := by
          simp [Mon.onResp, hat, htr.alive]
        rw [this]
        exact RelT.replace h h.ok rfl rfl rfl rfl rfl rfl rfl rfl rfl rfl
          (SubsOk.modify_both h.subs k _ _ (fun _ => rfl) (fun _ => rfl) (fun _ => rfl) (fun _ => rfl) (fun _ => rfl)
            (fun _ _ hq _ => ⟨hq, by show j.now + _ = m.now + _; rw [hn]⟩) (Or.inl ⟨s, hs, hsk⟩))
          (vals_modify_both h.vals k _ _ (fun _ => rfl) (fun _ => rfl))
    | absent =>
      cases cb with
      | none =>
        have hm : subscribe m .absent none to = (m, [.resp 404 none none]) := by simp [subscribe, hp]
        rw [hm]
        show RelT m.now m (({ j with awaiting := some (.subscribe .absent none to) } : Mon).onObs (.resp 404 none none))
        exact checked 404 (!mustAccept none to) (by simp [mustAccept]) (by simp [Mon.onResp])
      | some c =>
        cases c with
        | nil =>
          have hm : subscribe m .absent (some []) to = (m, [.resp 404 none none]) := by simp [subscribe, hp]
          rw [hm]
          show RelT m.now m (({ j with awaiting := some (.subscribe .absent (some []) to) } : Mon).onObs (.resp 404 none none))
          exact checked 404 (!mustAccept (some []) to) (by simp [mustAccept, strictCallback]) (by simp [Mon.onResp])
        | cons c cs =>
          exact subscribe_new_ok m j c cs to tv h hn hp

end Upnp.C15
