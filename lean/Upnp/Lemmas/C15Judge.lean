/-
  C15 — what acceptance by the judge means, in plain terms (statements about ANY accepted trace,
  the implementation's included): the monitor's clauses imply the declarative property clauses.
-/
import Upnp.Spec.C15
namespace Upnp.C15

/-- what `onResp` never touches, and: it never turns a rejected trace into an accepted one -/
theorem onResp_frame (j : Mon) (o : Op) (st : Nat) (sid : Option Nat) (g : Option Int) :
    (j.onResp o st sid g).now = j.now ∧ (j.onResp o st sid g).target = j.target
    ∧ (j.onResp o st sid g).lastTrig = j.lastTrig ∧ (j.onResp o st sid g).rate = j.rate
    ∧ ((j.onResp o st sid g).ok = true → j.ok = true) := by
  unfold Mon.onResp
  repeat' split
  all_goals simp [check, fail, markDead]
  all_goals (try (intro h _; exact h))

theorem assign_frame (j : Mon) (x : Nat) (v : Val) :
    (j.assign x v).now = j.now ∧ (j.assign x v).target = j.target ∧ (j.assign x v).lastTrig = j.lastTrig
    ∧ (j.assign x v).rate = j.rate ∧ (j.assign x v).ok = j.ok := by
  unfold Mon.assign
  repeat' split
  all_goals simp

theorem assignMany_frame (l : List (Nat × Val)) : ∀ (j : Mon),
    (l.foldl (fun j p => j.assign p.1 p.2) j).now = j.now ∧ (l.foldl (fun j p => j.assign p.1 p.2) j).target = j.target
    ∧ (l.foldl (fun j p => j.assign p.1 p.2) j).lastTrig = j.lastTrig
    ∧ (l.foldl (fun j p => j.assign p.1 p.2) j).rate = j.rate ∧ (l.foldl (fun j p => j.assign p.1 p.2) j).ok = j.ok := by
  induction l with
  | nil => intro j; exact ⟨rfl, rfl, rfl, rfl, rfl⟩
  | cons p l ih =>
    intro j
    obtain ⟨a1, a2, a3, a4, a5⟩ := assign_frame j p.1 p.2
    obtain ⟨b1, b2, b3, b4, b5⟩ := ih (j.assign p.1 p.2)
    exact ⟨b1.trans a1, b2.trans a2, b3.trans a3, b4.trans a4, b5.trans a5⟩

theorem lapse_frame (j : Mon) (t : Int) :
    (j.lapse t).ok = j.ok ∧ (j.lapse t).now = j.now ∧ (j.lapse t).target = j.target
    ∧ (j.lapse t).lastTrig = j.lastTrig ∧ (j.lapse t).rate = j.rate := by
  unfold Mon.lapse; split <;> exact ⟨rfl, rfl, rfl, rfl, rfl⟩

/-- the clock facts the monitor maintains on an accepted prefix, for one variable x and a time t1 at or after
    which x is known to have triggered -/
structure TrigInv (rate : List Nat) (x : Nat) (t1 : Int) (j : Mon) : Prop where
  nt : j.now ≤ j.target
  rate : j.rate = rate
  last : ∃ u, j.lastTrig[x]? = some (some u) ∧ t1 ≤ u ∧ u ≤ j.now

theorem step_ok_mono (j : Mon) (it : Item) (h : (j.step it).ok = true) : j.ok = true := by
  cases it with
  | op o =>
    have hc : (j.close).ok = true := by
      cases o with
      | adv dt => exact h
      | set x v => have := (assign_frame j.close x v).2.2.2.2; show (j.close).ok = true; rw [← this]; exact h
      | setMany l => have := (assignMany_frame l j.close).2.2.2.2; show (j.close).ok = true; rw [← this]; exact h
      | subscribe sid cb to => exact h
      | unsubscribe sid => exact h
      | done k => exact h
      | fail k => exact h
      | setKey sid k => exact h
    have : (j.ok && quiescentOk { j with now := j.target }) = true := hc
    simp only [Bool.and_eq_true] at this
    exact this.1
  | obs o =>
    cases o with
    | resp st sid g =>
      show j.ok = true
      have h' : (j.onObs (.resp st sid g)).ok = true := h
      simp only [Mon.onObs] at h'
      cases ha : j.awaiting with
      | none => rw [ha] at h'; simp [fail] at h'
      | some o => rw [ha] at h'; exact (onResp_frame j o st sid g).2.2.2.2 h'
    | notify sid seq t url body =>
      have h' : ((j.lapse t).notifyAt sid seq t url body).ok = true := h
      rw [← (lapse_frame j t).1]
      generalize j.lapse t = j0 at h' ⊢
      simp only [Mon.notifyAt] at h'
      cases hs : j0.subs[sid]? with
      | none => rw [hs] at h'; simp [fail] at h'
      | some s => rw [hs] at h'; simp only [Bool.and_eq_true] at h'; exact h'.1.1
    | trig x t =>
      have h' : ((j.lapse t).trigAt x t).ok = true := h
      rw [← (lapse_frame j t).1]
      generalize j.lapse t = j0 at h' ⊢
      simp only [Mon.trigAt, Bool.and_eq_true] at h'
      exact h'.1.1
    | ret sid => exact h
    | exc sid => exact h

theorem foldl_ok_mono (l : List Item) : ∀ (j : Mon), (l.foldl Mon.step j).ok = true → j.ok = true := by
  induction l with
  | nil => intro j h; exact h
  | cons it l ih => intro j h; exact step_ok_mono j it (ih _ h)

theorem close_ok_mono (j : Mon) (h : (j.close).ok = true) : j.ok = true := by
  have : (j.ok && quiescentOk { j with now := j.target }) = true := h
  simp only [Bool.and_eq_true] at this
  exact this.1

theorem TrigInv.lapse {rate : List Nat} {x : Nat} {t1 : Int} {j : Mon} (hi : TrigInv rate x t1 j) (t : Int) :
    TrigInv rate x t1 (j.lapse t) := by
  obtain ⟨_, l2, l3, l4, l5⟩ := lapse_frame j t
  obtain ⟨u, hu, hu1, hu2⟩ := hi.last
  exact ⟨by rw [l2, l3]; exact hi.nt, by rw [l5]; exact hi.rate, ⟨u, by rw [l4]; exact hu, hu1, by rw [l2]; exact hu2⟩⟩

/-- one accepted step keeps the clock facts -/
theorem TrigInv.step {rate : List Nat} {x : Nat} {t1 : Int} {j : Mon} (hi : TrigInv rate x t1 j) (it : Item)
    (h : (j.step it).ok = true) : TrigInv rate x t1 (j.step it) := by
  obtain ⟨u, hu, hu1, hu2⟩ := hi.last
  cases it with
  | op o =>
    -- closing moves the clock to the end of the operation
    have hclose : TrigInv rate x t1 j.close :=
      ⟨Int.le_refl _, hi.rate, ⟨u, hu, hu1, by show u ≤ j.target; have := hi.nt; omega⟩⟩
    obtain ⟨u', hu', hu1', hu2'⟩ := hclose.last
    cases o with
    | adv dt =>
      exact ⟨by show j.close.now ≤ j.close.now + dt; omega, hclose.rate, ⟨u', hu', hu1', hu2'⟩⟩
    | set y v =>
      obtain ⟨a1, a2, a3, a4, _⟩ := assign_frame j.close y v
      exact ⟨by show (j.close.assign y v).now ≤ (j.close.assign y v).target; rw [a1, a2]; exact hclose.nt,
        by show (j.close.assign y v).rate = rate; rw [a4]; exact hclose.rate,
        ⟨u', by show (j.close.assign y v).lastTrig[x]? = _; rw [a3]; exact hu', hu1',
          by show u' ≤ (j.close.assign y v).now; rw [a1]; exact hu2'⟩⟩
    | setMany l =>
      obtain ⟨a1, a2, a3, a4, _⟩ := assignMany_frame l j.close
      exact ⟨by show (l.foldl _ j.close).now ≤ (l.foldl _ j.close).target; rw [a1, a2]; exact hclose.nt,
        by show (l.foldl _ j.close).rate = rate; rw [a4]; exact hclose.rate,
        ⟨u', by show (l.foldl _ j.close).lastTrig[x]? = _; rw [a3]; exact hu', hu1',
          by show u' ≤ (l.foldl _ j.close).now; rw [a1]; exact hu2'⟩⟩
    | subscribe sid cb to => exact ⟨hclose.nt, hclose.rate, ⟨u', hu', hu1', hu2'⟩⟩
    | unsubscribe sid => exact ⟨hclose.nt, hclose.rate, ⟨u', hu', hu1', hu2'⟩⟩
    | done k => exact hclose
    | fail k => exact hclose
    | setKey sid k => exact ⟨hclose.nt, hclose.rate, ⟨u', hu', hu1', hu2'⟩⟩
  | obs o =>
    cases o with
    | resp st sid g =>
      show TrigInv rate x t1 (j.onObs (.resp st sid g))
      simp only [Mon.onObs]
      cases ha : j.awaiting with
      | none => exact ⟨hi.nt, hi.rate, ⟨u, hu, hu1, hu2⟩⟩
      | some o =>
        obtain ⟨a1, a2, a3, a4, _⟩ := onResp_frame j o st sid g
        exact ⟨by show (j.onResp o st sid g).now ≤ (j.onResp o st sid g).target; rw [a1, a2]; exact hi.nt,
          by show (j.onResp o st sid g).rate = rate; rw [a4]; exact hi.rate,
          ⟨u, by show (j.onResp o st sid g).lastTrig[x]? = _; rw [a3]; exact hu, hu1,
            by show u ≤ (j.onResp o st sid g).now; rw [a1]; exact hu2⟩⟩
    | notify sid seq t url body =>
      have h' : ((j.lapse t).notifyAt sid seq t url body).ok = true := h
      show TrigInv rate x t1 ((j.lapse t).notifyAt sid seq t url body)
      have hi0 : TrigInv rate x t1 (j.lapse t) := hi.lapse t
      generalize j.lapse t = j0 at h' hi0 ⊢
      obtain ⟨u, hu, hu1, hu2⟩ := hi0.last
      simp only [Mon.notifyAt] at h' ⊢
      cases hs : j0.subs[sid]? with
      | none => exact ⟨hi0.nt, hi0.rate, ⟨u, hu, hu1, hu2⟩⟩
      | some s =>
        rw [hs] at h'
        simp only [Bool.and_eq_true, timeOk, decide_eq_true_eq] at h'
        obtain ⟨⟨_, ht1, ht2⟩, _⟩ := h'
        exact ⟨ht2, hi0.rate, ⟨u, hu, hu1, by show u ≤ t; omega⟩⟩
    | trig y t =>
      have h' : ((j.lapse t).trigAt y t).ok = true := h
      show TrigInv rate x t1 ((j.lapse t).trigAt y t)
      have hi0 : TrigInv rate x t1 (j.lapse t) := hi.lapse t
      generalize j.lapse t = j0 at h' hi0 ⊢
      obtain ⟨u, hu, hu1, hu2⟩ := hi0.last
      simp only [Mon.trigAt, Bool.and_eq_true, timeOk, decide_eq_true_eq] at h'
      obtain ⟨⟨_, ht1, ht2⟩, _⟩ := h'
      refine ⟨ht2, hi0.rate, ?_⟩
      show ∃ u, (j0.lastTrig.set y (some t))[x]? = some (some u) ∧ t1 ≤ u ∧ u ≤ t
      by_cases hyx : y = x
      · subst hyx
        have hlt : y < j0.lastTrig.length := (List.getElem?_eq_some_iff.mp hu).1
        exact ⟨t, by rw [List.getElem?_set_self hlt], by omega, Int.le_refl _⟩
      · exact ⟨u, by rw [List.getElem?_set_ne hyx]; exact hu, hu1, by omega⟩
    | ret sid => exact hi
    | exc sid => exact hi

theorem TrigInv.foldl {rate : List Nat} {x : Nat} {t1 : Int} (l : List Item) : ∀ (j : Mon), TrigInv rate x t1 j →
    (l.foldl Mon.step j).ok = true → TrigInv rate x t1 (l.foldl Mon.step j) := by
  induction l with
  | nil => intro j hi _; exact hi
  | cons it l ih =>
    intro j hi h
    exact ih (j.step it) (hi.step it (foldl_ok_mono l _ h)) h

/-- the basic clock facts hold from the start -/
structure ClockInv (rate : List Nat) (j : Mon) : Prop where
  nt : j.now ≤ j.target
  rate : j.rate = rate

theorem ClockInv.step {rate : List Nat} {j : Mon} (hi : ClockInv rate j) (it : Item)
    (h : (j.step it).ok = true) : ClockInv rate (j.step it) := by
  cases it with
  | op o =>
    have hclose : ClockInv rate j.close := ⟨Int.le_refl _, hi.rate⟩
    cases o with
    | adv dt => exact ⟨by show j.close.now ≤ j.close.now + dt; omega, hclose.rate⟩
    | set y v =>
      obtain ⟨a1, a2, _, a4, _⟩ := assign_frame j.close y v
      exact ⟨by show (j.close.assign y v).now ≤ (j.close.assign y v).target; rw [a1, a2]; exact hclose.nt,
        by show (j.close.assign y v).rate = rate; rw [a4]; exact hclose.rate⟩
    | setMany l =>
      obtain ⟨a1, a2, _, a4, _⟩ := assignMany_frame l j.close
      exact ⟨by show (l.foldl _ j.close).now ≤ (l.foldl _ j.close).target; rw [a1, a2]; exact hclose.nt,
        by show (l.foldl _ j.close).rate = rate; rw [a4]; exact hclose.rate⟩
    | subscribe sid cb to => exact ⟨hclose.nt, hclose.rate⟩
    | unsubscribe sid => exact ⟨hclose.nt, hclose.rate⟩
    | done k => exact hclose
    | fail k => exact hclose
    | setKey sid k => exact ⟨hclose.nt, hclose.rate⟩
  | obs o =>
    cases o with
    | resp st sid g =>
      show ClockInv rate (j.onObs (.resp st sid g))
      simp only [Mon.onObs]
      cases ha : j.awaiting with
      | none => exact ⟨hi.nt, hi.rate⟩
      | some o =>
        obtain ⟨a1, a2, _, a4, _⟩ := onResp_frame j o st sid g
        exact ⟨by show (j.onResp o st sid g).now ≤ (j.onResp o st sid g).target; rw [a1, a2]; exact hi.nt,
          by show (j.onResp o st sid g).rate = rate; rw [a4]; exact hi.rate⟩
    | notify sid seq t url body =>
      have h' : ((j.lapse t).notifyAt sid seq t url body).ok = true := h
      show ClockInv rate ((j.lapse t).notifyAt sid seq t url body)
      have hi0 : ClockInv rate (j.lapse t) := by
        obtain ⟨_, l2, l3, _, l5⟩ := lapse_frame j t
        exact ⟨by rw [l2, l3]; exact hi.nt, by rw [l5]; exact hi.rate⟩
      generalize j.lapse t = j0 at h' hi0 ⊢
      simp only [Mon.notifyAt] at h' ⊢
      cases hs : j0.subs[sid]? with
      | none => exact ⟨hi0.nt, hi0.rate⟩
      | some s =>
        rw [hs] at h'
        simp only [Bool.and_eq_true, timeOk, decide_eq_true_eq] at h'
        exact ⟨h'.1.2.2, hi0.rate⟩
    | trig y t =>
      have h' : ((j.lapse t).trigAt y t).ok = true := h
      show ClockInv rate ((j.lapse t).trigAt y t)
      have hi0 : ClockInv rate (j.lapse t) := by
        obtain ⟨_, l2, l3, _, l5⟩ := lapse_frame j t
        exact ⟨by rw [l2, l3]; exact hi.nt, by rw [l5]; exact hi.rate⟩
      generalize j.lapse t = j0 at h' hi0 ⊢
      simp only [Mon.trigAt, Bool.and_eq_true, timeOk, decide_eq_true_eq] at h'
      exact ⟨h'.1.2.2, hi0.rate⟩
    | ret sid => exact hi
    | exc sid => exact hi

theorem ClockInv.foldl {rate : List Nat} (l : List Item) : ∀ (j : Mon), ClockInv rate j →
    (l.foldl Mon.step j).ok = true → ClockInv rate (l.foldl Mon.step j) := by
  induction l with
  | nil => intro j hi _; exact hi
  | cons it l ih =>
    intro j hi h
    exact ih (j.step it) (hi.step it (foldl_ok_mono l _ h)) h

/-! ### once a subscription has ended, the monitor never revives it -/

def Dead (k : Nat) (j : Mon) : Prop := ∃ s, j.subs[k]? = some s ∧ s.alive = false

theorem dead_modify (k k' : Nat) (f : SubMon → SubMon) (hf : ∀ s, s.alive = false → (f s).alive = false)
    (subs : List SubMon) (h : ∃ s, subs[k]? = some s ∧ s.alive = false) :
    ∃ s, (subs.modify k' f)[k]? = some s ∧ s.alive = false := by
  obtain ⟨s, hs, ha⟩ := h
  rw [List.getElem?_modify, hs]
  by_cases e : k' = k
  · exact ⟨f s, by simp [e], hf s ha⟩
  · exact ⟨s, by simp [e], ha⟩

theorem dead_append (k : Nat) (x : SubMon) (subs : List SubMon) (h : ∃ s, subs[k]? = some s ∧ s.alive = false) :
    ∃ s, (subs ++ [x])[k]? = some s ∧ s.alive = false := by
  obtain ⟨s, hs, ha⟩ := h
  exact ⟨s, by rw [List.getElem?_append_left (List.getElem?_eq_some_iff.mp hs).1]; exact hs, ha⟩

theorem dead_map (k : Nat) (f : SubMon → SubMon) (hf : ∀ s, (f s).alive = s.alive)
    (subs : List SubMon) (h : ∃ s, subs[k]? = some s ∧ s.alive = false) :
    ∃ s, (subs.map f)[k]? = some s ∧ s.alive = false := by
  obtain ⟨s, hs, ha⟩ := h
  exact ⟨f s, by rw [List.getElem?_map, hs]; rfl, by rw [hf]; exact ha⟩

theorem Dead.onResp {k : Nat} {j : Mon} (h : Dead k j) (o : Op) (st : Nat) (sid : Option Nat) (g : Option Int) :
    Dead k (j.onResp o st sid g) := by
  unfold Dead at h ⊢
  unfold Mon.onResp
  repeat' split
  all_goals (first
    | exact h
    | exact dead_append k _ _ h
    | (refine dead_modify k _ _ ?_ _ h; intro s ha; first | exact ha | rfl))

theorem Dead.assign {k : Nat} {j : Mon} (h : Dead k j) (x : Nat) (v : Val) : Dead k (j.assign x v) := by
  unfold Mon.assign
  repeat' split
  all_goals exact h

theorem Dead.assignMany {k : Nat} (l : List (Nat × Val)) : ∀ {j : Mon}, Dead k j →
    Dead k (l.foldl (fun j p => j.assign p.1 p.2) j) := by
  induction l with
  | nil => intro j h; exact h
  | cons p l ih => intro j h; exact ih (h.assign p.1 p.2)

theorem Dead.lapse {k : Nat} {j : Mon} (h : Dead k j) (t : Int) : Dead k (j.lapse t) := by
  unfold Mon.lapse
  split
  · exact dead_map k (fun s => { s with credit := 0 }) (fun _ => rfl) _ h
  · exact h

/-- one accepted step keeps an ended subscription ended; in particular the step is not a NOTIFY to it -/
theorem Dead.step {k : Nat} {j : Mon} (h : Dead k j) (it : Item) (hok : (j.step it).ok = true) :
    Dead k (j.step it) ∧ ∀ seq t url body, it ≠ .obs (.notify k seq t url body) := by
  cases it with
  | op o =>
    have hc : Dead k j.close := dead_map k (fun s => { s with credit := 0 }) (fun _ => rfl) _ h
    refine ⟨?_, fun _ _ _ _ e => by cases e⟩
    cases o with
    | adv dt => exact hc
    | set x v => exact hc.assign x v
    | setMany l => exact Dead.assignMany l hc
    | subscribe sid cb to => exact hc
    | unsubscribe sid => exact hc
    | done n => exact hc
    | fail n => exact hc
    | setKey sid n => exact dead_modify k sid (fun s => { s with nextSeq := n }) (fun _ ha => ha) _ hc
  | obs o =>
    cases o with
    | resp st sid g =>
      refine ⟨?_, fun _ _ _ _ e => by cases e⟩
      show Dead k (j.onObs (.resp st sid g))
      simp only [Mon.onObs]
      cases ha : j.awaiting with
      | none => exact h
      | some o => exact h.onResp o st sid g
    | notify sid seq t url body =>
      have h' : ((j.lapse t).notifyAt sid seq t url body).ok = true := hok
      have h0 : Dead k (j.lapse t) := h.lapse t
      show Dead k ((j.lapse t).notifyAt sid seq t url body) ∧ _
      generalize j.lapse t = j0 at h' h0 ⊢
      simp only [Mon.notifyAt] at h' ⊢
      by_cases e : sid = k
      · subst e
        obtain ⟨s, hs, ha⟩ := h0
        rw [hs] at h'
        simp [ha] at h'
      · refine ⟨?_, fun _ _ _ _ e' => by cases e'; exact e rfl⟩
        cases hs : j0.subs[sid]? with
        | none => exact h0
        | some s =>
          obtain ⟨s0, hs0, ha0⟩ := h0
          exact ⟨s0, by show (j0.subs.set sid _)[k]? = _; rw [List.getElem?_set_ne e]; exact hs0, ha0⟩
    | trig x t =>
      refine ⟨?_, fun _ _ _ _ e => by cases e⟩
      exact dead_map k (fun s => { s with credit := s.credit + 1 }) (fun _ => rfl) _ (h.lapse t)
    | ret sid => exact ⟨h, fun _ _ _ _ e => by cases e⟩
    | exc sid => exact ⟨h, fun _ _ _ _ e => by cases e⟩

theorem Dead.foldl {k : Nat} (l : List Item) : ∀ (j : Mon), Dead k j → (l.foldl Mon.step j).ok = true →
    ∀ seq t url body, Item.obs (.notify k seq t url body) ∉ l := by
  induction l with
  | nil => intro j _ _ seq t url body hm; cases hm
  | cons it l ih =>
    intro j hd hok seq t url body hm
    obtain ⟨hd', hne⟩ := hd.step it (foldl_ok_mono l _ hok)
    rcases List.mem_cons.mp hm with e | hm
    · exact hne seq t url body e.symm
    · exact ih (j.step it) hd' hok seq t url body hm

/-! ### a property of the monitor's entry for SID k that survives everything except what is meant to change it -/

/-- the entry of SID k exists and satisfies P -/
def Ent (P : SubMon → Prop) (k : Nat) (subs : List SubMon) : Prop := ∃ s, subs[k]? = some s ∧ P s

/-- P does not depend on the credit, the expiry or the alive flag of an entry -/
structure Stable (P : SubMon → Prop) : Prop where
  credit : ∀ (s : SubMon) (c : Nat), P s → P { s with credit := c }
  expires : ∀ (s : SubMon) (e : Int), P s → P { s with expires := e }
  dead : ∀ (s : SubMon), P s → P { s with alive := false }

theorem Ent.map {P : SubMon → Prop} {k : Nat} {subs : List SubMon} (h : Ent P k subs) (f : SubMon → SubMon)
    (hf : ∀ s, P s → P (f s)) : Ent P k (subs.map f) := by
  obtain ⟨s, hs, hp⟩ := h
  exact ⟨f s, by rw [List.getElem?_map, hs]; rfl, hf s hp⟩

theorem Ent.modify {P : SubMon → Prop} {k : Nat} {subs : List SubMon} (h : Ent P k subs) (k' : Nat) (f : SubMon → SubMon)
    (hf : ∀ s, P s → P (f s)) : Ent P k (subs.modify k' f) := by
  obtain ⟨s, hs, hp⟩ := h
  unfold Ent
  rw [List.getElem?_modify, hs]
  by_cases e : k' = k
  · exact ⟨f s, by simp [e], hf s hp⟩
  · exact ⟨s, by simp [e], hp⟩

theorem Ent.modify_ne {P : SubMon → Prop} {k : Nat} {subs : List SubMon} (h : Ent P k subs) (k' : Nat) (f : SubMon → SubMon)
    (hne : k' ≠ k) : Ent P k (subs.modify k' f) := by
  obtain ⟨s, hs, hp⟩ := h
  exact ⟨s, by rw [List.getElem?_modify_ne _ _ hne]; exact hs, hp⟩

theorem Ent.append {P : SubMon → Prop} {k : Nat} {subs : List SubMon} (h : Ent P k subs) (x : SubMon) :
    Ent P k (subs ++ [x]) := by
  obtain ⟨s, hs, hp⟩ := h
  exact ⟨s, by rw [List.getElem?_append_left (List.getElem?_eq_some_iff.mp hs).1]; exact hs, hp⟩

theorem Ent.onResp {P : SubMon → Prop} (hs : Stable P) {k : Nat} {j : Mon} (h : Ent P k j.subs)
    (o : Op) (st : Nat) (sid : Option Nat) (g : Option Int) : Ent P k (j.onResp o st sid g).subs := by
  unfold Mon.onResp
  repeat' split
  all_goals (first
    | exact h
    | exact h.append _
    | exact h.modify _ _ (fun s hp => hs.expires s _ hp)
    | exact h.modify _ _ (fun s hp => hs.dead s hp))

theorem Ent.assign {P : SubMon → Prop} {k : Nat} {j : Mon} (h : Ent P k j.subs) (x : Nat) (v : Val) :
    Ent P k (j.assign x v).subs := by
  unfold Mon.assign
  repeat' split
  all_goals exact h

theorem Ent.assignMany {P : SubMon → Prop} {k : Nat} (l : List (Nat × Val)) : ∀ {j : Mon}, Ent P k j.subs →
    Ent P k (l.foldl (fun j p => j.assign p.1 p.2) j).subs := by
  induction l with
  | nil => intro j h; exact h
  | cons p l ih => intro j h; exact ih (h.assign p.1 p.2)

theorem Ent.lapse {P : SubMon → Prop} (hs : Stable P) {k : Nat} {j : Mon} (h : Ent P k j.subs) (t : Int) :
    Ent P k (j.lapse t).subs := by
  unfold Mon.lapse
  split
  · exact h.map _ (fun s hp => hs.credit s 0 hp)
  · exact h

/-- every step that is neither a NOTIFY to k nor a key preset of k keeps the entry's property -/
theorem Ent.step {P : SubMon → Prop} (hs : Stable P) {k : Nat} {j : Mon} (h : Ent P k j.subs) (it : Item)
    (hn : ∀ seq t url body, it ≠ .obs (.notify k seq t url body)) (hk : ∀ n, it ≠ .op (.setKey k n)) :
    Ent P k (j.step it).subs := by
  cases it with
  | op o =>
    have hc : Ent P k j.close.subs := h.map _ (fun s hp => hs.credit s 0 hp)
    cases o with
    | adv dt => exact hc
    | set x v => exact hc.assign x v
    | setMany l => exact Ent.assignMany l hc
    | subscribe sid cb to => exact hc
    | unsubscribe sid => exact hc
    | done n => exact hc
    | fail n => exact hc
    | setKey sid n =>
      have hne : sid ≠ k := fun e => hk n (by rw [e])
      exact hc.modify_ne sid _ hne
  | obs o =>
    cases o with
    | resp st sid g =>
      show Ent P k (j.onObs (.resp st sid g)).subs
      simp only [Mon.onObs]
      cases ha : j.awaiting with
      | none => exact h
      | some o => exact h.onResp hs o st sid g
    | notify sid seq t url body =>
      have hne : sid ≠ k := fun e => hn seq t url body (by rw [e])
      show Ent P k ((j.lapse t).notifyAt sid seq t url body).subs
      have h0 := h.lapse hs t
      generalize j.lapse t = j0 at h0 ⊢
      simp only [Mon.notifyAt]
      cases hsd : j0.subs[sid]? with
      | none => exact h0
      | some s =>
        obtain ⟨s0, hs0, hp⟩ := h0
        exact ⟨s0, by show (j0.subs.set sid _)[k]? = _; rw [List.getElem?_set_ne hne]; exact hs0, hp⟩
    | trig x t =>
      show Ent P k ((j.lapse t).trigAt x t).subs
      exact (h.lapse hs t).map _ (fun s hp => hs.credit s _ hp)
    | ret sid => exact h
    | exc sid => exact h

theorem Ent.foldl {P : SubMon → Prop} (hs : Stable P) {k : Nat} (l : List Item) : ∀ (j : Mon), Ent P k j.subs →
    (∀ it ∈ l, (∀ seq t url body, it ≠ .obs (.notify k seq t url body)) ∧ (∀ n, it ≠ .op (.setKey k n))) →
    Ent P k (l.foldl Mon.step j).subs := by
  induction l with
  | nil => intro j h _; exact h
  | cons it l ih =>
    intro j h hl
    obtain ⟨h1, h2⟩ := hl it List.mem_cons_self
    exact ih (j.step it) (h.step hs it h1 h2) (fun it' hm => hl it' (List.mem_cons_of_mem _ hm))

/-- an accepted NOTIFY to k carries the key the monitor expects, and moves it on by the property's law -/
theorem notify_key {j : Mon} {k seq : Nat} {t : Int} {url : Str} {body : List (Nat × Str)}
    (h : (j.step (.obs (.notify k seq t url body))).ok = true) :
    (∀ s, Ent (fun sm => sm.nextSeq = s) k j.subs → seq = s)
    ∧ Ent (fun sm => sm.nextSeq = specNextKey seq) k (j.step (.obs (.notify k seq t url body))).subs := by
  have h' : ((j.lapse t).notifyAt k seq t url body).ok = true := h
  have hl : ∀ s, Ent (fun sm => sm.nextSeq = s) k j.subs → Ent (fun sm => sm.nextSeq = s) k (j.lapse t).subs :=
    fun s he => he.lapse ⟨fun _ _ hp => hp, fun _ _ hp => hp, fun _ hp => hp⟩ t
  show _ ∧ Ent _ k ((j.lapse t).notifyAt k seq t url body).subs
  generalize j.lapse t = j0 at h' hl ⊢
  simp only [Mon.notifyAt] at h' ⊢
  cases hs : j0.subs[k]? with
  | none => rw [hs] at h'; simp [fail] at h'
  | some sm =>
    rw [hs] at h'
    simp only [Bool.and_eq_true, beq_iff_eq] at h'
    have hseq : seq = sm.nextSeq := h'.2.1.1.1.2
    refine ⟨fun s he => ?_, ?_⟩
    · obtain ⟨sm', hsm', hp⟩ := hl s he
      rw [hs] at hsm'; cases hsm'
      rw [hseq]; exact hp
    · have hlt : k < j0.subs.length := (List.getElem?_eq_some_iff.mp hs).1
      exact ⟨_, by show (j0.subs.set k _)[k]? = _; rw [List.getElem?_set_self hlt], rfl⟩

/-! ### the monitor's table of SIDs only grows -/

theorem len_onResp (j : Mon) (o : Op) (st : Nat) (sid : Option Nat) (g : Option Int) :
    j.subs.length ≤ (j.onResp o st sid g).subs.length := by
  unfold Mon.onResp
  repeat' split
  all_goals simp [check, fail, markDead]

theorem len_step (j : Mon) (it : Item) : j.subs.length ≤ (j.step it).subs.length := by
  cases it with
  | op o =>
    have hc : j.close.subs.length = j.subs.length := by simp [Mon.close]
    cases o with
    | adv dt => exact Nat.le_of_eq hc.symm
    | set x v =>
      show _ ≤ (j.close.assign x v).subs.length
      unfold Mon.assign; repeat' split
      all_goals exact Nat.le_of_eq hc.symm
    | setMany l =>
      have : ∀ (l : List (Nat × Val)) (j : Mon), (l.foldl (fun j p => j.assign p.1 p.2) j).subs = j.subs := by
        intro l
        induction l with
        | nil => intro j; rfl
        | cons p l ih =>
          intro j
          show (l.foldl _ (j.assign p.1 p.2)).subs = _
          rw [ih]; unfold Mon.assign; repeat' split
          all_goals rfl
      show _ ≤ (l.foldl _ j.close).subs.length
      rw [this]; exact Nat.le_of_eq hc.symm
    | subscribe sid cb to => exact Nat.le_of_eq hc.symm
    | unsubscribe sid => exact Nat.le_of_eq hc.symm
    | done n => exact Nat.le_of_eq hc.symm
    | fail n => exact Nat.le_of_eq hc.symm
    | setKey sid n => show _ ≤ (j.close.subs.modify sid _).length; rw [List.length_modify]; exact Nat.le_of_eq hc.symm
  | obs o =>
    cases o with
    | resp st sid g =>
      show _ ≤ (j.onObs (.resp st sid g)).subs.length
      simp only [Mon.onObs]
      cases ha : j.awaiting with
      | none => exact Nat.le_refl _
      | some o => exact len_onResp j o st sid g
    | notify sid seq t url body =>
      show _ ≤ ((j.lapse t).notifyAt sid seq t url body).subs.length
      have hl : (j.lapse t).subs.length = j.subs.length := by unfold Mon.lapse; split <;> simp
      rw [← hl]
      generalize j.lapse t = j0
      simp only [Mon.notifyAt]
      cases j0.subs[sid]? with
      | none => exact Nat.le_refl _
      | some s => simp
    | trig x t =>
      show _ ≤ ((j.lapse t).trigAt x t).subs.length
      have hl : (j.lapse t).subs.length = j.subs.length := by unfold Mon.lapse; split <;> simp
      simp [Mon.trigAt, hl]
    | ret sid => exact Nat.le_refl _
    | exc sid => exact Nat.le_refl _

theorem len_foldl (l : List Item) : ∀ (j : Mon), j.subs.length ≤ (l.foldl Mon.step j).subs.length := by
  induction l with
  | nil => intro j; exact Nat.le_refl _
  | cons it l ih => intro j; exact Nat.le_trans (len_step j it) (ih _)

/-- an accepted 200 to a new SUBSCRIBE: the SID is the next index of the table and the entry starts at key 0 -/
theorem new_sub_accepted {j : Mon} {cb to : Option Str} {k : Nat} {g : Option Int}
    (h : ((j.step (.op (.subscribe .absent cb to))).step (.obs (.resp 200 (some k) g))).ok = true) :
    k = j.subs.length
    ∧ ((j.step (.op (.subscribe .absent cb to))).step (.obs (.resp 200 (some k) g))).subs.length = k + 1
    ∧ Ent (fun sm => sm.nextSeq = 0) k ((j.step (.op (.subscribe .absent cb to))).step (.obs (.resp 200 (some k) g))).subs := by
  obtain ⟨ja, hja⟩ : ∃ ja : Mon, ja = { j.close with awaiting := some (.subscribe .absent cb to) } := ⟨_, rfl⟩
  have hsubs : ja.subs = j.close.subs := by rw [hja]
  have hlen : ja.subs.length = j.subs.length := by rw [hsubs]; simp [Mon.close]
  have hstep : ((j.step (.op (.subscribe .absent cb to))).step (.obs (.resp 200 (some k) g))).subs
      = (ja.onResp (.subscribe .absent cb to) 200 (some k) g).subs := by rw [hja]; rfl
  have hok : (ja.onResp (.subscribe .absent cb to) 200 (some k) g).ok = true := by rw [hja]; exact h
  rw [hstep]
  cases g with
  | none => simp [Mon.onResp, fail] at hok
  | some gr =>
    by_cases hk : k = ja.subs.length
    · have hr : (ja.onResp (.subscribe .absent cb to) 200 (some k) (some gr)).subs
          = ja.subs ++ [SubMon.mk true (callbackUrl cb) 0 (ja.now + gr * usPerS) false 0 []] := by
        simp [Mon.onResp, hk]
      rw [hr]
      refine ⟨hk.trans hlen, by simp [hk], ⟨SubMon.mk true (callbackUrl cb) 0 (ja.now + gr * usPerS) false 0 [], ?_, rfl⟩⟩
      rw [hk, List.getElem?_append_right (Nat.le_refl _)]; simp
    · simp [Mon.onResp, hk, fail] at hok

/-! ### the monitor's `cur`, `evented`, clock are plain functions of the operations seen so far -/

/-- the values after the assignments among the items (an assignment to a variable that does not exist changes nothing) -/
def valuesAfter : List (Option Val) → List Item → List (Option Val)
  | cur, [] => cur
  | cur, .op (.set x v) :: r => valuesAfter (cur.set x (some v)) r
  | cur, .op (.setMany l) :: r => valuesAfter (l.foldl (fun c p => c.set p.1 (some p.2)) cur) r
  | cur, _ :: r => valuesAfter cur r

/-- virtual time elapsed: the sum of the clock advances among the items -/
def elapsed : List Item → Int
  | [] => 0
  | .op (.adv dt) :: r => dt + elapsed r
  | _ :: r => elapsed r

theorem assign_cur (j : Mon) (x : Nat) (v : Val) :
    (j.assign x v).cur = j.cur.set x (some v) ∧ (j.assign x v).evented = j.evented := by
  unfold Mon.assign
  by_cases h1 : j.cur[x]? = some (some v)
  · rw [if_pos h1]
    refine ⟨?_, rfl⟩
    apply List.ext_getElem?
    intro i
    by_cases hi : x = i
    · subst hi
      rw [List.getElem?_set_self (List.getElem?_eq_some_iff.mp h1).1, h1]
    · rw [List.getElem?_set_ne hi]
  · rw [if_neg h1]
    by_cases h2 : x < j.cur.length
    · rw [if_pos h2]; exact ⟨rfl, rfl⟩
    · rw [if_neg h2]
      exact ⟨(List.set_eq_of_length_le (by omega)).symm, rfl⟩

theorem assignMany_cur (l : List (Nat × Val)) : ∀ (j : Mon),
    (l.foldl (fun j p => j.assign p.1 p.2) j).cur = l.foldl (fun c p => c.set p.1 (some p.2)) j.cur
    ∧ (l.foldl (fun j p => j.assign p.1 p.2) j).evented = j.evented := by
  induction l with
  | nil => intro j; exact ⟨rfl, rfl⟩
  | cons p l ih =>
    intro j
    obtain ⟨a1, a2⟩ := assign_cur j p.1 p.2
    obtain ⟨b1, b2⟩ := ih (j.assign p.1 p.2)
    exact ⟨by show (l.foldl _ (j.assign p.1 p.2)).cur = l.foldl _ (j.cur.set p.1 (some p.2)); rw [b1, a1], b2.trans a2⟩

theorem onResp_cur (j : Mon) (o : Op) (st : Nat) (sid : Option Nat) (g : Option Int) :
    (j.onResp o st sid g).cur = j.cur ∧ (j.onResp o st sid g).evented = j.evented := by
  unfold Mon.onResp
  repeat' split
  all_goals simp [check, fail, markDead]

/-- after any items (accepted or not) the monitor's values, flags and operation window are these functions of the items -/
theorem foldl_cur (l : List Item) : ∀ (j : Mon),
    (l.foldl Mon.step j).cur = valuesAfter j.cur l ∧ (l.foldl Mon.step j).evented = j.evented
    ∧ (l.foldl Mon.step j).target = j.target + elapsed l := by
  induction l with
  | nil => intro j; exact ⟨rfl, rfl, by simp [elapsed]⟩
  | cons it l ih =>
    intro j
    obtain ⟨i1, i2, i3⟩ := ih (j.step it)
    have hstep : (j.step it).cur = (match it with
          | .op (.set x v) => j.cur.set x (some v)
          | .op (.setMany l) => l.foldl (fun c p => c.set p.1 (some p.2)) j.cur
          | _ => j.cur)
        ∧ (j.step it).evented = j.evented
        ∧ (j.step it).target = j.target + (match it with | .op (.adv dt) => (dt : Int) | _ => 0) := by
      cases it with
      | op o =>
        cases o with
        | adv dt => exact ⟨rfl, rfl, rfl⟩
        | set x v => exact ⟨(assign_cur j.close x v).1, (assign_cur j.close x v).2, by
            have := (assign_frame j.close x v).2.1; show (j.close.assign x v).target = _; rw [this]; simp [Mon.close]⟩
        | setMany l' => exact ⟨(assignMany_cur l' j.close).1, (assignMany_cur l' j.close).2, by
            have := (assignMany_frame l' j.close).2.1; show (l'.foldl _ j.close).target = _; rw [this]; simp [Mon.close]⟩
        | subscribe sid cb to => exact ⟨rfl, rfl, by simp [Mon.step, Mon.beginOp, Mon.close]⟩
        | unsubscribe sid => exact ⟨rfl, rfl, by simp [Mon.step, Mon.beginOp, Mon.close]⟩
        | done n => exact ⟨rfl, rfl, by simp [Mon.step, Mon.beginOp, Mon.close]⟩
        | fail n => exact ⟨rfl, rfl, by simp [Mon.step, Mon.beginOp, Mon.close]⟩
        | setKey sid n => exact ⟨rfl, rfl, by simp [Mon.step, Mon.beginOp, Mon.close]⟩
      | obs o =>
        cases o with
        | resp st sid g =>
          show (j.onObs (.resp st sid g)).cur = j.cur ∧ (j.onObs (.resp st sid g)).evented = j.evented
            ∧ (j.onObs (.resp st sid g)).target = j.target + 0
          simp only [Mon.onObs]
          cases ha : j.awaiting with
          | none => exact ⟨rfl, rfl, by simp [fail]⟩
          | some o => exact ⟨(onResp_cur j o st sid g).1, (onResp_cur j o st sid g).2, by
              have := (onResp_frame j o st sid g).2.1; simp [this]⟩
        | notify sid seq t url body =>
          show ((j.lapse t).notifyAt sid seq t url body).cur = j.cur ∧ ((j.lapse t).notifyAt sid seq t url body).evented = j.evented
            ∧ ((j.lapse t).notifyAt sid seq t url body).target = j.target + 0
          have hl : (j.lapse t).cur = j.cur ∧ (j.lapse t).evented = j.evented ∧ (j.lapse t).target = j.target := by
            unfold Mon.lapse; split <;> exact ⟨rfl, rfl, rfl⟩
          rw [← hl.1, ← hl.2.1, ← hl.2.2]
          generalize j.lapse t = j0
          simp only [Mon.notifyAt]
          cases j0.subs[sid]? with
          | none => exact ⟨rfl, rfl, by simp [fail]⟩
          | some s => exact ⟨rfl, rfl, by simp⟩
        | trig x t =>
          show ((j.lapse t).trigAt x t).cur = j.cur ∧ ((j.lapse t).trigAt x t).evented = j.evented
            ∧ ((j.lapse t).trigAt x t).target = j.target + 0
          have hl : (j.lapse t).cur = j.cur ∧ (j.lapse t).evented = j.evented ∧ (j.lapse t).target = j.target := by
            unfold Mon.lapse; split <;> exact ⟨rfl, rfl, rfl⟩
          exact ⟨hl.1, hl.2.1, by simp [Mon.trigAt, hl.2.2]⟩
        | ret sid => exact ⟨rfl, rfl, by simp [Mon.step, Mon.onObs]⟩
        | exc sid => exact ⟨rfl, rfl, by simp [Mon.step, Mon.onObs]⟩
    obtain ⟨s1, s2, s3⟩ := hstep
    refine ⟨?_, i2.trans s2, ?_⟩
    · show (l.foldl Mon.step (j.step it)).cur = valuesAfter j.cur (it :: l)
      rw [i1, s1]
      cases it with
      | op o => cases o <;> rfl
      | obs o => rfl
    · show (l.foldl Mon.step (j.step it)).target = j.target + elapsed (it :: l)
      rw [i3, s3]
      cases it with
      | op o => cases o <;> simp [elapsed] <;> omega
      | obs o => simp [elapsed]

/-! ### the expiry of SID k only moves when a renewal of k is answered -/

def ExpP (e : Int) (sm : SubMon) : Prop := sm.expires = e ∧ sm.gotInitial = true

structure ExpInv (k : Nat) (e : Int) (j : Mon) : Prop where
  ent : Ent (ExpP e) k j.subs
  aw : ∀ cb to, j.awaiting ≠ some (.subscribe (.known k) cb to)

theorem expP_onResp {k : Nat} {e : Int} {j : Mon} (h : Ent (ExpP e) k j.subs) (o : Op) (st : Nat) (sid : Option Nat)
    (g : Option Int) (hne : ∀ cb to, o ≠ .subscribe (.known k) cb to) : Ent (ExpP e) k (j.onResp o st sid g).subs := by
  unfold Mon.onResp
  repeat' split
  all_goals (first
    | exact h
    | exact h.append _
    | exact h.modify _ _ (fun s hp => hp)
    | (refine h.modify_ne _ _ ?_; intro e'; subst e'; exact hne _ _ rfl))

theorem assign_awaiting (j : Mon) (x : Nat) (v : Val) : (j.assign x v).awaiting = j.awaiting := by
  unfold Mon.assign
  repeat' split
  all_goals rfl

theorem assignMany_awaiting (l : List (Nat × Val)) : ∀ (j : Mon),
    (l.foldl (fun j p => j.assign p.1 p.2) j).awaiting = j.awaiting := by
  induction l with
  | nil => intro j; rfl
  | cons p l ih => intro j; exact (ih _).trans (assign_awaiting j p.1 p.2)

theorem ExpInv.step {k : Nat} {e : Int} {j : Mon} (h : ExpInv k e j) (it : Item)
    (hne : ∀ cb to, it ≠ .op (.subscribe (.known k) cb to)) : ExpInv k e (j.step it) := by
  have hcred : ∀ (s : SubMon) (c : Nat), ExpP e s → ExpP e { s with credit := c } := fun _ _ hp => hp
  cases it with
  | op o =>
    have hc : Ent (ExpP e) k j.close.subs := h.ent.map _ (fun s hp => hcred s 0 hp)
    have hca : j.close.awaiting = j.awaiting := rfl
    cases o with
    | adv dt => exact ⟨hc, h.aw⟩
    | set x v => exact ⟨hc.assign x v, fun cb to => by rw [show (j.step (.op (.set x v))).awaiting = j.awaiting from assign_awaiting j.close x v]; exact h.aw cb to⟩
    | setMany l => exact ⟨Ent.assignMany l hc, fun cb to => by rw [show (j.step (.op (.setMany l))).awaiting = j.awaiting from assignMany_awaiting l j.close]; exact h.aw cb to⟩
    | subscribe sid cb to =>
      refine ⟨hc, fun cb' to' e' => ?_⟩
      have : (some (Op.subscribe sid cb to) : Option Op) = some (.subscribe (.known k) cb' to') := e'
      cases this
      exact hne cb to rfl
    | unsubscribe sid => exact ⟨hc, fun cb' to' e' => by cases e'⟩
    | done n => exact ⟨hc, h.aw⟩
    | fail n => exact ⟨hc, h.aw⟩
    | setKey sid n => exact ⟨hc.modify sid _ (fun s hp => hp), h.aw⟩
  | obs o =>
    cases o with
    | resp st sid g =>
      show ExpInv k e (j.onObs (.resp st sid g))
      simp only [Mon.onObs]
      cases ha : j.awaiting with
      | none => exact ⟨h.ent, by show ∀ cb to, (fail j).awaiting ≠ _; intro cb to; rw [show (fail j).awaiting = j.awaiting from rfl, ha]; exact fun e' => by cases e'⟩
      | some o =>
        refine ⟨expP_onResp h.ent o st sid g (fun cb to e' => h.aw cb to (by rw [ha, e'])), fun cb to e' => by cases e'⟩
    | notify sid seq t url body =>
      show ExpInv k e ((j.lapse t).notifyAt sid seq t url body)
      have h0 : ExpInv k e (j.lapse t) := by
        refine ⟨?_, ?_⟩
        · unfold Mon.lapse; split
          · exact h.ent.map _ (fun s hp => hcred s 0 hp)
          · exact h.ent
        · unfold Mon.lapse; split <;> exact h.aw
      generalize j.lapse t = j0 at h0 ⊢
      unfold Mon.notifyAt
      cases hsd : j0.subs[sid]? with
      | none => exact ⟨h0.ent, h0.aw⟩
      | some s =>
        refine ⟨?_, h0.aw⟩
        obtain ⟨s0, hs0, hp⟩ := h0.ent
        by_cases e' : sid = k
        · subst e'
          rw [hsd] at hs0; cases hs0
          have hlt : sid < j0.subs.length := (List.getElem?_eq_some_iff.mp hsd).1
          exact ⟨{ s with nextSeq := specNextKey seq, gotInitial := true,
                          credit := if s.gotInitial then s.credit - 1 else s.credit, lastVals := j0.cur },
            by show (j0.subs.set sid _)[sid]? = _; rw [List.getElem?_set_self hlt], ⟨hp.1, rfl⟩⟩
        · exact ⟨s0, by show (j0.subs.set sid _)[k]? = _; rw [List.getElem?_set_ne e']; exact hs0, hp⟩
    | trig x t =>
      show ExpInv k e ((j.lapse t).trigAt x t)
      refine ⟨?_, ?_⟩
      · have : Ent (ExpP e) k (j.lapse t).subs := by
          unfold Mon.lapse; split
          · exact h.ent.map _ (fun s hp => hcred s 0 hp)
          · exact h.ent
        exact this.map _ (fun s hp => hcred s _ hp)
      · show ∀ cb to, (j.lapse t).awaiting ≠ _
        unfold Mon.lapse; split <;> exact h.aw
    | ret sid => exact h
    | exc sid => exact h

theorem ExpInv.foldl {k : Nat} {e : Int} (l : List Item) : ∀ (j : Mon), ExpInv k e j →
    (∀ it ∈ l, ∀ cb to, it ≠ .op (.subscribe (.known k) cb to)) → ExpInv k e (l.foldl Mon.step j) := by
  induction l with
  | nil => intro j h _; exact h
  | cons it l ih =>
    intro j h hl
    exact ih (j.step it) (h.step it (hl it List.mem_cons_self)) (fun it' hm => hl it' (List.mem_cons_of_mem _ hm))

/-- an accepted NOTIFY to an entry that has had its initial event is sent before the entry's expiry -/
theorem notify_before_expiry {k : Nat} {e : Int} {j : Mon} {seq : Nat} {t : Int} {url : Str} {body : List (Nat × Str)}
    (hi : Ent (ExpP e) k j.subs) (h : (j.step (.obs (.notify k seq t url body))).ok = true) : t < e := by
  have h' : ((j.lapse t).notifyAt k seq t url body).ok = true := h
  have h0 : Ent (ExpP e) k (j.lapse t).subs := by
    unfold Mon.lapse; split
    · exact hi.map _ (fun s hp => hp)
    · exact hi
  generalize j.lapse t = j0 at h' h0
  obtain ⟨s, hs, hp1, hp2⟩ := h0
  simp only [Mon.notifyAt, hs, hp2, Bool.and_eq_true, Bool.not_true, Bool.false_or, decide_eq_true_eq] at h'
  rw [← hp1]; exact h'.2.2.1

/-- the body of an accepted NOTIFY passes the body test against the monitor's current values -/
theorem notify_body {j : Mon} {k seq : Nat} {t : Int} {url : Str} {body : List (Nat × Str)}
    (h : (j.step (.obs (.notify k seq t url body))).ok = true) : bodyOk j.evented j.cur body = true := by
  have h' : ((j.lapse t).notifyAt k seq t url body).ok = true := h
  have hl : (j.lapse t).cur = j.cur ∧ (j.lapse t).evented = j.evented := by
    unfold Mon.lapse; split <;> exact ⟨rfl, rfl⟩
  rw [← hl.1, ← hl.2]
  generalize j.lapse t = j0 at h' ⊢
  simp only [Mon.notifyAt] at h'
  cases hs : j0.subs[k]? with
  | none => rw [hs] at h'; simp [fail] at h'
  | some sm =>
    rw [hs] at h'
    simp only [Bool.and_eq_true] at h'
    exact h'.2.1.2

/-- an accepted 200 to a renewal of SID k: from then on k's expiry is the end of the previous operation + granted -/
theorem renew_accepted {j : Mon} {k : Nat} {cb to : Option Str} {a : Option Nat} {g : Int}
    (h : ((j.step (.op (.subscribe (.known k) cb to))).step (.obs (.resp 200 a (some g)))).ok = true) :
    ExpInv k (j.target + g * usPerS) ((j.step (.op (.subscribe (.known k) cb to))).step (.obs (.resp 200 a (some g)))) := by
  obtain ⟨ja, hja⟩ : ∃ ja : Mon, ja = { j.close with awaiting := some (.subscribe (.known k) cb to) } := ⟨_, rfl⟩
  have hnow : ja.now = j.target := by rw [hja]; rfl
  have hres : (j.step (.op (.subscribe (.known k) cb to))).step (.obs (.resp 200 a (some g)))
      = { (ja.onResp (.subscribe (.known k) cb to) 200 a (some g)) with awaiting := none } := by rw [hja]; rfl
  rw [hres] at h ⊢
  have hok : (ja.onResp (.subscribe (.known k) cb to) 200 a (some g)).ok = true := h
  have hsubs : ja.subs = j.subs.map (fun s => { s with credit := 0 }) := by rw [hja]; rfl
  cases hs : ja.subs[k]? with
  | none => simp [Mon.onResp, hs, check, refused] at hok
  | some s =>
    cases ha : s.alive with
    | false => simp [Mon.onResp, hs, ha, check, refused] at hok
    | true =>
      cases a with
      | none => simp [Mon.onResp, hs, ha, fail] at hok
      | some k' =>
        by_cases hk : k' = k
        · subst hk
          -- the entry has had its initial event: the previous operation closed accepted
          have hclose : (j.ok && quiescentOk { j with now := j.target }) = true := by
            have : ja.ok = true := by simpa [Mon.onResp, hs, ha] using hok
            rw [hja] at this; exact this
          have hq : quiescentOk { j with now := j.target } = true := by
            simp only [Bool.and_eq_true] at hclose; exact hclose.2
          have hgi : s.gotInitial = true := by
            rw [hsubs, List.getElem?_map] at hs
            cases hj : j.subs[k']? with
            | none => rw [hj] at hs; cases hs
            | some s0 =>
              rw [hj] at hs
              simp only [Option.map_some, Option.some.injEq] at hs
              subst hs
              unfold quiescentOk at hq
              simp only [Bool.and_eq_true, List.all_eq_true] at hq
              have := hq.2 s0 (List.mem_of_getElem? hj)
              have ha0 : s0.alive = true := ha
              simp only [ha0, Bool.not_true, Bool.false_or, Bool.and_eq_true] at this
              exact this.1
          refine ⟨?_, fun cb' to' e' => by cases e'⟩
          have hlt : k' < ja.subs.length := (List.getElem?_eq_some_iff.mp hs).1
          refine ⟨{ s with expires := ja.now + g * usPerS }, ?_, by show ja.now + _ = _; rw [hnow], hgi⟩
          show (ja.onResp (.subscribe (.known k') cb to) 200 (some k') (some g)).subs[k']? = _
          simp [Mon.onResp, hs, ha, List.getElem?_modify_eq]
        · simp [Mon.onResp, hs, ha, hk, fail] at hok

theorem ok_prefix {ev : List Bool} {rate : List Nat} {dflt : List (Option Val)} {pre rest : List Item}
    (h : ok ev rate dflt (pre ++ rest) = true) :
    (rest.foldl Mon.step (pre.foldl Mon.step (Mon.init ev rate dflt))).ok = true := by
  unfold ok at h
  have := close_ok_mono _ h
  rwa [List.foldl_append] at this

end Upnp.C15
