/-
  C15 — every operation of the model preserves the simulation relation `Rel` and every
  observation it emits is accepted by the judge's monitor.
-/
import Upnp.Lemmas.C15Sim
namespace Upnp.C15

/-! ### list helpers -/

theorem forall_modify {α : Type} (l : List α) (x : Nat) (f : α → α) (P : Nat → α → Prop)
    (h : ∀ i a, l[i]? = some a → i ≠ x → P i a) (hx : ∀ a, l[x]? = some a → P x (f a)) :
    ∀ i a, (l.modify x f)[i]? = some a → P i a := by
  intro i a hi
  rw [List.getElem?_modify] at hi
  cases hl : l[i]? with
  | none => rw [hl] at hi; cases hi
  | some b =>
    rw [hl] at hi
    simp only [Option.map_eq_map, Option.map_some, Option.some.injEq] at hi
    by_cases hxi : x = i
    · subst hxi; rw [if_pos rfl] at hi; subst hi; exact hx b hl
    · rw [if_neg hxi] at hi; subst hi; exact h i b hl (fun e => hxi e.symm)

theorem map_modify_same {α β : Type} (l : List α) (x : Nat) (f : α → α) (g : α → β)
    (hg : ∀ a, g (f a) = g a) : (l.modify x f).map g = l.map g := by
  apply List.ext_getElem?
  intro i
  simp only [List.getElem?_map, List.getElem?_modify]
  cases l[i]? with
  | none => rfl
  | some a => by_cases h : x = i <;> simp [h, hg]

theorem map_modify_set {α β : Type} (l : List α) (x : Nat) (f : α → α) (g : α → β) (b : β)
    (hg : ∀ a, g (f a) = b) : (l.modify x f).map g = (l.map g).set x b := by
  apply List.ext_getElem?
  intro i
  simp only [List.getElem?_map, List.getElem?_modify, List.getElem?_set, List.length_map]
  cases hl : l[i]? with
  | none =>
    have : ¬ i < l.length := by
      intro h; rw [List.getElem?_eq_getElem h] at hl; cases hl
    by_cases h : x = i
    · subst h; simp [this]
    · simp [h]
  | some a =>
    have : i < l.length := (List.getElem?_eq_some_iff.mp hl).1
    by_cases h : x = i
    · subst h; simp [this, hg]
    · simp [h]

theorem getD_set_ne {α : Type} (l : List α) (x i : Nat) (a d : α) (h : i ≠ x) : (l.set x a).getD i d = l.getD i d := by
  simp [List.getD_eq_getElem?_getD, List.getElem?_set_ne (Ne.symm h)]

theorem getD_set_self {α : Type} (l : List α) (x : Nat) (a d : α) (h : x < l.length) : (l.set x a).getD x d = a := by
  simp [List.getD_eq_getElem?_getD, List.getElem?_set_self h]

/-! ### the relation only looks at `now`, `vars`, `subs`, `nextSid` of the model -/

theorem SubsOk.congr {m m' : State} {js : List SubMon} (g : SubMon → SubMon) (h : SubsOk m js)
    (hsubs : m'.subs = m.subs) (hnsid : m'.nextSid = m.nextSid) (hnow : m.now ≤ m'.now)
    (hg : ∀ sm, (g sm).alive = sm.alive ∧ (g sm).url = sm.url ∧ (g sm).nextSeq = sm.nextSeq
      ∧ (g sm).expires = sm.expires ∧ (g sm).gotInitial = sm.gotInitial) :
    SubsOk m' (js.map g) := by
  refine ⟨by rw [List.length_map, hnsid]; exact h.nsid, by rw [hsubs]; exact h.nodup, ?_, ?_⟩
  · intro s hs
    rw [hsubs] at hs
    obtain ⟨sm, htr⟩ := h.subs s hs
    obtain ⟨g1, g2, g3, g4, g5⟩ := hg sm
    exact ⟨g sm, by rw [List.getElem?_map, htr.at_]; rfl, by rw [g1]; exact htr.alive, by rw [g2]; exact htr.url,
      by rw [g3]; exact htr.seq, by rw [g4]; exact htr.exp, by rw [g5]; exact htr.init⟩
  · intro k sm hk ha
    rw [List.getElem?_map] at hk
    cases hj : js[k]? with
    | none => rw [hj] at hk; cases hk
    | some sm0 =>
      rw [hj] at hk
      simp only [Option.map_some, Option.some.injEq] at hk
      subst hk
      obtain ⟨g1, g2, g3, g4, g5⟩ := hg sm0
      obtain ⟨hi, hex⟩ := h.live k sm0 hj (by rw [← g1]; exact ha)
      refine ⟨by rw [g5]; exact hi, fun hlt => ?_⟩
      rw [hsubs]
      apply hex
      rw [g4] at hlt
      omega

theorem SubsOk.state {m m' : State} {js : List SubMon} (h : SubsOk m js)
    (hsubs : m'.subs = m.subs) (hnsid : m'.nextSid = m.nextSid) (hnow : m.now ≤ m'.now) : SubsOk m' js := by
  have := SubsOk.congr (m' := m') id h hsubs hnsid hnow (fun _ => ⟨rfl, rfl, rfl, rfl, rfl⟩)
  simpa using this

theorem pc_modify_ne (pc : List Nat) (x i : Nat) (f : Nat → Nat) (h : i ≠ x) : (pc.modify x f)[i]? = pc[i]? :=
  List.getElem?_modify_ne _ _ (fun e => h e.symm)

theorem pc_modify_self (pc : List Nat) (x n : Nat) (f : Nat → Nat) (h : pc[x]? = some n) :
    (pc.modify x f)[x]? = some (f n) := by
  rw [List.getElem?_modify_eq, h]; rfl

/-! ### assignment to a state variable -/

/-- the monitor after `set x val` changed variable x -/
def Mon.assigned (j : Mon) (x : Nat) (val : Val) : Mon :=
  { j with cur := j.cur.set x (some val), lastChange := j.lastChange.set x j.now,
           pendingChg := j.pendingChg.modify x (· + 1) }

/-- assignment that neither triggers nor (newly) defers: the variable is not evented or a timer is already pending;
    `g` is the rest of the change to variable x (identity, or arming the timer). -/
theorem assign_rel (m : State) (j : Mon) (x : Nat) (val : Val) (v0 : Var) (g : Var → Var)
    (h : Rel m j) (hn : j.now = m.now) (hx : m.vars[x]? = some v0)
    (hg : ∀ v, (g v).evented = v.evented ∧ (g v).rate = v.rate ∧ (g v).value = v.value ∧ (g v).lastSent = v.lastSent)
    (hd : ∀ f, (g { v0 with value := some val }).deferred = some f →
        v0.evented = true ∧ f = v0.lastSent + v0.rate ∧ m.now < f)
    (hq : v0.evented = true → (g { v0 with value := some val }).deferred ≠ none) :
    Rel { m with vars := m.vars.modify x (fun v => g { v with value := some val }) } (j.assigned x val) := by
  have hlc : x < j.lastChange.length := by
    rw [h.lcLen]; exact (List.getElem?_eq_some_iff.mp hx).1
  refine ⟨h.ok, h.tgt, h.now, h.awaiting, ?_, ?_, ?_, ?_, ?_, h.subs.state rfl rfl (Int.le_refl _), ?_, Int.le_refl _⟩
  · show j.evented = _
    rw [map_modify_same _ _ _ _ (fun a => by simp [(hg _).1])]; exact h.ev
  · show j.rate = _
    rw [map_modify_same _ _ _ _ (fun a => by simp [(hg _).2.1])]; exact h.rate
  · show j.cur.set x (some val) = _
    rw [map_modify_set _ _ _ _ (some val) (fun a => by simp [(hg _).2.2.1]), h.cur]
  · show (j.lastChange.set x j.now).length = _
    rw [List.length_set, List.length_modify]; exact h.lcLen
  · apply forall_modify
    · intro i a hi hne
      have := h.vars i a hi
      exact ⟨this.sent_le, this.trig, fun f hf => by
        obtain ⟨a1, a2, a3, a4⟩ := this.dfr f hf
        exact ⟨a1, a2, by show _ ≤ (j.lastChange.set x j.now).getD i 0; rw [getD_set_ne _ _ _ _ _ hne]; exact a3, a4⟩,
        by show ∃ n, (j.pendingChg.modify x (· + 1))[i]? = some n ∧ _
           rw [pc_modify_ne _ _ _ _ hne]; exact this.pc⟩
    · intro a ha
      rw [hx] at ha; cases ha
      have := h.vars x v0 hx
      obtain ⟨n0, hn0, _⟩ := this.pc
      refine ⟨by rw [(hg _).2.2.2]; exact this.sent_le, by rw [(hg _).2.2.2]; exact this.trig, fun f hf => ?_,
        ⟨n0 + 1, pc_modify_self _ _ _ _ hn0, fun _ => Nat.succ_pos _⟩⟩
      obtain ⟨b1, b2, b3⟩ := hd f hf
      refine ⟨by rw [(hg _).1]; exact b1, by rw [(hg _).2.2.2, (hg _).2.1]; exact b2, ?_, b3⟩
      show _ ≤ (j.lastChange.set x j.now).getD x 0
      rw [getD_set_self _ _ _ _ hlc, (hg _).2.2.2, hn]; exact this.sent_le
  · intro s hs sm hsm
    apply forall_modify
    · intro i a hi hne; exact h.vals s hs sm hsm i a hi
    · intro a ha he hdn
      rw [hx] at ha; cases ha
      rw [(hg _).1] at he
      exact absurd hdn (hq he)

/-- the monitor after an accepted trigger of variable x at time t -/
def Mon.triggered (j : Mon) (x : Nat) (t : Int) : Mon :=
  { j with now := t, lastTrig := j.lastTrig.set x (some t), pendingChg := j.pendingChg.modify x (· - 1),
           subs := j.subs.map (fun s => { s with credit := s.credit + 1 }) }

theorem credit_after_trigger (js : List SubMon) (k : Nat) (sm : SubMon)
    (h : (js.map (fun (s : SubMon) => { s with credit := s.credit + 1 }))[k]? = some sm) : 0 < sm.credit := by
  rw [List.getElem?_map] at h
  cases hj : js[k]? with
  | none => rw [hj] at h; cases h
  | some sm0 =>
    rw [hj] at h
    simp only [Option.map_some, Option.some.injEq] at h
    subst h
    exact Nat.succ_pos _

/-- assignment to an evented variable outside its moderation interval: trigger at once, fan out -/
theorem assign_trigger_rel (m : State) (j : Mon) (x : Nat) (val : Val) (v0 : Var)
    (h : Rel m j) (hn : j.now = m.now) (hx : m.vars[x]? = some v0)
    (hev : v0.evented = true) (hdn : v0.deferred = none) (hnext : v0.lastSent + v0.rate ≤ m.now) :
    Rel (trigger { m with vars := m.vars.modify x (fun v => { v with value := some val }) } x).1
      ((j.assigned x val).obsRun (trigger { m with vars := m.vars.modify x (fun v => { v with value := some val }) } x).2) := by
  have hvo := h.vars x v0 hx
  have hxl : x < m.vars.length := (List.getElem?_eq_some_iff.mp hx).1
  have hlc : x < j.lastChange.length := by rw [h.lcLen]; exact hxl
  have hlt : x < j.lastTrig.length := by
    rcases hvo.trig with e | e <;> exact (List.getElem?_eq_some_iff.mp e).1
  -- the trigger observation is accepted
  have hj2 : (j.assigned x val).onObs (.trig x m.now) = (j.assigned x val).triggered x m.now := by
    have h1 : (j.assigned x val).evented.getD x false = true := by
      show j.evented.getD x false = true
      rw [h.ev, getD_map_of_getElem? _ _ _ _ _ hx]; exact hev
    have h2 : timeOk (j.assigned x val) m.now = true := by
      show (decide (j.now ≤ m.now) && decide (m.now ≤ j.target)) = true
      simp [hn, h.tgt]
    have hr : ((j.assigned x val).rate.getD x 0 : Int) = v0.rate := by
      show ((j.rate.getD x 0 : Nat) : Int) = _
      rw [h.rate, getD_map_of_getElem? _ _ _ _ _ hx]
    obtain ⟨n0, hn0, _⟩ := hvo.pc
    have hp : decide (0 < (j.assigned x val).pendingChg.getD x 0) = true := by
      show decide (0 < (j.pendingChg.modify x (· + 1)).getD x 0) = true
      simp [List.getD_eq_getElem?_getD, pc_modify_self _ _ _ _ hn0]
    have hl : (j.assigned x val).lapse m.now = j.assigned x val := by
      have := lapse_self (j.assigned x val)
      rw [show (j.assigned x val).now = m.now from hn] at this; exact this
    simp only [Mon.onObs, hl, Mon.trigAt, Mon.triggered, h1, h2, hp]
    congr 1
    rcases hvo.trig with e | e
    · have e' : (j.assigned x val).lastTrig[x]? = some none := e
      rw [e']; simp
    · have e' : (j.assigned x val).lastTrig[x]? = some (some v0.lastSent) := e
      rw [e', hr]; simp [hnext]
  -- the fan-out
  let vars2 : List Var :=
    (m.vars.modify x (fun v => { v with value := some val })).modify x (fun v => { v with lastSent := m.now })
  let m2 : State := { m with vars := vars2 }
  let j2 := (j.assigned x val).triggered x m.now
  have hm2ev : j2.evented = m2.vars.map (·.evented) := by
    show j.evented = List.map (·.evented) ((m.vars.modify x _).modify x _)
    rw [List.modify_modify_eq]; exact h.ev.trans (map_modify_same _ _ _ _ (by intro a; rfl)).symm
  have hm2rate : j2.rate = m2.vars.map (·.rate) := by
    show j.rate = List.map (·.rate) ((m.vars.modify x _).modify x _)
    rw [List.modify_modify_eq]; exact h.rate.trans (map_modify_same _ _ _ _ (by intro a; rfl)).symm
  have hm2cur : j2.cur = m2.vars.map (·.value) := by
    show j.cur.set x (some val) = List.map (·.value) ((m.vars.modify x _).modify x _)
    rw [List.modify_modify_eq, h.cur]; exact (map_modify_set _ _ _ _ _ (by intro a; rfl)).symm
  have hsubs2 : SubsOk m2 j2.subs :=
    SubsOk.congr (m' := m2) _ h.subs rfl rfl (Int.le_refl _) (fun _ => ⟨rfl, rfl, rfl, rfl, rfl⟩)
  have hb := broadcast_ok m2 j2 0 rfl (by show m.now ≤ j.target; rw [h.tgt]; exact Int.le_refl _) hm2ev hm2cur hsubs2
    (fun s _ sm hsm => credit_after_trigger _ _ _ hsm)
  simp only at hb
  obtain ⟨hf, hnow, hvars, hnsid, hsub3, hcv⟩ := hb
  show Rel (broadcast m2).1 (((j.assigned x val).onObs (.trig x m.now)).obsRun (broadcast m2).2)
  rw [hj2]
  refine ⟨?_, ?_, ?_, ?_, ?_, ?_, ?_, ?_, ?_, hsub3, ?_, Int.le_refl _⟩
  · rw [hf.ok]; exact h.ok
  · rw [hf.target, hnow]; exact h.tgt
  · rw [hf.now, hnow]; exact Int.le_refl _
  · rw [hf.awaiting]; exact h.awaiting
  · rw [hf.evented, hvars]; exact hm2ev
  · rw [hf.rate, hvars]; exact hm2rate
  · rw [hf.cur, hvars]; exact hm2cur
  · rw [hf.lastChange, hvars]
    show (j.lastChange.set x j.now).length = ((m.vars.modify x _).modify x _).length
    simp only [List.length_set, List.length_modify]; exact h.lcLen
  · rw [hf.lastChange, hf.lastTrig, hf.pendingChg, hvars, hnow]
    show ∀ i v, ((m.vars.modify x _).modify x _)[i]? = some v →
      VarOk m.now (j.lastTrig.set x (some m.now)) (j.lastChange.set x j.now)
        ((j.pendingChg.modify x (· + 1)).modify x (· - 1)) i v
    rw [List.modify_modify_eq]
    apply forall_modify
    · intro i a hi hne
      have := h.vars i a hi
      exact ⟨this.sent_le, by rw [List.getElem?_set_ne (Ne.symm hne)]; exact this.trig, fun f hf' => by
        obtain ⟨a1, a2, a3, a4⟩ := this.dfr f hf'
        exact ⟨a1, a2, by rw [getD_set_ne _ _ _ _ _ hne]; exact a3, a4⟩,
        by rw [pc_modify_ne _ _ _ _ hne, pc_modify_ne _ _ _ _ hne]; exact this.pc⟩
    · intro a ha
      rw [hx] at ha; cases ha
      obtain ⟨n0, hn0, _⟩ := hvo.pc
      refine ⟨Int.le_refl _, Or.inr (by rw [List.getElem?_set_self hlt]; rfl), fun f hf' => ?_,
        ⟨(n0 + 1) - 1, pc_modify_self _ _ _ _ (pc_modify_self _ _ _ _ hn0), fun hd' => absurd hdn hd'⟩⟩
      simp only [Function.comp] at hf'
      rw [hdn] at hf'; cases hf'
  · intro s hs sm hsm i v hv _ _
    obtain ⟨_, hl⟩ := hcv s hs sm hsm
    rw [hl, hm2cur, ← hvars, List.getElem?_map, hv]; rfl

theorem assign_none (m : State) (j : Mon) (x : Nat) (val : Val) (hcur : j.cur = m.vars.map (·.value))
    (hx : m.vars[x]? = none) : j.assign x val = j := by
  have hc : j.cur[x]? = none := by rw [hcur, List.getElem?_map, hx]; rfl
  have hlen : ¬ x < j.cur.length := by
    intro hl; rw [List.getElem?_eq_getElem hl] at hc; cases hc
  unfold Mon.assign
  rw [if_neg (by rw [hc]; exact fun e => by cases e), if_neg hlen]

theorem assign_same (m : State) (j : Mon) (x : Nat) (val : Val) (v0 : Var) (hcur : j.cur = m.vars.map (·.value))
    (hx : m.vars[x]? = some v0) (hval : v0.value = some val) : j.assign x val = j := by
  have hc : j.cur[x]? = some v0.value := by rw [hcur, List.getElem?_map, hx]; rfl
  unfold Mon.assign
  rw [if_pos (by rw [hc, hval])]

theorem assign_changed (m : State) (j : Mon) (x : Nat) (val : Val) (v0 : Var) (hcur : j.cur = m.vars.map (·.value))
    (hx : m.vars[x]? = some v0) (hval : ¬ v0.value = some val) : j.assign x val = j.assigned x val := by
  have hc : j.cur[x]? = some v0.value := by rw [hcur, List.getElem?_map, hx]; rfl
  have hlen : x < j.cur.length := (List.getElem?_eq_some_iff.mp hc).1
  have hne : ¬ (j.cur[x]? = some (some val)) := by
    rw [hc]; intro e; exact hval (Option.some.inj e)
  unfold Mon.assign
  rw [if_neg hne, if_pos hlen]; rfl

theorem setVar_ok (m : State) (j : Mon) (x : Nat) (val : Val) (h : Rel m j) (hn : j.now = m.now) :
    Rel (setVar m x val).1 ((j.beginOp (.set x val)).obsRun (setVar m x val).2) := by
  show Rel (setVar m x val).1 ((j.assign x val).obsRun (setVar m x val).2)
  unfold setVar
  cases hx : m.vars[x]? with
  | none =>
    rw [assign_none m j x val h.cur hx]; exact h
  | some v0 =>
    by_cases hval : v0.value = some val
    · simp only [hval, if_true]
      rw [assign_same m j x val v0 h.cur hx hval]; exact h
    · simp only [hval, if_false]
      rw [assign_changed m j x val v0 h.cur hx hval]
      cases hev : v0.evented with
      | false =>
        simp only [Bool.not_false, if_true]
        exact assign_rel m j x val v0 id h hn hx (fun _ => ⟨rfl, rfl, rfl, rfl⟩)
          (fun f hf => by
            obtain ⟨a1, _, _, _⟩ := (h.vars x v0 hx).dfr f hf
            rw [hev] at a1; cases a1)
          (fun he => by rw [hev] at he; cases he)
      | true =>
        simp only [Bool.not_true, Bool.false_eq_true, if_false]
        cases hd : v0.deferred with
        | some f0 =>
          simp only [Option.isSome_some, if_true]
          exact assign_rel m j x val v0 id h hn hx (fun _ => ⟨rfl, rfl, rfl, rfl⟩)
            (fun f hf => by
              obtain ⟨a1, a2, _, a4⟩ := (h.vars x v0 hx).dfr f hf
              exact ⟨a1, a2, a4⟩)
            (fun _ => by show v0.deferred ≠ none; rw [hd]; exact fun e => by cases e)
        | none =>
          simp only [Option.isSome_none, Bool.false_eq_true, if_false]
          by_cases hnext : v0.lastSent + v0.rate ≤ m.now
          · rw [if_pos hnext]
            exact assign_trigger_rel m j x val v0 h hn hx hev hd hnext
          · rw [if_neg hnext]
            simp only [Mon.obsRun_nil]
            rw [List.modify_modify_eq]
            exact assign_rel m j x val v0 (fun v => { v with deferred := some (v0.lastSent + v0.rate) }) h hn hx
              (fun _ => ⟨rfl, rfl, rfl, rfl⟩)
              (fun f hf => by
                have : f = v0.lastSent + v0.rate := by
                  have : some (v0.lastSent + (v0.rate : Int)) = some f := hf
                  cases this; rfl
                exact ⟨hev, this, by omega⟩)
              (fun _ => by intro e; cases e)

end Upnp.C15
