/-
  C15 — the simulation between the server-eventing model and the judge monitor:
  the relation `Rel`, and one lemma per kind of model activity (a fan-out of NOTIFYs,
  a broadcast, a trigger, the timers that fall due, each handler).
-/
import Upnp.Model.C15Server
import Upnp.Spec.C15
import Upnp.Lemmas.C15Text
namespace Upnp.C15

/-- the monitor run over a list of observations -/
def Mon.obsRun (j : Mon) (l : List Obs) : Mon := l.foldl Mon.onObs j

@[simp] theorem Mon.obsRun_nil (j : Mon) : j.obsRun [] = j := rfl
@[simp] theorem Mon.obsRun_cons (j : Mon) (o : Obs) (l : List Obs) : j.obsRun (o :: l) = (j.onObs o).obsRun l := rfl
theorem Mon.obsRun_append (j : Mon) (a b : List Obs) : j.obsRun (a ++ b) = (j.obsRun a).obsRun b := by
  simp [Mon.obsRun, List.foldl_append]

theorem foldl_obs (l : List Obs) (j : Mon) : (l.map Item.obs).foldl Mon.step j = j.obsRun l := by
  induction l generalizing j with
  | nil => rfl
  | cons o l ih => exact ih (j.onObs o)

theorem lapse_self (j : Mon) : j.lapse j.now = j := by
  unfold Mon.lapse; rw [if_neg (Int.lt_irrefl _)]

theorem nextKey_gen (k : Nat) : nextKey Gen.C15.seqIncr Gen.C15.seqMax Gen.C15.seqWrapTo k = specNextKey k := by
  have e1 : Gen.C15.seqIncr = 1 := rfl
  have e2 : Gen.C15.seqMax = 4294967295 := rfl
  have e3 : Gen.C15.seqWrapTo = 1 := rfl
  rw [e1, e2, e3]
  unfold nextKey specNextKey
  by_cases h : 4294967295 ≤ k
  · rw [if_pos h, if_pos (by omega)]
  · rw [if_neg h, if_neg (by omega)]

/-- the monitor's entry `sm` is the one of model subscriber `s` -/
structure Tracks (js : List SubMon) (s : Sub) (sm : SubMon) : Prop where
  at_ : js[s.sid]? = some sm
  alive : sm.alive = true
  url : sm.url = none ∨ sm.url = some s.url
  seq : sm.nextSeq = s.key
  exp : sm.expires = s.expires
  init : sm.gotInitial = true

/-- one NOTIFY of a fan-out, as the monitor sees it -/
def SubMon.sent (sm : SubMon) (cur : List (Option Val)) : SubMon :=
  { sm with nextSeq := specNextKey sm.nextSeq, gotInitial := true, credit := sm.credit - 1, lastVals := cur }

/-- A fan-out: NOTIFYs to the distinct, tracked, unexpired subscribers `L`, each holding a credit.
    The monitor accepts them all; afterwards each entry of `L` is `sent`, nothing else changed. -/
theorem notifies_ok (L : List Sub) : ∀ (j : Mon), (L.map (·.sid)).Nodup →
    j.now ≤ j.target →
    (∀ s ∈ L, ∃ sm, Tracks j.subs s sm ∧ 0 < sm.credit ∧ j.now < s.expires) →
    let j' := j.obsRun (L.map (notifyOf j.now (bodyOf j.evented j.cur)))
    j'.ok = j.ok ∧ j'.now = j.now ∧ j'.target = j.target ∧ j'.evented = j.evented ∧ j'.rate = j.rate ∧ j'.cur = j.cur
    ∧ j'.lastChange = j.lastChange ∧ j'.lastTrig = j.lastTrig ∧ j'.awaiting = j.awaiting
    ∧ j'.subs.length = j.subs.length
    ∧ (∀ s ∈ L, ∀ sm, j.subs[s.sid]? = some sm → j'.subs[s.sid]? = some (sm.sent j.cur))
    ∧ (∀ k, k ∉ L.map (·.sid) → j'.subs[k]? = j.subs[k]?)
    ∧ j'.pendingChg = j.pendingChg := by
  induction L with
  | nil => intro j _ _ _; simp
  | cons s L ih =>
    intro j hnd hnt hL
    obtain ⟨sm, htr, hcr, hexp⟩ := hL s (List.mem_cons_self)
    have hnd' : (L.map (·.sid)).Nodup := (List.nodup_cons.mp (by simpa using hnd)).2
    have hs_notin : s.sid ∉ L.map (·.sid) := (List.nodup_cons.mp (by simpa using hnd)).1
    -- the monitor's step on the first NOTIFY
    let j1 : Mon := j.onObs (notifyOf j.now (bodyOf j.evented j.cur) s)
    have hj1 : j1 = { j with subs := j.subs.set s.sid (sm.sent j.cur) } := by
      show j.onObs (notifyOf j.now (bodyOf j.evented j.cur) s) = _
      simp only [notifyOf, Mon.onObs, lapse_self, Mon.notifyAt, htr.at_]
      have hu : (sm.url.isNone || sm.url == some s.url) = true := by
        rcases htr.url with h | h <;> simp [h]
      simp [timeOk, hnt, htr.alive, htr.seq, htr.init, htr.exp, hexp, hcr, hu, SubMon.sent, bodyOk_bodyOf]
    have hnow1 : j1.now = j.now := by rw [hj1]
    have hev1 : j1.evented = j.evented := by rw [hj1]
    have hcur1 : j1.cur = j.cur := by rw [hj1]
    have htail : ∀ s' ∈ L, ∃ sm', Tracks j1.subs s' sm' ∧ 0 < sm'.credit ∧ j1.now < s'.expires := by
      intro s' hs'
      obtain ⟨sm', htr', hcr', hexp'⟩ := hL s' (List.mem_cons_of_mem _ hs')
      have hne : s.sid ≠ s'.sid := by
        intro h; exact hs_notin (h ▸ List.mem_map_of_mem hs')
      refine ⟨sm', ⟨?_, htr'.alive, htr'.url, htr'.seq, htr'.exp, htr'.init⟩, hcr', by rw [hnow1]; exact hexp'⟩
      rw [hj1]; simp only [List.getElem?_set_ne hne]; exact htr'.at_
    have ih' := ih j1 hnd' (by rw [hj1]; exact hnt) htail
    simp only [hnow1, hev1, hcur1] at ih'
    obtain ⟨h1, h2, h3, h4, h5, h6, h7, h8, h9, h10, h11, h12, h13⟩ := ih'
    have hrun : j.obsRun ((s :: L).map (notifyOf j.now (bodyOf j.evented j.cur)))
        = j1.obsRun (L.map (notifyOf j.now (bodyOf j.evented j.cur))) := rfl
    simp only [hrun]
    refine ⟨by rw [h1, hj1], by rw [h2], by rw [h3, hj1], by rw [h4], by rw [h5, hj1], by rw [h6], by rw [h7, hj1],
      by rw [h8, hj1], by rw [h9, hj1], by rw [h10, hj1]; simp, ?_, ?_, by rw [h13, hj1]⟩
    · intro s' hs' sm' hsm'
      rcases List.mem_cons.mp hs' with rfl | hs'
      · rw [h12 _ hs_notin, hj1]
        have hlt : s'.sid < j.subs.length := by
          have := htr.at_; exact (List.getElem?_eq_some_iff.mp this).1
        simp only [List.getElem?_set_self hlt]
        rw [htr.at_] at hsm'; cases hsm'; rfl
      · have hne : s.sid ≠ s'.sid := by
          intro h; exact hs_notin (h ▸ List.mem_map_of_mem hs')
        apply h11 s' hs'
        rw [hj1]; simp only [List.getElem?_set_ne hne]; exact hsm'
    · intro k hk
      have hk1 : k ≠ s.sid := by intro h; apply hk; simp [h]
      have hk2 : k ∉ L.map (·.sid) := by intro h; apply hk; simp at h ⊢; right; exact h
      rw [h12 k hk2, hj1]; simp only [List.getElem?_set_ne (Ne.symm hk1)]

/-- what a burst of NOTIFY / trigger observations leaves untouched in the monitor -/
structure Frame (j j' : Mon) : Prop where
  ok : j'.ok = j.ok
  now : j'.now = j.now
  target : j'.target = j.target
  evented : j'.evented = j.evented
  rate : j'.rate = j.rate
  cur : j'.cur = j.cur
  lastChange : j'.lastChange = j.lastChange
  lastTrig : j'.lastTrig = j.lastTrig
  awaiting : j'.awaiting = j.awaiting
  pendingChg : j'.pendingChg = j.pendingChg

theorem Frame.refl (j : Mon) : Frame j j := ⟨rfl, rfl, rfl, rfl, rfl, rfl, rfl, rfl, rfl, rfl⟩
theorem Frame.trans {a b c : Mon} (h1 : Frame a b) (h2 : Frame b c) : Frame a c :=
  ⟨h2.ok.trans h1.ok, h2.now.trans h1.now, h2.target.trans h1.target, h2.evented.trans h1.evented,
   h2.rate.trans h1.rate, h2.cur.trans h1.cur, h2.lastChange.trans h1.lastChange,
   h2.lastTrig.trans h1.lastTrig, h2.awaiting.trans h1.awaiting, h2.pendingChg.trans h1.pendingChg⟩

/-- the subscriber part of the simulation relation -/
structure SubsOk (m : State) (js : List SubMon) : Prop where
  nsid : js.length = m.nextSid
  nodup : (m.subs.map (·.sid)).Nodup
  subs : ∀ s ∈ m.subs, ∃ sm, Tracks js s sm
  live : ∀ k sm, js[k]? = some sm → sm.alive = true →
    sm.gotInitial = true ∧ (m.now < sm.expires → ∃ s ∈ m.subs, s.sid = k)

theorem broadcast_ok (m : State) (j : Mon) (c : Nat)
    (hnow : j.now = m.now) (htgt : m.now ≤ j.target)
    (hev : j.evented = m.vars.map (·.evented)) (hcur : j.cur = m.vars.map (·.value))
    (hs : SubsOk m j.subs)
    (hcr : ∀ s ∈ m.subs, ∀ sm, j.subs[s.sid]? = some sm → c < sm.credit) :
    let r := broadcast m
    let j' := j.obsRun r.2
    Frame j j' ∧ r.1.now = m.now ∧ r.1.vars = m.vars ∧ r.1.nextSid = m.nextSid ∧ SubsOk r.1 j'.subs
    ∧ (∀ s ∈ r.1.subs, ∀ sm, j'.subs[s.sid]? = some sm → c ≤ sm.credit ∧ sm.lastVals = j.cur) := by
  intro r j'
  let L := m.subs.filter (fun s => decide (m.now < s.expires))
  have hLsub : (L.map (·.sid)).Sublist (m.subs.map (·.sid)) := (List.filter_sublist).map _
  have hLnd : (L.map (·.sid)).Nodup := hs.nodup.sublist hLsub
  have hLmem : ∀ s, s ∈ L ↔ s ∈ m.subs ∧ m.now < s.expires := by
    intro s; simp [L, List.mem_filter]
  have hbody : m.body = bodyOf j.evented j.cur := by rw [State.body, hev, hcur]
  have hobs : r.2 = L.map (notifyOf j.now (bodyOf j.evented j.cur)) := by
    show (broadcast m).2 = _
    simp only [broadcast, hbody, hnow, L]
  have hpre : ∀ s ∈ L, ∃ sm, Tracks j.subs s sm ∧ 0 < sm.credit ∧ j.now < s.expires := by
    intro s hsL
    obtain ⟨hsm, hexp⟩ := (hLmem s).mp hsL
    obtain ⟨sm, htr⟩ := hs.subs s hsm
    exact ⟨sm, htr, Nat.lt_of_le_of_lt (Nat.zero_le _) (hcr s hsm sm htr.at_), by rw [hnow]; exact hexp⟩
  have hN := notifies_ok L j hLnd (by rw [hnow]; exact htgt) hpre
  simp only at hN
  rw [← hobs] at hN
  obtain ⟨h1, h2, h3, h4, h5, h6, h7, h8, h9, h10, h11, h12, h13⟩ := hN
  have hr1 : r.1.subs = L.map Sub.bump := rfl
  refine ⟨⟨h1, h2, h3, h4, h5, h6, h7, h8, h9, h13⟩, rfl, rfl, rfl, ⟨?_, ?_, ?_, ?_⟩, ?_⟩
  · show j'.subs.length = m.nextSid
    rw [h10]; exact hs.nsid
  · rw [hr1]; simpa [List.map_map, Function.comp_def, Sub.bump] using hLnd
  · intro s' hs'
    rw [hr1] at hs'
    obtain ⟨s, hsL, rfl⟩ := List.mem_map.mp hs'
    obtain ⟨sm, htr, _, _⟩ := hpre s hsL
    refine ⟨sm.sent j.cur, ?_, htr.alive, htr.url, ?_, htr.exp, rfl⟩
    · exact h11 s hsL sm htr.at_
    · show specNextKey sm.nextSeq = nextKey _ _ _ s.key
      rw [nextKey_gen, htr.seq]
  · intro k sm hk halive
    by_cases hkL : k ∈ L.map (·.sid)
    · obtain ⟨s, hsL, rfl⟩ := List.mem_map.mp hkL
      obtain ⟨sm0, htr, _, _⟩ := hpre s hsL
      have := h11 s hsL sm0 htr.at_
      rw [this] at hk; cases hk
      refine ⟨rfl, fun _ => ⟨s.bump, ?_, rfl⟩⟩
      rw [hr1]; exact List.mem_map_of_mem hsL
    · rw [h12 k hkL] at hk
      obtain ⟨hg, hex⟩ := hs.live k sm hk halive
      refine ⟨hg, fun hlt => ?_⟩
      exfalso
      obtain ⟨s, hsm, rfl⟩ := hex hlt
      obtain ⟨sm0, htr⟩ := hs.subs s hsm
      rw [htr.at_] at hk; cases hk
      apply hkL
      exact List.mem_map_of_mem ((hLmem s).mpr ⟨hsm, by rw [← htr.exp]; exact hlt⟩)
  · intro s' hs' sm' hsm'
    rw [hr1] at hs'
    obtain ⟨s, hsL, rfl⟩ := List.mem_map.mp hs'
    obtain ⟨sm, htr, _, _⟩ := hpre s hsL
    have hsm : s ∈ m.subs := ((hLmem s).mp hsL).1
    have := h11 s hsL sm htr.at_
    have hsid : s.bump.sid = s.sid := rfl
    rw [hsid, this] at hsm'; cases hsm'
    have := hcr s hsm sm htr.at_
    exact ⟨by show c ≤ sm.credit - 1; omega, rfl⟩

theorem broadcastN_ok (n : Nat) : ∀ (m : State) (j : Mon) (c : Nat),
    j.now = m.now → m.now ≤ j.target →
    j.evented = m.vars.map (·.evented) → j.cur = m.vars.map (·.value) →
    SubsOk m j.subs →
    (∀ s ∈ m.subs, ∀ sm, j.subs[s.sid]? = some sm → c + n ≤ sm.credit) →
    Frame j (j.obsRun (broadcastN n m).2) ∧ (broadcastN n m).1.now = m.now ∧ (broadcastN n m).1.vars = m.vars
    ∧ (broadcastN n m).1.nextSid = m.nextSid ∧ SubsOk (broadcastN n m).1 (j.obsRun (broadcastN n m).2).subs
    ∧ (∀ s ∈ (broadcastN n m).1.subs, ∀ sm, (j.obsRun (broadcastN n m).2).subs[s.sid]? = some sm →
        c ≤ sm.credit ∧ (0 < n → sm.lastVals = j.cur)) := by
  induction n with
  | zero =>
    intro m j c _ _ _ _ hs hcr
    refine ⟨Frame.refl j, rfl, rfl, rfl, hs, ?_⟩
    intro s hs' sm hsm
    exact ⟨hcr s hs' sm hsm, fun h => absurd h (Nat.lt_irrefl 0)⟩
  | succ n ih =>
    intro m j c hnow htgt hev hcur hs hcr
    have hb := broadcast_ok m j (c + n) hnow htgt hev hcur hs
      (fun s hs' sm hsm => by have := hcr s hs' sm hsm; omega)
    simp only at hb
    obtain ⟨hf, hn, hv, hns, hs1, hc1⟩ := hb
    have ih' := ih (broadcast m).1 (j.obsRun (broadcast m).2) c
      (by rw [hf.now, hn, hnow]) (by rw [hf.target, hn]; exact htgt)
      (by rw [hf.evented, hv]; exact hev) (by rw [hf.cur, hv]; exact hcur) hs1
      (fun s hs' sm hsm => (hc1 s hs' sm hsm).1)
    obtain ⟨hf2, hn2, hv2, hns2, hs2, hc2⟩ := ih'
    have e1 : (broadcastN (n+1) m).1 = (broadcastN n (broadcast m).1).1 := rfl
    have e2 : j.obsRun (broadcastN (n+1) m).2
        = (j.obsRun (broadcast m).2).obsRun (broadcastN n (broadcast m).1).2 := by
      show j.obsRun ((broadcast m).2 ++ _) = _
      rw [Mon.obsRun_append]
    rw [e1, e2]
    refine ⟨hf.trans hf2, hn2.trans hn, hv2.trans hv, hns2.trans hns, hs2, ?_⟩
    intro s hs' sm hsm
    obtain ⟨hc, hl⟩ := hc2 s hs' sm hsm
    refine ⟨hc, fun _ => ?_⟩
    by_cases hn0 : 0 < n
    · rw [hl hn0, hf.cur]
    · have hn0 : n = 0 := by omega
      subst hn0
      exact (hc1 s hs' sm hsm).2

/-- the per-variable part of the simulation relation (moderation bookkeeping) -/
structure VarOk (now : Int) (lastTrig : List (Option Int)) (lastChange : List Int) (pendingChg : List Nat)
    (i : Nat) (v : Var) : Prop where
  sent_le : v.lastSent ≤ now
  trig : lastTrig[i]? = some none ∨ lastTrig[i]? = some (some v.lastSent)
  dfr : ∀ f, v.deferred = some f →
    v.evented = true ∧ f = v.lastSent + v.rate ∧ v.lastSent ≤ lastChange.getD i 0 ∧ now < f
  pc : ∃ n, pendingChg[i]? = some n ∧ (v.deferred ≠ none → 0 < n)

/-- every subscriber of the model has seen the current value of every evented variable that has no timer pending -/
@[reducible] def ValsOk (m : State) (js : List SubMon) : Prop :=
  ∀ s ∈ m.subs, ∀ sm, js[s.sid]? = some sm →
    ∀ (i : Nat) (v : Var), m.vars[i]? = some v → v.evented = true → v.deferred = none → sm.lastVals[i]? = some v.value

/-- **The simulation relation** between the model state and the judge's monitor, whenever the server is idle
    (`T` = end of the current operation in virtual time). -/
structure RelT (T : Int) (m : State) (j : Mon) : Prop where
  ok : j.ok = true
  tgt : j.target = T
  now : j.now ≤ m.now
  awaiting : j.awaiting = none
  ev : j.evented = m.vars.map (·.evented)
  rate : j.rate = m.vars.map (·.rate)
  cur : j.cur = m.vars.map (·.value)
  lcLen : j.lastChange.length = m.vars.length
  vars : ∀ i v, m.vars[i]? = some v → VarOk m.now j.lastTrig j.lastChange j.pendingChg i v
  subs : SubsOk m j.subs
  vals : ValsOk m j.subs
  nowT : m.now ≤ T

/-- between operations the monitor's operation window has closed on the model's clock -/
abbrev Rel (m : State) (j : Mon) : Prop := RelT m.now m j

theorem getD_map_of_getElem? {α β : Type} (l : List α) (f : α → β) (i : Nat) (a : α) (d : β)
    (h : l[i]? = some a) : (l.map f).getD i d = f a := by
  simp [List.getD, h]

/-- J2/J6 hold in every idle state related to the model -/
theorem Rel.quiescent {m : State} {j : Mon} (h : Rel m j) (hn : j.now = m.now) : quiescentOk j = true := by
  unfold quiescentOk
  rw [h.awaiting]
  simp only [Option.isNone_none, Bool.true_and, List.all_eq_true]
  intro sm hsm
  obtain ⟨k, hk⟩ := List.mem_iff_getElem?.mp hsm
  cases ha : sm.alive with
  | false => simp
  | true =>
    obtain ⟨hg, hex⟩ := h.subs.live k sm hk ha
    simp only [Bool.not_true, Bool.false_or, hg, Bool.true_and, Bool.or_eq_true, decide_eq_true_eq]
    by_cases hlt : sm.expires ≤ j.now
    · left; exact hlt
    · right
      have hlt' : m.now < sm.expires := by omega
      obtain ⟨s, hs, rfl⟩ := hex hlt'
      unfold dueOk
      simp only [List.all_eq_true, List.mem_range, Bool.or_eq_true, Bool.not_eq_true', decide_eq_true_eq,
        beq_iff_eq]
      intro i hi
      rw [h.cur, List.length_map] at hi
      obtain ⟨v, hv⟩ : ∃ v, m.vars[i]? = some v := ⟨m.vars[i], List.getElem?_eq_getElem hi⟩
      have hvo := h.vars i v hv
      rw [h.ev, h.rate, h.cur, getD_map_of_getElem? _ _ _ _ _ hv, getD_map_of_getElem? _ _ _ _ _ hv]
      cases he : v.evented with
      | false => left; left; rfl
      | true =>
        cases hd : v.deferred with
        | some f =>
          obtain ⟨_, hf, hlc, hnf⟩ := hvo.dfr f hd
          left; right; rw [hn]; omega
        | none =>
          right
          rw [h.vals s hs sm hk i v hv he hd]
          simp [hv]

/-- the end of an operation is accepted, and the closed monitor is still related -/
theorem Rel.close {m : State} {j : Mon} (h : Rel m j) :
    Rel m j.close ∧ j.close.now = m.now := by
  have hq : quiescentOk { j with now := j.target } = true := by
    apply Rel.quiescent (m := m) _ h.tgt
    exact ⟨h.ok, h.tgt, by show j.target ≤ m.now; rw [h.tgt]; exact Int.le_refl _, h.awaiting, h.ev, h.rate, h.cur,
      h.lcLen, h.vars, h.subs, h.vals, Int.le_refl _⟩
  have hsubs : ∀ k : Nat, j.close.subs[k]? = (j.subs[k]?).map (fun (s : SubMon) => { s with credit := 0 }) := by
    intro k; simp [Mon.close]
  refine ⟨⟨?_, h.tgt, ?_, h.awaiting, h.ev, h.rate, h.cur, h.lcLen, ?_, ⟨?_, h.subs.nodup, ?_, ?_⟩, ?_, Int.le_refl _⟩, h.tgt⟩
  · show (j.ok && quiescentOk { j with now := j.target }) = true
    rw [hq, h.ok]; rfl
  · show j.target ≤ m.now
    rw [h.tgt]; exact Int.le_refl _
  · exact h.vars
  · show (j.subs.map _).length = m.nextSid
    rw [List.length_map]; exact h.subs.nsid
  · intro s hs
    obtain ⟨sm, htr⟩ := h.subs.subs s hs
    exact ⟨{ sm with credit := 0 }, by rw [hsubs, htr.at_]; rfl, htr.alive, htr.url, htr.seq, htr.exp, htr.init⟩
  · intro k sm hk ha
    rw [hsubs] at hk
    cases hj : j.subs[k]? with
    | none => rw [hj] at hk; cases hk
    | some sm0 =>
      rw [hj] at hk; cases hk
      exact h.subs.live k sm0 hj ha
  · intro s hs sm hk
    rw [hsubs] at hk
    cases hj : j.subs[s.sid]? with
    | none => rw [hj] at hk; cases hk
    | some sm0 =>
      rw [hj] at hk; cases hk
      exact h.vals s hs sm0 hj

end Upnp.C15
