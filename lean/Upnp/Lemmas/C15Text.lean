/-
  C15 — a TIMEOUT header of the form `Second-` + 1..9 decimal digits is understood by the
  SUBSCRIBE handler's `int(timeout.lower().replace("second-", ""))`.
-/
import Upnp.Model.C15Base
namespace Upnp.C15

theorem isDigit_bounds {c : Char} (h : isDigit c = true) : 48 ≤ c.toNat ∧ c.toNat ≤ 57 := by
  unfold isDigit at h
  simp only [Bool.and_eq_true, decide_eq_true_eq] at h
  obtain ⟨h1, h2⟩ := h
  have h1' : '0'.toNat ≤ c.toNat := h1
  have h2' : c.toNat ≤ '9'.toNat := h2
  exact ⟨h1', h2'⟩

theorem lowerChar_digit {c : Char} (h : isDigit c = true) : lowerChar c = c := by
  obtain ⟨h1, h2⟩ := isDigit_bounds h
  unfold lowerChar
  rw [if_neg]
  rintro ⟨ha, hz⟩
  have : 'A'.toNat ≤ c.toNat := ha
  have e : 'A'.toNat = 65 := rfl
  omega

theorem lower_digits : ∀ ds : Str, ds.all isDigit = true → lower ds = ds := by
  intro ds
  induction ds with
  | nil => intro _; rfl
  | cons d ds ih =>
    intro h
    simp only [List.all_cons, Bool.and_eq_true] at h
    show lowerChar d :: lower ds = _
    rw [lowerChar_digit h.1, ih h.2]

theorem digit_ne {c : Char} (h : isDigit c = true) (x : Char) (hx : x.toNat < 48 ∨ 57 < x.toNat) : c ≠ x := by
  obtain ⟨h1, h2⟩ := isDigit_bounds h
  intro e; subst e; omega

theorem removeAll_digits : ∀ ds : Str, ds.all isDigit = true →
    removeAll 's' ['e', 'c', 'o', 'n', 'd', '-'] ds = ds := by
  intro ds
  induction ds with
  | nil => intro _; rw [removeAll]
  | cons d ds ih =>
    intro h
    simp only [List.all_cons, Bool.and_eq_true] at h
    have hne : ('s' == d) = false := by
      have := digit_ne h.1 's' (Or.inr (by decide))
      simp [beq_eq_false_iff_ne, Ne.symm this]
    rw [removeAll]
    have : isPrefix ('s' :: ['e', 'c', 'o', 'n', 'd', '-']) (d :: ds) = false := by
      simp [isPrefix, hne]
    rw [this]
    simp only [Bool.false_eq_true, if_false]
    rw [ih h.2]

theorem not_space_of_digit {c : Char} (h : isDigit c = true) : isPySpace c = false := by
  obtain ⟨h1, h2⟩ := isDigit_bounds h
  have hn : ∀ x : Char, x.toNat < 48 → (c == x) = false := by
    intro x hx
    have : c ≠ x := by intro e; subst e; omega
    simp [beq_eq_false_iff_ne, this]
  unfold isPySpace
  simp [hn ' ' (by decide), hn '\t' (by decide), hn '\n' (by decide), hn '\r' (by decide),
    hn '\x0b' (by decide), hn '\x0c' (by decide), hn '\x1c' (by decide), hn '\x1d' (by decide),
    hn '\x1e' (by decide), hn '\x1f' (by decide)]

theorem dropWhile_head_false {α : Type} (p : α → Bool) (a : α) (l : List α) (h : p a = false) :
    (a :: l).dropWhile p = a :: l := by
  simp [List.dropWhile, h]

theorem stripSpace_digits (ds : Str) (h : ds.all isDigit = true) : stripSpace ds = ds := by
  unfold stripSpace
  cases ds with
  | nil => rfl
  | cons d ds =>
    have hd : isPySpace d = false := not_space_of_digit (by simp only [List.all_cons, Bool.and_eq_true] at h; exact h.1)
    rw [dropWhile_head_false _ _ _ hd]
    -- the reversed list also starts with a digit
    have hr : ∀ c ∈ (d :: ds).reverse, isDigit c = true := by
      intro c hc
      have := List.all_eq_true.mp h c (List.mem_reverse.mp hc)
      exact this
    cases hrev : (d :: ds).reverse with
    | nil => simp at hrev
    | cons e es =>
      have he : isPySpace e = false := not_space_of_digit (hr e (by rw [hrev]; exact List.mem_cons_self))
      rw [dropWhile_head_false _ _ _ he, ← hrev, List.reverse_reverse]

theorem digitsVal_digits : ∀ (ds : Str) (acc : Nat) (b : Bool), ds.all isDigit = true → (ds ≠ [] ∨ b = true) →
    (digitsVal acc b ds).isSome = true := by
  intro ds
  induction ds with
  | nil =>
    intro acc b _ hb
    rcases hb with hb | hb
    · exact absurd rfl hb
    · subst hb; simp [digitsVal]
  | cons d ds ih =>
    intro acc b h _
    simp only [List.all_cons, Bool.and_eq_true] at h
    unfold digitsVal
    rw [if_pos h.1]
    exact ih _ true h.2 (Or.inr rfl)

/-- `Second-` followed by 1..9 digits parses -/
theorem parseTimeout_strict (s : Str) (h : strictTimeout s = true) : (parseTimeout s).isSome = true := by
  unfold strictTimeout at h
  split at h
  · rename_i ds
    simp only [Bool.and_eq_true, decide_eq_true_eq] at h
    obtain ⟨⟨hall, hpos⟩, _⟩ := h
    unfold parseTimeout
    have hl : lower ('S' :: 'e' :: 'c' :: 'o' :: 'n' :: 'd' :: '-' :: ds)
        = 's' :: 'e' :: 'c' :: 'o' :: 'n' :: 'd' :: '-' :: ds := by
      show lowerChar 'S' :: lowerChar 'e' :: lowerChar 'c' :: lowerChar 'o' :: lowerChar 'n' :: lowerChar 'd'
        :: lowerChar '-' :: lower ds = _
      rw [lower_digits ds hall]
      have e1 : lowerChar 'S' = 's' := by decide
      have e2 : lowerChar 'e' = 'e' := by decide
      have e3 : lowerChar 'c' = 'c' := by decide
      have e4 : lowerChar 'o' = 'o' := by decide
      have e5 : lowerChar 'n' = 'n' := by decide
      have e6 : lowerChar 'd' = 'd' := by decide
      have e7 : lowerChar '-' = '-' := by decide
      rw [e1, e2, e3, e4, e5, e6, e7]
    rw [hl, removeAll]
    have hp : isPrefix ('s' :: ['e', 'c', 'o', 'n', 'd', '-']) ('s' :: 'e' :: 'c' :: 'o' :: 'n' :: 'd' :: '-' :: ds) = true := by
      simp [isPrefix]
    rw [hp]
    simp only [if_true]
    have hdrop : List.drop ['e', 'c', 'o', 'n', 'd', '-'].length ('e' :: 'c' :: 'o' :: 'n' :: 'd' :: '-' :: ds) = ds := rfl
    rw [hdrop, removeAll_digits ds hall]
    unfold pyInt
    rw [stripSpace_digits ds hall]
    cases ds with
    | nil => simp at hpos
    | cons d ds' =>
      have hd : isDigit d = true := by simp only [List.all_cons, Bool.and_eq_true] at hall; exact hall.1
      have h1 : d ≠ '-' := digit_ne hd '-' (Or.inl (by decide))
      have h2 : d ≠ '+' := digit_ne hd '+' (Or.inl (by decide))
      have hv := digitsVal_digits (d :: ds') 0 false hall (Or.inl (by simp))
      split
      · rename_i r heq; cases heq; exact absurd rfl h1
      · rename_i r heq; cases heq; exact absurd rfl h2
      · cases hdv : digitsVal 0 false (d :: ds') with
        | none => rw [hdv] at hv; cases hv
        | some n => simp
  · cases h

/-! ### the event body: what the model writes (`str(value)`) reads back as the value -/

theorem digitChar_spec : ∀ d, d < 10 → isDigit (digitChar d) = true ∧ digitVal (digitChar d) = d := by decide

def digStep (a : Nat) (c : Char) : Nat := a * 10 + digitVal c

theorem digitsVal_value : ∀ (ds : Str) (acc : Nat) (b : Bool), ds.all isDigit = true → (ds ≠ [] ∨ b = true) →
    digitsVal acc b ds = some (ds.foldl digStep acc) := by
  intro ds
  induction ds with
  | nil =>
    intro acc b _ hb
    rcases hb with hb | hb
    · exact absurd rfl hb
    · subst hb; simp [digitsVal]
  | cons d ds ih =>
    intro acc b h _
    simp only [List.all_cons, Bool.and_eq_true] at h
    unfold digitsVal
    rw [if_pos h.1]
    exact ih _ true h.2 (Or.inr rfl)

theorem natDigits_spec : ∀ (fuel n : Nat), n < fuel →
    (natDigits fuel n).all isDigit = true ∧ natDigits fuel n ≠ [] ∧ (natDigits fuel n).foldl digStep 0 = n := by
  intro fuel
  induction fuel with
  | zero => intro n h; omega
  | succ fuel ih =>
    intro n h
    unfold natDigits
    by_cases hn : n < 10
    · rw [if_pos hn]
      obtain ⟨h1, h2⟩ := digitChar_spec n hn
      refine ⟨by simp [h1], by simp, ?_⟩
      simp [digStep, h2]
    · rw [if_neg hn]
      have hlt : n / 10 < fuel := by omega
      obtain ⟨a1, a2, a3⟩ := ih (n / 10) hlt
      obtain ⟨h1, h2⟩ := digitChar_spec (n % 10) (Nat.mod_lt _ (by omega))
      refine ⟨by simp [List.all_append, a1, h1], by simp, ?_⟩
      rw [List.foldl_append, a3]
      simp only [List.foldl_cons, List.foldl_nil, digStep, h2]
      omega

theorem natText_spec (n : Nat) :
    (natText n).all isDigit = true ∧ natText n ≠ [] ∧ digitsVal 0 false (natText n) = some n := by
  obtain ⟨a1, a2, a3⟩ := natDigits_spec (n + 1) n (Nat.lt_succ_self n)
  refine ⟨a1, a2, ?_⟩
  unfold natText
  rw [digitsVal_value _ 0 false a1 (Or.inl a2), a3]

theorem stripSpace_ends (l : Str) (c : Char) (r : Str) (hl : l = c :: r) (hc : isPySpace c = false)
    (hlast : ∀ e es, l.reverse = e :: es → isPySpace e = false) : stripSpace l = l := by
  unfold stripSpace
  subst hl
  rw [dropWhile_head_false _ _ _ hc]
  cases hrev : (c :: r).reverse with
  | nil => simp at hrev
  | cons e es =>
    rw [dropWhile_head_false _ _ _ (hlast e es hrev), ← hrev, List.reverse_reverse]

theorem pyInt_intText (n : Int) : pyInt (intText n) = some n := by
  cases n with
  | ofNat k =>
    obtain ⟨a1, a2, a3⟩ := natText_spec k
    show pyInt (natText k) = _
    unfold pyInt
    rw [stripSpace_digits _ a1]
    cases hk : natText k with
    | nil => exact absurd hk a2
    | cons d ds =>
      rw [hk] at a1 a3
      have hd : isDigit d = true := by simp only [List.all_cons, Bool.and_eq_true] at a1; exact a1.1
      have h1 : d ≠ '-' := digit_ne hd '-' (Or.inl (by decide))
      have h2 : d ≠ '+' := digit_ne hd '+' (Or.inl (by decide))
      split
      · rename_i r heq; cases heq; exact absurd rfl h1
      · rename_i r heq; cases heq; exact absurd rfl h2
      · rw [a3]; rfl
  | negSucc k =>
    obtain ⟨a1, a2, a3⟩ := natText_spec (k + 1)
    show pyInt ('-' :: natText (k + 1)) = _
    unfold pyInt
    have hs : stripSpace ('-' :: natText (k + 1)) = '-' :: natText (k + 1) := by
      apply stripSpace_ends _ '-' (natText (k + 1)) rfl (by decide)
      intro e es hrev
      have he : e ∈ ('-' :: natText (k + 1)).reverse := by rw [hrev]; exact List.mem_cons_self
      rcases List.mem_cons.mp (List.mem_reverse.mp he) with rfl | hm
      · decide
      · exact not_space_of_digit (List.all_eq_true.mp a1 e hm)
    rw [hs]
    simp only [a3, Option.map_some]
    rfl

theorem textOk_wireOf (v : Option Val) : textOk v (wireOf v) = true := by
  cases v with
  | none => rfl
  | some v =>
    cases v with
    | int n => simp [textOk, wireOf, pyInt_intText]
    | bool b => cases b <;> decide
    | str s => simp [textOk, wireOf]

theorem bodyOk_go_bodyOf : ∀ (ev : List Bool) (vals : List (Option Val)) (i : Nat),
    bodyOk.go i ev vals (bodyOf.go i ev vals) = true := by
  intro ev
  induction ev with
  | nil => intro vals i; simp [bodyOk.go, bodyOf.go]
  | cons e es ih =>
    intro vals i
    cases vals with
    | nil => simp [bodyOk.go, bodyOf.go]
    | cons v vs =>
      unfold bodyOk.go bodyOf.go
      cases e with
      | false => simpa using ih vs (i + 1)
      | true => simp [textOk_wireOf, ih vs (i + 1)]

theorem bodyOk_bodyOf (ev : List Bool) (vals : List (Option Val)) : bodyOk ev vals (bodyOf ev vals) = true :=
  bodyOk_go_bodyOf ev vals 0

end Upnp.C15
