import Upnp.Model.C16Heap
import Upnp.Lemmas.C16Sim
namespace Upnp.C16
open Upnp PyDict CIDict

/-- the cell an operation of the cell-level machine writes -/
def Op.target {κ ν : Type} : Op κ ν → Nat
  | .newDict r _ | .newCI r _ | .set r _ _ | .del r _ | .delLower r _ | .copy r _
  | .combine r _ _ | .combineLower r _ _ | .replaceDict r _ | .replaceCI r _ => r

theorem upd_ne {α : Type} (R : Nat → α) (r : Nat) (x : α) (c : Nat) (h : c ≠ r) : upd R r x c = R c := by
  simp [upd, h]

theorem upd_self {α : Type} (R : Nat → α) (r : Nat) (x : α) : upd R r x r = x := by simp [upd]

section
variable {κ ν : Type} [DecidableEq κ] (lower : κ → κ)

/-- a cell-level operation changes only the cell it targets (model) -/
theorem stepM_frame (R : Nat → CIDict κ ν) (op : Op κ ν) (c : Nat) (h : c ≠ op.target) :
    stepM lower R op c = R c := by
  cases op with
  | del r k =>
    simp only [stepM, Op.target] at h ⊢
    cases delitem lower (R r) k with
    | some d => exact upd_ne _ _ _ _ h
    | none => rfl
  | delLower r lk =>
    simp only [stepM, Op.target] at h ⊢
    cases delLower (R r) lk with
    | some d => exact upd_ne _ _ _ _ h
    | none => rfl
  | _ => simp only [stepM, Op.target] at h ⊢; exact upd_ne _ _ _ _ h

/-- a cell-level operation changes only the cell it targets (abstract map) -/
theorem stepS_frame (S : Nat → SMap κ ν) (op : Op κ ν) (c : Nat) (h : c ≠ op.target) :
    stepS lower S op c = S c := by
  cases op <;> simp only [stepS, Op.target] at h ⊢ <;> exact upd_ne _ _ _ _ h

end

section
variable {κ ν α : Type}

/-- a step function that changes only the targeted cell -/
def Frames (step : (Nat → α) → Op κ ν → (Nat → α)) : Prop :=
  ∀ R op c, c ≠ Op.target op → step R op c = R c

/-- every variable's cell has been allocated -/
def Fresh (s : HSt α) : Prop := ∀ w, s.handle w < s.next

/-- no other variable uses `v`'s cell -/
def Private (s : HSt α) (v : Nat) : Prop := ∀ w, w ≠ v → s.handle w ≠ s.handle v

theorem fresh_init (d : α) : Fresh (hinit d) := by intro w; simp [hinit]

theorem fresh_step (step : (Nat → α) → Op κ ν → (Nat → α)) (s : HSt α) (op : HOp κ ν) (h : Fresh s) :
    Fresh (hstep step s op) := by
  intro w
  cases op <;> simp only [hstep, upd]
  all_goals first
    | (split <;> first | omega | (have := h w; omega))
    | exact h w
    | (split <;> first | exact h _ | exact h w)

/-- the handle table and the allocation counter do not depend on the cell type: the model and the
    abstract map run under the same handles -/
theorem hstep_handle_indep {β : Type} (f : (Nat → α) → Op κ ν → (Nat → α)) (g : (Nat → β) → Op κ ν → (Nat → β))
    (s : HSt α) (t : HSt β) (op : HOp κ ν) (hh : s.handle = t.handle) (hn : s.next = t.next) :
    (hstep f s op).handle = (hstep g t op).handle ∧ (hstep f s op).next = (hstep g t op).next := by
  cases op <;> simp [hstep, hh, hn]

/-- One operation that neither targets `v` nor links to it leaves `v`'s private cell alone. -/
theorem private_step (step : (Nat → α) → Op κ ν → (Nat → α)) (hf : Frames step) (s : HSt α) (v : Nat)
    (op : HOp κ ν) (hfr : Fresh s) (hp : Private s v) (ht : op.target ≠ v) (hl : op.linksTo v = false) :
    Private (hstep step s op) v ∧ (hstep step s op).handle v = s.handle v ∧
      (hstep step s op).cells (s.handle v) = s.cells (s.handle v) := by
  have hv := hfr v
  have hne : s.handle v ≠ s.next := by omega
  cases op with
  | newDict w l | newCI w a | copy w a | combine w a b | combineLower w a l | replaceDict w l =>
    simp only [HOp.target] at ht
    have hvw : v ≠ w := fun e => ht e.symm
    refine ⟨?_, by simp [hstep, upd, hvw], by simp only [hstep]; exact hf _ _ _ (by simpa [Op.target] using hne)⟩
    intro u hu
    simp only [hstep, upd, hvw, if_false]
    split
    · exact fun e => hne e.symm
    · exact hp u hu
  | set w k x | del w k | delLower w lk =>
    simp only [HOp.target] at ht
    refine ⟨hp, rfl, ?_⟩
    simp only [hstep]
    exact hf _ _ _ (by simpa [Op.target] using (hp w ht).symm)
  | replaceCI w a =>
    simp only [HOp.target] at ht
    simp only [HOp.linksTo, beq_eq_false_iff_ne, ne_eq] at hl
    have hvw : v ≠ w := fun e => ht e.symm
    refine ⟨?_, by simp [hstep, upd, hvw], rfl⟩
    intro u hu
    simp only [hstep, upd, hvw, if_false]
    split
    · exact hp a hl
    · exact hp u hu

/-- any number of such operations -/
theorem private_run (step : (Nat → α) → Op κ ν → (Nat → α)) (hf : Frames step) (v : Nat) (ops : List (HOp κ ν))
    (s : HSt α) (hfr : Fresh s) (hp : Private s v)
    (hops : ∀ op ∈ ops, op.target ≠ v ∧ op.linksTo v = false) :
    (hrun step s ops).val v = s.val v ∧ Private (hrun step s ops) v := by
  induction ops generalizing s with
  | nil => exact ⟨rfl, hp⟩
  | cons op r ih =>
    obtain ⟨ht, hl⟩ := hops op List.mem_cons_self
    obtain ⟨hp', hh, hc⟩ := private_step step hf s v op hfr hp ht hl
    have := ih (hstep step s op) (fresh_step step s op hfr) hp'
      (fun o ho => hops o (List.mem_cons_of_mem _ ho))
    simp only [hrun, List.foldl_cons] at this ⊢
    refine ⟨?_, this.2⟩
    rw [this.1]; simp only [HSt.val, hh, hc]

/-- an operation that builds a header map gives its target a private cell -/
def HOp.allocates : HOp κ ν → Bool
  | .newDict .. | .newCI .. | .copy .. | .combine .. | .combineLower .. | .replaceDict .. => true
  | _ => false

theorem alloc_private (step : (Nat → α) → Op κ ν → (Nat → α)) (s : HSt α) (op : HOp κ ν) (hfr : Fresh s)
    (ha : op.allocates = true) : Private (hstep step s op) op.target := by
  cases op <;> simp only [HOp.allocates] at ha <;> try (cases ha)
  all_goals
    intro u hu
    simp only [hstep, HOp.target, upd] at hu ⊢
    simp only [hu, if_false, if_true]
    have := hfr u
    omega

end
end Upnp.C16
