import Upnp.Lemmas.C16Sim
namespace Upnp.C16
open Upnp PyDict CIDict
variable {κ ν : Type} [DecidableEq κ]

theorem set_append_of_not_mem (acc : PyDict κ ν) (k : κ) (v : ν) (hk : k ∉ keys acc) :
    PyDict.set acc k v = acc ++ [(k, v)] := by
  induction acc with
  | nil => simp [PyDict.set]
  | cons q t iht =>
    obtain ⟨k', v'⟩ := q
    have hne : k' ≠ k := by
      intro e; apply hk; simp [keys, e]
    have : k ∉ keys t := by
      intro hm; apply hk; simp only [keys, List.map_cons, List.mem_cons]; exact Or.inr hm
    simp [PyDict.set, hne, iht this]

theorem foldl_set_of_nodup (l acc : PyDict κ ν) (hn : (keys (acc ++ l)).Nodup) :
    l.foldl (fun acc p => PyDict.set acc p.1 p.2) acc = acc ++ l := by
  induction l generalizing acc with
  | nil => simp
  | cons p r ih =>
    simp only [List.foldl_cons]
    have hk : p.1 ∉ keys acc := by
      simp only [keys, List.map_append, List.map_cons] at hn
      have := (List.nodup_append.mp hn).2.2
      intro hm; exact this _ hm _ (List.mem_cons_self) rfl
    rw [set_append_of_not_mem acc p.1 p.2 hk, ih (acc ++ [(p.1, p.2)]) (by simpa [List.append_assoc] using hn)]
    simp [List.append_assoc]

theorem ofList_of_nodup (l : PyDict κ ν) (h : (keys l).Nodup) : PyDict.ofList l = l := by
  unfold PyDict.ofList PyDict.merge
  simpa using foldl_set_of_nodup l [] (by simpa using h)

theorem get?_mapVal {β γ : Type} (l : PyDict κ β) (f : β → γ) (x : κ) :
    get? (l.map fun p => (p.1, f p.2)) x = (get? l x).map f := by
  induction l with
  | nil => simp
  | cons p r ih =>
    obtain ⟨k, v⟩ := p
    by_cases e : k = x <;> simp [get?, e, ih]

omit [DecidableEq κ] in
theorem keys_mapVal {β γ : Type} (l : PyDict κ β) (f : β → γ) :
    keys (l.map fun p => (p.1, f p.2)) = keys l := by
  simp [keys, Function.comp_def]

/-- on dicts (unique keys) Python's `==` is extensional equality of lookups -/
theorem eqv_iff [DecidableEq ν] (a b : PyDict κ ν) (ha : (keys a).Nodup) (hb : (keys b).Nodup) :
    eqv a b = true ↔ ∀ x, get? a x = get? b x := by
  unfold eqv
  simp only [Bool.and_eq_true, beq_iff_eq, List.all_eq_true]
  constructor
  · rintro ⟨hl, hall⟩ x
    have hsub : keys a ⊆ keys b := by
      intro k hk
      obtain ⟨p, hp, e⟩ := List.mem_map.mp hk
      have := hall p hp
      rw [← e, ← get?_isSome_iff, this]; rfl
    cases hx : get? a x with
    | some v => exact (hall (x, v) (mem_of_get? hx)).symm
    | none =>
      have hx' := (get?_eq_none_iff a x).mp hx
      have hsup := subset_of_subset_length ha hb hsub (by simp [keys, hl])
      symm; rw [get?_eq_none_iff]; exact fun hm => hx' (hsup hm)
  · intro h
    constructor
    · have hp : (keys a).Perm (keys b) := by
        rw [List.perm_ext_iff_of_nodup ha hb]
        intro k; rw [← get?_isSome_iff, ← get?_isSome_iff, h]
      simpa [keys] using hp.length_eq
    · intro p hp
      rw [← h]; exact get?_of_mem_nodup ha hp

theorem eqv_congr_right [DecidableEq ν] (A X Y : PyDict κ ν) (hA : (keys A).Nodup) (hX : (keys X).Nodup)
    (hY : (keys Y).Nodup) (h : ∀ x, get? X x = get? Y x) : eqv A X = eqv A Y := by
  rw [Bool.eq_iff_iff, eqv_iff _ _ hA hX, eqv_iff _ _ hA hY]
  simp only [h]

variable (lower : κ → κ)

theorem asLowerDict_abs {d : CIDict κ ν} (h : Inv lower d) :
    asLowerDict lower d = (abs lower d).map (fun p => (p.1, p.2.2)) := by
  unfold asLowerDict
  have e : (d.data.map fun p => (lower p.1, p.2)) = (abs lower d).map (fun p => (p.1, p.2.2)) := by
    simp [abs, Function.comp_def]
  rw [e]
  apply ofList_of_nodup
  rw [keys_mapVal (f := fun q : κ × ν => q.2)]
  exact h.absNodup lower

end Upnp.C16

namespace Upnp.C16
open Upnp PyDict CIDict
variable {κ ν : Type} [DecidableEq κ] (lower : κ → κ)

theorem sameSet_of_perm {α : Type} [DecidableEq α] {a b : List α} (h : a.Perm b) : sameSet a b = true := by
  unfold sameSet
  simp only [Bool.and_eq_true, beq_iff_eq, List.all_eq_true, List.contains_iff_mem]
  exact ⟨⟨h.length_eq, fun x hx => h.mem_iff.mp hx⟩, fun x hx => h.mem_iff.mpr hx⟩

theorem nodup_of_keys_nodup {β : Type} {l : PyDict κ β} (h : (keys l).Nodup) : l.Nodup :=
  nodup_of_map' (fun p : κ × β => p.1) (by simpa [keys] using h)

/-- `case_map()` lists exactly the (folded name, spelling) pairs of the abstract content -/
theorem cmap_perm {d : CIDict κ ν} (h : Inv lower d) :
    d.cmap.Perm ((abs lower d).map fun p => (p.1, p.2.1)) := by
  have hn2 : (keys ((abs lower d).map fun p => (p.1, p.2.1))).Nodup := by
    rw [keys_mapVal (f := fun q : κ × ν => q.1)]; exact h.absNodup lower
  rw [List.perm_ext_iff_of_nodup (nodup_of_keys_nodup h.cmapNodup) (nodup_of_keys_nodup hn2)]
  rintro ⟨lk, k⟩
  constructor
  · intro hm
    obtain ⟨hs, e⟩ := (h.cmapSpec lk k).mp (get?_of_mem_nodup h.cmapNodup hm)
    cases hv : get? d.data k with
    | none => rw [hv] at hs; cases hs
    | some v =>
      simp only [abs, List.map_map, List.mem_map]
      exact ⟨(k, v), mem_of_get? hv, by simp [e]⟩
  · intro hm
    simp only [abs, List.map_map, List.mem_map] at hm
    obtain ⟨p, hp, e⟩ := hm
    simp only [Function.comp_apply, Prod.mk.injEq] at e
    obtain ⟨e1, e2⟩ := e
    subst e2
    have := (h.cmapSpec lk p.1).mpr ⟨(get?_isSome_iff _ _).mpr (List.mem_map_of_mem (f := (·.1)) hp), e1⟩
    exact mem_of_get? this

end Upnp.C16

namespace Upnp.C16
open Upnp PyDict CIDict
variable {κ ν : Type} [DecidableEq κ] (lower : κ → κ)

omit [DecidableEq κ] in
theorem filterMap_congr' {α β : Type} {f g : α → Option β} {l : List α} (h : ∀ a ∈ l, f a = g a) :
    l.filterMap f = l.filterMap g := by
  induction l with
  | nil => rfl
  | cons a r ih =>
    simp only [List.filterMap_cons, h a List.mem_cons_self]
    rw [ih (fun x hx => h x (List.mem_cons_of_mem _ hx))]

theorem filterMap_get?_self (l : PyDict κ ν) (h : (keys l).Nodup) :
    (keys l).filterMap (fun k => (get? l k).map fun v => (k, v)) = l := by
  induction l with
  | nil => simp [keys]
  | cons p r ih =>
    obtain ⟨k, v⟩ := p
    simp only [keys, List.map_cons, List.nodup_cons] at h
    have ih' := ih (by simpa [keys] using h.2)
    have hstep : (keys r).filterMap (fun k' => (get? ((k, v) :: r) k').map fun v' => (k', v'))
        = (keys r).filterMap (fun k' => (get? r k').map fun v' => (k', v')) := by
      apply filterMap_congr'
      intro k' hk'
      have hne : k ≠ k' := by
        intro e; subst e; exact h.1 (by simpa [keys] using hk')
      simp [get?, hne]
    show ((k :: keys r).filterMap fun k' => (get? ((k, v) :: r) k').map fun v' => (k', v')) = (k, v) :: r
    simp only [List.filterMap_cons, get?, if_true, Option.map_some]
    rw [show (List.filterMap (fun k' => Option.map (fun v' => (k', v')) (if k = k' then some v else get? r k')) (keys r))
          = (keys r).filterMap (fun k' => (get? ((k, v) :: r) k').map fun v' => (k', v')) from rfl, hstep, ih']

/-- a stored spelling looks itself up in `data` -/
theorem getitem_stored {d : CIDict κ ν} (h : Inv lower d) {k : κ} (hk : k ∈ keys d.data) :
    getitem lower d k = get? d.data k := by
  unfold getitem
  have := (h.cmapSpec (lower k) k).mpr ⟨(get?_isSome_iff _ _).mpr hk, rfl⟩
  rw [this]; rfl

/-- the inherited `items()` lists exactly the underlying dict: (current spelling, value) pairs in
    iteration order -/
theorem mixinItems_eq_data {d : CIDict κ ν} (h : Inv lower d) : mixinItems lower d = d.data := by
  unfold mixinItems iter
  have : (keys d.data).filterMap (fun k => (getitem lower d k).map fun v => (k, v))
       = (keys d.data).filterMap (fun k => (get? d.data k).map fun v => (k, v)) := by
    apply filterMap_congr'
    intro k hk; rw [getitem_stored lower h hk]
  rw [this, filterMap_get?_self _ h.dataNodup]

end Upnp.C16
