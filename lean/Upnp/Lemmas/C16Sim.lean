import Upnp.Lemmas.CIDictCtor
import Upnp.Model.C16Ops
namespace Upnp.C16
open Upnp PyDict CIDict
variable {κ ν : Type} [DecidableEq κ] (lower : κ → κ)

/-- the simulation relation between a header map and an abstract map -/
structure Sim (d : CIDict κ ν) (m : SMap κ ν) : Prop where
  inv : Inv lower d
  nodup : (keys m).Nodup
  same : ∀ x, get? (abs lower d) x = get? m x

theorem sim_empty : Sim lower (CIDict.empty : CIDict κ ν) [] :=
  ⟨inv_empty lower, by simp [keys], fun _ => rfl⟩

theorem nodup_writeAll (m : SMap κ ν) (l : List (κ × ν)) (h : (keys m).Nodup) :
    (keys (SMap.writeAll lower m l)).Nodup := by
  unfold SMap.writeAll
  induction l generalizing m with
  | nil => simpa
  | cons p r ih => exact ih _ (nodup_keys_set _ _ _ h)

theorem writeAll_eq_overlay (m : SMap κ ν) (l : List (κ × ν)) :
    SMap.writeAll lower m l = SMap.overlay m (l.map fun p => (lower p.1, (p.1, p.2))) := by
  unfold SMap.writeAll SMap.overlay SMap.write
  rw [List.foldl_map]

theorem sim_ofDict (l : List (κ × ν)) :
    Sim lower (CIDict.ofDict lower (PyDict.ofList l)) (SMap.writeAll lower [] (PyDict.ofList l)) :=
  ⟨ofDict_inv lower _ (nodup_keys_ofList l), nodup_writeAll lower _ _ (by simp [keys]),
   ofDict_abs lower _ (nodup_keys_ofList l)⟩

theorem sim_set {d : CIDict κ ν} {m : SMap κ ν} (h : Sim lower d m) (k : κ) (v : ν) :
    Sim lower (setitem lower d k v) (SMap.write lower m k v) := by
  refine ⟨setitem_inv lower h.inv k v, nodup_keys_set _ _ _ h.nodup, ?_⟩
  intro x
  rw [setitem_abs lower h.inv]
  simp only [SMap.write, get?_set, h.same]

theorem sim_delLower {d d' : CIDict κ ν} {m : SMap κ ν} (h : Sim lower d m) (lk : κ)
    (e : delLower d lk = some d') : Sim lower d' (SMap.remove m lk) := by
  obtain ⟨hi, hs⟩ := delLower_inv lower h.inv lk e
  refine ⟨hi, nodup_keys_erase _ _ h.nodup, ?_⟩
  intro x
  rw [hs]
  simp only [SMap.remove]
  by_cases e1 : lk = x
  · subst e1; rw [get?_erase_self _ _ (h.inv.absNodup lower), get?_erase_self _ _ h.nodup]
  · rw [get?_erase_ne _ _ _ e1, get?_erase_ne _ _ _ e1, h.same]

theorem delLower_none_remove {d : CIDict κ ν} {m : SMap κ ν} (h : Sim lower d m) (lk : κ)
    (e : delLower d lk = none) : Sim lower d (SMap.remove m lk) := by
  have hn : get? m lk = none := by
    have := delLower_some_iff lower h.inv lk
    rw [e, h.same] at this
    cases hv : get? m lk with
    | none => rfl
    | some v => rw [hv] at this; simp at this
  refine ⟨h.inv, nodup_keys_erase _ _ h.nodup, ?_⟩
  intro x
  simp only [SMap.remove]
  by_cases e1 : lk = x
  · subst e1; rw [get?_erase_self _ _ h.nodup, h.same, hn]
  · rw [get?_erase_ne _ _ _ e1, h.same]

theorem sim_combine {a b : CIDict κ ν} {m n : SMap κ ν} (ha : Sim lower a m) (hb : Sim lower b n) :
    Sim lower (combine a b) (SMap.overlay m n) := by
  refine ⟨combine_inv lower ha.inv hb.inv, nodup_keys_merge _ _ ha.nodup, ?_⟩
  intro x
  rw [combine_abs lower ha.inv hb.inv, get?_overlay _ _ (hb.inv.absNodup lower),
    get?_overlay _ _ hb.nodup, ha.same, hb.same]

/-- a dict whose keys are already folded, seen as a header map -/
theorem inv_lowerDict (ld : PyDict κ ν) (hn : (keys ld).Nodup) (hl : ∀ p ∈ ld, lower p.1 = p.1) :
    Inv lower (⟨ld, PyDict.ofList (ld.map fun p => (p.1, p.1))⟩ : CIDict κ ν) := by
  refine ⟨hn, nodup_keys_ofList _, ?_⟩
  intro lk k
  simp only
  rw [get?_ofList, ← List.map_reverse, get?_map_find?]
  constructor
  · intro e
    cases hf : ld.reverse.find? (fun p => decide (p.1 = lk)) with
    | none => rw [hf] at e; cases e
    | some p =>
      rw [hf] at e; simp only [Option.map_some, Option.some.injEq] at e
      have hm : p ∈ ld := by simpa using List.mem_of_find?_eq_some hf
      have hp : p.1 = lk := by simpa using List.find?_some hf
      subst e
      exact ⟨(get?_isSome_iff _ _).mpr (List.mem_map_of_mem (f := (·.1)) hm), (hl p hm).trans hp⟩
  · rintro ⟨hs, e⟩
    rw [get?_isSome_iff] at hs
    simp only [keys, List.mem_map] at hs
    obtain ⟨p, hp, e2⟩ := hs
    have hk : p.1 = lk := by rw [← e, ← e2]; exact (hl p hp).symm
    cases hf : ld.reverse.find? (fun p => decide (p.1 = lk)) with
    | none =>
      have := List.find?_eq_none.mp hf p (by simpa using hp)
      simp [hk] at this
    | some q =>
      have hq : q.1 = lk := by simpa using List.find?_some hf
      simp only [Option.map_some, Option.some.injEq]
      rw [hq, ← e, ← e2, hl p hp]

theorem sim_combineLower {a : CIDict κ ν} {m : SMap κ ν} (ha : Sim lower a m) (l : List (κ × ν))
    (hl : ∀ p ∈ l, lower p.1 = p.1) :
    Sim lower (combineLower a (PyDict.ofList l)) (SMap.writeAll lower m (PyDict.ofList l)) := by
  have hl' : ∀ p ∈ PyDict.ofList l, lower p.1 = p.1 := by
    intro p hp
    have : p.1 ∈ keys (PyDict.ofList l) := List.mem_map_of_mem (f := (·.1)) hp
    rw [mem_keys_ofList] at this
    obtain ⟨q, hq, e⟩ := List.mem_map.mp this
    rw [← e]; exact hl q hq
  have hb := inv_lowerDict lower (PyDict.ofList l) (nodup_keys_ofList l) hl'
  have hsb : Sim lower (⟨PyDict.ofList l, PyDict.ofList ((PyDict.ofList l).map fun p => (p.1, p.1))⟩ : CIDict κ ν)
      ((PyDict.ofList l).map fun p => (lower p.1, (p.1, p.2))) :=
    ⟨hb, by simpa [abs] using hb.absNodup lower, fun _ => rfl⟩
  have := sim_combine lower ha hsb
  rw [writeAll_eq_overlay]
  exact this

theorem sim_asDict {d : CIDict κ ν} {m : SMap κ ν} (h : Sim lower d m) :
    Sim lower (CIDict.ofDict lower (CIDict.asDict d)) m := by
  have hn := h.inv.dataNodup
  refine ⟨ofDict_inv lower _ hn, h.nodup, ?_⟩
  intro x
  show get? (abs lower (ofDict lower d.data)) x = get? m x
  rw [ofDict_abs lower _ hn, get?_writeAll_nil, ← h.same, ← List.map_reverse]
  have : (d.data.reverse.map fun p => (lower p.1, (p.1, p.2))) = (abs lower d).reverse := by
    simp [abs]
  rw [this, get?_reverse_nodup _ (h.inv.absNodup lower)]

theorem sim_upd {R : Nat → CIDict κ ν} {S : Nat → SMap κ ν} (h : ∀ i, Sim lower (R i) (S i))
    (r : Nat) {d : CIDict κ ν} {m : SMap κ ν} (hd : Sim lower d m) :
    ∀ i, Sim lower (upd R r d i) (upd S r m i) := by
  intro i; unfold upd; split
  · exact hd
  · exact h i

end Upnp.C16
