/-
  C17 — lifting lemmas: decidable conditions on the (generated) tables imply the judge `resultOk`
  for EVERY outcome script.  Everything here is for arbitrary `Tables`; `Props/C17.lean` discharges
  the conditions on `Gen.C17.tables` by `decide`.
-/
import Upnp.Spec.C17
namespace Upnp.C17

def isConnCls (T : Tables) (c : Cls) : Bool := subclass T c T.cTimeout || subclass T c T.cClientConn
def isRespCls (T : Tables) (c : Cls) : Bool := subclass T c T.cClientResp

/-- raising class `k` (status kept iff `keep`) is an acceptable answer to a transport failure of class `c` -/
def goodRaise (T : Tables) (c k : Cls) (keep : Bool) : Bool :=
  subclass T k T.cUpnpComm && (!isConnCls T c || subclass T k T.cUpnpConn) && (!isRespCls T c || keep)

/-- inner ladder followed by the outer ladder `L`, per class -/
def attemptH (T : Tables) (L : Ladder) (c : Cls) : Option (Cls × Bool) :=
  match handle T T.inner c with
  | none => some (T.supers.length, false)
  | some (k, keep) =>
    match handle T L k with
    | none => none
    | some (k2, keep2) => some (k2, keep && keep2)

def plainGood (T : Tables) : Bool :=
  T.transport.all fun c => match handle T T.plain c with
    | none => false
    | some (k, keep) => goodRaise T c k keep

def retryGood (T : Tables) : Bool :=
  T.transport.all fun c => match attemptH T T.retry c with
    | none => isConnCls T c
    | some (k, keep) => goodRaise T c k keep

def finalGood (T : Tables) : Bool :=
  T.transport.all fun c => match attemptH T T.final c with
    | none => false
    | some (k, keep) => goodRaise T c k keep

/-- `class_mapping` per class and per ladder result `h`: a library communication error is raised;
    a connection error if `c` is connection-level; `UpnpClientResponseError` with the status kept if
    `c` is response-level -/
def mapsWell (T : Tables) (c : Cls) (h : Option (Cls × Bool)) : Bool :=
  match h with
  | none => false
  | some (k, keep) =>
    subclass T k T.cUpnpComm
    && (!isConnCls T c || subclass T k T.cUpnpConn)
    && (!isRespCls T c || (k == T.cUpnpClientResp && keep))

/-- every exception of the script is of a class a session can raise -/
def WfScript {ρ : Type} (T : Tables) (outs : List (Exch ρ)) : Prop :=
  ∀ c st, Exch.exc c st ∈ outs → c ∈ T.transport

variable {ρ : Type}

theorem attempt_exc (T : Tables) (L : Ladder) (c : Cls) (st : Option Nat) :
    attempt (ρ := ρ) T L (.exc c st) =
      match attemptH T L c with
      | none => .swallowed
      | some (k, keep) => .raised k (if keep then st else none) := by
  unfold attempt attemptH
  cases h1 : handle T T.inner c with
  | none => simp [runLadder, h1]
  | some p =>
    obtain ⟨k, keep⟩ := p
    cases h2 : handle T L k with
    | none => simp [runLadder, h1, h2]
    | some q =>
      obtain ⟨k2, keep2⟩ := q
      cases keep <;> cases keep2 <;> simp [runLadder, h1, h2]

theorem attempt_ok (T : Tables) (L : Ladder) (r : ρ) : attempt T L (.ok r) = .ret r := by
  simp [attempt, runLadder]

variable [DecidableEq ρ]

/-- the judge's last-exchange clause for an exception answered by `raised k …` with `goodRaise` -/
theorem lastOk_raise (T : Tables) (c k : Cls) (keep : Bool) (st : Option Nat)
    (h : goodRaise T c k keep = true) :
    lastOk (ρ := ρ) T (.exc c st)
      (observe T ((.raised k (if keep then st else none) : LRes ρ), 0)).result = true := by
  simp only [goodRaise, isConnCls, isRespCls, Bool.and_eq_true, Bool.or_eq_true, Bool.not_eq_true'] at h
  obtain ⟨⟨h1, h2⟩, h3⟩ := h
  simp only [lastOk, observe, connLevel, respLevel, h1, Bool.true_and, Bool.and_eq_true, Bool.or_eq_true,
    Bool.not_eq_true', beq_iff_eq]
  refine ⟨?_, ?_⟩
  · rcases h2 with h2 | h2
    · left; simpa using h2
    · right; exact h2
  · rcases h3 with h3 | h3
    · left; exact h3
    · right; simp [h3]

/-- a non-swallowed attempt satisfies the last-exchange clause -/
theorem lastOk_attempt (T : Tables) (L : Ladder) (o : Exch ρ)
    (hc : ∀ c st, o = .exc c st → match attemptH T L c with
        | none => True
        | some (k, keep) => goodRaise T c k keep = true)
    (hn : attempt T L o ≠ .swallowed) (n : Nat) :
    lastOk T o (observe T (attempt T L o, n)).result = true := by
  cases o with
  | ok r => simp [attempt_ok, lastOk, observe]
  | exc c st =>
    have hcc := hc c st rfl
    rw [attempt_exc] at hn ⊢
    cases h : attemptH T L c with
    | none => simp [h] at hn
    | some p =>
      obtain ⟨k, keep⟩ := p
      simp only [h] at hcc
      exact lastOk_raise T c k keep st hcc

omit [DecidableEq ρ] in
theorem swallowed_connLevel (T : Tables) (o : Exch ρ) (hw : ∀ c st, o = .exc c st → c ∈ T.transport)
    (hg : retryGood T = true) (h : attempt T T.retry o = .swallowed) : connLevel T o = true := by
  cases o with
  | ok r => simp [attempt_ok] at h
  | exc c st =>
    rw [attempt_exc] at h
    have := (List.all_eq_true.mp hg) c (hw c st rfl)
    cases h2 : attemptH T T.retry c with
    | none => simpa [h2, connLevel, isConnCls] using this
    | some p => simp [h2] at h

/-- generalised loop statement: `pre` = the exchanges already consumed (all connection-level) -/
theorem sessionLoop_ok (T : Tables) (hr : retryGood T = true) (hf : finalGood T = true) :
    ∀ (k : Nat) (pre rest : List (Exch ρ)), WfScript T rest → k < rest.length →
      pre.length + k + 1 ≤ 3 → pre.all (connLevel T) = true →
      resultOk T true (pre ++ rest) (observe T (sessionLoop T k rest pre.length)) = true := by
  have fin : ∀ (L : Ladder) (pre : List (Exch ρ)) (o : Exch ρ) (rest : List (Exch ρ)),
      pre.length + 1 ≤ 3 → pre.all (connLevel T) = true →
      lastOk T o (observe T (attempt T L o, pre.length + 1)).result = true →
      resultOk T true (pre ++ o :: rest) (observe T (attempt T L o, pre.length + 1)) = true := by
    intro L pre o rest hl hp hlast
    simp only [resultOk, observe, maxAttempts, Nat.add_sub_cancel, List.take_left', hp,
      List.getElem?_append_right (Nat.le_refl _), Nat.sub_self, List.getElem?_cons_zero,
      Bool.and_eq_true, decide_eq_true_eq, if_true]
    simp only [observe] at hlast
    exact ⟨⟨⟨by simp, hl⟩, trivial⟩, hlast⟩
  intro k
  induction k with
  | zero =>
    intro pre rest hw hk hl hp
    match rest, hk with
    | o :: rest', _ =>
      simp only [sessionLoop]
      apply fin T.final pre o rest' (by omega) hp
      apply lastOk_attempt
      · intro c st ho
        have := (List.all_eq_true.mp hf) c (hw c st (by simp [ho]))
        cases h2 : attemptH T T.final c with
        | none => simp [h2] at this
        | some p => simpa [h2] using this
      · cases o with
        | ok r => simp [attempt_ok]
        | exc c st =>
          rw [attempt_exc]
          have := (List.all_eq_true.mp hf) c (hw c st (by simp))
          cases h2 : attemptH T T.final c with
          | none => simp [h2] at this
          | some p => simp
  | succ k ih =>
    intro pre rest hw hk hl hp
    match rest, hk with
    | o :: rest', hk' =>
      simp only [sessionLoop]
      cases hs : attempt T T.retry o with
      | swallowed =>
        have hconn := swallowed_connLevel T o (fun c st ho => hw c st (by simp [ho])) hr hs
        have := ih (pre ++ [o]) rest' (fun c st hm => hw c st (List.mem_cons_of_mem _ hm))
          (by simp at hk' ⊢; omega) (by simp; omega) (by simp [hp, hconn])
        simpa using this
      | ret r =>
        have hn : attempt T T.retry o ≠ .swallowed := by simp [hs]
        have h := fin T.retry pre o rest' (by omega) hp (by
          apply lastOk_attempt
          · intro c st ho
            have := (List.all_eq_true.mp hr) c (hw c st (by simp [ho]))
            cases h2 : attemptH T T.retry c with
            | none => trivial
            | some p => simpa [h2] using this
          · exact hn)
        simpa [hs] using h
      | raised c' st' =>
        have hn : attempt T T.retry o ≠ .swallowed := by simp [hs]
        have h := fin T.retry pre o rest' (by omega) hp (by
          apply lastOk_attempt
          · intro c st ho
            have := (List.all_eq_true.mp hr) c (hw c st (by simp [ho]))
            cases h2 : attemptH T T.retry c with
            | none => trivial
            | some p => simpa [h2] using this
          · exact hn)
        simpa [hs] using h

/-- **session requester**: for every well-formed script with enough outcomes the judge holds -/
theorem session_resultOk (T : Tables) (hr : retryGood T = true) (hf : finalGood T = true)
    (hn : T.retries + 1 ≤ 3) (outs : List (Exch ρ)) (hw : WfScript T outs) (hl : T.retries < outs.length) :
    resultOk T true outs (observe T (sessionRequest T outs)) = true := by
  have := sessionLoop_ok T hr hf T.retries [] outs hw hl (by simpa using hn) (by simp)
  simpa [sessionRequest] using this

/-- **plain requester** -/
theorem plain_resultOk (T : Tables) (hp : plainGood T = true)
    (outs : List (Exch ρ)) (hw : WfScript T outs) (hl : 0 < outs.length) :
    resultOk T false outs (observe T (request T false outs)) = true := by
  match outs, hl with
  | o :: rest, _ =>
    simp only [request, Bool.false_eq_true, if_false, resultOk, observe, maxAttempts, Nat.sub_self,
      List.take_zero, List.all_nil, List.getElem?_cons_zero, Bool.and_eq_true, decide_eq_true_eq]
    refine ⟨⟨⟨by omega, by omega⟩, trivial⟩, ?_⟩
    cases o with
    | ok r => simp [plainRequest, runLadder, lastOk]
    | exc c st =>
      have := (List.all_eq_true.mp hp) c (hw c st (by simp))
      simp only [plainRequest, runLadder]
      cases h2 : handle T T.plain c with
      | none => simp [h2] at this
      | some p =>
        obtain ⟨k, keep⟩ := p
        simp only [h2] at this
        exact lastOk_raise T c k keep st this

omit [DecidableEq ρ] in
/-- the number of attempts never exceeds `retries + 1`, whatever the script -/
theorem sessionLoop_attempts (T : Tables) (k : Nat) (rest : List (Exch ρ)) (n : Nat) :
    (sessionLoop T k rest n).2 ≤ n + k + 1 := by
  induction k generalizing rest n with
  | zero => cases rest <;> simp [sessionLoop]
  | succ k ih =>
    cases rest with
    | nil => simp [sessionLoop]; omega
    | cons o rest =>
      simp only [sessionLoop]
      cases h : attempt T T.retry o with
      | swallowed => have := ih rest (n + 1); simp only [] ; omega
      | ret r => simp only []; omega
      | raised c st => simp only []; omega

/-! ### traffic logging is observationally transparent when every logging statement is of the safe kind -/

theorem contains_of_all_safe (l : List LogStmt) (h : l.all (· == .safe) = true) :
    l.contains .decodeStrictBody = false := by
  induction l with
  | nil => rfl
  | cons a r ih =>
    simp only [List.all_cons, Bool.and_eq_true, beq_iff_eq] at h
    simp only [List.contains_cons, ih h.2, Bool.or_false, h.1]
    decide

omit [DecidableEq ρ] in
theorem withLog_safe (T : Tables) (blk : LogBlock) (log : Bool) (utf8 : ρ → Bool) (o : Exch ρ)
    (h : blk.post.all (· == .safe) = true) : withLog T blk log utf8 o = o := by
  cases o with
  | exc c st => rfl
  | ok r =>
    simp only [withLog, logFault, contains_of_all_safe _ h, Bool.false_and, Bool.false_eq_true, if_false]
    cases log <;> rfl

omit [DecidableEq ρ] in
theorem requestL_eq_request (T : Tables) (h : logSafe T = true) (session log : Bool) (utf8 : ρ → Bool)
    (outs : List (Exch ρ)) : requestL T session log utf8 outs = request T session outs := by
  unfold requestL
  have hall : ∀ blk : LogBlock, blk = T.logPlain ∨ blk = T.logInner → blk.post.all (· == .safe) = true := by
    intro blk hb
    simp only [logSafe, List.all_append, Bool.and_eq_true] at h
    rcases hb with rfl | rfl
    · exact h.1.1.2
    · exact h.2
  have : outs.map (withLog T (if session = true then T.logInner else T.logPlain) log utf8) = outs := by
    have hb := hall (if session = true then T.logInner else T.logPlain) (by cases session <;> simp)
    conv => rhs; rw [← List.map_id outs]
    apply List.map_congr_left
    intro o _
    exact withLog_safe T _ log utf8 o hb
  rw [this]

end Upnp.C17
