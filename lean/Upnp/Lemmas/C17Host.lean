/-
  C17 — helper lemmas for the Host-header theorem (`Props/C17.lean: host_zone_stripped`).
-/
import Upnp.Spec.C17
namespace Upnp.C17
open Upnp PyDict

theorem lookup_mem_snd {α β : Type} [BEq α] (l : List (α × β)) (a : α) (b : β) (h : l.lookup a = some b) :
    b ∈ l.map (·.2) := by
  induction l with
  | nil => simp [List.lookup] at h
  | cons p r ih =>
    obtain ⟨x, y⟩ := p
    simp only [List.lookup] at h
    split at h
    · simp only [Option.some.injEq] at h; simp [h]
    · simp [ih h]

theorem lowerChar_percent (c : Char) (h : lowerChar c = '%') : c = '%' := by
  unfold lowerChar at h
  cases hl : lowerTable.lookup c with
  | none => simpa [hl] using h
  | some x =>
    simp only [hl, Option.getD_some] at h
    subst h
    have := lookup_mem_snd _ _ _ hl
    exact absurd this (by decide)

theorem percent_not_mem_lowerStr (s : Str) (h : '%' ∉ s) : '%' ∉ lowerStr s := by
  intro hm
  simp only [lowerStr, List.mem_map] at hm
  obtain ⟨c, hc, he⟩ := hm
  exact h (lowerChar_percent c he ▸ hc)

theorem set_of_not_mem {κ ν : Type} [DecidableEq κ] (d : PyDict κ ν) (k : κ) (v : ν) (h : k ∉ keys d) :
    PyDict.set d k v = d ++ [(k, v)] := by
  induction d with
  | nil => rfl
  | cons p r ih =>
    obtain ⟨k', v'⟩ := p
    simp only [keys, List.map_cons, List.mem_cons, not_or] at h
    simp only [PyDict.set, if_neg (Ne.symm h.1), List.cons_append, List.cons.injEq, true_and]
    exact ih h.2

end Upnp.C17
