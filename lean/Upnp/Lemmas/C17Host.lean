/-
  C17 — helper lemmas for the Host-header theorem (`Props/C17.lean: host_zone_stripped`).
-/
import Upnp.Spec.C17
namespace Upnp.C17
open Upnp PyDict

theorem lookup_mem_snd {α β : Type} [BEq α] (l : List (α × β)) (a : α) (b : β) (h : l.lookup a = some b) :
    b ∈ l.map (·.2) := by
  induction l with
  | nil => simp [List.lookup] at h
  | cons p r ih =>
    obtain ⟨x, y⟩ := p
    simp only [List.lookup] at h
    split at h
    · simp only [Option.some.injEq] at h; simp [h]
    · simp [ih h]

theorem lowerChar_percent (c : Char) (h : lowerChar c = '%') : c = '%' := by
  unfold lowerChar at h
  cases hl : lowerTable.lookup c with
  | none => simpa [hl] using h
  | some x =>
    simp only [hl, Option.getD_some] at h
    subst h
    have := lookup_mem_snd _ _ _ hl
    exact absurd this (by decide)

theorem percent_not_mem_lowerStr (s : Str) (h : '%' ∉ s) : '%' ∉ lowerStr s := by
  intro hm
  simp only [lowerStr, List.mem_map] at hm
  obtain ⟨c, hc, he⟩ := hm
  exact h (lowerChar_percent c he ▸ hc)

theorem set_of_not_mem {κ ν : Type} [DecidableEq κ] (d : PyDict κ ν) (k : κ) (v : ν) (h : k ∉ keys d) :
    PyDict.set d k v = d ++ [(k, v)] := by
  induction d with
  | nil => rfl
  | cons p r ih =>
    obtain ⟨k', v'⟩ := p
    simp only [keys, List.map_cons, List.mem_cons, not_or] at h
    simp only [PyDict.set, if_neg (Ne.symm h.1), List.cons_append, List.cons.injEq, true_and]
    exact ih h.2


theorem dropWhile_append_all {α : Type} (p : α → Bool) (l r : List α) (h : ∀ a ∈ l, p a = true) :
    (l ++ r).dropWhile p = r.dropWhile p := by
  induction l with
  | nil => rfl
  | cons a l ih =>
    simp only [List.cons_append, List.dropWhile_cons, h a (by simp), if_true]
    exact ih (fun b hb => h b (by simp [hb]))

theorem cutLastPercent_spec (x y : Str) (hy : '%' ∉ y) : cutLastPercent (x ++ '%' :: y) = x := by
  unfold cutLastPercent
  rw [List.reverse_append, List.reverse_cons, List.append_assoc, dropWhile_append_all]
  · simp
  · intro a ha
    have : a ∈ y := by simpa using ha
    simp only [bne_iff_ne, ne_eq]
    intro heq; subst heq; exact hy this

theorem lowerChar_percent_self : lowerChar '%' = '%' := by decide

/-- a port as `urlparse(url).port` reports it unchanged: decimal digits, no leading zero (so not `0`, which is
    falsy for the code), at most 5 digits (≤ 65535 is not expressed; larger values make `urlparse` raise) -/
def portOk (p : Str) : Bool :=
  !p.isEmpty && p.all (fun c => "0123456789".toList.contains c) && p.head? != some '0' && p.length ≤ 5

/-- well-formed URL of the grammar: no `%` in host/address/zone, zone delimiter `%` or `%25` (any `%…` without
    a second `%`), an IPv6 address contains `:`, the port (if any) is `portOk` -/
def WfUrl (u : Url) : Prop :=
  (∀ p, u.port = some p → portOk p = true) ∧
  match u.host with
  | .plain h => '%' ∉ h
  | .ipv6 a => '%' ∉ a
  | .zoned a d z => '%' ∉ a ∧ ':' ∈ a ∧ '%' ∉ z ∧ ∃ d', d = '%' :: d' ∧ '%' ∉ d'

theorem contains_iff {s : Str} {c : Char} : s.contains c = true ↔ c ∈ s := by simp

/-- **text-level `_fixed_host_header` = grammar-level `fixedHost`**, given only that `urlparse` returns the
    lower-cased host (bracket content incl. zone) and the port: cutting at the LAST `%` removes exactly the
    zone delimiter and the zone. -/
theorem fixedHostText_eq (u : Url) (hw : WfUrl u) :
    fixedHostText u.render (some (urlparseHostname u)) (urlparsePort u) = fixedHost u := by
  unfold fixedHostText urlparseHostname urlparsePort fixedHost
  cases hh : u.host with
  | plain h =>
    simp only [WfUrl, hh] at hw
    replace hw := hw.2
    have : '%' ∉ lowerStr h := percent_not_mem_lowerStr h hw
    split
    · rfl
    · simp [this]
  | ipv6 a =>
    simp only [WfUrl, hh] at hw
    replace hw := hw.2
    have : '%' ∉ lowerStr a := percent_not_mem_lowerStr a hw
    split
    · rfl
    · simp [this]
  | zoned a d z =>
    simp only [WfUrl, hh] at hw
    obtain ⟨_, ha, _, hz, d', rfl, hd'⟩ := hw
    have hurl : (u.render).contains '%' = true := by
      simp [Url.render, Host.render, hh]
    have hlow : lowerStr a ++ '%' :: d' ++ z = lowerStr a ++ '%' :: (d' ++ z) := by simp
    have hy : '%' ∉ d' ++ z := by
      simp only [List.mem_append, not_or]
      exact ⟨hd', hz⟩
    simp only [hurl, Bool.not_true, Bool.false_eq_true, if_false, hlow]
    rw [cutLastPercent_spec _ _ hy]
    simp


theorem percent_not_mem_port (p : Str) (h : portOk p = true) : '%' ∉ p := by
  intro hm
  simp only [portOk, Bool.and_eq_true, List.all_eq_true] at h
  have := h.1.1.2 '%' hm
  revert this; decide

theorem lowerChar_colon (c : Char) (h : c = ':') : lowerChar c = ':' := by subst h; decide

theorem colon_mem_lowerStr (s : Str) (h : ':' ∈ s) : ':' ∈ lowerStr s := by
  simp only [lowerStr, List.mem_map]
  exact ⟨':', h, by decide⟩

end Upnp.C17
