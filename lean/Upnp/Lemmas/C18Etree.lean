/-
  C18 — `etree_to_dict`: the statement-by-statement transcription (with its asserts) never fails and
  equals the characterisation `etreeSpec`, for every element tree.
-/
import Upnp.Model.C18Etree
namespace Upnp.C18
open Upnp

mutual
theorem etreePy_eq : ∀ t : Elem, etreePy t = some (etreeSpec t)
  | .mk tag attrs text children => by
    have ih := etreePyList_eq children
    unfold etreePy etreeSpec
    rw [ih]
    simp only []
    cases children with
    | nil =>
      cases attrs with
      | nil =>
        simp only [List.isEmpty_nil, Bool.not_true, Bool.false_eq_true, if_false, Bool.or_self, Bool.and_self, if_true]
        cases htt : truthy text <;> simp
      | cons a as =>
        simp only [List.isEmpty_nil, List.isEmpty_cons, Bool.not_false, Bool.not_true, if_true, Bool.false_eq_true,
          if_false, Bool.or_true, Bool.and_false, etreeSpecList, List.foldl_nil]
        cases htt : truthy text with
        | false => simp [collapse]
        | true =>
          simp only [if_true, Bool.true_and]
          cases hs : (strip (text.getD [])).isEmpty <;> simp [collapse]
    | cons c cs =>
      simp only [List.isEmpty_cons, Bool.not_false, if_true, Bool.true_or, Bool.false_and, Bool.false_eq_true, if_false]
      cases attrs with
      | nil =>
        simp only [List.isEmpty_nil, Bool.not_true, Bool.false_eq_true, if_false, withAttrs, List.foldl_nil]
        cases htt : truthy text with
        | false => simp
        | true =>
          simp only [if_true, Bool.true_and]
          cases hs : (strip (text.getD [])).isEmpty <;> simp
      | cons a as =>
        simp only [List.isEmpty_cons, Bool.not_false, if_true]
        cases htt : truthy text with
        | false => simp
        | true =>
          simp only [if_true, Bool.true_and]
          cases hs : (strip (text.getD [])).isEmpty <;> simp
theorem etreePyList_eq : ∀ l : List Elem, etreePyList l = some (etreeSpecList l)
  | [] => by simp [etreePyList, etreeSpecList]
  | c :: rest => by
    have h1 := etreePy_eq c
    have h2 := etreePyList_eq rest
    simp [etreePyList, etreeSpecList, h1, h2]
end

end Upnp.C18
