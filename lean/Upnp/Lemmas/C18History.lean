/-
  C18 — assembly: every operation preserves the safety invariant and emits only events the
  monitor accepts; hence the monitor accepts every model trace.
-/
import Upnp.Lemmas.C18SafeStep
namespace Upnp.C18
open Upnp
namespace St

/-- the events of one operation pass the monitor's checks (checked against the monitor state `m` they
    are fed to), and the model's monitor part afterwards is the monitor's own update -/
def EvOk (m : Mon) (r : St × List Ev) : Prop :=
  (r.2 = [] ∧ r.1.mon = m) ∨ (∃ ev, r.2 = [ev] ∧ m.checkEv ev = true ∧ r.1.mon = m.applyEv ev)

theorem invS_lookupLoop (s : St) (t : Nat) (p : Pc) (h : InvS s) (hp : s.pcOf t = some p) (hpd : p ≠ .done) :
    InvS (s.lookupLoop t (s.locOf t)).1 ∧ EvOk s.mon (s.lookupLoop t (s.locOf t)) := by
  unfold lookupLoop
  cases hc : PyDict.get? s.cache (s.locOf t) with
  | none =>
    simp only []
    refine ⟨invS_install s t p h hp hpd hc, Or.inr ⟨.requested t (s.locOf t), rfl, ?_, rfl⟩⟩
    exact okRequest_of s t p h hp hpd hc
  | some ent =>
    cases ent with
    | marker e' =>
      simp only []
      exact ⟨invS_congr (s.setPc t (.waitEvt e')) _ rfl rfl rfl rfl (invS_wait s t p e' h hp hpd), Or.inl ⟨rfl, rfl⟩⟩
    | result v =>
      simp only []
      refine ⟨?_, Or.inr ⟨.returned t v, rfl, okReturn_of s t p v h hp hpd hc, rfl⟩⟩
      have := invS_end s t p (.returned v) (fun k => { k with pc := .done }) false h hp hpd (fun _ => rfl)
        (fun _ hx => hx) (by simp)
      exact invS_congr _ _ rfl rfl rfl rfl this

theorem mon_storeIfOurs (s : St) (loc : Loc) (e : Nat) (v : Out) : (s.storeIfOurs loc e v).mon = s.mon := by
  unfold storeIfOurs; split <;> rfl
theorem ts_storeIfOurs (s : St) (loc : Loc) (e : Nat) (v : Out) : (s.storeIfOurs loc e v).ts = s.ts := by
  unfold storeIfOurs; split <;> rfl

theorem invS_stepTask (s : St) (t : Nat) (k : TState) (h : InvS s) (hk : s.ts[t]? = some k)
    (hnb : s.blocked k = false) :
    InvS (s.stepTask t k).1 ∧ EvOk s.mon (s.stepTask t k) := by
  have hp : s.pcOf t = some k.pc := by simp [pcOf, hk]
  unfold stepTask
  by_cases hm : k.mustCancel = true
  · simp only [hm, if_true]
    cases hpc : k.pc with
    | done => exact ⟨h, Or.inl ⟨rfl, rfl⟩⟩
    | init =>
      simp only []
      refine ⟨?_, Or.inr ⟨_, rfl, okCancelled_of s t k h hk hm (by rw [hpc]; simp), rfl⟩⟩
      have := invS_end s t k.pc .cancelled (fun _ => { pc := .done, mustCancel := false }) false h hp
        (by rw [hpc]; simp) (fun _ => rfl) (by simp) (by simp)
      exact invS_congr _ _ rfl rfl rfl rfl this
    | waitEvt e0 =>
      simp only []
      refine ⟨?_, Or.inr ⟨_, rfl, okCancelled_of s t k h hk hm (by rw [hpc]; simp), rfl⟩⟩
      have := invS_end s t k.pc .cancelled (fun _ => { pc := .done, mustCancel := false }) false h hp
        (by rw [hpc]; simp) (fun _ => rfl) (by simp) (by simp)
      exact invS_congr _ _ rfl rfl rfl rfl this
    | waitDl d e =>
      simp only []
      refine ⟨?_, Or.inr ⟨_, rfl, okCancelled_of s t k h hk hm (by rw [hpc]; simp), ?_⟩⟩
      · by_cases hc : PyDict.get? s.cache (s.locOf t) = some (.marker e)
        · have := invS_end s t k.pc .cancelled (fun _ => { pc := .done, mustCancel := false }) true h hp
            (by rw [hpc]; simp) (fun _ => rfl) (by simp) (fun _ => ⟨rfl, d, e, hpc, hc⟩)
          refine invS_congr _ _ ?_ ?_ ?_ ?_ this
          · simp only [finish, emit, finallyBlock, eraseIfOurs, hc, if_true]; rfl
          · simp only [finish, emit, finallyBlock, eraseIfOurs, hc, if_true]; rfl
          · simp only [finish, emit, finallyBlock, eraseIfOurs, hc, if_true]; rfl
          · simp only [finish, emit, finallyBlock, eraseIfOurs, hc, if_true]; rfl
        · have := invS_end s t k.pc .cancelled (fun _ => { pc := .done, mustCancel := false }) false h hp
            (by rw [hpc]; simp) (fun _ => rfl) (by simp) (by simp)
          refine invS_congr _ _ ?_ ?_ ?_ ?_ this
          · simp only [finish, emit, finallyBlock, eraseIfOurs, hc, if_false]; rfl
          · simp only [finish, emit, finallyBlock, eraseIfOurs, hc, if_false]; rfl
          · simp only [finish, emit, finallyBlock, eraseIfOurs, hc, if_false]; rfl
          · simp only [finish, emit, finallyBlock, eraseIfOurs, hc, if_false]; rfl
      · simp only [finish, emit, finallyBlock, eraseIfOurs]
        split <;> rfl
  · simp only [hm]
    cases hpc : k.pc with
    | done => exact ⟨h, Or.inl ⟨rfl, rfl⟩⟩
    | init => exact invS_lookupLoop s t k.pc h hp (by rw [hpc]; simp)
    | waitEvt e0 => exact invS_lookupLoop s t k.pc h hp (by rw [hpc]; simp)
    | waitDl d e =>
      simp only []
      cases ho : (s.mon.dls[d]?).bind (·.outcome) with
      | none =>
        exfalso
        simp [blocked, hm, hpc, ho] at hnb
      | some v =>
        simp only []
        have hdl : ∃ dl : MDl, s.mon.dls[d]? = some dl ∧ dl.outcome = some v := by
          cases h1 : s.mon.dls[d]? with
          | none => simp [h1] at ho
          | some dl => exact ⟨dl, rfl, by simpa [h1] using ho⟩
        obtain ⟨dl, hd1, hd2⟩ := hdl
        have hp' : s.pcOf t = some (.waitDl d e) := by rw [hp, hpc]
        have h1 := invS_store s t d e v dl h hp' hd1 hd2
        have heq : (s.storeIfOurs (s.locOf t) e v).finallyBlock (s.locOf t) e
            = (s.storeIfOurs (s.locOf t) e v).setEvent e := by
          unfold finallyBlock; rw [eraseIfOurs_storeIfOurs]
        rw [heq]
        have h2 : InvS ((s.storeIfOurs (s.locOf t) e v).setEvent e) :=
          invS_congr (s.storeIfOurs (s.locOf t) e v) ((s.storeIfOurs (s.locOf t) e v).setEvent e) rfl rfl rfl rfl h1
        have hmon : ((s.storeIfOurs (s.locOf t) e v).setEvent e).mon = s.mon := mon_storeIfOurs _ _ _ _
        have hts : ((s.storeIfOurs (s.locOf t) e v).setEvent e).ts = s.ts := ts_storeIfOurs _ _ _ _
        have hlocg : ∀ s2 : St, s2.mon = s.mon → s2.locOf t = s.locOf t := by
          intro s2 h2m; unfold locOf; rw [h2m]
        have hloc : ((s.storeIfOurs (s.locOf t) e v).setEvent e).locOf t = s.locOf t := hlocg _ hmon
        have hp2 : ((s.storeIfOurs (s.locOf t) e v).setEvent e).pcOf t = some (.waitDl d e) := by
          simp only [pcOf, hts]; exact hp'
        have := invS_lookupLoop _ t _ h2 hp2 (by simp)
        rw [hloc, hmon] at this
        exact this

theorem invS_apply (s : St) (op : Op) (h : InvS s) :
    InvS (s.apply op).1 ∧ EvOk (s.mon.applyOp op) (s.apply op) := by
  cases op with
  | lookup loc => exact ⟨invS_lookup s loc h, Or.inl ⟨rfl, rfl⟩⟩
  | uncache loc => exact ⟨invS_uncache s loc h, Or.inl ⟨rfl, rfl⟩⟩
  | complete d v =>
    refine ⟨invS_complete s d v h, Or.inl ?_⟩
    simp only [apply]; split <;> first | exact ⟨rfl, rfl⟩ | simp
  | cancel t =>
    refine ⟨invS_cancel s t h, Or.inl ?_⟩
    simp only [apply]
    cases s.ts[t]? with
    | none => first | exact ⟨rfl, rfl⟩ | simp
    | some k =>
      simp only []
      split
      · first | exact ⟨rfl, rfl⟩ | simp
      · cases k.pc <;> simp only [] <;> (try split) <;> (try split) <;> first | exact ⟨rfl, rfl⟩ | simp
  | step =>
    show InvS s.stepHead.1 ∧ EvOk s.mon s.stepHead
    unfold stepHead
    cases hr : s.ready with
    | nil => exact ⟨h, Or.inl ⟨rfl, rfl⟩⟩
    | cons t rest =>
      simp only []
      cases hk : s.ts[t]? with
      | none => exact ⟨invS_congr s _ rfl rfl rfl rfl h, Or.inl ⟨rfl, rfl⟩⟩
      | some k =>
        simp only []
        cases hb : s.blocked k with
        | true => simp only [if_true]; exact ⟨h, Or.inl ⟨rfl, rfl⟩⟩
        | false =>
          simp only [Bool.false_eq_true, if_false]
          exact invS_stepTask ({ s with ready := rest } : St) t k (invS_congr s _ rfl rfl rfl rfl h) hk hb

end St

/-! ### the monitor accepts every model trace -/

theorem feedAll_append (m : Mon) (a b : List Item) :
    feedAll m (a ++ b) = (feedAll m a).bind fun m' => feedAll m' b := by
  induction a generalizing m with
  | nil => rfl
  | cons i rest ih =>
    simp only [List.cons_append, feedAll]
    cases feed m i with
    | none => rfl
    | some m' => exact ih m'

/-- from any state satisfying both invariants, the monitor — started in the state's own monitor
    part — accepts the whole trace -/
theorem feedAll_runFrom (ops : List Op) : ∀ (s : St), St.InvS s → St.InvL s →
    (feedAll s.mon (runFrom s ops)).isSome = true := by
  induction ops with
  | nil => intro s _ _; rfl
  | cons op rest ih =>
    intro s hS hL
    obtain ⟨hS', hev⟩ := St.invS_apply s op hS
    have hL' := St.invL_apply s op hL
    have hq := St.quiet_of_invL _ hL'
    have hrest := ih _ hS' hL'
    simp only [runFrom, List.cons_append, feedAll, feed]
    rcases hev with ⟨h1, h2⟩ | ⟨ev, h1, h2, h3⟩
    · simp only [h1, List.map_nil, List.nil_append, feedAll, feed, St.snap, hq, if_true]
      rw [← h2]; exact hrest
    · simp only [h1, List.map_cons, List.map_nil, List.cons_append, List.nil_append, feedAll, feed, h2, if_true,
        St.snap, hq]
      rw [← h3]; exact hrest

end Upnp.C18
