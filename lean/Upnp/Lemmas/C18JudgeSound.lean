/-
  C18 — soundness of the run-time judge for the quiet case (no cancellation, no uncache): whatever
  trace the monitor accepts — a model trace or an IMPLEMENTATION trace — contains at most one request
  per location, and all lookups of one location that returned, returned the same value.
  Pure reasoning about `Spec/C18.lean`.
-/
import Upnp.Spec.C18
namespace Upnp.C18

def Item.isQuiet : Item → Bool
  | .op (.cancel _) => false
  | .op (.uncache _) => false
  | _ => true

/-- number of requests for `loc` in a trace -/
def reqCount (loc : Loc) (items : List Item) : Nat :=
  (items.filter fun i => match i with | .ev (.requested _ l) => l == loc | _ => false).length

def dlCount (m : Mon) (loc : Loc) : Nat := (m.dls.filter fun d => d.loc == loc).length

/-- monitor states reachable without cancel / uncache -/
structure Q (m : Mon) : Prop where
  noCancel : ∀ k ∈ m.tasks, k.cancelReq = false ∧ k.status ≠ .cancelled
  noUncache : m.uncaches = []
  epochs : ∀ d ∈ m.dls, d.epoch = 0 ∧ d.minEpoch = 0
  one : ∀ loc, dlCount m loc ≤ 1
  ret : ∀ k ∈ m.tasks, ∀ v, k.status = .returned v → ∃ d ∈ m.dls, d.loc = k.loc ∧ d.outcome = some v

theorem filter_modify_length {α : Type} (p : α → Bool) (f : α → α) (hf : ∀ x, p (f x) = p x) :
    ∀ (l : List α) (i : Nat), ((l.modify i f).filter p).length = (l.filter p).length
  | [], _ => by simp
  | a :: l, 0 => by
    simp only [List.modify_zero_cons, List.filter_cons, hf]
    split <;> simp
  | a :: l, i + 1 => by
    simp only [List.modify_succ_cons, List.filter_cons]
    have := filter_modify_length p f hf l i
    split <;> simp [this]

theorem mem_modify {α : Type} (f : α → α) : ∀ (l : List α) (i : Nat) (a : α), a ∈ l →
    a ∈ l.modify i f ∨ f a ∈ l.modify i f
  | [], _, a, h => by simp at h
  | b :: l, 0, a, h => by
    simp only [List.mem_cons] at h
    rcases h with rfl | h
    · right; simp
    · left; simp [h]
  | b :: l, i + 1, a, h => by
    simp only [List.mem_cons] at h
    simp only [List.modify_succ_cons, List.mem_cons]
    rcases h with rfl | h
    · left; left; rfl
    · rcases mem_modify f l i a h with h' | h'
      · left; right; exact h'
      · right; right; exact h'

theorem mem_of_mem_modify {α : Type} (f : α → α) : ∀ (l : List α) (i : Nat) (a : α), a ∈ l.modify i f →
    a ∈ l ∨ ∃ b, l[i]? = some b ∧ a = f b
  | [], _, a, h => by simp at h
  | b :: l, 0, a, h => by
    simp only [List.modify_zero_cons, List.mem_cons] at h
    rcases h with rfl | h
    · right; exact ⟨b, by simp, rfl⟩
    · left; simp [h]
  | b :: l, i + 1, a, h => by
    simp only [List.modify_succ_cons, List.mem_cons] at h
    rcases h with rfl | h
    · left; simp
    · rcases mem_of_mem_modify f l i a h with h' | ⟨c, hc, rfl⟩
      · left; simp [h']
      · right; exact ⟨c, by simpa using hc, rfl⟩

theorem eq_of_filter_le_one {α : Type} (p : α → Bool) (l : List α) (h : (l.filter p).length ≤ 1)
    (a b : α) (ha : a ∈ l) (hb : b ∈ l) (pa : p a = true) (pb : p b = true) : a = b := by
  have ha' : a ∈ l.filter p := List.mem_filter.mpr ⟨ha, pa⟩
  have hb' : b ∈ l.filter p := List.mem_filter.mpr ⟨hb, pb⟩
  match hl : l.filter p, h with
  | [], _ => rw [hl] at ha'; simp at ha'
  | [x], _ =>
    rw [hl] at ha' hb'
    simp only [List.mem_singleton] at ha' hb'
    rw [ha', hb']
  | _ :: _ :: _, h => simp at h

theorem foldl_min_zero {α : Type} (g : α → Nat) : ∀ l : List α, l.foldl (fun a k => min a (g k)) 0 = 0
  | [] => rfl
  | x :: l => by simp [List.foldl_cons, foldl_min_zero g l]

theorem q_init : Q {} := by
  constructor <;> simp [dlCount]

/-- one accepted quiet item keeps `Q`, and the number of downloads per location grows exactly by the
    requests in the item -/
theorem q_feed (m m' : Mon) (i : Item) (hq : Q m) (hi : i.isQuiet = true) (h : feed m i = some m') :
    Q m' ∧ ∀ loc, dlCount m' loc = dlCount m loc + reqCount loc [i] := by
  cases i with
  | snap r o p =>
    simp only [feed] at h
    split at h
    · cases h; exact ⟨hq, fun loc => by simp [reqCount]⟩
    · cases h
  | op o =>
    simp only [feed, Option.some.injEq] at h
    subst h
    cases o with
    | cancel t => simp [Item.isQuiet] at hi
    | uncache l => simp [Item.isQuiet] at hi
    | step => exact ⟨hq, fun loc => by simp [reqCount, Mon.applyOp]⟩
    | lookup l =>
      refine ⟨⟨?_, hq.noUncache, hq.epochs, hq.one, ?_⟩, fun loc => by simp [reqCount, Mon.applyOp, dlCount]⟩
      · intro k hk
        simp only [Mon.applyOp, List.mem_append, List.mem_singleton] at hk
        rcases hk with hk | rfl
        · exact hq.noCancel k hk
        · simp
      · intro k hk v hv
        simp only [Mon.applyOp, List.mem_append, List.mem_singleton] at hk
        rcases hk with hk | rfl
        · exact hq.ret k hk v hv
        · simp at hv
    | complete d v =>
      have hlen : ∀ loc, dlCount (m.applyOp (.complete d v)) loc = dlCount m loc := by
        intro loc
        simp only [dlCount, Mon.applyOp]
        apply filter_modify_length
        intro x; split <;> rfl
      refine ⟨⟨hq.noCancel, hq.noUncache, ?_, fun loc => by rw [hlen]; exact hq.one loc, ?_⟩,
        fun loc => by rw [hlen]; simp [reqCount]⟩
      · intro x hx
        simp only [Mon.applyOp] at hx
        rcases mem_of_mem_modify _ _ _ _ hx with h1 | ⟨b, hb, rfl⟩
        · exact hq.epochs x h1
        · have := hq.epochs b (List.mem_of_getElem? hb)
          split <;> exact this
      intro k hk w hw
      obtain ⟨x, hx, hl, ho⟩ := hq.ret k hk w hw
      simp only [Mon.applyOp]
      rcases mem_modify (fun k : MDl => if k.outcome.isNone then { k with outcome := some v } else k) m.dls d x hx with h1 | h1
      · exact ⟨x, h1, hl, ho⟩
      · refine ⟨_, h1, ?_, ?_⟩ <;> simp [ho, hl]
  | ev e =>
    simp only [feed] at h
    split at h
    · rename_i hc
      cases h
      cases e with
      | raised t => simp [Mon.checkEv] at hc
      | cancelled t =>
        exfalso
        simp only [Mon.checkEv, Mon.okCancelled] at hc
        cases hk : m.tasks[t]? with
        | none => simp [hk] at hc
        | some k =>
          have := (hq.noCancel k (List.mem_of_getElem? hk)).1
          simp [hk, this] at hc
      | returned t v =>
        have hd : (m.applyEv (.returned t v)).dls = m.dls := rfl
        simp only [Mon.checkEv, Mon.okReturn] at hc
        cases hk : m.tasks[t]? with
        | none => simp [hk] at hc
        | some k0 =>
          simp only [hk, Bool.and_eq_true, List.any_eq_true, List.mem_range] at hc
          obtain ⟨_, i, hi', hc2⟩ := hc
          cases hdi : m.dls[i]? with
          | none => simp [hdi] at hc2
          | some d0 =>
            simp only [hdi, Bool.and_eq_true, beq_iff_eq] at hc2
            have hd0 : d0 ∈ m.dls := List.mem_of_getElem? hdi
            refine ⟨⟨?_, hq.noUncache, hq.epochs, hq.one, ?_⟩, fun loc => by simp [reqCount, dlCount, hd]⟩
            · intro k hk'
              simp only [Mon.applyEv, Mon.setStatus] at hk'
              rcases mem_of_mem_modify _ _ _ _ hk' with h1 | ⟨b, hb, rfl⟩
              · exact hq.noCancel k h1
              · exact ⟨(hq.noCancel b (List.mem_of_getElem? hb)).1, by simp⟩
            · intro k hk' w hw
              simp only [Mon.applyEv, Mon.setStatus] at hk'
              rw [hd]
              rcases mem_of_mem_modify _ _ _ _ hk' with h1 | ⟨b, hb, rfl⟩
              · exact hq.ret k h1 w hw
              · simp only [Status.returned.injEq] at hw
                subst hw
                rw [hk] at hb; cases hb
                exact ⟨d0, hd0, hc2.1.1, hc2.1.2⟩
      | requested t loc =>
        simp only [Mon.checkEv, Mon.okRequest, Bool.and_eq_true, List.all_eq_true] at hc
        have hep : m.epochOf loc = 0 := by simp [Mon.epochOf, hq.noUncache]
        have hmin : m.minEpochOf loc = 0 := by
          unfold Mon.minEpochOf; rw [hep]; exact foldl_min_zero _ _
        have hnone : ∀ d ∈ m.dls, (d.loc == loc) = false := by
          intro d hd
          cases hl : d.loc == loc with
          | false => rfl
          | true =>
            exfalso
            have h1 := hc.2 d hd
            have he := hq.epochs d hd
            simp only [hl, he.1, he.2, hep, beq_self_eq_true, Bool.and_self, Bool.not_true, Bool.false_or,
              beq_iff_eq, Mon.statusOf] at h1
            cases hk : m.tasks[d.owner]? with
            | none => simp [hk] at h1
            | some k =>
              simp only [hk, Option.map_some, Option.some.injEq] at h1
              exact (hq.noCancel k (List.mem_of_getElem? hk)).2 h1
        have hz : dlCount m loc = 0 := by
          simp only [dlCount, List.length_eq_zero_iff, List.filter_eq_nil_iff]
          intro d hd; simp [hnone d hd]
        have hcount : ∀ l, dlCount (m.applyEv (.requested t loc)) l = dlCount m l + reqCount l [Item.ev (.requested t loc)] := by
          intro l
          simp only [dlCount, Mon.applyEv, List.filter_append, List.length_append, reqCount, List.filter_cons,
            List.filter_nil]
          by_cases hl : loc = l <;> simp [hl]
        refine ⟨⟨hq.noCancel, hq.noUncache, ?_, ?_, ?_⟩, hcount⟩
        · intro d hd
          simp only [Mon.applyEv, List.mem_append, List.mem_singleton] at hd
          rcases hd with hd | rfl
          · exact hq.epochs d hd
          · exact ⟨hep, hmin⟩
        · intro l
          rw [hcount]
          by_cases hl : loc = l
          · subst hl; rw [hz]; simp [reqCount]
          · have := hq.one l
            simp only [reqCount, List.filter_cons, List.filter_nil]
            simp [hl]; exact this
        · intro k hk v hv
          obtain ⟨d, hd, h1, h2⟩ := hq.ret k hk v hv
          exact ⟨d, by simp [Mon.applyEv, hd], h1, h2⟩
    · cases h

theorem reqCount_cons (loc : Loc) (i : Item) (rest : List Item) :
    reqCount loc (i :: rest) = reqCount loc [i] + reqCount loc rest := by
  show reqCount loc ([i] ++ rest) = _
  simp only [reqCount, List.filter_append, List.length_append]

theorem q_feedAll : ∀ (items : List Item) (m m' : Mon), Q m → (∀ i ∈ items, i.isQuiet = true) →
    feedAll m items = some m' → Q m' ∧ ∀ loc, dlCount m' loc = dlCount m loc + reqCount loc items
  | [], m, m', hq, _, h => by
    simp only [feedAll, Option.some.injEq] at h; subst h
    exact ⟨hq, fun loc => by simp [reqCount]⟩
  | i :: rest, m, m', hq, hall, h => by
    simp only [feedAll] at h
    cases hf : feed m i with
    | none => simp [hf] at h
    | some m1 =>
      simp only [hf] at h
      obtain ⟨hq1, hc1⟩ := q_feed m m1 i hq (hall i (by simp)) hf
      obtain ⟨hq2, hc2⟩ := q_feedAll rest m1 m' hq1 (fun j hj => hall j (by simp [hj])) h
      refine ⟨hq2, fun loc => ?_⟩
      rw [hc2, hc1]; have := reqCount_cons loc i rest; omega

/-- **Judge soundness, quiet case.**  For ANY trace the judge accepts (model or implementation) that contains no
    cancellation and no uncache: at most one request per location reaches the requester — no matter how many
    lookups overlap or come later, and whether the download succeeded or failed — and all lookups of one location
    that returned, returned the same value, which is the released outcome of that single download. -/
theorem judge_single_download (items : List Item) (h : judge items = true) (hq : ∀ i ∈ items, i.isQuiet = true) :
    ∃ m, feedAll {} items = some m
      ∧ (∀ loc, reqCount loc items ≤ 1)
      ∧ (∀ k1 ∈ m.tasks, ∀ k2 ∈ m.tasks, ∀ v1 v2, k1.loc = k2.loc → k1.status = .returned v1 →
          k2.status = .returned v2 → v1 = v2)
      ∧ (∀ k ∈ m.tasks, ∀ v, k.status = .returned v → ∃ d ∈ m.dls, d.loc = k.loc ∧ d.outcome = some v) := by
  unfold judge at h
  cases hm : feedAll {} items with
  | none => simp [hm] at h
  | some m =>
    obtain ⟨q, hc⟩ := q_feedAll items {} m q_init hq hm
    refine ⟨m, rfl, ?_, ?_, q.ret⟩
    · intro loc
      have := hc loc
      have h1 := q.one loc
      simp only [dlCount, List.filter_nil, List.length_nil, Nat.zero_add] at this
      simp only [dlCount] at h1
      omega
    · intro k1 hk1 k2 hk2 v1 v2 hl h1 h2
      obtain ⟨d1, hd1, l1, o1⟩ := q.ret k1 hk1 v1 h1
      obtain ⟨d2, hd2, l2, o2⟩ := q.ret k2 hk2 v2 h2
      have := eq_of_filter_le_one (fun d : MDl => d.loc == k1.loc) m.dls (q.one k1.loc) d1 d2 hd1 hd2
        (by simp [l1]) (by simp [l2, hl])
      subst this
      rw [o1] at o2; cases o2; rfl

end Upnp.C18
