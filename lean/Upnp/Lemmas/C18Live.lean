/-
  C18 — liveness invariant of the cache model: an unfinished lookup is runnable, or waits for an
  outstanding download, or waits on an event whose owner is alive (and will set it).
-/
import Upnp.Model.C18Cache
import Upnp.Lemmas.PyDict
namespace Upnp.C18
open Upnp

namespace St

def pcOf (s : St) (t : Nat) : Option Pc := (s.ts[t]?).map (·.pc)

/-- liveness invariant -/
structure InvL (s : St) : Prop where
  lInit : ∀ t, s.pcOf t = some .init → t ∈ s.ready
  lDl : ∀ t d e, s.pcOf t = some (.waitDl d e) → t ∈ s.ready ∨ s.outstanding d = true
  lEvt : ∀ t e, s.pcOf t = some (.waitEvt e) →
    t ∈ s.ready ∨ ((e, t) ∈ s.waiters ∧ ∃ t' d', s.pcOf t' = some (.waitDl d' e))
  mark : ∀ loc e, PyDict.get? s.cache loc = some (.marker e) →
    ∃ t d, s.pcOf t = some (.waitDl d e) ∧ s.locOf t = loc
  own : ∀ t d e, s.pcOf t = some (.waitDl d e) → ∃ dl, s.mon.dls[d]? = some dl ∧ dl.owner = t
  dcl : ∀ d ∈ s.dlCancelled, d < s.mon.dls.length
  len : s.ts.length = s.mon.tasks.length
  nodup : (PyDict.keys s.cache).Nodup

theorem invL_init : InvL {} := by
  constructor <;> simp [pcOf, PyDict.get?, PyDict.keys]


theorem pcOf_lt (s : St) (t : Nat) (p : Pc) (h : s.pcOf t = some p) : t < s.ts.length := by
  unfold pcOf at h
  cases h2 : s.ts[t]? with
  | none => simp [h2] at h
  | some k => exact (List.getElem?_eq_some_iff.mp h2).1

theorem outstanding_lt (s : St) (d : Nat) (h : s.outstanding d = true) : d < s.mon.dls.length := by
  unfold outstanding at h
  cases h2 : s.mon.dls[d]? with
  | none => simp [h2] at h
  | some k => exact (List.getElem?_eq_some_iff.mp h2).1

theorem invL_lookup (s : St) (loc : Loc) (h : InvL s) : InvL (s.apply (.lookup loc)).1 := by
  have hpc : ∀ t, (s.apply (.lookup loc)).1.pcOf t = if t = s.ts.length then some .init else s.pcOf t := by
    intro t
    simp only [apply, pcOf, List.getElem?_append]
    by_cases h1 : t < s.ts.length
    · simp [h1, Nat.ne_of_lt h1]
    · by_cases h2 : t = s.ts.length
      · simp [h2]
      · have : s.ts[t]? = none := List.getElem?_eq_none (by omega)
        simp [h1, h2, this]; omega
  have hloc : ∀ t, t < s.ts.length → (s.apply (.lookup loc)).1.locOf t = s.locOf t := by
    intro t ht
    simp only [apply, locOf, Mon.applyOp]
    rw [List.getElem?_append_left (by rw [← h.len]; exact ht)]
  have hout : ∀ d, (s.apply (.lookup loc)).1.outstanding d = s.outstanding d := by
    intro d; simp [apply, outstanding, Mon.applyOp]
  constructor
  · intro t ht
    rw [hpc] at ht
    simp only [apply, List.mem_append, List.mem_singleton]
    split at ht
    · right; assumption
    · left; exact h.lInit t ht
  · intro t d e ht
    rw [hpc] at ht
    split at ht
    · simp at ht
    · rw [hout]
      rcases h.lDl t d e ht with h1 | h1
      · left; simp [apply, h1]
      · right; exact h1
  · intro t e ht
    rw [hpc] at ht
    split at ht
    · simp at ht
    · rcases h.lEvt t e ht with h1 | ⟨h1, t', d', h2⟩
      · left; simp [apply, h1]
      · right
        refine ⟨by simpa [apply] using h1, t', d', ?_⟩
        rw [hpc]
        have := pcOf_lt s t' _ h2
        simp [Nat.ne_of_lt this, h2]
  · intro l e hc
    have hc' : PyDict.get? s.cache l = some (.marker e) := by simpa [apply] using hc
    obtain ⟨t, d, h1, h2⟩ := h.mark l e hc'
    have := pcOf_lt s t _ h1
    exact ⟨t, d, by rw [hpc]; simp [Nat.ne_of_lt this, h1], by rw [hloc t this]; exact h2⟩
  · intro t d e ht
    rw [hpc] at ht
    split at ht
    · simp at ht
    · simpa [apply, Mon.applyOp] using h.own t d e ht
  · intro d hd
    have : d ∈ s.dlCancelled := by simpa [apply] using hd
    simpa [apply, Mon.applyOp] using h.dcl d this
  · simp [apply, Mon.applyOp, h.len]
  · simpa [apply] using h.nodup


theorem invL_uncache (s : St) (loc : Loc) (h : InvL s) : InvL (s.apply (.uncache loc)).1 := by
  have hpc : ∀ t, (s.apply (.uncache loc)).1.pcOf t = s.pcOf t := fun t => rfl
  have hloc : ∀ t, (s.apply (.uncache loc)).1.locOf t = s.locOf t := fun t => rfl
  have hout : ∀ d, (s.apply (.uncache loc)).1.outstanding d = s.outstanding d := fun d => rfl
  constructor
  · exact h.lInit
  · exact h.lDl
  · exact h.lEvt
  · intro l e hc
    simp only [apply] at hc
    by_cases hl : loc = l
    · subst hl
      rw [PyDict.get?_erase_self _ _ h.nodup] at hc
      simp at hc
    · rw [PyDict.get?_erase_ne _ _ _ hl] at hc
      exact h.mark l e hc
  · exact h.own
  · exact h.dcl
  · exact h.len
  · exact PyDict.nodup_keys_erase _ _ h.nodup


theorem dls_complete (m : Mon) (d : Nat) (v : Out) (i : Nat) :
    (m.applyOp (.complete d v)).dls[i]? =
      (m.dls[i]?).map fun k => if d = i then (if k.outcome.isNone then { k with outcome := some v } else k) else k := by
  simp only [Mon.applyOp, List.getElem?_modify]
  rfl

theorem outstanding_complete (s : St) (d : Nat) (v : Out) (d' : Nat) :
    ({ s with mon := s.mon.applyOp (.complete d v) } : St).outstanding d' = (s.outstanding d' && d' != d) := by
  simp only [outstanding, dls_complete]
  cases h : s.mon.dls[d']? with
  | none => simp
  | some k =>
    by_cases hd : d = d'
    · subst hd
      cases ho : k.outcome <;> simp [ho]
    · have : (d' != d) = true := by simp [Ne.symm hd]
      simp [hd, this]

theorem invL_complete (s : St) (d : Nat) (v : Out) (h : InvL s) : InvL (s.apply (.complete d v)).1 := by
  have hr : ∀ t, t ∈ s.ready → t ∈ (s.apply (.complete d v)).1.ready := by
    intro t ht; simp only [apply]; split <;> simp [ht]
  have hpc : ∀ t, (s.apply (.complete d v)).1.pcOf t = s.pcOf t := by
    intro t; simp only [apply]; split <;> rfl
  have hloc : ∀ t, (s.apply (.complete d v)).1.locOf t = s.locOf t := by
    intro t; simp only [apply]; split <;> rfl
  have hout : ∀ d', (s.apply (.complete d v)).1.outstanding d' = (s.outstanding d' && d' != d) := by
    intro d'; simp only [apply]; split <;> exact outstanding_complete s d v d'
  have hw : (s.apply (.complete d v)).1.waiters = s.waiters := by
    simp only [apply]; split <;> rfl
  have hc : (s.apply (.complete d v)).1.cache = s.cache := by
    simp only [apply]; split <;> rfl
  constructor
  · intro t ht; rw [hpc] at ht; exact hr t (h.lInit t ht)
  · intro t d' e ht
    rw [hpc] at ht
    rcases h.lDl t d' e ht with h1 | h1
    · left; exact hr t h1
    · by_cases hd : d' = d
      · subst hd
        left
        obtain ⟨dl, hdl, hown⟩ := h.own t d' e ht
        simp only [apply, h1, if_true, dls_complete, hdl, Option.map_some, List.mem_append, List.mem_singleton]
        right
        split <;> simp [hown]
      · right; rw [hout, h1]; simp [hd]
  · intro t e ht
    rw [hpc] at ht
    rcases h.lEvt t e ht with h1 | ⟨h1, t', d', h2⟩
    · left; exact hr t h1
    · right; exact ⟨by rw [hw]; exact h1, t', d', by rw [hpc]; exact h2⟩
  · intro l e hcc
    rw [hc] at hcc
    obtain ⟨t, d', h1, h2⟩ := h.mark l e hcc
    exact ⟨t, d', by rw [hpc]; exact h1, by rw [hloc]; exact h2⟩
  · intro t d' e ht
    rw [hpc] at ht
    obtain ⟨dl, hdl, hown⟩ := h.own t d' e ht
    have : (s.apply (.complete d v)).1.mon = s.mon.applyOp (.complete d v) := by
      simp only [apply]; split <;> rfl
    rw [this, dls_complete, hdl]
    simp only [Option.map_some]
    refine ⟨_, rfl, ?_⟩
    split
    · split <;> simp [hown]
    · exact hown
  · intro d' hd'
    have h1 : (s.apply (.complete d v)).1.dlCancelled = s.dlCancelled := by
      simp only [apply]; split <;> rfl
    have h2 : (s.apply (.complete d v)).1.mon.dls.length = s.mon.dls.length := by
      simp only [apply]; split <;> simp [Mon.applyOp]
    rw [h1] at hd'; rw [h2]; exact h.dcl d' hd'
  · have : (s.apply (.complete d v)).1.ts = s.ts ∧ (s.apply (.complete d v)).1.mon.tasks = s.mon.tasks := by
      simp only [apply]; split <;> exact ⟨rfl, rfl⟩
    rw [this.1, this.2]; exact h.len
  · rw [hc]; exact h.nodup


/-- frame lemma: program counters, locations and cache unchanged; nothing runnable is lost -/
theorem invL_frame (s s' : St) (h : InvL s)
    (hpc : ∀ t, s'.pcOf t = s.pcOf t) (hloc : ∀ t, s'.locOf t = s.locOf t) (hcache : s'.cache = s.cache)
    (hdls : ∀ (d t : Nat), (∃ dl : MDl, s.mon.dls[d]? = some dl ∧ dl.owner = t) → ∃ dl : MDl, s'.mon.dls[d]? = some dl ∧ dl.owner = t)
    (hlen : s'.mon.dls.length = s.mon.dls.length) (htl : s'.mon.tasks.length = s.mon.tasks.length)
    (hts : s'.ts.length = s.ts.length)
    (hdcl : ∀ d ∈ s'.dlCancelled, d ∈ s.dlCancelled ∨ d < s.mon.dls.length)
    (hlive : ∀ t, t ∈ s.ready → t ∈ s'.ready)
    (hDl : ∀ t d e, s.pcOf t = some (.waitDl d e) → s.outstanding d = true → t ∈ s'.ready ∨ s'.outstanding d = true)
    (hEvt : ∀ t e, s.pcOf t = some (.waitEvt e) → (e, t) ∈ s.waiters → t ∈ s'.ready ∨ (e, t) ∈ s'.waiters) :
    InvL s' := by
  constructor
  · intro t ht; rw [hpc] at ht; exact hlive t (h.lInit t ht)
  · intro t d e ht
    rw [hpc] at ht
    rcases h.lDl t d e ht with h1 | h1
    · left; exact hlive t h1
    · exact hDl t d e ht h1
  · intro t e ht
    rw [hpc] at ht
    rcases h.lEvt t e ht with h1 | ⟨h1, t', d', h2⟩
    · left; exact hlive t h1
    · rcases hEvt t e ht h1 with h3 | h3
      · left; exact h3
      · right; exact ⟨h3, t', d', by rw [hpc]; exact h2⟩
  · intro l e hc
    rw [hcache] at hc
    obtain ⟨t, d', h1, h2⟩ := h.mark l e hc
    exact ⟨t, d', by rw [hpc]; exact h1, by rw [hloc]; exact h2⟩
  · intro t d e ht
    rw [hpc] at ht
    exact hdls d t (h.own t d e ht)
  · intro d hd
    rw [hlen]
    rcases hdcl d hd with h1 | h1
    · exact h.dcl d h1
    · exact h1
  · rw [hts, htl]; exact h.len
  · rw [hcache]; exact h.nodup

theorem pcOf_modify_mc (ts : List TState) (t t' : Nat) :
    ((ts.modify t fun k => { k with mustCancel := true })[t']?).map (·.pc) = (ts[t']?).map (·.pc) := by
  rw [List.getElem?_modify]
  cases ts[t']? with
  | none => rfl
  | some k => by_cases h : t = t' <;> simp [h]

theorem tasks_cancel_loc (m : Mon) (t t' : Nat) :
    ((m.applyOp (.cancel t)).tasks[t']?).map (·.loc) = (m.tasks[t']?).map (·.loc) := by
  simp only [Mon.applyOp, List.getElem?_modify]
  cases m.tasks[t']? with
  | none => rfl
  | some k => by_cases h : t = t' <;> simp [h]

theorem invL_cancel (s : St) (t : Nat) (h : InvL s) : InvL (s.apply (.cancel t)).1 := by
  have base : InvL ({ s with mon := s.mon.applyOp (.cancel t) } : St) := by
    apply invL_frame s ({ s with mon := s.mon.applyOp (.cancel t) } : St) h (fun _ => rfl) _ rfl (fun _ _ hx => hx) rfl (by simp [Mon.applyOp]) rfl
      (fun d hd => Or.inl hd) (fun _ hx => hx) (fun _ _ _ _ hx => Or.inr hx) (fun _ _ _ hx => Or.inr hx)
    intro t'
    simp only [locOf, tasks_cancel_loc]
  simp only [apply]
  cases hk : s.ts[t]? with
  | none => simpa [hk] using base
  | some k =>
    simp only []
    by_cases hdone : k.pc = .done
    · simpa [hdone] using base
    · simp only [hdone, if_false]
      have hpct : s.pcOf t = some k.pc := by simp [pcOf, hk]
      -- the common part: mustCancel set, t made runnable
      generalize hs3 : (if ({ s with mon := s.mon.applyOp (.cancel t),
                                     ts := s.ts.modify t fun k => { k with mustCancel := true } } : St).ready.contains t = true
          then ({ s with mon := s.mon.applyOp (.cancel t), ts := s.ts.modify t fun k => { k with mustCancel := true } } : St)
          else { s with mon := s.mon.applyOp (.cancel t), ts := s.ts.modify t fun k => { k with mustCancel := true },
                        ready := s.ready ++ [t] }) = s3
      have h3pc : ∀ t', s3.pcOf t' = s.pcOf t' := by
        intro t'; subst hs3; split <;> simp only [pcOf, pcOf_modify_mc]
      have h3loc : ∀ t', s3.locOf t' = s.locOf t' := by
        intro t'; subst hs3; split <;> simp only [locOf, tasks_cancel_loc]
      have h3r : ∀ t', t' ∈ s.ready → t' ∈ s3.ready := by
        intro t' ht'; subst hs3; split <;> simp [ht']
      have h3t : t ∈ s3.ready := by
        subst hs3; split
        · rename_i hc; simpa using hc
        · simp
      have h3c : s3.cache = s.cache := by subst hs3; split <;> rfl
      have h3w : s3.waiters = s.waiters := by subst hs3; split <;> rfl
      have h3d : s3.mon.dls = s.mon.dls := by subst hs3; split <;> rfl
      have h3dc : s3.dlCancelled = s.dlCancelled := by subst hs3; split <;> rfl
      have h3o : ∀ d, s3.outstanding d = s.outstanding d := by
        intro d; simp only [outstanding, h3d, h3dc]
      have h3tl : s3.mon.tasks.length = s.mon.tasks.length := by
        subst hs3; split <;> simp [Mon.applyOp]
      have h3ts : s3.ts.length = s.ts.length := by subst hs3; split <;> simp
      cases hpc : k.pc with
      | done => exact absurd hpc hdone
      | init =>
        simp only []
        exact invL_frame s s3 h h3pc h3loc h3c (by rw [h3d]; exact fun _ _ hx => hx) (by rw [h3d]) h3tl h3ts
          (by rw [h3dc]; exact fun d hd => Or.inl hd) h3r (fun _ d _ _ hx => Or.inr (by rw [h3o]; exact hx))
          (fun _ _ _ hx => Or.inr (by rw [h3w]; exact hx))
      | waitEvt e =>
        simp only []
        apply invL_frame s ({ s3 with waiters := s3.waiters.filter (· != (e, t)) } : St) h h3pc h3loc h3c
          (by show ∀ (d t : Nat), _ → ∃ dl : MDl, s3.mon.dls[d]? = _ ∧ _; rw [h3d]; exact fun _ _ hx => hx)
          (by show s3.mon.dls.length = _; rw [h3d]) h3tl h3ts
          (by show ∀ d ∈ s3.dlCancelled, _; rw [h3dc]; exact fun d hd => Or.inl hd) h3r
          (fun _ d _ _ hx => Or.inr (by show s3.outstanding d = true; rw [h3o]; exact hx))
        intro t' e' hp hw
        by_cases ht : t' = t
        · left; rw [ht]; exact h3t
        · right
          show (e', t') ∈ s3.waiters.filter _
          rw [h3w, List.mem_filter]
          refine ⟨hw, ?_⟩
          simp [ht]
      | waitDl d e =>
        simp only []
        have hpct' : s.pcOf t = some (.waitDl d e) := by rw [hpct, hpc]
        split
        · apply invL_frame s ({ s3 with dlCancelled := d :: s3.dlCancelled } : St) h h3pc h3loc h3c
            (by show ∀ (d t : Nat), _ → ∃ dl : MDl, s3.mon.dls[d]? = _ ∧ _; rw [h3d]; exact fun _ _ hx => hx)
            (by show s3.mon.dls.length = _; rw [h3d]) h3tl h3ts
          · intro d' hd'
            have : d' = d ∨ d' ∈ s3.dlCancelled := by simpa using hd'
            rcases this with rfl | h4
            · right; rename_i ho; rw [h3o] at ho; exact outstanding_lt s _ ho
            · left; rw [h3dc] at h4; exact h4
          · exact h3r
          · intro t' d' e' hp ho
            by_cases hd : d' = d
            · left
              subst hd
              obtain ⟨dl, h5, h6⟩ := h.own t' d' e' hp
              obtain ⟨dl2, h7, h8⟩ := h.own t d' e hpct'
              rw [h5] at h7; cases h7
              rw [← h6, h8]; exact h3t
            · right
              show ({ s3 with dlCancelled := d :: s3.dlCancelled } : St).outstanding d' = true
              have := ho
              simp only [outstanding, h3d, h3dc] at this ⊢
              cases hdl : s.mon.dls[d']? with
              | none => simp [hdl] at this
              | some dl =>
                simp only [hdl] at this ⊢
                simp only [Bool.and_eq_true, Bool.not_eq_true', List.contains_cons] at this ⊢
                refine ⟨this.1, ?_⟩
                have h9 := this.2
                simp only [List.contains_eq_mem, decide_eq_false_iff_not] at h9
                simp [hd, h9]
          · intro _ _ _ hx; right; show _ ∈ s3.waiters; rw [h3w]; exact hx
        · exact invL_frame s s3 h h3pc h3loc h3c (by rw [h3d]; exact fun _ _ hx => hx) (by rw [h3d]) h3tl h3ts
            (by rw [h3dc]; exact fun d hd => Or.inl hd) h3r (fun _ d _ _ hx => Or.inr (by rw [h3o]; exact hx))
            (fun _ _ _ hx => Or.inr (by rw [h3w]; exact hx))

end St
end Upnp.C18
