/-
  C18 — the liveness invariant is preserved by one scheduler step (`St.stepHead`).
  `InvLx s t` is `InvL s` with task `t` detached: nothing is required of `t` and nobody relies on `t`.
-/
import Upnp.Lemmas.C18Live
namespace Upnp.C18
open Upnp
namespace St

structure InvLx (s : St) (t : Nat) : Prop where
  lInit : ∀ t', t' ≠ t → s.pcOf t' = some .init → t' ∈ s.ready
  lDl : ∀ t' d e, t' ≠ t → s.pcOf t' = some (.waitDl d e) → t' ∈ s.ready ∨ s.outstanding d = true
  lEvt : ∀ t' e, t' ≠ t → s.pcOf t' = some (.waitEvt e) →
    t' ∈ s.ready ∨ ((e, t') ∈ s.waiters ∧ ∃ t'' d', t'' ≠ t ∧ s.pcOf t'' = some (.waitDl d' e))
  mark : ∀ loc e, PyDict.get? s.cache loc = some (.marker e) →
    ∃ t'' d, t'' ≠ t ∧ s.pcOf t'' = some (.waitDl d e) ∧ s.locOf t'' = loc
  own : ∀ t' d e, t' ≠ t → s.pcOf t' = some (.waitDl d e) → ∃ dl : MDl, s.mon.dls[d]? = some dl ∧ dl.owner = t'
  dcl : ∀ d ∈ s.dlCancelled, d < s.mon.dls.length
  len : s.ts.length = s.mon.tasks.length
  nodup : (PyDict.keys s.cache).Nodup

/-! effect of the small state transformers on the projections -/

@[simp] theorem pcOf_setEvent (s : St) (e t : Nat) : (s.setEvent e).pcOf t = s.pcOf t := rfl
@[simp] theorem locOf_setEvent (s : St) (e t : Nat) : (s.setEvent e).locOf t = s.locOf t := rfl
@[simp] theorem outstanding_setEvent (s : St) (e d : Nat) : (s.setEvent e).outstanding d = s.outstanding d := rfl
@[simp] theorem cache_setEvent (s : St) (e : Nat) : (s.setEvent e).cache = s.cache := rfl
@[simp] theorem mon_setEvent (s : St) (e : Nat) : (s.setEvent e).mon = s.mon := rfl
@[simp] theorem ts_setEvent (s : St) (e : Nat) : (s.setEvent e).ts = s.ts := rfl
@[simp] theorem dlc_setEvent (s : St) (e : Nat) : (s.setEvent e).dlCancelled = s.dlCancelled := rfl

theorem mem_ready_setEvent (s : St) (e t : Nat) : t ∈ (s.setEvent e).ready ↔ t ∈ s.ready ∨ (e, t) ∈ s.waiters := by
  simp only [setEvent, List.mem_append, List.mem_map, List.mem_filter, beq_iff_eq]
  constructor
  · rintro (h | ⟨⟨e', t'⟩, ⟨h1, h2⟩, h3⟩)
    · left; exact h
    · right; simp only at h2 h3; subst h2 h3; exact h1
  · rintro (h | h)
    · left; exact h
    · right; exact ⟨(e, t), ⟨h, rfl⟩, rfl⟩

theorem mem_waiters_setEvent (s : St) (e e' t : Nat) : (e', t) ∈ (s.setEvent e).waiters ↔ (e', t) ∈ s.waiters ∧ e' ≠ e := by
  simp [setEvent, List.mem_filter]

/-- popping the handle of a task that is not a downloader detaches it -/
theorem invLx_pop (s : St) (t : Nat) (rest : List Nat) (h : InvL s) (hr : s.ready = t :: rest)
    (hp : ∀ d e, s.pcOf t ≠ some (.waitDl d e)) : InvLx { s with ready := rest } t := by
  have hmem : ∀ t', t' ≠ t → t' ∈ s.ready → t' ∈ rest := by
    intro t' hne hm; rw [hr] at hm; simpa [hne] using hm
  constructor
  · intro t' hne hp'; exact hmem t' hne (h.lInit t' hp')
  · intro t' d e hne hp'
    rcases h.lDl t' d e hp' with h1 | h1
    · left; exact hmem t' hne h1
    · right; exact h1
  · intro t' e hne hp'
    rcases h.lEvt t' e hp' with h1 | ⟨h1, t'', d', h2⟩
    · left; exact hmem t' hne h1
    · right
      refine ⟨h1, t'', d', ?_, h2⟩
      intro heq; subst heq; exact hp d' e h2
  · intro loc e hc
    obtain ⟨t'', d, h1, h2⟩ := h.mark loc e hc
    refine ⟨t'', d, ?_, h1, h2⟩
    intro heq; subst heq; exact hp d e h1
  · intro t' d e _ hp'; exact h.own t' d e hp'
  · exact h.dcl
  · exact h.len
  · exact h.nodup

/-- a downloader whose marker is no longer in the cache and whose event has been set is detached -/
theorem invLx_release (s : St) (t d e : Nat) (rest : List Nat) (cache' : PyDict Loc Entry) (h : InvL s)
    (hr : s.ready = t :: rest) (hp : s.pcOf t = some (.waitDl d e))
    (hc1 : ∀ l, l ≠ s.locOf t → PyDict.get? cache' l = PyDict.get? s.cache l)
    (hc2 : ∀ e', PyDict.get? cache' (s.locOf t) = some (.marker e') →
      PyDict.get? s.cache (s.locOf t) = some (.marker e') ∧ e' ≠ e)
    (hnd : (PyDict.keys cache').Nodup) :
    InvLx (({ s with ready := rest, cache := cache' } : St).setEvent e) t := by
  have hmem : ∀ t', t' ≠ t → t' ∈ s.ready → t' ∈ rest := by
    intro t' hne hm; rw [hr] at hm; simpa [hne] using hm
  constructor
  · intro t' hne hp'
    rw [mem_ready_setEvent]; left
    exact hmem t' hne (h.lInit t' hp')
  · intro t' d' e' hne hp'
    rcases h.lDl t' d' e' hp' with h1 | h1
    · left; rw [mem_ready_setEvent]; left; exact hmem t' hne h1
    · right; exact h1
  · intro t' e' hne hp'
    rcases h.lEvt t' e' hp' with h1 | ⟨h1, t'', d', h2⟩
    · left; rw [mem_ready_setEvent]; left; exact hmem t' hne h1
    · by_cases he : e' = e
      · left; rw [mem_ready_setEvent]; right; rw [he] at h1; exact h1
      · right
        refine ⟨by rw [mem_waiters_setEvent]; exact ⟨h1, he⟩, t'', d', ?_, h2⟩
        intro heq; subst heq
        rw [hp] at h2; simp only [Option.some.injEq, Pc.waitDl.injEq] at h2
        exact he h2.2.symm
  · intro loc e' hc
    have hc' : PyDict.get? cache' loc = some (.marker e') := hc
    by_cases hl : loc = s.locOf t
    · subst hl
      obtain ⟨h3, h4⟩ := hc2 e' hc'
      obtain ⟨t'', d', h1, h2⟩ := h.mark _ e' h3
      refine ⟨t'', d', ?_, h1, h2⟩
      intro heq; subst heq
      rw [hp] at h1; simp only [Option.some.injEq, Pc.waitDl.injEq] at h1
      exact h4 h1.2.symm
    · rw [hc1 loc hl] at hc'
      obtain ⟨t'', d', h1, h2⟩ := h.mark loc e' hc'
      refine ⟨t'', d', ?_, h1, h2⟩
      intro heq; subst heq; exact hl h2.symm
  · intro t' d' e' _ hp'; exact h.own t' d' e' hp'
  · exact h.dcl
  · exact h.len
  · exact hnd


/-- what is required of the detached task's new program counter -/
def AttachOk (s s' : St) (t : Nat) : Pc → Prop
  | .init => t ∈ s'.ready
  | .waitDl d _ => (t ∈ s'.ready ∨ s'.outstanding d = true) ∧ ∃ dl : MDl, s'.mon.dls[d]? = some dl ∧ dl.owner = t
  | .waitEvt e => t ∈ s'.ready ∨ ((e, t) ∈ s'.waiters ∧ ∃ t'' d', t'' ≠ t ∧ s.pcOf t'' = some (.waitDl d' e))
  | .done => True

/-- re-attach the detached task with a new program counter -/
theorem invL_attach (s s' : St) (t : Nat) (newpc : Pc) (h : InvLx s t)
    (hpcT : s'.pcOf t = some newpc) (hpcO : ∀ t', t' ≠ t → s'.pcOf t' = s.pcOf t')
    (hloc : ∀ t', s'.locOf t' = s.locOf t')
    (hrdy : ∀ t', t' ∈ s.ready → t' ∈ s'.ready) (hwt : ∀ x, x ∈ s.waiters → x ∈ s'.waiters)
    (hout : ∀ d, s.outstanding d = true → s'.outstanding d = true)
    (hdls : ∀ (d : Nat) (dl : MDl), s.mon.dls[d]? = some dl → s'.mon.dls[d]? = some dl)
    (hdcl : ∀ d ∈ s'.dlCancelled, d < s'.mon.dls.length)
    (hlen : s'.ts.length = s'.mon.tasks.length) (hnd : (PyDict.keys s'.cache).Nodup)
    (hcache : ∀ loc e, PyDict.get? s'.cache loc = some (.marker e) →
      PyDict.get? s.cache loc = some (.marker e) ∨ (∃ d, newpc = .waitDl d e ∧ s.locOf t = loc))
    (hT : AttachOk s s' t newpc) : InvL s' := by
  have other : ∀ t'' p, t'' ≠ t → s.pcOf t'' = some p → s'.pcOf t'' = some p := by
    intro t'' p hne hp; rw [hpcO t'' hne]; exact hp
  constructor
  · intro t' hp
    by_cases ht : t' = t
    · subst ht; rw [hpcT] at hp; cases hp; exact hT
    · rw [hpcO t' ht] at hp; exact hrdy t' (h.lInit t' ht hp)
  · intro t' d e hp
    by_cases ht : t' = t
    · subst ht; rw [hpcT] at hp; cases hp; exact hT.1
    · rw [hpcO t' ht] at hp
      rcases h.lDl t' d e ht hp with h1 | h1
      · left; exact hrdy t' h1
      · right; exact hout d h1
  · intro t' e hp
    by_cases ht : t' = t
    · subst ht; rw [hpcT] at hp; cases hp
      rcases hT with h1 | ⟨h1, t'', d', h2, h3⟩
      · left; exact h1
      · right; exact ⟨h1, t'', d', other t'' _ h2 h3⟩
    · rw [hpcO t' ht] at hp
      rcases h.lEvt t' e ht hp with h1 | ⟨h1, t'', d', h2, h3⟩
      · left; exact hrdy t' h1
      · right; exact ⟨hwt _ h1, t'', d', other t'' _ h2 h3⟩
  · intro loc e hc
    rcases hcache loc e hc with h1 | ⟨d, h1, h2⟩
    · obtain ⟨t'', d, h3, h4, h5⟩ := h.mark loc e h1
      exact ⟨t'', d, other t'' _ h3 h4, by rw [hloc]; exact h5⟩
    · exact ⟨t, d, by rw [hpcT, h1], by rw [hloc]; exact h2⟩
  · intro t' d e hp
    by_cases ht : t' = t
    · subst ht; rw [hpcT] at hp; cases hp; exact hT.2
    · rw [hpcO t' ht] at hp
      obtain ⟨dl, h1, h2⟩ := h.own t' d e ht hp
      exact ⟨dl, hdls d dl h1, h2⟩
  · exact hdcl
  · exact hlen
  · exact hnd

theorem pcOf_modify (s : St) (t t' : Nat) (f : TState → TState) (ht : t < s.ts.length) :
    ({ s with ts := s.ts.modify t f } : St).pcOf t' =
      if t' = t then (s.ts[t]?).map (fun k => (f k).pc) else s.pcOf t' := by
  simp only [pcOf, List.getElem?_modify]
  by_cases h : t = t'
  · subst h; cases s.ts[t]? <;> simp
  · have : ¬ t' = t := fun h' => h h'.symm
    simp [h, this]

theorem locOf_setStatus (m : Mon) (t t' : Nat) (st : Status) :
    ((m.setStatus t st).tasks[t']?).map (·.loc) = (m.tasks[t']?).map (·.loc) := by
  simp only [Mon.setStatus, List.getElem?_modify]
  cases m.tasks[t']? with
  | none => rfl
  | some k => by_cases h : t = t' <;> simp [h]

theorem invL_finish (s : St) (t : Nat) (ev : Ev) (h : InvLx s t) (ht : t < s.ts.length)
    (hev : (s.mon.applyEv ev).dls = s.mon.dls)
    (hevl : ∀ t' : Nat, ((s.mon.applyEv ev).tasks[t']?).map (fun k : MTask => k.loc) = (s.mon.tasks[t']?).map (fun k : MTask => k.loc))
    (hevn : (s.mon.applyEv ev).tasks.length = s.mon.tasks.length) :
    InvL (s.finish t ev) := by
  have hpc := pcOf_modify s t
  apply invL_attach s (s.finish t ev) t .done h
  · have := hpc t (fun _ => { pc := .done, mustCancel := false }) ht
    simp only [finish, emit] at this ⊢
    rw [show ({ ({ s with ts := s.ts.modify t fun _ => { pc := .done, mustCancel := false } } : St) with
      mon := s.mon.applyEv ev } : St).pcOf t = ({ s with ts := s.ts.modify t fun _ => { pc := Pc.done, mustCancel := false } } : St).pcOf t from rfl, this]
    have hk : ∃ k, s.ts[t]? = some k := ⟨s.ts[t], List.getElem?_eq_getElem ht⟩
    obtain ⟨k, hk⟩ := hk
    simp [hk]
  · intro t' hne
    have := hpc t' (fun _ => { pc := .done, mustCancel := false }) ht
    simp only [hne, if_false] at this
    exact this
  · intro t'; simp only [finish, emit, locOf, hevl]
  · exact fun _ hx => hx
  · exact fun _ hx => hx
  · intro d hd; simpa only [finish, emit, outstanding, hev] using hd
  · intro d dl hd; simpa only [finish, emit, hev] using hd
  · intro d hd; simp only [finish, emit, hev]; exact h.dcl d hd
  · simp only [finish, emit, List.length_modify, hevn]; exact h.len
  · exact h.nodup
  · intro loc e hc; left; exact hc
  · trivial


theorem pcOf_setPc (s : St) (t t' : Nat) (pc : Pc) (ht : t < s.ts.length) :
    (s.setPc t pc).pcOf t' = if t' = t then some pc else s.pcOf t' := by
  unfold setPc
  rw [pcOf_modify s t t' _ ht]
  by_cases h : t' = t
  · have hk : s.ts[t]? = some s.ts[t] := List.getElem?_eq_getElem ht
    simp [h, hk]
  · simp [h]

theorem dls_append_old (l : List MDl) (x : MDl) (d : Nat) (dl : MDl) (h : l[d]? = some dl) :
    (l ++ [x])[d]? = some dl := by
  rw [List.getElem?_append_left (List.getElem?_eq_some_iff.mp h).1]; exact h

theorem invL_lookupLoop (s : St) (t : Nat) (h : InvLx s t) (ht : t < s.ts.length) :
    InvL (s.lookupLoop t (s.locOf t)).1 := by
  unfold lookupLoop
  cases hc : PyDict.get? s.cache (s.locOf t) with
  | none =>
    simp only []
    apply invL_attach s _ t (.waitDl s.mon.dls.length s.nextEvt) h
    · rw [emit]
      show (St.setPc _ t _).pcOf t = _
      rw [pcOf_setPc _ _ _ _ (by exact ht)]; simp
    · intro t' hne
      rw [emit]
      show (St.setPc _ t _).pcOf t' = _
      rw [pcOf_setPc _ _ _ _ (by exact ht)]; simp [hne]; rfl
    · intro t'; rfl
    · exact fun _ hx => hx
    · exact fun _ hx => hx
    · intro d hd
      have hlt := outstanding_lt s d hd
      simp only [outstanding, emit, Mon.applyEv, setPc] at hd ⊢
      rw [List.getElem?_append_left hlt]; exact hd
    · intro d dl hd
      simp only [emit, Mon.applyEv, setPc]
      exact dls_append_old _ _ _ _ hd
    · intro d hd
      have := h.dcl d hd
      simp only [emit, Mon.applyEv, setPc, List.length_append, List.length_singleton]; omega
    · simp only [emit, Mon.applyEv, setPc, List.length_modify]; exact h.len
    · exact PyDict.nodup_keys_set _ _ _ h.nodup
    · intro loc e hcc
      have hcc' : PyDict.get? (PyDict.set s.cache (s.locOf t) (.marker s.nextEvt)) loc = some (.marker e) := hcc
      by_cases hl : s.locOf t = loc
      · subst hl
        rw [PyDict.get?_set_self] at hcc'
        simp only [Option.some.injEq, Entry.marker.injEq] at hcc'
        right; exact ⟨_, by rw [hcc'], rfl⟩
      · rw [PyDict.get?_set_ne _ _ _ _ hl] at hcc'
        left; exact hcc'
    · refine ⟨Or.inr ?_, ?_⟩
      · simp only [outstanding, emit, Mon.applyEv, setPc, List.getElem?_concat_length]
        simp only [Option.isNone_none, Bool.true_and, Bool.not_eq_true', List.contains_eq_mem, decide_eq_false_iff_not]
        intro hm
        have := h.dcl _ hm
        omega
      · refine ⟨{ loc := s.locOf t, owner := t, epoch := s.mon.epochOf (s.locOf t), minEpoch := s.mon.minEpochOf (s.locOf t), outcome := none }, ?_, rfl⟩
        simp only [emit, Mon.applyEv, setPc, List.getElem?_concat_length]
  | some ent =>
    cases ent with
    | marker e' =>
      simp only []
      obtain ⟨t'', d', hne, hp, _⟩ := h.mark _ e' hc
      apply invL_attach s _ t (.waitEvt e') h
      · show (St.setPc _ t _).pcOf t = _
        rw [pcOf_setPc _ _ _ _ ht]; simp
      · intro t' hne'
        show (St.setPc _ t _).pcOf t' = _
        rw [pcOf_setPc _ _ _ _ ht]; simp [hne']
      · intro t'; rfl
      · exact fun _ hx => hx
      · intro x hx; exact List.mem_append_left _ hx
      · exact fun _ hx => hx
      · exact fun _ _ hx => hx
      · exact h.dcl
      · simp only [setPc, List.length_modify]; exact h.len
      · exact h.nodup
      · intro loc e hcc; left; exact hcc
      · right
        exact ⟨List.mem_append_right _ (List.mem_singleton.mpr rfl), t'', d', hne, hp⟩
    | result v =>
      simp only []
      apply invL_attach s _ t .done h
      · show (St.setPc _ t _).pcOf t = _
        rw [pcOf_setPc _ _ _ _ ht]; simp
      · intro t' hne'
        show (St.setPc _ t _).pcOf t' = _
        rw [pcOf_setPc _ _ _ _ ht]; simp [hne']
      · intro t'; simp only [emit, Mon.applyEv, setPc, locOf, locOf_setStatus]
      · exact fun _ hx => hx
      · exact fun _ hx => hx
      · exact fun _ hx => hx
      · exact fun _ _ hx => hx
      · exact h.dcl
      · simp only [emit, Mon.applyEv, Mon.setStatus, setPc, List.length_modify]; exact h.len
      · exact h.nodup
      · intro loc e hcc; left; exact hcc
      · trivial


/-- a detached task that is finished (or does not exist) can simply be forgotten -/
theorem invL_of_invLx (s : St) (t : Nat) (h : InvLx s t)
    (hp : s.pcOf t = none ∨ s.pcOf t = some .done) : InvL s := by
  have ne : ∀ t' p, s.pcOf t' = some p → p ≠ .done → t' ≠ t := by
    intro t' p h1 h2 heq; subst heq
    rcases hp with h3 | h3 <;> rw [h3] at h1 <;> simp at h1
    exact h2 h1.symm
  constructor
  · intro t' hp'; exact h.lInit t' (ne t' _ hp' (by simp)) hp'
  · intro t' d e hp'; exact h.lDl t' d e (ne t' _ hp' (by simp)) hp'
  · intro t' e hp'
    rcases h.lEvt t' e (ne t' _ hp' (by simp)) hp' with h1 | ⟨h1, t'', d', _, h2⟩
    · left; exact h1
    · right; exact ⟨h1, t'', d', h2⟩
  · intro loc e hc
    obtain ⟨t'', d, _, h1, h2⟩ := h.mark loc e hc
    exact ⟨t'', d, h1, h2⟩
  · intro t' d e hp'; exact h.own t' d e (ne t' _ hp' (by simp)) hp'
  · exact h.dcl
  · exact h.len
  · exact h.nodup

theorem eraseIfOurs_storeIfOurs (s : St) (loc : Loc) (e : Nat) (v : Out) :
    (s.storeIfOurs loc e v).eraseIfOurs loc e = s.storeIfOurs loc e v := by
  unfold eraseIfOurs storeIfOurs
  by_cases h : PyDict.get? s.cache loc = some (.marker e)
  · simp only [h, if_true]
    rw [if_neg]
    rw [PyDict.get?_set_self]; simp
  · simp only [h, if_false]

theorem invL_step (s : St) (h : InvL s) : InvL s.stepHead.1 := by
  unfold stepHead
  cases hr : s.ready with
  | nil => simpa [hr] using h
  | cons t rest =>
    simp only []
    cases hk : s.ts[t]? with
    | none =>
      simp only []
      have hp : s.pcOf t = none := by simp [pcOf, hk]
      exact invL_of_invLx _ t (invLx_pop s t rest h hr (by intro d e; rw [hp]; simp)) (Or.inl hp)
    | some k =>
      simp only []
      by_cases hb : s.blocked k = true
      · simpa [hb] using h
      · simp only [hb]
        have hp : s.pcOf t = some k.pc := by simp [pcOf, hk]
        have ht : t < s.ts.length := (List.getElem?_eq_some_iff.mp hk).1
        have hev : ∀ (s1 : St), (s1.mon.applyEv (.cancelled t)).dls = s1.mon.dls := fun _ => rfl
        have hevl : ∀ (s1 : St) (t' : Nat), ((s1.mon.applyEv (.cancelled t)).tasks[t']?).map (fun k : MTask => k.loc)
            = (s1.mon.tasks[t']?).map (fun k : MTask => k.loc) := fun s1 t' => locOf_setStatus s1.mon t t' _
        have hevn : ∀ (s1 : St), (s1.mon.applyEv (.cancelled t)).tasks.length = s1.mon.tasks.length := by
          intro s1; simp [Mon.applyEv, Mon.setStatus]
        unfold stepTask
        cases hpc : k.pc with
        | done =>
          have hx := invLx_pop s t rest h hr (by intro d e; rw [hp, hpc]; simp)
          have := invL_of_invLx _ t hx (Or.inr (by show s.pcOf t = _; rw [hp, hpc]))
          by_cases hm : k.mustCancel = true <;> simpa [hm] using this
        | init =>
          have hx := invLx_pop s t rest h hr (by intro d e; rw [hp, hpc]; simp)
          by_cases hm : k.mustCancel = true
          · simp only [hm, if_true]
            exact invL_finish _ t _ hx ht (hev _) (hevl _) (hevn _)
          · simp only [hm]
            exact invL_lookupLoop _ t hx ht
        | waitEvt e0 =>
          have hx := invLx_pop s t rest h hr (by intro d e; rw [hp, hpc]; simp)
          by_cases hm : k.mustCancel = true
          · simp only [hm, if_true]
            exact invL_finish _ t _ hx ht (hev _) (hevl _) (hevn _)
          · simp only [hm]
            exact invL_lookupLoop _ t hx ht
        | waitDl d e =>
          have hp' : s.pcOf t = some (.waitDl d e) := by rw [hp, hpc]
          by_cases hm : k.mustCancel = true
          · simp only [hm, if_true]
            have hx := invLx_release s t d e rest (({ s with ready := rest } : St).eraseIfOurs (s.locOf t) e).cache h hr hp'
              (by
                intro l hl
                unfold eraseIfOurs; split
                · exact PyDict.get?_erase_ne _ _ _ (Ne.symm hl)
                · rfl)
              (by
                intro e' hc
                unfold eraseIfOurs at hc; split at hc
                · rw [show ({ s with ready := rest, cache := PyDict.erase s.cache (s.locOf t) } : St).cache
                      = PyDict.erase s.cache (s.locOf t) from rfl, PyDict.get?_erase_self _ _ h.nodup] at hc
                  simp at hc
                · rename_i hne
                  refine ⟨hc, ?_⟩
                  intro heq; subst heq; exact hne hc)
              (by
                unfold eraseIfOurs; split
                · exact PyDict.nodup_keys_erase _ _ h.nodup
                · exact h.nodup)
            have heq : ({ s with ready := rest } : St).finallyBlock (s.locOf t) e =
                ({ s with ready := rest, cache := (({ s with ready := rest } : St).eraseIfOurs (s.locOf t) e).cache } : St).setEvent e := by
              unfold finallyBlock eraseIfOurs; split <;> rfl
            show InvL ((({ s with ready := rest } : St).finallyBlock (s.locOf t) e).finish t (.cancelled t))
            rw [heq]
            exact invL_finish _ t _ hx ht (hev _) (hevl _) (hevn _)
          · simp only [hm]
            have hnb : ((s.mon.dls[d]?).bind (·.outcome)).isNone = false := by
              have hb' := hb
              simp only [blocked, hm, hpc, Bool.not_false, Bool.true_and, Bool.not_eq_true] at hb'
              exact hb'
            cases ho : (s.mon.dls[d]?).bind (·.outcome) with
            | none => rw [ho] at hnb; simp at hnb
            | some v =>
              show InvL (((({ s with ready := rest } : St).storeIfOurs (s.locOf t) e v).finallyBlock (s.locOf t) e).lookupLoop t (s.locOf t)).1
              have hx := invLx_release s t d e rest (({ s with ready := rest } : St).storeIfOurs (s.locOf t) e v).cache h hr hp'
                (by
                  intro l hl
                  unfold storeIfOurs; split
                  · exact PyDict.get?_set_ne _ _ _ _ (Ne.symm hl)
                  · rfl)
                (by
                  intro e' hc
                  unfold storeIfOurs at hc; split at hc
                  · rw [show ({ s with ready := rest, cache := PyDict.set s.cache (s.locOf t) (.result v) } : St).cache
                        = PyDict.set s.cache (s.locOf t) (.result v) from rfl, PyDict.get?_set_self] at hc
                    simp at hc
                  · rename_i hne
                    refine ⟨hc, ?_⟩
                    intro heq; subst heq; exact hne hc)
                (by
                  unfold storeIfOurs; split
                  · exact PyDict.nodup_keys_set _ _ _ h.nodup
                  · exact h.nodup)
              have heq : (({ s with ready := rest } : St).storeIfOurs (s.locOf t) e v).finallyBlock (s.locOf t) e =
                  ({ s with ready := rest, cache := (({ s with ready := rest } : St).storeIfOurs (s.locOf t) e v).cache } : St).setEvent e := by
                unfold finallyBlock
                rw [eraseIfOurs_storeIfOurs]
                unfold storeIfOurs; split <;> rfl
              rw [heq]
              exact invL_lookupLoop _ t hx ht

end St
end Upnp.C18

namespace Upnp.C18
open Upnp
namespace St

theorem invL_apply (s : St) (op : Op) (h : InvL s) : InvL (s.apply op).1 := by
  cases op with
  | lookup loc => exact invL_lookup s loc h
  | complete d v => exact invL_complete s d v h
  | cancel t => exact invL_cancel s t h
  | uncache loc => exact invL_uncache s loc h
  | step => exact invL_step s h

/-- under the liveness invariant every scheduler snapshot passes the monitor's deadlock check:
    nothing runnable and no download outstanding ⇒ no unfinished lookup -/
theorem quiet_of_invL (s : St) (h : InvL s) :
    quietOk s.ready.length s.outstandingCount s.pendingCount = true := by
  unfold quietOk
  by_cases hq : (s.ready.length == 0 && s.outstandingCount == 0) = true
  · simp only [hq, Bool.not_true, Bool.false_or, beq_iff_eq]
    simp only [Bool.and_eq_true, beq_iff_eq, List.length_eq_zero_iff] at hq
    obtain ⟨hr, ho⟩ := hq
    have hno : ∀ d, s.outstanding d = false := by
      intro d
      cases hd : s.outstanding d with
      | false => rfl
      | true =>
        have hlt := outstanding_lt s d hd
        unfold outstandingCount at ho
        have : d ∈ (List.range s.mon.dls.length).filter s.outstanding := by
          simp [List.mem_filter, hlt, hd]
        rw [List.length_eq_zero_iff.mp ho] at this
        simp at this
    have hnd : ∀ t d e, s.pcOf t ≠ some (.waitDl d e) := by
      intro t d e hp
      rcases h.lDl t d e hp with h1 | h1
      · rw [hr] at h1; simp at h1
      · rw [hno] at h1; simp at h1
    unfold pendingCount
    rw [List.length_eq_zero_iff, List.filter_eq_nil_iff]
    intro k hk
    obtain ⟨t, ht, hkt⟩ := List.getElem_of_mem hk
    have hp : s.pcOf t = some k.pc := by simp [pcOf, List.getElem?_eq_getElem ht, hkt]
    cases hpc : k.pc with
    | done => simp
    | init => have := h.lInit t (by rw [hp, hpc]); rw [hr] at this; simp at this
    | waitDl d e => exact absurd (by rw [hp, hpc]) (hnd t d e)
    | waitEvt e =>
      rcases h.lEvt t e (by rw [hp, hpc]) with h1 | ⟨_, t', d', h2⟩
      · rw [hr] at h1; simp at h1
      · exact absurd h2 (hnd t' d' e)
  · simp [hq]

end St
end Upnp.C18
