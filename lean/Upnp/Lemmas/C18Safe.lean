/-
  C18 — safety invariant of the cache model: what is in the cache, and which downloads exist,
  always justifies the monitor's single-flight / shared-outcome checks.
-/
import Upnp.Lemmas.C18LiveStep
namespace Upnp.C18
open Upnp
namespace St

def stOf (s : St) (t : Nat) : Option Status := s.mon.statusOf t

structure InvS (s : St) : Prop where
  len : s.ts.length = s.mon.tasks.length
  alive : ∀ t p, s.pcOf t = some p → p ≠ .done → s.stOf t = some .pending
  mc : ∀ (t : Nat) (k : TState), s.ts[t]? = some k → k.mustCancel = true → ∃ m : MTask, s.mon.tasks[t]? = some m ∧ m.cancelReq = true
  dlEpoch : ∀ (i : Nat) (d : MDl), s.mon.dls[i]? = some d → d.epoch ≤ s.mon.epochOf d.loc
  startDl : ∀ (t : Nat) (m : MTask), s.mon.tasks[t]? = some m → m.startDl ≤ s.mon.dls.length
  startEp : ∀ (t : Nat) (m : MTask), s.mon.tasks[t]? = some m → m.startEpoch ≤ s.mon.epochOf m.loc
  later : ∀ (i t : Nat) (d : MDl) (m : MTask), s.mon.dls[i]? = some d → s.mon.tasks[t]? = some m →
    m.loc = d.loc → m.startEpoch < d.epoch → m.startDl ≤ i
  own : ∀ t d e, s.pcOf t = some (.waitDl d e) → ∃ dl : MDl, s.mon.dls[d]? = some dl ∧ dl.loc = s.locOf t ∧ dl.owner = t
    ∧ (PyDict.get? s.cache (s.locOf t) = some (.marker e) → dl.epoch = s.mon.epochOf (s.locOf t))
  res : ∀ loc v, PyDict.get? s.cache loc = some (.result v) →
    ∃ (i : Nat) (d : MDl), s.mon.dls[i]? = some d ∧ d.loc = loc ∧ d.outcome = some v ∧ d.epoch = s.mon.epochOf loc
  cur : ∀ (i : Nat) (d : MDl), s.mon.dls[i]? = some d → d.epoch = s.mon.epochOf d.loc →
    s.stOf d.owner ≠ some .cancelled → (PyDict.get? s.cache d.loc).isSome = true
  uniq : ∀ (i j : Nat) (d d' : MDl), s.mon.dls[i]? = some d → s.mon.dls[j]? = some d' → d.loc = d'.loc →
    d.epoch = s.mon.epochOf d.loc → d'.epoch = s.mon.epochOf d'.loc →
    s.stOf d.owner ≠ some .cancelled → s.stOf d'.owner ≠ some .cancelled → i = j
  fresh : ∀ t d e, s.pcOf t = some (.waitDl d e) → e < s.nextEvt
  nodup : (PyDict.keys s.cache).Nodup

theorem invS_init : InvS {} := by
  constructor <;> simp [pcOf, stOf, Mon.statusOf, PyDict.get?, PyDict.keys]

theorem epochOf_uncache (m : Mon) (loc l : Loc) :
    (m.applyOp (.uncache loc)).epochOf l = m.epochOf l + (if loc = l then 1 else 0) := by
  simp only [Mon.applyOp, Mon.epochOf, List.count_cons]
  by_cases h : loc = l <;> simp [h]

theorem invS_uncache (s : St) (loc : Loc) (h : InvS s) : InvS (s.apply (.uncache loc)).1 := by
  have hep := epochOf_uncache s.mon loc
  constructor
  · exact h.len
  · exact h.alive
  · exact h.mc
  · intro i d hd
    have := h.dlEpoch i d hd
    show d.epoch ≤ (s.mon.applyOp (.uncache loc)).epochOf d.loc
    rw [hep]; omega
  · exact h.startDl
  · intro t m hm
    have := h.startEp t m hm
    show m.startEpoch ≤ (s.mon.applyOp (.uncache loc)).epochOf m.loc
    rw [hep]; omega
  · exact h.later
  · intro t d e hp
    obtain ⟨dl, h1, h2, h3, h4⟩ := h.own t d e hp
    refine ⟨dl, h1, h2, h3, ?_⟩
    intro hc
    have hc' : PyDict.get? (PyDict.erase s.cache loc) (s.locOf t) = some (.marker e) := hc
    show dl.epoch = (s.mon.applyOp (.uncache loc)).epochOf (s.locOf t)
    by_cases hl : loc = s.locOf t
    · rw [← hl, PyDict.get?_erase_self _ _ h.nodup] at hc'; simp at hc'
    · rw [PyDict.get?_erase_ne _ _ _ hl] at hc'
      rw [hep, if_neg hl]; exact h4 hc'
  · intro l v hc
    have hc' : PyDict.get? (PyDict.erase s.cache loc) l = some (.result v) := hc
    by_cases hl : loc = l
    · rw [← hl, PyDict.get?_erase_self _ _ h.nodup] at hc'; simp at hc'
    · rw [PyDict.get?_erase_ne _ _ _ hl] at hc'
      obtain ⟨i, d, h1, h2, h3, h4⟩ := h.res l v hc'
      refine ⟨i, d, h1, h2, h3, ?_⟩
      show d.epoch = (s.mon.applyOp (.uncache loc)).epochOf l
      rw [hep, if_neg hl]; exact h4
  · intro i d hd hcur hst
    have hcur' : d.epoch = (s.mon.applyOp (.uncache loc)).epochOf d.loc := hcur
    show (PyDict.get? (PyDict.erase s.cache loc) d.loc).isSome = true
    rw [hep] at hcur'
    have := h.dlEpoch i d hd
    by_cases hl : loc = d.loc
    · simp only [hl, if_true] at hcur'; omega
    · rw [PyDict.get?_erase_ne _ _ _ hl]
      simp only [hl, if_false, Nat.add_zero] at hcur'
      exact h.cur i d hd hcur' hst
  · intro i j d d' hd hd' hl hc hc' hs hs'
    have hc1 : d.epoch = (s.mon.applyOp (.uncache loc)).epochOf d.loc := hc
    have hc2 : d'.epoch = (s.mon.applyOp (.uncache loc)).epochOf d'.loc := hc'
    rw [hep] at hc1 hc2
    have b1 := h.dlEpoch i d hd
    have b2 := h.dlEpoch j d' hd'
    by_cases hx : loc = d.loc
    · simp only [hx, if_true] at hc1; omega
    · have hx' : ¬ loc = d'.loc := by rw [← hl]; exact hx
      simp only [hx, hx', if_false, Nat.add_zero] at hc1 hc2
      exact h.uniq i j d d' hd hd' hl hc1 hc2 hs hs'
  · exact h.fresh
  · exact PyDict.nodup_keys_erase _ _ h.nodup


theorem getElem?_concat {α : Type} (l : List α) (x : α) (i : Nat) :
    (l ++ [x])[i]? = if i = l.length then some x else l[i]? := by
  by_cases h1 : i < l.length
  · rw [List.getElem?_append_left h1]; simp [Nat.ne_of_lt h1]
  · by_cases h2 : i = l.length
    · subst h2; simp
    · rw [List.getElem?_eq_none (by simp; omega), List.getElem?_eq_none (by omega)]; simp [h2]

theorem pcOf_lookup (s : St) (loc : Loc) (t : Nat) :
    (s.apply (.lookup loc)).1.pcOf t = if t = s.ts.length then some .init else s.pcOf t := by
  simp only [apply, pcOf, getElem?_concat]
  split <;> simp

theorem tasks_lookup (s : St) (loc : Loc) (t : Nat) :
    (s.apply (.lookup loc)).1.mon.tasks[t]? =
      if t = s.mon.tasks.length then some { loc := loc, startEpoch := s.mon.epochOf loc, startDl := s.mon.dls.length,
                                            cancelReq := false, status := .pending }
      else s.mon.tasks[t]? := by
  simp only [apply, Mon.applyOp, getElem?_concat]

theorem invS_lookup (s : St) (loc : Loc) (h : InvS s) : InvS (s.apply (.lookup loc)).1 := by
  have hpc := pcOf_lookup s loc
  have htk := tasks_lookup s loc
  have hst : ∀ t, (s.apply (.lookup loc)).1.stOf t = if t = s.mon.tasks.length then some .pending else s.stOf t := by
    intro t; simp only [stOf, Mon.statusOf, htk]; split <;> simp
  have hloc : ∀ t, t ≠ s.mon.tasks.length → (s.apply (.lookup loc)).1.locOf t = s.locOf t := by
    intro t ht; simp only [locOf, htk, ht, if_false]
  have hdls : (s.apply (.lookup loc)).1.mon.dls = s.mon.dls := rfl
  have hep : ∀ l, (s.apply (.lookup loc)).1.mon.epochOf l = s.mon.epochOf l := fun _ => rfl
  have hcache : (s.apply (.lookup loc)).1.cache = s.cache := rfl
  have hstne : ∀ t, (s.apply (.lookup loc)).1.stOf t ≠ some .cancelled → s.stOf t ≠ some .cancelled := by
    intro t h1 h2
    apply h1; rw [hst]
    split
    · rename_i heq; subst heq
      simp [stOf, Mon.statusOf] at h2
    · exact h2
  constructor
  · simp [apply, Mon.applyOp, h.len]
  · intro t p hp hne
    rw [hpc] at hp; rw [hst]
    split at hp
    · rename_i heq; rw [heq, h.len]; simp
    · rename_i hne'
      have hlt := pcOf_lt s t p hp
      rw [h.len] at hlt hne'
      simp only [hne', if_false]
      exact h.alive t p hp hne
  · intro t k hk hm
    have hk' : (s.ts ++ [({ pc := .init, mustCancel := false } : TState)])[t]? = some k := hk
    rw [getElem?_concat] at hk'
    split at hk'
    · cases hk'; simp at hm
    · obtain ⟨m, h1, h2⟩ := h.mc t k hk' hm
      have hlt := (List.getElem?_eq_some_iff.mp h1).1
      exact ⟨m, by rw [htk, if_neg (Nat.ne_of_lt hlt)]; exact h1, h2⟩
  · intro i d hd; rw [hdls] at hd; rw [hep]; exact h.dlEpoch i d hd
  · intro t m hm
    rw [htk] at hm; rw [hdls]
    split at hm
    · cases hm; exact Nat.le_refl _
    · exact h.startDl t m hm
  · intro t m hm
    rw [htk] at hm; rw [hep]
    split at hm
    · cases hm; exact Nat.le_refl _
    · exact h.startEp t m hm
  · intro i t d m hd hm hl hlt
    rw [htk] at hm; rw [hdls] at hd
    split at hm
    · cases hm
      have := h.dlEpoch i d hd
      simp only at hl hlt
      rw [hl] at hlt; omega
    · exact h.later i t d m hd hm hl hlt
  · intro t d e hp
    rw [hpc] at hp
    split at hp
    · simp at hp
    · have hlt := pcOf_lt s t _ hp
      rw [h.len] at hlt
      rw [hloc t (Nat.ne_of_lt hlt), hdls, hcache, hep]
      exact h.own t d e hp
  · intro l v hc; rw [hcache] at hc; rw [hdls, hep]; exact h.res l v hc
  · intro i d hd hc hs
    rw [hdls] at hd; rw [hep] at hc; rw [hcache]
    exact h.cur i d hd hc (hstne _ hs)
  · intro i j d d' hd hd' hl hc hc' hs hs'
    rw [hdls] at hd hd'; rw [hep] at hc hc'
    exact h.uniq i j d d' hd hd' hl hc hc' (hstne _ hs) (hstne _ hs')
  · intro t d e hp
    rw [hpc] at hp
    split at hp
    · simp at hp
    · exact h.fresh t d e hp
  · exact h.nodup


/-- `complete` only fills in an outcome that was still open -/
theorem dls_complete_inv (m : Mon) (d : Nat) (v : Out) (i : Nat) (d' : MDl)
    (h : (m.applyOp (.complete d v)).dls[i]? = some d') :
    ∃ d0 : MDl, m.dls[i]? = some d0 ∧ d'.loc = d0.loc ∧ d'.owner = d0.owner ∧ d'.epoch = d0.epoch
      ∧ (∀ w, d0.outcome = some w → d'.outcome = some w) := by
  rw [dls_complete] at h
  cases h0 : m.dls[i]? with
  | none => simp [h0] at h
  | some d0 =>
    simp only [h0, Option.map_some, Option.some.injEq] at h
    refine ⟨d0, rfl, ?_⟩
    subst h
    by_cases h1 : d = i
    · by_cases h2 : d0.outcome.isNone = true
      · simp only [h1, h2, if_true]
        refine ⟨trivial, trivial, trivial, ?_⟩
        intro w hw; rw [hw] at h2; simp at h2
      · simp [h1, h2]
    · simp [h1]

theorem dls_complete_fwd (m : Mon) (d : Nat) (v : Out) (i : Nat) (d0 : MDl) (h : m.dls[i]? = some d0) :
    ∃ d' : MDl, (m.applyOp (.complete d v)).dls[i]? = some d' ∧ d'.loc = d0.loc ∧ d'.owner = d0.owner
      ∧ d'.epoch = d0.epoch ∧ (∀ w, d0.outcome = some w → d'.outcome = some w) := by
  have : ∃ d', (m.applyOp (.complete d v)).dls[i]? = some d' := by
    rw [dls_complete, h]; exact ⟨_, rfl⟩
  obtain ⟨d', hd'⟩ := this
  obtain ⟨d1, h1, h2⟩ := dls_complete_inv m d v i d' hd'
  rw [h] at h1; cases h1
  exact ⟨d', hd', h2⟩

theorem invS_complete (s : St) (d : Nat) (v : Out) (h : InvS s) : InvS (s.apply (.complete d v)).1 := by
  have hmon : (s.apply (.complete d v)).1.mon = s.mon.applyOp (.complete d v) := by
    simp only [apply]; split <;> rfl
  have hts : (s.apply (.complete d v)).1.ts = s.ts := by simp only [apply]; split <;> rfl
  have hcache : (s.apply (.complete d v)).1.cache = s.cache := by simp only [apply]; split <;> rfl
  have hne : (s.apply (.complete d v)).1.nextEvt = s.nextEvt := by simp only [apply]; split <;> rfl
  have htasks : (s.apply (.complete d v)).1.mon.tasks = s.mon.tasks := by rw [hmon]; rfl
  have hep : ∀ l, (s.apply (.complete d v)).1.mon.epochOf l = s.mon.epochOf l := by
    intro l; rw [hmon]; rfl
  have hpc : ∀ t, (s.apply (.complete d v)).1.pcOf t = s.pcOf t := by intro t; simp only [pcOf, hts]
  have hst : ∀ t, (s.apply (.complete d v)).1.stOf t = s.stOf t := by
    intro t; simp only [stOf, Mon.statusOf, htasks]
  have hloc : ∀ t, (s.apply (.complete d v)).1.locOf t = s.locOf t := by
    intro t; simp only [locOf, htasks]
  have hlen : (s.apply (.complete d v)).1.mon.dls.length = s.mon.dls.length := by
    rw [hmon]; simp [Mon.applyOp]
  constructor
  · rw [hts, htasks]; exact h.len
  · intro t p hp hne'; rw [hpc] at hp; rw [hst]; exact h.alive t p hp hne'
  · intro t k hk hm; rw [hts] at hk; rw [htasks]; exact h.mc t k hk hm
  · intro i d' hd
    rw [hmon] at hd
    obtain ⟨d0, h0, h1, _, h3, _⟩ := dls_complete_inv _ _ _ _ _ hd
    rw [hep, h1, h3]; exact h.dlEpoch i d0 h0
  · intro t m hm; rw [htasks] at hm; rw [hlen]; exact h.startDl t m hm
  · intro t m hm; rw [htasks] at hm; rw [hep]; exact h.startEp t m hm
  · intro i t d' m hd hm hl hlt
    rw [hmon] at hd; rw [htasks] at hm
    obtain ⟨d0, h0, h1, _, h3, _⟩ := dls_complete_inv _ _ _ _ _ hd
    exact h.later i t d0 m h0 hm (by rw [hl, h1]) (by rw [← h3]; exact hlt)
  · intro t d' e hp
    rw [hpc] at hp
    obtain ⟨dl, h1, h2, h3, h4⟩ := h.own t d' e hp
    obtain ⟨dl', g1, g2, g3, g4, _⟩ := dls_complete_fwd s.mon d v d' dl h1
    refine ⟨dl', by rw [hmon]; exact g1, by rw [hloc, g2]; exact h2, by rw [g3]; exact h3, ?_⟩
    intro hc; rw [hcache, hloc] at hc; rw [hep, hloc, g4]; exact h4 hc
  · intro l w hc
    rw [hcache] at hc
    obtain ⟨i, d0, h1, h2, h3, h4⟩ := h.res l w hc
    obtain ⟨dl', g1, g2, _, g4, g5⟩ := dls_complete_fwd s.mon d v i d0 h1
    exact ⟨i, dl', by rw [hmon]; exact g1, by rw [g2]; exact h2, g5 w h3, by rw [hep, g4]; exact h4⟩
  · intro i d' hd hc hs
    rw [hmon] at hd
    obtain ⟨d0, h0, h1, h2, h3, _⟩ := dls_complete_inv _ _ _ _ _ hd
    rw [hep, h1, h3] at hc; rw [hst, h2] at hs; rw [hcache, h1]
    exact h.cur i d0 h0 hc hs
  · intro i j d1 d2 hd1 hd2 hl hc1 hc2 hs1 hs2
    rw [hmon] at hd1 hd2
    obtain ⟨a0, a1, a2, a3, a4, _⟩ := dls_complete_inv _ _ _ _ _ hd1
    obtain ⟨b0, b1, b2, b3, b4, _⟩ := dls_complete_inv _ _ _ _ _ hd2
    rw [hep, a2, a4] at hc1; rw [hep, b2, b4] at hc2; rw [hst, a3] at hs1; rw [hst, b3] at hs2
    exact h.uniq i j a0 b0 a1 b1 (by rw [← a2, ← b2]; exact hl) hc1 hc2 hs1 hs2
  · intro t d' e hp; rw [hpc] at hp; rw [hne]; exact h.fresh t d' e hp
  · rw [hcache]; exact h.nodup


theorem tasks_cancel_inv (m : Mon) (t i : Nat) (m' : MTask) (h : (m.applyOp (.cancel t)).tasks[i]? = some m') :
    ∃ m0 : MTask, m.tasks[i]? = some m0 ∧ m'.loc = m0.loc ∧ m'.startEpoch = m0.startEpoch ∧ m'.startDl = m0.startDl
      ∧ m'.status = m0.status ∧ (m0.cancelReq = true → m'.cancelReq = true) ∧ (i = t → m'.cancelReq = true) := by
  simp only [Mon.applyOp, List.getElem?_modify] at h
  cases h0 : m.tasks[i]? with
  | none => simp [h0] at h
  | some m0 =>
    simp only [h0, Option.map_eq_map, Option.map_some, Option.some.injEq] at h
    refine ⟨m0, rfl, ?_⟩
    subst h
    by_cases h1 : t = i
    · simp [h1]
    · simp only [h1, if_false, true_and]
      exact ⟨fun hx => hx, fun hx => absurd hx.symm h1⟩

theorem invS_cancel (s : St) (t : Nat) (h : InvS s) : InvS (s.apply (.cancel t)).1 := by
  have hmon : (s.apply (.cancel t)).1.mon = s.mon.applyOp (.cancel t) := by
    simp only [apply]
    cases s.ts[t]? with
    | none => rfl
    | some k =>
      simp only []
      split
      · rfl
      · cases k.pc <;> simp only [] <;> (try split) <;> (try split) <;> rfl
  have hts : (s.apply (.cancel t)).1.ts = s.ts ∨
      ((s.apply (.cancel t)).1.ts = s.ts.modify t (fun k => { k with mustCancel := true }) ∧ t < s.ts.length) := by
    simp only [apply]
    cases hk : s.ts[t]? with
    | none => left; rfl
    | some k =>
      have ht := (List.getElem?_eq_some_iff.mp hk).1
      simp only []
      split
      · left; rfl
      · right; refine ⟨?_, ht⟩
        cases k.pc <;> simp only [] <;> (try split) <;> (try split) <;> rfl
  have hcache : (s.apply (.cancel t)).1.cache = s.cache := by
    simp only [apply]
    cases s.ts[t]? with
    | none => rfl
    | some k =>
      simp only []
      split
      · rfl
      · cases k.pc <;> simp only [] <;> (try split) <;> (try split) <;> rfl
  have hne : (s.apply (.cancel t)).1.nextEvt = s.nextEvt := by
    simp only [apply]
    cases s.ts[t]? with
    | none => rfl
    | some k =>
      simp only []
      split
      · rfl
      · cases k.pc <;> simp only [] <;> (try split) <;> (try split) <;> rfl
  have hdls : (s.apply (.cancel t)).1.mon.dls = s.mon.dls := by rw [hmon]; rfl
  have hep : ∀ l, (s.apply (.cancel t)).1.mon.epochOf l = s.mon.epochOf l := by intro l; rw [hmon]; rfl
  have hpc : ∀ t', (s.apply (.cancel t)).1.pcOf t' = s.pcOf t' := by
    intro t'
    rcases hts with h1 | ⟨h1, _⟩
    · simp only [pcOf, h1]
    · simp only [pcOf, h1, pcOf_modify_mc]
  have hst : ∀ t', (s.apply (.cancel t)).1.stOf t' = s.stOf t' := by
    intro t'
    simp only [stOf, Mon.statusOf, hmon]
    cases h1 : (s.mon.applyOp (.cancel t)).tasks[t']? with
    | none =>
      have : s.mon.tasks[t']? = none := by
        simp only [Mon.applyOp, List.getElem?_modify] at h1
        cases h2 : s.mon.tasks[t']? with
        | none => rfl
        | some x => simp [h2] at h1
      simp [this]
    | some m' =>
      obtain ⟨m0, g0, _, _, _, g4, _⟩ := tasks_cancel_inv _ _ _ _ h1
      simp [g0, g4]
  have hloc : ∀ t', (s.apply (.cancel t)).1.locOf t' = s.locOf t' := by
    intro t'; simp only [locOf, hmon, tasks_cancel_loc]
  have htl : (s.apply (.cancel t)).1.mon.tasks.length = s.mon.tasks.length := by
    rw [hmon]; simp [Mon.applyOp]
  constructor
  · rw [htl]
    rcases hts with h1 | ⟨h1, _⟩
    · rw [h1]; exact h.len
    · rw [h1, List.length_modify]; exact h.len
  · intro t' p hp hne'; rw [hpc] at hp; rw [hst]; exact h.alive t' p hp hne'
  · intro t' k hk hm
    have hlt : t' < s.mon.tasks.length := by
      have := (List.getElem?_eq_some_iff.mp hk).1
      rcases hts with h1 | ⟨h1, _⟩
      · rw [h1, h.len] at this; exact this
      · rw [h1, List.length_modify, h.len] at this; exact this
    have : ∃ m', (s.mon.applyOp (.cancel t)).tasks[t']? = some m' := by
      refine ⟨_, List.getElem?_eq_getElem (by simp [Mon.applyOp]; exact hlt)⟩
    obtain ⟨m', hm'⟩ := this
    obtain ⟨m0, g0, _, _, _, _, g5, g6⟩ := tasks_cancel_inv _ _ _ _ hm'
    refine ⟨m', by rw [hmon]; exact hm', ?_⟩
    by_cases htt : t' = t
    · exact g6 htt
    · apply g5
      have hk0 : s.ts[t']? = some k := by
        rcases hts with h1 | ⟨h1, _⟩
        · rw [h1] at hk; exact hk
        · rw [h1, List.getElem?_modify_ne _ _ (Ne.symm htt)] at hk; exact hk
      obtain ⟨m1, q1, q2⟩ := h.mc t' k hk0 hm
      rw [g0] at q1; cases q1; exact q2
  · intro i d hd; rw [hdls] at hd; rw [hep]; exact h.dlEpoch i d hd
  · intro t' m hm
    rw [hmon] at hm
    obtain ⟨m0, g0, _, _, g3, _⟩ := tasks_cancel_inv _ _ _ _ hm
    rw [hdls, g3]; exact h.startDl t' m0 g0
  · intro t' m hm
    rw [hmon] at hm
    obtain ⟨m0, g0, g1, g2, _, _⟩ := tasks_cancel_inv _ _ _ _ hm
    rw [hep, g1, g2]; exact h.startEp t' m0 g0
  · intro i t' d m hd hm hl hlt
    rw [hmon] at hm; rw [hdls] at hd
    obtain ⟨m0, g0, g1, g2, g3, _⟩ := tasks_cancel_inv _ _ _ _ hm
    rw [g3]
    exact h.later i t' d m0 hd g0 (by rw [← g1]; exact hl) (by rw [← g2]; exact hlt)
  · intro t' d e hp
    rw [hpc] at hp; rw [hloc, hdls, hcache, hep]; exact h.own t' d e hp
  · intro l v hc; rw [hcache] at hc; rw [hdls, hep]; exact h.res l v hc
  · intro i d hd hc hs
    rw [hdls] at hd; rw [hep] at hc; rw [hst] at hs; rw [hcache]; exact h.cur i d hd hc hs
  · intro i j d d' hd hd' hl hc hc' hs hs'
    rw [hdls] at hd hd'; rw [hep] at hc hc'; rw [hst] at hs hs'
    exact h.uniq i j d d' hd hd' hl hc hc' hs hs'
  · intro t' d e hp; rw [hpc] at hp; rw [hne]; exact h.fresh t' d e hp
  · rw [hcache]; exact h.nodup

end St
end Upnp.C18
