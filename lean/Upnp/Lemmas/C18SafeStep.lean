/-
  C18 — the safety invariant through one scheduler step, and the monitor's event checks.
-/
import Upnp.Lemmas.C18Safe
namespace Upnp.C18
open Upnp
namespace St

/-- `InvS` only looks at the monitor part, the program counters, the cache and the event counter -/
theorem invS_congr (s s' : St) (hm : s'.mon = s.mon) (ht : s'.ts = s.ts) (hc : s'.cache = s.cache)
    (hn : s'.nextEvt = s.nextEvt) (h : InvS s) : InvS s' := by
  obtain ⟨m, ts, dc, c, r, w, n⟩ := s
  obtain ⟨m', ts', dc', c', r', w', n'⟩ := s'
  simp only at hm ht hc hn
  subst hm ht hc hn
  exact ⟨h.len, h.alive, h.mc, h.dlEpoch, h.startDl, h.startEp, h.later, h.own, h.res, h.cur, h.uniq, h.fresh, h.nodup⟩

/-- storing the released outcome over our own marker -/
theorem invS_store (s : St) (t d e : Nat) (v : Out) (dl : MDl) (h : InvS s)
    (hp : s.pcOf t = some (.waitDl d e)) (hd : s.mon.dls[d]? = some dl) (hv : dl.outcome = some v) :
    InvS (s.storeIfOurs (s.locOf t) e v) := by
  unfold storeIfOurs
  split
  · rename_i hc
    obtain ⟨dl', g1, g2, g3, g4⟩ := h.own t d e hp
    rw [hd] at g1; cases g1
    have hget : ∀ l, PyDict.get? (PyDict.set s.cache (s.locOf t) (.result v)) l =
        if s.locOf t = l then some (.result v) else PyDict.get? s.cache l := by
      intro l
      by_cases hl : s.locOf t = l
      · subst hl; simp [PyDict.get?_set_self]
      · simp [hl, PyDict.get?_set_ne _ _ _ _ hl]
    constructor
    · exact h.len
    · exact h.alive
    · exact h.mc
    · exact h.dlEpoch
    · exact h.startDl
    · exact h.startEp
    · exact h.later
    · intro t' d' e' hp'
      obtain ⟨x, q1, q2, q3, q4⟩ := h.own t' d' e' hp'
      refine ⟨x, q1, q2, q3, ?_⟩
      intro hc'
      have hc'' := hc'
      simp only [] at hc''
      rw [hget] at hc''
      split at hc''
      · simp at hc''
      · exact q4 hc''
    · intro l w hc'
      have hc'' := hc'
      simp only [] at hc''
      rw [hget] at hc''
      split at hc''
      · rename_i hl
        simp only [Option.some.injEq, Entry.result.injEq] at hc''
        subst hc'' hl
        exact ⟨d, dl, hd, g2, hv, g4 hc⟩
      · exact h.res l w hc''
    · intro i x hx hcur hs
      show (PyDict.get? (PyDict.set s.cache (s.locOf t) (.result v)) x.loc).isSome = true
      rw [hget]
      split
      · rfl
      · exact h.cur i x hx hcur hs
    · exact h.uniq
    · exact h.fresh
    · exact PyDict.nodup_keys_set _ _ _ h.nodup
  · exact h


theorem tasks_setStatus (m : Mon) (t i : Nat) (st : Status) (m' : MTask) (h : (m.setStatus t st).tasks[i]? = some m') :
    ∃ m0 : MTask, m.tasks[i]? = some m0 ∧ m'.loc = m0.loc ∧ m'.startEpoch = m0.startEpoch ∧ m'.startDl = m0.startDl
      ∧ m'.cancelReq = m0.cancelReq ∧ m'.status = (if t = i then st else m0.status) := by
  simp only [Mon.setStatus, List.getElem?_modify] at h
  cases h0 : m.tasks[i]? with
  | none => simp [h0] at h
  | some m0 =>
    simp only [h0, Option.map_eq_map, Option.map_some, Option.some.injEq] at h
    refine ⟨m0, rfl, ?_⟩
    subst h
    by_cases h1 : t = i <;> simp [h1]

theorem stOf_setStatus (m : Mon) (t i : Nat) (st : Status) :
    (m.setStatus t st).statusOf i = if t = i then (m.statusOf i).map (fun _ => st) else m.statusOf i := by
  simp only [Mon.statusOf, Mon.setStatus, List.getElem?_modify]
  cases m.tasks[i]? with
  | none => by_cases h : t = i <;> simp [h]
  | some k => by_cases h : t = i <;> simp [h]

def endSt (s : St) (t : Nat) (st : Status) (f : TState → TState) (er : Bool) : St :=
  { s with ts := s.ts.modify t f, mon := s.mon.setStatus t st,
           cache := if er then PyDict.erase s.cache (s.locOf t) else s.cache }

/-- task `t` ends with status `st` (`returned v` or `cancelled`); if `er`, its own marker is removed first -/
theorem invS_end (s : St) (t : Nat) (p : Pc) (st : Status) (f : TState → TState) (er : Bool) (h : InvS s)
    (hp : s.pcOf t = some p) (hpd : p ≠ .done)
    (hf1 : ∀ k, (f k).pc = .done) (hf2 : ∀ k, (f k).mustCancel = true → k.mustCancel = true)
    (her : er = true → st = .cancelled ∧ ∃ d e, p = .waitDl d e ∧ PyDict.get? s.cache (s.locOf t) = some (.marker e)) :
    InvS (endSt s t st f er) := by
  have ht : t < s.ts.length := pcOf_lt s t p hp
  have hpend : s.stOf t = some .pending := h.alive t p hp hpd
  have hpc : ∀ t', (endSt s t st f er).pcOf t' = if t' = t then some .done else s.pcOf t' := by
    intro t'
    have := pcOf_modify s t t' f ht
    simp only [pcOf, endSt] at this ⊢
    rw [this]
    by_cases h1 : t' = t
    · simp [h1, List.getElem?_eq_getElem ht, hf1]
    · simp [h1]
  have hst : ∀ x, (s.mon.setStatus t st).statusOf x ≠ some .cancelled → s.stOf x ≠ some .cancelled := by
    intro x h1 h2
    rw [stOf_setStatus] at h1
    by_cases hx : t = x
    · subst hx; rw [hpend] at h2; simp at h2
    · simp only [hx, if_false] at h1; exact h1 h2
  have hloc : ∀ t', (endSt s t st f er).locOf t' = s.locOf t' := by
    intro t'; simp only [locOf, endSt, locOf_setStatus]
  constructor
  · simp [endSt, Mon.setStatus, h.len]
  · intro t' p' hp' hne
    rw [hpc] at hp'
    split at hp'
    · cases hp'; exact absurd rfl hne
    · rename_i hne'
      show (s.mon.setStatus t st).statusOf t' = _
      rw [stOf_setStatus, if_neg (Ne.symm hne')]
      exact h.alive t' p' hp' hne
  · intro t' k hk hm
    have hk' : (s.ts.modify t f)[t']? = some k := hk
    rw [List.getElem?_modify] at hk'
    cases h0 : s.ts[t']? with
    | none => simp [h0] at hk'
    | some k0 =>
      simp only [h0, Option.map_eq_map, Option.map_some, Option.some.injEq] at hk'
      have hm0 : k0.mustCancel = true := by
        by_cases h1 : t = t'
        · simp only [h1, if_true] at hk'; subst hk'; exact hf2 _ hm
        · simp only [h1, if_false] at hk'; subst hk'; exact hm
      obtain ⟨m0, q1, q2⟩ := h.mc t' k0 h0 hm0
      have : ∃ m', (s.mon.setStatus t st).tasks[t']? = some m' :=
        ⟨_, List.getElem?_eq_getElem (by simp [Mon.setStatus]; exact (List.getElem?_eq_some_iff.mp q1).1)⟩
      obtain ⟨m', hm'⟩ := this
      obtain ⟨m1, r1, _, _, _, r5, _⟩ := tasks_setStatus _ _ _ _ _ hm'
      rw [q1] at r1; cases r1
      exact ⟨m', hm', by rw [r5]; exact q2⟩
  · exact h.dlEpoch
  · intro t' m hm
    obtain ⟨m0, r1, _, _, r4, _⟩ := tasks_setStatus _ _ _ _ _ hm
    show m.startDl ≤ s.mon.dls.length
    rw [r4]; exact h.startDl t' m0 r1
  · intro t' m hm
    obtain ⟨m0, r1, r2, r3, _⟩ := tasks_setStatus _ _ _ _ _ hm
    show m.startEpoch ≤ s.mon.epochOf m.loc
    rw [r2, r3]; exact h.startEp t' m0 r1
  · intro i t' d m hd hm hl hlt
    obtain ⟨m0, r1, r2, r3, r4, _⟩ := tasks_setStatus _ _ _ _ _ hm
    rw [r4]
    exact h.later i t' d m0 hd r1 (by rw [← r2]; exact hl) (by rw [← r3]; exact hlt)
  · intro t' d e hp'
    rw [hpc] at hp'
    split at hp'
    · simp at hp'
    · rename_i hne'
      obtain ⟨x, q1, q2, q3, q4⟩ := h.own t' d e hp'
      refine ⟨x, q1, by rw [hloc]; exact q2, q3, ?_⟩
      intro hc
      rw [hloc] at hc
      have hc' : PyDict.get? (if er = true then PyDict.erase s.cache (s.locOf t) else s.cache) (s.locOf t') = some (.marker e) := hc
      show x.epoch = s.mon.epochOf _
      rw [hloc t']
      apply q4
      cases er with
      | false => simpa using hc'
      | true =>
        simp only [if_true] at hc'
        by_cases hl : s.locOf t = s.locOf t'
        · rw [← hl, PyDict.get?_erase_self _ _ h.nodup] at hc'; simp at hc'
        · rw [PyDict.get?_erase_ne _ _ _ hl] at hc'; exact hc'
  · intro l v hc
    have hc' : PyDict.get? (if er = true then PyDict.erase s.cache (s.locOf t) else s.cache) l = some (.result v) := hc
    apply h.res l v
    cases er with
    | false => simpa using hc'
    | true =>
      simp only [if_true] at hc'
      by_cases hl : s.locOf t = l
      · rw [← hl, PyDict.get?_erase_self _ _ h.nodup] at hc'; simp at hc'
      · rw [PyDict.get?_erase_ne _ _ _ hl] at hc'; exact hc'
  · intro i x hx hcur hs
    have hs0 := hst _ hs
    have hold := h.cur i x hx hcur hs0
    show (PyDict.get? (if er = true then PyDict.erase s.cache (s.locOf t) else s.cache) x.loc).isSome = true
    cases her' : er with
    | false => simpa using hold
    | true =>
      simp only [if_true]
      obtain ⟨hcanc, d, e, hpe, hmk⟩ := her her'
      by_cases hl : s.locOf t = x.loc
      · exfalso
        subst hpe
        obtain ⟨dl, q1, q2, q3, q4⟩ := h.own t d e hp
        have hdcur := q4 hmk
        have hown : s.stOf dl.owner ≠ some .cancelled := by rw [q3, hpend]; simp
        have := h.uniq i d x dl hx q1 (by rw [q2]; exact hl.symm) hcur (by rw [q2]; exact hdcur) hs0 hown
        subst this
        have hx' : s.mon.dls[i]? = some x := hx
        rw [hx'] at q1; cases q1
        apply hs
        show (s.mon.setStatus t st).statusOf x.owner = _
        rw [q3, stOf_setStatus, hcanc]
        simp only [if_true]
        have : s.mon.statusOf t = some .pending := hpend
        rw [this]; rfl
      · rw [PyDict.get?_erase_ne _ _ _ hl]; exact hold
  · intro i j x y hx hy hl hc1 hc2 hs1 hs2
    exact h.uniq i j x y hx hy hl hc1 hc2 (hst _ hs1) (hst _ hs2)
  · intro t' d e hp'
    rw [hpc] at hp'
    split at hp'
    · simp at hp'
    · exact h.fresh t' d e hp'
  · show (PyDict.keys (if er = true then PyDict.erase s.cache (s.locOf t) else s.cache)).Nodup
    cases er with
    | false => simpa using h.nodup
    | true => simpa using PyDict.nodup_keys_erase _ _ h.nodup


theorem ts_setPc_inv (s : St) (t t' : Nat) (pc : Pc) (k' : TState) (h : (s.setPc t pc).ts[t']? = some k') :
    ∃ k0 : TState, s.ts[t']? = some k0 ∧ k'.mustCancel = k0.mustCancel := by
  simp only [setPc, List.getElem?_modify] at h
  cases h0 : s.ts[t']? with
  | none => simp [h0] at h
  | some k0 =>
    simp only [h0, Option.map_eq_map, Option.map_some, Option.some.injEq] at h
    refine ⟨k0, rfl, ?_⟩
    subst h
    by_cases h1 : t = t' <;> simp [h1]

/-- the "wait on another lookup's marker" branch: only `t`'s program counter changes -/
theorem invS_wait (s : St) (t : Nat) (p : Pc) (e' : Nat) (h : InvS s) (hp : s.pcOf t = some p) (hpd : p ≠ .done) :
    InvS (s.setPc t (.waitEvt e')) := by
  have ht : t < s.ts.length := pcOf_lt s t p hp
  have hpc := fun t' => pcOf_setPc s t t' (.waitEvt e') ht
  constructor
  · simp only [setPc, List.length_modify]; exact h.len
  · intro t' p' hp' hne
    rw [hpc] at hp'
    split at hp'
    · rename_i heq; subst heq; exact h.alive _ p hp hpd
    · exact h.alive t' p' hp' hne
  · intro t' k hk hm
    obtain ⟨k0, g1, g2⟩ := ts_setPc_inv s t t' _ k hk
    exact h.mc t' k0 g1 (by rw [← g2]; exact hm)
  · exact h.dlEpoch
  · exact h.startDl
  · exact h.startEp
  · exact h.later
  · intro t' d e hp'
    rw [hpc] at hp'
    split at hp'
    · simp at hp'
    · exact h.own t' d e hp'
  · exact h.res
  · exact h.cur
  · exact h.uniq
  · intro t' d e hp'
    rw [hpc] at hp'
    split at hp'
    · simp at hp'
    · exact h.fresh t' d e hp'
  · exact h.nodup

/-- the state after installing a marker and issuing the request -/
def installSt (s : St) (t : Nat) : St :=
  (({ s with cache := PyDict.set s.cache (s.locOf t) (.marker s.nextEvt), nextEvt := s.nextEvt + 1 } : St).setPc t
    (.waitDl s.mon.dls.length s.nextEvt)).emit (.requested t (s.locOf t))

theorem invS_install (s : St) (t : Nat) (p : Pc) (h : InvS s) (hp : s.pcOf t = some p) (hpd : p ≠ .done)
    (hc : PyDict.get? s.cache (s.locOf t) = none) : InvS (installSt s t) := by
  have ht : t < s.ts.length := pcOf_lt s t p hp
  have hpc : ∀ t', (installSt s t).pcOf t' = if t' = t then some (.waitDl s.mon.dls.length s.nextEvt) else s.pcOf t' := by
    intro t'
    show (St.setPc _ t _).pcOf t' = _
    rw [pcOf_setPc _ _ _ _ (by exact ht)]; rfl
  have hdls : (installSt s t).mon.dls = s.mon.dls ++
      [{ loc := s.locOf t, owner := t, epoch := s.mon.epochOf (s.locOf t), minEpoch := s.mon.minEpochOf (s.locOf t), outcome := none }] := rfl
  have htasks : (installSt s t).mon.tasks = s.mon.tasks := rfl
  have hep : ∀ l, (installSt s t).mon.epochOf l = s.mon.epochOf l := fun _ => rfl
  have hst : ∀ x, (installSt s t).stOf x = s.stOf x := fun _ => rfl
  have hloc : ∀ x, (installSt s t).locOf x = s.locOf x := fun _ => rfl
  have hcache : (installSt s t).cache = PyDict.set s.cache (s.locOf t) (.marker s.nextEvt) := rfl
  have hget : ∀ l, PyDict.get? (installSt s t).cache l =
      if s.locOf t = l then some (.marker s.nextEvt) else PyDict.get? s.cache l := by
    intro l
    rw [hcache]
    by_cases hl : s.locOf t = l
    · subst hl; simp [PyDict.get?_set_self]
    · simp [hl, PyDict.get?_set_ne _ _ _ _ hl]
  have hnew : ∀ (i : Nat) (x : MDl), (installSt s t).mon.dls[i]? = some x →
      s.mon.dls[i]? = some x ∨ (i = s.mon.dls.length ∧
        x = { loc := s.locOf t, owner := t, epoch := s.mon.epochOf (s.locOf t), minEpoch := s.mon.minEpochOf (s.locOf t), outcome := none }) := by
    intro i x hx
    rw [hdls, getElem?_concat] at hx
    split at hx
    · right; rename_i heq; exact ⟨heq, by cases hx; rfl⟩
    · left; exact hx
  have hold : ∀ (i : Nat) (x : MDl), s.mon.dls[i]? = some x → (installSt s t).mon.dls[i]? = some x := by
    intro i x hx; rw [hdls]; exact dls_append_old _ _ _ _ hx
  -- no live current-epoch download of this location exists (the cache entry is absent)
  have hnone : ∀ (i : Nat) (x : MDl), s.mon.dls[i]? = some x → x.loc = s.locOf t → x.epoch = s.mon.epochOf x.loc →
      s.stOf x.owner ≠ some .cancelled → False := by
    intro i x hx hl hcur hs
    have := h.cur i x hx hcur hs
    rw [hl, hc] at this; simp at this
  constructor
  · show (List.modify _ _ _).length = s.mon.tasks.length
    rw [List.length_modify]; exact h.len
  · intro t' p' hp' hne
    rw [hpc] at hp'; rw [hst]
    split at hp'
    · rename_i heq; subst heq; exact h.alive _ p hp hpd
    · exact h.alive t' p' hp' hne
  · intro t' k hk hm
    have hk' : (St.setPc ({ s with cache := PyDict.set s.cache (s.locOf t) (.marker s.nextEvt), nextEvt := s.nextEvt + 1 } : St)
        t (.waitDl s.mon.dls.length s.nextEvt)).ts[t']? = some k := hk
    obtain ⟨k0, g1, g2⟩ := ts_setPc_inv _ t t' _ k hk'
    rw [htasks]
    exact h.mc t' k0 g1 (by rw [← g2]; exact hm)
  · intro i x hx
    rw [hep]
    rcases hnew i x hx with h1 | ⟨_, h1⟩
    · exact h.dlEpoch i x h1
    · subst h1; exact Nat.le_refl _
  · intro t' m hm
    rw [htasks] at hm; rw [hdls, List.length_append]
    have := h.startDl t' m hm; omega
  · intro t' m hm; rw [htasks] at hm; rw [hep]; exact h.startEp t' m hm
  · intro i t' x m hx hm hl hlt
    rw [htasks] at hm
    rcases hnew i x hx with h1 | ⟨h1, _⟩
    · exact h.later i t' x m h1 hm hl hlt
    · rw [h1]; exact h.startDl t' m hm
  · intro t' d e hp'
    rw [hpc] at hp'
    split at hp'
    · rename_i heq
      simp only [Option.some.injEq, Pc.waitDl.injEq] at hp'
      obtain ⟨rfl, rfl⟩ := hp'
      subst heq
      refine ⟨_, by rw [hdls]; exact List.getElem?_concat_length, rfl, rfl, ?_⟩
      intro _; rfl
    · rename_i hne
      obtain ⟨x, q1, q2, q3, q4⟩ := h.own t' d e hp'
      refine ⟨x, hold d x q1, by rw [hloc]; exact q2, q3, ?_⟩
      intro hcc
      rw [hloc, hget] at hcc; rw [hep, hloc]
      split at hcc
      · have hf := h.fresh t' d e hp'
        simp only [Option.some.injEq, Entry.marker.injEq] at hcc
        omega
      · exact q4 hcc
  · intro l v hcc
    rw [hget] at hcc
    split at hcc
    · simp at hcc
    · obtain ⟨i, x, q1, q2, q3, q4⟩ := h.res l v hcc
      exact ⟨i, x, hold i x q1, q2, q3, by rw [hep]; exact q4⟩
  · intro i x hx hcur hs
    rw [hget]
    split
    · rfl
    · rename_i hne
      rcases hnew i x hx with h1 | ⟨_, h1⟩
      · exact h.cur i x h1 hcur hs
      · subst h1; exact absurd rfl hne
  · intro i j x y hx hy hl hc1 hc2 hs1 hs2
    rw [hep] at hc1 hc2; rw [hst] at hs1 hs2
    rcases hnew i x hx with h1 | ⟨h1, h1'⟩ <;> rcases hnew j y hy with h2 | ⟨h2, h2'⟩
    · exact h.uniq i j x y h1 h2 hl hc1 hc2 hs1 hs2
    · exfalso; subst h2'
      exact hnone i x h1 hl hc1 hs1
    · exfalso; subst h1'
      exact hnone j y h2 hl.symm hc2 hs2
    · rw [h1, h2]
  · intro t' d e hp'
    show e < s.nextEvt + 1
    rw [hpc] at hp'
    split at hp'
    · simp only [Option.some.injEq, Pc.waitDl.injEq] at hp'; omega
    · have := h.fresh t' d e hp'; omega
  · rw [hcache]; exact PyDict.nodup_keys_set _ _ _ h.nodup


/-- the monitor's record of an unfinished task -/
theorem mtask_of (s : St) (t : Nat) (p : Pc) (h : InvS s) (hp : s.pcOf t = some p) (hpd : p ≠ .done) :
    ∃ m : MTask, s.mon.tasks[t]? = some m ∧ m.status = .pending ∧ m.loc = s.locOf t := by
  have ht : t < s.mon.tasks.length := by rw [← h.len]; exact pcOf_lt s t p hp
  have hm : s.mon.tasks[t]? = some s.mon.tasks[t] := List.getElem?_eq_getElem ht
  have hst := h.alive t p hp hpd
  simp only [stOf, Mon.statusOf, hm, Option.map_some, Option.some.injEq] at hst
  exact ⟨_, hm, hst, by simp [locOf, hm]⟩

/-- **shared outcome**: returning what the cache holds passes the monitor's `okReturn` -/
theorem okReturn_of (s : St) (t : Nat) (p : Pc) (v : Out) (h : InvS s) (hp : s.pcOf t = some p) (hpd : p ≠ .done)
    (hc : PyDict.get? s.cache (s.locOf t) = some (.result v)) : s.mon.okReturn t v = true := by
  obtain ⟨m, hm, hst, hl⟩ := mtask_of s t p h hp hpd
  obtain ⟨i, d, q1, q2, q3, q4⟩ := h.res _ v hc
  unfold Mon.okReturn
  simp only [hm, hst, beq_self_eq_true, Bool.true_and, List.any_eq_true, List.mem_range]
  refine ⟨i, (List.getElem?_eq_some_iff.mp q1).1, ?_⟩
  simp only [q1, Bool.and_eq_true, Bool.or_eq_true, beq_iff_eq, decide_eq_true_eq]
  refine ⟨⟨by rw [q2, hl], q3⟩, ?_⟩
  have h1 := h.startEp t m hm
  rw [hl, ← q4] at h1
  by_cases he : d.epoch = m.startEpoch
  · left; exact he
  · right
    exact h.later i t d m q1 hm (by rw [hl, q2]) (by omega)

/-- **single flight**: issuing a request when the cache has no entry passes the monitor's `okRequest` -/
theorem okRequest_of (s : St) (t : Nat) (p : Pc) (h : InvS s) (hp : s.pcOf t = some p) (hpd : p ≠ .done)
    (hc : PyDict.get? s.cache (s.locOf t) = none) : s.mon.okRequest t (s.locOf t) = true := by
  obtain ⟨m, hm, hst, hl⟩ := mtask_of s t p h hp hpd
  unfold Mon.okRequest
  simp only [hm, hst, hl, beq_self_eq_true, Bool.and_self, Bool.true_and, List.all_eq_true]
  intro d hd
  obtain ⟨i, hi, rfl⟩ := List.getElem_of_mem hd
  have q1 : s.mon.dls[i]? = some s.mon.dls[i] := List.getElem?_eq_getElem hi
  by_cases hcond : (s.mon.dls[i].loc == s.locOf t && s.mon.dls[i].epoch == s.mon.epochOf (s.locOf t)) = true
  · by_cases hs : s.mon.statusOf s.mon.dls[i].owner = some .cancelled
    · simp [hs]
    · exfalso
      simp only [Bool.and_eq_true, beq_iff_eq] at hcond
      have := h.cur i _ q1 (by rw [hcond.1]; exact hcond.2) hs
      rw [hcond.1, hc] at this; simp at this
  · simp only [Bool.not_eq_true] at hcond
    simp [hcond]

/-- a lookup ends cancelled only after `cancel` was called on it -/
theorem okCancelled_of (s : St) (t : Nat) (k : TState) (h : InvS s) (hk : s.ts[t]? = some k)
    (hm : k.mustCancel = true) (hpd : k.pc ≠ .done) : s.mon.okCancelled t = true := by
  have hp : s.pcOf t = some k.pc := by simp [pcOf, hk]
  obtain ⟨m, hmm, hst, _⟩ := mtask_of s t k.pc h hp hpd
  obtain ⟨m', q1, q2⟩ := h.mc t k hk hm
  rw [hmm] at q1; cases q1
  simp [Mon.okCancelled, hmm, q2, hst]

end St
end Upnp.C18
