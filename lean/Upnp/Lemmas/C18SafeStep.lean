/-
  C18 — the safety invariant through one scheduler step, and the monitor's event checks.
-/
import Upnp.Lemmas.C18Safe
namespace Upnp.C18
open Upnp
namespace St

/-- `InvS` only looks at the monitor part, the program counters, the cache and the event counter -/
theorem invS_congr (s s' : St) (hm : s'.mon = s.mon) (ht : s'.ts = s.ts) (hc : s'.cache = s.cache)
    (hn : s'.nextEvt = s.nextEvt) (h : InvS s) : InvS s' := by
  obtain ⟨m, ts, dc, c, r, w, n⟩ := s
  obtain ⟨m', ts', dc', c', r', w', n'⟩ := s'
  simp only at hm ht hc hn
  subst hm ht hc hn
  exact ⟨h.len, h.alive, h.mc, h.dlEpoch, h.startDl, h.startEp, h.later, h.own, h.res, h.cur, h.uniq, h.fresh, h.nodup⟩

/-- storing the released outcome over our own marker -/
theorem invS_store (s : St) (t d e : Nat) (v : Out) (dl : MDl) (h : InvS s)
    (hp : s.pcOf t = some (.waitDl d e)) (hd : s.mon.dls[d]? = some dl) (hv : dl.outcome = some v) :
    InvS (s.storeIfOurs (s.locOf t) e v) := by
  unfold storeIfOurs
  split
  · rename_i hc
    obtain ⟨dl', g1, g2, g3, g4⟩ := h.own t d e hp
    rw [hd] at g1; cases g1
    have hget : ∀ l, PyDict.get? (PyDict.set s.cache (s.locOf t) (.result v)) l =
        if s.locOf t = l then some (.result v) else PyDict.get? s.cache l := by
      intro l
      by_cases hl : s.locOf t = l
      · subst hl; simp [PyDict.get?_set_self]
      · simp [hl, PyDict.get?_set_ne _ _ _ _ hl]
    constructor
    · exact h.len
    · exact h.alive
    · exact h.mc
    · exact h.dlEpoch
    · exact h.startDl
    · exact h.startEp
    · exact h.later
    · intro t' d' e' hp'
      obtain ⟨x, q1, q2, q3, q4⟩ := h.own t' d' e' hp'
      refine ⟨x, q1, q2, q3, ?_⟩
      intro hc'
      have hc'' := hc'
      simp only [] at hc''
      rw [hget] at hc''
      split at hc''
      · simp at hc''
      · exact q4 hc''
    · intro l w hc'
      have hc'' := hc'
      simp only [] at hc''
      rw [hget] at hc''
      split at hc''
      · rename_i hl
        simp only [Option.some.injEq, Entry.result.injEq] at hc''
        subst hc'' hl
        exact ⟨d, dl, hd, g2, hv, g4 hc⟩
      · exact h.res l w hc''
    · intro i x hx hcur hs
      show (PyDict.get? (PyDict.set s.cache (s.locOf t) (.result v)) x.loc).isSome = true
      rw [hget]
      split
      · rfl
      · exact h.cur i x hx hcur hs
    · exact h.uniq
    · exact h.fresh
    · exact PyDict.nodup_keys_set _ _ _ h.nodup
  · exact h


theorem tasks_setStatus (m : Mon) (t i : Nat) (st : Status) (m' : MTask) (h : (m.setStatus t st).tasks[i]? = some m') :
    ∃ m0 : MTask, m.tasks[i]? = some m0 ∧ m'.loc = m0.loc ∧ m'.startEpoch = m0.startEpoch ∧ m'.startDl = m0.startDl
      ∧ m'.cancelReq = m0.cancelReq ∧ m'.status = (if t = i then st else m0.status) := by
  simp only [Mon.setStatus, List.getElem?_modify] at h
  cases h0 : m.tasks[i]? with
  | none => simp [h0] at h
  | some m0 =>
    simp only [h0, Option.map_eq_map, Option.map_some, Option.some.injEq] at h
    refine ⟨m0, rfl, ?_⟩
    subst h
    by_cases h1 : t = i <;> simp [h1]

theorem stOf_setStatus (m : Mon) (t i : Nat) (st : Status) :
    (m.setStatus t st).statusOf i = if t = i then (m.statusOf i).map (fun _ => st) else m.statusOf i := by
  simp only [Mon.statusOf, Mon.setStatus, List.getElem?_modify]
  cases m.tasks[i]? with
  | none => by_cases h : t = i <;> simp [h]
  | some k => by_cases h : t = i <;> simp [h]

def endSt (s : St) (t : Nat) (st : Status) (f : TState → TState) (er : Bool) : St :=
  { s with ts := s.ts.modify t f, mon := s.mon.setStatus t st,
           cache := if er then PyDict.erase s.cache (s.locOf t) else s.cache }

/-- task `t` ends with status `st` (`returned v` or `cancelled`); if `er`, its own marker is removed first -/
theorem invS_end (s : St) (t : Nat) (p : Pc) (st : Status) (f : TState → TState) (er : Bool) (h : InvS s)
    (hp : s.pcOf t = some p) (hpd : p ≠ .done)
    (hf1 : ∀ k, (f k).pc = .done) (hf2 : ∀ k, (f k).mustCancel = true → k.mustCancel = true)
    (her : er = true → st = .cancelled ∧ ∃ d e, p = .waitDl d e ∧ PyDict.get? s.cache (s.locOf t) = some (.marker e)) :
    InvS (endSt s t st f er) := by
  have ht : t < s.ts.length := pcOf_lt s t p hp
  have hpend : s.stOf t = some .pending := h.alive t p hp hpd
  have hpc : ∀ t', (endSt s t st f er).pcOf t' = if t' = t then some .done else s.pcOf t' := by
    intro t'
    have := pcOf_modify s t t' f ht
    simp only [pcOf, endSt] at this ⊢
    rw [this]
    by_cases h1 : t' = t
    · simp [h1, List.getElem?_eq_getElem ht, hf1]
    · simp [h1]
  have hst : ∀ x, (s.mon.setStatus t st).statusOf x ≠ some .cancelled → s.stOf x ≠ some .cancelled := by
    intro x h1 h2
    rw [stOf_setStatus] at h1
    by_cases hx : t = x
    · subst hx; rw [hpend] at h2; simp at h2
    · simp only [hx, if_false] at h1; exact h1 h2
  have hloc : ∀ t', (endSt s t st f er).locOf t' = s.locOf t' := by
    intro t'; simp only [locOf, endSt, locOf_setStatus]
  constructor
  · simp [endSt, Mon.setStatus, h.len]
  · intro t' p' hp' hne
    rw [hpc] at hp'
    split at hp'
    · cases hp'; exact absurd rfl hne
    · rename_i hne'
      show (s.mon.setStatus t st).statusOf t' = _
      rw [stOf_setStatus, if_neg (Ne.symm hne')]
      exact h.alive t' p' hp' hne
  · intro t' k hk hm
    have hk' : (s.ts.modify t f)[t']? = some k := hk
    rw [List.getElem?_modify] at hk'
    cases h0 : s.ts[t']? with
    | none => simp [h0] at hk'
    | some k0 =>
      simp only [h0, Option.map_eq_map, Option.map_some, Option.some.injEq] at hk'
      have hm0 : k0.mustCancel = true := by
        by_cases h1 : t = t'
        · simp only [h1, if_true] at hk'; subst hk'; exact hf2 _ hm
        · simp only [h1, if_false] at hk'; subst hk'; exact hm
      obtain ⟨m0, q1, q2⟩ := h.mc t' k0 h0 hm0
      have : ∃ m', (s.mon.setStatus t st).tasks[t']? = some m' :=
        ⟨_, List.getElem?_eq_getElem (by simp [Mon.setStatus]; exact (List.getElem?_eq_some_iff.mp q1).1)⟩
      obtain ⟨m', hm'⟩ := this
      obtain ⟨m1, r1, _, _, _, r5, _⟩ := tasks_setStatus _ _ _ _ _ hm'
      rw [q1] at r1; cases r1
      exact ⟨m', hm', by rw [r5]; exact q2⟩
  · exact h.dlEpoch
  · intro t' m hm
    obtain ⟨m0, r1, _, _, r4, _⟩ := tasks_setStatus _ _ _ _ _ hm
    show m.startDl ≤ s.mon.dls.length
    rw [r4]; exact h.startDl t' m0 r1
  · intro t' m hm
    obtain ⟨m0, r1, r2, r3, _⟩ := tasks_setStatus _ _ _ _ _ hm
    show m.startEpoch ≤ s.mon.epochOf m.loc
    rw [r2, r3]; exact h.startEp t' m0 r1
  · intro i t' d m hd hm hl hlt
    obtain ⟨m0, r1, r2, r3, r4, _⟩ := tasks_setStatus _ _ _ _ _ hm
    rw [r4]
    exact h.later i t' d m0 hd r1 (by rw [← r2]; exact hl) (by rw [← r3]; exact hlt)
  · intro t' d e hp'
    rw [hpc] at hp'
    split at hp'
    · simp at hp'
    · rename_i hne'
      obtain ⟨x, q1, q2, q3, q4⟩ := h.own t' d e hp'
      refine ⟨x, q1, by rw [hloc]; exact q2, q3, ?_⟩
      intro hc
      rw [hloc] at hc
      have hc' : PyDict.get? (if er = true then PyDict.erase s.cache (s.locOf t) else s.cache) (s.locOf t') = some (.marker e) := hc
      show x.epoch = s.mon.epochOf _
      rw [hloc t']
      apply q4
      cases er with
      | false => simpa using hc'
      | true =>
        simp only [if_true] at hc'
        by_cases hl : s.locOf t = s.locOf t'
        · rw [← hl, PyDict.get?_erase_self _ _ h.nodup] at hc'; simp at hc'
        · rw [PyDict.get?_erase_ne _ _ _ hl] at hc'; exact hc'
  · intro l v hc
    have hc' : PyDict.get? (if er = true then PyDict.erase s.cache (s.locOf t) else s.cache) l = some (.result v) := hc
    apply h.res l v
    cases er with
    | false => simpa using hc'
    | true =>
      simp only [if_true] at hc'
      by_cases hl : s.locOf t = l
      · rw [← hl, PyDict.get?_erase_self _ _ h.nodup] at hc'; simp at hc'
      · rw [PyDict.get?_erase_ne _ _ _ hl] at hc'; exact hc'
  · intro i x hx hcur hs
    have hs0 := hst _ hs
    have hold := h.cur i x hx hcur hs0
    show (PyDict.get? (if er = true then PyDict.erase s.cache (s.locOf t) else s.cache) x.loc).isSome = true
    cases her' : er with
    | false => simpa using hold
    | true =>
      simp only [if_true]
      obtain ⟨hcanc, d, e, hpe, hmk⟩ := her her'
      by_cases hl : s.locOf t = x.loc
      · exfalso
        subst hpe
        obtain ⟨dl, q1, q2, q3, q4⟩ := h.own t d e hp
        have hdcur := q4 hmk
        have hown : s.stOf dl.owner ≠ some .cancelled := by rw [q3, hpend]; simp
        have := h.uniq i d x dl hx q1 (by rw [q2]; exact hl.symm) hcur (by rw [q2]; exact hdcur) hs0 hown
        subst this
        have hx' : s.mon.dls[i]? = some x := hx
        rw [hx'] at q1; cases q1
        apply hs
        show (s.mon.setStatus t st).statusOf x.owner = _
        rw [q3, stOf_setStatus, hcanc]
        simp only [if_true]
        have : s.mon.statusOf t = some .pending := hpend
        rw [this]; rfl
      · rw [PyDict.get?_erase_ne _ _ _ hl]; exact hold
  · intro i j x y hx hy hl hc1 hc2 hs1 hs2
    exact h.uniq i j x y hx hy hl hc1 hc2 (hst _ hs1) (hst _ hs2)
  · intro t' d e hp'
    rw [hpc] at hp'
    split at hp'
    · simp at hp'
    · exact h.fresh t' d e hp'
  · show (PyDict.keys (if er = true then PyDict.erase s.cache (s.locOf t) else s.cache)).Nodup
    cases er with
    | false => simpa using h.nodup
    | true => simpa using PyDict.nodup_keys_erase _ _ h.nodup

end St
end Upnp.C18
