/-
  Helper lemmas for C19: the handler never raises; its effect on a rendered document.
-/
import Upnp.Spec.C19
import Upnp.Lemmas.PyDict
namespace Upnp.C19
open Upnp PyDict

/-! ### totality -/

theorem step_ok (st : HSt) (e : Sax) : ∃ st', step st e = .ok st' := by
  cases e with
  | stop name => simp only [step]; split <;> exact ⟨_, rfl⟩
  | start name attrs =>
    simp only [step]
    cases get? attrs sVal with
    | none => exact ⟨_, rfl⟩
    | some v =>
      have hsome : ∃ inner, get? (if contains st.changes (orZero st.current) then st.changes
          else set st.changes (orZero st.current) []) (orZero st.current) = some inner := by
        by_cases hc : contains st.changes (orZero st.current) = true
        · simp only [hc, if_true]
          simp only [contains] at hc
          exact Option.isSome_iff_exists.mp hc
        · simp only [hc]
          exact ⟨[], get?_set_self _ _ _⟩
      obtain ⟨inner, hi⟩ := hsome
      simp only [assign, hi]
      repeat' split
      all_goals exact ⟨_, rfl⟩

theorem runFrom_ok (evs : List Sax) : ∀ st, ∃ st', runFrom st evs = .ok st' := by
  induction evs with
  | nil => intro st; exact ⟨st, rfl⟩
  | cons e r ih =>
    intro st
    obtain ⟨st1, h1⟩ := step_ok st e
    simp only [runFrom, h1]
    exact ih st1

theorem runFrom_append {a b : List Sax} {st st' : HSt} (h : runFrom st a = .ok st') :
    runFrom st (a ++ b) = runFrom st' b := by
  induction a generalizing st with
  | nil => simp [runFrom] at h; subst h; rfl
  | cons e r ih =>
    simp only [runFrom, List.cons_append] at h ⊢
    cases hs : step st e with
    | error x => simp [hs] at h
    | ok st1 => simp only [hs] at h ⊢; exact ih h


/-! ### attribute order and extra attributes do not matter -/

/-- two SAX events the handler cannot tell apart: same element name, same `val` and `channel`
    (any order of the attributes, any further attributes) -/
def attrEquiv : Sax → Sax → Prop
  | .start n a, .start m b => n = m ∧ get? a sVal = get? b sVal ∧ get? a sChannel = get? b sChannel
  | .stop n, .stop m => n = m
  | _, _ => False

theorem step_attrs_congr (st : HSt) (n : S) (a b : List (S × S)) (hv : get? a sVal = get? b sVal)
    (hc : get? a sChannel = get? b sChannel) : step st (.start n a) = step st (.start n b) := by
  simp only [step, hv, hc]

theorem step_congr (st : HSt) (e e' : Sax) (h : attrEquiv e e') : step st e = step st e' := by
  cases e <;> cases e' <;> simp only [attrEquiv] at h
  · obtain ⟨rfl, hv, hc⟩ := h; exact step_attrs_congr st _ _ _ hv hc
  · subst h; rfl

/-- event streams that agree element by element in that sense -/
def attrEquivL : List Sax → List Sax → Prop
  | [], [] => True
  | a :: r, b :: s => attrEquiv a b ∧ attrEquivL r s
  | _, _ => False

theorem runFrom_congr : ∀ (evs evs' : List Sax), attrEquivL evs evs' →
    ∀ st, runFrom st evs = runFrom st evs'
  | [], [], _, _ => rfl
  | a :: r, b :: s, h, st => by
    obtain ⟨he, hr⟩ := h
    simp only [runFrom, step_congr st _ _ he]
    split
    · rfl
    · exact runFrom_congr r s hr _
  | [], _ :: _, h, _ => by simp [attrEquivL] at h
  | _ :: _, [], h, _ => by simp [attrEquivL] at h

/-! ### the effect of a rendered document -/

/-- hypotheses on an abstract document (what the renderer guarantees) -/
structure WFEntry (e : Entry) : Prop where
  name : ':' ∉ e.name
  pfx : ∀ p, e.pfx = some p → ':' ∉ p
  notInst : e.name ≠ sInstanceID

structure WF (d : LcDoc) : Prop where
  root : get? d.rootAttrs sVal = none
  entries : ∀ i ∈ d.insts, ∀ e ∈ i.entries, WFEntry e
  ipfx : ∀ i ∈ d.insts, ∀ p, i.ipfx = some p → ':' ∉ p
  looseWF : ∀ e ∈ d.loose, WFEntry e

/-- `if current_instance not in self.changes: self.changes[current_instance] = {}` -/
def ensure (ch : PyDict S (PyDict S S)) (id : S) : PyDict S (PyDict S S) :=
  if contains ch id then ch else set ch id []

/-- the effect of one entry of instance `id` on the handler's mapping -/
def applyEntry (id : S) (ch : PyDict S (PyDict S S)) (e : Entry) : PyDict S (PyDict S S) :=
  if isMaster e then set (ensure ch id) id (set ((get? (ensure ch id) id).getD []) e.name e.val)
  else ensure ch id

theorem dropWhile_colon (p name : S) (hp : ':' ∉ p) :
    (p ++ ':' :: name).dropWhile (· != ':') = ':' :: name := by
  induction p with
  | nil => simp [List.dropWhile]
  | cons c r ih =>
    have hc : c ≠ ':' := fun h => hp (h ▸ List.mem_cons_self)
    have hr : ':' ∉ r := fun h => hp (List.mem_cons_of_mem _ h)
    simp [List.dropWhile, hc, ih hr]

theorem stripPrefix_qname (e : Entry) (hw : WFEntry e) : stripPrefix (qname e) = e.name := by
  unfold stripPrefix qname
  cases hp : e.pfx with
  | none =>
    have : e.name.contains ':' = false := by simpa using hw.name
    simp only [this, Bool.false_eq_true, if_false]
  | some p =>
    have h1 : (p ++ ':' :: e.name).contains ':' = true := by simp
    simp only [h1, if_true, dropWhile_colon p e.name (hw.pfx p hp)]
    rfl

theorem qname_ne_instanceID (e : Entry) (hw : WFEntry e) : stripPrefix (qname e) ≠ sInstanceID := by
  rw [stripPrefix_qname e hw]; exact hw.notInst

theorem stripPrefix_iname (i : Inst) (hp : ∀ p, i.ipfx = some p → ':' ∉ p) :
    stripPrefix (iname i) = sInstanceID := by
  unfold iname
  cases h : i.ipfx with
  | none => decide
  | some p =>
    unfold stripPrefix
    have h1 : (p ++ ':' :: sInstanceID).contains ':' = true := by simp
    simp only [h1, if_true, dropWhile_colon p sInstanceID (hp p h)]
    rfl

theorem orZero_some (id : S) : orZero (some id) = id := rfl

theorem get?_entryAttrs_val (e : Entry) : get? (entryAttrs e) sVal = some e.val := by
  unfold entryAttrs
  cases e.chan with
  | none => simp [get?]
  | some c =>
    have : sChannel ≠ sVal := by decide
    simp [get?, this]

theorem get?_entryAttrs_channel (e : Entry) : get? (entryAttrs e) sChannel = e.chan := by
  unfold entryAttrs
  cases e.chan with
  | none =>
    have : sVal ≠ sChannel := by decide
    simp [get?, this]
  | some c => simp [get?]

theorem step_entry_start_gen (st : HSt) (e : Entry) (cur : Option S) (id : S) (hid : orZero cur = id)
    (hcur : st.current = cur) (hw : WFEntry e) :
    step st (.start (qname e) (entryAttrs e)) = .ok ⟨applyEntry id st.changes e, cur⟩ := by
  have hsome : ∃ inner, get? (ensure st.changes id) id = some inner := by
    unfold ensure
    by_cases hc : contains st.changes id = true
    · simp only [hc, if_true]
      simp only [contains] at hc
      exact Option.isSome_iff_exists.mp hc
    · simp only [hc]
      exact ⟨[], get?_set_self _ _ _⟩
  obtain ⟨inner, hi⟩ := hsome
  simp only [step, get?_entryAttrs_val, stripPrefix_qname e hw, hw.notInst, if_false, hcur, hid,
    get?_entryAttrs_channel, stripPrefix_qname e hw]
  unfold applyEntry isMaster
  unfold ensure at hi ⊢
  cases hch : e.chan with
  | none =>
    simp only [Bool.false_eq_true, if_false, if_true, assign]
    simp only [hi, Option.getD_some]
  | some c =>
    by_cases hm : c = sMaster
    · subst hm
      simp only [bne_self_eq_false, Bool.false_eq_true, if_false, beq_self_eq_true, if_true, assign]
      simp only [hi, Option.getD_some]
    · have h1 : (c != sMaster) = true := by simpa using hm
      have h2 : (c == sMaster) = false := by simpa using hm
      simp only [h1, h2, if_true, Bool.false_eq_true, if_false]

theorem step_entry_start (st : HSt) (e : Entry) (id : S) (hcur : st.current = some id)
    (hw : WFEntry e) :
    step st (.start (qname e) (entryAttrs e)) = .ok ⟨applyEntry id st.changes e, some id⟩ :=
  step_entry_start_gen st e (some id) id rfl hcur hw

theorem step_entry_stop (st : HSt) (e : Entry) (hw : WFEntry e) : step st (.stop (qname e)) = .ok st := by
  simp only [step, stripPrefix_qname e hw, hw.notInst, if_false]


theorem run_entries (id : S) (rest : List Sax) (es : List Entry)
    (hw : ∀ e ∈ es, WFEntry e) : ∀ ch,
    runFrom ⟨ch, some id⟩ (es.flatMap entryEvents ++ rest)
      = runFrom ⟨es.foldl (applyEntry id) ch, some id⟩ rest := by
  induction es with
  | nil => intro ch; rfl
  | cons e r ih =>
    intro ch
    have hwe := hw e List.mem_cons_self
    simp only [List.flatMap_cons, entryEvents, List.cons_append, List.nil_append, runFrom,
      step_entry_start ⟨ch, some id⟩ e id rfl hwe, step_entry_stop _ e hwe, List.foldl_cons]
    exact ih (fun x hx => hw x (List.mem_cons_of_mem _ hx)) _

/-- entries outside any `InstanceID` element (`current = None`) count for instance `"0"` -/
theorem run_loose (rest : List Sax) (es : List Entry) (hw : ∀ e ∈ es, WFEntry e) : ∀ ch,
    runFrom ⟨ch, none⟩ (es.flatMap entryEvents ++ rest)
      = runFrom ⟨es.foldl (applyEntry sZero) ch, none⟩ rest := by
  induction es with
  | nil => intro ch; rfl
  | cons e r ih =>
    intro ch
    have hwe := hw e List.mem_cons_self
    simp only [List.flatMap_cons, entryEvents, List.cons_append, List.nil_append, runFrom,
      step_entry_start_gen ⟨ch, none⟩ e none sZero rfl rfl hwe, step_entry_stop _ e hwe, List.foldl_cons]
    exact ih (fun x hx => hw x (List.mem_cons_of_mem _ hx)) _

def applyInst (ch : PyDict S (PyDict S S)) (i : Inst) : PyDict S (PyDict S S) :=
  i.entries.foldl (applyEntry i.id) ch

theorem run_inst (i : Inst) (hw : ∀ e ∈ i.entries, WFEntry e)
    (hp : ∀ p, i.ipfx = some p → ':' ∉ p) (rest : List Sax)
    (ch : PyDict S (PyDict S S)) :
    runFrom ⟨ch, none⟩ (instEvents i ++ rest) = runFrom ⟨applyInst ch i, none⟩ rest := by
  have hn := stripPrefix_iname i hp
  have h1 : step ⟨ch, none⟩ (.start (iname i) [(sVal, i.id)]) = .ok ⟨ch, some i.id⟩ := by
    simp [step, get?, hn]
  have h2 : ∀ c, step ⟨c, some i.id⟩ (.stop (iname i)) = .ok ⟨c, none⟩ := by
    intro c; simp [step, hn]
  simp only [instEvents, List.cons_append, List.append_assoc, runFrom, h1]
  rw [run_entries i.id _ i.entries hw ch]
  simp only [List.cons_append, List.nil_append, runFrom, h2, applyInst]

theorem run_insts (rest : List Sax) (insts : List Inst)
    (hw : ∀ i ∈ insts, ∀ e ∈ i.entries, WFEntry e)
    (hp : ∀ i ∈ insts, ∀ p, i.ipfx = some p → ':' ∉ p) : ∀ ch,
    runFrom ⟨ch, none⟩ (insts.flatMap instEvents ++ rest) = runFrom ⟨insts.foldl applyInst ch, none⟩ rest := by
  induction insts with
  | nil => intro ch; rfl
  | cons i r ih =>
    intro ch
    simp only [List.flatMap_cons, List.append_assoc, List.foldl_cons]
    rw [run_inst i (hw i List.mem_cons_self) (hp i List.mem_cons_self)]
    exact ih (fun x hx => hw x (List.mem_cons_of_mem _ hx)) (fun x hx => hp x (List.mem_cons_of_mem _ hx)) _

/-- the handler on a rendered document: the mapping is the fold of the entries' effects -/
theorem run_events (d : LcDoc) (hw : WF d) :
    run (events d) = .ok ⟨d.insts.foldl applyInst (d.loose.foldl (applyEntry sZero) []), none⟩ := by
  have h1 : step {} (.start sEvent d.rootAttrs) = .ok {} := by simp [step, hw.root]
  have h2 : ∀ st : HSt, step st (.stop sEvent) = .ok st := by
    intro st
    have : stripPrefix sEvent ≠ sInstanceID := by decide
    simp [step, this]
  simp only [run, events, runFrom, h1]
  rw [run_loose _ d.loose hw.looseWF, run_insts _ d.insts hw.entries hw.ipfx]
  simp only [runFrom, h2]


/-! ### what the mapping holds for one instance id -/

/-- the effect of one entry on the inner mapping of its instance -/
def upd (o : Option (PyDict S S)) (e : Entry) : Option (PyDict S S) :=
  some (if isMaster e then set (o.getD []) e.name e.val else o.getD [])

theorem get?_ensure (ch : PyDict S (PyDict S S)) (id k : S) :
    get? (ensure ch id) k = if id = k then some ((get? ch k).getD []) else get? ch k := by
  unfold ensure
  by_cases hc : contains ch id = true
  · simp only [hc, if_true]
    by_cases hk : id = k
    · subst hk
      simp only [contains] at hc
      obtain ⟨x, hx⟩ := Option.isSome_iff_exists.mp hc
      simp [hx]
    · simp [hk]
  · have hn : get? ch id = none := by
      simp only [contains] at hc
      cases h : get? ch id with
      | none => rfl
      | some x => simp [h] at hc
    simp only [hc, Bool.false_eq_true, if_false]
    rw [get?_set]
    by_cases hk : id = k
    · subst hk; simp [hn]
    · simp [hk]

theorem get?_applyEntry (id : S) (ch : PyDict S (PyDict S S)) (e : Entry) (k : S) :
    get? (applyEntry id ch e) k = if id = k then upd (get? ch k) e else get? ch k := by
  unfold applyEntry upd
  by_cases hm : isMaster e = true
  · simp only [hm, if_true]
    rw [get?_set, get?_ensure, get?_ensure]
    by_cases hk : id = k
    · subst hk; simp
    · simp [hk]
  · simp only [hm, Bool.false_eq_true, if_false]
    rw [get?_ensure]

theorem get?_applyInst (i : Inst) (k : S) : ∀ ch,
    get? (applyInst ch i) k = if i.id = k then i.entries.foldl upd (get? ch k) else get? ch k := by
  unfold applyInst
  induction i.entries with
  | nil => intro ch; simp
  | cons e r ih =>
    intro ch
    simp only [List.foldl_cons]
    rw [ih, get?_applyEntry]
    by_cases hk : i.id = k <;> simp [hk]

theorem get?_insts (k : S) (insts : List Inst) : ∀ ch,
    get? (insts.foldl applyInst ch) k
      = ((insts.filter (·.id == k)).flatMap (·.entries)).foldl upd (get? ch k) := by
  induction insts with
  | nil => intro ch; rfl
  | cons i r ih =>
    intro ch
    simp only [List.foldl_cons]
    rw [ih, get?_applyInst]
    by_cases hk : i.id = k
    · simp [hk, List.filter_cons, List.foldl_append]
    · have : (i.id == k) = false := by simpa using hk
      simp [hk, List.filter_cons, this]

/-- folding `upd` = writing the master entries, by local name, in order -/
theorem foldl_upd_some (es : List Entry) : ∀ m : PyDict S S,
    es.foldl upd (some m)
      = some (((es.filter isMaster).map fun e => (e.name, e.val)).foldl (fun acc p => set acc p.1 p.2) m) := by
  induction es with
  | nil => intro m; rfl
  | cons e r ih =>
    intro m
    simp only [List.foldl_cons, upd, Option.getD_some]
    rw [ih]
    by_cases hm : isMaster e = true <;> simp [hm, List.filter_cons]

theorem foldl_upd_none (es : List Entry) :
    es.foldl upd none = if es.isEmpty then none
      else some (ofList ((es.filter isMaster).map fun e => (e.name, e.val))) := by
  cases es with
  | nil => rfl
  | cons e r =>
    simp only [List.foldl_cons, upd, Option.getD_none, List.isEmpty_cons, Bool.false_eq_true, if_false]
    rw [foldl_upd_some]
    unfold ofList merge
    by_cases hm : isMaster e = true <;> simp [hm, PyDict.set]


theorem WF_of_wfB (d : LcDoc) (h : wfB d = true) : WF d := by
  simp only [wfB, Bool.and_eq_true, List.all_eq_true] at h
  obtain ⟨⟨hr, hl⟩, hi⟩ := h
  have hentry : ∀ e, wfEntryB e = true → WFEntry e := by
    intro e this
    simp only [wfEntryB, Bool.and_eq_true] at this
    obtain ⟨⟨h1, h2⟩, h3⟩ := this
    refine ⟨by simpa using h1, ?_, by simpa using h2⟩
    intro p hp
    simp only [hp] at h3
    simpa using h3
  refine ⟨?_, fun i hm e he => hentry e ((hi i hm).1 e he), ?_, fun e he => hentry e (hl e he)⟩
  · cases hg : get? d.rootAttrs sVal with
    | none => rfl
    | some x => simp [hg] at hr
  · intro i hm p hp
    have := (hi i hm).2
    simp only [hp] at this
    simpa using this

theorem sameNames_self (l : List S) : sameNames l l = true := by
  simp [sameNames]

/-! ### notify_changed_state_variables -/

theorem contains_set_of_contains (v : PyDict S S) (k x n : S) (h : contains v k = true) :
    contains (set v k x) n = contains v n := by
  simp only [contains] at h ⊢
  rw [get?_set]
  by_cases hk : k = n
  · subst hk; simp [h]
  · simp [hk]

theorem relevant_set (v : PyDict S S) (k x : S) (h : contains v k = true) (m : PyDict S S) :
    relevant (set v k x) m = relevant v m := by
  unfold relevant
  apply List.filter_congr
  intro p _
  exact contains_set_of_contains v k x p.1 h

theorem foldl_notify (ch : PyDict S S) : ∀ (v : PyDict S S) (ns : List S),
    ch.foldl (fun acc p => if contains acc.1 p.1 then (set acc.1 p.1 p.2, acc.2 ++ [p.1]) else acc) (v, ns)
      = (applyAll v (relevant v ch), ns ++ (relevant v ch).map (·.1)) := by
  induction ch with
  | nil => intro v ns; simp [relevant, applyAll]
  | cons p r ih =>
    intro v ns
    simp only [List.foldl_cons]
    by_cases hc : contains v p.1 = true
    · simp only [hc, if_true]
      rw [ih, relevant_set v p.1 p.2 hc]
      have : relevant v (p :: r) = p :: relevant v r := by simp [relevant, List.filter_cons, hc]
      rw [this]
      simp [applyAll]
    · simp only [hc, Bool.false_eq_true, if_false]
      rw [ih]
      have : relevant v (p :: r) = relevant v r := by simp [relevant, hc]
      rw [this]

theorem notifyChanged_eq (vars ch : PyDict S S) :
    notifyChanged vars ch = (applyAll vars (relevant vars ch), (relevant vars ch).map (·.1)) := by
  unfold notifyChanged
  rw [foldl_notify]
  simp


/-! ### what the judge's expected values mean, variable by variable -/

theorem get?_filter_contains (vars m : PyDict S S) (n : S) :
    get? (m.filter fun p => contains vars p.1) n = if contains vars n then get? m n else none := by
  induction m with
  | nil => simp
  | cons p r ih =>
    obtain ⟨k, v⟩ := p
    by_cases hc : contains vars k = true
    · simp only [List.filter_cons, hc, if_true]
      by_cases hk : k = n
      · subst hk; simp [get?, hc]
      · simp [get?, hk, ih]
    · simp only [List.filter_cons, hc]
      by_cases hk : k = n
      · subst hk
        have : contains vars k = false := by simpa using hc
        simp [this] at ih ⊢
        simpa [this] using ih
      · simp [get?, hk, ih]

theorem nodup_keys_filter (m : PyDict S S) (f : S × S → Bool) (h : (keys m).Nodup) :
    (keys (m.filter f)).Nodup := by
  unfold keys at *
  exact (List.filter_sublist.map _).nodup h

/-- after the expected update: a service variable holds the event's master value for it if there
    is one, else its old value; nothing that is not a service variable appears -/
theorem get?_expected (vars : PyDict S S) (d : LcDoc) (n : S) :
    get? (applyAll vars (relevant vars (master0 d))) n =
      match get? vars n with
      | none => none
      | some old => some ((get? (master0 d) n).getD old) := by
  have hnd : (keys (relevant vars (master0 d))).Nodup :=
    nodup_keys_filter _ _ (nodup_keys_ofList _)
  unfold applyAll
  rw [get?_foldl_set, get?_reverse_nodup _ hnd]
  unfold relevant
  rw [get?_filter_contains]
  cases hv : get? vars n with
  | none => simp [contains, hv]
  | some old =>
    simp only [contains, hv, Option.isSome_some, if_true]
    cases get? (master0 d) n <;> rfl

end Upnp.C19
