/-
  Helper lemmas for C20 (counter part): one counter over one sample satisfies the judge.
-/
import Upnp.Spec.C20
namespace Upnp.C20
open Upnp

/-- readings are at least −2³¹ (a signed 32-bit view of the counter) -/
def inRange : Raw → Prop
  | .ok n => -2147483648 ≤ n
  | _ => True

theorem readTotal_off_nonneg (off : Int) (r : Raw) (h : 0 ≤ off) : 0 ≤ (readTotal off r).1 := by
  cases r <;> simp [readTotal, offsetConst] <;> try exact h
  split <;> omega

theorem readTotal_isExc (off : Int) (r : Raw) : (readTotal off r).2.isExc = isFail r := by
  cases r <;> simp [readTotal, Val.isExc, isFail]

theorem plain_isExc (r : Raw) : (plain r).isExc = isFail r := by
  cases r <;> simp [plain, Val.isExc, isFail]

theorem readTotal_fail (off : Int) (r : Raw) (h : isFail r = true) : (readTotal off r).2 = failVal r := by
  cases r <;> simp_all [readTotal, failVal, isFail]

theorem approx_self (num den : Int) (hn : 0 ≤ num) (hd : 0 < den) : approx ⟨num, den⟩ num den = true := by
  simp only [approx, Bool.and_eq_true, decide_eq_true_eq]
  refine ⟨⟨hd, hn⟩, ?_⟩
  have : num * den - num * den = 0 := by omega
  rw [this]
  simp
  exact Int.mul_nonneg hn (Int.le_of_lt hd)

theorem derive_ok (isBytes : Bool) (tPrev tNow : Int) (ht : tPrev < tNow) (prev v : Val) :
    rateOk isBytes tPrev tNow prev v (derive isBytes tNow v tPrev prev) = true := by
  cases prev <;> cases v <;> simp [derive, rateOk, kibConst]
  rename_i l c
  by_cases h : c < l
  · simp [h]; omega
  · have h1 : ¬ (tNow ≤ tPrev) := by omega
    simp [h, h1]
    intro _
    apply approx_self
    · exact Int.mul_nonneg (by omega) (by omega)
    · cases isBytes <;> simp [kibConst] <;> omega

/-- one counter, one sample: the judge accepts the model's output, the stored last value is the
    reported one and the offset stays non-negative -/
theorem stepCounter_ok (isBytes : Bool) (tPrev tNow : Int) (ht : tPrev < tNow) (c : Counter) (raw : Raw)
    (hoff : 0 ≤ c.off) (hr : inRange raw) :
    counterOk isBytes tPrev tNow c.last raw (stepCounter isBytes tPrev tNow c raw).2.1
        (stepCounter isBytes tPrev tNow c raw).2.2 = true
    ∧ (stepCounter isBytes tPrev tNow c raw).1.last = (stepCounter isBytes tPrev tNow c raw).2.1
    ∧ 0 ≤ (stepCounter isBytes tPrev tNow c raw).1.off := by
  refine ⟨?_, rfl, readTotal_off_nonneg c.off raw hoff⟩
  simp only [stepCounter, counterOk, Bool.and_eq_true]
  refine ⟨⟨?_, ?_⟩, derive_ok isBytes tPrev tNow ht c.last _⟩
  · cases raw <;> simp [readTotal, nonnegOk, offsetConst]
    rename_i n
    simp [inRange] at hr
    split <;> omega
  · cases raw <;> simp [readTotal, isoOk, isInt, Val.isExc]


/-- the judge's memory of the previous sample, read off the model state -/
def prevOf (st : IgdSt) : Prev := ⟨st.tLast, st.br.last, st.bs.last, st.pr.last, st.ps.last⟩
def offsOk (st : IgdSt) : Prop := 0 ≤ st.br.off ∧ 0 ≤ st.bs.off ∧ 0 ≤ st.pr.off ∧ 0 ≤ st.ps.off
def inRangeR (r : Readings) : Prop := inRange r.br ∧ inRange r.bs ∧ inRange r.pr ∧ inRange r.ps

theorem stepCounter_val (b : Bool) (t1 t2 : Int) (c : Counter) (r : Raw) :
    (stepCounter b t1 t2 c r).2.1 = (readTotal c.off r).2 := rfl

theorem isoOk_plain (r : Raw) : isoOk r (plain r) = true := by
  cases r <;> simp [isoOk, plain, isInt, Val.isExc]

theorem sample_ok (st : IgdSt) (t : Int) (r : Readings) (ht : st.tLast < t) (ho : offsOk st)
    (hr : inRangeR r) :
    sampleOk (prevOf st) t r (sample st t r).2 = (true, prevOf (sample st t r).1)
    ∧ offsOk (sample st t r).1 ∧ (sample st t r).1.tLast = t := by
  obtain ⟨o1, o2, o3, o4⟩ := ho
  obtain ⟨r1, r2, r3, r4⟩ := hr
  have h1 := stepCounter_ok true st.tLast t ht st.br r.br o1 r1
  have h2 := stepCounter_ok true st.tLast t ht st.bs r.bs o2 r2
  have h3 := stepCounter_ok false st.tLast t ht st.pr r.pr o3 r3
  have h4 := stepCounter_ok false st.tLast t ht st.ps r.ps o4 r4
  refine ⟨?_, ⟨h1.2.2, h2.2.2, h3.2.2, h4.2.2⟩, rfl⟩
  have hall : ((stepCounter true st.tLast t st.br r.br).2.1.isExc && (stepCounter true st.tLast t st.bs r.bs).2.1.isExc
      && (stepCounter false st.tLast t st.pr r.pr).2.1.isExc && (stepCounter false st.tLast t st.ps r.ps).2.1.isExc
      && (plain r.status).isExc && (plain r.ip).isExc) = allFail r := by
    simp only [stepCounter_val, readTotal_isExc, plain_isExc, allFail]
  cases hf : allFail r with
  | true =>
    have hf' := hf
    simp only [allFail, Bool.and_eq_true] at hf'
    obtain ⟨⟨⟨⟨⟨f1, f2⟩, f3⟩, f4⟩, _⟩, _⟩ := hf'
    have hb : ∃ e, r.br = .fail e := by
      cases hbr : r.br <;> simp [hbr, isFail] at f1
      exact ⟨_, rfl⟩
    obtain ⟨e, hbr⟩ := hb
    have hv1 : (stepCounter true st.tLast t st.br r.br).2.1 = .exc e := by
      rw [stepCounter_val, hbr]; rfl
    have hraise : raiseOf (stepCounter true st.tLast t st.br r.br).2.1
        ((stepCounter true st.tLast t st.br r.br).2.1.isExc && (stepCounter true st.tLast t st.bs r.bs).2.1.isExc
        && (stepCounter false st.tLast t st.pr r.pr).2.1.isExc && (stepCounter false st.tLast t st.ps r.ps).2.1.isExc
        && (plain r.status).isExc && (plain r.ip).isExc) = some e := by
      rw [hall, hf, hv1]; rfl
    simp only [sample, hraise, sampleOk, prevOf, hf]
    rw [h1.2.1, h2.2.1, h3.2.1, h4.2.1]
    simp only [stepCounter_val, readTotal_fail _ _ f1, readTotal_fail _ _ f2, readTotal_fail _ _ f3,
      readTotal_fail _ _ f4]
  | false =>
    have hraise : raiseOf (stepCounter true st.tLast t st.br r.br).2.1
        ((stepCounter true st.tLast t st.br r.br).2.1.isExc && (stepCounter true st.tLast t st.bs r.bs).2.1.isExc
        && (stepCounter false st.tLast t st.pr r.pr).2.1.isExc && (stepCounter false st.tLast t st.ps r.ps).2.1.isExc
        && (plain r.status).isExc && (plain r.ip).isExc) = none := by
      rw [hall, hf]
      cases (stepCounter true st.tLast t st.br r.br).2.1 <;> rfl
    simp only [sample, hf, hraise, sampleOk, prevOf, plainOk, isoOk_plain, h1.1, h2.1, h3.1, h4.1,
      h1.2.1, h2.2.1, h3.2.1, h4.2.1, Bool.not_false, Bool.and_self]

end Upnp.C20
