/-
  C20 — the float computation of a rate versus the exact quotient.

  The code computes  (Δv / 1024) / delta_time.total_seconds()  (bytes) or  Δv / total_seconds()
  (packets) in IEEE-754 doubles.  `Δv / 1024` is exact (Δv < 2^53, division by a power of two);
  `total_seconds()` is the correctly rounded quotient µs / 10^6 and the final division is
  correctly rounded: each is within relative 2^-53 of its exact operand quotient.  This file shows
  that two such roundings keep the result within relative 2^-50 of the exact quotient, i.e. the
  judge's `approx` accepts it.  Integers only (fractions are cross-multiplied).
-/
import Upnp.Spec.C20
namespace Upnp.C20

/-- composition of two relative errors ≤ 1/M gives a relative error ≤ 1/N when 2N ≤ M − 1;
    `u/v` = rounded/exact divisor, `p/q` = rounded/exact quotient by the rounded divisor,
    `g/h` = rounded/exact final value, tied by `p·h·v = g·u·q` -/
theorem rel_compose (M N : Int) (hM : 0 < M) (hMN : 2 * N ≤ M - 1) (hN : 0 ≤ N)
    (u v p q g h : Int) (hv : 0 < v) (hq : 0 ≤ q) (hh : 0 ≤ h)
    (h1a : M * (u - v) ≤ v) (h1b : M * (v - u) ≤ v)
    (h2a : M * (p - q) ≤ q) (h2b : M * (q - p) ≤ q)
    (hid : p * h * v = g * u * q) :
    N * (g - h) * (u * q) ≤ h * (u * q) ∧ N * (h - g) * (u * q) ≤ h * (u * q) := by
  have e1 : M * (p - q) * v ≤ q * v := Int.mul_le_mul_of_nonneg_right h2a (Int.le_of_lt hv)
  have e2 : M * (q - p) * v ≤ q * v := Int.mul_le_mul_of_nonneg_right h2b (Int.le_of_lt hv)
  have e3 : q * (M * (v - u)) ≤ q * v := Int.mul_le_mul_of_nonneg_left h1b hq
  have e4 : q * (M * (u - v)) ≤ q * v := Int.mul_le_mul_of_nonneg_left h1a hq
  have e5 : (M - 1) * (q * v) ≤ M * (u * q) := by
    have : q * ((M - 1) * v) ≤ q * (M * u) := Int.mul_le_mul_of_nonneg_left (by grind) hq
    grind
  have e6 : 2 * N * (q * v) ≤ (M - 1) * (q * v) :=
    Int.mul_le_mul_of_nonneg_right hMN (Int.mul_nonneg hq (Int.le_of_lt hv))
  -- M * N * (p v - u q) ≤ M * (u q)
  have k1 : M * (N * (p * v - u * q)) ≤ M * (u * q) := by
    have : N * (M * (p * v - u * q)) ≤ N * (2 * (q * v)) := Int.mul_le_mul_of_nonneg_left (by grind) hN
    grind
  have k2 : M * (N * (u * q - p * v)) ≤ M * (u * q) := by
    have : N * (M * (u * q - p * v)) ≤ N * (2 * (q * v)) := Int.mul_le_mul_of_nonneg_left (by grind) hN
    grind
  have k1' := Int.le_of_mul_le_mul_left k1 hM
  have k2' := Int.le_of_mul_le_mul_left k2 hM
  have j1 : h * (N * (p * v - u * q)) ≤ h * (u * q) := Int.mul_le_mul_of_nonneg_left k1' hh
  have j2 : h * (N * (u * q - p * v)) ≤ h * (u * q) := Int.mul_le_mul_of_nonneg_left k2' hh
  have r1 : N * (g - h) * (u * q) = N * (g * u * q) - N * (h * (u * q)) := by grind
  have r2 : N * (h - g) * (u * q) = N * (h * (u * q)) - N * (g * u * q) := by grind
  have r3 : h * (N * (p * v - u * q)) = N * (p * h * v) - N * (h * (u * q)) := by grind
  have r4 : h * (N * (u * q - p * v)) = N * (h * (u * q)) - N * (p * h * v) := by grind
  rw [r1, r2, ← hid]
  rw [r3] at j1
  rw [r4] at j2
  exact ⟨j1, j2⟩

def pow2_53 : Int := 9007199254740992

/-- `r = rp/rq` is within relative 2^-53 of the exact fraction `a/b` (`a ≥ 0`, `b > 0`, `rq > 0`):
    what IEEE-754 correct rounding guarantees in the normal range -/
def rounded (rp rq a b : Int) : Prop :=
  pow2_53 * (rp * b - a * rq) ≤ a * rq ∧ pow2_53 * (a * rq - rp * b) ≤ a * rq

end Upnp.C20
