/-
  Helper lemmas for C20 (routing part): tree search and the alias lookup chain.
-/
import Upnp.Spec.C20
import Upnp.Lemmas.PyDict
namespace Upnp.C20
open Upnp PyDict

theorem get?_eq_find? {α : Type} (l : List (S × α)) (k : S) :
    get? l k = (l.find? (fun p => p.1 == k)).map (·.2) := by
  induction l with
  | nil => rfl
  | cons p r ih =>
    obtain ⟨k', v⟩ := p
    by_cases h : k' = k
    · simp [get?, h]
    · simp [get?, h, ih]

mutual
theorem findService_eq : ∀ (d : Dev) (ty : S),
    findService d ty = ((allServices d).find? (fun p => p.1 == ty)).map (·.2)
  | .mk _ svcs subs, ty => by
    rw [findService, allServices, List.find?_append, get?_eq_find?]
    cases h : svcs.find? (fun p => p.1 == ty) with
    | some p => simp
    | none => simp [findInSubs_eq subs ty]
theorem findInSubs_eq : ∀ (l : List (S × Dev)) (ty : S),
    findInSubs l ty = ((allServicesSubs l).find? (fun p => p.1 == ty)).map (·.2)
  | [], _ => by simp [findInSubs, allServicesSubs]
  | (_, d) :: r, ty => by
    rw [findInSubs, allServicesSubs, List.find?_append, findService_eq d ty]
    cases h : (allServices d).find? (fun p => p.1 == ty) with
    | some p => simp
    | none => simp [findInSubs_eq r ty]
end


theorem findService_mem {d : Dev} {ty : S} {s : Svc} (h : findService d ty = some s) :
    (ty, s) ∈ allServices d := by
  rw [findService_eq] at h
  cases hf : (allServices d).find? (fun p => p.1 == ty) with
  | none => simp [hf] at h
  | some p =>
    simp [hf] at h
    have hm := List.mem_of_find?_eq_some hf
    have hp := List.find?_some hf
    simp at hp
    obtain ⟨k, v⟩ := p
    simp at hp h
    subst hp; subst h; exact hm

theorem findService_isSome_of_mem {d : Dev} {ty : S} {s : Svc} (h : (ty, s) ∈ allServices d) :
    ∃ s', findService d ty = some s' := by
  rw [findService_eq]
  cases hf : (allServices d).find? (fun p => p.1 == ty) with
  | some p => exact ⟨p.2, rfl⟩
  | none =>
    have := List.find?_eq_none.mp hf (ty, s) h
    simp at this

section
variable (ord : List S → List S) (T : List (S × List S))

theorem service_some {d : Dev} {a : S} {s : Svc} (h : service ord T d a = some s) :
    ∃ tys, get? T a = some tys ∧ ∃ ty ∈ ord tys, findService d ty = some s := by
  unfold service at h
  cases hg : get? T a with
  | none => simp [hg] at h
  | some tys =>
    simp only [hg] at h
    obtain ⟨ty, hty, hs⟩ := List.exists_of_findSome?_eq_some h
    exact ⟨tys, rfl, ty, hty, hs⟩

theorem action_some {d : Dev} {a name : S} {s : Svc} (h : action ord T d a name = some s) :
    name ∈ s.acts ∧ ∃ tys, get? T a = some tys ∧ ∃ ty ∈ ord tys, findService d ty = some s := by
  unfold action at h
  cases hg : get? T a with
  | none => simp [hg] at h
  | some tys =>
    simp only [hg] at h
    obtain ⟨ty, hty, hs⟩ := List.exists_of_findSome?_eq_some h
    cases hf : findService d ty with
    | none => simp [hf] at hs
    | some s' =>
      simp only [hf] at hs
      simp at hs
      obtain ⟨hm, rfl⟩ := hs
      exact ⟨hm, tys, rfl, ty, hty, hf⟩

end

end Upnp.C20
