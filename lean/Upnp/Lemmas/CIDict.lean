import Upnp.Model.CIDict
import Upnp.Spec.C16
import Upnp.Lemmas.PyDict
namespace Upnp.CIDict
open Upnp PyDict Upnp.C16
variable {κ ν : Type} [DecidableEq κ] (lower : κ → κ)

/-- abstraction: folded name ↦ (spelling, value), in `data` order -/
def abs (d : CIDict κ ν) : SMap κ ν := d.data.map fun p => (lower p.1, (p.1, p.2))

/-- representation invariant of the two-dict representation: both are dicts (unique keys) and
    `cmap` maps a folded name to a spelling exactly when that spelling is stored and folds to it. -/
structure Inv (d : CIDict κ ν) : Prop where
  dataNodup : (keys d.data).Nodup
  cmapNodup : (keys d.cmap).Nodup
  cmapSpec : ∀ lk k, get? d.cmap lk = some k ↔ ((get? d.data k).isSome ∧ lower k = lk)

omit [DecidableEq κ] in
theorem nodup_map_of_inj_on {α β : Type} (f : α → β) {l : List α} (h : l.Nodup)
    (inj : ∀ a ∈ l, ∀ b ∈ l, f a = f b → a = b) : (l.map f).Nodup := by
  induction l with
  | nil => simp
  | cons a r ih =>
    simp only [List.map_cons, List.nodup_cons] at h ⊢
    refine ⟨?_, ih h.2 (fun x hx y hy => inj x (List.mem_cons_of_mem _ hx) y (List.mem_cons_of_mem _ hy))⟩
    intro hm
    obtain ⟨b, hb, e⟩ := List.mem_map.mp hm
    have := inj b (List.mem_cons_of_mem _ hb) a (List.mem_cons_self) e
    subst this; exact h.1 hb

omit [DecidableEq κ] in
theorem nodup_of_map' {α β : Type} (f : α → β) {l : List α} (h : (l.map f).Nodup) : l.Nodup := by
  induction l with
  | nil => simp
  | cons a r ih =>
    simp only [List.map_cons, List.nodup_cons] at h ⊢
    exact ⟨fun hm => h.1 (List.mem_map_of_mem hm), ih h.2⟩

omit [DecidableEq κ] in
theorem keys_abs (d : CIDict κ ν) : keys (abs lower d) = (keys d.data).map lower := by
  simp [abs, keys]

/-- under the invariant, `lower` is injective on the stored spellings -/
theorem Inv.lower_inj {d : CIDict κ ν} (h : Inv lower d) {k1 k2 : κ}
    (h1 : k1 ∈ keys d.data) (h2 : k2 ∈ keys d.data) (e : lower k1 = lower k2) : k1 = k2 := by
  have a := (h.cmapSpec (lower k1) k1).mpr ⟨(get?_isSome_iff _ _).mpr h1, rfl⟩
  have b := (h.cmapSpec (lower k1) k2).mpr ⟨(get?_isSome_iff _ _).mpr h2, e.symm⟩
  rw [a] at b; exact Option.some.inj b

theorem Inv.absNodup {d : CIDict κ ν} (h : Inv lower d) : (keys (abs lower d)).Nodup := by
  rw [keys_abs]
  exact nodup_map_of_inj_on lower h.dataNodup (fun a ha b hb e => h.lower_inj lower ha hb e)

/-- abstract lookups, expressed through the two concrete lookups -/
theorem abs_get? {d : CIDict κ ν} (h : Inv lower d) (lk : κ) :
    get? (abs lower d) lk = (get? d.cmap lk).bind (fun k => (get? d.data k).map (fun v => (k, v))) := by
  cases hc : get? d.cmap lk with
  | none =>
    simp only [Option.bind_none]
    rw [get?_eq_none_iff, keys_abs]
    intro hm
    obtain ⟨k, hk, e⟩ := List.mem_map.mp hm
    have := (h.cmapSpec lk k).mpr ⟨(get?_isSome_iff _ _).mpr hk, e⟩
    rw [hc] at this; cases this
  | some k =>
    obtain ⟨hs, e⟩ := (h.cmapSpec _ _).mp hc
    cases hv : get? d.data k with
    | none => rw [hv] at hs; cases hs
    | some v =>
      simp only [Option.bind_some, hv, Option.map_some]
      apply get?_of_mem_nodup (h.absNodup lower)
      simp only [abs, List.mem_map]
      exact ⟨(k, v), mem_of_get? hv, by simp [e]⟩

/-- lookups go through the abstract map -/
theorem getitem_abs {d : CIDict κ ν} (h : Inv lower d) (k : κ) :
    getitem lower d k = SMap.lookup lower (abs lower d) k := by
  unfold getitem SMap.lookup
  rw [abs_get? lower h]
  cases get? d.cmap (lower k) with
  | none => rfl
  | some k' => simp only [Option.bind_some]; cases get? d.data k' <;> rfl

theorem getLower_abs {d : CIDict κ ν} (h : Inv lower d) (lk : κ) :
    getLower d lk = (get? (abs lower d) lk).map (·.2) := by
  unfold getLower
  rw [abs_get? lower h]
  cases get? d.cmap lk with
  | none => rfl
  | some k' => simp only [Option.bind_some]; cases get? d.data k' <;> rfl

omit [DecidableEq κ] in
theorem len_abs (d : CIDict κ ν) : len d = (abs lower d).length := by simp [len, abs]

omit [DecidableEq κ] in
theorem iter_abs (d : CIDict κ ν) : iter d = (abs lower d).map (·.2.1) := by
  simp [iter, abs, keys]

omit [DecidableEq κ] in
theorem asDict_abs (d : CIDict κ ν) : asDict d = (abs lower d).map (fun p => (p.2.1, p.2.2)) := by
  simp [asDict, abs, Function.comp_def]

theorem inv_empty : Inv lower (empty : CIDict κ ν) :=
  ⟨by simp [empty, keys], by simp [empty, keys], by simp [empty]⟩

/-! ### `__setitem__` -/

theorem setitem_data_get? {d : CIDict κ ν} (h : Inv lower d) (k : κ) (v : ν) (x : κ) :
    get? (setitem lower d k v).data x =
      if k = x then some v
      else match get? d.cmap (lower k) with
        | some k' => if k' = x then (if k' = k then get? d.data x else none) else get? d.data x
        | none => get? d.data x := by
  unfold setitem
  simp only [get?_set]
  by_cases hx : k = x
  · simp [hx]
  · simp only [hx, if_false]
    cases hc : get? d.cmap (lower k) with
    | none => rfl
    | some k' =>
      simp only
      by_cases hk : k' = k
      · subst hk; simp
      · simp only [ne_eq, hk, not_false_eq_true, if_true, if_false]
        by_cases hx' : k' = x
        · subst hx'; simp [get?_erase_self _ _ h.dataNodup]
        · simp [hx', get?_erase_ne _ _ _ hx']

theorem setitem_cmap_get? (d : CIDict κ ν) (k : κ) (v : ν) (x : κ) :
    get? (setitem lower d k v).cmap x = if lower k = x then some k else get? d.cmap x := by
  unfold setitem; simp only [get?_set]

theorem setitem_inv {d : CIDict κ ν} (h : Inv lower d) (k : κ) (v : ν) :
    Inv lower (setitem lower d k v) := by
  refine ⟨?_, ?_, ?_⟩
  · unfold setitem; simp only
    apply nodup_keys_set
    cases get? d.cmap (lower k) with
    | none => exact h.dataNodup
    | some k' =>
      simp only; split
      · exact nodup_keys_erase _ _ h.dataNodup
      · exact h.dataNodup
  · unfold setitem; exact nodup_keys_set _ _ _ h.cmapNodup
  · intro lk k2
    rw [setitem_cmap_get?, setitem_data_get? lower h]
    have hs := h.cmapSpec
    by_cases e1 : lower k = lk
    · subst e1
      simp only [if_true]
      constructor
      · intro e; cases e; simp
      · rintro ⟨hsome, e2⟩
        by_cases e3 : k = k2
        · simp [e3]
        · exfalso
          simp only [e3, if_false] at hsome
          cases hc : get? d.cmap (lower k) with
          | none =>
            rw [hc] at hsome; simp only at hsome
            have := (hs (lower k) k2).mpr ⟨hsome, e2⟩
            rw [hc] at this; cases this
          | some k' =>
            rw [hc] at hsome; simp only at hsome
            by_cases e4 : k' = k2
            · subst e4
              by_cases e5 : k' = k
              · exact e3 e5.symm
              · simp [e5] at hsome
            · simp only [e4, if_false] at hsome
              have := (hs (lower k) k2).mpr ⟨hsome, e2⟩
              rw [hc] at this; exact e4 (Option.some.inj this)
    · simp only [e1, if_false]
      rw [hs lk k2]
      by_cases e3 : k = k2
      · subst e3; simp [e1]
      · simp only [e3, if_false]
        cases hc : get? d.cmap (lower k) with
        | none => simp
        | some k' =>
          simp only
          by_cases e4 : k' = k2
          · subst e4
            have := ((hs _ _).mp hc).2
            constructor
            · rintro ⟨_, e⟩; exact absurd (this.symm.trans e) e1
            · rintro ⟨_, e⟩; exact absurd (this.symm.trans e) e1
          · simp [e4]

theorem setitem_abs {d : CIDict κ ν} (h : Inv lower d) (k : κ) (v : ν) (x : κ) :
    get? (abs lower (setitem lower d k v)) x = get? (SMap.write lower (abs lower d) k v) x := by
  rw [abs_get? lower (setitem_inv lower h k v), SMap.write, get?_set, abs_get? lower h,
    setitem_cmap_get?]
  by_cases e1 : lower k = x
  · simp [e1, setitem_data_get? lower h]
  · simp only [e1, if_false]
    cases hc : get? d.cmap x with
    | none => rfl
    | some k2 =>
      simp only [Option.bind_some]
      have hk2 := ((h.cmapSpec _ _).mp hc).2
      have e2 : k ≠ k2 := by intro e; subst e; exact e1 hk2
      rw [setitem_data_get? lower h]
      simp only [e2, if_false]
      cases hc' : get? d.cmap (lower k) with
      | none => rfl
      | some k' =>
        simp only
        have hk' := ((h.cmapSpec _ _).mp hc').2
        have e3 : k' ≠ k2 := by intro e; subst e; exact e1 (hk'.symm.trans hk2)
        simp [e3]

/-! ### `del_lower`, `__delitem__` -/

theorem delLower_some_iff {d : CIDict κ ν} (h : Inv lower d) (lk : κ) :
    (delLower d lk).isSome ↔ (get? (abs lower d) lk).isSome := by
  unfold delLower
  rw [abs_get? lower h]
  cases hc : get? d.cmap lk with
  | none => simp
  | some k =>
    have := ((h.cmapSpec _ _).mp hc).1
    simp only [Option.bind_some, contains, this, if_true]
    cases hv : get? d.data k with
    | none => rw [hv] at this; cases this
    | some v => simp

theorem delLower_inv {d d' : CIDict κ ν} (h : Inv lower d) (lk : κ) (e : delLower d lk = some d') :
    Inv lower d' ∧ ∀ x, get? (abs lower d') x = get? (SMap.remove (abs lower d) lk) x := by
  unfold delLower at e
  cases hc : get? d.cmap lk with
  | none => rw [hc] at e; cases e
  | some k =>
    rw [hc] at e; simp only at e
    obtain ⟨hs, hl⟩ := (h.cmapSpec _ _).mp hc
    simp only [contains, hs, if_true] at e
    cases e
    have hinv : Inv lower (⟨erase d.data k, erase d.cmap lk⟩ : CIDict κ ν) := by
      refine ⟨nodup_keys_erase _ _ h.dataNodup, nodup_keys_erase _ _ h.cmapNodup, ?_⟩
      intro lk2 k2
      simp only
      by_cases e1 : lk = lk2
      · subst e1
        rw [get?_erase_self _ _ h.cmapNodup]
        constructor
        · intro x; cases x
        · rintro ⟨hs2, e2⟩
          by_cases e3 : k = k2
          · subst e3; rw [get?_erase_self _ _ h.dataNodup] at hs2; cases hs2
          · rw [get?_erase_ne _ _ _ e3] at hs2
            have := (h.cmapSpec lk k2).mpr ⟨hs2, e2⟩
            rw [hc] at this; exact absurd (Option.some.inj this) e3
      · rw [get?_erase_ne _ _ _ e1, h.cmapSpec]
        by_cases e3 : k = k2
        · subst e3; constructor
          · rintro ⟨_, e⟩; exact absurd (hl.symm.trans e) e1
          · rintro ⟨_, e⟩; exact absurd (hl.symm.trans e) e1
        · rw [get?_erase_ne _ _ _ e3]
    refine ⟨hinv, ?_⟩
    intro x
    rw [abs_get? lower hinv, SMap.remove]
    simp only
    by_cases e1 : lk = x
    · subst e1
      rw [get?_erase_self _ _ h.cmapNodup, get?_erase_self _ _ (h.absNodup lower)]; rfl
    · rw [get?_erase_ne _ _ _ e1, get?_erase_ne _ _ _ e1, abs_get? lower h]
      cases hc2 : get? d.cmap x with
      | none => rfl
      | some k2 =>
        simp only [Option.bind_some]
        have e3 : k ≠ k2 := by
          intro e; subst e
          exact e1 (hl.symm.trans ((h.cmapSpec _ _).mp hc2).2)
        rw [get?_erase_ne _ _ _ e3]

theorem inv_copy {d : CIDict κ ν} (h : Inv lower d) : Inv lower (copy d) := ⟨h.1, h.2, h.3⟩

end Upnp.CIDict
