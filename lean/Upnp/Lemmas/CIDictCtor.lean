import Upnp.Lemmas.CIDict
namespace Upnp.CIDict
open Upnp PyDict Upnp.C16
variable {κ ν : Type} [DecidableEq κ] (lower : κ → κ)

/-- pigeonhole on duplicate-free lists -/
theorem subset_of_subset_length {α : Type} [DecidableEq α] {l1 l2 : List α} (h1 : l1.Nodup) (h2 : l2.Nodup)
    (hs : l1 ⊆ l2) (hl : l2.length ≤ l1.length) : l2 ⊆ l1 := by
  intro a ha
  refine Decidable.by_contra fun hn => ?_
  have hsub : l1 ⊆ l2.erase a := by
    intro x hx
    have : x ≠ a := fun e => hn (e ▸ hx)
    exact (List.mem_erase_of_ne this).2 (hs hx)
  have := h1.length_le_of_subset hsub
  have hlen : (l2.erase a).length = l2.length - 1 := by rw [List.length_erase]; simp [ha]
  have : 0 < l2.length := List.length_pos_of_mem ha
  omega

/-- what `dropShadowed` needs of its two arguments: both are dicts, every `cmap` value is a stored
    spelling folding to its key, and every stored spelling's folded name has a `cmap` entry. -/
structure Pre (data : PyDict κ ν) (cmap : PyDict κ κ) : Prop where
  dataNodup : (keys data).Nodup
  cmapNodup : (keys cmap).Nodup
  p1 : ∀ lk k, get? cmap lk = some k → (get? data k).isSome ∧ lower k = lk
  p2 : ∀ k, (get? data k).isSome → (get? cmap (lower k)).isSome

omit [DecidableEq κ] in
theorem mem_vals_iff (cmap : PyDict κ κ) (k : κ) : k ∈ cmap.map (·.2) ↔ ∃ lk, (lk, k) ∈ cmap := by
  simp [List.mem_map]

theorem Pre.mem_vals {data : PyDict κ ν} {cmap : PyDict κ κ} (h : Pre lower data cmap) (k : κ) :
    k ∈ cmap.map (·.2) ↔ get? cmap (lower k) = some k := by
  rw [mem_vals_iff]; constructor
  · rintro ⟨lk, hm⟩
    have e := get?_of_mem_nodup h.cmapNodup hm
    have := (h.p1 _ _ e).2
    rw [this]; exact e
  · intro e; exact ⟨_, mem_of_get? e⟩

theorem Pre.vals_nodup {data : PyDict κ ν} {cmap : PyDict κ κ} (h : Pre lower data cmap) :
    (cmap.map (·.2)).Nodup := by
  apply nodup_of_map' lower
  have : (cmap.map (·.2)).map lower = keys cmap := by
    simp only [keys, List.map_map]
    apply List.map_congr_left
    intro p hp
    obtain ⟨lk, k⟩ := p
    exact (h.p1 _ _ (get?_of_mem_nodup h.cmapNodup hp)).2
  rw [this]; exact h.cmapNodup

theorem get?_filterMap_vals (data : PyDict κ ν) (l : PyDict κ κ) (k : κ) :
    get? (l.filterMap fun p => (get? data p.2).map (fun v => (p.2, v))) k =
      if k ∈ l.map (·.2) then get? data k else none := by
  induction l with
  | nil => simp
  | cons p r ih =>
    obtain ⟨lk, k'⟩ := p
    simp only [List.filterMap_cons, List.map_cons, List.mem_cons]
    cases hv : get? data k' with
    | none =>
      simp only [hv, Option.map_none]
      rw [ih]
      by_cases e : k = k'
      · subst e; simp [hv]
      · grind
    | some v =>
      simp only [Option.map_some, get?]
      by_cases e : k' = k
      · subst e; simp [hv]
      · have e' : ¬ k = k' := fun x => e x.symm
        simp only [e, if_false, ih]; grind

theorem keys_filterMap_vals (data : PyDict κ ν) (l : PyDict κ κ)
    (hall : ∀ p ∈ l, (get? data p.2).isSome) :
    keys (l.filterMap fun p => (get? data p.2).map (fun v => (p.2, v))) = l.map (·.2) := by
  induction l with
  | nil => simp [keys]
  | cons p r ih =>
    have hp := hall p (List.mem_cons_self)
    cases hv : get? data p.2 with
    | none => rw [hv] at hp; cases hp
    | some v =>
      simp only [List.filterMap_cons, hv, Option.map_some, keys, List.map_cons]
      simp only [keys] at ih
      rw [ih (fun q hq => hall q (List.mem_cons_of_mem _ hq))]

theorem dropShadowed_spec {data : PyDict κ ν} {cmap : PyDict κ κ} (h : Pre lower data cmap) :
    Inv lower (dropShadowed data cmap) ∧
    ∀ x, get? (abs lower (dropShadowed data cmap)) x =
      (get? cmap x).bind (fun k => (get? data k).map (fun v => (k, v))) := by
  have hvals := h.vals_nodup lower
  have hsub : cmap.map (·.2) ⊆ keys data := by
    intro k hk
    have := (h.mem_vals lower k).mp hk
    exact (get?_isSome_iff _ _).mp (h.p1 _ _ this).1
  unfold dropShadowed
  split
  · rename_i hlen
    have hsup : keys data ⊆ cmap.map (·.2) := by
      apply subset_of_subset_length hvals h.dataNodup hsub
      simp [keys, hlen]
    have hinv : Inv lower (⟨data, cmap⟩ : CIDict κ ν) := by
      refine ⟨h.dataNodup, h.cmapNodup, ?_⟩
      intro lk k; constructor
      · exact h.p1 lk k
      · rintro ⟨hs, e⟩
        have := (h.mem_vals lower k).mp (hsup ((get?_isSome_iff _ _).mp hs))
        rw [e] at this; exact this
    exact ⟨hinv, fun x => abs_get? lower hinv x⟩
  · have hall : ∀ p ∈ cmap, (get? data p.2).isSome := by
      intro p hp
      obtain ⟨lk, k⟩ := p
      exact (h.p1 _ _ (get?_of_mem_nodup h.cmapNodup hp)).1
    have hinv : Inv lower (⟨cmap.filterMap fun p => (get? data p.2).map (fun v => (p.2, v)), cmap⟩ : CIDict κ ν) := by
      refine ⟨?_, h.cmapNodup, ?_⟩
      · simp only; rw [keys_filterMap_vals data cmap hall]; exact hvals
      · intro lk k
        simp only [get?_filterMap_vals]
        constructor
        · intro e
          have hm : k ∈ cmap.map (·.2) := (mem_vals_iff cmap k).mpr ⟨lk, mem_of_get? e⟩
          simp only [hm, if_true]
          exact h.p1 _ _ e
        · rintro ⟨hs, e⟩
          by_cases hm : k ∈ cmap.map (·.2)
          · have := (h.mem_vals lower k).mp hm
            rw [e] at this; exact this
          · simp [hm] at hs
    refine ⟨hinv, ?_⟩
    intro x
    rw [abs_get? lower hinv]
    simp only
    cases hc : get? cmap x with
    | none => rfl
    | some k =>
      have hm : k ∈ cmap.map (·.2) := (mem_vals_iff cmap k).mpr ⟨x, mem_of_get? hc⟩
      simp [get?_filterMap_vals, hm]

end Upnp.CIDict

namespace Upnp.CIDict
open Upnp PyDict Upnp.C16
variable {κ ν : Type} [DecidableEq κ] (lower : κ → κ)

/-! ### constructor from a plain mapping -/

theorem pre_ofDict (l : PyDict κ ν) (hl : (keys l).Nodup) : Pre lower l (caseMapOf lower l) := by
  refine ⟨hl, nodup_keys_ofList _, ?_, ?_⟩
  · intro lk k e
    unfold caseMapOf at e
    rw [get?_ofList] at e
    have := mem_of_get? e
    simp only [List.mem_reverse, List.mem_map] at this
    obtain ⟨p, hp, he⟩ := this
    cases he
    exact ⟨(get?_isSome_iff _ _).mpr (List.mem_map_of_mem (f := (·.1)) hp), rfl⟩
  · intro k hk
    rw [get?_isSome_iff] at hk ⊢
    unfold caseMapOf; rw [mem_keys_ofList]
    simp only [keys, List.mem_map] at hk ⊢
    obtain ⟨p, hp, e⟩ := hk
    exact ⟨(lower p.1, p.1), ⟨p, hp, rfl⟩, by simp [e]⟩

theorem ofDict_inv (l : PyDict κ ν) (hl : (keys l).Nodup) : Inv lower (ofDict lower l) :=
  (dropShadowed_spec lower (pre_ofDict lower l hl)).1

theorem get?_writeAll_nil (l : List (κ × ν)) (x : κ) :
    get? (SMap.writeAll lower [] l) x = get? (l.map fun p => (lower p.1, (p.1, p.2))).reverse x := by
  have : SMap.writeAll lower [] l = PyDict.ofList (l.map fun p => (lower p.1, (p.1, p.2))) := by
    unfold SMap.writeAll SMap.write PyDict.ofList PyDict.merge
    rw [List.foldl_map]
  rw [this, get?_ofList]

theorem ofDict_abs (l : PyDict κ ν) (hl : (keys l).Nodup) (x : κ) :
    get? (abs lower (ofDict lower l)) x = get? (SMap.writeAll lower [] l) x := by
  unfold ofDict
  rw [(dropShadowed_spec lower (pre_ofDict lower l hl)).2, get?_writeAll_nil]
  unfold caseMapOf
  rw [get?_ofList, ← List.map_reverse, ← List.map_reverse, get?_map_find?, get?_map_find?]
  cases hf : l.reverse.find? (fun p => decide (lower p.1 = x)) with
  | none => rfl
  | some p =>
    have hm : p ∈ l := by simpa using List.mem_of_find?_eq_some hf
    have := get?_of_mem_nodup hl (k := p.1) (v := p.2) hm
    simp [this]

/-! ### `combine` -/

theorem pre_combine {a b : CIDict κ ν} (ha : Inv lower a) (hb : Inv lower b) :
    Pre lower (merge a.data b.data) (merge a.cmap b.cmap) := by
  refine ⟨nodup_keys_merge _ _ ha.dataNodup, nodup_keys_merge _ _ ha.cmapNodup, ?_, ?_⟩
  · intro lk k e
    rw [get?_merge_nodup _ _ hb.cmapNodup] at e
    rw [get?_isSome_iff, mem_keys_merge]
    cases hc : get? b.cmap lk with
    | some k' =>
      rw [hc] at e; cases e
      obtain ⟨h1, h2⟩ := (hb.cmapSpec _ _).mp hc
      exact ⟨Or.inr ((get?_isSome_iff _ _).mp h1), h2⟩
    | none =>
      rw [hc] at e
      obtain ⟨h1, h2⟩ := (ha.cmapSpec _ _).mp e
      exact ⟨Or.inl ((get?_isSome_iff _ _).mp h1), h2⟩
  · intro k hk
    rw [get?_isSome_iff, mem_keys_merge] at hk
    rw [get?_isSome_iff, mem_keys_merge]
    rcases hk with hk | hk
    · left; rw [← get?_isSome_iff]
      have := (ha.cmapSpec (lower k) k).mpr ⟨(get?_isSome_iff _ _).mpr hk, rfl⟩
      simp [this]
    · right; rw [← get?_isSome_iff]
      have := (hb.cmapSpec (lower k) k).mpr ⟨(get?_isSome_iff _ _).mpr hk, rfl⟩
      simp [this]

theorem combine_inv {a b : CIDict κ ν} (ha : Inv lower a) (hb : Inv lower b) :
    Inv lower (combine a b) :=
  (dropShadowed_spec lower (pre_combine lower ha hb)).1

theorem get?_overlay (m n : SMap κ ν) (hn : (keys n).Nodup) (x : κ) :
    get? (SMap.overlay m n) x = (get? n x).or (get? m x) :=
  get?_merge_nodup m n hn x

/-- the other map's entries win; entries only in `a` survive -/
theorem combine_abs {a b : CIDict κ ν} (ha : Inv lower a) (hb : Inv lower b) (x : κ) :
    get? (abs lower (combine a b)) x = get? (SMap.overlay (abs lower a) (abs lower b)) x := by
  unfold combine
  rw [(dropShadowed_spec lower (pre_combine lower ha hb)).2, get?_overlay _ _ (hb.absNodup lower),
    abs_get? lower ha, abs_get? lower hb, get?_merge_nodup _ _ hb.cmapNodup]
  cases hc : get? b.cmap x with
  | some k =>
    obtain ⟨h1, _⟩ := (hb.cmapSpec _ _).mp hc
    cases hv : get? b.data k with
    | none => rw [hv] at h1; cases h1
    | some v => simp [get?_merge_nodup _ _ hb.dataNodup, hv]
  | none =>
    simp only [Option.bind_none]
    cases hc2 : get? a.cmap x with
    | none => rfl
    | some k =>
      simp only [Option.bind_some]
      have hl := ((ha.cmapSpec _ _).mp hc2).2
      have : get? b.data k = none := by
        cases hv : get? b.data k with
        | none => rfl
        | some v =>
          have := (hb.cmapSpec x k).mpr ⟨by simp [hv], hl⟩
          rw [hc] at this; cases this
      simp [get?_merge_nodup _ _ hb.dataNodup, this]

end Upnp.CIDict
