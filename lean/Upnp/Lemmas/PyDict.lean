import Upnp.Model.PyDict
namespace Upnp.PyDict
variable {κ ν : Type} [DecidableEq κ]

@[simp] theorem get?_nil (k : κ) : get? ([] : PyDict κ ν) k = none := rfl

theorem get?_cons (k' : κ) (v : ν) (r : PyDict κ ν) (k : κ) :
    get? ((k', v) :: r) k = if k' = k then some v else get? r k := rfl

theorem get?_set_self (d : PyDict κ ν) (k : κ) (v : ν) : get? (set d k v) k = some v := by
  induction d with
  | nil => simp [set, get?]
  | cons p r ih =>
    obtain ⟨k', v'⟩ := p
    by_cases h : k' = k <;> simp [set, get?, h, ih]

theorem get?_set_ne (d : PyDict κ ν) (k k2 : κ) (v : ν) (h : k ≠ k2) :
    get? (set d k v) k2 = get? d k2 := by
  induction d with
  | nil => simp [set, get?, h]
  | cons p r ih =>
    obtain ⟨k', v'⟩ := p
    simp only [set, get?]; grind [get?]

theorem get?_set (d : PyDict κ ν) (k k2 : κ) (v : ν) :
    get? (set d k v) k2 = if k = k2 then some v else get? d k2 := by
  by_cases h : k = k2
  · subst h; simp [get?_set_self]
  · simp [h, get?_set_ne d k k2 v h]

theorem get?_eq_none_iff (d : PyDict κ ν) (k : κ) : get? d k = none ↔ k ∉ keys d := by
  induction d with
  | nil => simp [keys]
  | cons p r ih =>
    obtain ⟨k', v'⟩ := p
    by_cases h : k' = k
    · subst h; simp [get?, keys]
    · have h' : ¬ k = k' := fun e => h e.symm
      simp [get?, keys, h, h'] at *; exact ih

theorem get?_isSome_iff (d : PyDict κ ν) (k : κ) : (get? d k).isSome ↔ k ∈ keys d := by
  rw [← Decidable.not_iff_not, ← get?_eq_none_iff]
  cases get? d k <;> simp

theorem mem_of_get? {d : PyDict κ ν} {k : κ} {v : ν} (h : get? d k = some v) : (k, v) ∈ d := by
  induction d with
  | nil => simp [get?] at h
  | cons p r ih =>
    obtain ⟨k', v'⟩ := p
    by_cases h1 : k' = k
    · subst h1; simp [get?] at h; simp [h]
    · simp [get?, h1] at h; exact List.mem_cons_of_mem _ (ih h)

theorem get?_of_mem_nodup {d : PyDict κ ν} (hn : (keys d).Nodup) {k : κ} {v : ν}
    (h : (k, v) ∈ d) : get? d k = some v := by
  induction d with
  | nil => simp at h
  | cons p r ih =>
    obtain ⟨k', v'⟩ := p
    simp [keys] at hn
    rcases List.mem_cons.mp h with h | h
    · cases h; simp [get?]
    · have : k' ≠ k := by
        intro e; subst e; exact hn.1 v h
      simp [get?, this]; exact ih (by simpa [keys] using hn.2) h

theorem keys_set (d : PyDict κ ν) (k : κ) (v : ν) :
    keys (set d k v) = if k ∈ keys d then keys d else keys d ++ [k] := by
  induction d with
  | nil => simp [set, keys]
  | cons p r ih =>
    obtain ⟨k', v'⟩ := p
    simp only [keys] at ih
    simp only [set, keys]
    by_cases h : k' = k
    · subst h; simp
    · have h' : ¬ k = k' := fun e => h e.symm
      by_cases hm : k ∈ List.map (fun x => x.fst) r <;> simp [h, h', ih, hm]

theorem mem_keys_set (d : PyDict κ ν) (k k2 : κ) (v : ν) :
    k2 ∈ keys (set d k v) ↔ k2 = k ∨ k2 ∈ keys d := by
  rw [keys_set]; split
  · constructor
    · intro h; exact Or.inr h
    · rintro (rfl | h) <;> assumption
  · simp [or_comm]

theorem nodup_keys_set (d : PyDict κ ν) (k : κ) (v : ν) (h : (keys d).Nodup) :
    (keys (set d k v)).Nodup := by
  rw [keys_set]; split
  · exact h
  · rename_i hk
    rw [List.nodup_append]; refine ⟨h, by simp, ?_⟩
    intro a ha b hb; simp at hb; subst hb; intro e; subst e; exact hk ha

theorem length_set (d : PyDict κ ν) (k : κ) (v : ν) :
    (set d k v).length = if k ∈ keys d then d.length else d.length + 1 := by
  have := congrArg List.length (keys_set d k v)
  simp only [keys, List.length_map] at this
  rw [this]; simp only [keys]
  by_cases hm : k ∈ List.map (fun x => x.fst) d <;> simp [hm]

theorem get?_erase_self (d : PyDict κ ν) (k : κ) (h : (keys d).Nodup) : get? (erase d k) k = none := by
  induction d with
  | nil => simp [erase]
  | cons p r ih =>
    obtain ⟨k', v'⟩ := p
    simp [keys] at h
    by_cases h1 : k' = k
    · subst h1; simp only [erase, if_true]
      rw [get?_eq_none_iff]; simp [keys]; exact h.1
    · simp [erase, get?, h1]; exact ih (by simpa [keys] using h.2)

theorem get?_erase_ne (d : PyDict κ ν) (k k2 : κ) (h : k ≠ k2) : get? (erase d k) k2 = get? d k2 := by
  induction d with
  | nil => simp [erase]
  | cons p r ih =>
    obtain ⟨k', v'⟩ := p
    simp only [erase, get?]; grind [get?]

theorem keys_erase_sublist (d : PyDict κ ν) (k : κ) : (keys (erase d k)).Sublist (keys d) := by
  induction d with
  | nil => simp [erase, keys]
  | cons p r ih =>
    obtain ⟨k', v'⟩ := p
    by_cases h1 : k' = k
    · subst h1; simp [erase, keys]
    · simp only [keys] at ih; simp [erase, keys, h1, ih]

theorem nodup_keys_erase (d : PyDict κ ν) (k : κ) (h : (keys d).Nodup) : (keys (erase d k)).Nodup :=
  (keys_erase_sublist d k).nodup h

theorem mem_keys_erase (d : PyDict κ ν) (k k2 : κ) (h : (keys d).Nodup) :
    k2 ∈ keys (erase d k) ↔ k2 ≠ k ∧ k2 ∈ keys d := by
  rw [← get?_isSome_iff, ← get?_isSome_iff]
  by_cases e : k = k2
  · subst e; simp [get?_erase_self d k h]
  · have e' : k2 ≠ k := fun x => e x.symm
    simp [get?_erase_ne d k k2 e, e']

theorem length_erase (d : PyDict κ ν) (k : κ) :
    (erase d k).length = if k ∈ keys d then d.length - 1 else d.length := by
  induction d with
  | nil => simp [erase, keys]
  | cons p r ih =>
    obtain ⟨k', v'⟩ := p
    by_cases h1 : k' = k
    · subst h1; simp [erase, keys]
    · have h' : ¬ k = k' := fun e => h1 e.symm
      simp only [keys] at ih
      simp [erase, keys, h1, h', ih]
      by_cases hm : k ∈ List.map (fun x => x.fst) r
      · have : 0 < r.length := by
          cases r with
          | nil => simp at hm
          | cons _ _ => simp
        simp [hm]; omega
      · simp [hm, h']

/-- `merge` looks up in `b` first (given `b` has unique keys, as a Python dict does). -/
theorem get?_foldl_set (b : List (κ × ν)) (a : PyDict κ ν) (k : κ) :
    get? (b.foldl (fun acc p => set acc p.1 p.2) a) k =
      (get? b.reverse k).or (get? a k) := by
  induction b generalizing a with
  | nil => simp
  | cons p r ih =>
    obtain ⟨k', v'⟩ := p
    simp only [List.foldl_cons, List.reverse_cons]
    rw [ih]
    have happ : ∀ (l : List (κ × ν)), get? (l ++ [(k', v')]) k =
        (get? l k).or (if k' = k then some v' else none) := by
      intro l; induction l with
      | nil => simp [get?]
      | cons q l ihl =>
        obtain ⟨a1, b1⟩ := q
        by_cases h : a1 = k <;> simp [get?, h, ihl]
    rw [happ]
    cases get? r.reverse k with
    | some v => rfl
    | none => simp only [get?_set, Option.none_or]; split <;> simp_all

theorem nodup_keys_foldl_set (b : List (κ × ν)) (a : PyDict κ ν) (h : (keys a).Nodup) :
    (keys (b.foldl (fun acc p => set acc p.1 p.2) a)).Nodup := by
  induction b generalizing a with
  | nil => simpa
  | cons p r ih => exact ih _ (nodup_keys_set a p.1 p.2 h)

theorem mem_keys_foldl_set (b : List (κ × ν)) (a : PyDict κ ν) (k : κ) :
    k ∈ keys (b.foldl (fun acc p => set acc p.1 p.2) a) ↔ k ∈ keys a ∨ k ∈ b.map (·.1) := by
  induction b generalizing a with
  | nil => simp
  | cons p r ih =>
    simp only [List.foldl_cons, List.map_cons, List.mem_cons]
    rw [ih, mem_keys_set]; constructor
    · rintro ((h | h) | h)
      · exact Or.inr (Or.inl h)
      · exact Or.inl h
      · exact Or.inr (Or.inr h)
    · rintro (h | h | h)
      · exact Or.inl (Or.inr h)
      · exact Or.inl (Or.inl h)
      · exact Or.inr h

theorem nodup_keys_merge (a b : PyDict κ ν) (h : (keys a).Nodup) : (keys (merge a b)).Nodup :=
  nodup_keys_foldl_set b a h

theorem nodup_keys_ofList (l : List (κ × ν)) : (keys (ofList l)).Nodup :=
  nodup_keys_foldl_set l [] (by simp [keys])

theorem mem_keys_ofList (l : List (κ × ν)) (k : κ) : k ∈ keys (ofList l) ↔ k ∈ l.map (·.1) := by
  unfold ofList merge; rw [mem_keys_foldl_set]; simp [keys]

/-- last write wins -/
theorem get?_ofList (l : List (κ × ν)) (k : κ) : get? (ofList l) k = get? l.reverse k := by
  unfold ofList merge; rw [get?_foldl_set]; cases get? l.reverse k <;> simp

theorem get?_merge (a b : PyDict κ ν) (k : κ) :
    get? (merge a b) k = (get? b.reverse k).or (get? a k) :=
  get?_foldl_set b a k

end Upnp.PyDict

namespace Upnp.PyDict
variable {κ ν : Type} [DecidableEq κ]

theorem get?_append (a b : PyDict κ ν) (k : κ) :
    get? (a ++ b) k = (get? a k).or (get? b k) := by
  induction a with
  | nil => simp
  | cons p r ih =>
    obtain ⟨k', v'⟩ := p
    by_cases h : k' = k <;> simp [get?, h, ih]

theorem get?_reverse_nodup (d : PyDict κ ν) (h : (keys d).Nodup) (k : κ) :
    get? d.reverse k = get? d k := by
  induction d with
  | nil => simp
  | cons p r ih =>
    obtain ⟨k', v'⟩ := p
    simp only [keys, List.map_cons, List.nodup_cons] at h
    simp only [List.reverse_cons, get?_append, get?]
    rw [ih (by simpa [keys] using h.2)]
    by_cases e : k' = k
    · subst e
      have : get? r k' = none := by rw [get?_eq_none_iff]; simpa [keys] using h.1
      simp [this]
    · simp [e]

theorem get?_merge_nodup (a b : PyDict κ ν) (hb : (keys b).Nodup) (k : κ) :
    get? (merge a b) k = (get? b k).or (get? a k) := by
  rw [get?_merge, get?_reverse_nodup b hb]

theorem mem_keys_merge (a b : PyDict κ ν) (k : κ) : k ∈ keys (merge a b) ↔ k ∈ keys a ∨ k ∈ keys b := by
  unfold merge; rw [mem_keys_foldl_set]; simp [keys]

omit [DecidableEq κ] in
/-- lookup in a mapped list is `find?` on the source -/
theorem get?_map_find? [DecidableEq κ] {α β : Type} (L : List α) (g : α → κ) (h : α → β) (x : κ) :
    get? (L.map fun p => (g p, h p)) x = (L.find? fun p => decide (g p = x)).map h := by
  induction L with
  | nil => simp
  | cons p r ih =>
    by_cases e : g p = x <;> simp [get?, List.find?, e, ih]

end Upnp.PyDict
