/-
  Byte-string helpers for the SSDP codec model (C01/C02).  Import-free.
  A byte is a `Nat` (the driver feeds values < 256; the theorems hold for every `List Nat`,
  which is more than is needed).  Python `bytes`/ASCII `str` primitives are transcribed as
  structurally recursive functions so that proofs go by induction on the list.
-/
namespace Upnp.C01

abbrev Bytes := List Nat

def CR : Nat := 13
def LF : Nat := 10
def SP : Nat := 32
def HT : Nat := 9
def COLON : Nat := 58

/-- ASCII lower-casing of one byte (Python `str.lower` restricted to ASCII text) -/
def lowerB (b : Nat) : Nat := if 65 ≤ b ∧ b ≤ 90 then b + 32 else b
def lower (s : Bytes) : Bytes := s.map lowerB

/-- `str.encode()` of an ASCII literal -/
def ofString (s : String) : Bytes := s.toList.map Char.toNat

def startsWith : Bytes → Bytes → Bool
  | _, [] => true
  | [], _ :: _ => false
  | a :: s, b :: p => a == b && startsWith s p

/-- `needle in s` -/
def isInfix (needle : Bytes) : Bytes → Bool
  | [] => needle.isEmpty
  | a :: s => startsWith (a :: s) needle || isInfix needle s

/-- `data.replace(b"\r\n", b"\n")` -/
def replaceCRLF : Bytes → Bytes
  | [] => []
  | [a] => [a]
  | a :: b :: r => if a = CR ∧ b = LF then LF :: replaceCRLF r else a :: replaceCRLF (b :: r)

/-- `data.split(b"\n")` (always at least one piece) -/
def splitLF : Bytes → List Bytes
  | [] => [[]]
  | a :: r =>
    if a = LF then [] :: splitLF r
    else match splitLF r with
      | h :: t => (a :: h) :: t
      | [] => [[a]]

/-- `s.split(sep, 1)` / `partition`: `none` when `sep` does not occur -/
def splitFirst (sep : Nat) : Bytes → Option (Bytes × Bytes)
  | [] => none
  | a :: r =>
    if a = sep then some ([], r)
    else (splitFirst sep r).map fun p => (a :: p.1, p.2)

/-- `bytes.lstrip(b" \t")` -/
def lstripSPHT : Bytes → Bytes
  | [] => []
  | a :: r => if a = SP ∨ a = HT then lstripSPHT r else a :: r

def rstripSPHT (s : Bytes) : Bytes := (lstripSPHT s.reverse).reverse
/-- `bytes.strip(b" \t")` -/
def stripSPHT (s : Bytes) : Bytes := rstripSPHT (lstripSPHT s)

/-- ASCII whitespace as understood by `bytes.strip()` -/
def isAsciiWs (b : Nat) : Bool := b == 32 || (9 ≤ b && b ≤ 13)

def lstripWs : Bytes → Bytes
  | [] => []
  | a :: r => if isAsciiWs a then lstripWs r else a :: r
/-- `bytes.strip()` -/
def stripWs (s : Bytes) : Bytes := (lstripWs (lstripWs s).reverse).reverse

/-- `b"\r\n".join(lines)` -/
def joinCRLF : List Bytes → Bytes
  | [] => []
  | [x] => x
  | x :: y :: r => x ++ CR :: LF :: joinCRLF (y :: r)

/-- `str(n)` for a non-negative int -/
def natDec (n : Nat) : Bytes := (Nat.toDigits 10 n).map Char.toNat

/-- RFC 9110 `tchar` (aiohttp `TOKENRE`) -/
def isTchar (b : Nat) : Bool :=
  (48 ≤ b && b ≤ 57) || (65 ≤ b && b ≤ 90) || (97 ≤ b && b ≤ 122)
  || b == 33 || (35 ≤ b && b ≤ 39) || b == 42 || b == 43 || b == 45 || b == 46
  || b == 94 || b == 95 || b == 96 || b == 124 || b == 126

/-- `TOKENRE.fullmatch(name)` for a name decoded with surrogateescape: every non-ASCII byte
    becomes a non-token character, so the test is byte-wise. -/
def isToken (s : Bytes) : Bool := !s.isEmpty && s.all isTchar

/-! ### strict UTF-8 validity (Python `bytes.decode()`): no overlongs, no surrogates, ≤ U+10FFFF -/

def isCont (b : Nat) : Bool := 128 ≤ b && b ≤ 191

def utf8Valid : Bytes → Bool
  | [] => true
  | a :: r =>
    if a < 128 then utf8Valid r
    else if 194 ≤ a && a ≤ 223 then
      match r with
      | b :: r1 => isCont b && utf8Valid r1
      | _ => false
    else if 224 ≤ a && a ≤ 239 then
      match r with
      | b :: c :: r2 =>
        isCont b && isCont c
        && (a != 224 || 160 ≤ b) && (a != 237 || b ≤ 159) && utf8Valid r2
      | _ => false
    else if 240 ≤ a && a ≤ 244 then
      match r with
      | b :: c :: d :: r3 =>
        isCont b && isCont c && isCont d
        && (a != 240 || 144 ≤ b) && (a != 244 || b ≤ 143) && utf8Valid r3
      | _ => false
    else false

/-- Does the text (UTF-8, undecodable bytes escaped one by one) consist only of characters for
    which Python's `str.isspace()` holds?  (`location.strip()` is empty iff this holds.)
    Each whitespace character is matched by its complete UTF-8 sequence. -/
def allPyWs : Bytes → Bool
  | [] => true
  | a :: r =>
    if a == 32 || (9 ≤ a && a ≤ 13) || (28 ≤ a && a ≤ 31) then allPyWs r
    else if a == 194 then
      match r with
      | b :: r1 => (b == 133 || b == 160) && allPyWs r1
      | _ => false
    else if a == 225 then
      match r with
      | b :: c :: r2 => b == 154 && c == 128 && allPyWs r2
      | _ => false
    else if a == 226 then
      match r with
      | b :: c :: r2 =>
        ((b == 128 && ((128 ≤ c && c ≤ 138) || c == 168 || c == 169 || c == 175))
          || (b == 129 && c == 159)) && allPyWs r2
      | _ => false
    else if a == 227 then
      match r with
      | b :: c :: r2 => b == 128 && c == 128 && allPyWs r2
      | _ => false
    else false

end Upnp.C01
