/-
  `functools.lru_cache(maxsize=cap)` around a function whose failures are exceptions:
  a bounded most-recently-used-first list of (key, value); a hit moves the entry to the front,
  a miss computes, stores and evicts the oldest entry; a raising call stores nothing.
  Import-free.
-/
namespace Upnp.C01

structure Lru (κ ν : Type) where
  cap : Nat
  entries : List (κ × ν) := []

namespace Lru
variable {κ ν ε : Type} [DecidableEq κ]

def find (c : Lru κ ν) (k : κ) : Option ν := (c.entries.find? (·.1 = k)).map (·.2)

/-- one call of the cached function -/
def call (f : κ → Except ε ν) (c : Lru κ ν) (k : κ) : Except ε ν × Lru κ ν :=
  match c.find k with
  | some v => (.ok v, { c with entries := (k, v) :: c.entries.filter (·.1 ≠ k) })
  | none =>
    match f k with
    | .ok v => (.ok v, { c with entries := ((k, v) :: c.entries).take c.cap })
    | .error e => (.error e, c)

/-- a sequence of calls: the results, in order -/
def run (f : κ → Except ε ν) : Lru κ ν → List κ → List (Except ε ν)
  | _, [] => []
  | c, k :: ks => (call f c k).1 :: run f (call f c k).2 ks

end Lru
end Upnp.C01
