/-
  C01 — byte-level model of the SSDP codec in `async_upnp_client/ssdp.py`:
  `build_ssdp_packet`, `is_valid_ssdp_packet`, `_cached_header_parse` (with aiohttp 3.9.5
  `HeadersParser.parse_headers`, non-lax, transcribed check by check in the order of the source),
  `udn_from_usn`, `get_host_string`, `get_adjusted_url` (on a URL grammar; `none` = outside the
  grammar, "unmodelled"), `_cached_decode_ssdp_packet`, `decode_ssdp_packet`.
  Import-free apart from the shared dict models.
-/
import Upnp.Model.C01Bytes
import Upnp.Model.CIDict
namespace Upnp.C01
open Upnp PyDict

/-- socket address tuple: `(host, port)` or `(host, port, flow, scope)` (`v6 = true`) -/
structure Addr where
  host : Bytes
  port : Nat
  v6 : Bool := false
  flow : Nat := 0
  scope : Nat := 0
deriving DecidableEq, Repr

/-- header values as they appear in a decoded header map -/
inductive Val
  | str (b : Bytes)        -- text (UTF-8 bytes; undecodable bytes travel as themselves)
  | addr (a : Addr)        -- an address tuple
  | pyNone                 -- Python `None`
  | int (n : Nat)
  | ts (t : Int)           -- `datetime.now()` (virtual clock, µs)
  | unk                    -- value outside the model (URL outside the grammar)
deriving DecidableEq, Repr

/-- every exception class a primitive used on the receive path can raise (catalogue; C02) -/
inductive Exn
  | unicodeDecode      -- `bytes.decode()` of the request line
  | invalidHeader      -- aiohttp `InvalidHeader`
  | lineTooLong        -- aiohttp `LineTooLong`
  | indexError         -- `lines[1]` / `lines[lines_idx]`
  | urlValueError      -- `urlsplit`: unbalanced / invalid bracketed host
  | hostnameAssertion  -- `assert data.hostname`
  | portValueError     -- `SplitResult.port`
  | intDigitsLimit     -- `int()` beyond 4300 digits
  | timedeltaOverflow  -- `timedelta(seconds=…)`
  | datetimeOverflow   -- `datetime + timedelta`
  | randrangeEmpty     -- `randrange(a, b)` with `b ≤ a`
  | keyError
deriving DecidableEq, Repr

abbrev Hdrs := CIDict Bytes Val

/-! ### building -/

/-- `f"{key}:{value}"`; `sep` is the literal between name and value (`Gen.C01Ssdp.headerSep`) -/
def hdrLine (sep : Bytes) (p : Bytes × Bytes) : Bytes := p.1 ++ (sep ++ p.2)

/-- `build_ssdp_packet(status_line, headers)` (already encoded) -/
def build (sep : Bytes) (sl : Bytes) (hs : List (Bytes × Bytes)) : Bytes :=
  sl ++ CR :: LF :: (joinCRLF (hs.map (hdrLine sep)) ++ [CR, LF, CR, LF])

/-- `get_host_string` -/
def hostString (a : Addr) : Bytes :=
  if a.v6 ∧ a.scope ≠ 0 then a.host ++ 37 :: natDec a.scope else a.host

/-- `get_host_port_string` -/
def hostPortString (a : Addr) : Bytes :=
  let h := hostString a
  if h.contains COLON then 91 :: h ++ 93 :: COLON :: natDec a.port else h ++ COLON :: natDec a.port

/-- `build_ssdp_search_packet(target, mx, st)` -/
def buildSearch (sep : Bytes) (target : Addr) (mx : Bytes) (st : Bytes) : Bytes :=
  build sep (ofString "M-SEARCH * HTTP/1.1")
    [(ofString "HOST", hostPortString target), (ofString "MAN", ofString "\"ssdp:discover\""),
     (ofString "MX", mx), (ofString "ST", st)]

/-! ### the validity gate -/

/-- `is_valid_ssdp_packet` over the prefix table extracted from the source -/
def isValidPacket (prefixes : List Bytes) (data : Bytes) : Bool :=
  !data.isEmpty && data.contains LF && prefixes.any (startsWith data)

/-! ### aiohttp `HeadersParser.parse_headers` -/

def maxField : Nat := 8190

/-- one header line, checks in source order -/
def parseLine (line : Bytes) : Except Exn (Bytes × Bytes) :=
  match splitFirst COLON line with
  | .none => .error .invalidHeader                       -- `line.split(b":", 1)` fails
  | some (bname, bvalue) =>
    if bname.isEmpty then .error .invalidHeader
    else if bname.head? = some SP ∨ bname.head? = some HT
          ∨ bname.getLast? = some SP ∨ bname.getLast? = some HT then .error .invalidHeader
    else
      let bvalue := lstripSPHT bvalue
      if bname.length > maxField then .error .lineTooLong
      else if !isToken bname then .error .invalidHeader
      else if bvalue.length > maxField then .error .lineTooLong
      else
        let bvalue := rstripSPHT bvalue
        if bvalue.contains LF ∨ bvalue.contains CR ∨ bvalue.contains 0 then .error .invalidHeader
        else .ok (bname, bvalue)

/-- the `while line:` loop over `lines[1:]`; running off the end is the `IndexError` of
    `lines[lines_idx]` (shown unreachable after the `lines.append(b"")` fix-up) -/
def parseLines : List Bytes → Except Exn (List (Bytes × Bytes))
  | [] => .error .indexError
  | line :: rest =>
    if line.isEmpty then .ok []
    else match parseLine line with
      | .error e => .error e
      | .ok p => match parseLines rest with
        | .error e => .error e
        | .ok t => .ok (p :: t)

/-- `lines = data.replace(b"\r\n", b"\n").split(b"\n")` then `if lines[-1] != b"": lines.append(b"")` -/
def linesOf (data : Bytes) : List Bytes :=
  let ls := splitLF (replaceCRLF data)
  if ls.getLast? = some [] then ls else ls ++ [[]]

/-- `{**parsed_headers}` for a `CIMultiDictProxy`: keys keep their spelling, `md[k]` is the FIRST
    value stored under the case-folded name. -/
def firstCI (pairs : List (Bytes × Bytes)) (k : Bytes) : Bytes :=
  match pairs.find? (fun p => lower p.1 == lower k) with
  | some p => p.2
  | .none => []

def mdToDict (pairs : List (Bytes × Bytes)) : PyDict Bytes Val :=
  PyDict.ofList (pairs.map fun p => (p.1, Val.str (firstCI pairs p.1)))

/-- `parsed_headers.get(name)`: first value, case-insensitively -/
def mdGet (pairs : List (Bytes × Bytes)) (lname : Bytes) : Option Bytes :=
  (pairs.find? (fun p => lower p.1 == lname)).map (·.2)

/-- `udn_from_usn` -/
def splitColons : Bytes → Bytes     -- `usn.partition("::")[0]`
  | [] => []
  | [a] => [a]
  | a :: b :: r => if a = COLON ∧ b = COLON then [] else a :: splitColons (b :: r)

def udnFromUsn (usn : Bytes) : Option Bytes :=
  if startsWith (lower (usn.take 5)) (ofString "uuid:") then some (splitColons usn) else .none

/-- `udn_from_usn(usn) if usn else None` on the first `usn` value -/
def udnOf (pairs : List (Bytes × Bytes)) : Option Bytes :=
  match mdGet pairs (ofString "usn") with
  | some usn => if usn.isEmpty then .none else udnFromUsn usn
  | .none => .none

/-- `_cached_header_parse`: request line, parsed pairs, udn -/
def headerParse (data : Bytes) : Except Exn (List (Bytes × Bytes) × Bytes × Option Bytes) :=
  let lines := linesOf data
  let rl := stripWs (lines.headD [])
  if !utf8Valid rl then .error .unicodeDecode
  else match parseLines (lines.drop 1) with
    | .error e => .error e
    | .ok pairs => .ok (pairs, rl, udnOf pairs)

/-! ### `get_adjusted_url` on a URL grammar -/

def isAlpha (b : Nat) : Bool := (65 ≤ b && b ≤ 90) || (97 ≤ b && b ≤ 122)
def isDigit (b : Nat) : Bool := 48 ≤ b && b ≤ 57
def isHex (b : Nat) : Bool := isDigit b || (65 ≤ b && b ≤ 70) || (97 ≤ b && b ≤ 102)
def isSchemeChar (b : Nat) : Bool := isAlpha b || isDigit b || b == 43 || b == 45 || b == 46

def decVal (s : Bytes) : Nat := s.foldl (fun acc b => acc * 10 + (b - 48)) 0
def hexDigitVal (b : Nat) : Nat := if isDigit b then b - 48 else if b ≥ 97 then b - 87 else b - 55
def hexVal (s : Bytes) : Nat := s.foldl (fun acc b => acc * 16 + hexDigitVal b) 0

/-- split at every occurrence of `sep` -/
def splitAll (sep : Nat) : Bytes → List Bytes
  | [] => [[]]
  | a :: r =>
    if a = sep then [] :: splitAll sep r
    else match splitAll sep r with
      | h :: t => (a :: h) :: t
      | [] => [[a]]

/-- `ipaddress.IPv4Address(s)`: four decimal octets, no leading zeros, ≤ 255; returns the octets -/
def parseIPv4 (s : Bytes) : Option (List Nat) :=
  let parts := splitAll 46 s
  if parts.length = 4 ∧ parts.all (fun p => !p.isEmpty && p.all isDigit && p.length ≤ 3
        && (p.length = 1 || p.head? != some 48) && decVal p ≤ 255)
  then some (parts.map decVal) else .none

/-- `ipaddress.IPv6Address(s)` without zone and without an IPv4 suffix: `some firstHextet`
    when valid (all that `is_link_local` needs), `none` when invalid. -/
def parseIPv6 (s : Bytes) : Option Nat :=
  let parts := splitAll COLON s
  let n := parts.length
  if n < 3 ∨ n > 9 then .none
  else
    let okHextet (p : Bytes) : Bool := !p.isEmpty && p.all isHex && p.length ≤ 4
    let inner := (parts.drop 1).take (n - 2)
    let empties := (inner.zipIdx.filter (fun q => q.1.isEmpty)).map (·.2 + 1)
    let first := parts.headD []
    let last := parts.getLastD []
    match empties with
    | [] =>
      if n = 8 ∧ parts.all okHextet then some (hexVal first) else .none
    | [skip] =>
      let hi := if first.isEmpty then skip - 1 else skip
      let lo := if last.isEmpty then n - skip - 2 else n - skip - 1
      if (first.isEmpty ∧ skip - 1 ≠ 0) ∨ (last.isEmpty ∧ n - skip - 2 ≠ 0) then .none
      else if hi + lo ≥ 8 then .none
      else
        let his := (parts.take skip).drop (if first.isEmpty then 1 else 0)
        let los := ((parts.drop (skip + 1)).take (n - skip - 1 - (if last.isEmpty then 1 else 0)))
        if his.all okHextet ∧ los.all okHextet then some (if hi = 0 then 0 else hexVal first) else .none
    | _ => .none

inductive IpKind | v4LinkLocal | v6LinkLocal | other | invalid | unmodelled
deriving DecidableEq, Repr

/-- `ip_address(hostname)` and `.is_link_local` -/
def ipKind (host : Bytes) : IpKind :=
  match parseIPv4 host with
  | some o => if o.take 2 = [169, 254] then .v4LinkLocal else .other
  | .none =>
    match splitFirst 37 host with                       -- zone after `%`
    | some (a, zone) =>
      if zone.isEmpty ∨ zone.contains 37 then .invalid
      else if a.contains 46 then .unmodelled
      else match parseIPv6 a with
        | some h => if h / 64 = 1018 then .v6LinkLocal else .other      -- fe80::/10
        | .none => .invalid
    | .none =>
      if host.contains 46 ∧ host.contains COLON then .unmodelled
      else match parseIPv6 host with
        | some h => if h / 64 = 1018 then .v6LinkLocal else .other
        | .none => .invalid

/-- why `get_adjusted_url` hands the URL back unchanged — the three `…Error` cases are the ones
    where the unrepaired code raised (F02c, F02d, F02e) -/
inductive SameWhy
  | notScoped        -- source is not a scoped IPv6 tuple
  | splitError       -- `urlsplit` raises ValueError (unbalanced brackets, invalid bracketed host)
  | noHost           -- `data.hostname` is None / empty
  | notIp            -- `ip_address(hostname)` raises ValueError (caught in the original code)
  | notLinkLocal
  | portError        -- `data.port` raises ValueError
deriving DecidableEq, Repr

inductive UrlOutcome
  | same (why : SameWhy)
  | adjusted (u : Bytes)
  | unmodelled       -- outside the modelled grammar
deriving DecidableEq, Repr

/-- what `urlsplit` + `.hostname` / the port text give, for the URL grammar -/
structure UrlParts where
  scheme : Bytes
  host : Bytes          -- `data.hostname` (lower-cased before a `%zone`)
  portTxt : Bytes
  tail : Bytes          -- path ? query # fragment, verbatim
  bracketed : Bool

/-- why there are no parts: outside the grammar, or one of the early returns of `get_adjusted_url` -/
inductive Early | unmodelled | noHost | splitError
deriving DecidableEq, Repr

def Early.outcome : Early → UrlOutcome
  | .unmodelled => .unmodelled
  | .noHost => .same .noHost
  | .splitError => .same .splitError

/-- `urlsplit(url)` and `_hostinfo`.  `unmodelled`: control bytes (urlsplit strips some), blanks / non-ASCII in
    the network location, userinfo, IPvFuture.  Blanks and non-ASCII text in path / query / fragment are modelled. -/
def urlParts (url : Bytes) : Except Early UrlParts :=
  if !url.all (fun b => (32 ≤ b && b ≤ 126) || 128 ≤ b) || url.head? == some 32 then .error .unmodelled
  else
    -- scheme
    let (scheme, rest) :=
      match splitFirst COLON url with
      | some (s, r) => if !s.isEmpty && isAlpha (s.headD 0) && s.all isSchemeChar then (lower s, r) else ([], url)
      | .none => ([], url)
    if !(startsWith rest [47, 47]) then .error .noHost          -- no netloc: hostname is None
    else
      let rest2 := rest.drop 2
      let netloc := rest2.takeWhile (fun b => b != 47 && b != 63 && b != 35)
      let tail := rest2.dropWhile (fun b => b != 47 && b != 63 && b != 35)
      if netloc.contains 64 || !netloc.all (fun b => 33 ≤ b && b ≤ 126) then .error .unmodelled
      else
        let hasO := netloc.contains 91
        let hasC := netloc.contains 93
        if hasO != hasC then .error .splitError                  -- ValueError: Invalid IPv6 URL
        else
          -- hostname / port text (`_hostinfo`)
          let (hostRaw, portTxt, bracketed) :=
            if hasO then
              let afterO := ((splitFirst 91 netloc).map (·.2)).getD []
              match splitFirst 93 afterO with
              | some (h, p) => (h, ((splitFirst COLON p).map (·.2)).getD [], true)
              | .none => (afterO, [], true)
            else
              match splitFirst COLON netloc with
              | some (h, p) => (h, p, false)
              | .none => (netloc, [], false)
          if bracketed ∧ hostRaw.headD 0 = 118 then .error .unmodelled     -- IPvFuture
          else
            -- hostname: lower-cased before `%`
            let host := match splitFirst 37 hostRaw with
              | some (h, z) => lower h ++ 37 :: z
              | .none => lower hostRaw
            .ok { scheme := scheme, host := host, portTxt := portTxt, tail := tail, bracketed := bracketed }

/-- the rest of `get_adjusted_url` once scheme, host, port text and tail are known
    (`unmodelled`: an IPv4-suffixed IPv6 host) -/
def adjustParts (a : Addr) (p : UrlParts) : UrlOutcome :=
  let kind := ipKind p.host
  -- `_check_bracketed_host` inside urlsplit
  if p.bracketed ∧ (kind = .invalid ∨ kind = .v4LinkLocal ∨ (parseIPv4 p.host).isSome) then .same .splitError
  else if p.bracketed ∧ kind = .unmodelled then .unmodelled
  else if p.host.isEmpty then .same .noHost              -- hostname None
  else match kind with
    | .unmodelled => .unmodelled
    | .invalid => .same .notIp
    | .other => .same .notLinkLocal
    | .v4LinkLocal => .same .notLinkLocal               -- `address.version != 6`: only IPv6 link-local addresses are scoped
    | .v6LinkLocal =>
      -- `.port`
      if !p.portTxt.isEmpty ∧ (!p.portTxt.all isDigit ∨ p.portTxt.length > 4300 ∨ decVal p.portTxt > 65535) then .same .portError
      else
        let port := decVal p.portTxt
        let netloc' := 91 :: p.host ++ 37 :: natDec a.scope ++ [93]
          ++ (if port ≠ 0 then COLON :: natDec port else [])
        -- urlunsplit
        let (pq, frag) := match splitFirst 35 p.tail with
          | some (x, f) => (x, f) | .none => (p.tail, [])
        let (path, query) := match splitFirst 63 pq with
          | some (x, q) => (x, q) | .none => (pq, [])
        let u := [47, 47] ++ netloc' ++ path
        let u := if p.scheme.isEmpty then u else p.scheme ++ COLON :: u
        let u := if query.isEmpty then u else u ++ 63 :: query
        let u := if frag.isEmpty then u else u ++ 35 :: frag
        .adjusted u

/-- `get_adjusted_url(url, addr)` on the URL grammar, with the reason when nothing is adjusted -/
def urlOutcome (url : Bytes) (a : Addr) : UrlOutcome :=
  if !(a.v6 ∧ a.scope ≠ 0) then .same .notScoped
  else match urlParts url with
    | .error e => e.outcome
    | .ok p => adjustParts a p

/-- `get_adjusted_url(url, addr)` as repaired (any failure to split / read host or port returns
    the URL unchanged); `none` = outside the modelled grammar -/
def adjustUrl (url : Bytes) (a : Addr) : Option Bytes :=
  match urlOutcome url a with
  | .same _ => some url
  | .adjusted u => some u
  | .unmodelled => .none

/-! ### decoding -/

def kHost := ofString "_host"
def kPort := ofString "_port"
def kUdn := ofString "_udn"
def kLocOrig := ofString "_location_original"
def kLocation := ofString "location"
def kTimestamp := ofString "_timestamp"
def kRemote := ofString "_remote_addr"
def kLocal := ofString "_local_addr"

/-- the adjusted location as a header value (`unk` when the URL is outside the modelled grammar) -/
def adjVal (loc : Bytes) (a0 : Addr) : Val := match adjustUrl loc a0 with | some u => .str u | .none => .unk

/-- the `extra` dict of `_cached_decode_ssdp_packet` -/
def extras (pairs : List (Bytes × Bytes)) (udn : Option Bytes) (a0 : Addr) : PyDict Bytes Val :=
  let extra : PyDict Bytes Val := [(kHost, .str (hostString a0))]
  let extra := match udn with
    | some u => PyDict.set extra kUdn (.str u)
    | .none => extra
  let location := (mdGet pairs kLocation).getD []
  if allPyWs location then extra
  else PyDict.set (PyDict.set extra kLocOrig (.str location)) kLocation (adjVal location a0)

/-- `CaseInsensitiveDict(parsed_headers).combine_lower_dict(extra)`: the own data wins over received
    headers in whatever case they are spelled -/
def headersOf (pairs : List (Bytes × Bytes)) (udn : Option Bytes) (a0 : Addr) : Hdrs :=
  CIDict.combineLower (CIDict.ofDict lower (mdToDict pairs)) (extras pairs udn a0)

/-- `_cached_decode_ssdp_packet(data, remote_addr_without_port)` -/
def decodeCore (data : Bytes) (a0 : Addr) : Except Exn (Bytes × Hdrs) :=
  match headerParse data with
  | .error e => .error e
  | .ok (pairs, rl, udn) => .ok (rl, headersOf pairs udn a0)

def withoutPort (a : Addr) : Addr := { a with port := 0 }

/-- the per-call metadata of `decode_ssdp_packet` -/
def callMeta (now : Int) (localAddr : Option Addr) (remote : Addr) : PyDict Bytes Val :=
  [(kTimestamp, .ts now), (kRemote, .addr remote), (kPort, .int remote.port),
   (kLocal, match localAddr with | some l => .addr l | .none => .pyNone)]

/-- `decode_ssdp_packet(data, local_addr, remote_addr)` with `datetime.now() = now` -/
def decode (data : Bytes) (localAddr : Option Addr) (remote : Addr) (now : Int) : Except Exn (Bytes × Hdrs) :=
  match decodeCore data (withoutPort remote) with
  | .error e => .error e
  | .ok (rl, h) => .ok (rl, CIDict.combineLower h (callMeta now localAddr remote))

/-! ### delivery (`SsdpProtocol.datagram_received` after decoding) -/

/-- the callbacks a protocol object is constructed with -/
inductive Sink | onData | asyncOnData
deriving DecidableEq, Repr

/-- `datagram_received` hands the decoded (start line, headers) to EVERY configured callback, once each:
    `async_on_data` (as a task) and `on_data` are two independent `if`s; both get the same mapping -/
def deliver (sinks : List Sink) (r : Option (Bytes × Hdrs)) : List (Sink × Bytes × Hdrs) :=
  match r with
  | some x => sinks.map fun s => (s, x)
  | .none => []

end Upnp.C01
