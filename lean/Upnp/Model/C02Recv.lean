/-
  C02 — the SSDP receive path with EVERY RAISING PRIMITIVE EXPLICIT.

  `recv fx cfg ep st data local src now : Except Exn (Tracker × Eff)` models handing one datagram
  to one of the library's endpoints:

    adv            SsdpAdvertisementListener._on_data behind SsdpProtocol.datagram_received
    search         SsdpSearchListener._on_data
    listenerAdv    SsdpListener: datagram on its advertisement socket (tracker: see/unsee)
    listenerSearch SsdpListener: datagram on its search socket (tracker: see_search)
    responder      server.SsdpSearchResponder._on_data

  `fx : Fixes` switches each repair on or off, so that one model describes the repaired code
  (`Fixes.all`, for which `recv` is proved total) and each unrepaired variant (for which a concrete
  raising datagram is exhibited).  Catalogue of raising primitives and where they are called:

    bytes.decode (request line)         headerParse                 unicodeDecode      F02b
    HeadersParser.parse_headers         parseLine                   invalidHeader / lineTooLong (F02a)
    lines[1], lines[idx]                parseLines                  indexError   (unreachable behind the gate)
    urlsplit                            urlOutcome = splitError     urlValueError      F02c
    assert data.hostname                urlOutcome = noHost         hostnameAssertion  F02d
    SplitResult.port                    urlOutcome = portError      portValueError     F02e
    ip_address                          caught in the source (ValueError) — `notIp`
    int(match[1])  (max-age)            maxAgeUs                    intDigitsLimit     F02h
    timedelta(seconds=…)                maxAgeUs                    timedeltaOverflow  F02f
    datetime + timedelta                validTo                     datetimeOverflow   F02g
    int(mx)                             caught in the source (ValueError) — `pyInt?`
    randrange(100, delay*1000-250)      responder                   randrangeEmpty     F02i
    headers["_host"]                    always present (metadata)   keyError     (unreachable)
    urlparse / ip_address in ip_version_from_location: inside `suppress(ValueError)`

  The combined listener's state IS the tracker state of the C03/C04 model (`C03.Tracker String`)
  and its step IS `C03.Parse.parseEv` + `C03.step` on the header map the C01 decoder produces
  (`pairsOf`); nothing of the tracker is duplicated here.  What C02 adds in front of it are the
  raising primitives of `extract_uncache_after` / `extract_valid_to` (`validTo`), reached exactly when
  `_see_device` gets past its USN check, and their saturation.  Import-free apart from the C01
  codec model and the C03 tracker model.
-/
import Upnp.Model.C01Ssdp
import Upnp.Model.C03Parse
namespace Upnp.C02
open Upnp Upnp.C01 PyDict

structure Fixes where
  catchInvalidHeader : Bool -- present in the original code (`except InvalidHeader`)
  catchLineTooLong : Bool   -- F02a  `except BadHttpMessage`
  catchUnicode : Bool       -- F02b  `except UnicodeDecodeError`
  urlsplitGuard : Bool      -- F02c
  hostnameGuard : Bool      -- F02d
  portGuard : Bool          -- F02e
  tdGuard : Bool            -- F02f
  dtGuard : Bool            -- F02g
  intGuard : Bool           -- F02h
  mxClamp : Bool            -- F02i  `if delay > 0`
  checkBeforePurge : Bool   -- F02j  `_see_device` validates the USN before purging
deriving DecidableEq, Repr

def Fixes.all : Fixes := ⟨true, true, true, true, true, true, true, true, true, true, true⟩

/-! ### decoding with the raising `get_adjusted_url` -/

/-- what `get_adjusted_url` raises on this URL from this source, given the guards present -/
def urlRaises (fx : Fixes) (loc : Bytes) (a0 : Addr) : Option Exn :=
  match urlOutcome loc a0 with
  | .same .splitError => if fx.urlsplitGuard then none else some .urlValueError
  | .same .noHost => if fx.hostnameGuard then none else some .hostnameAssertion
  | .same .portError => if fx.portGuard then none else some .portValueError
  | _ => none

/-- `decode_ssdp_packet` -/
def decodeX (fx : Fixes) (data : Bytes) (loc : Option Addr) (src : Addr) (now : Int) : Except Exn (Bytes × Hdrs) :=
  match headerParse data with
  | .error e => .error e
  | .ok (pairs, rl, udn) =>
    let location := (mdGet pairs kLocation).getD []
    match (if allPyWs location then none else urlRaises fx location (withoutPort src)) with
    | some e => .error e
    | none => .ok (rl, CIDict.combineLower (headersOf pairs udn (withoutPort src)) (callMeta now loc src))

/-- the `except` clause of `SsdpProtocol.datagram_received` -/
def caught (fx : Fixes) (e : Exn) : Bool :=
  (fx.catchInvalidHeader && e == .invalidHeader) || (fx.catchLineTooLong && e == .lineTooLong) || (fx.catchUnicode && e == .unicodeDecode)

/-- `SsdpProtocol.datagram_received` up to the call of `on_data`: `none` = dropped -/
def protocolRecv (fx : Fixes) (prefixes : List Bytes) (data : Bytes) (loc : Option Addr) (src : Addr) (now : Int) :
    Except Exn (Option (Bytes × Hdrs)) :=
  if !isValidPacket prefixes data then .ok none
  else match decodeX fx data loc src now with
    | .ok r => .ok (some r)
    | .error e => if caught fx e then .ok none else .error e

/-! ### header access -/

def getL (h : Hdrs) (k : String) : Option Val := CIDict.getLower h (ofString k)

/-- Python truthiness of `headers.get_lower(k)` -/
def truthy : Option Val → Bool
  | some (.str b) => !b.isEmpty
  | some (.int n) => n != 0
  | some .pyNone => false
  | some _ => true
  | none => false

def strOf : Option Val → Bytes
  | some (.str b) => b
  | _ => []

def discover : Bytes := ofString "\"ssdp:discover\""

/-- `usn := headers.get_lower("usn")` truthy and `udn_from_usn(usn)` truthy -/
def usnUdn (h : Hdrs) : Option Bytes :=
  match getL h "usn" with
  | some (.str u) => if u.isEmpty then none else udnFromUsn u
  | _ => none

/-! ### effects -/

structure Eff where
  cbMin : Nat := 0     -- user callbacks fired: at least …
  cbMax : Nat := 0     -- … at most (always equal now that the tracker is C03's)
  sends : Nat := 0     -- datagrams sent
  timers : Nat := 0    -- timers scheduled
  notif : Option (String × String × C03.Source) := none   -- combined listener: callback(device udn, type, source)
deriving DecidableEq, Repr

def noEff : Eff := {}
def oneCb : Eff := { cbMin := 1, cbMax := 1 }

/-! ### advertisement / search listeners -/

inductive AdvKind | alive | byebye | update
deriving DecidableEq, Repr

/-- `SsdpAdvertisementListener._on_data`: which callback family fires -/
def advClassify (h : Hdrs) : Option AdvKind :=
  if getL h "man" == some (.str discover) then none
  else match getL h "nts" with
    | some (.str v) =>
      if v == ofString "ssdp:alive" then some .alive
      else if v == ofString "ssdp:byebye" then some .byebye
      else if v == ofString "ssdp:update" then some .update
      else none
    | _ => none

/-- `SsdpSearchListener._on_data`: does the callback fire?  (`headers["_host"]` is metadata and
    always present; a missing key would be `keyError`) -/
def searchClassify (targetHost : Bytes) (h : Hdrs) : Except Exn Bool :=
  if getL h "man" == some (.str discover) then .ok false
  else if truthy (getL h "nts") then .ok false
  else if targetHost.isEmpty then .ok true
  else match CIDict.getitem lower h kHost with
    | none => .error .keyError
    | some v => .ok (v == .str targetHost)

/-! ### the raising primitives in front of the device tracker -/

/-- `datetime.max` and `timedelta.max` in µs (relative to the harness' epoch 2024-01-01) -/
def dtMax : Int := 251698233599999999
def tdMax : Nat := 86399999999999999999

/-- regex `\s` on ASCII text -/
def isReWs (b : Nat) : Bool := b == 32 || (9 ≤ b && b ≤ 13) || (28 ≤ b && b ≤ 31)

/-- `max-age\s*=\s*(\d+)` (IGNORECASE) anchored here: the digits -/
def matchMaxAgeAt (s : Bytes) : Option Bytes :=
  if startsWith (lower (s.take 7)) (ofString "max-age") then
    match (s.drop 7).dropWhile isReWs with
    | 61 :: r =>
      let ds := (r.dropWhile isReWs).takeWhile isDigit
      if ds.isEmpty then none else some ds
    | _ => none
  else none

/-- `CACHE_CONTROL_RE.search(cache_control)`: leftmost match -/
def findMaxAge : Bytes → Option Bytes
  | [] => none
  | a :: r => match matchMaxAgeAt (a :: r) with
    | some d => some d
    | none => findMaxAge r

/-- `extract_uncache_after` in µs -/
def maxAgeUs (fx : Fixes) (cc : Bytes) : Except Exn Nat :=
  match findMaxAge cc with
  | none => .ok (900 * 1000000)
  | some ds =>
    if ds.length > 4300 then (if fx.intGuard then .ok tdMax else .error .intDigitsLimit)
    else
      let us := decVal ds * 1000000
      if us > tdMax then (if fx.tdGuard then .ok tdMax else .error .timedeltaOverflow)
      else .ok us

/-- `extract_valid_to` for a cache-control text -/
def validToCc (fx : Fixes) (cc : Bytes) (now : Int) : Except Exn Int :=
  match maxAgeUs fx cc with
  | .error e => .error e
  | .ok us =>
    if now + us > dtMax then (if fx.dtGuard then .ok dtMax else .error .datetimeOverflow)
    else .ok (now + us)

def validTo (fx : Fixes) (h : Hdrs) (now : Int) : Except Exn Int := validToCc fx (strOf (getL h "cache-control")) now

/-! ### the combined listener: C03's tracker on the C01 decoder's header map -/

abbrev Tracker := C03.Tracker String

/-- text as the String-based tracker model reads it: one character per byte (Latin-1), which keeps
    equality, ASCII lower-casing, prefixes and infixes exactly as they are on the bytes -/
def strOfBytes (b : Bytes) : String := String.ofList (b.map Char.ofNat)

def addrStr (a : Addr) : String :=
  if a.v6 then s!"({strOfBytes a.host}, {a.port}, {a.flow}, {a.scope})" else s!"({strOfBytes a.host}, {a.port})"

/-- decimal digits of a natural number, least significant first (`fuel` > number of digits) -/
def digitsRev : Nat → Nat → List Nat
  | 0, _ => []
  | f + 1, n => if n < 10 then [n] else (n % 10) :: digitsRev f (n / 10)

/-- `str(n)` for an integer: what `toString` prints, defined structurally so that the tracker model's
    `_timestamp` parser can be proved to read it back (`tsOf_hsOf`) -/
def decInt (t : Int) : String :=
  let ds (n : Nat) : List Char := ((digitsRev (n + 1) n).reverse).map fun d => Char.ofNat (48 + d)
  if t < 0 then String.ofList ('-' :: ds t.natAbs) else String.ofList (ds t.toNat)

/-- header values as text (`_timestamp` as the decimal µs the tracker model parses; the other metadata
    values are never compared by the tracker: names starting with `_` are skipped) -/
def valStr : Val → String
  | .str b => strOfBytes b
  | .addr a => addrStr a
  | .pyNone => "None"
  | .int n => toString n
  | .ts t => decInt t
  | .unk => "?"

/-- the items of the decoded header map, in order, as the tracker model takes them -/
def pairsOf (h : Hdrs) : List (String × String) := h.data.map fun p => (strOfBytes p.1, valStr p.2)

/-- `ip_version_from_location` as the tracker model has it, with one correction found by this
    composition: `urlparse` raises ValueError (suppressed → `None`) when the network location has
    an opening bracket without a closing one or vice versa, e.g. `http://[fe80::1/`; the C03 model
    read the text after `[` as an IPv6 literal.  (`C03.step` takes the function as a parameter.) -/
def ipv (loc : String) : Option Nat :=
  match C03.Parse.afterScheme loc.toList with
  | none => none
  | some r =>
    let netloc := r.takeWhile fun c => !(c == '/' || c == '?' || c == '#')
    if netloc.contains '[' != netloc.contains ']' then none else C03.Parse.ipVersion loc

/-- `extract_valid_to` runs: the message passed its validity test and `_see_device` found a uuid USN -/
def reachesValidTo (m : C03.Msg String) : Bool :=
  m.kind != .byebye && (if m.kind == .search then m.validSearch else m.validAdv) && m.udn.isSome

/-- `_on_data` of the listener's advertisement (`sockA`) / search socket, then the tracker.
    `extract_valid_to` — the only raising code behind the listener — runs exactly when the message
    passed its validity test and `_see_device` found a uuid USN; only its RAISING is modelled here
    (switches F02f–h): the saturating value itself is the tracker model's (`C03.Parse.effMaxAge`). -/
def listenerStep (fx : Fixes) (trk : C03.Cfg) (sockA : Bool) (t : Tracker) (h : Hdrs) :
    Except Exn (Tracker × Option (C03.Notif String)) :=
  let ev := C03.Parse.parseEv trk sockA (pairsOf h)
  let raised : Option Exn := match ev with
    | .msg m => if reachesValidTo m then (match validTo fx h m.ts with | .error e => some e | .ok _ => none) else none
    | _ => none
  match raised with
  | some e => .error e
  | none => .ok (C03.step ipv (C03.Parse.skipHdr trk) t ev)

def effOfNotif (n : Option (C03.Notif String)) : Eff :=
  match n with
  | some x => { cbMin := 1, cbMax := 1, notif := some (x.udn, x.ty, x.source) }
  | none => noEff

/-! ### the search responder -/

def isPyWs (b : Nat) : Bool := b == 32 || (9 ≤ b && b ≤ 13) || (28 ≤ b && b ≤ 31)

/-- digits with single underscores between them -/
def digitGroups : Bytes → Bool → Option Bytes      -- flag: previous byte was a digit
  | [], prev => if prev then some [] else none
  | b :: r, prev =>
    if isDigit b then (digitGroups r true).map (b :: ·)
    else if b = 95 ∧ prev then (match r with | [] => none | _ => digitGroups r false)
    else none

/-- Python `int(text)` on ASCII text: `none` = ValueError (incl. the 4300-digit limit) -/
def pyInt? (s : Bytes) : Option Int :=
  let t := ((s.dropWhile isPyWs).reverse.dropWhile isPyWs).reverse
  let (neg, body) := match t with
    | 45 :: r => (true, r)
    | 43 :: r => (false, r)
    | _ => (false, t)
  match digitGroups body false with
  | none => none
  | some ds =>
    if ds.isEmpty ∨ ds.length > 4300 then none
    else some (if neg then - (decVal ds : Int) else (decVal ds : Int))

structure Cfg where
  prefixes : List Bytes
  trk : C03.Cfg                                 -- constants of ssdp_listener.py (C03's table)
  targetHost : Bytes := []                      -- SsdpSearchListener._target_host
  rootUdn : Bytes := []
  devices : List (Bytes × Bytes) := []          -- (udn, device_type) of all_devices
  services : List Bytes := []                   -- service_type of all_services
  alwaysRoot : Bool := false
deriving Repr

/-- `rsplit(":", 1)` -/
def rsplitColon (s : Bytes) : Option (Bytes × Bytes) :=
  match splitFirst COLON s.reverse with
  | some (a, b) => some (b.reverse, a.reverse)
  | none => none

/-- `_match_type_versions(type_ver, search_target)` -/
def matchTypeVersions (typeVer target : Bytes) : Bool :=
  let tl := lower typeVer
  match rsplitColon tl with
  | none => tl == target
  | some (base, ver) =>
    match pyInt? ver with
    | none => tl == target
    | some n => (List.range (n.toNat + 1)).any fun v => (n ≥ 0) && (base ++ COLON :: natDec v == target)

/-- Python `str.lower()` as far as equality with an ASCII string can tell: ASCII letters, and
    U+212A KELVIN SIGN (UTF-8 `E2 84 AA`), the only non-ASCII character whose lower-case form is
    pure ASCII (`k`).  Every other non-ASCII character lower-cases to text that still contains a
    non-ASCII character (U+0130 gives `i` + U+0307), so it can never complete an ASCII target;
    such bytes are left as they are.  (Enumerated over all code points by the harness on every run.) -/
def lowerPy : Bytes → Bytes
  | 226 :: 132 :: 170 :: r => 107 :: lowerPy r
  | b :: r => lowerB b :: lowerPy r
  | [] => []

/-- number of responses `_build_responses` produces (device UDNs and types are ASCII) -/
def responseCount (cfg : Cfg) (h : Hdrs) : Nat :=
  let target := lowerPy (strOf (getL h "st"))
  let n :=
    if target == ofString "ssdp:all" then 1 + 2 * cfg.devices.length + cfg.services.length
    else if target == ofString "upnp:rootdevice" then 1
    else
      let byUdn := (cfg.devices.filter fun d => lower d.1 == target).length
      if byUdn ≠ 0 then byUdn
      else
        let byType := (cfg.devices.filter fun d => matchTypeVersions d.2 target).length
        if byType ≠ 0 then byType
        else (cfg.services.filter fun s => matchTypeVersions s target).length
  n + (if cfg.alwaysRoot then 1 else 0)

def isSearch (rl : Bytes) (h : Hdrs) : Bool :=
  rl == ofString "M-SEARCH * HTTP/1.1" && getL h "man" == some (.str discover)

/-- `delay` of `_on_data`: `min(5, int(mx))`, 0 when absent or not an integer -/
def delayOf (h : Hdrs) : Int :=
  match getL h "mx" with
  | some (.str m) => (match pyInt? m with | some n => min 5 n | none => 0)
  | _ => 0

/-- the sending part of `_on_data`: deferred (timer, after the jitter computation) or immediate -/
def respond (fx : Fixes) (delay : Int) (count : Nat) : Except Exn Eff :=
  if count = 0 then .ok noEff
  else if (if fx.mxClamp then delay > 0 else delay ≠ 0) then
    if delay * 1000 - 250 ≤ 100 then .error .randrangeEmpty else .ok { timers := 1 }
  else .ok { sends := count }

/-- `SsdpSearchResponder._on_data` -/
def responder (fx : Fixes) (cfg : Cfg) (rl : Bytes) (h : Hdrs) : Except Exn Eff :=
  if !isSearch rl h then .ok noEff else respond fx (delayOf h) (responseCount cfg h)

/-! ### one datagram at one endpoint -/

inductive Endpoint | adv | search | listenerAdv | listenerSearch | responder
deriving DecidableEq, Repr

/-- what the endpoint's `on_data` does with a decoded message -/
def onData (fx : Fixes) (cfg : Cfg) (ep : Endpoint) (t : Tracker) (rl : Bytes) (h : Hdrs) : Except Exn (Tracker × Eff) :=
  match ep with
  | .adv => .ok (t, if (advClassify h).isSome then oneCb else noEff)
  | .search =>
    match searchClassify cfg.targetHost h with
    | .error e => .error e
    | .ok b => .ok (t, if b then oneCb else noEff)
  | .listenerAdv =>
    match listenerStep fx cfg.trk true t h with
    | .error e => .error e
    | .ok (t', n) => .ok (t', effOfNotif n)
  | .listenerSearch =>
    match searchClassify cfg.targetHost h with
    | .error e => .error e
    | .ok false => .ok (t, noEff)
    | .ok true =>
      match listenerStep fx cfg.trk false t h with
      | .error e => .error e
      | .ok (t', n) => .ok (t', effOfNotif n)
  | .responder =>
    match responder fx cfg rl h with
    | .error e => .error e
    | .ok e => .ok (t, e)

/-- handing a datagram to an endpoint -/
def recv (fx : Fixes) (cfg : Cfg) (ep : Endpoint) (t : Tracker) (data : Bytes) (loc : Option Addr) (src : Addr)
    (now : Int) : Except Exn (Tracker × Eff) :=
  match protocolRecv fx cfg.prefixes data loc src now with
  | .error e => .error e
  | .ok none => .ok (t, noEff)
  | .ok (some (rl, h)) => onData fx cfg ep t rl h

/-- a whole sequence of datagrams (any endpoints, any senders); stops at the first raise -/
def recvAll (fx : Fixes) (cfg : Cfg) : Tracker → List (Endpoint × Bytes × Option Addr × Addr × Int) → Except Exn (Tracker × List Eff)
  | t, [] => .ok (t, [])
  | t, (ep, data, loc, src, now) :: r =>
    match recv fx cfg ep t data loc src now with
    | .error e => .error e
    | .ok (t', eff) =>
      match recvAll fx cfg t' r with
      | .error e => .error e
      | .ok (t'', effs) => .ok (t'', eff :: effs)

end Upnp.C02
