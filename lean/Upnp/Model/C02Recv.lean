/-
  C02 — the SSDP receive path with EVERY RAISING PRIMITIVE EXPLICIT.

  `recv fx cfg ep st data local src now : Except Exn (Tracker × Eff)` models handing one datagram
  to one of the library's endpoints:

    adv            SsdpAdvertisementListener._on_data behind SsdpProtocol.datagram_received
    search         SsdpSearchListener._on_data
    listenerAdv    SsdpListener: datagram on its advertisement socket (tracker: see/unsee)
    listenerSearch SsdpListener: datagram on its search socket (tracker: see_search)
    responder      server.SsdpSearchResponder._on_data

  `fx : Fixes` switches each repair on or off, so that one model describes the repaired code
  (`Fixes.all`, for which `recv` is proved total) and each unrepaired variant (for which a concrete
  raising datagram is exhibited).  Catalogue of raising primitives and where they are called:

    bytes.decode (request line)         headerParse                 unicodeDecode      F02b
    HeadersParser.parse_headers         parseLine                   invalidHeader / lineTooLong (F02a)
    lines[1], lines[idx]                parseLines                  indexError   (unreachable behind the gate)
    urlsplit                            urlOutcome = splitError     urlValueError      F02c
    assert data.hostname                urlOutcome = noHost         hostnameAssertion  F02d
    SplitResult.port                    urlOutcome = portError      portValueError     F02e
    ip_address                          caught in the source (ValueError) — `notIp`
    int(match[1])  (max-age)            maxAgeUs                    intDigitsLimit     F02h
    timedelta(seconds=…)                maxAgeUs                    timedeltaOverflow  F02f
    datetime + timedelta                validTo                     datetimeOverflow   F02g
    int(mx)                             caught in the source (ValueError) — `pyInt?`
    randrange(100, delay*1000-250)      responder                   randrangeEmpty     F02i
    headers["_host"]                    always present (metadata)   keyError     (unreachable)
    urlparse / ip_address in ip_version_from_location: inside `suppress(ValueError)`

  The tracker is modelled as far as C02 needs: device keys with their `valid_to`, `next_valid_to`
  (both decide which keys exist), whether callbacks fire (exactly, or "0 or 1" for ssdp:alive of a
  known device — C04's business).  Import-free apart from the C01 codec model.
-/
import Upnp.Model.C01Ssdp
namespace Upnp.C02
open Upnp Upnp.C01 PyDict

structure Fixes where
  catchInvalidHeader : Bool -- present in the original code (`except InvalidHeader`)
  catchLineTooLong : Bool   -- F02a  `except BadHttpMessage`
  catchUnicode : Bool       -- F02b  `except UnicodeDecodeError`
  urlsplitGuard : Bool      -- F02c
  hostnameGuard : Bool      -- F02d
  portGuard : Bool          -- F02e
  tdGuard : Bool            -- F02f
  dtGuard : Bool            -- F02g
  intGuard : Bool           -- F02h
  mxClamp : Bool            -- F02i  `if delay > 0`
  checkBeforePurge : Bool   -- F02j  `_see_device` validates the USN before purging
deriving DecidableEq, Repr

def Fixes.all : Fixes := ⟨true, true, true, true, true, true, true, true, true, true, true⟩

/-! ### decoding with the raising `get_adjusted_url` -/

/-- what `get_adjusted_url` raises on this URL from this source, given the guards present -/
def urlRaises (fx : Fixes) (loc : Bytes) (a0 : Addr) : Option Exn :=
  match urlOutcome loc a0 with
  | .same .splitError => if fx.urlsplitGuard then none else some .urlValueError
  | .same .noHost => if fx.hostnameGuard then none else some .hostnameAssertion
  | .same .portError => if fx.portGuard then none else some .portValueError
  | _ => none

/-- `decode_ssdp_packet` -/
def decodeX (fx : Fixes) (data : Bytes) (loc : Option Addr) (src : Addr) (now : Int) : Except Exn (Bytes × Hdrs) :=
  match headerParse data with
  | .error e => .error e
  | .ok (pairs, rl, udn) =>
    let location := (mdGet pairs kLocation).getD []
    match (if allPyWs location then none else urlRaises fx location (withoutPort src)) with
    | some e => .error e
    | none => .ok (rl, CIDict.combineLower (headersOf pairs udn (withoutPort src)) (callMeta now loc src))

/-- the `except` clause of `SsdpProtocol.datagram_received` -/
def caught (fx : Fixes) (e : Exn) : Bool :=
  (fx.catchInvalidHeader && e == .invalidHeader) || (fx.catchLineTooLong && e == .lineTooLong) || (fx.catchUnicode && e == .unicodeDecode)

/-- `SsdpProtocol.datagram_received` up to the call of `on_data`: `none` = dropped -/
def protocolRecv (fx : Fixes) (prefixes : List Bytes) (data : Bytes) (loc : Option Addr) (src : Addr) (now : Int) :
    Except Exn (Option (Bytes × Hdrs)) :=
  if !isValidPacket prefixes data then .ok none
  else match decodeX fx data loc src now with
    | .ok r => .ok (some r)
    | .error e => if caught fx e then .ok none else .error e

/-! ### header access -/

def getL (h : Hdrs) (k : String) : Option Val := CIDict.getLower h (ofString k)

/-- Python truthiness of `headers.get_lower(k)` -/
def truthy : Option Val → Bool
  | some (.str b) => !b.isEmpty
  | some (.int n) => n != 0
  | some .pyNone => false
  | some _ => true
  | none => false

def strOf : Option Val → Bytes
  | some (.str b) => b
  | _ => []

def discover : Bytes := ofString "\"ssdp:discover\""

/-- `usn := headers.get_lower("usn")` truthy and `udn_from_usn(usn)` truthy -/
def usnUdn (h : Hdrs) : Option Bytes :=
  match getL h "usn" with
  | some (.str u) => if u.isEmpty then none else udnFromUsn u
  | _ => none

/-! ### effects -/

structure Eff where
  cbMin : Nat := 0     -- user callbacks fired: at least …
  cbMax : Nat := 0     -- … at most (equal unless C04 logic decides)
  sends : Nat := 0     -- datagrams sent
  timers : Nat := 0    -- timers scheduled
deriving DecidableEq, Repr

def noEff : Eff := {}
def oneCb : Eff := { cbMin := 1, cbMax := 1 }

/-! ### advertisement / search listeners -/

inductive AdvKind | alive | byebye | update
deriving DecidableEq, Repr

/-- `SsdpAdvertisementListener._on_data`: which callback family fires -/
def advClassify (h : Hdrs) : Option AdvKind :=
  if getL h "man" == some (.str discover) then none
  else match getL h "nts" with
    | some (.str v) =>
      if v == ofString "ssdp:alive" then some .alive
      else if v == ofString "ssdp:byebye" then some .byebye
      else if v == ofString "ssdp:update" then some .update
      else none
    | _ => none

/-- `SsdpSearchListener._on_data`: does the callback fire?  (`headers["_host"]` is metadata and
    always present; a missing key would be `keyError`) -/
def searchClassify (targetHost : Bytes) (h : Hdrs) : Except Exn Bool :=
  if getL h "man" == some (.str discover) then .ok false
  else if truthy (getL h "nts") then .ok false
  else if targetHost.isEmpty then .ok true
  else match CIDict.getitem lower h kHost with
    | none => .error .keyError
    | some v => .ok (v == .str targetHost)

/-! ### the device tracker (keys, valid_to, next_valid_to) -/

structure Tracker where
  devices : PyDict Bytes Int := []     -- udn ↦ valid_to (µs on the virtual clock)
  next : Option Int := none            -- next_valid_to
deriving DecidableEq, Repr

/-- `datetime.max` and `timedelta.max` in µs (relative to the harness' epoch 2024-01-01) -/
def dtMax : Int := 251698233599999999
def tdMax : Nat := 86399999999999999999

def badNeedles : List Bytes := [ofString "://127.0.0.1", ofString "://[::1]", ofString "://169.254"]

def locationOk (h : Hdrs) : Bool :=
  let l := strOf (getL h "location")
  truthy (getL h "location") && startsWith l (ofString "http") && !(badNeedles.any fun n => isInfix n l)

def validSearch (h : Hdrs) : Bool := truthy (getL h "_udn") && truthy (getL h "st") && locationOk h
def validAdv (h : Hdrs) : Bool :=
  truthy (getL h "_udn") && truthy (getL h "nt") && truthy (getL h "nts") && locationOk h
def validByebye (h : Hdrs) : Bool := truthy (getL h "_udn") && truthy (getL h "nt") && truthy (getL h "nts")

/-- regex `\s` on ASCII text -/
def isReWs (b : Nat) : Bool := b == 32 || (9 ≤ b && b ≤ 13) || (28 ≤ b && b ≤ 31)

/-- `max-age\s*=\s*(\d+)` (IGNORECASE) anchored here: the digits -/
def matchMaxAgeAt (s : Bytes) : Option Bytes :=
  if startsWith (lower (s.take 7)) (ofString "max-age") then
    match (s.drop 7).dropWhile isReWs with
    | 61 :: r =>
      let ds := (r.dropWhile isReWs).takeWhile isDigit
      if ds.isEmpty then none else some ds
    | _ => none
  else none

/-- `CACHE_CONTROL_RE.search(cache_control)`: leftmost match -/
def findMaxAge : Bytes → Option Bytes
  | [] => none
  | a :: r => match matchMaxAgeAt (a :: r) with
    | some d => some d
    | none => findMaxAge r

/-- `extract_uncache_after` in µs -/
def maxAgeUs (fx : Fixes) (cc : Bytes) : Except Exn Nat :=
  match findMaxAge cc with
  | none => .ok (900 * 1000000)
  | some ds =>
    if ds.length > 4300 then (if fx.intGuard then .ok tdMax else .error .intDigitsLimit)
    else
      let us := decVal ds * 1000000
      if us > tdMax then (if fx.tdGuard then .ok tdMax else .error .timedeltaOverflow)
      else .ok us

/-- `extract_valid_to` -/
def validTo (fx : Fixes) (h : Hdrs) (now : Int) : Except Exn Int :=
  match maxAgeUs fx (strOf (getL h "cache-control")) with
  | .error e => .error e
  | .ok us =>
    if now + us > dtMax then (if fx.dtGuard then .ok dtMax else .error .datetimeOverflow)
    else .ok (now + us)

/-- `purge_devices(now)` -/
def purgeLoop (now : Int) : PyDict Bytes Int → Option Int → PyDict Bytes Int × Option Int
  | [], nx => ([], nx)
  | (u, vt) :: r, nx =>
    if now > vt then purgeLoop now r nx
    else
      let nx' := match nx with
        | none => some vt
        | some n => if vt < n then some vt else some n
      let (r', nx'') := purgeLoop now r nx'
      ((u, vt) :: r', nx'')

def purge (t : Tracker) (now : Int) : Tracker :=
  match t.next with
  | some n => if n > now then t else let (d, nx) := purgeLoop now t.devices none; ⟨d, nx⟩
  | none => let (d, nx) := purgeLoop now t.devices none; ⟨d, nx⟩

def nowOf (h : Hdrs) : Int := match getL h "_timestamp" with | some (.ts t) => t | _ => 0

/-- `_see_device`: `none` = "broken device", ignored -/
def seeDevice (fx : Fixes) (t : Tracker) (h : Hdrs) : Except Exn (Tracker × Option Bytes) :=
  let now := nowOf h
  let t1 := if fx.checkBeforePurge then t else purge t now
  match usnUdn h with
  | none => .ok (t1, none)
  | some udn =>
    let t2 := if fx.checkBeforePurge then purge t now else t1
    match validTo fx h now with
    | .error e => .error e
    | .ok vt =>
      let nx := match t2.next with
        | none => some vt
        | some n => if n > vt then some vt else some n
      .ok (⟨PyDict.set t2.devices udn vt, nx⟩, some udn)

def seeSearch (fx : Fixes) (t : Tracker) (h : Hdrs) : Except Exn (Tracker × Eff) :=
  if !validSearch h then .ok (t, noEff)
  else match seeDevice fx t h with
    | .error e => .error e
    | .ok (t', none) => .ok (t', noEff)
    | .ok (t', some _) => .ok (t', oneCb)

def seeAdvertisement (fx : Fixes) (t : Tracker) (h : Hdrs) (isUpdate : Bool) : Except Exn (Tracker × Eff) :=
  if !validAdv h then .ok (t, noEff)
  else
    let isNew := !(PyDict.contains t.devices (strOf (getL h "_udn")))
    match seeDevice fx t h with
    | .error e => .error e
    | .ok (t', none) => .ok (t', noEff)
    | .ok (t', some _) => .ok (t', { cbMin := if isUpdate || isNew then 1 else 0, cbMax := 1 })

def unsee (t : Tracker) (h : Hdrs) : Tracker × Eff :=
  if !validByebye h then (t, noEff)
  else match usnUdn h with
    | none => (t, noEff)
    | some udn =>
      if PyDict.contains t.devices udn then (⟨PyDict.erase t.devices udn, t.next⟩, oneCb) else (t, noEff)

/-! ### the search responder -/

def isPyWs (b : Nat) : Bool := b == 32 || (9 ≤ b && b ≤ 13) || (28 ≤ b && b ≤ 31)

/-- digits with single underscores between them -/
def digitGroups : Bytes → Bool → Option Bytes      -- flag: previous byte was a digit
  | [], prev => if prev then some [] else none
  | b :: r, prev =>
    if isDigit b then (digitGroups r true).map (b :: ·)
    else if b = 95 ∧ prev then (match r with | [] => none | _ => digitGroups r false)
    else none

/-- Python `int(text)` on ASCII text: `none` = ValueError (incl. the 4300-digit limit) -/
def pyInt? (s : Bytes) : Option Int :=
  let t := ((s.dropWhile isPyWs).reverse.dropWhile isPyWs).reverse
  let (neg, body) := match t with
    | 45 :: r => (true, r)
    | 43 :: r => (false, r)
    | _ => (false, t)
  match digitGroups body false with
  | none => none
  | some ds =>
    if ds.isEmpty ∨ ds.length > 4300 then none
    else some (if neg then - (decVal ds : Int) else (decVal ds : Int))

structure Cfg where
  prefixes : List Bytes
  targetHost : Bytes := []                      -- SsdpSearchListener._target_host
  rootUdn : Bytes := []
  devices : List (Bytes × Bytes) := []          -- (udn, device_type) of all_devices
  services : List Bytes := []                   -- service_type of all_services
  alwaysRoot : Bool := false
deriving Repr

/-- `rsplit(":", 1)` -/
def rsplitColon (s : Bytes) : Option (Bytes × Bytes) :=
  match splitFirst COLON s.reverse with
  | some (a, b) => some (b.reverse, a.reverse)
  | none => none

/-- `_match_type_versions(type_ver, search_target)` -/
def matchTypeVersions (typeVer target : Bytes) : Bool :=
  let tl := lower typeVer
  match rsplitColon tl with
  | none => tl == target
  | some (base, ver) =>
    match pyInt? ver with
    | none => tl == target
    | some n => (List.range (n.toNat + 1)).any fun v => (n ≥ 0) && (base ++ COLON :: natDec v == target)

/-- number of responses `_build_responses` produces -/
def responseCount (cfg : Cfg) (h : Hdrs) : Nat :=
  let target := lower (strOf (getL h "st"))
  let n :=
    if target == ofString "ssdp:all" then 1 + 2 * cfg.devices.length + cfg.services.length
    else if target == ofString "upnp:rootdevice" then 1
    else
      let byUdn := (cfg.devices.filter fun d => lower d.1 == target).length
      if byUdn ≠ 0 then byUdn
      else
        let byType := (cfg.devices.filter fun d => matchTypeVersions d.2 target).length
        if byType ≠ 0 then byType
        else (cfg.services.filter fun s => matchTypeVersions s target).length
  n + (if cfg.alwaysRoot then 1 else 0)

def isSearch (rl : Bytes) (h : Hdrs) : Bool :=
  rl == ofString "M-SEARCH * HTTP/1.1" && getL h "man" == some (.str discover)

/-- `delay` of `_on_data`: `min(5, int(mx))`, 0 when absent or not an integer -/
def delayOf (h : Hdrs) : Int :=
  match getL h "mx" with
  | some (.str m) => (match pyInt? m with | some n => min 5 n | none => 0)
  | _ => 0

/-- the sending part of `_on_data`: deferred (timer, after the jitter computation) or immediate -/
def respond (fx : Fixes) (delay : Int) (count : Nat) : Except Exn Eff :=
  if count = 0 then .ok noEff
  else if (if fx.mxClamp then delay > 0 else delay ≠ 0) then
    if delay * 1000 - 250 ≤ 100 then .error .randrangeEmpty else .ok { timers := 1 }
  else .ok { sends := count }

/-- `SsdpSearchResponder._on_data` -/
def responder (fx : Fixes) (cfg : Cfg) (rl : Bytes) (h : Hdrs) : Except Exn Eff :=
  if !isSearch rl h then .ok noEff else respond fx (delayOf h) (responseCount cfg h)

/-! ### one datagram at one endpoint -/

inductive Endpoint | adv | search | listenerAdv | listenerSearch | responder
deriving DecidableEq, Repr

/-- what the endpoint's `on_data` does with a decoded message -/
def onData (fx : Fixes) (cfg : Cfg) (ep : Endpoint) (t : Tracker) (rl : Bytes) (h : Hdrs) : Except Exn (Tracker × Eff) :=
  match ep with
  | .adv => .ok (t, if (advClassify h).isSome then oneCb else noEff)
  | .search =>
    match searchClassify cfg.targetHost h with
    | .error e => .error e
    | .ok b => .ok (t, if b then oneCb else noEff)
  | .listenerAdv =>
    match advClassify h with
    | none => .ok (t, noEff)
    | some .alive => seeAdvertisement fx t h false
    | some .update => seeAdvertisement fx t h true
    | some .byebye => .ok (unsee t h)
  | .listenerSearch =>
    match searchClassify cfg.targetHost h with
    | .error e => .error e
    | .ok false => .ok (t, noEff)
    | .ok true => seeSearch fx t h
  | .responder =>
    match responder fx cfg rl h with
    | .error e => .error e
    | .ok e => .ok (t, e)

/-- handing a datagram to an endpoint -/
def recv (fx : Fixes) (cfg : Cfg) (ep : Endpoint) (t : Tracker) (data : Bytes) (loc : Option Addr) (src : Addr)
    (now : Int) : Except Exn (Tracker × Eff) :=
  match protocolRecv fx cfg.prefixes data loc src now with
  | .error e => .error e
  | .ok none => .ok (t, noEff)
  | .ok (some (rl, h)) => onData fx cfg ep t rl h

/-- a whole sequence of datagrams (any endpoints, any senders); stops at the first raise -/
def recvAll (fx : Fixes) (cfg : Cfg) : Tracker → List (Endpoint × Bytes × Option Addr × Addr × Int) → Except Exn (Tracker × List Eff)
  | t, [] => .ok (t, [])
  | t, (ep, data, loc, src, now) :: r =>
    match recv fx cfg ep t data loc src now with
    | .error e => .error e
    | .ok (t', eff) =>
      match recvAll fx cfg t' r with
      | .error e => .error e
      | .ok (t'', effs) => .ok (t'', eff :: effs)

end Upnp.C02
