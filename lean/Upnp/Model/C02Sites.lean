/-
  C02 — the table of raising-primitive call sites of the receive path that the model accounts for.
  One row per occurrence found by `tools/gen_c02sites.py` (function, primitive, handlers around it
  inside that function), with what the model does about it:

    model e why   the model has this primitive raising `e` at this site; `why` names the guard / theorem
    caught why    raises, and is caught inside the function itself (the model returns / falls through)
    safe why      cannot raise on the receive path

  `Props/C02.lean: sites_covered` states that the list generated from the source IS this table's
  first column: a new `int()`, `urlparse()`, index, … on the receive path — or a handler that
  disappears — changes the generated list and breaks the theorem until the site is classified
  here (and, if it can raise, modelled).  Import-free apart from the exception catalogue.
-/
import Upnp.Model.C01Ssdp
namespace Upnp.C02
open Upnp.C01

inductive Cover
  | model (e : Exn) (why : String)
  | caught (why : String)
  | safe (why : String)

abbrev Site := String × String × String

def covered : List (Site × Cover) :=
  [(("ssdp:get_host_string", "[3]", "-"), .safe "address tuple supplied by the socket layer, arity tested by len()"),
   (("ssdp:get_host_string", "[0]", "-"), .safe "address tuple supplied by the socket layer, arity tested by len()"),
   (("ssdp:get_host_string", "[3]", "-"), .safe "address tuple supplied by the socket layer, arity tested by len()"),
   (("ssdp:get_host_string", "[0]", "-"), .safe "address tuple supplied by the socket layer, arity tested by len()"),
   (("ssdp:get_adjusted_url", "[3]", "-"), .safe "address tuple supplied by the socket layer, arity tested by len()"),
   (("ssdp:get_adjusted_url", "urlsplit(", "ValueError"), .model Exn.urlValueError "ValueError handler in the function (urlsplitGuard)"),
   (("ssdp:get_adjusted_url", ".hostname", "-"), .safe "SplitResult.hostname does not raise; the former assert is gone (hostnameGuard)"),
   (("ssdp:get_adjusted_url", "ip_address(", "ValueError"), .caught "ValueError handler in the function (SameWhy.notIp)"),
   (("ssdp:get_adjusted_url", ".hostname", "ValueError"), .safe "SplitResult.hostname does not raise; the former assert is gone (hostnameGuard)"),
   (("ssdp:get_adjusted_url", ".port", "ValueError"), .model Exn.portValueError "ValueError handler in the function (portGuard)"),
   (("ssdp:get_adjusted_url", ".hostname", "-"), .safe "SplitResult.hostname does not raise; the former assert is gone (hostnameGuard)"),
   (("ssdp:get_adjusted_url", "[3]", "-"), .safe "address tuple supplied by the socket layer, arity tested by len()"),
   (("ssdp:udn_from_usn", "[0]", "-"), .safe "str.partition always returns three parts"),
   (("ssdp:_cached_header_parse", "[0]", "-"), .safe "bytes.split returns at least one piece"),
   (("ssdp:_cached_header_parse", "decode(", "-"), .model Exn.unicodeDecode "caught in datagram_received (guards_present: catchUnicode)"),
   (("ssdp:_cached_header_parse", "[-1]", "-"), .safe "guarded by `lines and`"),
   (("ssdp:_cached_header_parse", "unpack HeadersParser().parse_headers(li", "-"), .safe "the callee returns a tuple of fixed arity"),
   (("ssdp:_cached_header_parse", "parse_headers(", "-"), .model Exn.invalidHeader "InvalidHeader / LineTooLong caught in datagram_received (catchInvalidHeader, catchLineTooLong); its IndexError is unreachable (headerParse_errors)"),
   (("ssdp:_cached_decode_ssdp_packet", "unpack _cached_header_parse(data)", "-"), .safe "the callee returns a tuple of fixed arity"),
   (("ssdp:decode_ssdp_packet", "unpack remote_addr", "-"), .safe "address tuple supplied by the socket layer, arity tested by len()"),
   (("ssdp:decode_ssdp_packet", "unpack remote_addr", "-"), .safe "address tuple supplied by the socket layer, arity tested by len()"),
   (("ssdp:decode_ssdp_packet", "[0]", "-"), .safe "address tuple supplied by the socket layer, arity tested by len()"),
   (("ssdp:decode_ssdp_packet", "unpack _cached_decode_ssdp_packet(data,", "-"), .safe "the callee returns a tuple of fixed arity"),
   (("ssdp:SsdpProtocol.datagram_received", "assert self.transport", "-"), .safe "transport / socket is set before any datagram can arrive (connection_made / async_start)"),
   (("ssdp:SsdpProtocol.datagram_received", "unpack decode_ssdp_packet(data, self.lo", "BadHttpMessage,UnicodeDecodeError"), .safe "the callee returns a tuple of fixed arity"),
   (("search:SsdpSearchListener._on_data", "['_host']", "-"), .model Exn.keyError "unreachable: _host is always present (host_present)"),
   (("ssdp_listener:is_usable_location", "urlparse(", "ValueError"), .caught "ValueError handler in the function: an unparsable location is not usable (C03: Parse.locUsable)"),
   (("ssdp_listener:is_usable_location", ".hostname", "ValueError"), .safe "ParseResult.hostname does not raise (and sits under the same handler)"),
   (("ssdp_listener:is_usable_location", "ip_address(", "ValueError"), .caught "ValueError handler in the function: not an address literal = a host name, usable"),
   (("ssdp_listener:extract_uncache_after", "timedelta(", "OverflowError,ValueError"), .model Exn.timedeltaOverflow "OverflowError handler in the function (tdGuard)"),
   (("ssdp_listener:extract_uncache_after", "int(", "OverflowError,ValueError"), .model Exn.intDigitsLimit "ValueError handler in the function (intGuard)"),
   (("ssdp_listener:extract_uncache_after", "[1]", "OverflowError,ValueError"), .safe "group 1 exists whenever the pattern matched"),
   (("ssdp_listener:extract_valid_to", "+", "OverflowError"), .model Exn.datetimeOverflow "OverflowError handler in the function (dtGuard)"),
   (("ssdp_listener:SsdpDevice.purge_locations", "del[location]", "-"), .safe "key collected from / looked up in the same dict just before"),
   (("ssdp_listener:same_headers_differ", "[0]", "-"), .safe "guarded by lower_header != \"\""),
   (("ssdp_listener:same_headers_differ", "[current_header]", "-"), .safe "key taken from the map's own case map (C16 invariant: every case-map value is a key of the data dict)"),
   (("ssdp_listener:same_headers_differ", "[new_header]", "-"), .safe "key taken from the map's own case map (C16 invariant: every case-map value is a key of the data dict)"),
   (("ssdp_listener:headers_differ_from_existing_advertisement", "assert isinstance(headers_old, CaseInse", "-"), .safe "type-narrowing assert on a value the library stored itself"),
   (("ssdp_listener:headers_differ_from_existing_search", "assert isinstance(headers_old, CaseInse", "-"), .safe "type-narrowing assert on a value the library stored itself"),
   (("ssdp_listener:ip_version_from_location", ".hostname", "ValueError"), .caught "inside suppress(ValueError); no effect on what C02 observes"),
   (("ssdp_listener:ip_version_from_location", "urlparse(", "ValueError"), .caught "inside suppress(ValueError); no effect on what C02 observes"),
   (("ssdp_listener:ip_version_from_location", "ip_address(", "ValueError"), .caught "inside suppress(ValueError); no effect on what C02 observes"),
   (("ssdp_listener:SsdpDeviceTracker.see_search", "unpack self._see_device(headers)", "-"), .safe "the callee returns a tuple of fixed arity"),
   (("ssdp_listener:SsdpDeviceTracker.see_search", "[search_target]", "-"), .safe "guarded by an `in` test on the same dict"),
   (("ssdp_listener:SsdpDeviceTracker.see_advertisement", "unpack self._see_device(headers)", "-"), .safe "the callee returns a tuple of fixed arity"),
   (("ssdp_listener:SsdpDeviceTracker.see_advertisement", "[notification_type]", "-"), .safe "guarded by an `in` test on the same dict"),
   (("ssdp_listener:SsdpDeviceTracker._see_device", "[udn]", "-"), .safe "else-branch of `udn not in self.devices`"),
   (("ssdp_listener:SsdpDeviceTracker.unsee_advertisement", "del[udn]", "-"), .safe "key collected from / looked up in the same dict just before"),
   (("ssdp_listener:SsdpDeviceTracker.unsee_advertisement", "[notification_type]", "-"), .safe "guarded by an `in` test on the same dict"),
   (("ssdp_listener:SsdpDeviceTracker.purge_devices", "del[usn]", "-"), .safe "key collected from / looked up in the same dict just before"),
   (("ssdp_listener:SsdpListener._on_search", "unpack self._device_tracker.see_search(", "-"), .safe "the callee returns a tuple of fixed arity"),
   (("ssdp_listener:SsdpListener._on_search", "assert ssdp_source is not None", "-"), .safe "see_search returns a source whenever it returns a device"),
   (("ssdp_listener:SsdpListener._on_alive", "unpack self._device_tracker.see_adverti", "-"), .safe "the callee returns a tuple of fixed arity"),
   (("ssdp_listener:SsdpListener._on_byebye", "unpack self._device_tracker.unsee_adver", "-"), .safe "the callee returns a tuple of fixed arity"),
   (("ssdp_listener:SsdpListener._on_update", "unpack self._device_tracker.see_adverti", "-"), .safe "the callee returns a tuple of fixed arity"),
   (("server:SsdpSearchResponder._on_data", "assert self._transport", "-"), .safe "transport / socket is set before any datagram can arrive (connection_made / async_start)"),
   (("server:SsdpSearchResponder._on_data", "int(", "ValueError"), .caught "ValueError handler in the function (pyInt? = none)"),
   (("server:SsdpSearchResponder._on_data", "+", "-"), .safe "float addition"),
   (("server:SsdpSearchResponder._on_data", "randrange(", "-"), .model Exn.randrangeEmpty "only reached when delay > 0 (mxClamp), then the range is non-empty (respond_total)"),
   (("server:SsdpSearchResponder._match_type_versions", "unpack type_ver_lower.rsplit(':', 1)", "ValueError"), .caught "ValueError under the except clause of _match_type_versions"),
   (("server:SsdpSearchResponder._match_type_versions", "int(", "ValueError"), .caught "ValueError under the except clause of _match_type_versions"),
   (("server:SsdpSearchResponder._match_type_versions", "range(", "ValueError"), .safe "int arithmetic / range on an int"),
   (("server:SsdpSearchResponder._match_type_versions", "+", "ValueError"), .safe "int arithmetic / range on an int"),
   (("server:SsdpSearchResponder._send_responses", "assert self._response_socket", "-"), .safe "transport / socket is set before any datagram can arrive (connection_made / async_start)"),
   (("utils:CaseInsensitiveDict._drop_shadowed_keys", "[key]", "-"), .safe "key taken from the case map (C16 invariant)"),
   (("utils:CaseInsensitiveDict.__setitem__", "del[self._case_map[lower_key]", "-"), .safe "key taken from the case map (C16 invariant)"),
   (("utils:CaseInsensitiveDict.__setitem__", "[lower_key]", "-"), .safe "key taken from the case map (C16 invariant)"),
   (("utils:CaseInsensitiveDict.__getitem__", "[self._case_map[key.lower]", "-"), .model Exn.keyError "Mapping protocol: the receive path only reads _host this way (host_present)"),
   (("utils:CaseInsensitiveDict.__getitem__", "[key.lower()]", "-"), .model Exn.keyError "Mapping protocol: the receive path only reads _host this way (host_present)"),
   (("utils:CaseInsensitiveDict.__delitem__", "del[self._case_map[lower_key]", "-"), .safe "user-facing mapping protocol (KeyError by design); on the receive path only reached by name over-approximation of `del d[k]` on plain dicts"),
   (("utils:CaseInsensitiveDict.__delitem__", "[lower_key]", "-"), .safe "user-facing mapping protocol (KeyError by design); on the receive path only reached by name over-approximation of `del d[k]` on plain dicts"),
   (("utils:CaseInsensitiveDict.__delitem__", "del[lower_key]", "-"), .safe "user-facing mapping protocol (KeyError by design); on the receive path only reached by name over-approximation of `del d[k]` on plain dicts")]

def Cover.raises : Cover → Bool
  | .model _ _ => true
  | .caught _ => true
  | .safe _ => false

end Upnp.C02
