/-
  C03Obs — what is observed around one event, generically in the string type: the view of one
  device / type (`Look`), the user callbacks (`Cb`), and the model's own observations.
  Observed header maps are read into the abstract-map form (folded name ↦ (spelling, value)).
-/
import Upnp.Model.C03Tracker
namespace Upnp.C03
open Upnp PyDict

/-- device `u` / type `ty` as stored by the listener: known?, keys of `search_headers` and
    `advertisement_headers`, and the two header maps stored for `ty` -/
structure Look (σ : Type) where
  known : Bool
  st : List σ
  adv : List σ
  sh : Option (Hdrs σ)
  ah : Option (Hdrs σ)
deriving Repr

/-- one call of the user callback, with `device.combined_headers(dst)` read inside it -/
structure Cb (σ : Type) where
  isAsync : Bool
  udn : σ
  ty : σ
  source : Source
  comb : Hdrs σ
deriving Repr

/-- which user callbacks the `SsdpListener` was constructed with -/
inductive CbMode | both | sync | async
deriving DecidableEq, Repr

section
variable {σ : Type} [DecidableEq σ]

instance : DecidableEq (Look σ) := fun a b => by
  cases a; cases b; simp only [Look.mk.injEq]; exact inferInstance
instance : DecidableEq (Cb σ) := fun a b => by
  cases a; cases b; simp only [Cb.mk.injEq]; exact inferInstance

def lookOf (s : Tracker σ) (u ty : Option σ) : Look σ :=
  match u.bind (get? s.devices) with
  | none => ⟨false, [], [], none, none⟩
  | some d => ⟨true, keys d.search, keys d.adv, ty.bind (get? d.search), ty.bind (get? d.adv)⟩

/-- the callbacks of the registered flavours: the synchronous one runs first, the coroutine as a task -/
def cbsOf (src : σ) (mode : CbMode) (n : Option (Notif σ)) : List (Cb σ) :=
  match n with
  | none => []
  | some n =>
    (match mode with
     | .both => [⟨false, n.udn, n.ty, n.source, combined src n.dev n.ty⟩, ⟨true, n.udn, n.ty, n.source, combined src n.dev n.ty⟩]
     | .sync => [⟨false, n.udn, n.ty, n.source, combined src n.dev n.ty⟩]
     | .async => [⟨true, n.udn, n.ty, n.source, combined src n.dev n.ty⟩])

end
end Upnp.C03
