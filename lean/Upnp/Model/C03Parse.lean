/-
  C03Parse — layer 2 of the C03/C04 model: from the decoded header map that reaches
  `SsdpAdvertisementListener._on_data` / `SsdpSearchListener._on_data` to the event the tracker
  model (`C03Tracker`) consumes.  String level (ASCII): the listeners' dispatch (`man` echo filter,
  NTS routing, `_source` tagging), `udn_from_usn`, the `max-age` regex, the location validity test and
  `ip_version_from_location`.  The constants come in through `Cfg`: the driver runs the model with the
  values generated from the source (`Gen.C03Tracker`) and the judge with the values of the property text.
  Import-free apart from the model files (linked into the driver).
-/
import Upnp.Model.C03Tracker
namespace Upnp.C03
open Upnp PyDict Upnp.C16

structure Cfg where
  defaultMaxAgeSec : Nat
  ignored : List String
  privatePrefix : String
  searchPrefix : String
  searchNeedles : List String
  advPrefix : String
  advNeedles : List String
  /-- `datetime.max` in µs on the harness' time axis: `timestamp + uncache_after` saturates there -/
  tMax : Int
  /-- `timedelta.max` in µs -/
  tdMaxUs : Nat
  /-- the first number of seconds `timedelta(seconds=n)` rejects (`days` would exceed 999999999) -/
  tdLimitSec : Nat
  /-- `sys.get_int_max_str_digits()`: `int()` raises `ValueError` on more digits (leading zeros count) -/
  intMaxDigits : Nat
  /-- `is_usable_location`: accepted URL schemes and the host names that mean loopback -/
  schemes : List String := ["http", "https"]
  loopbackNames : List String := ["localhost"]
deriving Repr, DecidableEq

namespace Parse

def lowerC (c : Char) : Char := if 'A' ≤ c ∧ c ≤ 'Z' then Char.ofNat (c.toNat + 32) else c
def lowerL (l : List Char) : List Char := l.map lowerC
def lower (s : String) : String := String.ofList (lowerL s.toList)

def isInfixL (n : List Char) : List Char → Bool
  | [] => n.isEmpty
  | h :: t => n.isPrefixOf (h :: t) || isInfixL n t

def isInfix (needle hay : String) : Bool := isInfixL needle.toList hay.toList

/-- `s.partition("::")[0]` -/
def beforeDoubleColon : List Char → List Char
  | ':' :: ':' :: _ => []
  | c :: r => c :: beforeDoubleColon r
  | [] => []

/-- `udn_from_usn` -/
def udnFromUsn (usn : String) : Option String :=
  let l := usn.toList
  if lowerL (l.take 5) == "uuid:".toList then some (String.ofList (beforeDoubleColon l)) else none

/-- Python `\s` (ASCII part) -/
def isWs (c : Char) : Bool :=
  c == ' ' || c == '\t' || c == '\n' || c == '\r' || c.toNat == 11 || c.toNat == 12 || (28 ≤ c.toNat && c.toNat ≤ 31)

def isDigit (c : Char) : Bool := '0' ≤ c && c ≤ '9'

def digitsToNat (ds : List Char) : Nat := ds.foldl (fun acc c => acc * 10 + (c.toNat - 48)) 0

/-- `max-age\s*=\s*(\d+)` (IGNORECASE) anchored at the head of the list -/
def maxAgeAt (l : List Char) : Option (List Char) :=
  if lowerL (l.take 7) == "max-age".toList then
    match (l.drop 7).dropWhile isWs with
    | '=' :: r =>
      let ds := (r.dropWhile isWs).takeWhile isDigit
      if ds.isEmpty then none else some ds
    | _ => none
  else none

/-- `CACHE_CONTROL_RE.search` -/
def maxAgeSearch : List Char → Option (List Char)
  | [] => none
  | h :: t => match maxAgeAt (h :: t) with
    | some n => some n
    | none => maxAgeSearch t

/-- `extract_uncache_after`, in µs: `timedelta(seconds=int(match[1]))`, saturating at `timedelta.max` when `int()`
    refuses the digit string (more than `intMaxDigits` characters) or `timedelta` refuses the number -/
def maxAgeUs (cfg : Cfg) (cacheControl : String) : Int :=
  match maxAgeSearch cacheControl.toList with
  | some ds =>
    if ds.length > cfg.intMaxDigits then (cfg.tdMaxUs : Int)
    else if digitsToNat ds ≥ cfg.tdLimitSec then (cfg.tdMaxUs : Int)
    else (digitsToNat ds : Int) * 1000000
  | none => (cfg.defaultMaxAgeSec : Int) * 1000000

/-- the max-age that takes effect: `extract_valid_to` computes `timestamp + uncache_after` and saturates at
    `datetime.max`, i.e. `valid_to = timestamp + min(uncache_after, datetime.max - timestamp)` -/
def effMaxAge (cfg : Cfg) (ts : Int) (cacheControl : String) : Int :=
  if ts + maxAgeUs cfg cacheControl > cfg.tMax then cfg.tMax - ts else maxAgeUs cfg cacheControl

def locOk (pre : String) (needles : List String) (loc : String) : Bool :=
  pre.toList.isPrefixOf loc.toList && !(needles.any fun n => isInfix n loc)

/-! ### `ip_version_from_location` for the URL grammar `scheme://[userinfo@]host[:port][/path]`,
    host ∈ {dotted quad, reg-name, `[IPv6]`, `[IPv6%zone]`} -/

def splitStep (c : Char) (x : Char) (acc : List (List Char)) : List (List Char) :=
  if x == c then [] :: acc else
    match acc with
    | [] => [[x]]
    | a :: r => (x :: a) :: r

def splitOnC (c : Char) (l : List Char) : List (List Char) := l.foldr (splitStep c) [[]]

def afterScheme : List Char → Option (List Char)
  | ':' :: '/' :: '/' :: r => some r
  | _ :: r => afterScheme r
  | [] => none

def afterLastAt (l : List Char) : List Char :=
  match (splitOnC '@' l).getLast? with
  | some x => x
  | none => l

def isHex (c : Char) : Bool := isDigit c || ('a' ≤ c && c ≤ 'f') || ('A' ≤ c && c ≤ 'F')

def octetOk (p : List Char) : Bool :=
  !p.isEmpty && p.all isDigit && p.length ≤ 3 && digitsToNat p ≤ 255 && (p.length == 1 || p.head? != some '0')

def isV4 (h : List Char) : Bool :=
  let ps := splitOnC '.' h
  ps.length == 4 && ps.all octetOk

def hextetOk (g : List Char) : Bool := !g.isEmpty && g.length ≤ 4 && g.all isHex

/-- `IPv6Address._ip_int_from_string` on the `:`-separated parts, without the embedded-IPv4 tail: 3 to 9 parts, every
    non-empty part a hextet (1–4 hex digits); no empty part strictly inside ⇒ exactly 8 parts, none empty at the ends;
    otherwise exactly one `::` (one empty part strictly inside), an empty first (last) part only as part of a
    leading (trailing) `::`, and at most 7 hextets -/
def v6PartsOk (parts : List (List Char)) : Bool :=
  let n := parts.length
  let empties := (parts.filter (·.isEmpty)).length
  let firstEmpty := match parts.head? with
    | some g => g.isEmpty
    | none => false
  let lastEmpty := match parts.getLast? with
    | some g => g.isEmpty
    | none => false
  let secondEmpty := match (parts.drop 1).head? with
    | some g => g.isEmpty
    | none => false
  let secondLastEmpty := match parts.dropLast.getLast? with
    | some g => g.isEmpty
    | none => false
  let interior := empties - (if firstEmpty then 1 else 0) - (if lastEmpty then 1 else 0)
  decide (3 ≤ n) && decide (n ≤ 9) && parts.all (fun g => g.isEmpty || hextetOk g) &&
  (if interior == 0 then n == 8 && !firstEmpty && !lastEmpty
   else interior == 1 && (!firstEmpty || secondEmpty) && (!lastEmpty || secondLastEmpty) && decide (n - empties ≤ 7))

/-- the `:`-separated parts of an IPv6 literal; a dotted-quad last part (`::ffff:1.2.3.4`) is replaced by its two
    hextets, as `_ip_int_from_string` does (an invalid dotted quad invalidates the literal) -/
def v6Parts (a : List Char) : List (List Char) :=
  let parts := splitOnC ':' a
  match parts.getLast? with
  | some last =>
    if last.contains '.' then
      (if isV4 last then
         (match (splitOnC '.' last).map digitsToNat with
          | [o1, o2, o3, o4] => parts.dropLast ++ [Nat.toDigits 16 (o1 * 256 + o2), Nat.toDigits 16 (o3 * 256 + o4)]
          | _ => [])
       else [])
    else parts
  | none => parts

/-- `ip_address(host)` accepts `host` as IPv6: `addr` or `addr%zone` with a non-empty zone without `%`
    (`_split_scope_id`) -/
def isV6 (h : List Char) : Bool :=
  match splitOnC '%' h with
  | [a] => v6PartsOk (v6Parts a)
  | [a, z] => !z.isEmpty && v6PartsOk (v6Parts a)
  | _ => false

/-! ### `urlsplit`: the part of it `ip_version_from_location` depends on -/

/-- `urlsplit` first strips leading C0 controls / blanks and removes TAB, CR, LF anywhere -/
def urlClean (l : List Char) : List Char :=
  (l.filter fun c => !(c == '\t' || c == '\r' || c == '\n')).dropWhile fun c => decide (c.toNat ≤ 32)

def isAlphaC (c : Char) : Bool := ('a' ≤ c && c ≤ 'z') || ('A' ≤ c && c ≤ 'Z')
def schemeChar (c : Char) : Bool := isAlphaC c || isDigit c || c == '+' || c == '-' || c == '.'

/-- `scheme:` is split off when the text before the first `:` starts with a letter and consists of scheme characters -/
def splitScheme (l : List Char) : List Char × List Char :=
  match l.dropWhile (· != ':') with
  | ':' :: rest =>
    (match l.takeWhile (· != ':') with
     | c :: pre => if isAlphaC c && pre.all schemeChar then (lowerL (c :: pre), rest) else ([], l)
     | [] => ([], l))
  | _ => ([], l)

/-- the netloc: present only when what follows the scheme starts with `//`; it ends at the first `/`, `?` or `#` -/
def netlocOfUrl (l : List Char) : Option (List Char) :=
  match (splitScheme (urlClean l)).2 with
  | '/' :: '/' :: r => some (r.takeWhile fun c => !(c == '/' || c == '?' || c == '#'))
  | _ => none

/-- `x.partition('[')[2].partition(']')[0]` -/
def bracketed (l : List Char) : List Char := ((l.dropWhile (· != '[')).drop 1).takeWhile (· != ']')

/-- `SplitResult.hostname` (not lower-cased), `none` when `urlsplit` raises `ValueError` (unbalanced brackets, a
    bracketed host `ip_address` does not accept as IPv6) or there is no host -/
def hostOfNetloc (netloc : List Char) : Option (List Char) :=
  if netloc.contains '[' != netloc.contains ']' then none
  else if netloc.contains '[' && !isV6 (bracketed netloc) then none
  else
    let hp := afterLastAt netloc
    let h := if hp.contains '[' then bracketed hp else hp.takeWhile (· != ':')
    if h.isEmpty then none else some h

/-- `ip_version_from_location`: `ip_address(urlparse(location).hostname).version`, every `ValueError` suppressed -/
def ipVersion (loc : String) : Option Nat :=
  match (netlocOfUrl loc.toList).bind hostOfNetloc with
  | none => none
  | some h => if isV4 h then some 4 else if isV6 h then some 6 else none

/-! ### the property text's reading of an acceptable location (used by the judges only) -/

def hexDigitVal (c : Char) : Nat :=
  if isDigit c then c.toNat - 48 else if 'a' ≤ c && c ≤ 'f' then c.toNat - 87 else c.toNat - 55

def hexVal (g : List Char) : Nat := g.foldl (fun a c => a * 16 + hexDigitVal c) 0

/-- the eight hextet values of an IPv6 literal (zone apart) -/
def v6Groups (h : List Char) : Option (List Nat) :=
  match splitOnC '%' h with
  | a :: _ =>
    let parts := v6Parts a
    if !isV6 h then none
    else
      let hi := (parts.takeWhile fun g => !g.isEmpty).map hexVal
      let lo := ((parts.dropWhile fun g => !g.isEmpty).dropWhile fun g => g.isEmpty).map hexVal
      if parts.all (fun g => !g.isEmpty) then some hi
      else some (hi ++ List.replicate (8 - hi.length - lo.length) 0 ++ lo)
  | [] => none

/-- loopback (127.0.0.0/8) or IPv4 link-local (169.254.0.0/16) -/
def v4Bad (o : List Nat) : Bool := o.head? == some 127 || o.take 2 == [169, 254]

/-- the host is loopback or IPv4 link-local: one of the loopback names (`localhost`; `hostname` is lower-cased), an
    IPv4 literal in 127/8 or 169.254/16, the IPv6 loopback `::1` in any spelling (zone or not), or an IPv4-mapped IPv6
    address of such an IPv4 address -/
def hostBad (names : List String) (h : List Char) : Bool :=
  names.any (fun n => lowerL h == n.toList) ||
  (isV4 h && v4Bad ((splitOnC '.' h).map digitsToNat)) ||
  (match v6Groups h with
   | some [0, 0, 0, 0, 0, 0, 0, 1] => true
   | some [0, 0, 0, 0, 0, 65535, g7, g8] => v4Bad [g7 / 256, g7 % 256, g8 / 256, g8 % 256]
   | _ => false)

/-- `is_usable_location`: the location starts with `pre` (`http`), `urlparse` succeeds, the scheme is `http` / `https`,
    there is a host, and the host is neither loopback nor IPv4 link-local (`hostBad`); a host that is no IP literal
    is a name and is accepted.  This is also the property text's reading of "an http(s) location that is neither
    loopback nor IPv4 link-local".  (Legacy shorthand hosts such as `127.1` are names.) -/
def locUsable (pre : String) (schemes names : List String) (loc : String) : Bool :=
  pre.toList.isPrefixOf loc.toList &&
  schemes.any (fun sc => (splitScheme (urlClean loc.toList)).1 == sc.toList) &&
  (match (netlocOfUrl loc.toList).bind hostOfNetloc with
   | some h => !hostBad names h
   | none => false)

/-! ### from raw headers to the event -/

def truthy (o : Option (String × String)) : Option String :=
  match o with
  | some (_, v) => if v.isEmpty then none else some v
  | none => none

def hget (h : Hdrs String) (lk : String) : Option String := (get? h lk).map (·.2)

def skipHdr (cfg : Cfg) (lk : String) : Bool :=
  (!cfg.privatePrefix.isEmpty && cfg.privatePrefix.toList.isPrefixOf lk.toList) || cfg.ignored.contains lk

/-- `str(int)` read back: optional `-`, then decimal digits -/
def intOf (l : List Char) : Option Int :=
  match l with
  | '-' :: r => if !r.isEmpty && r.all isDigit then some (-(digitsToNat r : Int)) else none
  | r => if !r.isEmpty && r.all isDigit then some (digitsToNat r : Int) else none

/-- `_timestamp` (the harness writes the datetime as integer µs on its time axis) -/
def tsOf (h : Hdrs String) : Int :=
  match hget h "_timestamp" with
  | some v => (intOf v.toList).getD 0
  | none => 0

def mkMsg (cfg : Cfg) (kind : Kind) (h : Hdrs String) : Msg String :=
  let loc := truthy (get? h "location")
  let isSearch := kind == .search
  { kind := kind
    ts := tsOf h
    udnHdr := truthy (get? h "_udn")
    udn := (truthy (get? h "usn")).bind udnFromUsn
    ty := truthy (get? h (if isSearch then "st" else "nt"))
    ntsOk := (truthy (get? h "nts")).isSome
    loc := loc
    locOk := match loc with
      | some l => locUsable cfg.searchPrefix cfg.schemes cfg.loopbackNames l
      | none => false
    maxAge := effMaxAge cfg (tsOf h) ((hget h "cache-control").getD "")
    hdrs := h }

def ssdpDiscover : String := "\"ssdp:discover\""

/-- `_on_data` of the advertisement (`sockA = true`) or search listener on the decoded headers
    (`pairs` = items of the header map in order) -/
def parseEv (cfg : Cfg) (sockA : Bool) (pairs : List (String × String)) : Ev String :=
  let h : Hdrs String := SMap.writeAll lower [] pairs
  if hget h "man" == some ssdpDiscover then .noise (tsOf h)
  else if sockA then
    match hget h "nts" with
    | none => .noise (tsOf h)
    | some nts =>
      let h' := SMap.write lower h "_source" "advertisement"
      if nts == "ssdp:alive" then .msg (mkMsg cfg .alive h')
      else if nts == "ssdp:byebye" then .msg (mkMsg cfg .byebye h')
      else if nts == "ssdp:update" then .msg (mkMsg cfg .update h')
      else .noise (tsOf h)
  else
    if (truthy (get? h "nts")).isSome then .noise (tsOf h)
    else .msg (mkMsg cfg .search (SMap.write lower h "_source" "search"))

/-- the search listener's unicast filter (`SsdpSearchListener.async_start` / `_on_data`): with a non-multicast target
    `_target_host = get_host_string(target)` (`ip`, or `ip%scope` for a scoped IPv6 target) and a response whose `_host`
    differs is dropped after the `man` / NTS tests; `targetHost = ""` is the multicast default (no filter).  The
    advertisement listener has no such filter. -/
def parseEvT (cfg : Cfg) (targetHost : String) (sockA : Bool) (pairs : List (String × String)) : Ev String :=
  match parseEv cfg sockA pairs with
  | .msg m =>
    if !sockA && !targetHost.isEmpty && hget (SMap.writeAll lower [] pairs) "_host" != some targetHost then .noise m.ts
    else .msg m
  | e => e

end Parse
end Upnp.C03
