/-
  C03Tracker — `async_upnp_client.ssdp_listener.SsdpDeviceTracker` / `SsdpDevice` /
  `SsdpListener._on_*`, transcribed function by function (layer 1 of the C03/C04 model).

  A message is what the tracker *reads* from the decoded header map (`Msg`: derived fields plus
  the header map itself); `Model/C03Parse.lean` computes it from the raw headers.  Everything
  here is generic in the string type `σ` (the driver uses `String`, the non-vacuity examples
  `Nat`), so the theorems hold for every reading of the derived fields.
  Header maps are the abstract maps of C16 (`SMap`: folded name ↦ (spelling, value)); the C16
  refinement theorem is what justifies using them in place of the two-dict representation.
  Time is `Int` (microseconds).  Import-free apart from PyDict / Spec.C16 (linked into the driver).
-/
import Upnp.Model.PyDict
import Upnp.Spec.C16
namespace Upnp.C03
open Upnp PyDict Upnp.C16

abbrev Hdrs (σ : Type) := SMap σ σ

/-- which listener callback receives the message (`_on_search`, `_on_alive`, `_on_update`, `_on_byebye`) -/
inductive Kind | search | alive | update | byebye
deriving DecidableEq, Repr

/-- `SsdpSource` values handed to the user callback -/
inductive Source | searchChanged | searchAlive | advAlive | advByebye | advUpdate
deriving DecidableEq, Repr

structure Msg (σ : Type) where
  kind   : Kind
  ts     : Int            -- `_timestamp`
  udnHdr : Option σ       -- `headers.get_lower("_udn")` when truthy
  udn    : Option σ       -- `udn_from_usn(headers.get_lower("usn"))` (none: no usn / not `uuid:`)
  ty     : Option σ       -- ST (search) / NT (advertisement) when truthy
  ntsOk  : Bool           -- NTS truthy
  loc    : Option σ       -- `location` when truthy
  locOk  : Bool           -- `location.startswith("http")` and none of the bad needles occurs
  maxAge : Int            -- `extract_uncache_after(cache-control)` in µs
  hdrs   : Hdrs σ

/-- `SsdpDevice` (the key of the device map is its `udn`) -/
structure Dev (σ : Type) where
  validTo  : Int
  locs     : PyDict σ Int                 -- `_locations`
  lastSeen : Option Int
  search   : PyDict σ (Hdrs σ)            -- `search_headers`
  adv      : PyDict σ (Hdrs σ)            -- `advertisement_headers`

structure Tracker (σ : Type) where
  devices : PyDict σ (Dev σ) := []
  next    : Option Int := none            -- `next_valid_to`

/-- one user notification: `callback(ssdp_device, dst, source)` -/
structure Notif (σ : Type) where
  udn    : σ
  ty     : σ
  source : Source
  dev    : Dev σ

inductive Ev (σ : Type)
  | msg (m : Msg σ)          -- a packet that reaches one of the four `_on_*` callbacks
  | purge (now : Int)        -- explicit `purge_devices(now)`
  | noise (ts : Int)         -- a packet the listeners' `_on_data` drops (M-SEARCH echo, wrong socket, unknown NTS)

section
variable {σ : Type} [DecidableEq σ]

/-- `not self.next_valid_to or x < self.next_valid_to` -/
def lowers (nx : Option Int) (v : Int) : Bool :=
  match nx with
  | none => true
  | some n => decide (v < n)

/-- `SsdpDevice.purge_locations(now)`: drop locations with `now > valid_to` -/
def purgeLocs (locs : PyDict σ Int) (now : Int) : PyDict σ Int :=
  locs.filter fun p => decide (now ≤ p.2)

/-- the loop of `purge_devices` (with the `elif`: locations are purged only for a device that
    lowers the running minimum) followed by the deletions -/
def purgeLoop (now : Int) : List (σ × Dev σ) → Option Int → List (σ × Dev σ) × Option Int
  | [], nx => ([], nx)
  | (k, d) :: r, nx =>
    if now > d.validTo then purgeLoop now r nx
    else if lowers nx d.validTo then
      ((k, { d with locs := purgeLocs d.locs now }) :: (purgeLoop now r (some d.validTo)).1,
       (purgeLoop now r (some d.validTo)).2)
    else ((k, d) :: (purgeLoop now r nx).1, (purgeLoop now r nx).2)

/-- `purge_devices(now)` -/
def purge (s : Tracker σ) (now : Int) : Tracker σ :=
  match s.next with
  | some n => if n > now then s else ⟨(purgeLoop now s.devices none).1, (purgeLoop now s.devices none).2⟩
  | none => ⟨(purgeLoop now s.devices none).1, (purgeLoop now s.devices none).2⟩

def Msg.validSearch (m : Msg σ) : Bool := m.udnHdr.isSome && m.ty.isSome && m.loc.isSome && m.locOk
def Msg.validAdv (m : Msg σ) : Bool := m.udnHdr.isSome && m.ty.isSome && m.ntsOk && m.loc.isSome && m.locOk
def Msg.validByebye (m : Msg σ) : Bool := m.udnHdr.isSome && m.ty.isSome && m.ntsOk

/-- `location_changed` -/
def locChanged (ipv : σ → Option Nat) (locs : PyDict σ Int) (loc : σ) : Bool :=
  if locs.isEmpty then true
  else if contains locs loc then false
  else match ipv loc with
    | none => false
    | some v => locs.any fun p => ipv p.1 == some v

/-- `same_headers_differ(current, new)`; `skip lk` = `lk` starts with `_` or is in `IGNORED_HEADERS` -/
def headersDiffer (skip : σ → Bool) (cur new : Hdrs σ) : Bool :=
  cur.any fun p => !(skip p.1) &&
    (match get? new p.1 with
     | some q => decide (p.2.2 ≠ q.2)
     | none => false)

def newDev (validTo : Int) : Dev σ := { validTo := validTo, locs := [], lastSeen := none, search := [], adv := [] }

/-- the `SsdpDevice` `_see_device` works on: a new one, or the known one with its `valid_to` replaced -/
def refreshed (s1 : Tracker σ) (u : σ) (vt : Int) : Dev σ :=
  match get? s1.devices u with
  | none => newDev vt
  | some d => { d with validTo := vt }

/-- `add_location` + `last_seen` -/
def sighted (d0 : Dev σ) (loc : σ) (vt ts : Int) : Dev σ :=
  { d0 with locs := set d0.locs loc vt, lastSeen := some ts }

/-- `if not self.next_valid_to or self.next_valid_to > valid_to: self.next_valid_to = valid_to` -/
def lowerNext (nx : Option Int) (vt : Int) : Option Int := if lowers nx vt then some vt else nx

/-- `_see_device`: a message without a uuid USN is ignored without touching any state (validated first);
    otherwise lazy purge at the packet's timestamp, create or refresh, location bookkeeping, watermark.
    Result: the device record and `new_location`, or `none` for a broken device. -/
def seeDevice (ipv : σ → Option Nat) (s : Tracker σ) (m : Msg σ) : Tracker σ × Option (σ × Dev σ × Bool) :=
  match m.udn, m.loc with
  | some u, some loc =>
    (⟨set (purge s m.ts).devices u (sighted (refreshed (purge s m.ts) u (m.ts + m.maxAge)) loc (m.ts + m.maxAge) m.ts),
      lowerNext (purge s m.ts).next (m.ts + m.maxAge)⟩,
     some (u, sighted (refreshed (purge s m.ts) u (m.ts + m.maxAge)) loc (m.ts + m.maxAge) m.ts,
           locChanged ipv (refreshed (purge s m.ts) u (m.ts + m.maxAge)).locs loc))
  | _, _ => (s, none)

/-- `see_search` + `SsdpListener._on_search` -/
def seeSearch (ipv : σ → Option Nat) (skip : σ → Bool) (s : Tracker σ) (m : Msg σ) : Tracker σ × Option (Notif σ) :=
  if !m.validSearch then (s, none) else
  let isNewDevice := match m.udnHdr with
    | some h => !(contains s.devices h)
    | none => true
  match seeDevice ipv s m, m.ty with
  | (s1, some (u, d, newLoc)), some ty =>
    let isNewService := !(contains d.adv ty) && !(contains d.search ty)
    let differ := match get? d.search ty with
      | some cur => headersDiffer skip cur m.hdrs
      | none => false
    let changed := isNewDevice || isNewService || newLoc || differ
    let d' : Dev σ := { d with search := set d.search ty m.hdrs }
    (⟨set s1.devices u d', s1.next⟩,
     some ⟨u, ty, if changed then .searchChanged else .searchAlive, d'⟩)
  | (s1, _), _ => (s1, none)

/-- `see_advertisement` + `_on_alive` / `_on_update` -/
def seeAdv (ipv : σ → Option Nat) (skip : σ → Bool) (s : Tracker σ) (m : Msg σ) : Tracker σ × Option (Notif σ) :=
  if !m.validAdv then (s, none) else
  let isNewDevice := match m.udnHdr with
    | some h => !(contains s.devices h)
    | none => true
  match seeDevice ipv s m, m.ty with
  | (s1, some (u, d, newLoc)), some ty =>
    let isNewService := !(contains d.adv ty) && !(contains d.search ty)
    let differ := match get? d.adv ty with
      | some cur => headersDiffer skip cur m.hdrs
      | none => false
    let propagate := (m.kind == .update) || isNewDevice || isNewService || newLoc || differ
    let d' : Dev σ := { d with adv := set d.adv ty m.hdrs }
    (⟨set s1.devices u d', s1.next⟩,
     if propagate then some ⟨u, ty, if m.kind == .update then .advUpdate else .advAlive, d'⟩ else none)
  | (s1, _), _ => (s1, none)

/-- `unsee_advertisement` + `_on_byebye` -/
def unsee (s : Tracker σ) (m : Msg σ) : Tracker σ × Option (Notif σ) :=
  if !m.validByebye then (s, none) else
  match m.udn, m.ty with
  | some u, some ty =>
    (match get? s.devices u with
     | none => (s, none)
     | some d =>
       let d' : Dev σ := { d with adv := set d.adv ty m.hdrs }
       (⟨erase s.devices u, s.next⟩, some ⟨u, ty, .advByebye, d'⟩))
  | _, _ => (s, none)

def step (ipv : σ → Option Nat) (skip : σ → Bool) (s : Tracker σ) : Ev σ → Tracker σ × Option (Notif σ)
  | .msg m => (match m.kind with
      | .search => seeSearch ipv skip s m
      | .alive => seeAdv ipv skip s m
      | .update => seeAdv ipv skip s m
      | .byebye => unsee s m)
  | .purge now => (purge s now, none)
  | .noise _ => (s, none)

/-- `SsdpDevice.combined_headers(dst)`; `srcKey` is the folded name `_source` -/
def combined (srcKey : σ) (d : Dev σ) (ty : σ) : Hdrs σ :=
  match get? d.search ty, get? d.adv ty with
  | some a, some b => SMap.remove (SMap.overlay a b) srcKey
  | some a, none => a
  | none, some b => b
  | none, none => []

/-- `SsdpDevice.location`: the smallest location (`sorted(self.locations)[0]`), `none` when there is none;
    `le` is the string order -/
def location (le : σ → σ → Bool) (d : Dev σ) : Option σ :=
  match d.locs with
  | [] => none
  | p :: r => some (r.foldl (fun acc q => if le acc q.1 then acc else q.1) p.1)

/-- run a history from the empty tracker, collecting the state after every event and the notification -/
def run (ipv : σ → Option Nat) (skip : σ → Bool) : Tracker σ → List (Ev σ) → List (Ev σ × Tracker σ × Option (Notif σ))
  | _, [] => []
  | s, e :: r => (e, (step ipv skip s e).1, (step ipv skip s e).2) :: run ipv skip (step ipv skip s e).1 r

end
end Upnp.C03
