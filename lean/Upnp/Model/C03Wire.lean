/-
  C03Wire — line protocol shared by the C03 and C04 drivers (harness/c03_common.py writes it).

  Strings travel once per case (`str <hex>` appends to a table) and are referred to by index.
    msg <S|A> k=v ...            decoded headers that reached `_on_data` of the search / advertisement listener
    drop <ts>                    packet dropped before `_on_data` (not an SSDP packet)
    purge <ts>                   explicit `purge_devices(ts)`
    pre  <u|-> <ty|-> <known> <st-keys> <at-keys> <sh> <ah>     device u / type ty before the event
    cb   <s|a> <udn> <ty> <source> <combined>                    one user callback (sync / coroutine)
    post <u|-> <ty|-> <known> <st-keys> <at-keys> <sh> <ah>     the same after the event
    snap <next|-> <n> {<udn> <validTo> <lastSeen|-> <locs> <location|->}*n
  lists: `~` empty, else comma-separated; header pairs `k=v`; locations `loc=validTo`; `!` = absent.
  The driver parses the implementation's lines into the structures below and compares them with the
  model's (structural equality), then hands the implementation's observations to the judges.
-/
import Upnp.Proto
import Upnp.Model.C03Parse
import Upnp.Spec.C03
import Upnp.Spec.C04
namespace Upnp.C03.Wire
open Upnp Upnp.Proto Upnp.C03 PyDict

abbrev S := String

structure DevFull where
  udn : S
  validTo : Int
  lastSeen : Option Int
  locs : List (S × Int)
  location : Option S
deriving DecidableEq, Repr

structure SnapFull where
  next : Option Int
  devs : List DevFull
deriving DecidableEq, Repr

/-- everything observed around one event on the implementation side -/
structure StepObs where
  target : Option S × Option S := (none, none)
  pre : Option (Look S) := none
  cbs : List (Cb S) := []
  post : Option (Look S) := none

/-! ### model side -/

def leS (a b : S) : Bool := !(b < a)

def snapFullOf (s : Tracker S) : SnapFull :=
  ⟨s.next, s.devices.map fun p => ⟨p.1, p.2.validTo, p.2.lastSeen, p.2.locs, location leS p.2⟩⟩

def devObsOf (d : DevFull) : DevObs S := ⟨d.udn, d.validTo, d.locs, d.location⟩

/-! ### parsing -/

def strAt (tbl : Array S) (t : String) : Option S :=
  match t.toNat? with
  | some i => tbl[i]?
  | none => none

def optStr (tbl : Array S) (t : String) : Option (Option S) :=
  if t = "-" then some none else (strAt tbl t).map some

def optInt (t : String) : Option (Option Int) :=
  if t = "-" then some none else t.toInt?.map some

def listOf (t : String) : List String := if t = "~" then [] else t.splitOn ","

def strList (tbl : Array S) (t : String) : Option (List S) := (listOf t).mapM (strAt tbl)

def pairList (tbl : Array S) (t : String) : Option (List (S × S)) :=
  (listOf t).mapM fun x =>
    match x.splitOn "=" with
    | [a, b] => do pure (← strAt tbl a, ← strAt tbl b)
    | _ => none

/-- observed header items (spelling, value) read into the abstract-map form -/
def hdrsOf (l : List (S × S)) : Hdrs S := l.map fun p => (Parse.lower p.1, p)

def optPairs (tbl : Array S) (t : String) : Option (Option (Hdrs S)) :=
  if t = "!" then some none else (pairList tbl t).map fun l => some (hdrsOf l)

def locList (tbl : Array S) (t : String) : Option (List (S × Int)) :=
  (listOf t).mapM fun x =>
    match x.splitOn "=" with
    | [a, b] => do pure (← strAt tbl a, ← b.toInt?)
    | _ => none

def parseSource (t : String) : Option Source :=
  match t with
  | "search_changed" => some .searchChanged
  | "search_alive" => some .searchAlive
  | "advertisement_alive" => some .advAlive
  | "advertisement_byebye" => some .advByebye
  | "advertisement_update" => some .advUpdate
  | _ => none

def parseLook (tbl : Array S) (toks : List String) : Option ((Option S × Option S) × Look S) :=
  match toks with
  | [u, ty, known, st, at_, sh, ah] => do
    pure ((← optStr tbl u, ← optStr tbl ty),
          ⟨known == "1", ← strList tbl st, ← strList tbl at_, ← optPairs tbl sh, ← optPairs tbl ah⟩)
  | _ => none

def parseCb (tbl : Array S) (toks : List String) : Option (Cb S) :=
  match toks with
  | [fl, u, ty, src, comb] => do
    pure ⟨fl == "a", ← strAt tbl u, ← strAt tbl ty, ← parseSource src, hdrsOf (← pairList tbl comb)⟩
  | _ => none

def parseDevs (tbl : Array S) : Nat → List String → Option (List DevFull)
  | 0, [] => some []
  | n + 1, u :: vt :: ls :: locs :: loc :: r => do
    let d : DevFull := ⟨← strAt tbl u, ← vt.toInt?, ← optInt ls, ← locList tbl locs, ← optStr tbl loc⟩
    pure (d :: (← parseDevs tbl n r))
  | _, _ => none

def parseSnap (tbl : Array S) (toks : List String) : Option SnapFull :=
  match toks with
  | nx :: n :: r => do
    let n ← n.toNat?
    pure ⟨← optInt nx, ← parseDevs tbl n r⟩
  | _ => none

/-! ### per-case state of the drivers -/

structure St where
  tbl : Array S := #[]
  tracker : Tracker S := {}
  before : Tracker S := {}
  evJ : Option (Ev S) := none            -- current event in the reading of the property text
  notif : Option (Notif S) := none       -- model's notification for the current event
  cur : StepObs := {}                    -- implementation's observations around the current event
  trace3 : List (Ev S × Snap S) := []    -- reversed: (event, implementation's device map after it)
  steps4 : List (Ev S × Snap S × C04.Obs S) := []  -- reversed: (event, map before, observations)
  lastSnap : Snap S := []
  corrOk : Bool := true
  notes : List String := []
  wfOk : Bool := true
  curGap : Bool := false                 -- current message: a sighting for the code's location test, not for the text's
  gaps : List Bool := []                 -- reversed, one per step
  target : String := ""                  -- the search listener's unicast filter host (`target` line; "" = multicast)
  mode : CbMode := .both                 -- which callbacks the listener under test was given (`mode` line)

def St.bad (st : St) (s : String) : St :=
  { st with corrOk := false, notes := if st.notes.length < 3 then st.notes ++ [s] else st.notes }

def beginEv (st : St) (genCfg specCfg : Cfg) (evOf : Cfg → Ev S) : St :=
  let eM := evOf genCfg
  let r := step Parse.ipVersion (Parse.skipHdr genCfg) st.tracker eM
  let st := if eM.wf then st else st.bad "ill-formed message (harness): _udn differs from the USN's udn / NTS missing"
  let gap := match eM, evOf specCfg with
    | .msg m, .msg mj => m.sighting?.isSome && mj.sighting?.isNone
    | _, _ => false
  { st with before := st.tracker, tracker := r.1, notif := r.2, evJ := some (evOf specCfg), cur := {}, curGap := gap }

def stepLine (genCfg specCfg : Cfg) (st : St) (toks : List String) : St :=
  match toks with
  | ["str", h] =>
    (match tokStr h with
     | some s => { st with tbl := st.tbl.push s }
     | none => st.bad s!"bad str {h}")
  | "msg" :: sock :: rest =>
    (match pairList st.tbl (if rest.isEmpty then "~" else ",".intercalate rest) with
     | some pairs => beginEv st genCfg specCfg fun cfg => Parse.parseEvT cfg st.target (sock == "A") pairs
     | none => st.bad "bad msg line")
  | ["target", t] =>
    (match optStr st.tbl t with
     | some o => { st with target := o.getD "" }
     | none => st.bad "bad target line")
  | ["mode", m] =>
    { st with mode := if m = "sync" then .sync else if m = "async" then .async else .both }
  | "lost" :: sock :: ts :: rest =>
    -- a well-formed message the harness SENT (headers as the harness built them) that never reached `_on_data`:
    -- the model follows the implementation (nothing happened), the judges read the message that was sent
    (match pairList st.tbl (if rest.isEmpty then "~" else ",".intercalate rest) with
     | some pairs =>
       let st := beginEv st genCfg specCfg fun _ => .noise (ts.toInt?.getD 0)
       { st with evJ := some (Parse.parseEvT specCfg st.target (sock == "A") pairs) }
     | none => st.bad "bad lost line")
  | ["drop", ts] => beginEv st genCfg specCfg fun _ => .noise (ts.toInt?.getD 0)
  | ["purge", ts] => beginEv st genCfg specCfg fun _ => .purge (ts.toInt?.getD 0)
  | "pre" :: rest =>
    (match parseLook st.tbl rest with
     | some (tg, lk) =>
       let st := { st with cur := { st.cur with target := tg, pre := some lk } }
       if lookOf st.before tg.1 tg.2 == lk then st else st.bad s!"pre differs at step {st.trace3.length}"
     | none => st.bad "bad pre line")
  | "post" :: rest =>
    (match parseLook st.tbl rest with
     | some (tg, lk) =>
       let st := { st with cur := { st.cur with post := some lk } }
       if lookOf st.tracker tg.1 tg.2 == lk then st else st.bad s!"post differs at step {st.trace3.length}"
     | none => st.bad "bad post line")
  | "cb" :: rest =>
    (match parseCb st.tbl rest with
     | some cb => { st with cur := { st.cur with cbs := st.cur.cbs ++ [cb] } }
     | none => st.bad "bad cb line")
  | "snap" :: rest =>
    (match parseSnap st.tbl rest, st.evJ with
     | some sn, some e =>
       let st := if snapFullOf st.tracker == sn then st
         else st.bad s!"snap differs at step {st.trace3.length}: impl {repr sn} model {repr (snapFullOf st.tracker)}"
       let st := if cbsOf "_source" st.mode st.notif == st.cur.cbs then st
         else st.bad s!"callbacks differ at step {st.trace3.length}: impl {repr st.cur.cbs} model {repr (cbsOf "_source" st.mode st.notif)}"
       let snapJ := sn.devs.map devObsOf
       let noLook : Look S := ⟨false, [], [], none, none⟩
       let cur : C04.Obs S := ⟨st.cur.target, st.cur.pre.getD noLook, st.cur.cbs, st.cur.post.getD noLook⟩
       { st with gaps := st.curGap :: st.gaps, trace3 := (e, snapJ) :: st.trace3, steps4 := (e, st.lastSnap, cur) :: st.steps4,
                 lastSnap := snapJ, evJ := none }
     | _, _ => st.bad "bad snap line")
  | _ => st.bad s!"unknown line {" ".intercalate (toks.take 3)}"

/-- main loop shared by both drivers: `judge` maps the final state of a case to (ok?, note) -/
def mainLoop (genCfg specCfg : Cfg) (judge : St → Bool × String) : IO UInt32 := do
  let lines ← readLines (← IO.getStdin)
  let out ← IO.getStdout
  let mut st : St := {}
  let mut cur := ""
  let mut n := 0
  for line in lines do
    let toks := tokens line
    match toks with
    | ["case", id] => cur := id; st := {}
    | ["end"] =>
      n := n + 1
      let (jok, jnote) := judge st
      let notes := st.notes ++ (if jok then [] else [jnote])
      out.putStrLn s!"case {cur} corr={if st.corrOk then "ok" else "MISMATCH"} judge={if jok then "ok" else "FAIL"} {" ; ".intercalate (notes.take 3)}"
    | [] => pure ()
    | _ => st := stepLine genCfg specCfg st toks
  out.putStrLn s!"done {n}"
  return 0

end Upnp.C03.Wire
