/-
  C05 — `client_factory.UpnpFactory` at XML-tree level: `async_create_device`,
  `_async_create_device`, `_parse_device_el`, `_async_create_service`, `_parse_service_el`,
  `_create_state_variables`, `_parse_state_variable_el`, `_state_variable_create_schema` (from the
  C08 model), `_create_actions`, `_create_action`, `_parse_action_el`, and the public attributes of
  the resulting `UpnpDevice` / `UpnpService` / `UpnpAction` / `UpnpStateVariable` graph.
  Import-free (core only): linked into the driver.
-/
import Upnp.Model.C05Xml
import Upnp.Model.C05Url
import Upnp.Model.C08Types
import Upnp.Model.PyDict
namespace Upnp.C05
open Upnp Upnp.C08

/-- what can leave `async_create_device` -/
inductive FErr
  | xmlContent          -- UpnpXmlContentError
  | xmlParse            -- UpnpXmlParseError
  | response            -- UpnpResponseError
  | upnpError           -- UpnpError("Unsupported data type")
  | keyError            -- KeyError (argument's related state variable is not declared)
  | raw (e : Err)       -- a builtin exception out of a converter
  | library             -- some other subclass of UpnpError (seen on the implementation side only)
  | unmodelled
deriving DecidableEq, Repr

/-- outcome of a lazily evaluated attribute -/
inductive R (α : Type)
  | ok (a : α)
  | err (e : Err)
deriving DecidableEq, Repr

def R.ofExcept {α : Type} : Except Err α → R α
  | .ok a => .ok a
  | .error e => .err e

/-- what the requester returns for a URL -/
inductive Fetch
  | doc (x : Xml)       -- 200, parses to this tree
  | unparsable          -- 200, not XML
  | status (n : Nat)    -- other status

structure IconM where
  mimetype : Str
  width : Int
  height : Int
  depth : Int
  url : Option Str          -- `none`: outside the URL grammar
deriving DecidableEq, Repr

structure VarM (F : Type) where
  name : Str
  dataType : Str
  sendEvents : Bool
  min : R (Option (Val F))
  max : R (Option (Val F))
  allowed : R (List (Val F))
  default : R (Option (Val F))
deriving DecidableEq, Repr

structure ArgM where
  name : Str
  direction : Str
  related : Str             -- name of the bound state variable
  relatedType : Str         -- its data type
deriving DecidableEq, Repr

/-- first position (counting from `i`) of an element satisfying `p` -/
def findIdxFrom {α : Type} (p : α → Bool) : List α → Nat → Option Nat
  | [], _ => none
  | a :: r, i => if p a then some i else findIdxFrom p r (i + 1)

/-- positions (counting from `i`) of the elements satisfying `p` -/
def idxWhere {α : Type} (p : α → Bool) : List α → Nat → List Nat
  | [], _ => []
  | a :: r, i => if p a then i :: idxWhere p r (i + 1) else idxWhere p r (i + 1)

/-- `UpnpAction.argument(name, direction)`: the first argument of that name (and direction, if given),
    as its position in `arguments` -/
def argLookup (args : List ArgM) (name : Str) (dir : Option Str) : Option Nat :=
  findIdxFrom (fun a => a.name == name && (match dir with | none => true | some d => a.direction == d)) args 0

/-- an action as its public accessors show it: `arguments` in order, `in_arguments()`, `out_arguments()`
    (positions in `arguments`), and for every argument what `argument(name, direction)` and
    `argument(name)` return for its own name / direction -/
structure ActM where
  name : Str
  args : List ArgM
  inArgs : List Nat
  outArgs : List Nat
  byNameDir : List (Option Nat)
  byName : List (Option Nat)
deriving DecidableEq, Repr

def dirIn : Str := ['i', 'n']
def dirOut : Str := ['o', 'u', 't']

/-- the action object for a name and its bound arguments (accessors transcribed from `UpnpAction`) -/
def mkAct (name : Str) (args : List ArgM) : ActM :=
  { name := name, args := args
    inArgs := idxWhere (fun a => a.direction == dirIn) args 0
    outArgs := idxWhere (fun a => a.direction == dirOut) args 0
    byNameDir := args.map fun a => argLookup args a.name (some a.direction)
    byName := args.map fun a => argLookup args a.name none }

structure SvcM (F : Type) where
  serviceId : Str
  serviceType : Str
  controlUrl : Option Str   -- resolved against the description URL (`none`: outside the grammar)
  eventSubUrl : Option Str
  scpdUrl : Option Str
  vars : List (VarM F)      -- `state_variables.values()`
  actions : List ActM       -- `actions.values()`
deriving DecidableEq, Repr

/-- `DeviceInfo` text fields, in this order -/
def infoTags : List Tag :=
  [.deviceType, .friendlyName, .manufacturer, .manufacturerURL, .modelDescription, .modelName, .modelNumber,
   .modelURL, .serialNumber, .UDN, .UPC, .presentationURL]

/-- default of `findtext` per field: `""` (`some []`) or `None` -/
def infoDefault : Tag → Option Str
  | .modelDescription | .modelNumber | .modelURL | .serialNumber => none
  | _ => some []

inductive DevM (F : Type)
  | mk (info : List (Option Str)) (url : Str) (icons : List IconM) (services : List (SvcM F))
       (embedded : List (DevM F))
deriving Repr

def mapE {α β ε : Type} (f : α → Except ε β) : List α → Except ε (List β)
  | [] => .ok []
  | a :: r => match f a with
      | .ok b => match mapE f r with
          | .ok bs => .ok (b :: bs)
          | .error e => .error e
      | .error e => .error e

/-- `str.strip()` (ASCII whitespace incl. 0x1c..0x1f) -/
def isWs (c : Char) : Bool := c == ' ' || (9 ≤ c.toNat && c.toNat ≤ 13) || (28 ≤ c.toNat && c.toNat ≤ 31)
def lstripWs : Str → Str
  | [] => []
  | c :: s => if isWs c then lstripWs s else c :: s
def stripWs (s : Str) : Str := (lstripWs (lstripWs s).reverse).reverse

/-- `{key(x): x for x in l}.values()` -/
def dictValues {α : Type} (key : α → Str) (l : List α) : List α :=
  PyDict.values (PyDict.ofList (l.map fun x => (key x, x)))

/-- `UpnpDevice.services` / `.embedded_devices`: keyed by type; an item whose type is already a key
    is stored under `<type>#<id>` (service id / UDN) -/
def keyStep {α : Type} (key uniq : α → Str) (acc : PyDict Str α) (x : α) : PyDict Str α :=
  PyDict.set acc (if PyDict.contains acc (key x) then key x ++ '#' :: uniq x else key x) x

/-- `.values()` of that dict -/
def keyedValues {α : Type} (key uniq : α → Str) (l : List α) : List α :=
  PyDict.values (l.foldl (keyStep key uniq) [])

/-- `.keys()` of that dict -/
def keyedKeys {α : Type} (key uniq : α → Str) (l : List α) : List Str :=
  PyDict.keys (l.foldl (keyStep key uniq) [])

/-- `allowed_values` as the factory reads them: the text of every `allowedValue`; an element
    without text is the empty string for the string types and is skipped for the others -/
def allowedTexts (isStr : Bool) (l : List (Option Str)) : List Str :=
  l.filterMap fun t => match t with
    | some s => some s
    | none => if isStr then some [] else none

section
variable {F : Type} (fo : FloatOps F) (tb : Table)

/-- `int(findtext(..., 0))` -/
def optInt (o : Option Str) : Except FErr Int :=
  match o with
  | none => .ok 0
  | some s => match pyInt? s with
      | some i => .ok i
      | none => .error (.raw .valueError)

/-- `DeviceIcon(...)` from the five optional texts (url, mimetype, width, height, depth evaluated in this order) -/
def iconOf (base : Str) (mimetype width height depth url : Option Str) : Except FErr IconM :=
  match optInt width with
  | .error x => .error x
  | .ok w => match optInt height with
    | .error x => .error x
    | .ok h => match optInt depth with
      | .error x => .error x
      | .ok d => .ok { mimetype := mimetype.getD [], width := w, height := h, depth := d
                       url := absoluteUrl base (url.getD []) }

def parseIcon (base : Str) (e : Xml) : Except FErr IconM :=
  iconOf base (e.findtext .device .mimetype) (e.findtext .device .width) (e.findtext .device .height)
    (e.findtext .device .depth) (e.findtext .device .url)

def parseInfo (e : Xml) : List (Option Str) :=
  infoTags.map fun t => match e.findtext .device t with
    | some s => some s
    | none => infoDefault t

/-- `_parse_state_variable_el` + `_state_variable_create_schema` + the lazily computed attributes,
    from the pieces read off the element: the `sendEvents` attribute, the `sendEventsAttribute`
    text, data type, default, name, (minimum, maximum) of the range, the `.text` of every allowedValue element -/
def varOf (nonStrict : Bool) (seAttr seElem dataType default name : Option Str)
    (range : Option (Option Str × Option Str)) (allowedEls : Option (List (Option Str))) : Except FErr (VarM F) :=
  let sendEvents : Bool :=
    match seAttr with
    | some a => a == ['y', 'e', 's']
    | none => match seElem with
        | some e => e == ['y', 'e', 's']
        | none => false
  match dataType with
  | none => .error .upnpError
  | some dt => match tb.row? dt with
    | none => .error .upnpError
    | some row =>
      let allowed : Option (List Str) := allowedEls.map (allowedTexts (row.ty == .str))
      match mkSchema fo tb row (!nonStrict) { range := range, allowed := allowed, default := default } with
      | .error x => .error (.raw x)
      | .ok _ =>
        let inC := coercePython fo tb row
        .ok { name := stripWs (name.getD []), dataType := dt, sendEvents := sendEvents
              min := R.ofExcept (optM inC (range.bind (·.1)))
              max := R.ofExcept (optM inC (range.bind (·.2)))
              allowed := R.ofExcept (mapM' inC (allowed.getD []))
              default := R.ofExcept (optM inC default) }

def createVar (nonStrict : Bool) (e : Xml) : Except FErr (VarM F) :=
  varOf fo tb nonStrict e.sendEvents
    ((e.find .service .sendEventsAttribute).map fun c => c.text.getD [])
    (e.findtext .service .dataType) (e.findtext .service .defaultValue) (e.findtext .service .name)
    ((e.find .service .allowedValueRange).map fun r => (r.findtext .service .minimum, r.findtext .service .maximum))
    ((e.find .service .allowedValueList).map fun l => (l.findall .service .allowedValue).map (·.text))

def createVars (nonStrict : Bool) (scpd : Xml) : Except FErr (List (VarM F)) :=
  match scpd.find .service .serviceStateTable with
  | none => if nonStrict then .ok [] else .error .xmlContent
  | some t => mapE (createVar fo tb nonStrict) (t.findall .service .stateVariable)

/-- an argument needs a name, a direction and a related state variable; otherwise it is skipped -/
def completeArg (n d r : Option Str) : Option (Str × Str × Str) :=
  match n, d, r with
  | some n, some d, some r => some (n, d, r)
  | _, _, _ => none

/-- `_parse_action_el`: arguments lacking a name, a direction or a related variable are skipped -/
def parseArgs (a : Xml) : List (Str × Str × Str) :=
  (a.findall2 .service .argumentList .argument).filterMap fun g =>
    completeArg (g.findtext .service .name) (g.findtext .service .direction)
      ((g.findtext .service .relatedStateVariable).map stripWs)

/-- `UpnpAction.Argument(arg_info, svs[arg_info.state_variable_name])` -/
def bindArg (lookup : Str → Option (VarM F)) (g : Str × Str × Str) : Except FErr ArgM :=
  match lookup g.2.2 with
  | some v => .ok { name := g.1, direction := g.2.1, related := v.name, relatedType := v.dataType }
  | none => .error .keyError

/-- `UpnpAction(...)`: each complete argument is bound to the state variable `lookup` finds for
    the NAME given as its related state variable; no such variable: KeyError -/
def actionOf (lookup : Str → Option (VarM F)) (name : Option Str) (args : List (Str × Str × Str)) : Except FErr ActM :=
  match mapE (bindArg lookup) args with
  | .ok as => .ok (mkAct (name.getD ['n', 'a', 'm', 'e', 'l', 'e', 's', 's']) as)
  | .error e => .error e

/-- `_create_action` (`svs = {sv.name: sv for sv in state_variables}`) -/
def createAction (vars : List (VarM F)) (a : Xml) : Except FErr ActM :=
  actionOf (PyDict.get? (PyDict.ofList (vars.map fun v => (v.name, v)))) (a.findtext .service .name) (parseArgs a)

def createActions (nonStrict : Bool) (vars : List (VarM F)) (scpd : Xml) : Except FErr (List ActM) :=
  match scpd.find .service .actionList with
  | none => .ok []
  | some l =>
      -- non-strict: an SCPD without state table degrades to an empty service
      if nonStrict && (scpd.find .service .serviceStateTable).isNone then .ok []
      else mapE (createAction vars) (l.findall .service .action)

/-- `urljoin(base, findtext(...))` where `None` joins to the base itself -/
def joinOpt (base : Str) (o : Option Str) : Option Str :=
  match o with
  | none => some base
  | some s => urljoin base s

/-- the exceptions `_async_create_service` treats as "incomplete description": `UpnpError` and `KeyError` -/
def FErr.incomplete : FErr → Bool
  | .upnpError => true
  | .xmlContent => true
  | .keyError => true
  | _ => false

/-- non-strict: an incomplete description degrades to an empty service -/
def degrade {α β : Type} (nonStrict : Bool) (r : Except FErr (List α × List β)) : Except FErr (List α × List β) :=
  match r with
  | .ok x => .ok x
  | .error e => if nonStrict && e.incomplete then .ok ([], []) else .error e

/-- state variables and actions of a fetched SCPD (strict: a foreign root / missing state table is
    refused; non-strict: unparsable text counts as an empty `scpd`) -/
def serviceBody (nonStrict : Bool) (fetched : Fetch) : Except FErr (List (VarM F) × List ActM) :=
  match (match fetched with
      | .status _ => Except.error FErr.response
      | .unparsable => if nonStrict then Except.ok (Xml.node .service .scpd none none []) else .error .xmlParse
      | .doc x => .ok x) with
  | .error e => .error e
  | .ok scpd =>
    if !nonStrict && !(Xml.isNamed .service .scpd scpd) then .error .xmlContent
    else degrade nonStrict (match createVars fo tb nonStrict scpd with
      | .error e => .error e
      | .ok vars => match createActions nonStrict vars scpd with
        | .error e => .error e
        | .ok acts => .ok (dictValues (·.name) vars, dictValues (·.name) acts))

/-- `UpnpService(...)`: ids as given, URLs joined to the description URL -/
def svcOf (base : Str) (serviceId serviceType controlURL eventSubURL scpdURL : Option Str)
    (body : Except FErr (List (VarM F) × List ActM)) : Except FErr (SvcM F) :=
  match body with
  | .error e => .error e
  | .ok (vars, acts) =>
    .ok { serviceId := serviceId.getD [], serviceType := serviceType.getD []
          controlUrl := urljoin base (controlURL.getD []), eventSubUrl := urljoin base (eventSubURL.getD [])
          scpdUrl := urljoin base (scpdURL.getD []), vars := vars, actions := acts }

/-- `_async_create_service` -/
def createService (fetch : Str → Fetch) (nonStrict : Bool) (base : Str) (sd : Xml) : Except FErr (SvcM F) :=
  match joinOpt base (sd.findtext .device .SCPDURL) with
  | none => .error .unmodelled
  | some u =>
    svcOf base (sd.findtext .device .serviceId) (sd.findtext .device .serviceType) (sd.findtext .device .controlURL)
      (sd.findtext .device .eventSubURL) (sd.findtext .device .SCPDURL) (serviceBody fo tb nonStrict (fetch u))

def DevM.deviceType : DevM F → Str
  | .mk info _ _ _ _ => (info.head?.getD none).getD []

/-- `device.udn` (10th info field) -/
def DevM.udn : DevM F → Str
  | .mk info _ _ _ _ => (info.getD 9 none).getD []

/-- `_async_create_device` (recursion fuel = nesting depth available) -/
def createDevice (fetch : Str → Fetch) (nonStrict : Bool) (base : Str) : Nat → Xml → Except FErr (DevM F)
  | 0, _ => .error .unmodelled
  | fuel + 1, el =>
    match mapE (parseIcon base) (el.findall2 .device .iconList .icon) with
    | .error e => .error e
    | .ok icons =>
      match mapE (createService fo tb fetch nonStrict base) (el.findall2 .device .serviceList .service) with
      | .error e => .error e
      | .ok svcs =>
        match mapE (createDevice fetch nonStrict base fuel) (el.findall2 .device .deviceList .device) with
        | .error e => .error e
        | .ok emb =>
          .ok (.mk (parseInfo el) base icons (keyedValues (·.serviceType) (·.serviceId) svcs)
            (keyedValues DevM.deviceType DevM.udn emb))

/-- `async_create_device`.  The factory keeps NO state between creations: the result is a function of
    what the requester answers now (`fetch`) and of the options (`nonStrict`) only; the same `UpnpFactory`
    creating again after a document changed must see the new document (the harness runs such histories).
    Nor is anything shared between creations IN FLIGHT at the same time: each is a function of its own
    `base` and of the responses to its own requests (the harness runs 2-3 concurrent creations through a
    requester that suspends, releasing the responses in every / sampled order) -/
def asyncCreateDevice (fetch : Str → Fetch) (nonStrict : Bool) (base : Str) (fuel : Nat) : Except FErr (DevM F) :=
  match fetch base with
  | .status _ => .error .response
  | .unparsable => .error .xmlParse
  | .doc root => match root.find .device .device with
      | none => .error .xmlContent
      | some el => createDevice fo tb fetch nonStrict base fuel el

end
end Upnp.C05
