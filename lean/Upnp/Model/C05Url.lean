/-
  C05 — `urllib.parse.urljoin` for the URL grammar of device descriptions:
  base `scheme://netloc/path[?query]`, references absolute (`http://…`, `https://…`), network-path
  (`//netloc/path`), absolute-path, relative-path (with `.` / `..`), query-only or empty.
  Outside the grammar (`#`, `;`, other schemes, back-slashes …) the model answers `none`.
  Import-free: linked into the driver.
-/
import Upnp.Model.C08Data
namespace Upnp.C05
open Upnp.C08 (Str)

def splitOnChar (c : Char) : Str → List Str
  | [] => [[]]
  | x :: r =>
      if x == c then [] :: splitOnChar c r
      else match splitOnChar c r with
        | h :: t => (x :: h) :: t
        | [] => [[x]]

def joinWith (c : Char) : List Str → Str
  | [] => []
  | [a] => a
  | a :: r => a ++ c :: joinWith c r

def startsWith (p s : Str) : Bool := p.isPrefixOf s

/-- split at the first occurrence of `c`: (before, after?) -/
def cut (c : Char) : Str → Str × Option Str
  | [] => ([], none)
  | x :: r => if x == c then ([], some r) else
      let (a, b) := cut c r
      (x :: a, b)

structure Url where
  scheme : Str
  netloc : Str
  path : Str
  query : Option Str
deriving Repr, DecidableEq

/-- `urlunsplit`: with a netloc, a non-empty path gets its leading `/` -/
def Url.render (u : Url) : Str :=
  u.scheme ++ ':' :: '/' :: '/' :: u.netloc ++ (match u.path with | [] => [] | c :: r => if c == '/' then c :: r else '/' :: c :: r) ++ (match u.query with | some q => '?' :: q | none => [])

def okChars (s : Str) : Bool := s.all fun c => c != '#' && c != ';' && c != '\\' && c != ' ' && c.toNat > 32 && c.toNat < 127

/-- `http://netloc/path?query` -/
def parseAbs (s : Str) : Option Url :=
  let (sch, rest) := cut ':' s
  match rest with
  | some ('/' :: '/' :: r) =>
      if (sch == ['h', 't', 't', 'p'] || sch == ['h', 't', 't', 'p', 's']) && okChars r then
        let (np, q) := cut '?' r
        let (nl, p) := cut '/' np
        some { scheme := sch, netloc := nl, path := match p with | some x => '/' :: x | none => [], query := q }
      else none
  | _ => none

def resolveDots : List Str → List Str → List Str
  | [], acc => acc.reverse
  | seg :: r, acc =>
      if seg == ['.', '.'] then resolveDots r (acc.drop 1)
      else if seg == ['.'] then resolveDots r acc
      else resolveDots r (seg :: acc)

def dropLast' {α : Type} (l : List α) : List α := l.dropLast

def isSchemeChar (c : Char) : Bool :=
  let n := c.toNat
  (97 ≤ n && n ≤ 122) || (65 ≤ n && n ≤ 90) || (48 ≤ n && n ≤ 57) || c == '+' || c == '-' || c == '.'

def lowerAscii (c : Char) : Char := if 65 ≤ c.toNat && c.toNat ≤ 90 then Char.ofNat (c.toNat + 32) else c

/-- `urlsplit`'s scheme detection: the text before the FIRST `:` is a scheme iff it is non-empty, starts
    with an ASCII letter and consists of scheme characters; the scheme is lower-cased -/
def splitScheme (s : Str) : Option (Str × Str) :=
  match cut ':' s with
  | (pre, some rest) =>
      match pre with
      | c :: _ =>
          let n := c.toNat
          if ((97 ≤ n && n ≤ 122) || (65 ≤ n && n ≤ 90)) && pre.all isSchemeChar then some (pre.map lowerAscii, rest)
          else none
      | [] => none
  | (_, none) => none

/-- the reference without scheme, resolved against the base (`netloc`, path merge, dot segments) -/
def joinRest (b : Url) (r : Str) : Str :=
  if startsWith ['/', '/'] r then
    -- network-path reference: its own netloc, path and query, the base's scheme
    let (np, q) := cut '?' (r.drop 2)
    let (nl, p) := cut '/' np
    ({ scheme := b.scheme, netloc := nl, path := match p with | some x => '/' :: x | none => [], query := q } : Url).render
  else
    let (path, query) := cut '?' r
    if path.isEmpty then
      ({ b with query := match query with | some q => if q.isEmpty then b.query else some q | none => b.query }).render
    else
      let baseParts := splitOnChar '/' b.path
      let baseParts := if baseParts.getLast? != some [] then baseParts.dropLast else baseParts
      let segments :=
        if startsWith ['/'] path then splitOnChar '/' path
        else
          let segs := baseParts ++ splitOnChar '/' path
          match segs with
          | [] => []
          | [a] => [a]
          | a :: rest => a :: ((rest.dropLast).filter (fun s => !s.isEmpty)) ++ [rest.getLast?.getD []]
      let resolved := resolveDots segments []
      let resolved := if segments.getLast? == some ['.'] || segments.getLast? == some ['.', '.'] then resolved ++ [[]] else resolved
      let p := joinWith '/' resolved
      ({ b with path := if p.isEmpty then ['/'] else p, query := query }).render

/-- `urljoin(base, ref)`; `none` = outside the modelled grammar (base not `http(s)://…`, or `#` `;`
    `\` blanks / controls / non-ASCII in the reference).  A reference whose text before the first `:`
    looks like a scheme (`x:y/z`, `host:8080/p`, `HTTP://h/p`) HAS that scheme for `urljoin`: a scheme other
    than the base's returns the reference unchanged; the base's own scheme (`http:rel`, `HTTP://H/p`) is
    dropped, the rest is resolved like a scheme-less reference and the result carries the lower-case scheme.
    A `:` after the first `/` (`a/b:c`) is an ordinary path character. -/
def urljoin (base : Str) (ref : Str) : Option Str :=
  if ref.isEmpty then some base
  else match parseAbs base with
  | none => none
  | some b =>
    if !okChars ref then none
    else match splitScheme ref with
      | some (sch, rest) => if sch == b.scheme then some (joinRest b rest) else some ref
      | none => some (joinRest b ref)

/-- `utils.absolute_url` -/
def absoluteUrl (deviceUrl url : Str) : Option Str :=
  if startsWith ['h', 't', 't', 'p', ':'] url || startsWith ['h', 't', 't', 'p', 's', ':'] url then some url else urljoin deviceUrl url

end Upnp.C05
