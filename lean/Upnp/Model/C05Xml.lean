/-
  C05 — XML at tree level (what `xml.etree.ElementTree` hands to the factory) and the
  ElementPath shapes `client_factory.py` uses.  Element names are symbolic (`Ns`, `Tag`): the
  spelling of the names and text → tree (expat) are outside the model; the harness renders the
  same abstract document to real XML text, so they are exercised by the correspondence check.
  Import-free: linked into the driver.
-/
import Upnp.Model.C08Data
namespace Upnp.C05
open Upnp.C08 (Str)

inductive Ns
  | device      -- urn:schemas-upnp-org:device-1-0
  | service     -- urn:schemas-upnp-org:service-1-0
  | other (s : Str)
deriving DecidableEq, Repr

inductive Tag
  | root | device | deviceType | friendlyName | manufacturer | manufacturerURL | modelDescription
  | modelName | modelNumber | modelURL | serialNumber | UDN | UPC | presentationURL
  | iconList | icon | mimetype | width | height | depth | url
  | serviceList | service | serviceType | serviceId | controlURL | eventSubURL | SCPDURL | deviceList
  | scpd | serviceStateTable | stateVariable | name | dataType | defaultValue
  | allowedValueRange | minimum | maximum | step | allowedValueList | allowedValue | sendEventsAttribute
  | actionList | action | argumentList | argument | direction | relatedStateVariable
  | other (s : Str)
deriving DecidableEq, Repr

/-- an element: namespace, local name, the `sendEvents` attribute if any, `.text`, children -/
inductive Xml
  | node (ns : Ns) (tag : Tag) (sendEvents : Option Str) (text : Option Str) (children : List Xml)
deriving Repr

namespace Xml
def ns : Xml → Ns | node n _ _ _ _ => n
def tag : Xml → Tag | node _ t _ _ _ => t
def sendEvents : Xml → Option Str | node _ _ a _ _ => a
def text : Xml → Option Str | node _ _ _ t _ => t
def children : Xml → List Xml | node _ _ _ _ c => c

def isNamed (n : Ns) (t : Tag) (e : Xml) : Bool := e.ns == n && e.tag == t

/-- `el.findall("./ns:t")` -/
def findall (e : Xml) (n : Ns) (t : Tag) : List Xml := e.children.filter (isNamed n t)

/-- `el.find("./ns:t")` -/
def find (e : Xml) (n : Ns) (t : Tag) : Option Xml := e.children.find? (isNamed n t)

/-- `el.findall("./ns:a/ns:b")` (document order) -/
def findall2 (e : Xml) (n : Ns) (a b : Tag) : List Xml := (e.findall n a).flatMap (·.findall n b)

/-- `el.findtext("./ns:t", default)`: the first match's text (`""` when it has none), `none` = default -/
def findtext (e : Xml) (n : Ns) (t : Tag) : Option Str := (e.find n t).map fun c => c.text.getD []

end Xml

/-- leaf element with text (`<t>s</t>`; the empty string gives `.text = None`) -/
def leaf (n : Ns) (t : Tag) (s : Str) : Xml := .node n t none (if s.isEmpty then none else some s) []

end Upnp.C05
