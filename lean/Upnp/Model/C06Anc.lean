/-
  C06/C07 — the library ancestors of an exception class, read from the generated hierarchy.
  One definition used by both drivers and by the `…_gen` theorems.  Import-free.
-/
import Upnp.Gen.C06Types
namespace Upnp.C06

def genAnc (cls : String) : List String := (Gen.C06Types.excAncestors.lookup cls).getD []

end Upnp.C06
