/-
  C06 — model of `UpnpAction.create_request` / `_format_request_args` / `validate_arguments`
  and of the request-sending half of `async_call` (client.py), plus
  * a small URL model (`urljoin` / `netloc` on the grammar the harness generates), and
  * `readEnvelope`, a recogniser for the fixed envelope shape `create_request` emits, so that
    "the body is a well-formed envelope that reads back as …" can be stated and proved.
  Import-free.
-/
import Upnp.Model.C06Xml
namespace Upnp.C06

/-! ### URLs (restricted grammar: `scheme://netloc/path?query`, no dot segments, no `//` in paths) -/

def isSchemeChar (c : Char) : Bool := c.isAlphanum || c == '+' || c == '-' || c == '.'

/-- `(scheme, text after "://")` -/
def schemeOf (u : Str) : Option (Str × Str) :=
  let sch := u.takeWhile (· != ':')
  match u.dropWhile (· != ':') with
  | ':' :: '/' :: '/' :: r => if !sch.isEmpty && sch.all isSchemeChar then some (sch, r) else none
  | _ => none

def isStop (c : Char) : Bool := c == '/' || c == '?' || c == '#'

/-- `urllib.parse.urlparse(u).netloc` -/
def netloc (u : Str) : Str :=
  match schemeOf u with
  | some (_, r) => r.takeWhile (!isStop ·)
  | none => []

def isQF (c : Char) : Bool := c == '?' || c == '#'

/-- path of an absolute URL (without query / fragment) -/
def pathOf (u : Str) : Str :=
  match schemeOf u with
  | some (_, r) => (r.dropWhile (!isStop ·)).takeWhile (!isQF ·)
  | none => []

/-- the path up to and including its last `/` -/
def dirOf (p : Str) : Str := (p.reverse.dropWhile (· != '/')).reverse

/-- `p.split("/")` -/
def segments : Str → List Str
  | [] => [[]]
  | c :: r =>
    if c = '/' then [] :: segments r
    else match segments r with
      | s :: t => (c :: s) :: t
      | [] => [[c]]

/-- a path the restricted `urljoin` handles: no `.`/`..` segments and no empty interior segment -/
def plainPath (p : Str) : Bool :=
  let segs := segments (p.takeWhile (!isQF ·))
  segs.all (fun s => s != ['.'] && s != ['.', '.'])
  && (segs.drop 1).dropLast.all (fun s => !s.isEmpty)

/-- the scheme is written in lower case (`urljoin` re-assembles the result with the LOWER-CASED
    scheme, so an upper-case scheme is outside the modelled grammar) -/
def lowerScheme (sch : Str) : Bool := sch.all fun c => !c.isUpper

/-- the reference starts with something `urlsplit` takes for a scheme (`x:y`, `mailto:a`, `c:d/e`):
    Python then treats it as an absolute URL of that scheme — outside the modelled grammar unless it
    is `scheme://…` -/
def schemeLike (ref : Str) : Bool :=
  ref.contains ':' && (match ref.takeWhile (· != ':') with
    | [] => false
    | c :: r => c.isAlpha && r.all isSchemeChar)

/-- `urllib.parse.urljoin(base, ref)`; `none` = outside the modelled grammar (then nothing is
    claimed or judged about the URL) -/
def urljoin (base ref : Str) : Option Str :=
  match schemeOf base with
  | none => none
  | some (sch, _) =>
    if !lowerScheme sch then none
    else if ref.isEmpty then some base
    else match schemeOf ref with
      | some (rs, _) => if lowerScheme rs then some ref else none
      | none =>
        if schemeLike ref then none
        else match ref with
        | '/' :: '/' :: _ => some (sch ++ ':' :: ref)
        | '/' :: _ => if plainPath ref then some (sch ++ "://".toList ++ netloc base ++ ref) else none
        | '?' :: _ => none
        | '#' :: _ => none
        | _ =>
          let dir := dirOf (pathOf base)
          let dir := if dir.isEmpty then ['/'] else dir
          if plainPath (dir ++ ref) then some (sch ++ "://".toList ++ netloc base ++ dir ++ ref) else none

/-! ### declarations -/

structure ArgDecl where
  name : Str
  isIn : Bool
  var : VarDecl
deriving Repr

structure ActionDecl where
  name : Str
  serviceType : Str
  deviceUrl : Str
  controlUrl : Str            -- `<controlURL>` as written in the description
  args : List ArgDecl
  strict : Bool := true
deriving Repr

def ActionDecl.inArgs (a : ActionDecl) : List ArgDecl := a.args.filter (·.isIn)
def ActionDecl.outArgs (a : ActionDecl) : List ArgDecl := a.args.filter (fun d => !d.isIn)

abbrev Kwargs := List (Str × PyVal)

structure Request where
  method : Str
  url : Str
  headers : List (Str × Str)
  body : Str
deriving Repr

/-! ### fixed pieces of the envelope -/

def soapEnvNs : Str := "http://schemas.xmlsoap.org/soap/envelope/".toList
def pre1 : Str :=
  "<?xml version=\"1.0\"?><s:Envelope s:encodingStyle=\"http://schemas.xmlsoap.org/soap/encoding/\" xmlns:s=\"http://schemas.xmlsoap.org/soap/envelope/\"><s:Body><u:".toList
def pre2 : Str := "xmlns:u=".toList
def suf1 : Str := "</u:".toList
def suf2 : Str := "></s:Body></s:Envelope>".toList

/-! ### validate_arguments / _format_request_args / create_request -/

/-- `validate_arguments`: in declared order, `UpnpError` for a missing argument,
    `UpnpValueError` for one the schema refuses -/
def validateArgs (O : Oracles) (strict : Bool) : List ArgDecl → Kwargs → Except Exc Unit
  | [], _ => .ok ()
  | d :: r, kw =>
    match kw.lookup d.name with
    | none => .error .upnpError
    | some v =>
      match schemaOk O strict d.var v with
      | none => .error (.unmodelled "schema")
      | some false => .error .upnpValueError
      | some true => validateArgs O strict r kw

/-- the (name, un-escaped text) pairs, in declared order -/
def coerceArgs (O : Oracles) : List ArgDecl → Kwargs → Except Exc (List (Str × Str))
  | [], _ => .ok []
  | d :: r, kw =>
    match kw.lookup d.name with
    | none => .error (.unmodelled "KeyError")
    | some v =>
      match coerceUpnp O d.var.row v, coerceArgs O r kw with
      | .ok t, .ok ts => .ok ((d.name, t) :: ts)
      | .error e, _ => .error (.raw e)
      | _, .error e => .error e

def renderArg (extra : List (Char × Str)) (p : Str × Str) : Str :=
  '<' :: p.1 ++ '>' :: escape extra p.2 ++ '<' :: '/' :: p.1 ++ ['>']

/-- `"\n".join(arg_strs)` -/
def renderArgs (extra : List (Char × Str)) : List (Str × Str) → Str
  | [] => []
  | [p] => renderArg extra p
  | p :: r => renderArg extra p ++ '\n' :: renderArgs extra r

/-- the value of `xmlns:u=`: `quoteattr(service_type)` (`nsq`), or the service type pasted between
    double quotes as older sources did -/
def nsAttr (nsq : Bool) (st : Str) : Str := if nsq then quoteattr st else '"' :: st ++ ['"']

def renderBody (extra : List (Char × Str)) (nsq : Bool) (name st : Str) (args : List (Str × Str)) : Str :=
  pre1 ++ name ++ ' ' :: pre2 ++ nsAttr nsq st ++ '>' :: renderArgs extra args ++ suf1 ++ name ++ suf2

def createRequest (O : Oracles) (extra : List (Char × Str)) (nsq : Bool) (a : ActionDecl) (kw : Kwargs) :
    Except Exc Request :=
  match urljoin a.deviceUrl a.controlUrl with
  | none => .error (.unmodelled "url")
  | some url =>
    match validateArgs O a.strict a.inArgs kw with
    | .error e => .error e
    | .ok () =>
      match coerceArgs O a.inArgs kw with
      | .error e => .error e
      | .ok args =>
        .ok { method := "POST".toList, url := url,
              headers := [("SOAPAction".toList, '"' :: a.serviceType ++ '#' :: a.name ++ ['"']),
                          ("Host".toList, netloc url),
                          ("Content-Type".toList, "text/xml; charset=\"utf-8\"".toList)],
              body := renderBody extra nsq a.name a.serviceType args }

/-- the request-sending half of `async_call`: what the requester receives, or the exception
    raised before anything is sent -/
def asyncCallSend (O : Oracles) (extra : List (Char × Str)) (nsq : Bool) (a : ActionDecl) (kw : Kwargs) :
    List Request × Option Exc :=
  match createRequest O extra nsq a kw with
  | .ok r => ([r], none)
  | .error e => ([], some e)

/-! ### reading the envelope back -/

def stripPrefix : Str → Str → Option Str
  | [], s => some s
  | _ :: _, [] => none
  | a :: p, b :: s => if a = b then stripPrefix p s else none

/-- split at the first `c`: `(before, after)` -/
def splitAt1 (c : Char) : Str → Option (Str × Str)
  | [] => none
  | x :: r => if x = c then some ([], r) else (splitAt1 c r).map fun p => (x :: p.1, p.2)

/-- split at the first occurrence of the two characters `</` -/
def splitClose : Str → Option (Str × Str)
  | [] => none
  | '<' :: '/' :: r => some ([], r)
  | x :: r => (splitClose r).map fun p => (x :: p.1, p.2)

/-- `<n>text</n>` (then an optional newline), repeated until `</`; returns decoded texts and
    the remaining input (starting at `</`) -/
def readArgs : Nat → Str → Option (List (Str × Str) × Str)
  | 0, _ => none
  | _ + 1, '<' :: '/' :: r => some ([], '<' :: '/' :: r)
  | fuel + 1, '<' :: r => do
      let (name, r1) ← splitAt1 '>' r
      let (raw, r2) ← splitClose r1
      let txt ← xmlDecodeText raw
      let r3 ← stripPrefix (name ++ ['>']) r2
      let r4 := match r3 with | '\n' :: r' => r' | _ => r3
      let (rest, tail) ← readArgs fuel r4
      pure ((name, txt) :: rest, tail)
  | _ + 1, _ => none

structure Envelope where
  action : Str
  ns : Str
  args : List (Str × Str)
deriving Repr, DecidableEq

/-- recogniser for the exact envelope shape `create_request` emits -/
def readEnvelope (body : Str) : Option Envelope := do
  let r ← stripPrefix pre1 body
  let (name, r) ← splitAt1 ' ' r
  let r ← stripPrefix pre2 r
  let (q, r) ← (match r with | c :: r' => if c = '"' || c = '\'' then some (c, r') else none | [] => none)
  let (rawSt, r) ← splitAt1 q r
  let st ← xmlDecodeAttr rawSt
  let r ← stripPrefix ['>'] r
  let (args, r) ← readArgs (r.length + 1) r
  let r ← stripPrefix (suf1 ++ name ++ suf2) r
  if r.isEmpty then pure { action := name, ns := st, args := args } else none

/-- the element tree an XML parser builds for such an envelope -/
def Envelope.tree (e : Envelope) : Xml :=
  .node (Xml.clark soapEnvNs "Envelope".toList) none
    [.node (Xml.clark soapEnvNs "Body".toList) none
      [.node (Xml.clark e.ns e.action) none
        (e.args.map fun p => .node p.1 (if p.2.isEmpty then none else some p.2) [])]]

end Upnp.C06
