/-
  C06/C07 — the typed values of the SOAP client ARE C08's (round 3): Python values `C08.Val`,
  the generated type table `Gen.C08Types.table` (all 26 rows of
  `const.STATE_VARIABLE_TYPE_MAPPING`, the `parse_date_time` matcher table, the tz guard),
  `C08.coerceUpnp` / `C08.coercePython`, and the validation schema `C08.mkSchema` /
  `C08.Schema.check` (`client_factory._state_variable_create_schema`).  This file only fixes the
  float carrier, names the instances, and defines the exceptions of the request path.
  Dates, times and date-times are fully modelled (no oracle any more); floats stay abstract:
  `Oracles` = `C08.FloatOps Fl` (what Python's `repr` / `float()` / comparisons give), arbitrary in
  the theorems (with C08's single assumption `RoundTrips` where needed), a table filled from the
  real primitives in the driver.  Import-free (core only).
-/
import Upnp.Gen.C08Types
namespace Upnp.C06

abbrev Str := List Char

/-- a float as an exact ratio (`float.as_integer_ratio`, sign kept so that `-0.0` is distinct) -/
inductive Fl
  | fin (neg : Bool) (num den : Nat)
  | inf (neg : Bool)
  | nan
deriving DecidableEq, Repr

/-- Python `a <= b` on floats (`nan` compares false) -/
def Fl.le : Fl → Fl → Bool
  | .nan, _ => false
  | _, .nan => false
  | .inf true, _ => true
  | _, .inf false => true
  | .inf false, _ => false
  | _, .inf true => false
  | .fin n a b, .fin n' a' b' =>
      let x : Int := if n then -(Int.ofNat (a * b')) else Int.ofNat (a * b')
      let y : Int := if n' then -(Int.ofNat (a' * b)) else Int.ofNat (a' * b)
      x ≤ y
def Fl.eq (a b : Fl) : Bool := Fl.le a b && Fl.le b a

abbrev PyVal := Upnp.C08.Val Fl
abbrev TypeRow := Upnp.C08.TypeRow
abbrev PyType := Upnp.C08.PyType

/-- the float primitives (`repr`, `float()`, `<=`, `==`): the only oracle left -/
abbrev Oracles := Upnp.C08.FloatOps Fl

/-- the type table generated from the source -/
abbrev table : Upnp.C08.Table := Gen.C08Types.table

/-- `UpnpStateVariable.coerce_python` -/
abbrev coercePython (O : Oracles) (row : TypeRow) (text : Str) : Except Upnp.C08.Err PyVal :=
  Upnp.C08.coercePython O table row text

/-- `UpnpStateVariable.coerce_upnp` -/
abbrev coerceUpnp (O : Oracles) (row : TypeRow) (v : PyVal) : Except Upnp.C08.Err Str :=
  Upnp.C08.coerceUpnp O row v

def lowerStr (s : Str) : Str := Upnp.C08.lowerStr s

/-- exceptions the modelled request path can raise -/
inductive Exc
  | upnpError | upnpValueError
  | raw (e : Upnp.C08.Err)          -- a non-library exception out of a coercer
  | unmodelled (why : String)
deriving DecidableEq, Repr

def errTok : Upnp.C08.Err → String
  | .valueError => "RAW:ValueError"
  | .typeError => "RAW:TypeError"
  | .indexError => "RAW:IndexError"
  | .attributeError => "RAW:AttributeError"
  | .unmodelled => "UNMODELLED:c08"
  | .other => "RAW:other"

def Exc.tok : Exc → String
  | .upnpError => "UpnpError"
  | .upnpValueError => "UpnpValueError"
  | .raw e => errTok e
  | .unmodelled w => "UNMODELLED:" ++ w

/-- what a state variable declares: its row of the type table and the declaration texts -/
structure VarDecl where
  row : TypeRow
  decl : Upnp.C08.Decl := {}
deriving Repr

/-- the schema the factory builds for the variable (`none` = the factory itself would have raised:
    a declared bound / allowed value its own `in` coercer refuses) -/
def schemaOf (O : Oracles) (strict : Bool) (d : VarDecl) : Option (Upnp.C08.Schema Fl) :=
  match Upnp.C08.mkSchema O table d.row strict d.decl with
  | .ok sc => some sc
  | .error _ => none

/-- `UpnpStateVariable.validate_value`: `self._schema(value)` passes -/
def schemaOk (O : Oracles) (strict : Bool) (d : VarDecl) (v : PyVal) : Option Bool :=
  (schemaOf O strict d).map fun sc => sc.check O v

end Upnp.C06
