/-
  C06/C07 — minimal typed-value model for the SOAP client (import-free; linked into the driver).

  * `TypeRow` is one row of `const.STATE_VARIABLE_TYPE_MAPPING` in the shapes the translator
    (`tools/gen_c06types.py`) recognises; the table itself is `Gen/C06Types.lean`.
  * `PyVal` is the Python value a caller supplies / the decoder returns.  Integers, booleans and
    strings are modelled exactly.  Floats are opaque text (`repr`) plus their exact value as a
    rational (`float.as_integer_ratio`) so that `Range`/`In` can be evaluated; dates / times /
    datetimes are opaque text (`isoformat()`), second precision.  Text → float and text → date/time
    (`float()`, `parse_date_time`) are *oracles* (`Oracles`): parameters of the model, hypotheses
    in the theorems, tables filled from the real primitives in the driver.
  * `schemaOk` is the `vol.All(type, [require_tzinfo], [In], [Range])` chain built by
    `client_factory._state_variable_create_schema`.
-/
namespace Upnp.C06

abbrev Str := List Char

inductive PyType | int | float | str | bool | date | datetime | time
deriving DecidableEq, Repr

/-- shape of the `"in"` coercer (UPnP text → Python) -/
inductive InShape
  | int | float | str | dateTime
  | boolIn (yes : List Str)          -- `lambda s: s.lower() in [...]`
deriving DecidableEq, Repr

/-- shape of the `"out"` coercer (Python → UPnP text) -/
inductive OutShape
  | str                              -- `str`
  | strInt                           -- `str(int(v))`
  | boolOut (t f : Str)              -- `lambda b: t if b else f`
  | iso0                             -- `v.isoformat()`
  | isoTSec                          -- `v.isoformat("T", "seconds")`
  | isoSec                           -- `v.isoformat("seconds")`
deriving DecidableEq, Repr

structure TypeRow where
  name : Str
  ty : PyType
  needTz : Bool                      -- `"validator": require_tzinfo`
  inn : InShape
  out : OutShape
deriving DecidableEq, Repr

/-- exact value of a Python float -/
inductive FNum
  | fin (num : Int) (den : Nat)      -- num/den, den > 0
  | pinf | ninf | nan
deriving DecidableEq, Repr

inductive DtClass | date | datetime | time
deriving DecidableEq, Repr

inductive PyVal
  | int (n : Int)
  | bool (b : Bool)
  | str (s : Str)
  | float (repr : Str) (x : FNum)
  | dt (cls : DtClass) (aware : Bool) (iso : Str)   -- second precision; `iso = v.isoformat()`
  | none
  | other (tag : Str)                               -- any other Python object
deriving DecidableEq, Repr

/-- exceptions the modelled code can raise -/
inductive Exc
  | upnpError | upnpValueError | valueError | typeError
  | unmodelled (why : String)
deriving DecidableEq, Repr

def Exc.tok : Exc → String
  | .upnpError => "UpnpError"
  | .upnpValueError => "UpnpValueError"
  | .valueError => "RAW:ValueError"
  | .typeError => "RAW:TypeError"
  | .unmodelled w => "UNMODELLED:" ++ w

/-! ### Python `int()` on text and `str()` of an int -/

/-- `Py_UNICODE_ISSPACE` -/
def isPySpace (c : Char) : Bool :=
  let n := c.toNat
  (9 ≤ n && n ≤ 13) || (28 ≤ n && n ≤ 32) || n == 0x85 || n == 0xa0 || n == 0x1680
  || (0x2000 ≤ n && n ≤ 0x200a) || n == 0x2028 || n == 0x2029 || n == 0x202f || n == 0x205f
  || n == 0x3000

def lstrip (s : Str) : Str := s.dropWhile isPySpace
def strip (s : Str) : Str := (lstrip (lstrip s).reverse).reverse

def digitVal (c : Char) : Option Nat :=
  if '0' ≤ c ∧ c ≤ '9' then some (c.toNat - 48) else none

/-- decimal digits with single underscores between digits -/
def parseNatAux : Str → Nat → Bool → Option Nat
  | [], acc, pd => if pd then some acc else none
  | c :: r, acc, pd =>
    if c = '_' then (if pd then parseNatAux r acc false else none)
    else match digitVal c with
      | some d => parseNatAux r (acc * 10 + d) true
      | none => none

/-- Python `int(s)` for ASCII digits (non-ASCII decimal digits are outside the model) -/
def pyInt? (s : Str) : Option Int :=
  match strip s with
  | '+' :: r => (parseNatAux r 0 false).map Int.ofNat
  | '-' :: r => (parseNatAux r 0 false).map fun n => - Int.ofNat n
  | r => (parseNatAux r 0 false).map Int.ofNat

def digitChar (d : Nat) : Char := Char.ofNat (48 + d)

def natDigits (n : Nat) : Str :=
  if _h : n < 10 then [digitChar n] else natDigits (n / 10) ++ [digitChar (n % 10)]
decreasing_by omega

/-- Python `str(n)` for an int -/
def decOfInt : Int → Str
  | .ofNat n => natDigits n
  | .negSucc n => '-' :: natDigits (n + 1)

/-! ### text helpers -/

def asciiLower (c : Char) : Char :=
  if 'A' ≤ c ∧ c ≤ 'Z' then Char.ofNat (c.toNat + 32) else c

def lowerStr (s : Str) : Str := s.map asciiLower

/-! ### numeric view, Python `==`, `<=` -/

def PyVal.num? : PyVal → Option FNum
  | .int n => some (.fin n 1)
  | .bool b => some (.fin (if b then 1 else 0) 1)
  | .float _ x => some x
  | _ => Option.none

/-- Python `a <= b` on numbers (`nan` compares false) -/
def FNum.le : FNum → FNum → Bool
  | .nan, _ => false
  | _, .nan => false
  | .ninf, _ => true
  | _, .pinf => true
  | .pinf, _ => false
  | _, .ninf => false
  | .fin a b, .fin c d => decide (a * d ≤ c * b)

def FNum.eq : FNum → FNum → Bool
  | .fin a b, .fin c d => decide (a * d = c * b)
  | .pinf, .pinf => true
  | .ninf, .ninf => true
  | _, _ => false

/-- Python `==` between the values of the model -/
def pyEq (a b : PyVal) : Bool :=
  match a.num?, b.num? with
  | some x, some y => FNum.eq x y
  | _, _ =>
    match a, b with
    | .str s, .str t => s == t
    | .dt c a i, .dt c' a' i' => c == c' && a == a' && i == i'
    | .none, .none => true
    | _, _ => false

/-- `isinstance(v, T)` with `bool ⊑ int`, `datetime ⊑ date` -/
def isInstance (v : PyVal) (t : PyType) : Bool :=
  match v, t with
  | .int _, .int => true
  | .bool _, .int => true
  | .bool _, .bool => true
  | .float _ _, .float => true
  | .str _, .str => true
  | .dt .date _ _, .date => true
  | .dt .datetime _ _, .date => true
  | .dt .datetime _ _, .datetime => true
  | .dt .time _ _, .time => true
  | _, _ => false

/-! ### coercers -/

/-- the primitives that stay outside the model: `float(text)` and `parse_date_time(text)`;
    outer `none` = the table has no entry (driver only), inner `none` = `ValueError` -/
structure Oracles where
  parseFloat : Str → Option (Option PyVal)
  parseDt : Str → Option (Option PyVal)

def coercePython (O : Oracles) (row : TypeRow) (text : Str) : Except Exc PyVal :=
  match row.inn with
  | .int => match pyInt? text with
      | some n => .ok (.int n)
      | none => .error .valueError
  | .str => .ok (.str text)
  | .boolIn yes => .ok (.bool (yes.contains (lowerStr text)))
  | .float => match O.parseFloat text with
      | some (some v) => .ok v
      | some none => .error .valueError
      | none => .error (.unmodelled "float-oracle")
  | .dateTime => match O.parseDt text with
      | some (some v) => .ok v
      | some none => .error .valueError
      | none => .error (.unmodelled "dt-oracle")

def truthy : PyVal → Bool
  | .int n => n != 0
  | .bool b => b
  | .str s => !s.isEmpty
  | .float _ x => !(FNum.eq x (.fin 0 1))
  | .none => false
  | _ => true

def coerceUpnp (row : TypeRow) (v : PyVal) : Except Exc Str :=
  match row.out, v with
  | .str, .int n => .ok (decOfInt n)
  | .str, .bool b => .ok (if b then "True".toList else "False".toList)
  | .str, .str s => .ok s
  | .str, .float r _ => .ok r
  | .str, .none => .ok "None".toList
  | .str, _ => .error (.unmodelled "str()")
  | .strInt, .int n => .ok (decOfInt n)
  | .strInt, .bool b => .ok (if b then ['1'] else ['0'])
  | .strInt, _ => .error (.unmodelled "int()")
  | .boolOut t f, v => .ok (if truthy v then t else f)
  | .iso0, .dt _ _ iso => .ok iso
  | .isoTSec, .dt .datetime _ iso => .ok iso
  | .isoTSec, .dt _ _ _ => .error .typeError
  | .isoSec, .dt .time _ iso => .ok iso
  | .isoSec, .dt _ _ _ => .error .typeError
  | _, _ => .error (.unmodelled "isoformat")

/-! ### the validation schema -/

/-- what a state variable declares (texts as they stand in the SCPD) -/
structure VarDecl where
  row : TypeRow
  min : Option Str := none
  max : Option Str := none
  hasRange : Bool := false           -- `<allowedValueRange>` present
  allowed : Option (List Str) := none
deriving Repr

def awareOf : PyVal → Bool
  | .dt _ a _ => a
  | _ => true

/-- coerce declared texts with the `in` coercer; `none` = the factory would have raised -/
def coerceAll (O : Oracles) (row : TypeRow) : List Str → Option (List PyVal)
  | [] => some []
  | t :: r => match coercePython O row t, coerceAll O row r with
      | .ok v, some vs => some (v :: vs)
      | _, _ => Option.none

def leVal (a b : PyVal) : Bool :=
  match a.num?, b.num? with
  | some x, some y => FNum.le x y
  | _, _ => false

/-- `min_ = in_coercer(min_) if min_ else None` -/
def boundOf (O : Oracles) (row : TypeRow) : Option Str → Option (Option PyVal)
  | Option.none => some Option.none
  | some [] => some Option.none
  | some t => match coercePython O row t with
      | .ok v => some (some v)
      | .error _ => Option.none

/-- `vol.In(allowed)`; `none` = a declared allowed value the factory cannot coerce -/
def allowedOk (O : Oracles) (d : VarDecl) (v : PyVal) : Option Bool :=
  match d.allowed with
  | Option.none => some true
  | some [] => some true
  | some l => (coerceAll O d.row l).map fun vs => vs.any (pyEq v)

/-- `vol.Range(min, max)`; `none` = a bound the factory cannot coerce, or a range on a
    non-numeric value (outside the model) -/
def rangeOk (O : Oracles) (d : VarDecl) (v : PyVal) : Option Bool :=
  if !d.hasRange then some true
  else match boundOf O d.row d.min, boundOf O d.row d.max with
    | some lo, some hi =>
      if (lo.isSome || hi.isSome) && v.num?.isNone then Option.none
      else some ((match lo with | some m => leVal m v | Option.none => true)
                 && (match hi with | some m => leVal v m | Option.none => true))
    | _, _ => Option.none

/-- `vol.All(type, [require_tzinfo], [In(allowed)], [Range(min, max)])`, evaluated in order;
    `none` = outside the model -/
def schemaOk (O : Oracles) (strict : Bool) (d : VarDecl) (v : PyVal) : Option Bool :=
  if !isInstance v d.row.ty then some false
  else if d.row.needTz && !awareOf v then some false
  else if !strict then some true
  else
    match allowedOk O d v with
    | Option.none => Option.none
    | some false => some false
    | some true => rangeOk O d v

end Upnp.C06
