/-
  C06/C07 — line-protocol parsing shared by the two drivers (not part of any proof).
  Text travels as hex of UTF-8 (`-` = empty, `~` = Python `None` / absent).
-/
import Upnp.Proto
import Upnp.Spec.C06
import Upnp.Gen.C06Types
import Upnp.Model.C06Anc
namespace Upnp.C06.Wire
open Upnp Upnp.Proto Upnp.C06

def str? (t : String) : Option Str := (tokStr t).map String.toList
def optStr? (t : String) : Option (Option Str) := if t = "~" then some none else (str? t).map some
def bool? (t : String) : Option Bool := if t = "T" then some true else if t = "F" then some false else none

/-- printable one-line rendering for notes -/
def shw (s : Str) : String :=
  String.ofList (s.flatMap fun c =>
    if c.toNat < 32 || c == ' ' || c == '\\' || c.toNat == 127 then ("\\x" ++ String.ofList (Nat.toDigits 16 c.toNat)).toList else [c])

def fnum? (t : String) : Option FNum :=
  if t = "nan" then some .nan else if t = "inf" then some .pinf else if t = "-inf" then some .ninf
  else match t.splitOn "/" with
    | [a, b] => do let n ← a.toInt?; let d ← b.toNat?; pure (.fin n d)
    | _ => none

def val? (t : String) : Option PyVal :=
  match t.splitOn ":" with
  | ["i", n] => n.toInt?.map .int
  | ["b", b] => (bool? b).map .bool
  | ["s", h] => (str? h).map .str
  | ["f", h, x] => do let r ← str? h; let x ← fnum? x; pure (.float r x)
  | ["d", c, a, h] => do
      let cls ← (match c with | "D" => some DtClass.date | "DT" => some .datetime | "T" => some .time | _ => none)
      let aw ← (match a with | "A" => some true | "N" => some false | _ => none)
      let iso ← str? h
      pure (.dt cls aw iso)
  | ["n"] => some .none
  | ["o", h] => (str? h).map .other
  | _ => none

def fnumTok : FNum → String
  | .fin n d => s!"{n}/{d}"
  | .pinf => "inf" | .ninf => "-inf" | .nan => "nan"

def valTok : PyVal → String
  | .int n => s!"i:{n}"
  | .bool b => if b then "b:T" else "b:F"
  | .str s => "s:" ++ strTok (String.ofList s)
  | .float r x => "f:" ++ strTok (String.ofList r) ++ ":" ++ fnumTok x
  | .dt c a i => "d:" ++ (match c with | .date => "D" | .datetime => "DT" | .time => "T") ++ ":"
      ++ (if a then "A" else "N") ++ ":" ++ strTok (String.ofList i)
  | .none => "n"
  | .other t => "o:" ++ strTok (String.ofList t)

def rowOf (name : Str) : Option TypeRow := Gen.C06Types.table.find? (·.name == name)

/-- `arg <in|out> <name> <type> <hasRange> <min|~> <max|~> <allowed ~|@|hex,hex>` -/
def argDecl? : List String → Option ArgDecl
  | [dir, name, ty, hr, mn, mx, al] => do
      let isIn ← (if dir = "in" then some true else if dir = "out" then some false else none)
      let name ← str? name
      let row ← rowOf ty.toList
      let hr ← bool? hr
      let mn ← optStr? mn
      let mx ← optStr? mx
      let al ← (if al = "~" then some none else if al = "@" then some (some [])
                else (al.splitOn ",").mapM str? |>.map some)
      pure { name := name, isIn := isIn, var := { row := row, min := mn, max := mx, hasRange := hr, allowed := al } }
  | _ => none

/-- exception info: `exc <cls> <mro,...>` or `exc ~` -/
def excInfo? : List String → Option (Option ExcInfo)
  | ["~"] => some none
  | [cls] => some (some { cls := cls, mro := [] })
  | [cls, mro] => some (some { cls := cls, mro := if mro = "~" then [] else mro.splitOn "," })
  | _ => none

/-- the observable form of an exception the model raises: `C06.excInfo` (the definition the
    theorems use) with the generated hierarchy -/
def modelExc (e : Exc) : ExcInfo := excInfo genAnc e

def excShow : Option ExcInfo → String
  | none => "~"
  | some e => e.cls ++ "[" ++ ",".intercalate e.mro ++ "]"

/-! tree lines: `el <depth> <tag> <text|~>` in document order -/

structure ElLine where
  depth : Nat
  tag : Str
  text : Option Str

def elLine? : List String → Option ElLine
  | [d, tag, text] => do
      let d ← d.toNat?; let tag ← str? tag; let text ← optStr? text
      pure { depth := d, tag := tag, text := text }
  | _ => none

/-- children at `depth` from the front of `ls`; returns the forest and the unread lines -/
partial def buildForest (depth : Nat) (ls : List ElLine) : List Xml × List ElLine :=
  match ls with
  | [] => ([], [])
  | l :: rest =>
    if l.depth < depth then ([], ls)
    else
      let (kids, rest1) := buildForest (depth + 1) rest
      let (sibs, rest2) := buildForest depth rest1
      (Xml.node l.tag l.text kids :: sibs, rest2)

def buildTree (ls : List ElLine) : Option Xml :=
  match buildForest 0 ls with
  | ([t], []) => some t
  | _ => none

mutual
partial def xmlEq : Xml → Xml → Bool
  | .node t x c, .node t' x' c' => t == t' && x == x' && xmlListEq c c'
partial def xmlListEq : List Xml → List Xml → Bool
  | [], [] => true
  | a :: r, b :: s => xmlEq a b && xmlListEq r s
  | _, _ => false
end

partial def xmlShow : Xml → String
  | .node t x c => "<" ++ shw t ++ (match x with | some s => " '" ++ shw s ++ "'" | none => "") ++
      (if c.isEmpty then "" else " " ++ " ".intercalate (c.map xmlShow)) ++ ">"

/-- oracle tables from `pf` / `pd` lines -/
structure OTab where
  pf : List (Str × Option PyVal) := []
  pd : List (Str × Option PyVal) := []

def OTab.oracles (t : OTab) : Oracles :=
  { parseFloat := fun s => t.pf.lookup s, parseDt := fun s => t.pd.lookup s }

def oracleLine? : List String → Option (Str × Option PyVal)
  | [text, r] => do
      let text ← str? text
      if r = "!" then pure (text, none) else do let v ← val? r; pure (text, some v)
  | _ => none

end Upnp.C06.Wire
