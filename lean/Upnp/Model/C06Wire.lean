/-
  C06/C07 — line-protocol parsing shared by the two drivers (not part of any proof).
  Text travels as hex of UTF-8 (`-` = empty, `~` = Python `None` / absent).
-/
import Upnp.Proto
import Upnp.Spec.C06
import Upnp.Gen.C06Types
import Upnp.Model.C06Anc
namespace Upnp.C06.Wire
open Upnp Upnp.Proto Upnp.C06

def str? (t : String) : Option Str := (tokStr t).map String.toList
def optStr? (t : String) : Option (Option Str) := if t = "~" then some none else (str? t).map some
def bool? (t : String) : Option Bool := if t = "T" then some true else if t = "F" then some false else none

/-- printable one-line rendering for notes -/
def shw (s : Str) : String :=
  String.ofList (s.flatMap fun c =>
    if c.toNat < 32 || c == ' ' || c == '\\' || c.toNat == 127 then ("\\x" ++ String.ofList (Nat.toDigits 16 c.toNat)).toList else [c])

def fl? (t : String) : Option Fl :=
  if t = "nan" then some .nan else if t = "inf" then some (.inf false) else if t = "-inf" then some (.inf true)
  else
    let (neg, r) := if t.startsWith "-" then (true, (t.drop 1).toString) else (false, t)
    match r.splitOn "/" with
    | [a, b] => do let n ← a.toNat?; let d ← b.toNat?; pure (.fin neg n d)
    | _ => none

def nats? (s : String) : Option (List Nat) := (s.splitOn ".").mapM (·.toNat?)
def off? (t : String) : Option (Option Int) := if t = "~" then some none else t.toInt?.map some

/-- value tokens: `i:<int>` `b:T|F` `s:<hex>` `n` (None / an object of no modelled class),
    `f:<hex repr>:<ratio>`, `D:y.m.d`, `DT:y.m.d.h.mi.s:<offset minutes|~>`, `T:h.mi.s:<offset|~>` -/
def val? (t : String) : Option PyVal :=
  match t.splitOn ":" with
  | ["i", n] => n.toInt?.map .int
  | ["b", b] => (bool? b).map .bool
  | ["s", h] => (str? h).map .str
  | ["f", _, x] => (fl? x).map .float
  | ["D", d] => match nats? d with
      | some [y, m, dd] => some (.date ⟨y, m, dd⟩)
      | _ => none
  | ["DT", d, o] => match nats? d, off? o with
      | some [y, m, dd, h, mi, sec], some off => some (.datetime ⟨y, m, dd⟩ ⟨h, mi, sec⟩ off)
      | _, _ => none
  | ["T", d, o] => match nats? d, off? o with
      | some [h, mi, sec], some off => some (.time ⟨h, mi, sec⟩ off)
      | _, _ => none
  | ["n"] => some .none
  | _ => none

/-- the `repr` a float token carries: `(value, repr text)` -/
def floatRepr? (t : String) : Option (Fl × Str) :=
  match t.splitOn ":" with
  | ["f", h, x] => do let r ← str? h; let v ← fl? x; pure (v, r)
  | _ => none

def flTok : Fl → String
  | .fin n a b => s!"{if n then "-" else ""}{a}/{b}"
  | .inf n => if n then "-inf" else "inf"
  | .nan => "nan"

def offTok : Option Int → String
  | none => "~"
  | some o => toString o

def valTok : PyVal → String
  | .int n => s!"i:{n}"
  | .bool b => if b then "b:T" else "b:F"
  | .str s => "s:" ++ strTok (String.ofList s)
  | .float x => "f:" ++ flTok x
  | .date d => s!"D:{d.y}.{d.m}.{d.d}"
  | .datetime d t o => s!"DT:{d.y}.{d.m}.{d.d}.{t.h}.{t.mi}.{t.s}:{offTok o}"
  | .time t o => s!"T:{t.h}.{t.mi}.{t.s}:{offTok o}"
  | .none => "n"

def rowOf (name : Str) : Option TypeRow := table.row? name

/-- `arg <in|out> <name> <type> <hasRange> <min|~> <max|~> <allowed ~|@|hex,hex>` -/
def argDecl? : List String → Option ArgDecl
  | [dir, name, ty, hr, mn, mx, al] => do
      let isIn ← (if dir = "in" then some true else if dir = "out" then some false else none)
      let name ← str? name
      let row ← rowOf ty.toList
      let hr ← bool? hr
      let mn ← optStr? mn
      let mx ← optStr? mx
      let al ← (if al = "~" then some none else if al = "@" then some (some [])
                else (al.splitOn ",").mapM str? |>.map some)
      pure { name := name, isIn := isIn,
             var := { row := row, decl := { range := if hr then some (mn, mx) else none, allowed := al } } }
  | _ => none

/-- exception info: `exc <cls> <mro,...>` or `exc ~` -/
def excInfo? : List String → Option (Option ExcInfo)
  | ["~"] => some none
  | [cls] => some (some { cls := cls, mro := [] })
  | [cls, mro] => some (some { cls := cls, mro := if mro = "~" then [] else mro.splitOn "," })
  | _ => none

/-- the observable form of an exception the model raises: `C06.excInfo` (the definition the
    theorems use) with the generated hierarchy -/
def modelExc (e : Exc) : ExcInfo := excInfo genAnc e

def excShow : Option ExcInfo → String
  | none => "~"
  | some e => e.cls ++ "[" ++ ",".intercalate e.mro ++ "]"

/-! tree lines: `el <depth> <tag> <text|~>` in document order -/

structure ElLine where
  depth : Nat
  tag : Str
  text : Option Str

def elLine? : List String → Option ElLine
  | [d, tag, text] => do
      let d ← d.toNat?; let tag ← str? tag; let text ← optStr? text
      pure { depth := d, tag := tag, text := text }
  | _ => none

/-- children at `depth` from the front of `ls`; returns the forest and the unread lines -/
partial def buildForest (depth : Nat) (ls : List ElLine) : List Xml × List ElLine :=
  match ls with
  | [] => ([], [])
  | l :: rest =>
    if l.depth < depth then ([], ls)
    else
      let (kids, rest1) := buildForest (depth + 1) rest
      let (sibs, rest2) := buildForest depth rest1
      (Xml.node l.tag l.text kids :: sibs, rest2)

def buildTree (ls : List ElLine) : Option Xml :=
  match buildForest 0 ls with
  | ([t], []) => some t
  | _ => none

mutual
partial def xmlEq : Xml → Xml → Bool
  | .node t x c, .node t' x' c' => t == t' && x == x' && xmlListEq c c'
partial def xmlListEq : List Xml → List Xml → Bool
  | [], [] => true
  | a :: r, b :: s => xmlEq a b && xmlListEq r s
  | _, _ => false
end

partial def xmlShow : Xml → String
  | .node t x c => "<" ++ shw t ++ (match x with | some s => " '" ++ shw s ++ "'" | none => "") ++
      (if c.isEmpty then "" else " " ++ " ".intercalate (c.map xmlShow)) ++ ">"

/-- the float table of a case: what Python's `repr` gives for every float in play (from the value
    tokens) and what `float(text)` gives for every text in play (`pf` lines) -/
structure OTab where
  reprs : List (Fl × Str) := []
  parses : List (Str × Option Fl) := []

def OTab.oracles (t : OTab) : Oracles where
  repr x := match t.reprs.find? (·.1 == x) with
    | some p => p.2
    | none => "?undeclared-float".toList
  parse s := match t.parses.find? (·.1 == s) with
    | some p => p.2
    | none => none
  le := Fl.le
  eq := Fl.eq

def OTab.addRepr (t : OTab) (tok : String) : OTab :=
  match floatRepr? tok with
  | some p => { t with reprs := t.reprs ++ [p] }
  | none => t

/-- `pf <text> <float token|!>`: `float(text)` -/
def OTab.addParse? (t : OTab) : List String → Option OTab
  | [text, r] => do
      let text ← str? text
      if r = "!" then pure { t with parses := t.parses ++ [(text, none)] }
      else do
        let p ← floatRepr? r
        pure { t with parses := t.parses ++ [(text, some p.1)], reprs := t.reprs ++ [p] }
  | _ => none

end Upnp.C06.Wire
