/-
  C06/C07 — XML at tree level (DESIGN §4.6) plus the two text-level functions the SOAP client
  itself owns: `escape` (what `xml.sax.saxutils.escape(data, entities)` does) and `xmlDecodeText`
  (what a conforming XML 1.0 parser returns for character data: end-of-line normalisation, then
  entity / character references).  Import-free.
-/
import Upnp.Model.C06Val
namespace Upnp.C06

/-- an element as `xml.etree` presents it: Clark-notation tag, text, child elements -/
inductive Xml
  | node (tag : Str) (text : Option Str) (children : List Xml)
deriving Repr

namespace Xml
def tag : Xml → Str | node t _ _ => t
def text : Xml → Option Str | node _ t _ => t
def children : Xml → List Xml | node _ _ c => c

mutual
/-- proper descendants in document order (`.//*` from the element) -/
def descendants : Xml → List Xml
  | node _ _ cs => descList cs
def descList : List Xml → List Xml
  | [] => []
  | c :: r => c :: (descendants c ++ descList r)
end

/-- ElementTree truthiness of an element (`if not el`): it has children -/
def truthy (x : Xml) : Bool := !x.children.isEmpty

/-- `el.find(".//{tag}")` -/
def findDesc (x : Xml) (t : Str) : Option Xml := x.descendants.find? (·.tag == t)

/-- local name of a Clark tag (`{ns}local` → `local`) -/
def localOf (t : Str) : Str :=
  match t with
  | '{' :: r => (r.dropWhile (· != '}')).drop 1
  | _ => t

/-- `el.find(".//{*}local")` -/
def findDescLocal (x : Xml) (l : Str) : Option Xml := x.descendants.find? (fun e => localOf e.tag == l)

/-- `el.findtext(".//{tag}")`: text of the first match, `""` when it has none -/
def findTextDesc (x : Xml) (t : Str) : Option Str := (x.findDesc t).map fun e => e.text.getD []

/-- `el.find(".//{a}/{b}")`: first `b` child of any descendant `a`, in document order -/
def findDescChild (x : Xml) (a b : Str) : Option Xml :=
  ((x.descendants.filter (·.tag == a)).flatMap fun e => e.children.filter (·.tag == b)).head?

def clark (ns loc : Str) : Str := '{' :: ns ++ '}' :: loc
end Xml

/-! ### escape / decode of character data -/

/-- `xml.sax.saxutils.escape(data, entities)` for single-character keys in `entities`:
    `&`, `>`, `<` first, then the extra table (whose values contain no key) -/
def escapeChar (extra : List (Char × Str)) (c : Char) : Str :=
  if c = '&' then "&amp;".toList
  else if c = '<' then "&lt;".toList
  else if c = '>' then "&gt;".toList
  else match extra.lookup c with
    | some r => r
    | none => [c]

def escape (extra : List (Char × Str)) (s : Str) : Str := s.flatMap (escapeChar extra)

/-- character data → text, as an XML 1.0 parser reports it.  `none` = not well-formed
    (`<`, a bare `&`, an unknown reference).  Only the references the client can emit plus the
    predefined ones are known. -/
def xmlDecodeText : Str → Option Str
  | [] => some []
  | '&' :: 'a' :: 'm' :: 'p' :: ';' :: r => (xmlDecodeText r).map ('&' :: ·)
  | '&' :: 'l' :: 't' :: ';' :: r => (xmlDecodeText r).map ('<' :: ·)
  | '&' :: 'g' :: 't' :: ';' :: r => (xmlDecodeText r).map ('>' :: ·)
  | '&' :: 'q' :: 'u' :: 'o' :: 't' :: ';' :: r => (xmlDecodeText r).map ('"' :: ·)
  | '&' :: 'a' :: 'p' :: 'o' :: 's' :: ';' :: r => (xmlDecodeText r).map ('\'' :: ·)
  | '&' :: '#' :: '1' :: '3' :: ';' :: r => (xmlDecodeText r).map ('\r' :: ·)
  | '&' :: '#' :: '1' :: '0' :: ';' :: r => (xmlDecodeText r).map ('\n' :: ·)
  | '&' :: '#' :: '9' :: ';' :: r => (xmlDecodeText r).map ('\t' :: ·)
  | '&' :: _ => none
  | '<' :: _ => none
  | '\r' :: '\n' :: r => (xmlDecodeText r).map ('\n' :: ·)
  | '\r' :: r => (xmlDecodeText r).map ('\n' :: ·)
  | c :: r => (xmlDecodeText r).map (c :: ·)

/-! ### attribute values -/

/-- the entities `xml.sax.saxutils.quoteattr` adds: literal TAB / LF / CR in an attribute value
    would be normalised to spaces by the receiving parser -/
def attrTable : List (Char × Str) :=
  [('\n', "&#10;".toList), ('\r', "&#13;".toList), ('\t', "&#9;".toList)]

/-- `data.replace('"', "&quot;")` -/
def replaceQuot (d : Str) : Str := d.flatMap fun c => if c = '"' then "&quot;".toList else [c]

/-- `xml.sax.saxutils.quoteattr(data)`: escaped value in double quotes, or in single quotes when it
    contains a double quote but no single quote, or with `&quot;` when it contains both -/
def quoteattr (s : Str) : Str :=
  let d := escape attrTable s
  if d.contains '"' then
    if d.contains '\'' then '"' :: replaceQuot d ++ ['"']
    else '\'' :: d ++ ['\'']
  else '"' :: d ++ ['"']

/-- attribute value → text, as an XML 1.0 parser reports it: references expanded, literal
    white space (TAB, LF, CR, CR LF) normalised to a space.  `none` = not well-formed. -/
def xmlDecodeAttr : Str → Option Str
  | [] => some []
  | '&' :: 'a' :: 'm' :: 'p' :: ';' :: r => (xmlDecodeAttr r).map ('&' :: ·)
  | '&' :: 'l' :: 't' :: ';' :: r => (xmlDecodeAttr r).map ('<' :: ·)
  | '&' :: 'g' :: 't' :: ';' :: r => (xmlDecodeAttr r).map ('>' :: ·)
  | '&' :: 'q' :: 'u' :: 'o' :: 't' :: ';' :: r => (xmlDecodeAttr r).map ('"' :: ·)
  | '&' :: 'a' :: 'p' :: 'o' :: 's' :: ';' :: r => (xmlDecodeAttr r).map ('\'' :: ·)
  | '&' :: '#' :: '1' :: '3' :: ';' :: r => (xmlDecodeAttr r).map ('\r' :: ·)
  | '&' :: '#' :: '1' :: '0' :: ';' :: r => (xmlDecodeAttr r).map ('\n' :: ·)
  | '&' :: '#' :: '9' :: ';' :: r => (xmlDecodeAttr r).map ('\t' :: ·)
  | '&' :: _ => none
  | '<' :: _ => none
  | '\r' :: '\n' :: r => (xmlDecodeAttr r).map (' ' :: ·)
  | '\r' :: r => (xmlDecodeAttr r).map (' ' :: ·)
  | '\n' :: r => (xmlDecodeAttr r).map (' ' :: ·)
  | '\t' :: r => (xmlDecodeAttr r).map (' ' :: ·)
  | c :: r => (xmlDecodeAttr r).map (c :: ·)

end Upnp.C06
