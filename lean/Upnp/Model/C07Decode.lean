/-
  C07 — model of the response half of `UpnpAction.async_call`: status dispatch, `_parse_fault`,
  `parse_response`, `_parse_response_args` (client.py).  XML text → tree is an oracle `X`
  (DESIGN §4.6): `X text = some none` means the parser raised `ParseError`, the outer `none`
  that the driver's table has no entry.  Import-free.
-/
import Upnp.Model.C06Soap
namespace Upnp.C07
open Upnp.C06

abbrev XmlOracle := Str → Option (Option Xml)

def ctlNs : Str := "urn:schemas-upnp-org:control-1-0".toList
def bodyTag : Str := Xml.clark soapEnvNs "Body".toList
def faultTag : Str := Xml.clark soapEnvNs "Fault".toList
def errorCodeTag : Str := Xml.clark ctlNs "errorCode".toList
def errorDescTag : Str := Xml.clark ctlNs "errorDescription".toList

/-- the characters of `" \t\r\n\0"` -/
def isPad (c : Char) : Bool := c == ' ' || c == '\t' || c == '\r' || c == '\n' || c == Char.ofNat 0

def rstripPad (s : Str) : Str := (s.reverse.dropWhile isPad).reverse
def stripPad (s : Str) : Str := rstripPad (s.dropWhile isPad)

/-- exceptions of the decoding path -/
inductive DExc
  | noBody                                   -- UpnpError("Did not receive a body …")
  | invalidResponse                          -- UpnpError("Invalid response: …")
  | unknownArg                               -- UpnpError("Invalid response, unknown argument …")
  | actionError (code : Option Int) (desc : Option Str)
  | actionResponseError (code : Option Int) (desc : Option Str) (status : Int)
  | responseError (status : Int)
  | xmlParseError
  | valueError                               -- raw ValueError from int()/float()/parse_date_time
  | raw (e : Upnp.C08.Err)                   -- any other exception out of a coercer (none exists: `conversion_total`)
  | unmodelled (why : String)
deriving Repr, DecidableEq

inductive Outcome
  | ret (args : List (Str × PyVal))
  | exc (e : DExc)
deriving Repr, DecidableEq

/-- all `Fault` children of `Body` descendants, in document order
    (`xml.find(".//soap_envelope:Body/soap_envelope:Fault")` is the head) -/
def faults (x : Xml) : List Xml :=
  (x.descendants.filter (·.tag == bodyTag)).flatMap fun b => b.children.filter (·.tag == faultTag)

/-- `int(error_code_str) if error_code_str else None`; the outer `none` = `int()` raised `ValueError` -/
def faultCode : Option Str → Option (Option Int)
  | none => some none
  | some [] => some none
  | some s => (Upnp.C08.pyInt? s).map some

/-- `_parse_fault`: `none` = returns normally -/
def parseFault (x : Xml) (status : Option Int) : Option DExc :=
  match (faults x).head? with
  | none => none
  | some f =>
    if !f.truthy then none            -- `if not fault` is false for a childless element
    else
      let desc := f.findTextDesc errorDescTag
      match faultCode (f.findTextDesc errorCodeTag) with
      | none => some .valueError
      | some c =>
        match status with
        | some st => some (.actionResponseError c desc st)
        | none => some (.actionError c desc)

/-- `dict.__setitem__` -/
def dictSet (d : List (Str × PyVal)) (k : Str) (v : PyVal) : List (Str × PyVal) :=
  match d with
  | [] => [(k, v)]
  | (k', v') :: r => if k' = k then (k', v) :: r else (k', v') :: dictSet r k v

/-- `self.argument(name, "out")` -/
def outArg? (a : ActionDecl) (name : Str) : Option ArgDecl :=
  a.args.find? fun d => d.name == name && !d.isIn

/-- the loop over `response.findall("./")` -/
def readOutArgs (O : Oracles) (a : ActionDecl) : List Xml → List (Str × PyVal) → Except DExc (List (Str × PyVal))
  | [], acc => .ok acc
  | c :: r, acc =>
    match outArg? a c.tag with
    | none => if a.strict then .error .unknownArg else readOutArgs O a r acc
    | some d =>
      match coercePython O d.var.row (c.text.getD []) with
      | .ok v => readOutArgs O a r (dictSet acc c.tag v)
      | .error .valueError => .error .valueError
      | .error e => .error (.raw e)

def responseTag (a : ActionDecl) : Str := Xml.clark a.serviceType (a.name ++ "Response".toList)

/-- the response element `_parse_response_args` works on -/
def findResponse (a : ActionDecl) (x : Xml) : Option Xml :=
  match x.findDesc (responseTag a) with
  | some r => some r
  | none => if !a.strict then x.findDescLocal (a.name ++ "Response".toList) else none

def parseResponseArgs (O : Oracles) (a : ActionDecl) (x : Xml) : Outcome :=
  match findResponse a x with
  | none => .exc .invalidResponse
  | some r =>
    match readOutArgs O a r.children [] with
    | .ok args => .ret args
    | .error e => .exc e

/-- what `async_call` does with the requester's answer -/
def decode (O : Oracles) (X : XmlOracle) (a : ActionDecl) (status : Int) (body : Option Str) : Outcome :=
  match body with
  | none => .exc .noBody
  | some text =>
    if status != 200 then
      match X (stripPad text) with
      | none => .exc (.unmodelled "xml-oracle")
      | some none => .exc (.responseError status)
      | some (some x) =>
        match parseFault x (some status) with
        | some e => .exc e
        | none => .exc (.responseError status)
    else
      match X (rstripPad text) with
      | none => .exc (.unmodelled "xml-oracle")
      | some none => .exc .xmlParseError
      | some (some x) =>
        match parseFault x none with
        | some e => .exc e
        | none => parseResponseArgs O a x

def DExc.cls : DExc → String
  | .noBody | .invalidResponse | .unknownArg => "UpnpError"
  | .actionError _ _ => "UpnpActionError"
  | .actionResponseError _ _ _ => "UpnpActionResponseError"
  | .responseError _ => "UpnpResponseError"
  | .xmlParseError => "UpnpXmlParseError"
  | .valueError => "RAW:ValueError"
  | .raw e => errTok e
  | .unmodelled w => "UNMODELLED:" ++ w

end Upnp.C07
