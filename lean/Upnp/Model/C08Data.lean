/-
  C08 — Python values, wire encoders and parsers used by the UPnP data-type table.
  Text is `List Char`; numbers are `Nat`/`Int`; floats are an abstract type `F` with the
  operations Python provides (`FloatOps`).  Dates are proleptic Gregorian, times have whole
  seconds, UTC offsets are whole minutes (the domain the property quantifies over).
  Import-free: linked into the driver.
-/
namespace Upnp.C08

abbrev Str := List Char

/-- exceptions that can leave the coercers (class level) -/
inductive Err
  | valueError | typeError | indexError | attributeError | unmodelled
  | other   -- any other class (seen on the implementation side only)
deriving DecidableEq, Repr

/-! ### digits -/

def dc (n : Nat) : Char := Char.ofNat (48 + n)
def isDig (c : Char) : Bool := 48 ≤ c.toNat && c.toNat ≤ 57
def dv (c : Char) : Nat := c.toNat - 48

def pad2 (n : Nat) : Str := [dc (n / 10 % 10), dc (n % 10)]
def pad4 (n : Nat) : Str := [dc (n / 1000 % 10), dc (n / 100 % 10), dc (n / 10 % 10), dc (n % 10)]

/-! ### integers: `str(int)` and `int(str)` -/

/-- decimal digits of `n`, least significant first (`fuel` > number of digits) -/
def digitsRev : Nat → Nat → List Nat
  | 0, _ => []
  | f + 1, n => if n < 10 then [n] else (n % 10) :: digitsRev f (n / 10)

def natDigits (n : Nat) : List Nat := (digitsRev (n + 1) n).reverse
def decNat (n : Nat) : Str := (natDigits n).map dc

/-- CPython's limit on int <-> str conversion (`sys.get_int_max_str_digits()` default) -/
def maxStrDigits : Nat := 4300

def decInt (i : Int) : Str := if i < 0 then '-' :: decNat i.natAbs else decNat i.natAbs

/-- `str(i)`: raises ValueError beyond the digit limit -/
def intStr (i : Int) : Except Err Str :=
  if (natDigits i.natAbs).length > maxStrDigits then .error .valueError else .ok (decInt i)

/-- whitespace `int()` skips around an ASCII numeral (C `isspace`: space, \t \n \v \f \r;
    0x1c..0x1f are NOT skipped although `str.isspace` accepts them) -/
def isPySpace (c : Char) : Bool :=
  c == ' ' || (9 ≤ c.toNat && c.toNat ≤ 13)

def stripL : Str → Str
  | [] => []
  | c :: s => if isPySpace c then stripL s else c :: s

def strip (s : Str) : Str := (stripL (stripL s).reverse).reverse

/-- digits with single underscores between digits; `prev` = previous char was a digit -/
def parseDigits : Str → Nat → Bool → Option Nat
  | [], acc, prev => if prev then some acc else none
  | c :: s, acc, prev =>
      if isDig c then parseDigits s (acc * 10 + dv c) true
      else if c == '_' && prev then
        match s with
        | d :: _ => if isDig d then parseDigits s acc false else none
        | [] => none
      else none

def countDigits (s : Str) : Nat := (s.filter isDig).length

def parseNat (s : Str) : Option Nat :=
  if countDigits s > maxStrDigits then none else parseDigits s 0 false

/-- Python `int(s)` for ASCII `s` (base 10): `none` = ValueError -/
def pyInt? (s : Str) : Option Int :=
  match strip s with
  | [] => none
  | c :: r =>
      if c == '-' then (parseNat r).map fun n => -(Int.ofNat n)
      else if c == '+' then (parseNat r).map Int.ofNat
      else (parseNat (c :: r)).map Int.ofNat

/-! ### dates and times -/

structure Date where
  y : Nat
  m : Nat
  d : Nat
deriving DecidableEq, Repr

structure Time where
  h : Nat
  mi : Nat
  s : Nat
deriving DecidableEq, Repr

def isLeap (y : Nat) : Bool := y % 4 == 0 && (y % 100 != 0 || y % 400 == 0)

def dim (y m : Nat) : Nat :=
  if m == 2 then (if isLeap y then 29 else 28)
  else if m == 4 || m == 6 || m == 9 || m == 11 then 30 else 31

def Date.valid (d : Date) : Bool :=
  1 ≤ d.y && d.y ≤ 9999 && 1 ≤ d.m && d.m ≤ 12 && 1 ≤ d.d && d.d ≤ dim d.y d.m

def Time.valid (t : Time) : Bool := t.h < 24 && t.mi < 60 && t.s < 60

/-- UTC offset in minutes, strictly between -24 h and +24 h -/
def offValid (o : Int) : Bool := -1440 < o && o < 1440

def daysBeforeYear (y : Nat) : Nat := let z := y - 1; z * 365 + z / 4 - z / 100 + z / 400
def daysBeforeMonth (y m : Nat) : Nat := ((List.range (m - 1)).map fun k => dim y (k + 1)).foldl (· + ·) 0
def Date.ordinal (d : Date) : Nat := daysBeforeYear d.y + daysBeforeMonth d.y d.m + d.d

def isoDate (d : Date) : Str := pad4 d.y ++ '-' :: pad2 d.m ++ '-' :: pad2 d.d

/-- `timespec` argument of `isoformat` -/
inductive TimeSpec | auto | hours | minutes | seconds | milliseconds | microseconds
deriving DecidableEq, Repr

def isoTime (ts : TimeSpec) (t : Time) : Str :=
  match ts with
  | .hours => pad2 t.h
  | .minutes => pad2 t.h ++ ':' :: pad2 t.mi
  | .auto | .seconds => pad2 t.h ++ ':' :: pad2 t.mi ++ ':' :: pad2 t.s
  | .milliseconds => pad2 t.h ++ ':' :: pad2 t.mi ++ ':' :: pad2 t.s ++ ['.', '0', '0', '0']
  | .microseconds => pad2 t.h ++ ':' :: pad2 t.mi ++ ':' :: pad2 t.s ++ ['.', '0', '0', '0', '0', '0', '0']

def isoOff : Option Int → Str
  | none => []
  | some o => (if o < 0 then '-' else '+') :: pad2 (o.natAbs / 60) ++ ':' :: pad2 (o.natAbs % 60)

/-! ### Python values -/

/-- what Python gives us for floats: `str`, `float(str)`, ordering and equality -/
structure FloatOps (F : Type) where
  repr : F → Str
  parse : Str → Option F
  le : F → F → Bool
  eq : F → F → Bool

inductive Val (F : Type)
  | none
  | int (i : Int)
  | bool (b : Bool)
  | float (f : F)
  | str (s : Str)
  | date (d : Date)
  | datetime (d : Date) (t : Time) (off : Option Int)
  | time (t : Time) (off : Option Int)
deriving Repr, DecidableEq

/-- Python classes of the type table -/
inductive PyType | int | float | str | bool | date | datetime | time
deriving DecidableEq, Repr

namespace Val
variable {F : Type}

/-- `isinstance(v, ty)` (bool ⊑ int, datetime ⊑ date) -/
def isInstance (ty : PyType) : Val F → Bool
  | .int _ => ty == .int
  | .bool _ => ty == .bool || ty == .int
  | .float _ => ty == .float
  | .str _ => ty == .str
  | .date _ => ty == .date
  | .datetime _ _ _ => ty == .datetime || ty == .date
  | .time _ _ => ty == .time
  | .none => false

/-- `type(v) is ty` -/
def exactType (ty : PyType) : Val F → Bool
  | .int _ => ty == .int
  | .bool _ => ty == .bool
  | .float _ => ty == .float
  | .str _ => ty == .str
  | .date _ => ty == .date
  | .datetime _ _ _ => ty == .datetime
  | .time _ _ => ty == .time
  | .none => false

/-- `v.tzinfo is not None` (`none` = the object has no such attribute) -/
def hasTz : Val F → Option Bool
  | .datetime _ _ o => some o.isSome
  | .time _ o => some o.isSome
  | _ => Option.none

/-- the value is inside the domain of the property: valid calendar date / clock time / offset -/
def wellFormed : Val F → Bool
  | .date d => d.valid
  | .datetime d t o => d.valid && t.valid && (match o with | some x => offValid x | Option.none => true)
  | .time t o => t.valid && (match o with | some x => offValid x | Option.none => true)
  | _ => true

end Val

def intOfVal {F : Type} : Val F → Option Int
  | .int i => some i
  | .bool b => some (if b then 1 else 0)
  | _ => none

/-- seconds since 0001-01-01T00:00:00 UTC of an aware datetime / local seconds of a naive one -/
def dtSeconds (d : Date) (t : Time) (off : Int) : Int :=
  ((Int.ofNat d.ordinal * 24 + t.h) * 60 + t.mi - off) * 60 + t.s

/-- aware `time` comparison key: Python compares `h*60 + mi - offset` (no wrap-around), then seconds -/
def timeKey (t : Time) (off : Int) : Int × Nat := (Int.ofNat (t.h * 60 + t.mi) - off, t.s)

/-- lexicographic `≤` on triples / pairs -/
def le3 (a b c a' b' c' : Nat) : Bool :=
  a < a' || (a == a' && (b < b' || (b == b' && c ≤ c')))
def leKey (k k' : Int × Nat) : Bool := k.1 < k'.1 || (k.1 == k'.1 && k.2 ≤ k'.2)

def lexLe : Str → Str → Bool
  | [], _ => true
  | _ :: _, [] => false
  | a :: r, b :: s => if a.toNat < b.toNat then true else if a.toNat > b.toNat then false else lexLe r s

/-- Python `a == b` (never raises on these types) -/
def pyEq {F : Type} (fo : FloatOps F) : Val F → Val F → Bool
  | .none, .none => true
  | .float a, .float b => fo.eq a b
  | .str a, .str b => a == b
  | .date a, .date b => a == b
  | .datetime d t none, .datetime d' t' none => d == d' && t == t'
  | .datetime d t (some o), .datetime d' t' (some o') => dtSeconds d t o == dtSeconds d' t' o'
  | .time t none, .time t' none => t == t'
  | .time t (some o), .time t' (some o') =>
      if o == o' then t == t' else timeKey t o == timeKey t' o'
  | a, b => match intOfVal a, intOfVal b with
      | some x, some y => x == y
      | _, _ => false

/-- Python `a <= b`; `none` = TypeError (or a pair outside the model: int/float mixes) -/
def pyLe {F : Type} (fo : FloatOps F) : Val F → Val F → Option Bool
  | .float a, .float b => some (fo.le a b)
  | .str a, .str b => some (lexLe a b)
  | .date a, .date b => some (le3 a.y a.m a.d b.y b.m b.d)
  | .datetime d t none, .datetime d' t' none => some (dtSeconds d t 0 ≤ dtSeconds d' t' 0)
  | .datetime d t (some o), .datetime d' t' (some o') => some (dtSeconds d t o ≤ dtSeconds d' t' o')
  | .time t none, .time t' none => some (le3 t.h t.mi t.s t'.h t'.mi t'.s)
  | .time t (some o), .time t' (some o') =>
      if o == o' then some (le3 t.h t.mi t.s t'.h t'.mi t'.s)
      else some (leKey (timeKey t o) (timeKey t' o'))
  | a, b => match intOfVal a, intOfVal b with
      | some x, some y => some (x ≤ y)
      | _, _ => none

/-! ### `parse_date_time`: tz fix-up, regex table, `strptime` -/

/-- the regular-expression shapes used by `_UNCOMPILED_MATCHERS` -/
inductive ReTok
  | digits (n : Nat)   -- `\d{n}`
  | lit (c : Char)
  | sign               -- `[+-]`
  | eos                -- `$`
deriving DecidableEq, Repr

/-- `strptime` format items -/
inductive FmtTok | Y | m | d | H | M | S | z | lit (c : Char)
deriving DecidableEq, Repr

/-- what the lambda does with the `datetime` returned by `strptime` -/
inductive Post | date | time | keep | timetz | replaceUTC
deriving DecidableEq, Repr

structure Matcher where
  re : List ReTok
  fmt : List FmtTok
  post : Post
deriving DecidableEq, Repr

def takeDigits : Nat → Str → Option Str
  | 0, s => some s
  | _ + 1, [] => none
  | n + 1, c :: s => if isDig c then takeDigits n s else none

/-- `pattern.match(s)` (anchored at the start; `$` also matches before a final newline) -/
def matchRe : List ReTok → Str → Bool
  | [], _ => true
  | .digits n :: r, s => match takeDigits n s with
      | some s' => matchRe r s'
      | none => false
  | .lit _ :: _, [] => false
  | .lit c :: r, c' :: s => c == c' && matchRe r s
  | .sign :: _, [] => false
  | .sign :: r, c :: s => (c == '+' || c == '-') && matchRe r s
  | .eos :: r, s => (s == [] || s == ['\n']) && matchRe r s

structure Fields where
  y : Nat := 1900
  m : Nat := 1
  d : Nat := 1
  h : Nat := 0
  mi : Nat := 0
  s : Nat := 0
  off : Option Int := none
deriving DecidableEq, Repr

def num2 : Str → Option (Nat × Str)
  | a :: b :: s => if isDig a && isDig b then some (dv a * 10 + dv b, s) else none
  | _ => none

def num4 : Str → Option (Nat × Str)
  | a :: b :: c :: d :: s =>
      if isDig a && isDig b && isDig c && isDig d then
        some (dv a * 1000 + dv b * 100 + dv c * 10 + dv d, s) else none
  | _ => none

def asciiLower (c : Char) : Char := if 65 ≤ c.toNat && c.toNat ≤ 90 then Char.ofNat (c.toNat + 32) else c

/-- `strptime` on input whose numeric fields have their full width (guaranteed by the regex
    table); `none` = ValueError (no match, field out of range, unconverted data) -/
def strp : List FmtTok → Str → Fields → Option Fields
  | [], [], f => some f
  | [], _ :: _, _ => none
  | .Y :: r, s, f => match num4 s with
      | some (n, s') => if 1 ≤ n then strp r s' { f with y := n } else none
      | none => none
  | .m :: r, s, f => match num2 s with
      | some (n, s') => if 1 ≤ n && n ≤ 12 then strp r s' { f with m := n } else none
      | none => none
  | .d :: r, s, f => match num2 s with
      | some (n, s') => if 1 ≤ n && n ≤ 31 then strp r s' { f with d := n } else none
      | none => none
  | .H :: r, s, f => match num2 s with
      | some (n, s') => if n < 24 then strp r s' { f with h := n } else none
      | none => none
  | .M :: r, s, f => match num2 s with
      | some (n, s') => if n < 60 then strp r s' { f with mi := n } else none
      | none => none
  | .S :: r, s, f => match num2 s with
      | some (n, s') => if n < 62 then strp r s' { f with s := n } else none
      | none => none
  | .z :: _, [], _ => none
  | .z :: r, c :: s, f =>
      if c == '+' || c == '-' then
        match num2 s with
        | some (hh, s1) => match num2 s1 with
            | some (mm, s2) =>
                if mm < 60 && hh < 24 then
                  let o : Int := Int.ofNat (hh * 60 + mm)
                  strp r s2 { f with off := some (if c == '-' then -o else o) }
                else none
            | none => none
        | none => none
      else none
  | .lit _ :: _, [], _ => none
  | .lit c :: r, c' :: s, f => if asciiLower c == asciiLower c' then strp r s f else none

/-- the `datetime(...)` constructor check after the fields were collected -/
def Fields.ok (f : Fields) : Bool := f.d ≤ dim f.y f.m && f.s < 60

def applyPost {F : Type} (p : Post) (f : Fields) : Val F :=
  let d : Date := ⟨f.y, f.m, f.d⟩
  let t : Time := ⟨f.h, f.mi, f.s⟩
  match p with
  | .date => .date d
  | .time => .time t none
  | .keep => .datetime d t f.off
  | .timetz => .time t f.off
  | .replaceUTC => .datetime d t (some 0)

def runMatchers {F : Type} : List Matcher → Str → Except Err (Val F)
  | [], _ => .error .valueError
  | m :: r, s =>
      if matchRe m.re s then
        match strp m.fmt s {} with
        | some f => if f.ok then .ok (applyPost m.post f) else .error .valueError
        | none => .error .valueError
      else runMatchers r s

/-- the timezone colon fix-up; `guard = none` is the unguarded form (IndexError on short input) -/
def tzFixup (guard : Option Nat) (s : Str) : Except Err Str :=
  let n := s.length
  let short : Bool := match guard with | some g => decide (n < g) | none => false
  if short then .ok s
  else if n < 6 then .error .indexError
  else
    let a := s.getD (n - 6) ' '
    if (a == '+' || a == '-') && s.getD (n - 3) ' ' == ':' then .ok (s.take (n - 3) ++ s.drop (n - 2))
    else .ok s

def parseDateTime {F : Type} (ms : List Matcher) (guard : Option Nat) (s : Str) : Except Err (Val F) :=
  match tzFixup guard s with
  | .ok s' => runMatchers ms s'
  | .error e => .error e

end Upnp.C08
