/-
  C08 — the data-type table (`const.STATE_VARIABLE_TYPE_MAPPING`) as data, the coercers it
  selects, the voluptuous schema `_state_variable_create_schema` builds, and the value cell of
  `UpnpStateVariable`.  The table itself is GENERATED (`Upnp/Gen/C08Types.lean`) from the
  source; this file fixes the row shapes and gives each shape its Python meaning.
  Import-free (core only): linked into the driver.
-/
import Upnp.Model.C08Data
namespace Upnp.C08

/-- shapes of the `"in"` entry -/
inductive InKind
  | int                                -- `int`
  | float                              -- `float`
  | str                                -- `str`
  | lowerIn (l : List Str)             -- `lambda s: s.lower() in [...]`
  | parseDateTime                      -- `parse_date_time`
deriving DecidableEq, Repr

/-- shapes of the `"out"` entry -/
inductive OutKind
  | str                                -- `str`
  | strInt                             -- `lambda i: str(int(i))`
  | ifElse (t f : Str)                 -- `lambda b: t if b else f`
  | isoformat (args : List Str)        -- `lambda x: x.isoformat(*args)`
deriving DecidableEq, Repr

structure TypeRow where
  name : Str
  ty : PyType
  inK : InKind
  outK : OutKind
  requireTz : Bool                     -- `"validator": require_tzinfo`
deriving DecidableEq, Repr

/-- everything the translator reads from the source for C08 -/
structure Table where
  rows : List TypeRow
  matchers : List Matcher
  tzGuard : Option Nat
  /-- how `_state_variable_create_schema` converts a non-boolean `defaultValue`:
      `true` = with the row's `"in"` coercer, `false` = by calling the Python type -/
  defaultViaIn : Bool
deriving Repr

def Table.row? (tb : Table) (name : Str) : Option TypeRow := tb.rows.find? (·.name == name)

section
variable {F : Type} (fo : FloatOps F)

def lowerStr (s : Str) : Str := s.map asciiLower

/-! ### `str(v)` and truthiness -/

def pyStr : Val F → Except Err Str
  | .none => .ok ['N', 'o', 'n', 'e']
  | .int i => intStr i
  | .bool b => .ok (if b then ['T', 'r', 'u', 'e'] else ['F', 'a', 'l', 's', 'e'])
  | .float f => .ok (fo.repr f)
  | .str s => .ok s
  | .date d => .ok (isoDate d)
  | .datetime d t o => .ok (isoDate d ++ ' ' :: isoTime .auto t ++ isoOff o)
  | .time t o => .ok (isoTime .auto t ++ isoOff o)

def truthy : Val F → Except Err Bool
  | .none => .ok false
  | .int i => .ok (i != 0)
  | .bool b => .ok b
  | .float _ => .error .unmodelled
  | .str s => .ok (!s.isEmpty)
  | _ => .ok true

/-- `int(v)`: ints and bools as numbers, strings parsed, `None` / dates / times TypeError;
    floats (truncation, OverflowError on inf) are outside the value domain of the model -/
def pyIntOf : Val F → Except Err Int
  | .int i => .ok i
  | .bool b => .ok (if b then 1 else 0)
  | .str s => match pyInt? s with
      | some i => .ok i
      | none => .error .valueError
  | .float _ => .error .unmodelled
  | _ => .error .typeError

def timeSpec? (s : Str) : Option TimeSpec :=
  if s == ['a', 'u', 't', 'o'] then some .auto
  else if s == ['h', 'o', 'u', 'r', 's'] then some .hours
  else if s == ['m', 'i', 'n', 'u', 't', 'e', 's'] then some .minutes
  else if s == ['s', 'e', 'c', 'o', 'n', 'd', 's'] then some .seconds
  else if s == ['m', 'i', 'l', 'l', 'i', 's', 'e', 'c', 'o', 'n', 'd', 's'] then some .milliseconds
  else if s == ['m', 'i', 'c', 'r', 'o', 's', 'e', 'c', 'o', 'n', 'd', 's'] then some .microseconds
  else none

/-- `v.isoformat(*args)` for positional string arguments -/
def isoformat (args : List Str) : Val F → Except Err Str
  | .date d => match args with
      | [] => .ok (isoDate d)
      | _ => .error .typeError
  | .datetime d t o =>
      let go (sep : Str) (ts : Str) : Except Err Str :=
        match sep with
        | [c] => match timeSpec? ts with
            | some k => .ok (isoDate d ++ c :: isoTime k t ++ isoOff o)
            | none => .error .valueError
        | _ => .error .typeError
      match args with
      | [] => go ['T'] ['a', 'u', 't', 'o']
      | [sep] => go sep ['a', 'u', 't', 'o']
      | [sep, ts] => go sep ts
      | _ => .error .typeError
  | .time t o => match args with
      | [] => .ok (isoTime .auto t ++ isoOff o)
      | [ts] => match timeSpec? ts with
          | some k => .ok (isoTime k t ++ isoOff o)
          | none => .error .valueError
      | _ => .error .typeError
  | _ => .error .attributeError

/-! ### the coercers -/

/-- `coerce_upnp`: the row's `"out"` entry applied to a Python value -/
def coerceUpnp (row : TypeRow) (v : Val F) : Except Err Str :=
  match row.outK with
  | .str => pyStr fo v
  | .strInt => match pyIntOf v with
      | .ok i => intStr i
      | .error e => .error e
  | .ifElse t f => match truthy v with
      | .ok b => .ok (if b then t else f)
      | .error e => .error e
  | .isoformat args => isoformat args v

/-- `coerce_python`: the row's `"in"` entry applied to a wire string -/
def coercePython (tb : Table) (row : TypeRow) (s : Str) : Except Err (Val F) :=
  match row.inK with
  | .int => match pyInt? s with
      | some i => .ok (.int i)
      | none => .error .valueError
  | .float => match fo.parse s with
      | some f => .ok (.float f)
      | none => .error .valueError
  | .str => .ok (.str s)
  | .lowerIn l => .ok (.bool (l.contains (lowerStr s)))
  | .parseDateTime => parseDateTime tb.matchers tb.tzGuard s

/-! ### `_state_variable_create_schema` -/

/-- what the description declares, as text -/
structure Decl where
  /-- `allowedValueRange` present: its `minimum` / `maximum` texts -/
  range : Option (Option Str × Option Str) := none
  allowed : Option (List Str) := none
  default : Option Str := none
deriving DecidableEq, Repr

/-- `vol.Schema(vol.All(type, [validator], [In(allowed)], [Range(min, max)]))` -/
structure Schema (F : Type) where
  ty : PyType
  requireTz : Bool
  allowed : Option (List (Val F))
  min : Option (Val F)
  max : Option (Val F)
deriving Repr

def mapM' {α β : Type} (f : α → Except Err β) : List α → Except Err (List β)
  | [] => .ok []
  | a :: r => match f a with
      | .ok b => match mapM' f r with
          | .ok bs => .ok (b :: bs)
          | .error e => .error e
      | .error e => .error e

def optM {α β : Type} (f : α → Except Err β) : Option α → Except Err (Option β)
  | none => .ok none
  | some a => match f a with
      | .ok b => .ok (some b)
      | .error e => .error e

/-- calling the Python class on a string: `int(s)`, `float(s)`, `str(s)`; `date(s)` etc. raise TypeError -/
def callType (ty : PyType) (s : Str) : Except Err (Val F) :=
  match ty with
  | .int => match pyInt? s with
      | some i => .ok (.int i)
      | none => .error .valueError
  | .float => match fo.parse s with
      | some f => .ok (.float f)
      | none => .error .valueError
  | .str => .ok (.str s)
  | .bool => .ok (.bool (!s.isEmpty))
  | _ => .error .typeError

/-- `if text:` — `None` and the empty string are skipped -/
def nonEmpty (o : Option Str) : Option Str :=
  match o with
  | some s => if s.isEmpty then none else some s
  | none => none

/-- `[in_coercer(a) for a in allowed_values]` when the list is non-empty (strict mode only) -/
def schemaAllowed (inC : Str → Except Err (Val F)) (strict : Bool) (a : Option (List Str)) :
    Except Err (Option (List (Val F))) :=
  if strict then
    match a with
    | some (x :: l) => optM (mapM' inC) (some (x :: l))
    | _ => .ok none
  else .ok none

/-- `min_ = in_coercer(min_) if min_ else None`, same for `max_` (strict mode only) -/
def schemaRange (inC : Str → Except Err (Val F)) (strict : Bool) (r : Option (Option Str × Option Str)) :
    Except Err (Option (Val F) × Option (Val F)) :=
  if strict then
    match r with
    | some (mn, mx) => match optM inC (nonEmpty mn) with
        | .ok a => match optM inC (nonEmpty mx) with
            | .ok b => .ok (a, b)
            | .error e => .error e
        | .error e => .error e
    | none => .ok (none, none)
  else .ok (none, none)

/-- conversion of a non-empty `defaultValue` (result unused, exceptions propagate) -/
def schemaDefault (tb : Table) (row : TypeRow) (d : Option Str) : Except Err Unit :=
  match nonEmpty d with
  | some s =>
      if row.ty == .bool then .ok ()
      else match (if tb.defaultViaIn then coercePython fo tb row s else callType fo row.ty s) with
        | .ok _ => .ok ()
        | .error e => .error e
  | none => .ok ()

/-- the schema, or the exception that leaves `_state_variable_create_schema` -/
def mkSchema (tb : Table) (row : TypeRow) (strict : Bool) (d : Decl) : Except Err (Schema F) :=
  match schemaAllowed (coercePython fo tb row) strict d.allowed with
  | .error e => .error e
  | .ok allowed =>
    match schemaRange (coercePython fo tb row) strict d.range with
    | .error e => .error e
    | .ok (mn, mx) =>
      match schemaDefault fo tb row d.default with
      | .error e => .error e
      | .ok () => .ok { ty := row.ty, requireTz := row.requireTz, allowed := allowed, min := mn, max := mx }

/-- `schema(v)` passes (no `MultipleInvalid`) -/
def Schema.check (sc : Schema F) (v : Val F) : Bool :=
  v.isInstance sc.ty
  && (!sc.requireTz || v.hasTz == some true)
  && (match sc.allowed with
      | some l => l.any (fun a => pyEq fo v a)
      | none => true)
  && (match sc.min with
      | some m => pyLe fo m v == some true
      | none => true)
  && (match sc.max with
      | some m => pyLe fo v m == some true
      | none => true)

/-! ### the value cell of `UpnpStateVariable` -/

/-- `_value`: a Python value (initially `None`) or the `UPNP_VALUE_ERROR` sentinel -/
inductive Cell (F : Type)
  | val (v : Val F)
  | err
deriving Repr, DecidableEq

/-- outcome of a setter -/
inductive SetRes
  | ok
  | upnpValueError          -- `UpnpValueError` from `validate_value`
  | raised (e : Err)        -- anything else that escapes
deriving DecidableEq, Repr

/-- `.value` (the sentinel reads as `None`) -/
def Cell.read : Cell F → Val F
  | .val v => v
  | .err => .none

/-- `sv.value = v` -/
def setValue (sc : Schema F) (c : Cell F) (v : Val F) : Cell F × SetRes :=
  if sc.check fo v then (.val v, .ok) else (c, .upnpValueError)

/-- `sv.upnp_value = s` -/
def setUpnpValue (tb : Table) (row : TypeRow) (sc : Schema F) (c : Cell F) (s : Str) : Cell F × SetRes :=
  match coercePython fo tb row s with
  | .ok v => setValue fo sc c v
  | .error .valueError => (.err, .ok)
  | .error e => (c, .raised e)

/-! ### the value cell of `UpnpAction.Argument` -/

/-- `arg.value = v`: validated against the related state variable's schema, then stored -/
def argSetValue (sc : Schema F) (c : Val F) (v : Val F) : Val F × SetRes :=
  if sc.check fo v then (v, .ok) else (c, .upnpValueError)

/-- `arg.upnp_value = s`: the converted value is stored WITHOUT validation (this setter decodes what a
    device answered); a conversion error propagates -/
def argSetUpnpValue (tb : Table) (row : TypeRow) (c : Val F) (s : Str) : Val F × SetRes :=
  match coercePython fo tb row s with
  | .ok v => (v, .ok)
  | .error e => (c, .raised e)

end
end Upnp.C08
