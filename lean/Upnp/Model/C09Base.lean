/-
  C09/C10/C11 — base definitions shared by the GENA client models (import-free, linked into the driver):
  text as `List Char`, Python `int()` on ASCII text, decimal rendering, the fixed Lean types the
  translator (`tools/gen_c09gena.py`) emits tables in.
-/
namespace Upnp.C09

abbrev Str := List Char

/-! ### Python `int(str)` for ASCII input
  strip white space, optional sign, decimal digits with single underscores between digits.
  Not modelled: non-ASCII white space / digits, the 4300-digit limit (the harness never generates them). -/

def isPySpace (c : Char) : Bool :=
  (9 ≤ c.toNat && c.toNat ≤ 13) || (28 ≤ c.toNat && c.toNat ≤ 32)

def stripL (s : Str) : Str := s.dropWhile isPySpace
def strip (s : Str) : Str := (stripL (stripL s).reverse).reverse

def digitVal (c : Char) : Nat := c.toNat - 48

/-- `d(_?d)*` ; `prev` = the previous character was a digit -/
def parseDigits : Str → Nat → Bool → Option Nat
  | [], acc, prev => if prev then some acc else none
  | c :: r, acc, prev =>
    if c.isDigit then parseDigits r (acc * 10 + digitVal c) true
    else if c = '_' && prev then (match r with | [] => none | _ => parseDigits r acc false)
    else none

def pyInt? (s : Str) : Option Int :=
  match strip s with
  | '+' :: r => (parseDigits r 0 false).map Int.ofNat
  | '-' :: r => (parseDigits r 0 false).map fun n => - Int.ofNat n
  | t => (parseDigits t 0 false).map Int.ofNat

/-- `str(n)` for a natural number -/
def decNat (n : Nat) : Str := Nat.toDigits 10 n
/-- `str(i)` for an int -/
def decInt (i : Int) : Str := if i < 0 then '-' :: decNat i.natAbs else decNat i.toNat

/-- `p in s` for strings -/
def isInfixB (p : Str) : Str → Bool
  | [] => p.isEmpty
  | c :: r => p.isPrefixOf (c :: r) || isInfixB p r

/-- value of a string of decimal digits -/
def digitsVal (ds : Str) : Nat := ds.foldl (fun a c => a * 10 + digitVal c) 0

/-! ### types of the generated tables -/

/-- value expression of one header in a `headers = {...}` display of event_handler.py -/
inductive HdrExpr
  | const (s : Str)          -- a string constant
  | timeoutSeconds           -- "Second-" + str(timeout.seconds)
  | timeoutTotalFloat        -- "Second-" + str(timeout.total_seconds())
  | timeoutTotalInt          -- "Second-" + str(int(timeout.total_seconds()))
  | host                     -- urlparse(service.event_sub_url).netloc
  | callback                 -- f"<{self.callback_url}>"
  | sid                      -- the SID
deriving DecidableEq, Repr

structure ReqSpec where
  method : Str
  headers : List (Str × HdrExpr)
deriving Repr

/-- one disjunct of a header test of `handle_notify` -/
inductive NCond
  | missing (h : Str)            -- "H" not in headers
  | differs (h : Str) (v : Str)  -- headers["H"] != "v"
deriving DecidableEq, Repr

end Upnp.C09
