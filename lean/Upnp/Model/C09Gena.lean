/-
  C09 — executable model of `event_handler.UpnpEventHandler`'s subscription registry:
  `async_subscribe`, `_async_do_resubscribe`, `async_resubscribe`, `async_resubscribe_all`,
  `async_unsubscribe`, `async_unsubscribe_all`, `sid_for_service`, `service_for_sid`.

  * the routing table `_subscriptions` is a `PyDict Sid ServiceIndex` (insertion ordered; weak
    references are not modelled — the harness keeps every service alive);
  * a call consumes the publisher's reactions it needs from a script (`List Reaction`); the requester
    answers without suspending, so `asyncio.gather` in the `*_all` calls runs the per-SID coroutines
    one after the other in dictionary order;
  * requests are built from the tables generated from the source (`Gen.C09Gena`).
  Import-free apart from model/generated files (linked into the driver).
-/
import Upnp.Model.PyDict
import Upnp.Model.C09Base
import Upnp.Gen.C09Gena
namespace Upnp.C09
open Upnp PyDict

/-! ### requests -/

structure Cfg where
  host : Str        -- netloc of the services' event URLs
  callback : Str    -- the notify server's callback URL

structure Request where
  method : Str
  svc : Nat                    -- which service's event_sub_url the request went to
  headers : PyDict Str Str     -- header names upper-cased
  /-- observation taken by the publisher when the request ARRIVES: `service_for_sid(<SID header>)` at that moment
      (`none`: not routed / no SID header).  Lets the judge see the routing while a request is in flight. -/
  routed : Option Nat := none
deriving DecidableEq, Repr

def secondPrefix : Str := ['S','e','c','o','n','d','-']
def secondInfinite : Str := ['S','e','c','o','n','d','-','i','n','f','i','n','i','t','e']

/-- Python `timedelta.seconds` of a whole-second timedelta: the remainder modulo one day (never negative) -/
def tdSeconds (t : Int) : Nat := (t.emod 86400).toNat

def evalHdr (cfg : Cfg) (timeout : Int) (sid : Str) : HdrExpr → Str
  | .const s => s
  | .timeoutSeconds => secondPrefix ++ decNat (tdSeconds timeout)
  | .timeoutTotalFloat => secondPrefix ++ decInt timeout ++ ['.', '0']   -- str(float) of a whole number below 1e16
  | .timeoutTotalInt => secondPrefix ++ decInt timeout
  | .host => cfg.host
  | .callback => '<' :: cfg.callback ++ ['>']
  | .sid => sid

def mkReq (cfg : Cfg) (spec : ReqSpec) (svc : Nat) (timeout : Int) (sid : Str) : Request :=
  { method := spec.method, svc := svc,
    headers := spec.headers.map fun p => (p.1, evalHdr cfg timeout sid p.2) }

def subscribeRequest (cfg : Cfg) (svc : Nat) (timeout : Int) : Request :=
  mkReq cfg Gen.C09Gena.subscribeReq svc timeout []
/-- a renewal goes out for a SID that is routed to the service at that moment -/
def renewRequest (cfg : Cfg) (svc : Nat) (sid : Str) (timeout : Int) : Request :=
  { mkReq cfg Gen.C09Gena.renewReq svc timeout sid with routed := some svc }
/-- `async_unsubscribe` deletes the registration BEFORE the request goes out: not routed on arrival -/
def unsubRequest (cfg : Cfg) (svc : Nat) (sid : Str) : Request :=
  mkReq cfg Gen.C09Gena.unsubReq svc 0 sid

/-! ### publisher reactions, results -/

inductive Reaction
  | resp (status : Nat) (sid : Option Str) (timeout : Option Str)  -- HTTP response; SID / TIMEOUT headers
  | connErr        -- requester raises UpnpConnectionError
  | connTimeout    -- requester raises UpnpConnectionTimeoutError
deriving DecidableEq, Repr

inductive Exc
  | keyError | responseError (status : Nat) | sidError | connError | connTimeout
  | valueError | overflowError
  | parseError       -- xml ParseError (C11: replay of a malformed early NOTIFY; never produced by the registry model)
  | other            -- any other exception class (never produced by the registry model)
deriving DecidableEq, Repr

inductive Result
  | sub (sid : Str) (timeout : Int)   -- (sid, timedelta)
  | unsub (sid : Str)
  | none
  | exc (e : Exc)
deriving DecidableEq, Repr

/-- one request as the publisher saw it, with what it answered -/
structure Exch where
  req : Request
  react : Reaction
deriving DecidableEq, Repr

/-- the reaction used when the script is exhausted -/
def defaultReaction : Reaction := .resp 500 none none

def nextReact : List Reaction → Reaction × List Reaction
  | [] => (defaultReaction, [])
  | r :: rs => (r, rs)

/-! ### the granted TIMEOUT header (`"Second-" in …`, `[7:]`, `int`, `timedelta(seconds=…)`) -/

inductive TmoParse
  | keep | set (n : Int) | valueError | overflowError
deriving DecidableEq, Repr

/-- `timedelta(seconds=n)` is representable: |days| ≤ 999999999 where days = ⌊n / 86400⌋ -/
def tdOk (n : Int) : Bool := decide (-86399999913600 ≤ n) && decide (n ≤ 86399999999999)

def parseTimeoutRaw : Option Str → TmoParse
  | none => .keep
  | some v =>
    if v ≠ secondInfinite ∧ isInfixB secondPrefix v = true then
      match pyInt? (v.drop 7) with
      | none => .valueError
      | some n => if tdOk n then .set n else .overflowError
    else .keep

/-- with the conversion inside `try … except (ValueError, OverflowError)` (`guarded`, read from the source) an
    unparsable granted TIMEOUT keeps the requested timeout; without it the exception escapes -/
def parseTimeoutHdr (guarded : Bool) (th : Option Str) : TmoParse :=
  match parseTimeoutRaw th with
  | .valueError => if guarded then .keep else .valueError
  | .overflowError => if guarded then .keep else .overflowError
  | p => p

/-! ### state and calls -/

abbrev Routing := PyDict Str Nat

structure Out where
  rt : Routing
  exch : List Exch
  res : Result
  rest : List Reaction

inductive Target
  | svc (i : Nat)
  | sid (s : Str)
deriving DecidableEq, Repr

inductive Call
  | subscribe (svc : Nat) (timeout : Int)
  | resubscribe (t : Target) (timeout : Int)
  | unsubscribe (t : Target)
  | resubscribeAll
  | unsubscribeAll
deriving DecidableEq, Repr

/-- `sid_for_service`: first SID (dictionary order) routed to the service -/
def sidForService : Routing → Nat → Option Str
  | [], _ => none
  | (s, j) :: r, i => if j = i then some s else sidForService r i

/-- `_sid_and_service` (`none` = KeyError); an empty SID found for a service is "not sid" -/
def resolve (rt : Routing) : Target → Option (Str × Nat)
  | .svc i => match sidForService rt i with
    | some s => if s = [] then none else some (s, i)
    | none => none
  | .sid s => (get? rt s).map fun i => (s, i)

/-- the part of `async_subscribe` after the response arrived (shared with the C11 model);
    returns the routing table and the result -/
def subscribeFinish (rt : Routing) (svc : Nat) (timeout : Int) : Reaction → Routing × Result
  | .connErr => (rt, .exc .connError)
  | .connTimeout => (rt, .exc .connTimeout)
  | .resp status sid th =>
    if status ≠ 200 then (rt, .exc (.responseError status)) else
    match sid with
    | none => (rt, .exc .sidError)
    | some s =>
      match parseTimeoutHdr Gen.C09Gena.subscribeTimeoutGuarded th with
      | .valueError => (rt, .exc .valueError)
      | .overflowError => (rt, .exc .overflowError)
      | .keep => (set rt s svc, .sub s timeout)
      | .set n => (set rt s svc, .sub s n)

def doSubscribe (cfg : Cfg) (rt : Routing) (svc : Nat) (timeout : Int) (rs : List Reaction) : Out :=
  let r := (nextReact rs).1
  let fin := subscribeFinish rt svc timeout r
  { rt := fin.1, exch := [⟨subscribeRequest cfg svc timeout, r⟩], res := fin.2, rest := (nextReact rs).2 }

/-- the SID a renewal continues with: the response's if present, non-empty and different -/
def renewedSid (old : Str) : Option Str → Str
  | some s' => if s' ≠ [] ∧ s' ≠ old then s' else old
  | none => old

/-- `_async_do_resubscribe` after a 200 response -/
def renewFinish (rt : Routing) (svc : Nat) (sid : Str) (timeout : Int) (sid' : Option Str) (th : Option Str) :
    Routing × Result :=
  let sid2 := renewedSid sid sid'
  let rt1 := if sid2 ≠ sid then erase rt sid else rt
  match parseTimeoutHdr Gen.C09Gena.renewTimeoutGuarded th with
  | .valueError => (rt1, .exc .valueError)
  | .overflowError => (rt1, .exc .overflowError)
  | .keep => (set rt1 sid2 svc, .sub sid2 timeout)
  | .set n => (set rt1 sid2 svc, .sub sid2 n)

/-- `async_resubscribe` -/
def doResubscribe (cfg : Cfg) (rt : Routing) (t : Target) (timeout : Int) (rs : List Reaction) : Out :=
  match resolve rt t with
  | none => { rt := rt, exch := [], res := .exc .keyError, rest := rs }
  | some (sid, svc) =>
    let r := (nextReact rs).1
    let rs' := (nextReact rs).2
    let ex : Exch := ⟨renewRequest cfg svc sid timeout, r⟩
    match r with
    | .connErr => { rt := erase rt sid, exch := [ex], res := .exc .connError, rest := rs' }
    | .connTimeout => { rt := erase rt sid, exch := [ex], res := .exc .connTimeout, rest := rs' }
    | .resp status sid' th =>
      if status ≠ 200 then
        -- UpnpResponseError is an UpnpError but no UpnpConnectionError: drop the SID, full subscribe
        let o := doSubscribe cfg (erase rt sid) svc timeout rs'
        { o with exch := ex :: o.exch }
      else
        let fin := renewFinish rt svc sid timeout sid' th
        { rt := fin.1, exch := [ex], res := fin.2, rest := rs' }

/-- `async_unsubscribe` -/
def doUnsubscribe (cfg : Cfg) (rt : Routing) (t : Target) (rs : List Reaction) : Out :=
  match resolve rt t with
  | none => { rt := rt, exch := [], res := .exc .keyError, rest := rs }
  | some (sid, svc) =>
    let r := (nextReact rs).1
    let rs' := (nextReact rs).2
    let ex : Exch := ⟨unsubRequest cfg svc sid, r⟩
    let res : Result := match r with
      | .connErr => .exc .connError
      | .connTimeout => .exc .connTimeout
      | .resp status _ _ => if status ≠ 200 then .exc (.responseError status) else .unsub sid
    { rt := erase rt sid, exch := [ex], res := res, rest := rs' }

def excOf : Result → Option Exc
  | .exc e => some e
  | _ => none

/-- `asyncio.gather(*(async_resubscribe(sid) for sid in snapshot))` with a non-suspending requester:
    the tasks run to completion one after the other; the first exception (completion order) is raised -/
def resubAll (cfg : Cfg) : List Str → Routing → List Reaction → Option Exc → Out
  | [], rt, rs, first => { rt := rt, exch := [], res := (match first with | some e => .exc e | none => .none), rest := rs }
  | s :: more, rt, rs, first =>
    let o := doResubscribe cfg rt (.sid s) Gen.C09Gena.defaultTimeoutResubscribe rs
    let o2 := resubAll cfg more o.rt o.rest (match first with | some e => some e | none => excOf o.res)
    { o2 with exch := o.exch ++ o2.exch }

/-- `asyncio.gather(*(async_unsubscribe(sid) for sid in sids), return_exceptions=True)` -/
def unsubAll (cfg : Cfg) : List Str → Routing → List Reaction → Out
  | [], rt, rs => { rt := rt, exch := [], res := .none, rest := rs }
  | s :: more, rt, rs =>
    let o := doUnsubscribe cfg rt (.sid s) rs
    let o2 := unsubAll cfg more o.rt o.rest
    { o2 with exch := o.exch ++ o2.exch }

/-! ### `async_resubscribe_all` with a requester that suspends (one trip round the event loop per request)

  `asyncio.gather` starts every per-SID coroutine; each resolves its SID and sends its renewal before the
  first response is processed (phase 1).  The responses are then processed in order (phase 2): an
  unreachable / accepted renewal finishes its task, a refused one drops the SID and sends the fresh SUBSCRIBE.
  Finally the fallback responses are processed in order (phase 3).  `gather` raises the first exception in
  completion order: phase-2 completions come before phase-3 completions. -/

/-- the next `n` reactions of the script (padded with the default) and the rest -/
def takeReacts : Nat → List Reaction → List Reaction × List Reaction
  | 0, rs => ([], rs)
  | n + 1, rs => let p := takeReacts n (nextReact rs).2; ((nextReact rs).1 :: p.1, p.2)

structure P2 where
  rt : Routing
  fallbacks : List Nat         -- services whose renewal was refused, in order
  first : Option Exc

def orElseExc (a : Option Exc) (b : Option Exc) : Option Exc := match a with | some e => some e | none => b

def resubPhase2 (t : Int) : List ((Str × Nat) × Reaction) → P2 → P2
  | [], p => p
  | ((sid, svc), r) :: more, p =>
    match r with
    | .connErr => resubPhase2 t more { p with rt := erase p.rt sid, first := orElseExc p.first (some .connError) }
    | .connTimeout => resubPhase2 t more { p with rt := erase p.rt sid, first := orElseExc p.first (some .connTimeout) }
    | .resp status sid' th =>
      if status ≠ 200 then resubPhase2 t more { p with rt := erase p.rt sid, fallbacks := p.fallbacks ++ [svc] }
      else
        let fin := renewFinish p.rt svc sid t sid' th
        resubPhase2 t more { p with rt := fin.1, first := orElseExc p.first (excOf fin.2) }

def resubPhase3 (t : Int) : List (Nat × Reaction) → Routing × Option Exc → Routing × Option Exc
  | [], p => p
  | (svc, r) :: more, p =>
    let fin := subscribeFinish p.1 svc t r
    resubPhase3 t more (fin.1, orElseExc p.2 (excOf fin.2))

def resubAllSusp (cfg : Cfg) (rt : Routing) (rs : List Reaction) : Out :=
  let t := Gen.C09Gena.defaultTimeoutResubscribe
  let targets := (keys rt).filterMap fun s => (get? rt s).map fun i => (s, i)
  let r1 := takeReacts targets.length rs
  let rens := targets.zip r1.1
  let p2 := resubPhase2 t rens { rt := rt, fallbacks := [], first := none }
  let r2 := takeReacts p2.fallbacks.length r1.2
  let subs := p2.fallbacks.zip r2.1
  let p3 := resubPhase3 t subs (p2.rt, p2.first)
  { rt := p3.1,
    exch := (rens.map fun x => ⟨renewRequest cfg x.1.2 x.1.1 t, x.2⟩) ++ (subs.map fun x => ⟨subscribeRequest cfg x.1 t, x.2⟩),
    res := (match p3.2 with | some e => .exc e | none => .none),
    rest := r2.2 }

def runCall (cfg : Cfg) (rt : Routing) (c : Call) (rs : List Reaction) : Out :=
  match c with
  | .subscribe svc t => doSubscribe cfg rt svc t rs
  | .resubscribe tg t => doResubscribe cfg rt tg t rs
  | .unsubscribe tg => doUnsubscribe cfg rt tg rs
  | .resubscribeAll => resubAll cfg (keys rt) rt rs none
  | .unsubscribeAll => unsubAll cfg (keys rt) rt rs

/-- `susp = true`: the requester suspends before answering.  Only `async_resubscribe_all` behaves differently
    (`async_unsubscribe_all` sends one request per task, in the same order either way). -/
def runCallS (cfg : Cfg) (susp : Bool) (rt : Routing) (c : Call) (rs : List Reaction) : Out :=
  match susp, c with
  | true, .resubscribeAll => resubAllSusp cfg rt rs
  | _, c => runCall cfg rt c rs

end Upnp.C09
