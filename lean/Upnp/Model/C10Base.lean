/-
  C10/C11 — fixed Lean types of the tables generated for the NOTIFY path (import-free).
-/
import Upnp.Model.C09Base
namespace Upnp.C10
open Upnp.C09

/-- shape of the `"in"` coercer of a UPnP data type in `const.STATE_VARIABLE_TYPE_MAPPING` -/
inductive InKind
  | int                       -- int
  | str                       -- str
  | lowerIn (l : List Str)    -- lambda s: s.lower() in [...]
  | other                     -- float / parse_date_time / anything else (not modelled)
deriving DecidableEq, Repr

end Upnp.C10
