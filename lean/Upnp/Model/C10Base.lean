/-
  C10/C11 — the float carrier of the NOTIFY models (import-free).  Floats are not modelled: they travel as
  exact ratios and what Python's `float(str)` / `repr` / comparisons give is an *oracle* (`FloatOracle`),
  declared per case by the harness for the strings it sends and left abstract in the theorems — the same
  treatment as in C08 (`C08.FloatOps`).
-/
import Upnp.Model.C09Base
import Upnp.Model.C08Types
namespace Upnp.C10
open Upnp.C09

/-- a float as an exact ratio -/
inductive Fl
  | fin (neg : Bool) (num den : Nat)
  | inf (neg : Bool)
  | nan
deriving DecidableEq, Repr

/-- Python's float operations on the strings / values in play -/
class FloatOracle where
  ops : Upnp.C08.FloatOps Fl

end Upnp.C10
