/-
  C10/C11 — executable model of the NOTIFY path:
  `UpnpEventHandler.handle_notify` (header ladder from the generated table, SID lookup, backlog,
  property-set walk into the `changes` dict), `UpnpService.notify_changed_state_variables`
  (`has_state_variable` / `state_variable` with the `{ns}name` fallback, per-variable try/except, one
  `on_event` call) and `UpnpStateVariable.upnp_value` setter (coerce, validate, `UPNP_VALUE_ERROR`).

  All 26 UPnP data types: conversion, the strict-mode schema and the value cell are C08's model
  (`C08.coercePython`, `C08.mkSchema`, `C08.Schema.check`, `C08.Cell`) over the generated type table
  `Gen.C08Types.table`; floats through the `FloatOracle` (as in C08).
  The XML text ↔ tree step (`DET.fromstring`, `rstrip`) is not modelled: a body is the list of the root's
  children, each marked as `e:property` or not, with its child elements (namespace, local name, text).
  Import-free apart from model/generated files (linked into the driver).
-/
import Upnp.Model.PyDict
import Upnp.Model.C09Gena
import Upnp.Model.C10Base
import Upnp.Gen.C08Types
import Upnp.Gen.C10Notify
namespace Upnp.C10
open Upnp PyDict Upnp.C09

/-! ### values and variables

  Conversion and validation ARE C08's: `C08.coercePython` with the row of the generated type table
  (`Gen.C08Types.table`, all 26 data types) and the strict-mode schema `C08.mkSchema` / `C08.Schema.check`
  built from the declaration; the value cell is `C08.Cell` (`UPNP_VALUE_ERROR` = `.err`). -/

abbrev Val := Upnp.C08.Val Fl
abbrev Stored := Upnp.C08.Cell Fl

def Stored.read (c : Stored) : Val := Upnp.C08.Cell.read c

/-- the table the conversions are read from -/
def table : Upnp.C08.Table := Gen.C08Types.table

structure Decl where
  name : Str
  dtype : Str
  range : Option (Option Str × Option Str) := none   -- allowedValueRange: minimum / maximum texts
  allowed : Option (List Str) := none                -- allowedValueList texts
deriving DecidableEq, Repr

def Decl.c08 (d : Decl) : Upnp.C08.Decl := { range := d.range, allowed := d.allowed, default := none }

structure VarSt where
  stored : Stored := .val .none
  updated : Option Nat := none   -- `_updated_at` (virtual clock tick)
deriving DecidableEq, Repr

section
variable [FloatOracle]

structure Var where
  decl : Decl
  row : Upnp.C08.TypeRow
  sc : Upnp.C08.Schema Fl
  st : VarSt := {}
deriving Repr

/-- the variable the factory builds for a declaration (strict mode); `none` = the factory raises -/
def mkVar (d : Decl) : Option Var :=
  match table.row? d.dtype with
  | none => none
  | some row =>
    match Upnp.C08.mkSchema FloatOracle.ops table row true d.c08 with
    | .ok sc => some { decl := d, row := row, sc := sc }
    | .error _ => none

/-- the `"in"` coercer of the variable's data type -/
def convert (v : Var) (text : Str) : Except Upnp.C08.Err Val :=
  Upnp.C08.coercePython FloatOracle.ops table v.row text

/-- the strict-mode schema on a coerced value -/
def validate (v : Var) (x : Val) : Bool := v.sc.check FloatOracle.ops x

/-- an exception other than ValueError / UpnpValueError escaping `state_var.upnp_value = text` -/
def raisesVar (v : Var) (text : Str) : Option Upnp.C08.Err :=
  match convert v text with
  | .error e => if e = .valueError then none else some e
  | .ok _ => none

/-- `state_var.upnp_value = text`; the Bool says "no UpnpValueError" (the variable is listed as changed).
    (An escaping exception is handled by the caller through `raisesVar`; here it leaves the variable alone.) -/
def setUpnpValue (v : Var) (text : Str) (tick : Nat) : Var × Bool :=
  match convert v text with
  | .error e =>
    if e = .valueError then ({ v with st := { v.st with stored := .err } }, true) else (v, false)
  | .ok x =>
    if validate v x then ({ v with st := { stored := .val x, updated := some tick } }, true)
    else (v, false)

/-! ### services -/

structure Svc where
  vars : List Var                 -- `state_variables` (dict order = declaration order, names distinct)
  events : List (List Str) := []  -- `on_event` invocations: the names of the variables listed
deriving Repr

def Svc.names (s : Svc) : List Str := s.vars.map (·.decl.name)

/-- `name.split("}")[1]` (for a name containing `}`) -/
def afterBrace (s : Str) : Str := ((s.dropWhile (· ≠ '}')).drop 1).takeWhile (· ≠ '}')

/-- `has_state_variable` / `state_variable`: exact name, else the part after the first `}` -/
def resolveName (names : List Str) (tag : Str) : Option Str :=
  if names.contains tag then some tag
  else if tag.contains '}' then
    (if names.contains (afterBrace tag) then some (afterBrace tag) else none)
  else none

def updateVar (vars : List Var) (name : Str) (text : Str) (tick : Nat) : List Var × Bool :=
  match vars with
  | [] => ([], false)
  | v :: r =>
    if v.decl.name = name then ((setUpnpValue v text tick).1 :: r, (setUpnpValue v text tick).2)
    else ((updateVar r name text tick).1 |> (v :: ·), (updateVar r name text tick).2)

/-- the loop of `notify_changed_state_variables` over `changes.items()`; accumulates the changed list -/
def applyChanges (names : List Str) (tick : Nat) : List (Str × Str) → List Var → List Str → List Var × List Str
  | [], vars, ch => (vars, ch)
  | (tag, text) :: r, vars, ch =>
    match resolveName names tag with
    | none => applyChanges names tick r vars ch
    | some n =>
      let u := updateVar vars n text tick
      applyChanges names tick r u.1 (if u.2 then ch ++ [n] else ch)

/-- `notify_changed_state_variables(changes)` with `on_event` set (no exception escaping) -/
def notifyChanged (s : Svc) (changes : PyDict Str Str) (tick : Nat) : Svc :=
  let r := applyChanges s.names tick changes s.vars []
  { vars := r.1, events := s.events ++ [r.2] }

def findVar (vars : List Var) (name : Str) : Option Var := vars.find? fun v => v.decl.name = name

/-- the loop as coded: an exception other than UpnpValueError leaves the loop (and the method) at once —
    the variables set so far stay set, nothing else is applied, `on_event` is not called -/
def applyChangesE (names : List Str) (tick : Nat) :
    List (Str × Str) → List Var → List Str → List Var × List Str × Option Upnp.C08.Err
  | [], vars, ch => (vars, ch, none)
  | (tag, text) :: r, vars, ch =>
    match resolveName names tag with
    | none => applyChangesE names tick r vars ch
    | some n =>
      match (findVar vars n).bind fun v => raisesVar v text with
      | some e => (vars, ch, some e)
      | none =>
        let u := updateVar vars n text tick
        applyChangesE names tick r u.1 (if u.2 then ch ++ [n] else ch)

def notifyChangedE (s : Svc) (changes : PyDict Str Str) (tick : Nat) : Svc × Option Upnp.C08.Err :=
  let r := applyChangesE s.names tick changes s.vars []
  match r.2.2 with
  | some e => ({ s with vars := r.1 }, some e)
  | none => ({ vars := r.1, events := s.events ++ [r.2.1] }, none)

/-! ### NOTIFY requests -/

structure NHeaders where
  nt : Option Str
  nts : Option Str
  sid : Option Str
deriving DecidableEq, Repr

def kNT : Str := ['N','T']
def kNTS : Str := ['N','T','S']
def kSID : Str := ['S','I','D']

def hget (h : NHeaders) (k : Str) : Option Str :=
  if k = kNT then h.nt else if k = kNTS then h.nts else if k = kSID then h.sid else none

structure Child where
  ns : Str          -- namespace URI ([] = none)
  name : Str        -- local name
  text : Str        -- `el.text or ""`
deriving DecidableEq, Repr

/-- a child of the property-set root -/
structure PropEl where
  isProperty : Bool          -- it is an `{urn:schemas-upnp-org:event-1-0}property` element
  children : List Child
deriving DecidableEq, Repr

abbrev Body := List PropEl

/-- ElementTree's tag of an element: `{uri}local` or `local` -/
def tagOf (c : Child) : Str := if c.ns = [] then c.name else '{' :: c.ns ++ '}' :: c.name

/-- the `changes` dict: every child of every `e:property`, later duplicates of a tag overwrite -/
def changesOf (b : Body) : PyDict Str Str :=
  ((b.filter (·.isProperty)).flatMap (·.children)).foldl (fun acc c => set acc (tagOf c) c.text) []

structure Notify where
  hdrs : NHeaders
  body : Body
  malformed : Bool := false     -- the body text is not well-formed XML (`body` is then irrelevant)
deriving DecidableEq, Repr

/-- evaluation of one header test; `none` = KeyError (`headers[k]` on a missing header) -/
def evalCond (h : NHeaders) : NCond → Option Bool
  | .missing k => some (hget h k).isNone
  | .differs k v => (hget h k).map (fun x => decide (x ≠ v))

def evalOr (h : NHeaders) : List NCond → Option Bool
  | [] => some false
  | c :: r => match evalCond h c with
    | none => none
    | some true => some true
    | some false => evalOr h r

inductive NRes
  | status (n : Nat)
  | keyError
  | raised (e : Upnp.C08.Err)    -- an exception of the conversion layer escaping `handle_notify`
  | parseError                   -- the body is not XML (`DET.fromstring` raises)
deriving DecidableEq, Repr

/-- the leading `if …: return status` statements: `some res` = returned / raised, `none` = fell through -/
def runLadder (h : NHeaders) : List (List NCond × Nat) → Option NRes
  | [] => none
  | (cs, st) :: r => match evalOr h cs with
    | none => some .keyError
    | some true => some (.status st)
    | some false => runLadder h r

structure Handler where
  rt : Routing := []
  backlog : PyDict Str (List Notify) := []    -- NOTIFYs received for SIDs not (yet) routed, per SID in arrival order
  svcs : List Svc := []
deriving Repr

def modifyAt {α : Type} (l : List α) (i : Nat) (f : α → α) : List α :=
  match l, i with
  | [], _ => []
  | a :: r, 0 => f a :: r
  | a :: r, n + 1 => a :: modifyAt r n f

/-- `handle_notify(headers, body)` at virtual time `tick` -/
def handleNotify (h : Handler) (n : Notify) (tick : Nat) : Handler × NRes :=
  match runLadder n.hdrs Gen.C10Notify.notifyLadder with
  | some r => (h, r)
  | none =>
    match n.hdrs.sid with
    | none => (h, .keyError)
    | some sid =>
      match get? h.rt sid with
      | none =>
        ({ h with backlog := set h.backlog sid ((get? h.backlog sid).getD [] ++ [n]) },
         .status Gen.C10Notify.backlogStatus)
      | some i =>
        if n.malformed then (h, .parseError) else
        match (h.svcs[i]?).bind fun s => (notifyChangedE s (changesOf n.body) tick).2 with
        | some e =>
          ({ h with svcs := modifyAt h.svcs i fun s => (notifyChangedE s (changesOf n.body) tick).1 }, .raised e)
        | none =>
          ({ h with svcs := modifyAt h.svcs i fun s => notifyChanged s (changesOf n.body) tick },
           .status Gen.C10Notify.doneStatus)

end
end Upnp.C10
