/-
  C10/C11 — executable model of the NOTIFY path:
  `UpnpEventHandler.handle_notify` (header ladder from the generated table, SID lookup, backlog,
  property-set walk into the `changes` dict), `UpnpService.notify_changed_state_variables`
  (`has_state_variable` / `state_variable` with the `{ns}name` fallback, per-variable try/except, one
  `on_event` call) and `UpnpStateVariable.upnp_value` setter (coerce, validate, `UPNP_VALUE_ERROR`).

  Data types are modelled for the coercer kinds `int`, `str` and `s.lower() in [...]` (taken from the
  generated `typeIn` table); the strict-mode schema is the python type check (always passes for the
  coerced value), `vol.In(allowed)` when an allowed list is declared and `vol.Range(min, max)` (inclusive)
  when a range is declared — ranges are modelled for integer variables, allowed lists for every kind.
  The XML text ↔ tree step (`DET.fromstring`, `rstrip`) is not modelled: a body is the list of the root's
  children, each marked as `e:property` or not, with its child elements (namespace, local name, text).
  Import-free apart from model/generated files (linked into the driver).
-/
import Upnp.Model.PyDict
import Upnp.Model.C09Gena
import Upnp.Gen.C10Notify
namespace Upnp.C10
open Upnp PyDict Upnp.C09

/-! ### values and variables -/

inductive Val
  | vint (i : Int) | vbool (b : Bool) | vstr (s : Str)
deriving DecidableEq, Repr

/-- `UpnpStateVariable._value` -/
inductive Stored
  | unset | val (v : Val) | convErr
deriving DecidableEq, Repr

/-- `UpnpStateVariable.value`: invalid values read as None -/
def Stored.read : Stored → Option Val
  | .val v => some v
  | _ => none

structure Decl where
  name : Str
  dtype : Str
  min : Option Int := none      -- allowedValueRange/minimum (integer variables)
  max : Option Int := none
  allowed : List Str := []      -- allowedValueList (text, coerced like a value)
deriving DecidableEq, Repr

structure VarSt where
  stored : Stored := .unset
  updated : Option Nat := none   -- `_updated_at` (virtual clock tick)
deriving DecidableEq, Repr

structure Var where
  decl : Decl
  st : VarSt := {}
deriving DecidableEq, Repr

def asciiLower (s : Str) : Str := s.map fun c => if 'A' ≤ c ∧ c ≤ 'Z' then Char.ofNat (c.toNat + 32) else c

def inKindOf (dtype : Str) : InKind := (get? Gen.C10Notify.typeIn dtype).getD .other

/-- the `"in"` coercer; `none` = ValueError -/
def convert : InKind → Str → Option Val
  | .int, s => (pyInt? s).map .vint
  | .str, s => some (.vstr s)
  | .lowerIn l, s => some (.vbool (l.contains (asciiLower s)))
  | .other, _ => none

/-- the strict-mode schema (`vol.All(type, In(allowed)?, Range(min,max)?)`) on a coerced value -/
def validate (d : Decl) (v : Val) : Bool :=
  (d.allowed.isEmpty || (d.allowed.filterMap (convert (inKindOf d.dtype))).contains v)
  && (match v with
      | .vint i => (match d.min with | some m => decide (m ≤ i) | none => true)
                   && (match d.max with | some m => decide (i ≤ m) | none => true)
      | _ => true)

/-- `state_var.upnp_value = text`; the Bool says "no UpnpValueError" (the variable is listed as changed) -/
def setUpnpValue (v : Var) (text : Str) (tick : Nat) : Var × Bool :=
  match convert (inKindOf v.decl.dtype) text with
  | none => ({ v with st := { v.st with stored := .convErr } }, true)
  | some x =>
    if validate v.decl x then ({ v with st := { stored := .val x, updated := some tick } }, true)
    else (v, false)

/-! ### services -/

structure Svc where
  vars : List Var                 -- `state_variables` (dict order = declaration order, names distinct)
  events : List (List Str) := []  -- `on_event` invocations: the names of the variables listed
deriving DecidableEq, Repr

def Svc.names (s : Svc) : List Str := s.vars.map (·.decl.name)

/-- `name.split("}")[1]` (for a name containing `}`) -/
def afterBrace (s : Str) : Str := ((s.dropWhile (· ≠ '}')).drop 1).takeWhile (· ≠ '}')

/-- `has_state_variable` / `state_variable`: exact name, else the part after the first `}` -/
def resolveName (names : List Str) (tag : Str) : Option Str :=
  if names.contains tag then some tag
  else if tag.contains '}' then
    (if names.contains (afterBrace tag) then some (afterBrace tag) else none)
  else none

def updateVar (vars : List Var) (name : Str) (text : Str) (tick : Nat) : List Var × Bool :=
  match vars with
  | [] => ([], false)
  | v :: r =>
    if v.decl.name = name then ((setUpnpValue v text tick).1 :: r, (setUpnpValue v text tick).2)
    else ((updateVar r name text tick).1 |> (v :: ·), (updateVar r name text tick).2)

/-- the loop of `notify_changed_state_variables` over `changes.items()`; accumulates the changed list -/
def applyChanges (names : List Str) (tick : Nat) : List (Str × Str) → List Var → List Str → List Var × List Str
  | [], vars, ch => (vars, ch)
  | (tag, text) :: r, vars, ch =>
    match resolveName names tag with
    | none => applyChanges names tick r vars ch
    | some n =>
      let u := updateVar vars n text tick
      applyChanges names tick r u.1 (if u.2 then ch ++ [n] else ch)

/-- `notify_changed_state_variables(changes)` with `on_event` set -/
def notifyChanged (s : Svc) (changes : PyDict Str Str) (tick : Nat) : Svc :=
  let r := applyChanges s.names tick changes s.vars []
  { vars := r.1, events := s.events ++ [r.2] }

/-! ### NOTIFY requests -/

structure NHeaders where
  nt : Option Str
  nts : Option Str
  sid : Option Str
deriving DecidableEq, Repr

def kNT : Str := ['N','T']
def kNTS : Str := ['N','T','S']
def kSID : Str := ['S','I','D']

def hget (h : NHeaders) (k : Str) : Option Str :=
  if k = kNT then h.nt else if k = kNTS then h.nts else if k = kSID then h.sid else none

structure Child where
  ns : Str          -- namespace URI ([] = none)
  name : Str        -- local name
  text : Str        -- `el.text or ""`
deriving DecidableEq, Repr

/-- a child of the property-set root -/
structure PropEl where
  isProperty : Bool          -- it is an `{urn:schemas-upnp-org:event-1-0}property` element
  children : List Child
deriving DecidableEq, Repr

abbrev Body := List PropEl

/-- ElementTree's tag of an element: `{uri}local` or `local` -/
def tagOf (c : Child) : Str := if c.ns = [] then c.name else '{' :: c.ns ++ '}' :: c.name

/-- the `changes` dict: every child of every `e:property`, later duplicates of a tag overwrite -/
def changesOf (b : Body) : PyDict Str Str :=
  ((b.filter (·.isProperty)).flatMap (·.children)).foldl (fun acc c => set acc (tagOf c) c.text) []

structure Notify where
  hdrs : NHeaders
  body : Body
deriving DecidableEq, Repr

/-- evaluation of one header test; `none` = KeyError (`headers[k]` on a missing header) -/
def evalCond (h : NHeaders) : NCond → Option Bool
  | .missing k => some (hget h k).isNone
  | .differs k v => (hget h k).map (fun x => decide (x ≠ v))

def evalOr (h : NHeaders) : List NCond → Option Bool
  | [] => some false
  | c :: r => match evalCond h c with
    | none => none
    | some true => some true
    | some false => evalOr h r

inductive NRes
  | status (n : Nat)
  | keyError
deriving DecidableEq, Repr

/-- the leading `if …: return status` statements: `some res` = returned / raised, `none` = fell through -/
def runLadder (h : NHeaders) : List (List NCond × Nat) → Option NRes
  | [] => none
  | (cs, st) :: r => match evalOr h cs with
    | none => some .keyError
    | some true => some (.status st)
    | some false => runLadder h r

structure Handler where
  rt : Routing := []
  backlog : PyDict Str (List Notify) := []    -- NOTIFYs received for SIDs not (yet) routed, per SID in arrival order
  svcs : List Svc := []
deriving Repr

def modifyAt {α : Type} (l : List α) (i : Nat) (f : α → α) : List α :=
  match l, i with
  | [], _ => []
  | a :: r, 0 => f a :: r
  | a :: r, n + 1 => a :: modifyAt r n f

/-- `handle_notify(headers, body)` at virtual time `tick` -/
def handleNotify (h : Handler) (n : Notify) (tick : Nat) : Handler × NRes :=
  match runLadder n.hdrs Gen.C10Notify.notifyLadder with
  | some r => (h, r)
  | none =>
    match n.hdrs.sid with
    | none => (h, .keyError)
    | some sid =>
      match get? h.rt sid with
      | none =>
        ({ h with backlog := set h.backlog sid ((get? h.backlog sid).getD [] ++ [n]) },
         .status Gen.C10Notify.backlogStatus)
      | some i =>
        ({ h with svcs := modifyAt h.svcs i fun s => notifyChanged s (changesOf n.body) tick },
         .status Gen.C10Notify.doneStatus)

end Upnp.C10
