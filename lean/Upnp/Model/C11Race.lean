/-
  C11 — event-driven model of NOTIFY messages racing the SUBSCRIBE response.

  External events (the only things that can happen between two awaits of the real code):
  * `start svc t`   — `async_subscribe(svc, t)` is called: the SUBSCRIBE request goes out and the call
                      parks on the requester;
  * `notify n`      — a NOTIFY request arrives (`handle_notify` runs to completion: it never suspends);
  * `respond svc r` — the publisher's answer to the parked SUBSCRIBE of `svc` arrives: the rest of
                      `async_subscribe` runs to completion — status / SID checks, TIMEOUT parse, registering
                      the SID, replaying the backlog of that SID in arrival order, deleting it.
  Built on the registry model (`C09.subscribeFinish`) and the NOTIFY model (`C10.handleNotify`).
  Import-free apart from model/generated files (linked into the driver).
-/
import Upnp.Model.C10Notify
import Upnp.Gen.C11Race
namespace Upnp.C11
open Upnp PyDict Upnp.C09 Upnp.C10
variable [FloatOracle]

/-- the event granularity of this model is that of the code: `handle_notify` has no suspension point and, once the
    SID is registered, `async_subscribe` suspends nowhere but in the replay's `await self.handle_notify(…)` (which
    itself never yields; exactly one such `await`: the replay loop is there) — read from the source by `tools/gen_c11race.py`, pinned by `C11.atomicity_pinned` -/
def atomicOk : Bool :=
  Gen.C11Race.handleNotifyAwaits == 0 && Gen.C11Race.tailOtherAwaits == 0 && Gen.C11Race.tailReplayAwaits == 1

inductive Ev
  | start (svc : Nat) (timeout : Int)
  | notify (n : Notify)
  | respond (svc : Nat) (r : Reaction)
deriving Repr

structure St where
  h : Handler := {}
  pending : PyDict Nat Int := []     -- parked subscribe calls: service ↦ requested timeout
deriving Repr

/-- what an event produces for the outside: the status answered to a NOTIFY / the result of the
    subscribe call that just returned / the request that went out -/
inductive Out
  | sent (req : Request)
  | notified (r : NRes)
  | returned (r : Result)
  | nothing
deriving Repr

/-- replay of the backlog items of one SID, in order, when every `handle_notify` returns -/
def replay (h : Handler) (items : List Notify) (tick : Nat) : Handler :=
  items.foldl (fun acc n => (handleNotify acc n tick).1) h

/-- the replay as coded: `await self.handle_notify(...)` per item; an exception (a body that is not XML)
    leaves the loop — and `async_subscribe` — at once -/
def replayE (h : Handler) : List Notify → Nat → Handler × Option NRes
  | [], _ => (h, none)
  | n :: r, tick =>
    let p := handleNotify h n tick
    match p.2 with
    | .status _ => replayE p.1 r tick
    | e => (p.1, some e)

def excOfNRes : NRes → Exc
  | .parseError => .parseError
  | .keyError => .keyError
  | _ => .other

/-- the tail of `async_subscribe` once the response is there -/
def finishSubscribe (h : Handler) (svc : Nat) (timeout : Int) (r : Reaction) (tick : Nat) : Handler × Result :=
  let fin := subscribeFinish h.rt svc timeout r
  match fin.2 with
  | .sub sid g =>
    let p := replayE { h with rt := fin.1 } ((get? h.backlog sid).getD []) tick
    match p.2 with
    | some e => (p.1, .exc (excOfNRes e))     -- the SID is registered, the backlog entry stays
    | none => ({ p.1 with backlog := erase p.1.backlog sid }, .sub sid g)
  | res => ({ h with rt := fin.1 }, res)

def step (cfg : Cfg) (s : St) (e : Ev) (tick : Nat) : St × Out :=
  match e with
  | .start svc t =>
    if contains s.pending svc then (s, .nothing)
    else ({ s with pending := set s.pending svc t }, .sent (subscribeRequest cfg svc t))
  | .notify n =>
    let r := handleNotify s.h n tick
    ({ s with h := r.1 }, .notified r.2)
  | .respond svc r =>
    match get? s.pending svc with
    | none => (s, .nothing)
    | some t =>
      let f := finishSubscribe s.h svc t r tick
      ({ h := f.1, pending := erase s.pending svc }, .returned f.2)

/-- run a schedule; event number `k` (from `k0`) happens at virtual tick `k` -/
def run (cfg : Cfg) : St → List Ev → Nat → St
  | s, [], _ => s
  | s, e :: r, k => run cfg (step cfg s e k).1 r (k + 1)

end Upnp.C11
