/-
  C12 — the model configuration assembled from what the translator found in
  profiles/profile.py on this run (`Upnp/Gen/C12Profile.lean`).
-/
import Upnp.Gen.C12Profile
import Upnp.Model.C12Types
namespace Upnp.C12

def genCfg : Cfg :=
  { subTimeout := Gen.C12Profile.subscribeTimeoutSecs
    tol := Gen.C12Profile.resubToleranceSecs
    skipStale := Gen.C12Profile.skipStale
    delEarly := Gen.C12Profile.delEarly
    clearDone := Gen.C12Profile.clearDone }

end Upnp.C12
