/-
  C12 — executable model of `UpnpProfileDevice`'s subscription life cycle
  (profiles/profile.py: async_subscribe_services, _resubscribe_loop,
  _async_resubscribe_services, _update_resubscriber_task, async_unsubscribe_services)
  on top of the routing-table effects of `UpnpEventHandler` (event_handler.py:
  async_subscribe, async_resubscribe incl. its fall-back SUBSCRIBE, async_unsubscribe).

  Event-driven (DESIGN §4.7): the renewal task is a program counter (`TaskPc`); a caller
  operation (`Op`) is applied and the task is run up to its next await.  The publisher is a
  script of (reaction, granted timeout, latency) consumed in order of request arrival; it
  decides on arrival, the reply reaches the client `lat` ms later.  Import-free.
-/
import Upnp.Model.PyDict
import Upnp.Model.C12Types
namespace Upnp.C12
open Upnp PyDict

/-- program counter of `_resubscriber_task` -/
inductive TaskPc where
  | none                         -- `_resubscriber_task is None`
  | fresh                        -- created by ensure_future, first step not yet run
  | sleeping (wake : Time)      -- in `await asyncio.sleep(wait_time)`
  /-- in `await self._event_handler.async_resubscribe(cur)` of the round started at `rnow`;
      `queue` = rest of the `list(self._subscriptions.items())` snapshot; `fallback` = the renewal was
      refused and the handler's full SUBSCRIBE is in flight; the publisher's decision travels along -/
  | inflight (rnow : Time) (queue : List (Sid × Time)) (cur : Sid) (svc : Nat) (fallback : Bool)
      (replyAt : Time) (reac : Reac) (tmo : Tmo) (granted : Option Sid)
  | done                         -- the loop ended by itself (task object kept)
deriving Repr, Inhabited

def TaskPc.alive : TaskPc → Bool
  | .fresh | .sleeping _ | .inflight .. => true
  | _ => false

structure St where
  now : Time := 0
  subs : PyDict Sid Time := []      -- UpnpProfileDevice._subscriptions  (SID ↦ renewal deadline)
  routed : PyDict Sid Nat := []     -- UpnpEventHandler._subscriptions   (SID ↦ service)
  task : TaskPc := .none
  avail : Bool := true              -- profile_device.available
  script : List Entry := []
  dflt : Entry := ⟨.ok, .sec 1800, 0⟩
  nextSid : Nat := 1
  rtrace : List Ev := []            -- newest first
  halted : Bool := false            -- a spin was detected; the run stops
deriving Repr, Inhabited

def St.trace (st : St) : List Ev := st.rtrace.reverse
def St.emit (st : St) (e : Ev) : St := { st with rtrace := e :: st.rtrace }

def ms (secs : Nat) : Int := (secs : Int) * 1000

/-- the request reaches the publisher now: it consumes one script entry and logs the request -/
def send (st : St) (kind : Kind) (svc : Nat) (sid : Option Sid) : Req × St :=
  let e := st.script.headD st.dflt
  let fresh := kind == .sub || e.reac == .newSid
  let grants := e.reac.accepts && kind != .unsub
  let granted : Option Sid := if grants then (if fresh then some st.nextSid else sid) else none
  let r : Req := { t := st.now, kind, svc, sid, reac := e.reac, tmo := e.tmo, lat := e.lat, granted }
  (r, { st with script := st.script.tail, nextSid := if grants && fresh then st.nextSid + 1 else st.nextSid,
                rtrace := .req r :: st.rtrace })

/-- insertion sort (structural, so that it also reduces in the kernel) -/
def insertSid (a : Sid) : List Sid → List Sid
  | [] => [a]
  | b :: r => if a ≤ b then a :: b :: r else b :: insertSid a r

def sortSids (l : List Sid) : List Sid := l.foldr insertSid []

def St.snap (st : St) : St :=
  st.emit (.snap st.now (keys st.subs) (sortSids (keys st.routed)) st.task.alive st.avail)

/-- `min(self._subscriptions.values())` -/
def minTime : Time → List Time → Time
  | m, [] => m
  | m, x :: r => minTime (if x < m then x else m) r

/-- `_async_resubscribe_services(notify_errors=True)`: continue the round started at `rnow` over the
    rest of the snapshot up to the next await.  Result: the state, and whether the task is now awaiting
    a reply (`false` = the round is finished). -/
def roundStep (cfg : Cfg) (rnow : Time) : List (Sid × Time) → St → St × Bool
  | [], st => (st, false)
  | (sid, rt) :: rest, st =>
    if cfg.skipStale && decide (rt < rnow - ms cfg.tol) then roundStep cfg rnow rest st
    else
      match get? st.routed sid with
      | none => roundStep cfg rnow rest { st with subs := erase st.subs sid }   -- "Subscription was lost"
      | some svc =>
        let st := if cfg.delEarly then { st with subs := erase st.subs sid } else st
        let (r, st) := send st .renew svc (some sid)
        ({ st with task := .inflight rnow rest sid svc false (st.now + r.lat) r.reac r.tmo r.granted }, true)

/-- `_resubscribe_loop` from the loop head up to the next await.  `fuel` bounds the number of
    iterations that do not await; running out of it is the observable `spin`. -/
def runHead (cfg : Cfg) : Nat → St → St
  | 0, st => { st with rtrace := .spin st.now :: st.rtrace, halted := true, task := .done }
  | f + 1, st =>
    match st.subs with
    | [] => { st with task := .done }
    | p :: ps =>
      let wait := minTime p.2 (values ps) - st.now - ms cfg.tol
      if wait > 0 then { st with task := .sleeping (st.now + wait) }
      else
        let (st', aw) := roundStep cfg st.now st.subs st
        if aw then st' else runHead cfg f st'

/-- non-awaiting iterations the loop is allowed between two awaits (subscriptions + constant) -/
def headFuel (st : St) : Nat := st.subs.length + 2

/-- profile's `except UpnpError` branch of the round (notify_errors=True) -/
def failed (st : St) (sid : Sid) (svc : Nat) (r : Reac) : St :=
  let avail := st.avail && r != .unreach
  { st with subs := erase st.subs sid, avail, rtrace := .cb st.now svc 0 avail :: st.rtrace }

/-- the reply of the in-flight request is delivered (`st.now` already is its arrival time) and the task
    runs to its next await -/
def deliver (cfg : Cfg) (st : St) : St :=
  match st.task with
  | .inflight rnow rest sid svc fb _ reac tmo granted =>
    let cont (st : St) : St :=
      let (st', aw) := roundStep cfg rnow rest st
      if aw then st' else runHead cfg (headFuel st') st'
    if reac.accepts then
      let g := granted.getD sid
      let routed := set (if g != sid then erase st.routed sid else st.routed) g svc
      cont { st with routed, subs := set (erase st.subs sid) g (rnow + ms (tmo.secs cfg)) }
    else if fb then cont (failed st sid svc reac)
    else if reac == .unreach then cont (failed { st with routed := erase st.routed sid } sid svc reac)
    else
      -- async_resubscribe: renewal refused -> drop the routing entry, full SUBSCRIBE
      let st := { st with routed := erase st.routed sid }
      let (r, st) := send st .sub svc none
      { st with task := .inflight rnow rest sid svc true (st.now + r.lat) r.reac r.tmo r.granted }
  | _ => st

/-- run the renewal task until virtual time `H` (events at `H` included); `k` bounds the number of awaits -/
def waitLoop (cfg : Cfg) (H : Time) : Nat → St → St
  | 0, st => { st with rtrace := .spin st.now :: st.rtrace, halted := true }
  | k + 1, st =>
    if st.halted then st else
    match st.task with
    | .fresh => waitLoop cfg H k (runHead cfg (headFuel st) st)
    | .sleeping u =>
      if u ≤ H then
        let st := { st with now := u }
        let (st', aw) := roundStep cfg u st.subs st
        waitLoop cfg H k (if aw then st' else runHead cfg (headFuel st') st')
      else st
    | .inflight _ _ _ _ _ replyAt _ _ _ =>
      if replyAt ≤ H then waitLoop cfg H k (deliver cfg { st with now := replyAt }) else st
    | _ => st

/-- awaits allowed during a wait of `d` ms (generous: a renewal round per 125 ms; only a run that
    stops advancing virtual time exhausts it) -/
def waitFuel (d : Nat) (st : St) : Nat := (d / 125 + 64) * (st.subs.length + 2)

def doWait (cfg : Cfg) (d : Nat) (st : St) : St :=
  if st.halted then st else
  let H := st.now + (d : Int)
  let st := waitLoop cfg H (waitFuel d st) st
  if st.halted then st else St.snap { st with now := H }

/-- `asyncio.gather(*(self._async_unsubscribe_service(sid) for sid in sids))`: every routed SID is
    removed from the routing table and an UNSUBSCRIBE is sent (all at the same instant, in order);
    errors are swallowed.  Returns the largest latency. -/
def unsubAll : List Sid → St → St × Nat
  | [], st => (st, 0)
  | sid :: r, st =>
    match get? st.routed sid with
    | none => unsubAll r st                       -- KeyError, logged
    | some svc =>
      let (q, st) := send { st with routed := erase st.routed sid } .unsub svc (some sid)
      let (st, m) := unsubAll r st
      (st, max q.lat m)

/-- `async_unsubscribe_services`: clear the bookkeeping, cancel the task, unsubscribe -/
def unsubscribeServices (st : St) : St :=
  let sids := keys st.subs
  let (st, m) := unsubAll sids { st with subs := [], task := .none }
  { st with now := st.now + (m : Int) }

/-- a task created by the previous caller operation runs its first step before the next caller
    operation does (its first step was queued first) -/
def settle (cfg : Cfg) (st : St) : St :=
  match st.task with
  | .fresh => runHead cfg (headFuel st) st
  | _ => st

def doUnsub (cfg : Cfg) (st : St) : St :=
  if st.halted then st else
  let st := settle cfg (st.emit (.call st.now .unsub))
  if st.halted then st else
  let st := unsubscribeServices st
  St.snap (st.emit (.ret st.now .unsub none))

/-- the subscribe loop of `async_subscribe_services` (nothing subscribed yet) -/
def subLoop (cfg : Cfg) (now0 : Time) : List Nat → St → St × Option Reac
  | [], st => (st, none)
  | i :: rest, st =>
    let (r, st) := send st .sub i none
    let st := { st with now := st.now + (r.lat : Int) }
    if r.reac.accepts then
      let g := r.granted.getD 0
      subLoop cfg now0 rest { st with routed := set st.routed g i, subs := set st.subs g (now0 + ms (r.tmo.secs cfg)) }
    else (st, some r.reac)

/-- `_update_resubscriber_task` when subscriptions exist -/
def startTask (cfg : Cfg) : TaskPc → TaskPc
  | .none => .fresh
  | .done => if cfg.clearDone then .fresh else .done
  | t => t

def doSub (cfg : Cfg) (n : Nat) (auto : Bool) (st : St) : St :=
  if st.halted || !st.subs.isEmpty || st.task.alive then st else
  let st := st.emit (.call st.now (.sub auto))
  let (st, err) := subLoop cfg st.now (List.range n) st
  match err with
  | some e =>
    let st := unsubscribeServices st
    St.snap (st.emit (.ret st.now (.sub auto) (some e)))
  | none =>
    let st := if st.subs.isEmpty || !auto then st else { st with task := startTask cfg st.task }
    St.snap (st.emit (.ret st.now (.sub auto) none))

inductive Op where
  | sub (auto : Bool) | wait (d : Nat) | unsub
deriving DecidableEq, Repr, Inhabited

def step (cfg : Cfg) (n : Nat) (st : St) : Op → St
  | .sub auto => doSub cfg n auto st
  | .wait d => doWait cfg d st
  | .unsub => doUnsub cfg st

def init (script : List Entry) (dflt : Entry) : St := { script, dflt }

def run (cfg : Cfg) (n : Nat) (script : List Entry) (dflt : Entry) (ops : List Op) : St :=
  ops.foldl (step cfg n) (init script dflt)

end Upnp.C12
