/-
  C12 — the service and device types each profile class is documented to support: every version from 1 up to
  the maximum defined by the UPnP AV / IGD / Printer device architectures the library targets
  (RenderingControl:3, AVTransport:3, ConnectionManager:3, ContentDirectory:4, MediaRenderer:3, MediaServer:4,
  InternetGatewayDevice:2, WANIPConnection:2, the others :1).  Pinned here; `Props/C12.lean` proves that the
  tables extracted from the source (`Gen/C12ServiceTypes.lean`) are exactly these contiguous ranges, and the
  harness builds its devices from this file.  Import-free.
-/
namespace Upnp.C12

/-- versions `1 .. n` -/
def upTo (n : Nat) : List Nat := (List.range n).map (· + 1)

/-- (profile class, alias, type prefix, highest version) -/
def serviceMax : List (List Char × List Char × List Char × Nat) :=
  [ ("ConnectionManagerMixin".toList, "CM".toList, "urn:schemas-upnp-org:service:ConnectionManager".toList, 3),
    ("DmrDevice".toList, "AVT".toList, "urn:schemas-upnp-org:service:AVTransport".toList, 3),
    ("DmrDevice".toList, "CM".toList, "urn:schemas-upnp-org:service:ConnectionManager".toList, 3),
    ("DmrDevice".toList, "RC".toList, "urn:schemas-upnp-org:service:RenderingControl".toList, 3),
    ("DmsDevice".toList, "CD".toList, "urn:schemas-upnp-org:service:ContentDirectory".toList, 4),
    ("DmsDevice".toList, "CM".toList, "urn:schemas-upnp-org:service:ConnectionManager".toList, 3),
    ("IgdDevice".toList, "L3FWD".toList, "urn:schemas-upnp-org:service:Layer3Forwarding".toList, 1),
    ("IgdDevice".toList, "WANCIC".toList, "urn:schemas-upnp-org:service:WANCommonInterfaceConfig".toList, 1),
    ("IgdDevice".toList, "WANIPC".toList, "urn:schemas-upnp-org:service:WANIPConnection".toList, 2),
    ("IgdDevice".toList, "WANPPPC".toList, "urn:schemas-upnp-org:service:WANPPPConnection".toList, 1),
    ("PrinterDevice".toList, "BASIC".toList, "urn:schemas-upnp-org:service:PrintBasic".toList, 1) ]

/-- (profile class, device type prefix, highest version) -/
def deviceMax : List (List Char × List Char × Nat) :=
  [ ("DmrDevice".toList, "urn:schemas-upnp-org:device:MediaRenderer".toList, 3),
    ("DmsDevice".toList, "urn:schemas-upnp-org:device:MediaServer".toList, 4),
    ("IgdDevice".toList, "urn:schemas-upnp-org:device:InternetGatewayDevice".toList, 2),
    ("PrinterDevice".toList, "urn:schemas-upnp-org:device:printer".toList, 1) ]

end Upnp.C12
