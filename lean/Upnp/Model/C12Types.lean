/-
  C12 — shared vocabulary of the profile-subscription model, its judge and the driver:
  publisher reactions, the observable trace events.  Import-free.

  Time is virtual time in milliseconds (`Int`).  SIDs are the publisher's running
  numbers (`uuid:s<k>`); services are numbered in device order among the profile's
  services (`0 .. n-1`; a service outside the profile is numbered `≥ 100`).
-/
namespace Upnp.C12

abbrev Sid := Nat
abbrev Time := Int

/-- TIMEOUT header of a 200 answer -/
inductive Tmo where
  | sec (n : Nat)     -- `Second-n`
  | infinite          -- `Second-infinite`
  | absent            -- no TIMEOUT header
deriving DecidableEq, Repr, Inhabited

/-- publisher reaction to one request -/
inductive Reac where
  | ok        -- 200 (SUBSCRIBE: fresh SID; renewal: the same SID; UNSUBSCRIBE: 200)
  | newSid    -- 200; a renewal is answered with another SID (initial SUBSCRIBE: like `ok`)
  | refuse    -- HTTP error status  (UpnpResponseError)
  | unreach   -- UpnpConnectionError (device unreachable)
  | comm      -- UpnpCommunicationError that is not a connection error
deriving DecidableEq, Repr, Inhabited

def Reac.accepts : Reac → Bool
  | .ok | .newSid => true
  | _ => false

/-- one entry of the publisher script: reaction, granted timeout, latency (ms) of the reply -/
structure Entry where
  reac : Reac
  tmo : Tmo
  lat : Nat
deriving DecidableEq, Repr, Inhabited

inductive Kind where
  | sub | renew | unsub
deriving DecidableEq, Repr, Inhabited

/-- a request as logged by the publisher on arrival, with what it decided to answer -/
structure Req where
  t : Time
  kind : Kind
  svc : Nat
  sid : Option Sid        -- SID header of the request
  reac : Reac
  tmo : Tmo
  lat : Nat
  granted : Option Sid    -- SID header of the (200) answer
deriving DecidableEq, Repr, Inhabited

inductive CallK where
  | sub (auto : Bool) | unsub
deriving DecidableEq, Repr, Inhabited

/-- result of a caller operation: `none` = returned normally, `some r` = raised the error
    belonging to publisher reaction `r` (refuse ↦ UpnpResponseError, unreach ↦ UpnpConnectionError,
    comm ↦ UpnpCommunicationError) -/
abbrev Res := Option Reac

inductive Ev where
  | req (r : Req)
  | cb (t : Time) (svc : Nat) (nvars : Nat) (avail : Bool)   -- on_event callback; `avail` read inside it
  | call (t : Time) (c : CallK)
  | ret (t : Time) (c : CallK) (res : Res)
  /-- after every caller operation: profile bookkeeping (dict order), handler routing table
      (sorted), renewal task alive, device.available -/
  | snap (t : Time) (subs : List Sid) (routed : List Sid) (task : Bool) (avail : Bool)
  | spin (t : Time)      -- the renewal loop did not yield (watchdog / fuel)
deriving DecidableEq, Repr, Inhabited

/-- constants and loop shapes taken from profiles/profile.py by the translator -/
structure Cfg where
  subTimeout : Nat      -- SUBSCRIBE_TIMEOUT in seconds
  tol : Nat             -- RESUBSCRIBE_TOLERANCE in seconds
  skipStale : Bool      -- `if renewal_time < now - tolerance: continue` present in the renewal round
  delEarly : Bool       -- bookkeeping entry deleted before the renewal request is awaited
  clearDone : Bool      -- a finished renewal task is forgotten (`.done()`), not only a cancelled one
deriving DecidableEq, Repr, Inhabited

def Tmo.secs (cfg : Cfg) : Tmo → Nat
  | .sec n => n
  | _ => cfg.subTimeout

end Upnp.C12
