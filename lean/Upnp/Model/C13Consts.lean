/-
  C13 — the model's constants, taken from the generated file (what `server.py` says now).
  Import-free apart from Gen and the model.
-/
import Upnp.Gen.C13Server
import Upnp.Model.C13Server
namespace Upnp.C13

def genConsts : Consts :=
  { mxCap := Gen.C13Server.mxCap, jitterLo := Gen.C13Server.jitterLo, jitterHiOff := Gen.C13Server.jitterHiOff,
    guardTruthy := Gen.C13Server.guardTruthy, sendNowAlso := Gen.C13Server.sendNowAlso,
    announceMs := Gen.C13Server.announceMs }

end Upnp.C13
