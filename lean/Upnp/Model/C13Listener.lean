/-
  C13 — the library's own listener as far as it decides whether one SSDP message is accepted and
  which device at which location it then reports: `ssdp.udn_from_usn`, the `_udn` computed by
  `ssdp._cached_decode_ssdp_packet`, `ssdp_listener.valid_search_headers /
  valid_advertisement_headers / valid_byebye_headers`, `SsdpDeviceTracker.see_search /
  see_advertisement / unsee_advertisement` on a tracker that knows nothing (search, alive) or has
  just seen the matching alive (byebye).  Header parsing (aiohttp) is not modelled: the inputs are
  header values.  Import-free apart from `C13Str`.
-/
import Upnp.Model.C13Str
namespace Upnp.C13

/-- `udn_from_usn` -/
def udnFromUsn (usn : Str) : Option Str :=
  if startsWith (lower usn) "uuid:".toList then some (beforeSep2 ':' ':' usn) else none

/-- the location test shared by `valid_search_headers` and `valid_advertisement_headers` -/
def validLocation (loc : Str) : Bool :=
  !loc.isEmpty && startsWith loc "http".toList
  && !(isInfix "://127.0.0.1".toList loc || isInfix "://[::1]".toList loc || isInfix "://169.254".toList loc)

/-- what the listener reports to its callback for one datagram (`accepted = false`: no callback) -/
structure Heard where
  accepted : Bool
  udn : Str        -- `ssdp_device.udn`
  dst : Str        -- device-or-service type passed to the callback
  location : Str   -- `ssdp_device.location`
  kind : Nat       -- 0 search, 1 advertisement alive, 2 advertisement byebye
deriving Repr, BEq, DecidableEq

def Heard.no : Heard := ⟨false, [], [], [], 0⟩

/-- a search response heard by a listener that knows no device -/
def hearSearch (st usn loc : Str) : Heard :=
  match udnFromUsn usn with
  | some udn => if !udn.isEmpty && !st.isEmpty && validLocation loc then ⟨true, udn, st, loc, 0⟩ else .no
  | none => .no

/-- an `ssdp:alive` heard by a listener that knows no device -/
def hearAlive (nt usn loc : Str) : Heard :=
  match udnFromUsn usn with
  | some udn => if !udn.isEmpty && !nt.isEmpty && validLocation loc then ⟨true, udn, nt, loc, 1⟩ else .no
  | none => .no

/-- an `ssdp:byebye` heard by a listener that has just heard the `ssdp:alive` with the same
    NT / USN / LOCATION (a byebye for an unknown device is not reported) -/
def hearByebye (nt usn loc : Str) : Heard :=
  let a := hearAlive nt usn loc
  if a.accepted then { a with kind := 2 } else .no

end Upnp.C13
