/-
  C13 — the library's own listener, composed from the merged C03/C04 model: one of the server's
  datagrams (its header list) is taken through what `ssdp.decode_ssdp_packet` adds (`decoded`),
  then through the C03 model of `SsdpSearchListener._on_data` / `SsdpAdvertisementListener._on_data`
  (`C03.Parse.parseEv`, with the validity predicates `Msg.validSearch / validAdv / validByebye`,
  `udn_from_usn`, the location test with the needles generated from `ssdp_listener.py`) and of
  `SsdpDeviceTracker` + `SsdpListener._on_*` (`C03.step`) on a tracker that knows nothing (search
  answer, alive) or has just processed the matching alive (byebye).  `Heard` is what the user
  callback then sees.  Header parsing (aiohttp) is not modelled.  Import-free apart from models.
-/
import Upnp.Model.C13Server
import Upnp.Spec.C03Cfg
namespace Upnp.C13
open Upnp

def toS (s : Str) : String := String.ofList s

/-- what the listener reports to its callback for one datagram (`accepted = false`: no callback) -/
structure Heard where
  accepted : Bool
  udn : Str        -- `ssdp_device.udn`
  dst : Str        -- device-or-service type passed to the callback
  location : Str   -- `ssdp_device.location`
  kind : Nat       -- 0 search, 1 advertisement alive, 2 advertisement byebye, 3 update
deriving Repr, BEq, DecidableEq

def Heard.no : Heard := ⟨false, [], [], [], 0⟩

/-- `parsed_headers.get(name)` (name given folded) -/
def hdr? (hs : List (Str × Str)) (name : Str) : Option Str :=
  (hs.find? fun h => lower h.1 == name).map (·.2)

/-- `s.strip()` is non-empty -/
def hasText (s : Str) : Bool := s.any fun c => !isSpace c

/-- the sender the harness uses (IPv4, so `get_adjusted_url` is the identity) -/
def senderHost : String := "192.168.1.5"

/-- the header items that reach `_on_data`: the parsed headers plus what
    `_cached_decode_ssdp_packet` / `decode_ssdp_packet` add -/
def decoded (hs : List (Str × Str)) : List (String × String) :=
  let loc := (hdr? hs "location".toList).getD []
  let udn : Option String := match hdr? hs "usn".toList with
    | some u => if u.isEmpty then none else C03.Parse.udnFromUsn (toS u)
    | none => none
  (hs.map fun h => (toS h.1, toS h.2))
  ++ [("_host", senderHost)]
  ++ (match udn with
      | some u => if u.isEmpty then [] else [("_udn", u)]
      | none => [])
  ++ (if hasText loc then [("_location_original", toS loc), ("location", toS loc)] else [])
  ++ [("_timestamp", "0"), ("_remote_addr", senderHost), ("_port", "1900"), ("_local_addr", "-")]

def srcCode : C03.Source → Nat
  | .searchChanged => 0
  | .searchAlive => 0
  | .advAlive => 1
  | .advByebye => 2
  | .advUpdate => 3

/-- one datagram through the listener model; `sockA`: it arrived on the advertisement socket -/
def listen (s : C03.Tracker String) (sockA : Bool) (hs : List (Str × Str)) :
    C03.Tracker String × Option (C03.Notif String) :=
  C03.step C03.Parse.ipVersion (C03.Parse.skipHdr C03.genCfg) s (C03.Parse.parseEv C03.genCfg sockA (decoded hs))

/-- the callback's view: device UDN, type, `ssdp_device.location` (the device has one location here) -/
def notifHeard (n : Option (C03.Notif String)) : Heard :=
  match n with
  | some n => ⟨true, n.udn.toList, n.ty.toList, ((n.dev.locs.head?).map (·.1.toList)).getD [], srcCode n.source⟩
  | none => .no

/-- a search answer heard by a listener that knows no device -/
def hearResponse (c : Cfg) (m : Msg) : Heard := notifHeard (listen {} false (responseHeaders c m)).2

/-- an `ssdp:alive` heard by a listener that knows no device -/
def hearAlive (c : Cfg) (m : Msg) : Heard := notifHeard (listen {} true (notifyHeaders c ntsAlive m)).2

/-- an `ssdp:byebye` heard by a listener that has just heard the matching `ssdp:alive` -/
def hearByebye (c : Cfg) (m : Msg) : Heard :=
  notifHeard (listen (listen {} true (notifyHeaders c ntsAlive m)).1 true (notifyHeaders c ntsByebye m)).2

/-- the location test of `valid_search_headers` / `valid_advertisement_headers`
    (`ssdp_listener.is_usable_location`): literally the merged listener model's `locUsable`, with
    the scheme list and loopback names generated from `ssdp_listener.py`, applied to the text -/
def validLocation (loc : Str) : Bool :=
  C03.Parse.locUsable C03.genCfg.searchPrefix C03.genCfg.schemes C03.genCfg.loopbackNames (toS loc)

/-- `udn_from_usn` on `Str` (shown equal to the C03 model's in `Lemmas/C13Listener.lean`) -/
def udnFromUsn (usn : Str) : Option Str :=
  if startsWith (lower usn) "uuid:".toList then some (beforeSep2 ':' ':' usn) else none

end Upnp.C13
