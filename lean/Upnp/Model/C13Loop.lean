/-
  C13 — the search responder on the event loop, as a state machine over a history of events
  (clock advances and datagram receptions): `_on_data` either sends at once or leaves a `call_at`
  timer; advancing the clock fires the timers that are due (`_send_responses`).
  `outsFrom` is what the per-request function `answer` prescribes for the same history.
  Import-free apart from the C13 model.
-/
import Upnp.Model.C13Server
namespace Upnp.C13

/-- a datagram on the response socket -/
structure Out where
  time : Int
  dest : Str
  msg : Msg
deriving Repr, DecidableEq

/-- a pending `call_at(due, _send_responses, dest, msgs)` -/
structure Timer where
  due : Int
  dest : Str
  msgs : List Msg
deriving Repr

structure Loop where
  now : Int := 0
  timers : List Timer := []
  log : List Out := []          -- everything sent so far, in send order
  raisedAt : List Int := []     -- reception times at which the handler raised
deriving Repr

inductive Ev where
  | advance (dt : Nat)                                        -- the clock moves on by `dt` ms
  | recv (requester : Str) (req : Req) (sel : Option Nat)     -- a datagram arrives now
deriving Repr

def fire (tm : Timer) : List Out := tm.msgs.map fun m => ⟨tm.due, tm.dest, m⟩

def stepLoop (k : Consts) (t : DevTree) (s : Loop) : Ev → Loop
  | .advance dt =>
    let now' := s.now + Int.ofNat dt
    { s with now := now',
             timers := s.timers.filter (fun tm => !decide (tm.due ≤ now')),
             log := s.log ++ (s.timers.filter (fun tm => decide (tm.due ≤ now'))).flatMap fire }
  | .recv r req sel =>
    match onData k t req with
    | .ignore => s
    | .send nowToo later msgs =>
      let immediate : List Out := if nowToo then msgs.map fun m => ⟨s.now, r, m⟩ else []
      match later with
      | none => { s with log := s.log ++ immediate }
      | some (lo, hi) =>
        match pickJitter lo hi sel with
        | none => { s with raisedAt := s.raisedAt ++ [s.now] }   -- randrange raises before anything is sent
        | some j => { s with timers := s.timers ++ [⟨s.now + j, r, msgs⟩], log := s.log ++ immediate }

def runLoop (k : Consts) (t : DevTree) (s : Loop) (evs : List Ev) : Loop := evs.foldl (stepLoop k t) s

/-- the datagrams `answer` prescribes for one reception -/
def outsOf (k : Consts) (t : DevTree) (now : Int) (r : Str) (req : Req) (sel : Option Nat) : List Out :=
  ((answer k t now req sel).getD []).map fun s => ⟨s.time, r, s.msg⟩

/-- … and for a whole history starting at `now` -/
def outsFrom (k : Consts) (t : DevTree) : Int → List Ev → List Out
  | _, [] => []
  | now, .advance dt :: r => outsFrom k t (now + Int.ofNat dt) r
  | now, .recv rq req sel :: r => outsOf k t now rq req sel ++ outsFrom k t now r

/-- the receptions of a history, each with its reception time: (time, requester, request, jitter choice) -/
def recvsFrom : Int → List Ev → List (Int × Str × Req × Option Nat)
  | _, [] => []
  | now, .advance dt :: r => recvsFrom (now + Int.ofNat dt) r
  | now, .recv rq req sel :: r => (now, rq, req, sel) :: recvsFrom now r

end Upnp.C13
