/-
  C13 — the model run as a whole case: a device tree, any number of searches (each with its
  reception time, requester and jitter choice) and an announcer run (start, how long, stopped or
  not), producing the same observation record (`CaseObs`) the harness extracts from the real code.
  Import-free apart from the C13 model/spec files.
-/
import Upnp.Spec.C13
namespace Upnp.C13

structure SearchIn where
  time : Int
  requester : Str
  req : Req
  sel : Option Nat        -- jitter choice of the harness' `randrange` stand-in
deriving Repr

structure AnnIn where
  start : Int             -- when `_announce_next` first ran
  upto : Int             -- stop time, or the end of the observation
  stopped : Bool          -- `async_stop` was called at `upto`
deriving Repr

def obsResponse (cfg : Cfg) (dest : Str) (s : Sent) : ObsMsg :=
  { time := s.time, dest := dest, startLine := okLine, st := s.msg.st, usn := s.msg.usn, nts := [],
    location := cfg.location, heard := hearResponse cfg s.msg }

def obsAlive (cfg : Cfg) (target : Str) (s : Sent) : ObsMsg :=
  { time := s.time, dest := target, startLine := notifyLine, st := s.msg.st, usn := s.msg.usn,
    nts := ntsAlive, location := cfg.location, heard := hearAlive cfg s.msg }

def obsByebye (cfg : Cfg) (target : Str) (time : Int) (m : Msg) : ObsMsg :=
  { time := time, dest := target, startLine := notifyLine, st := m.st, usn := m.usn,
    nts := ntsByebye, location := cfg.location, heard := hearByebye cfg m }

def runSearch (k : Consts) (t : DevTree) (i : SearchIn) : SearchObs :=
  { time := i.time, requester := i.requester, req := i.req,
    raised := (answer k t i.time i.req i.sel).isNone }

/-- the datagrams one request causes -/
def sendsOf (k : Consts) (cfg : Cfg) (t : DevTree) (i : SearchIn) : List ObsMsg :=
  ((answer k t i.time i.req i.sel).getD []).map (obsResponse cfg i.requester)

/-- number of announcements in `[start, upto]`: one at `start`, then one per interval -/
def ticks (k : Consts) (a : AnnIn) : Nat :=
  if a.upto < a.start then 0 else ((a.upto - a.start) / Int.ofNat k.announceMs).toNat + 1

def runCase (k : Consts) (cfg : Cfg) (target : Str) (t : DevTree) (searches : List SearchIn)
    (ann : Option AnnIn) : CaseObs :=
  { tree := t, alwaysRoot := k.alwaysRoot, location := cfg.location, target := target,
    searches := searches.map (runSearch k t),
    responses := searches.flatMap (sendsOf k cfg t),   -- grouped by request; the judge ignores the order
    alives := match ann with
      | none => []
      | some a => (alives k t (ticks k a)).map fun s => obsAlive cfg target { s with time := a.start + s.time },
    stopTime := match ann with
      | some a => if a.stopped then some a.upto else none
      | none => none,
    annUpto := ann.map (·.upto),
    annStart := ann.map (·.start),
    maxAgeMs := maxAgeOf cfg.cacheControl,
    byebyes := match ann with
      | some a => if a.stopped then (byebyes t).map (obsByebye cfg target a.upto) else []
      | none => [] }

/-! ### reading a datagram back (inverse of `packet` for header names without `:` and text without
    line breaks) — used to turn the implementation's datagrams into `ObsMsg` -/

/-- split at every CR LF -/
def splitCrlf : Str → List Str
  | [] => [[]]
  | '\r' :: '\n' :: r => [] :: splitCrlf r
  | c :: r => match splitCrlf r with
    | [] => [[c]]
    | l :: ls => (c :: l) :: ls

/-- split a header line at the first `:` -/
def splitColon : Str → Option (Str × Str)
  | [] => none
  | c :: r => if c = ':' then some ([], r) else (splitColon r).map fun p => (c :: p.1, p.2)

def parsePacket (p : Str) : Option (Str × List (Str × Str)) :=
  match splitCrlf p with
  | line :: rest => some (line, (rest.filter (· ≠ [])).filterMap splitColon)
  | [] => none

def header (hs : List (Str × Str)) (name : Str) : Str :=
  match hs.find? (fun h => lower h.1 == name) with
  | some h => h.2
  | none => []

end Upnp.C13
