/-
  C13 — executable model of the SSDP side of `server.py`:
  `UpnpServerDevice` tree construction (`UpnpDevice.__init__` keeps services / embedded devices in
  dicts keyed by type), `all_devices`, `all_services`, `get_devices_matching_udn`,
  `SsdpSearchResponder._on_data / _build_responses / _match_type_versions / _build_response*`,
  `_build_advertisements`, `SsdpAdvertisementAnnouncer._announce_next / async_stop`.
  Transcribed from the code, quirks included.  Import-free apart from the shared models.
-/
import Upnp.Model.PyDict
import Upnp.Model.C13Str
namespace Upnp.C13
open Upnp

/-! ### device tree -/

/-- the instantiated device tree (`device.services.values()`, `device.embedded_devices.values()`) -/
inductive DevTree where
  | node (udn type : Str) (services : List Str) (children : List DevTree)
deriving Repr, BEq, Inhabited

def DevTree.udn : DevTree → Str | .node u _ _ _ => u
def DevTree.type : DevTree → Str | .node _ t _ _ => t
def DevTree.services : DevTree → List Str | .node _ _ s _ => s
def DevTree.children : DevTree → List DevTree | .node _ _ _ c => c

/-- one device of the flattened tree -/
structure Dev where
  udn : Str
  type : Str
  services : List Str
deriving Repr, BEq, DecidableEq

/-- one service of the flattened tree with the UDN of the device that owns it (`service.device`) -/
structure Svc where
  owner : Str
  type : Str
deriving Repr, BEq, DecidableEq

/-- a device class tree as declared (`DEVICE_DEFINITION`, `SERVICES` with their service ids,
    `EMBEDDED_DEVICES`) -/
inductive ClsTree where
  | node (udn type : Str) (services : List (Str × Str)) (children : List ClsTree)
deriving Repr, Inhabited

/-- the dicts of `UpnpDevice.__init__`: an item is stored under `key`; when that key is already
    taken, under `key#alt` (service id / UDN) — which overwrites, in place, an earlier item stored
    under the same `key#alt`.  Result: the dict's values in order. -/
def keyedValues {α : Type} (key alt : α → Str) (xs : List α) : List α :=
  (xs.foldl (fun (d : PyDict Str α) x =>
      let k := key x
      PyDict.set d (if PyDict.contains d k then k ++ '#' :: alt x else k) x) []).map (·.2)

mutual
/-- `UpnpServerDevice.__init__` / `UpnpDevice.__init__`: instantiate the class tree; services and
    embedded devices that share a type are all kept -/
def build : ClsTree → DevTree
  | .node u t s cs =>
    .node u t ((keyedValues (·.1) (·.2) s).map (·.1)) (keyedValues DevTree.type DevTree.udn (buildL cs))
def buildL : List ClsTree → List DevTree
  | [] => []
  | c :: cs => build c :: buildL cs
end

mutual
/-- `UpnpDevice.all_devices`: self, then each embedded device's `all_devices` (pre-order) -/
def allDevices : DevTree → List Dev
  | .node u t s cs => ⟨u, t, s⟩ :: allDevicesL cs
def allDevicesL : List DevTree → List Dev
  | [] => []
  | c :: cs => allDevices c ++ allDevicesL cs
end

/-- `UpnpDevice.all_services` -/
def allServices (t : DevTree) : List Svc :=
  (allDevices t).flatMap fun d => d.services.map fun s => ⟨d.udn, s⟩

mutual
/-- `UpnpDevice.get_devices_matching_udn(udn)` (the argument is already lower-cased by the caller) -/
def devicesMatchingUdn (st : Str) : DevTree → List Dev
  | .node u t s cs =>
    (if lower u = st then [⟨u, t, s⟩] else []) ++ devicesMatchingUdnL st cs
def devicesMatchingUdnL (st : Str) : List DevTree → List Dev
  | [] => []
  | c :: cs => devicesMatchingUdn st c ++ devicesMatchingUdnL st cs
end

/-! ### messages -/

/-- what distinguishes one SSDP message of this server from another -/
structure Msg where
  st : Str      -- ST (responses) / NT (advertisements)
  usn : Str
deriving Repr, BEq, DecidableEq

def ssdpAll : Str := "ssdp:all".toList
def rootDevice : Str := "upnp:rootdevice".toList
def sep : Str := "::".toList

/-- `_build_response_rootdevice` -/
def respRoot (t : DevTree) : Msg := ⟨rootDevice, t.udn ++ sep ++ rootDevice⟩
/-- `_build_responses_device_udn` -/
def respUdn (d : Dev) : Msg := ⟨d.udn, d.udn⟩
/-- Python `a or b` on strings -/
def strOr (a : Option Str) (b : Str) : Str :=
  match a with
  | some (c :: r) => c :: r
  | _ => b
/-- `_build_responses_device_type(device, device_type=None)` -/
def respDevType (echo : Option Str) (d : Dev) : Msg := ⟨strOr echo d.type, d.udn ++ sep ++ d.type⟩
/-- `_build_responses_service(service, service_type=None)` -/
def respSvc (echo : Option Str) (s : Svc) : Msg := ⟨strOr echo s.type, s.owner ++ sep ++ s.type⟩

/-- `_match_type_versions(type_ver, search_target)` -/
def matchTypeVersions (typeVer st : Str) : Bool :=
  let tl := lower typeVer
  match rsplitColon tl with
  | none => tl == st                                  -- unpacking raises ValueError
  | some (base, ver) =>
    match pyInt? ver with
    | none => tl == st                                -- int() raises ValueError
    | some (.ofNat maxVer) => (List.range (maxVer + 1)).any fun v => (base ++ ':' :: decimal v) == st
    | some (.negSucc _) => false                      -- empty range

/-- `_build_responses(headers)` given the ST header value (`""` when absent); `alwaysRoot` is the
    responder option `ssdp_search_responder_always_rootdevice` (the other option constants,
    `search_headers` / `advertisement_headers`, are defined in `server.py` but never read) -/
def buildResponses (t : DevTree) (alwaysRoot : Bool) (stHeader : Str) : List Msg :=
  let st := lower stHeader
  let devs := allDevices t
  let svcs := allServices t
  (if st = ssdpAll then
    respRoot t :: (devs.map respUdn ++ devs.map (respDevType none) ++ svcs.map (respSvc none))
  else if st = rootDevice then [respRoot t]
  else (devicesMatchingUdn st t).map respUdn
    ++ (devs.filter (fun d => matchTypeVersions d.type st)).map (respDevType (some st))
    ++ (svcs.filter (fun s => matchTypeVersions s.type st)).map (respSvc (some st)))
  ++ (if alwaysRoot then [respRoot t] else [])

/-- `_build_advertisements`: (NT, USN) list in emission order -/
def advertisements (t : DevTree) : List Msg :=
  ⟨rootDevice, t.udn ++ sep ++ rootDevice⟩
    :: (((allDevices t).flatMap fun d => [⟨d.udn, d.udn⟩, ⟨d.type, d.udn ++ sep ++ d.type⟩])
    ++ (allServices t).map fun s => ⟨s.type, s.owner ++ sep ++ s.type⟩)

/-! ### the search responder's datagram handler -/

/-- how an option key occurs in the responder's / announcer's `options` dict -/
inductive OptVal where
  | absent          -- key missing (or `options=None` / `{}`)
  | falsy           -- key present with a falsy value (`False`, `None`, `0`, `""`, `{}`)
  | truthy          -- key present with a truthy value
deriving Repr, DecidableEq

/-- `if self.options.get(KEY):` — the code reads its options by truthiness, not by presence -/
def OptVal.isSet : OptVal → Bool
  | .truthy => true
  | _ => false

/-- constants and control shape of `_on_data` (taken from the source by `Gen/C13Server.lean`) -/
structure Consts where
  mxCap : Nat
  jitterLo : Int          -- milliseconds
  jitterHiOff : Int       -- milliseconds subtracted from delay*1000
  guardTruthy : Bool      -- the delayed send is selected by `if delay:` (true) or `if delay > 0:` (false)
  sendNowAlso : Bool      -- `_send_responses` also runs after the delayed send was scheduled
  announceMs : Nat        -- ANNOUNCE_INTERVAL in milliseconds
  alwaysRoot : Bool := false  -- responder option `ssdp_search_responder_always_rootdevice` (not from the source)

/-- an incoming request as `_on_data` sees it -/
structure Req where
  line : Str
  man : Option Str
  st : Option Str
  mx : Option Str
deriving Repr, BEq, DecidableEq

def mSearchLine : Str := "M-SEARCH * HTTP/1.1".toList
def ssdpDiscover : Str := "\"ssdp:discover\"".toList

/-- `delay` of `_on_data`: `min(cap, int(mx))`, `0` when MX is absent or not an integer -/
def delayOf (k : Consts) (mx : Option Str) : Int :=
  match mx with
  | none => 0
  | some s => match pyInt? s with
    | none => 0
    | some v => min (Int.ofNat k.mxCap) v

/-- what `_on_data` does with a request -/
inductive Plan where
  | ignore                                   -- not an M-SEARCH / nothing to answer
  /-- `later = some (lo, hi)`: `call_at(time() + randrange(lo, hi)/1000, _send_responses, ...)`;
      `now`: `_send_responses` immediately (after scheduling, if both) -/
  | send (now : Bool) (later : Option (Int × Int)) (msgs : List Msg)
deriving Repr

def onData (k : Consts) (t : DevTree) (r : Req) : Plan :=
  if r.line ≠ mSearchLine ∨ r.man ≠ some ssdpDiscover then .ignore
  else
    let delay := delayOf k r.mx
    match buildResponses t k.alwaysRoot (r.st.getD []) with
    | [] => .ignore
    | m :: ms =>
      let delayed : Bool := if k.guardTruthy then delay != 0 else decide (delay > 0)
      if delayed then .send k.sendNowAlso (some (k.jitterLo, delay * 1000 - k.jitterHiOff)) (m :: ms)
      else .send true none (m :: ms)

/-- the value the harness' `randrange` stand-in returns: `hi-1` for `none`, else `lo + n mod (hi-lo)`;
    `none` when the range is empty (the real `randrange` raises ValueError) -/
def pickJitter (lo hi : Int) (sel : Option Nat) : Option Int :=
  if hi ≤ lo then none
  else match sel with
    | none => some (hi - 1)
    | some n => some (lo + (Int.ofNat n) % (hi - lo))

/-- a datagram leaving the responder: virtual send time (ms), message -/
structure Sent where
  time : Int
  msg : Msg
deriving Repr, BEq, DecidableEq

/-- all datagrams caused by one request received at `now` (ms), jitter choice `sel`, in send order;
    `none` = the handler raises -/
def answer (k : Consts) (t : DevTree) (now : Int) (r : Req) (sel : Option Nat) : Option (List Sent) :=
  match onData k t r with
  | .ignore => some []
  | .send nowToo later ms =>
    let immediate := if nowToo then ms.map fun m => (⟨now, m⟩ : Sent) else []
    match later with
    | none => some immediate
    | some (lo, hi) => (pickJitter lo hi sel).map fun j => immediate ++ ms.map fun m => ⟨now + j, m⟩

/-! ### the announcer -/

/-- the `n`-th `ssdp:alive` (`next(cycle(advertisements))`); the list is never empty -/
def aliveAt (t : DevTree) (n : Nat) : Msg :=
  let ads := advertisements t
  (ads[n % ads.length]?).getD ⟨[], []⟩

/-- the first `n` announcements with their send times relative to the start (ms):
    `_announce_next` sends one and re-arms itself with `call_later(ANNOUNCE_INTERVAL)` -/
def alives (k : Consts) (t : DevTree) (n : Nat) : List Sent :=
  (List.range n).map fun i => ⟨Int.ofNat (i * k.announceMs), aliveAt t i⟩

/-- `_send_byebyes` -/
def byebyes (t : DevTree) : List Msg := advertisements t

/-! ### wire format (`build_ssdp_packet`) -/

structure Cfg where
  baseUri : Str
  deviceUrl : Str
  server : Str          -- HEADER_SERVER
  cacheControl : Str    -- HEADER_CACHE_CONTROL
  date : Str            -- format_date_time(time.time()) under the harness' clock
  bootId : Str
  configId : Str
  host : Str            -- HOST of advertisements
deriving Repr

def Cfg.location (c : Cfg) : Str := c.baseUri ++ c.deviceUrl

def crlf : Str := ['\r', '\n']

def packet (startLine : Str) (headers : List (Str × Str)) : Str :=
  startLine ++ crlf ++ (crlf.intercalate (headers.map fun h => h.1 ++ ':' :: h.2)) ++ crlf ++ crlf

/-- `_build_response` -/
def responseHeaders (c : Cfg) (m : Msg) : List (Str × Str) :=
  [("CACHE-CONTROL".toList, c.cacheControl), ("DATE".toList, c.date), ("SERVER".toList, c.server),
   ("ST".toList, m.st), ("USN".toList, m.usn), ("EXT".toList, []), ("LOCATION".toList, c.location),
   ("BOOTID.UPNP.ORG".toList, c.bootId), ("CONFIGID.UPNP.ORG".toList, c.configId)]

def responsePacket (c : Cfg) (m : Msg) : Str := packet "HTTP/1.1 200 OK".toList (responseHeaders c m)

/-- one entry of `_build_advertisements` as `build_ssdp_packet` serialises it -/
def notifyHeaders (c : Cfg) (nts : Str) (m : Msg) : List (Str × Str) :=
  [("NTS".toList, nts), ("HOST".toList, c.host), ("CACHE-CONTROL".toList, c.cacheControl),
   ("SERVER".toList, c.server), ("BOOTID.UPNP.ORG".toList, c.bootId),
   ("CONFIGID.UPNP.ORG".toList, c.configId), ("LOCATION".toList, c.location),
   ("NT".toList, m.st), ("USN".toList, m.usn)]

def notifyPacket (c : Cfg) (nts : Str) (m : Msg) : Str :=
  packet "NOTIFY * HTTP/1.1".toList (notifyHeaders c nts m)

def ntsAlive : Str := "ssdp:alive".toList
def ntsByebye : Str := "ssdp:byebye".toList

end Upnp.C13
