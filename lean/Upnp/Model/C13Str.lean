/-
  C13 — text helpers for the SSDP server model.  Text is `List Char` (`Str`) so that proofs and
  `decide` work; the driver converts at the boundary.  ASCII only: `lower` is Python's
  `str.lower()` restricted to ASCII input (assumption recorded in the harness).
  Import-free (linked into the driver).
-/
namespace Upnp.C13

abbrev Str := List Char

def lowerC (c : Char) : Char :=
  if 65 ≤ c.toNat ∧ c.toNat ≤ 90 then Char.ofNat (c.toNat + 32) else c

/-- `str.lower()` on ASCII text -/
def lower (s : Str) : Str := s.map lowerC

/-- `a.startswith(p)` -/
def startsWith : Str → Str → Bool
  | _, [] => true
  | [], _ :: _ => false
  | a :: s, b :: p => a == b && startsWith s p

/-- `needle in s` -/
def isInfix (needle : Str) : Str → Bool
  | [] => needle.isEmpty
  | c :: s => startsWith (c :: s) needle || isInfix needle s

/-- `s.partition(sep)[0]` for a two-character separator `ab` -/
def beforeSep2 (a b : Char) : Str → Str
  | [] => []
  | [c] => [c]
  | c :: d :: r => if c = a ∧ d = b then [] else c :: beforeSep2 a b (d :: r)

/-- no `::` inside `u` and `u` does not end in `:` -/
def noSep : Str → Bool
  | [] => true
  | [c] => c != ':'
  | c :: d :: r => !(c == ':' && d == ':') && noSep (d :: r)

/-! ### decimal numerals -/

def digitChar (d : Nat) : Char := Char.ofNat (48 + d)

def isDigit (c : Char) : Bool := 48 ≤ c.toNat && c.toNat ≤ 57

/-- `str(n)` with explicit fuel (structural, so that `decide` can evaluate it) -/
def decimalF : Nat → Nat → Str
  | 0, n => [digitChar (n % 10)]
  | f + 1, n => if n < 10 then [digitChar n] else decimalF f (n / 10) ++ [digitChar (n % 10)]

/-- `str(n)` / `f"{n}"` for a natural number -/
def decimal (n : Nat) : Str := decimalF n n

/-- value of a digit string, most significant first (no validation) -/
def natOfDigits (s : Str) : Nat := s.foldl (fun acc c => acc * 10 + (c.toNat - 48)) 0

/-- canonical decimal numeral (what `decimal` prints): non-empty, digits only, no leading zero
    unless it is `0` itself -/
def canonNat? (s : Str) : Option Nat :=
  match s with
  | [] => none
  | c :: r =>
    if (c :: r).all isDigit && (c != '0' || r.isEmpty) then some (natOfDigits (c :: r)) else none

/-! ### Python `int(str)` on ASCII text: surrounding whitespace, one sign, digit groups separated
    by single underscores.  (The 4300-digit limit and non-ASCII digits are outside the model.) -/

def isSpace (c : Char) : Bool :=
  let n := c.toNat
  n = 32 || n = 9 || n = 10 || n = 13 || n = 11 || n = 12 || (28 ≤ n && n ≤ 31)

def stripL : Str → Str
  | [] => []
  | c :: r => if isSpace c then stripL r else c :: r

def strip (s : Str) : Str := (stripL (stripL s).reverse).reverse

/-- digits with single underscores between digits; `prevDigit` = the previous char was a digit -/
def digitsU (acc : Nat) (prevDigit : Bool) : Str → Option Nat
  | [] => if prevDigit then some acc else none
  | c :: r =>
    if isDigit c then digitsU (acc * 10 + (c.toNat - 48)) true r
    else if c = '_' ∧ prevDigit then digitsU acc false r
    else none

def pyInt? (s : Str) : Option Int :=
  match strip s with
  | '-' :: r => (digitsU 0 false r).map fun n => - (Int.ofNat n)
  | '+' :: r => (digitsU 0 false r).map Int.ofNat
  | r => (digitsU 0 false r).map Int.ofNat

/-! ### `rsplit(":", 1)` -/

/-- split at the LAST `:`; `none` when there is no `:` (Python: the 2-tuple unpacking raises) -/
def rsplitColon : Str → Option (Str × Str)
  | [] => none
  | c :: r =>
    match rsplitColon r with
    | some (a, b) => some (c :: a, b)
    | none => if c = ':' then some ([], r) else none

end Upnp.C13
