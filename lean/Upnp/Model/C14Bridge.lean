/-
  C14 ↔ C05 bridge: the documents the C14 server model serves (`serializeVar/Act/Scpd/Dev`, trees
  with textual names) translated into the symbolic trees `client_factory`'s merged model
  (`Model/C05Factory.lean`) reads, and the abstract description (`C05.ScpdSpec`) those documents
  denote.  Import-free apart from the two models (linked into the driver).
-/
import Upnp.Model.C14Server
import Upnp.Model.C05Factory
import Upnp.Spec.C05
namespace Upnp.C14
open Upnp

def tagTable : List (String × C05.Tag) :=
  [("root", .root), ("device", .device), ("deviceType", .deviceType), ("friendlyName", .friendlyName),
   ("manufacturer", .manufacturer), ("manufacturerURL", .manufacturerURL), ("modelDescription", .modelDescription),
   ("modelName", .modelName), ("modelNumber", .modelNumber), ("modelURL", .modelURL), ("serialNumber", .serialNumber),
   ("UDN", .UDN), ("UPC", .UPC), ("presentationURL", .presentationURL), ("iconList", .iconList), ("icon", .icon),
   ("mimetype", .mimetype), ("width", .width), ("height", .height), ("depth", .depth), ("url", .url),
   ("serviceList", .serviceList), ("service", .service), ("serviceType", .serviceType), ("serviceId", .serviceId),
   ("controlURL", .controlURL), ("eventSubURL", .eventSubURL), ("SCPDURL", .SCPDURL), ("deviceList", .deviceList),
   ("scpd", .scpd), ("serviceStateTable", .serviceStateTable), ("stateVariable", .stateVariable), ("name", .name),
   ("dataType", .dataType), ("defaultValue", .defaultValue), ("allowedValueRange", .allowedValueRange),
   ("minimum", .minimum), ("maximum", .maximum), ("step", .step), ("allowedValueList", .allowedValueList),
   ("allowedValue", .allowedValue), ("sendEventsAttribute", .sendEventsAttribute), ("actionList", .actionList),
   ("action", .action), ("argumentList", .argumentList), ("argument", .argument), ("direction", .direction),
   ("relatedStateVariable", .relatedStateVariable)]

def x05Tag (n : Str) : C05.Tag :=
  match tagTable.find? (fun p => p.1.toList = n) with
  | some p => p.2
  | none => .other n

def x05Ns (n : Str) : C05.Ns :=
  if n = devNs then .device else if n = svcNs then .service else .other n

mutual
/-- the same element as `client_factory`'s model sees it -/
def x05 : Xml → C05.Xml
  | .node t a x k =>
    .node (x05Ns t.ns) (x05Tag t.name) ((a.find? (fun p => p.1 = plain "sendEvents".toList)).map (·.2)) x (x05L k)
def x05L : List Xml → List C05.Xml
  | [] => []
  | e :: r => x05 e :: x05L r
end

/-! ### the abstract description a served SCPD denotes -/

/-- the variable description the server serves for `vd`, as an abstract `VarSpec`: the texts are
    the `out` renderings of the definition's typed values (an empty text = an element without text) -/
def specOfVar (fs : Facts) (vd : VarDef) : C05.VarSpec :=
  let A := dedupPy (allowedVals fs vd)
  let mn := typed fs vd.dtype vd.min
  let mx := typed fs vd.dtype vd.max
  { name := some vd.name, dataType := some vd.dtype
    seAttr := some (if vd.evented then "yes".toList else "no".toList)
    default := (typed fs vd.dtype vd.default).map pyStr
    range := if mn.isSome || mx.isSome then some (mn.map pyStr, mx.map pyStr, none) else none
    allowed := if A.isEmpty then none else some (A.map pyStr) }

def specOfArg (dir : String) (a : SArg) : C05.ArgSpec :=
  { name := some a.name, direction := some dir.toList, related := some a.var.name }

def specOfAct (a : SAct) : C05.ActionSpec :=
  { name := some a.name, args := a.ins.map (specOfArg "in") ++ a.outs.map (specOfArg "out") }

def specOfScpd (fs : Facts) (vars : List VarDef) (sacts : List SAct) : C05.ScpdSpec :=
  { vars := some (vars.map (specOfVar fs)), actions := some (sacts.map specOfAct) }


/-! ### the device description a served device document denotes -/

/-- the constructed body of each service of the tree: its variables and bound actions -/
abbrev SvcBody := SvcInfo → List VarDef × List SAct

def denoteSvc (fs : Facts) (body : SvcBody) (s : SvcInfo) : C05.ServiceSpec :=
  { serviceId := some s.sid, serviceType := some s.stype, controlURL := some s.ctl, eventSubURL := some s.evt
    scpdURL := some s.scpd, doc := .scpd (specOfScpd fs (body s).1 (body s).2) }

mutual
/-- every one of the twelve text elements is served (Python `None` as an empty element), no icons -/
def denoteDev (fs : Facts) (body : SvcBody) : DevDef → C05.DeviceSpec
  | .mk f svcs emb => .mk (f.map fun o => some (o.getD [])) [] (svcs.map (denoteSvc fs body)) (denoteDevs fs body emb)
def denoteDevs (fs : Facts) (body : SvcBody) : List DevDef → List C05.DeviceSpec
  | [] => []
  | d :: r => denoteDev fs body d :: denoteDevs fs body r
end

mutual
def allSvcs : DevDef → List SvcInfo
  | .mk _ svcs emb => svcs ++ allSvcsL emb
def allSvcsL : List DevDef → List SvcInfo
  | [] => []
  | d :: r => allSvcs d ++ allSvcsL r
end

/-- what the C14 server serves: the device document at `base`, every service's SCPD at its resolved URL -/
def serve14 (fs : Facts) (body : SvcBody) (base : Str) (d : DevDef) (u : Str) : C05.Fetch :=
  if u == base then .doc (x05 (serializeRoot d))
  else match (allSvcs d).find? (fun s => C05.joinOpt base (some s.scpd) == some u) with
    | some s => .doc (x05 (serializeScpd fs (body s).1 (body s).2))
    | none => .status 404

end Upnp.C14
