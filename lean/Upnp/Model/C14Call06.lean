/-
  C14 ↔ C06/C07 bridge (model part): the element tree of C06/C07 (Clark-notation tags) re-read as a
  C14 tree, so that the request C06's `create_request` model writes can be handed to the C14 server
  model.  Import-free apart from the two models.
-/
import Upnp.Model.C14Server
import Upnp.Model.C06Soap
namespace Upnp.C14
open Upnp

/-- `{ns}local` → (ns, local); a tag without namespace → ([], tag) -/
def qnameOfClark : Str → QName
  | '{' :: r => ⟨r.takeWhile (· != '}'), (r.dropWhile (· != '}')).drop 1⟩
  | t => ⟨[], t⟩

mutual
def y06 : C06.Xml → Xml
  | .node t x k => .node (qnameOfClark t) [] x (y06L k)
def y06L : List C06.Xml → List Xml
  | [] => []
  | e :: r => y06 e :: y06L r
end


/-- (ns, local) → `{ns}local`; no namespace → the bare tag -/
def clarkOf (q : QName) : Str := if q.ns.isEmpty then q.name else C06.Xml.clark q.ns q.name

mutual
/-- a C14 tree as C06 / C07 see it (attributes are not part of their tree type) -/
def z06 : Xml → C06.Xml
  | .node t _ x k => .node (clarkOf t) x (z06L k)
def z06L : List Xml → List C06.Xml
  | [] => []
  | e :: r => z06 e :: z06L r
end

end Upnp.C14
