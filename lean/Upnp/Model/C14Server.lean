/-
  C14 — executable model of the HTTP side of `server.py` composed with the library's own client
  (`client_factory.py`, `client.py`), at the level of XML *trees* (text ↔ tree, i.e. expat /
  ElementTree serialisation and escaping, is outside the model and exercised by the harness).

  server side : `UpnpServerService` construction (`construct`), `UpnpXmlSerializer`
                (`serializeVar/Action/Scpd/Device`), `_parse_action_body` (`parseActionBody`),
                `action_handler` + `async_handle_action` + `_create_action_response` +
                `_create_error_action_response` (`serverHandle`)
  client side : `UpnpFactory._parse_state_variable_el/_parse_action_el/_create_*` (`parseVar`,
                `parseAction`, `parseScpd`, `parseDevice`), `UpnpAction.async_call`
                (`clientCall`: validate → request tree → server → `_parse_fault` / `parse_response`)

  Text is `List Char`; tags are (namespace, local-name) pairs (ElementTree's `{ns}local`).
  Import-free apart from PyDict / the generated type table (linked into the driver).
-/
import Upnp.Model.PyDict
import Upnp.Gen.C14Types
namespace Upnp.C14
open Upnp

abbrev Str := List Char

/-! ### XML trees -/

structure QName where
  ns : Str
  name : Str
deriving DecidableEq, Repr

inductive Xml where
  | node (tag : QName) (attrs : List (QName × Str)) (text : Option Str) (kids : List Xml)

namespace Xml
def tag : Xml → QName | node t _ _ _ => t
def attrs : Xml → List (QName × Str) | node _ a _ _ => a
def text : Xml → Option Str | node _ _ t _ => t
def kids : Xml → List Xml | node _ _ _ k => k

/-- `el.find("p:t")` — first direct child with that tag -/
def find (e : Xml) (t : QName) : Option Xml := e.kids.find? (fun c => c.tag = t)
/-- `el.findall("p:t")` -/
def findall (e : Xml) (t : QName) : List Xml := e.kids.filter (fun c => c.tag = t)
/-- `el.findtext("p:t", default)`: the child's text, `""` when the child has no text -/
def findtext (e : Xml) (t : QName) (dflt : Option Str) : Option Str :=
  match e.find t with
  | some c => some (c.text.getD [])
  | none => dflt
def attr? (e : Xml) (k : QName) : Option Str := (e.attrs.find? (fun p => p.1 = k)).map (·.2)

mutual
/-- all descendants in document order (the element itself excluded): `.//*` -/
def descendants : Xml → List Xml
  | node _ _ _ ks => descL ks
def descL : List Xml → List Xml
  | [] => []
  | k :: ks => k :: (descendants k ++ descL ks)
end

/-- `el.find(".//p:t")` -/
def findDesc (e : Xml) (t : QName) : Option Xml := e.descendants.find? (fun c => c.tag = t)
end Xml

/-- text of a parsed element: ElementTree gives `None` for empty content -/
def textOf (s : Str) : Option Str := if s.isEmpty then none else some s

/-! ### namespaces -/
def svcNs : Str := "urn:schemas-upnp-org:service-1-0".toList
def devNs : Str := "urn:schemas-upnp-org:device-1-0".toList
def soapNs : Str := "http://schemas.xmlsoap.org/soap/envelope/".toList
def soapEnc : Str := "http://schemas.xmlsoap.org/soap/encoding/".toList
def ctlNs : Str := "urn:schemas-upnp-org:control-1-0".toList
def sq (l : String) : QName := ⟨svcNs, l.toList⟩
def dq (l : String) : QName := ⟨devNs, l.toList⟩
def soapq (l : String) : QName := ⟨soapNs, l.toList⟩
def ctlq (l : String) : QName := ⟨ctlNs, l.toList⟩
def plain (l : Str) : QName := ⟨[], l⟩

/-! ### typed values and the UPnP data-type codecs (`const.STATE_VARIABLE_TYPE_MAPPING`) -/

/-- python types whose text form is not modelled (assumed via harness-supplied facts) -/
inductive OTy | float | date | datetime | time
deriving DecidableEq, Repr

/-- a Python value of one of the types the mapping uses.  `opq` values carry their canonical wire
    text (`out v`), a tz flag and an order key (monotone in the Python ordering of the type). -/
inductive Val
  | int (n : Int)
  | str (s : Str)
  | bool (b : Bool)
  | opq (ty : OTy) (tz : Bool) (key : Int) (canon : Str)
deriving DecidableEq, Repr

/-- family of a UPnP data type name, from the generated table (`none` = unsupported type) -/
def famOf (dt : Str) : Option Gen.C14.Fam :=
  (Gen.C14.typeTable.find? (fun p => p.1.toList = dt)).map (·.2)

/-- what the harness tells the model about the codecs it does not implement (float / date / time):
    `inp dtype wire = val` (`none` = raises ValueError) -/
structure Fact where
  dtype : Str
  wire : Str
  val : Option Val
abbrev Facts := List Fact

def factLookup (fs : Facts) (dt w : Str) : Option Val :=
  ((fs.find? (fun f => f.dtype = dt ∧ f.wire = w)).map (·.val)).join

def isWs (c : Char) : Bool := c = ' ' || c = '\t' || c = '\n' || c = '\r' || c = '\x0b' || c = '\x0c'
def lstrip (s : Str) : Str := s.dropWhile isWs
def strip (s : Str) : Str := (lstrip (lstrip s).reverse).reverse

def digitVal (c : Char) : Option Nat := if '0' ≤ c ∧ c ≤ '9' then some (c.toNat - 48) else none

/-- digits with single underscores between digits (`prev` = previous char was a digit) -/
def pyDigits : Str → Nat → Bool → Option Nat
  | [], acc, prev => if prev then some acc else none
  | c :: r, acc, prev =>
    if c = '_' then (if prev ∧ !r.isEmpty then pyDigits r acc false else none)
    else match digitVal c with
      | some d => pyDigits r (acc * 10 + d) true
      | none => none

/-- Python `int(s)` for ASCII text (`none` = ValueError) -/
def pyInt? (s : Str) : Option Int :=
  match strip s with
  | '-' :: r => (pyDigits r 0 false).map fun n => - (Int.ofNat n)
  | '+' :: r => (pyDigits r 0 false).map Int.ofNat
  | r => (pyDigits r 0 false).map Int.ofNat

def natDigits (fuel n : Nat) (acc : Str) : Str :=
  match fuel with
  | 0 => acc
  | fuel + 1 => if n < 10 then Char.ofNat (48 + n) :: acc
                else natDigits fuel (n / 10) (Char.ofNat (48 + n % 10) :: acc)
/-- Python `str(n)` -/
def decOfNat (n : Nat) : Str := natDigits (n + 1) n []
def decOfInt : Int → Str
  | .ofNat n => decOfNat n
  | .negSucc n => '-' :: decOfNat (n + 1)

def asciiLower (c : Char) : Char := if 'A' ≤ c ∧ c ≤ 'Z' then Char.ofNat (c.toNat + 32) else c
/-- the `boolean` in-coercer: `s.lower() in ["1", "true", "yes"]` -/
def boolIn (s : Str) : Bool :=
  let l := s.map asciiLower
  l = "1".toList || l = "true".toList || l = "yes".toList

/-- `coerce_python` (`none` = ValueError) -/
def inp (fs : Facts) (dt w : Str) : Option Val :=
  match famOf dt with
  | some .int => (pyInt? w).map .int
  | some .str => some (.str w)
  | some .bool => some (.bool (boolIn w))
  | some _ => factLookup fs dt w
  | none => none

/-- `coerce_upnp` -/
def out : Val → Str
  | .int n => decOfInt n
  | .str s => s
  | .bool b => if b then ['1'] else ['0']
  | .opq _ _ _ c => c

/-- what the serializer writes for allowed values, bounds and defaults: the type's `out` coercer
    (`state_variable.coerce_upnp`; before the F14g repair it was Python's `str()`) -/
def pyStr (v : Val) : Str := out v

/-- the schema's type validator plus `require_tzinfo` (values are of exactly the mapped type:
    `bool` for an `int` type and `datetime` for `date` are outside the modelled domain) -/
def validTy (f : Gen.C14.Fam) : Val → Bool
  | .int _ => f = .int
  | .str _ => f = .str
  | .bool _ => f = .bool
  | .opq .float _ _ _ => f = .float
  | .opq .date _ _ _ => f = .date
  | .opq .datetime tz _ _ => f = .dateTime || (f = .dateTimeTz && tz)
  | .opq .time tz _ _ => f = .time || (f = .timeTz && tz)

/-- Python `==` between two values of the same mapped type -/
def eqPy : Val → Val → Bool
  | .int a, .int b => a = b
  | .str a, .str b => a = b
  | .bool a, .bool b => a = b
  | .opq t _ k _, .opq t' _ k' _ => t = t' && k = k'
  | _, _ => false

/-- order key used by `vol.Range` -/
def keyOf : Val → Option Int
  | .int n => some n
  | .opq _ _ k _ => some k
  | _ => none

/-! ### definitions -/

structure VarDef where
  name : Str
  dtype : Str
  evented : Bool
  min : Option Str
  max : Option Str
  allowed : Option (List Str)
  default : Option Str
deriving DecidableEq, Repr

structure ArgDef where
  name : Str
  var : Str
deriving DecidableEq, Repr

structure ActDef where
  name : Str
  ins : List ArgDef
  outs : List ArgDef
deriving DecidableEq, Repr

structure SvcDef where
  stype : Str
  sid : Str
  ctl : Str
  evt : Str
  scpd : Str
  vars : List VarDef
  acts : List ActDef
deriving Repr

/-- an action argument bound to its state variable (`UpnpAction.Argument`) -/
structure SArg where
  name : Str
  var : VarDef
deriving DecidableEq, Repr
structure SAct where
  name : Str
  ins : List SArg
  outs : List SArg
deriving Repr

def lookupVar (vars : List VarDef) (n : Str) : Option VarDef := vars.find? (fun v => v.name = n)

def resolveArgs (vars : List VarDef) : List ArgDef → Option (List SArg)
  | [] => some []
  | a :: r => match lookupVar vars a.var, resolveArgs vars r with
    | some v, some rs => some (⟨a.name, v⟩ :: rs)
    | _, _ => none

/-- `_init_action` / `_create_action`: bind every argument (`none` = KeyError, no such variable) -/
def resolveAct (vars : List VarDef) (a : ActDef) : Option SAct :=
  match resolveArgs vars a.ins, resolveArgs vars a.outs with
  | some i, some o => some ⟨a.name, i, o⟩
  | _, _ => none

def resolveActs (vars : List VarDef) : List ActDef → Option (List SAct)
  | [] => some []
  | a :: r => match resolveAct vars a, resolveActs vars r with
    | some x, some xs => some (x :: xs)
    | _, _ => none

/-! ### the schema (`_state_variable_create_schema`) and typed view of a variable -/

def typed (fs : Facts) (dt : Str) (o : Option Str) : Option Val := o.bind (inp fs dt)

def dedupPy : List Val → List Val
  | [] => []
  | v :: r => v :: (dedupPy r).filter (fun w => !eqPy v w)

def allowedVals (fs : Facts) (vd : VarDef) : List Val :=
  (vd.allowed.getD []).filterMap (inp fs vd.dtype)

/-- bound used by the schema: `in_coercer(min_) if min_ else None` (an empty text counts as absent) -/
def schemaBound (fs : Facts) (dt : Str) (o : Option Str) : Option Val :=
  match o with
  | some s => if s.isEmpty then none else inp fs dt s
  | none => none

/-- Python `a <= b` between two values of one mapped type, as `vol.Range` evaluates it (`none` = the
    comparison is outside the model): numbers and date/time values by their order key, strings
    lexicographically by code point -/
def leVal (a b : Val) : Option Bool :=
  match a, b with
  | .str x, .str y => some (!(decide (y < x)))
  | _, _ => match keyOf a, keyOf b with
    | some x, some y => some (decide (x ≤ y))
    | _, _ => none

def inRange (lo hi : Option Val) (v : Val) : Bool :=
  (match lo with | some l => (leVal l v).getD false | none => true)
  && (match hi with | some h => (leVal v h).getD false | none => true)

/-- a `bool` passed where the mapped Python type is `int` *is* an int for the schema
    (`isinstance(True, int)`, `True == 1`) and for the `out` coercer `str(int(i))` -/
def normTy (f : Option Gen.C14.Fam) (v : Val) : Val :=
  match f, v with
  | some .int, .bool b => .int (if b then 1 else 0)
  | _, v => v

/-- `validate_value`: the voluptuous schema accepts `v` -/
def schemaOk (fs : Facts) (vd : VarDef) (v0 : Val) : Bool :=
  let v := normTy (famOf vd.dtype) v0
  (match famOf vd.dtype with | some f => validTy f v | none => false)
  && (let al := allowedVals fs vd; al.isEmpty || al.any (fun a => eqPy a v))
  && inRange (schemaBound fs vd.dtype vd.min) (schemaBound fs vd.dtype vd.max) v

/-! ### server: description documents (`UpnpXmlSerializer`, as the tree a parser reads back) -/

def leaf (t : QName) (s : Str) : Xml := .node t [] (textOf s) []

def serializeVar (fs : Facts) (vd : VarDef) : Xml :=
  let allowed := dedupPy (allowedVals fs vd)
  let mn := typed fs vd.dtype vd.min
  let mx := typed fs vd.dtype vd.max
  let dflt := typed fs vd.dtype vd.default
  .node (sq "stateVariable") [(plain "sendEvents".toList, if vd.evented then "yes".toList else "no".toList)] none
    ([leaf (sq "name") vd.name, leaf (sq "dataType") vd.dtype]
      ++ (if allowed.isEmpty then [] else
            [.node (sq "allowedValueList") [] none (allowed.map fun v => leaf (sq "allowedValue") (pyStr v))])
      ++ (if mn.isSome || mx.isSome then
            [.node (sq "allowedValueRange") [] none
              ((mn.toList.map fun v => leaf (sq "minimum") (pyStr v))
                ++ (mx.toList.map fun v => leaf (sq "maximum") (pyStr v)))]
          else [])
      ++ (dflt.toList.map fun v => leaf (sq "defaultValue") (pyStr v)))

def serializeArg (dir : String) (a : SArg) : Xml :=
  .node (sq "argument") [] none
    [leaf (sq "name") a.name, leaf (sq "direction") dir.toList, leaf (sq "relatedStateVariable") a.var.name]

def serializeAct (a : SAct) : Xml :=
  .node (sq "action") [] none
    (leaf (sq "name") a.name ::
      (if a.ins.isEmpty && a.outs.isEmpty then [] else
        [.node (sq "argumentList") [] none
          (a.ins.map (serializeArg "in") ++ a.outs.map (serializeArg "out"))]))

def specVersion (q : String → QName) : Xml :=
  .node (q "specVersion") [] none [leaf (q "major") ['1'], leaf (q "minor") ['0']]

def serializeScpd (fs : Facts) (vars : List VarDef) (acts : List SAct) : Xml :=
  .node (sq "scpd") [] none
    [specVersion sq,
     .node (sq "actionList") [] none (acts.map serializeAct),
     .node (sq "serviceStateTable") [] none (vars.map (serializeVar fs))]

/-! ### client: factory (`client_factory.py`) -/

/-- text of one `<allowedValue>`: an element without text is the empty string for the string types
    and is skipped for the others (`v.text or ""  … if v.text is not None or type is str`) -/
def allowedText (isStr : Bool) (t : Option Str) : Option Str :=
  match t with
  | some s => some s
  | none => if isStr then some [] else none

/-- `_parse_state_variable_el` (`none` = UpnpError: unsupported data type) -/
def parseVar (e : Xml) : Option VarDef :=
  let se : Bool :=
    match e.attr? (plain "sendEvents".toList) with
    | some v => v = "yes".toList
    | none => match e.findtext (sq "sendEventsAttribute") none with
      | some t => t = "yes".toList
      | none => false
  match e.findtext (sq "dataType") none with
  | none => none
  | some dt =>
    if (famOf dt).isNone then none else
    let rng := e.find (sq "allowedValueRange")
    some { name := strip ((e.findtext (sq "name") (some [])).getD [])
           dtype := dt
           evented := se
           min := rng.bind fun r => r.findtext (sq "minimum") none
           max := rng.bind fun r => r.findtext (sq "maximum") none
           allowed := (e.find (sq "allowedValueList")).map fun l =>
             (l.findall (sq "allowedValue")).filterMap (fun c => allowedText (famOf dt == some .str) c.text)
           default := e.findtext (sq "defaultValue") none }

/-- the eager part of `_state_variable_create_schema`: every allowed value and non-empty bound must
    coerce (`false` = ValueError aborts `async_create_device`) -/
def schemaBuilds (fs : Facts) (vd : VarDef) : Bool :=
  (vd.allowed.getD []).all (fun a => (inp fs vd.dtype a).isSome)
  && (match vd.min with | some s => s.isEmpty || (inp fs vd.dtype s).isSome | none => true)
  && (match vd.max with | some s => s.isEmpty || (inp fs vd.dtype s).isSome | none => true)

def parseVars (fs : Facts) : List Xml → Option (List VarDef)
  | [] => some []
  | e :: r => match parseVar e, parseVars fs r with
    | some v, some vs => if schemaBuilds fs v then some (v :: vs) else none
    | _, _ => none

/-- `_parse_action_el`: arguments lacking a name, direction or variable are skipped -/
def parseArgEl (e : Xml) : Option (Str × Str × Str) :=
  match e.findtext (sq "name") none, e.findtext (sq "direction") none,
        e.findtext (sq "relatedStateVariable") none with
  | some n, some d, some v => some (n, d, v)
  | _, _, _ => none

def parseAction (e : Xml) : ActDef :=
  let args := ((e.findall (sq "argumentList")).flatMap (·.findall (sq "argument"))).filterMap parseArgEl
  { name := (e.findtext (sq "name") none).getD "nameless".toList
    ins := (args.filter (fun a => a.2.1 = "in".toList)).map fun a => ⟨a.1, a.2.2⟩
    outs := (args.filter (fun a => a.2.1 = "out".toList)).map fun a => ⟨a.1, a.2.2⟩ }

/-- `_create_state_variables` + `_create_actions` (strict mode): `none` = device creation fails -/
def parseScpd (fs : Facts) (doc : Xml) : Option (List VarDef × List SAct) :=
  if doc.tag ≠ sq "scpd" then none else
  match doc.find (sq "serviceStateTable") with
  | none => none
  | some tbl =>
    match parseVars fs (tbl.findall (sq "stateVariable")) with
    | none => none
    | some vars =>
      let actEls := match doc.find (sq "actionList") with
        | some l => l.findall (sq "action")
        | none => []
      (resolveActs vars (actEls.map parseAction)).map fun acts => (vars, acts)


/-! ### device description documents -/

structure SvcInfo where
  stype : Str
  sid : Str
  ctl : Str
  evt : Str
  scpd : Str
deriving DecidableEq, Repr

/-- a device: the twelve text fields of `DeviceInfo` (`none` = Python `None`), its services and
    embedded devices.  Icons are not modelled (always empty). -/
inductive DevDef where
  | mk (fields : List (Option Str)) (services : List SvcInfo) (embedded : List DevDef)

def DevDef.fields : DevDef → List (Option Str) | .mk f _ _ => f
def DevDef.services : DevDef → List SvcInfo | .mk _ s _ => s
def DevDef.embedded : DevDef → List DevDef | .mk _ _ e => e

/-- element name and the client's `findtext` default (`true` = `""`, `false` = `None`) -/
def devFields : List (String × Bool) :=
  [("deviceType", true), ("friendlyName", true), ("manufacturer", true), ("manufacturerURL", true),
   ("modelDescription", false), ("modelName", true), ("modelNumber", false), ("modelURL", false),
   ("serialNumber", false), ("UDN", true), ("UPC", true), ("presentationURL", true)]

def serializeSvcInfo (s : SvcInfo) : Xml :=
  .node (dq "service") [] none
    [leaf (dq "serviceType") s.stype, leaf (dq "serviceId") s.sid, leaf (dq "controlURL") s.ctl,
     leaf (dq "eventSubURL") s.evt, leaf (dq "SCPDURL") s.scpd]

mutual
def serializeDev : DevDef → Xml
  | .mk fs svcs emb =>
    .node (dq "device") [] none
      ((devFields.zip fs).map (fun p => leaf (dq p.1.1) (p.2.getD []))
        ++ [.node (dq "iconList") [] none [],
            .node (dq "serviceList") [] none (svcs.map serializeSvcInfo),
            .node (dq "deviceList") [] none (serializeDevs emb)])
def serializeDevs : List DevDef → List Xml
  | [] => []
  | d :: r => serializeDev d :: serializeDevs r
end

def serializeRoot (d : DevDef) : Xml :=
  .node (dq "root") [] none [specVersion dq, serializeDev d]

def parseSvcInfo (e : Xml) : SvcInfo :=
  { stype := (e.findtext (dq "serviceType") (some [])).getD []
    sid := (e.findtext (dq "serviceId") (some [])).getD []
    ctl := (e.findtext (dq "controlURL") (some [])).getD []
    evt := (e.findtext (dq "eventSubURL") (some [])).getD []
    scpd := (e.findtext (dq "SCPDURL") (some [])).getD [] }

/-- `_async_create_device` (description part; `fuel` bounds the nesting depth) -/
def parseDevEl : Nat → Xml → DevDef
  | fuel, e =>
    let fields := devFields.map fun p => e.findtext (dq p.1) (if p.2 then some [] else none)
    let svcs := ((e.findall (dq "serviceList")).flatMap (·.findall (dq "service"))).map parseSvcInfo
    match fuel with
    | 0 => .mk fields svcs []
    | n + 1 => .mk fields svcs
        (((e.findall (dq "deviceList")).flatMap (·.findall (dq "device"))).map (parseDevEl n))

def parseRoot (fuel : Nat) (doc : Xml) : Option DevDef :=
  (doc.find (dq "device")).map (parseDevEl fuel)

/-! ### control: requests, responses -/

structure Req where
  soapAction : Option Str   -- the SOAPAction header, if any
  body : Option Xml         -- `none` = the body is not well-formed XML

/-- what the scripted action handler does -/
inductive HandlerRes
  | ret (vals : List (Str × Val))
  | err (code : Option Nat)      -- raises UpnpActionError(error_code=code)
  /-- the library's own idiom (contrib/dummy_router.py): for the keys in `asVar` the handler assigns the
      value to the out-argument's related state variable and returns that `UpnpStateVariable` object;
      `_create_action_response` then writes its `upnp_value` -/
  | retVars (vals : List (Str × Val)) (asVar : List Str)

abbrev Handler := Str → List (Str × Val) → HandlerRes

/-- result of the aiohttp handler -/
inductive Outcome
  | resp (status : Nat) (body : Xml)        -- a Response with an XML body
  | http (status : Nat) (reason : Str)      -- web.HTTPException (plain-text body)
  | unhandled (exc : Str)                   -- any other exception escapes the handler
  deriving Inhabited

def stripQuotes (s : Str) : Str :=
  ((s.dropWhile (· = '"')).reverse.dropWhile (· = '"')).reverse

/-- `str.split("#")` -/
def splitHash : Str → List Str
  | [] => [[]]
  | c :: r => match splitHash r with
    | [] => [[]]   -- unreachable
    | h :: t => if c = '#' then [] :: h :: t else (c :: h) :: t

inductive ParseRes
  | bad (reason : String)
  | ok (act : SAct) (kwargs : PyDict Str Val)

def parseArgs (fs : Facts) (act : SAct) : List Xml → PyDict Str Val → ParseRes
  | [], kw =>
      if act.ins.all (fun a => PyDict.contains kw a.name) then .ok act kw
      else .bad "MissingActionArgument"
  | a :: rest, kw =>
      if a.tag.ns ≠ [] then .bad "InvalidActionArgument" else
      match act.ins.find? (fun x => x.name = a.tag.name) with
      | none => .bad "InvalidActionArgument"
      | some ad =>
        match inp fs ad.var.dtype (a.text.getD []) with
        | none => .bad "InvalidActionArgumentValue"
        | some v => parseArgs fs act rest (PyDict.set kw a.tag.name v)

/-- `_parse_action_body` -/
def parseActionBody (fs : Facts) (acts : List SAct) (r : Req) : ParseRes :=
  match splitHash (stripQuotes (r.soapAction.getD [])) with
  | [_, name] =>
    match r.body with
    | none => .bad "InvalidSoap"
    | some root =>
      match root.find (soapq "Body") with
      | none => .bad "InvalidSoap"
      | some b =>
        match b.kids with
        | [] => .bad "InvalidSoap"
        | rpc :: _ =>
          match acts.find? (fun a => a.name = name) with
          | none => .bad "InvalidAction"
          | some act => parseArgs fs act rpc.kids []
  | _ => .bad "InvalidSoap"

def envelope (kids : List Xml) : Xml :=
  .node (soapq "Envelope") [(soapq "encodingStyle", soapEnc)] none [.node (soapq "Body") [] none kids]

/-- `_create_error_action_response` (HTTP 500 + SOAP fault) -/
def faultDoc (code : Nat) : Xml :=
  envelope [.node (soapq "Fault") [] none
    [leaf (plain "faultcode".toList) "s:Client".toList,
     leaf (plain "faultstring".toList) "UPnPError".toList,
     .node (plain "detail".toList) [] none
       [.node (ctlq "UPnPError") [] none
         [leaf (ctlq "errorCode") (decOfNat code),
          leaf (ctlq "errorDescription") "Action Failed".toList]]]]

/-- `_create_action_response`: `error` = the exception that escapes when the handler broke its
    contract (`KeyError`: not an out-argument; `UpnpValueError`: the value fails the variable's
    schema — wrong type, `None`, out of range; raised outside `action_handler`'s try block) -/
def responseKids (fs : Facts) (act : SAct) : List (Str × Val) → Except String (List Xml)
  | [] => .ok []
  | (k, v) :: r =>
    match act.outs.find? (fun a => a.name = k) with
    | none => .error "KeyError"
    | some a =>
      if !schemaOk fs a.var v then .error "UpnpValueError" else
      match responseKids fs act r with
      | .ok ks => .ok (leaf (plain k) (out v) :: ks)
      | .error e => .error e

def responseTag (stype : Str) (act : Str) : QName := ⟨stype, act ++ "Response".toList⟩

/-- `validate_arguments` on the server: every in-argument is present and passes its schema -/
def argsValid (fs : Facts) (act : SAct) (kw : PyDict Str Val) : Bool :=
  act.ins.all fun a => match PyDict.get? kw a.name with
    | some v => schemaOk fs a.var v
    | none => false

/-- assigning `state_variable.value = v` inside the handler validates: every value returned in
    variable form passes the schema of its out-argument's variable (else `UpnpValueError` is raised
    *inside* the handler and `action_handler` answers fault 402) -/
def asVarValid (fs : Facts) (act : SAct) (vals : List (Str × Val)) (asVar : List Str) : Bool :=
  asVar.all fun k => match act.outs.find? (fun a => a.name = k), PyDict.get? vals k with
    | some a, some v => schemaOk fs a.var v
    | _, _ => true

/-- what `action_handler` answers for the handler's result -/
def renderResult (fs : Facts) (stype : Str) (act : SAct) : HandlerRes → Outcome
  | .err code => .resp 500 (faultDoc (match code with | some c => if c = 0 then 501 else c | none => 501))
  | .ret vals =>
    match responseKids fs act vals with
    | .ok ks => .resp 200 (envelope [.node (responseTag stype act.name) [] none ks])
    | .error e => .unhandled e.toList
  | .retVars vals asVar =>
    if !asVarValid fs act vals asVar then .resp 500 (faultDoc 402) else
    -- a variable's `upnp_value` is `coerce_upnp(value)`: the same text as for the plain value
    match responseKids fs act vals with
    | .ok ks => .resp 200 (envelope [.node (responseTag stype act.name) [] none ks])
    | .error e => .unhandled e.toList

/-- `action_handler` -/
def serverHandle (fs : Facts) (stype : Str) (acts : List SAct) (h : Handler) (r : Req) : Outcome :=
  match parseActionBody fs acts r with
  | .bad reason => .http 400 reason.toList
  | .ok act kw =>
    -- async_handle_action: validate_arguments, then the handler
    if !(act.ins.all fun a => PyDict.contains kw a.name) then .unhandled "UpnpError".toList
    else if !argsValid fs act kw
    then .resp 500 (faultDoc 402)
    else renderResult fs stype act (h act.name kw)

/-- the keyword arguments with which `action_handler` calls the action's handler (`none` = the
    handler is not reached) -/
def handlerInput (fs : Facts) (acts : List SAct) (r : Req) : Option (Str × PyDict Str Val) :=
  match parseActionBody fs acts r with
  | .bad _ => none
  | .ok act kw =>
    if argsValid fs act kw then some (act.name, kw) else none

/-! ### client: `UpnpAction.async_call` -/

inductive CallRes
  | ok (vals : List (Str × Val))
  | actionError (code : Option Nat) (status : Option Nat)  -- UpnpActionResponseError / UpnpActionError
  | responseError (status : Nat)                           -- UpnpResponseError
  | clientError (exc : String)                             -- raised by the client itself
deriving DecidableEq, Repr

/-- `_format_request_args` after `validate_arguments` (`Except` = what `create_request` raises) -/
def requestArgs (fs : Facts) : List SArg → List (Str × Val) → Except String (List Xml)
  | [], _ => .ok []
  | a :: r, args =>
    match PyDict.get? args a.name with
    | none => .error "UpnpError"
    | some v =>
      if !schemaOk fs a.var v then .error "UpnpValueError" else
      match requestArgs fs r args with
      | .ok ks => .ok (leaf (plain a.name) (out v) :: ks)
      | .error e => .error e

def createRequest (fs : Facts) (stype : Str) (act : SAct) (args : List (Str × Val)) : Except String Req :=
  match requestArgs fs act.ins args with
  | .error e => .error e
  | .ok ks => .ok { soapAction := some ('"' :: stype ++ '#' :: act.name ++ ['"'])
                    body := some (envelope [.node ⟨stype, act.name⟩ [] none ks]) }

/-- `_parse_fault`: `none` = no fault; `some (some c)` fault with code; `some none` fault without /
    with unparsable code is reported as `some none` only when the text is empty -/
def parseFault (doc : Xml) : Option (Except Unit (Option Nat)) :=
  let faults := (doc.descendants.filter (fun c => c.tag = soapq "Body")).flatMap (·.findall (soapq "Fault"))
  match faults with
  | [] => none
  | f :: _ =>
    if f.kids.isEmpty then none else   -- `if not fault`
    match (f.findDesc (ctlq "errorCode")).map (fun c => c.text.getD []) with
    | none => some (.ok none)
    | some t => if t.isEmpty then some (.ok none) else
      match pyInt? t with
      | some n => some (.ok (some n.toNat))
      | none => some (.error ())

/-- `_parse_response_args` (strict): the result dict in Python's insertion order -/
def respStep (fs : Facts) (act : SAct) (acc : Except String (List (Str × Val))) (e : Xml) :
    Except String (List (Str × Val)) :=
  match acc with
  | .error x => .error x
  | .ok d =>
    if e.tag.ns ≠ [] then .error "UpnpError" else
    match act.outs.find? (fun a => a.name = e.tag.name) with
    | none => .error "UpnpError"
    | some a =>
      match inp fs a.var.dtype (e.text.getD []) with
      | none => .error "ValueError"
      | some v => .ok (PyDict.set d e.tag.name v)

def responseDict (fs : Facts) (act : SAct) (kids : List Xml) : Except String (List (Str × Val)) :=
  kids.foldl (respStep fs act) (.ok [])

/-- how the client sees the server's outcome: status + body (parsed if it is XML) -/
def wire (o : Outcome) : Nat × Option Xml :=
  match o with
  | .resp s b => (s, some b)
  | .http s _ => (s, none)
  | .unhandled _ => (500, none)    -- aiohttp's "500 Internal Server Error" page

def clientDecode (fs : Facts) (stype : Str) (act : SAct) (o : Outcome) : CallRes :=
  let (status, body) := wire o
  if status ≠ 200 then
    match body.bind parseFault with
    | some (.ok code) => .actionError code (some status)
    | some (.error _) => .clientError "ValueError"
    | none => .responseError status
  else match body with
    | none => .clientError "UpnpXmlParseError"
    | some doc =>
      match parseFault doc with
      | some (.ok code) => .actionError code none
      | some (.error _) => .clientError "ValueError"
      | none =>
        match doc.findDesc (responseTag stype act.name) with
        | none => .clientError "UpnpError"
        | some r => match responseDict fs act r.kids with
          | .ok vs => .ok vs
          | .error e => .clientError e

/-- `async_call` against the modelled server -/
def clientCall (fs : Facts) (stype : Str) (cact : SAct) (server : Req → Outcome) (args : List (Str × Val)) : CallRes :=
  match createRequest fs stype cact args with
  | .error e => .clientError e
  | .ok req => clientDecode fs stype cact (server req)

end Upnp.C14
