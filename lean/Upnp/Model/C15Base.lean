/-
  C15 — vocabulary shared by the server-eventing model (`Model/C15Server.lean`), the judge
  (`Spec/C15.lean`) and the driver: operations, observations, trace items, event-key
  arithmetic, event body, and the text functions of the SUBSCRIBE handler
  (`int(timeout.lower().replace("second-", ""))`, `callback_url[1:-1]`).
  Import-free (linked into the driver).  Time is `Int` microseconds of virtual time,
  relative to the start of the case.
-/
namespace Upnp.C15

abbrev Str := List Char

/-- microseconds per second -/
def usPerS : Int := 1000000

/-- how a request names its subscription -/
inductive SidRef
  | known (k : Nat)   -- the SID issued to the k-th subscriber (SIDs are numbered in order of issue)
  | unknown           -- a non-empty SID that was never issued
  | absent            -- no SID header
deriving DecidableEq, Repr

/-- external events (one per line of a history); each is run to quiescence -/
inductive Op
  | subscribe (sid : SidRef) (cb : Option Str) (timeout : Option Str)  -- SUBSCRIBE (new when `sid = absent`, else renewal)
  | unsubscribe (sid : SidRef)
  | set (x : Nat) (v : Int)          -- `service.state_variable(x).value = v`
  | setMany (l : List (Nat × Int))   -- several assignments one after the other without yielding to the loop
  | adv (dt : Nat)                   -- virtual time passes (timers that fall due fire in order)
  | done (k : Nat)                   -- the k-th NOTIFY delivery completes
  | setKey (sid : Nat) (k : Nat)     -- test hook: preset a subscriber's event key (to reach the wrap)
deriving DecidableEq, Repr

/-- what is observed of the server -/
inductive Obs
  | resp (status : Nat) (sid : Option Nat) (granted : Option Int)   -- HTTP response of SUBSCRIBE / UNSUBSCRIBE
  | notify (sid seq : Nat) (t : Int) (url : Str) (body : List (Nat × Option Int))  -- NOTIFY request sent
  | trig (x : Nat) (t : Int)         -- variable x triggered a (moderated) event at time t
  | ret (sid : Nat)                  -- the SUBSCRIBE handler of subscriber sid returned
deriving DecidableEq, Repr

inductive Item
  | op (o : Op)
  | obs (o : Obs)
deriving DecidableEq, Repr

/-- `EventSubscriber.get_next_seq`: `key += incr; if key > max: key = wrapTo` -/
def nextKey (incr max wrapTo k : Nat) : Nat := if k + incr > max then wrapTo else k + incr

/-- the property's key law: +1, and 2^32-1 is followed by 1 (keys above 2^32-1 do not occur) -/
def specNextKey (k : Nat) : Nat := if 4294967295 ≤ k then 1 else k + 1

/-- event body: every evented variable (by index) with its value -/
def bodyOf : List Bool → List (Option Int) → List (Nat × Option Int)
  | ev, vals => go 0 ev vals
where
  go (i : Nat) : List Bool → List (Option Int) → List (Nat × Option Int)
    | e :: es, v :: vs => if e then (i, v) :: go (i+1) es vs else go (i+1) es vs
    | _, _ => []

/-! ### text functions of `subscribe_handler` (ASCII only) -/

def lowerChar (c : Char) : Char := if 'A' ≤ c ∧ c ≤ 'Z' then Char.ofNat (c.toNat + 32) else c
def lower (s : Str) : Str := s.map lowerChar

def isPrefix : Str → Str → Bool
  | [], _ => true
  | _ :: _, [] => false
  | p :: ps, c :: cs => p == c && isPrefix ps cs

/-- `s.replace(p :: ps, "")` (left to right, non-overlapping) -/
def removeAll (p : Char) (ps : Str) : Str → Str
  | [] => []
  | c :: cs =>
    if isPrefix (p :: ps) (c :: cs) then removeAll p ps (cs.drop ps.length)
    else c :: removeAll p ps cs
termination_by s => s.length
decreasing_by
  · simp only [List.length_drop, List.length_cons]; omega
  · simp only [List.length_cons]; omega

/-- characters `int()` strips (ASCII part of `str.isspace`) -/
def isPySpace (c : Char) : Bool :=
  c == ' ' || c == '\t' || c == '\n' || c == '\r' || c == '\x0b' || c == '\x0c'
  || c == '\x1c' || c == '\x1d' || c == '\x1e' || c == '\x1f'

def isDigit (c : Char) : Bool := '0' ≤ c && c ≤ '9'
def digitVal (c : Char) : Nat := c.toNat - 48

def stripSpace (s : Str) : Str := ((s.dropWhile isPySpace).reverse.dropWhile isPySpace).reverse

/-- digits with single underscores between digits; accumulates the value -/
def digitsVal : Nat → Bool → Str → Option Nat
  | acc, afterDigit, [] => if afterDigit then some acc else none
  | acc, afterDigit, c :: cs =>
    if isDigit c then digitsVal (acc * 10 + digitVal c) true cs
    else if c == '_' && afterDigit then
      (match cs with
       | d :: _ => if isDigit d then digitsVal acc false cs else none
       | [] => none)
    else none

/-- Python `int(s)` for ASCII text, base 10 -/
def pyInt (s : Str) : Option Int :=
  match stripSpace s with
  | '-' :: r => (digitsVal 0 false r).map fun n => - (Int.ofNat n)
  | '+' :: r => (digitsVal 0 false r).map fun n => Int.ofNat n
  | r => (digitsVal 0 false r).map fun n => Int.ofNat n

/-- `int(timeout.lower().replace("second-", ""))`; `none` = `ValueError` -/
def parseTimeout (s : Str) : Option Int := pyInt (removeAll 's' ['e', 'c', 'o', 'n', 'd', '-'] (lower s))

/-- the TIMEOUT header as the handler reads it: outer `none` = `ValueError` (answered 400),
    `some none` = header absent (default timeout), `some (some n)` = `n` seconds -/
def parseTO : Option Str → Option (Option Int)
  | none => some none
  | some s => (parseTimeout s).map some

/-- `callback_url[1:-1]` -/
def stripBrackets (s : Str) : Str := (s.drop 1).dropLast

/-- a TIMEOUT header every server must understand: `Second-` and 1..9 decimal digits -/
def strictTimeout (s : Str) : Bool :=
  match s with
  | 'S' :: 'e' :: 'c' :: 'o' :: 'n' :: 'd' :: '-' :: ds => ds.all isDigit && 0 < ds.length && ds.length ≤ 9
  | _ => false

/-- a CALLBACK header every server must understand: `<` non-empty url `>` -/
def strictCallback (s : Str) : Bool :=
  s.head? == some '<' && s.getLast? == some '>' && 3 ≤ s.length

end Upnp.C15
