/-
  C15 — vocabulary shared by the server-eventing model (`Model/C15Server.lean`), the judge
  (`Spec/C15.lean`) and the driver: operations, observations, trace items, event-key
  arithmetic, event body, and the text functions of the SUBSCRIBE handler
  (`int(timeout.lower().replace("second-", ""))`, `callback_url[1:-1]`).
  Import-free (linked into the driver).  Time is `Int` microseconds of virtual time,
  relative to the start of the case.
-/
namespace Upnp.C15

abbrev Str := List Char

/-- microseconds per second -/
def usPerS : Int := 1000000

/-- a Python value of a state variable (UPnP types `i4`/`ui4`/…, `boolean`, `string`) -/
inductive Val
  | int (n : Int)
  | bool (b : Bool)
  | str (s : Str)
deriving DecidableEq, Repr

/-- how a request names its subscription -/
inductive SidRef
  | known (k : Nat)   -- the SID issued to the k-th subscriber (SIDs are numbered in order of issue)
  | unknown           -- a non-empty SID that was never issued
  | absent            -- no SID header
deriving DecidableEq, Repr

/-- external events (one per line of a history); each is run to quiescence -/
inductive Op
  | subscribe (sid : SidRef) (cb : Option Str) (timeout : Option Str)  -- SUBSCRIBE (new when `sid = absent`, else renewal)
  | unsubscribe (sid : SidRef)
  | set (x : Nat) (v : Val)          -- `service.state_variable(x).value = v`
  | setMany (l : List (Nat × Val))   -- several assignments one after the other without yielding to the loop
  | adv (dt : Nat)                   -- virtual time passes (timers that fall due fire in order)
  | done (k : Nat)                   -- the k-th NOTIFY delivery completes
  | fail (k : Nat)                   -- the k-th NOTIFY delivery fails (connection refused, timeout, …)
  | setKey (sid : Nat) (k : Nat)     -- test hook: preset a subscriber's event key (to reach the wrap)
deriving DecidableEq, Repr

/-- what is observed of the server -/
inductive Obs
  | resp (status : Nat) (sid : Option Nat) (granted : Option Int)   -- HTTP response of SUBSCRIBE / UNSUBSCRIBE
  | notify (sid seq : Nat) (t : Int) (url : Str) (body : List (Nat × Str))  -- NOTIFY request sent; body = (variable, text) of the property set
  | trig (x : Nat) (t : Int)         -- variable x triggered a (moderated) event at time t
  | ret (sid : Nat)                  -- the SUBSCRIBE handler of subscriber sid returned
  | exc (sid : Nat)                  -- the SUBSCRIBE handler of subscriber sid raised (its initial NOTIFY failed)
deriving DecidableEq, Repr

inductive Item
  | op (o : Op)
  | obs (o : Obs)
deriving DecidableEq, Repr

/-- `EventSubscriber.get_next_seq`: `key += incr; if key > max: key = wrapTo` -/
def nextKey (incr max wrapTo k : Nat) : Nat := if k + incr > max then wrapTo else k + incr

/-- the property's key law: +1, and 2^32-1 is followed by 1 (keys above 2^32-1 do not occur) -/
def specNextKey (k : Nat) : Nat := if 4294967295 ≤ k then 1 else k + 1

/-! ### text functions of `subscribe_handler` (ASCII only) -/

def lowerChar (c : Char) : Char := if 'A' ≤ c ∧ c ≤ 'Z' then Char.ofNat (c.toNat + 32) else c
def lower (s : Str) : Str := s.map lowerChar

def isPrefix : Str → Str → Bool
  | [], _ => true
  | _ :: _, [] => false
  | p :: ps, c :: cs => p == c && isPrefix ps cs

/-- `s.replace(p :: ps, "")` (left to right, non-overlapping) -/
def removeAll (p : Char) (ps : Str) : Str → Str
  | [] => []
  | c :: cs =>
    if isPrefix (p :: ps) (c :: cs) then removeAll p ps (cs.drop ps.length)
    else c :: removeAll p ps cs
termination_by s => s.length
decreasing_by
  · simp only [List.length_drop, List.length_cons]; omega
  · simp only [List.length_cons]; omega

/-- characters `int()` strips (ASCII part of `str.isspace`) -/
def isPySpace (c : Char) : Bool :=
  c == ' ' || c == '\t' || c == '\n' || c == '\r' || c == '\x0b' || c == '\x0c'
  || c == '\x1c' || c == '\x1d' || c == '\x1e' || c == '\x1f'

def isDigit (c : Char) : Bool := '0' ≤ c && c ≤ '9'
def digitVal (c : Char) : Nat := c.toNat - 48

def stripSpace (s : Str) : Str := ((s.dropWhile isPySpace).reverse.dropWhile isPySpace).reverse

/-- digits with single underscores between digits; accumulates the value -/
def digitsVal : Nat → Bool → Str → Option Nat
  | acc, afterDigit, [] => if afterDigit then some acc else none
  | acc, afterDigit, c :: cs =>
    if isDigit c then digitsVal (acc * 10 + digitVal c) true cs
    else if c == '_' && afterDigit then
      (match cs with
       | d :: _ => if isDigit d then digitsVal acc false cs else none
       | [] => none)
    else none

/-- Python `int(s)` for ASCII text, base 10 -/
def pyInt (s : Str) : Option Int :=
  match stripSpace s with
  | '-' :: r => (digitsVal 0 false r).map fun n => - (Int.ofNat n)
  | '+' :: r => (digitsVal 0 false r).map fun n => Int.ofNat n
  | r => (digitsVal 0 false r).map fun n => Int.ofNat n

/-- `int(timeout.lower().replace("second-", ""))`; `none` = `ValueError` -/
def parseTimeout (s : Str) : Option Int := pyInt (removeAll 's' ['e', 'c', 'o', 'n', 'd', '-'] (lower s))

/-- the TIMEOUT header as the handler reads it: outer `none` = `ValueError` (answered 400),
    `some none` = header absent (default timeout), `some (some n)` = `n` seconds -/
def parseTO : Option Str → Option (Option Int)
  | none => some none
  | some s => (parseTimeout s).map some

/-- `callback_url[1:-1]` -/
def stripBrackets (s : Str) : Str := (s.drop 1).dropLast

/-- a TIMEOUT header every server must understand: `Second-` and 1..9 decimal digits -/
def strictTimeout (s : Str) : Bool :=
  match s with
  | 'S' :: 'e' :: 'c' :: 'o' :: 'n' :: 'd' :: '-' :: ds => ds.all isDigit && 0 < ds.length && ds.length ≤ 9
  | _ => false

/-- a CALLBACK header every server must understand: `<` non-empty url `>` -/
def strictCallback (s : Str) : Bool :=
  s.head? == some '<' && s.getLast? == some '>' && 3 ≤ s.length

/-! ### the event body: `str(state_var.value)` per evented variable, and how a subscriber reads it back -/

def digitChar (d : Nat) : Char := Char.ofNat (48 + d)

/-- decimal digits of a natural number (`fuel` > number of digits) -/
def natDigits : Nat → Nat → Str
  | 0, _ => ['0']
  | fuel+1, n => if n < 10 then [digitChar n] else natDigits fuel (n / 10) ++ [digitChar (n % 10)]

def natText (n : Nat) : Str := natDigits (n + 1) n

/-- Python `str(n)` -/
def intText : Int → Str
  | .ofNat n => natText n
  | .negSucc n => '-' :: natText (n + 1)

/-- Python `str(value)` as `async_send_events` renders it -/
def wireOf : Option Val → Str
  | none => ['N', 'o', 'n', 'e']
  | some (.int n) => intText n
  | some (.bool true) => ['T', 'r', 'u', 'e']
  | some (.bool false) => ['F', 'a', 'l', 's', 'e']
  | some (.str s) => s

/-- UPnP boolean text (case-insensitively): 1/true/yes, 0/false/no -/
def boolText (t : Str) : Option Bool :=
  let l := lower t
  if l = ['1'] ∨ l = ['t', 'r', 'u', 'e'] ∨ l = ['y', 'e', 's'] then some true
  else if l = ['0'] ∨ l = ['f', 'a', 'l', 's', 'e'] ∨ l = ['n', 'o'] then some false
  else none

/-- the text `t` carries the value `v` (a variable that was never assigned carries nothing to compare) -/
def textOk (v : Option Val) (t : Str) : Bool :=
  match v with
  | none => true
  | some (.int n) => pyInt t == some n
  | some (.bool b) => boolText t == some b
  | some (.str s) => t == s

/-- event body of the model: every evented variable (by index) with its text -/
def bodyOf : List Bool → List (Option Val) → List (Nat × Str)
  | ev, vals => go 0 ev vals
where
  go (i : Nat) : List Bool → List (Option Val) → List (Nat × Str)
    | e :: es, v :: vs => if e then (i, wireOf v) :: go (i+1) es vs else go (i+1) es vs
    | _, _ => []

/-- the judge's body test: exactly one entry per evented variable (in index order; the order of the XML
    elements is not part of the property, the harness sorts them), nothing for the others, each text
    carrying the current value -/
def bodyOk : List Bool → List (Option Val) → List (Nat × Str) → Bool
  | ev, vals, body => go 0 ev vals body
where
  go (i : Nat) : List Bool → List (Option Val) → List (Nat × Str) → Bool
    | e :: es, v :: vs, body =>
      if e then
        (match body with
         | (k, t) :: rest => k == i && textOk v t && go (i+1) es vs rest
         | [] => false)
      else go (i+1) es vs body
    | _, _, body => body.isEmpty

/-- a status that refuses the request -/
def refused (st : Nat) : Bool := decide (st < 200) || decide (300 ≤ st)

end Upnp.C15
