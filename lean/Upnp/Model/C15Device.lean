/-
  C15 — a device with several services: each `UpnpServerService` has its own variables and its own
  subscriber list; they share the clock (and, in the real server, the requester and the event loop).
  A request or an assignment concerns one service; a clock advance concerns all.
  The trace is tagged with the service each item belongs to.  Import-free.
-/
import Upnp.Model.C15Server
namespace Upnp.C15

inductive DevOp
  | svc (k : Nat) (o : Op)     -- operation `o` on service k
  | adv (dt : Nat)             -- virtual time passes for the whole device
deriving Repr

abbrev Device := List State

def tagged (k : Nat) (o : Op) (obs : List Obs) : List (Nat × Item) :=
  (k, Item.op o) :: obs.map (fun x => (k, Item.obs x))

/-- every service sees the advance (service i, i+1, … in turn; the services do not interact) -/
def advAll (dt : Nat) : Nat → List State → List State × List (Nat × Item)
  | _, [] => ([], [])
  | i, m :: ms =>
    let r := step m (.adv dt)
    let rs := advAll dt (i + 1) ms
    (r.1 :: rs.1, tagged i (.adv dt) r.2 ++ rs.2)

def stepDev (d : Device) : DevOp → Device × List (Nat × Item)
  | .svc k o =>
    (match d[k]? with
     | none => (d, [])
     | some m =>
       let r := step m o
       (d.set k r.1, tagged k o r.2))
  | .adv dt => advAll dt 0 d

def runDev : Device → List DevOp → List (Nat × Item)
  | _, [] => []
  | d, o :: os =>
    let r := stepDev d o
    r.2 ++ runDev r.1 os

/-- what concerns service k in a device trace -/
def project (k : Nat) (tr : List (Nat × Item)) : List Item :=
  tr.filterMap (fun p => if p.1 = k then some p.2 else none)

/-- the operations service k takes part in -/
def opsFor (k : Nat) : List DevOp → List Op
  | [] => []
  | .svc k' o :: os => if k' = k then o :: opsFor k os else opsFor k os
  | .adv dt :: os => .adv dt :: opsFor k os

end Upnp.C15
