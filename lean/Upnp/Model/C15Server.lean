/-
  C15 — executable model of the server's eventing (`server.py`): `subscribe_handler`,
  `unsubscribe_handler`, `EventSubscriber` (key, expiry), `UpnpServerService.async_send_events`
  (expiry filter, body, SEQ allocation, fan-out), `UpnpEventableStateVariable.value.setter`
  (moderation: immediate trigger or deferred timer) and `trigger_event`.

  Every operation is one external event run to quiescence (all ready tasks run until each is
  blocked on a NOTIFY delivery or a timer), which is the atomicity asyncio gives between
  awaits.  The only things that outlive an operation are the deferred moderation timers
  (`Var.deferred`) and the parked NOTIFY deliveries (`State.inflight`).
  Import-free (linked into the driver).
-/
import Upnp.Model.C15Base
import Upnp.Gen.C15
namespace Upnp.C15

structure VarCfg where
  evented : Bool
  rate : Nat              -- `max_rate` in µs (0 = unmoderated)
  default : Option Val
deriving Repr

structure Cfg where
  base : Int              -- µs between the epoch and virtual time 0 (`_last_sent` starts at the epoch)
  vars : List VarCfg
deriving Repr

/-- a state variable of the service (`UpnpStateVariable` / `UpnpEventableStateVariable`) -/
structure Var where
  evented : Bool
  rate : Nat
  value : Option Val       -- `_value`
  lastSent : Int           -- `_last_sent`
  deferred : Option Int    -- `_defered_event`: fire time of the pending timer
deriving Repr

/-- `EventSubscriber` -/
structure Sub where
  sid : Nat                -- `_uuid` (numbered in order of issue)
  url : Str
  key : Nat                -- `_event_key`
  timeout : Int
  expires : Int            -- `_expires`
deriving Repr

structure State where
  now : Int
  vars : List Var
  subs : List Sub                      -- `UpnpServerService._subscribers`
  nextSid : Nat
  nextDel : Nat                        -- number of NOTIFY requests made so far
  inflight : List (Nat × Option Nat)   -- parked deliveries: (delivery, SUBSCRIBE handler waiting for it)
deriving Repr

/-- the service right after construction inside a running loop: a default value is assigned
    through the setter, which for an evented variable triggers at once (`_last_sent = now`);
    without a default `_last_sent` stays at the epoch. -/
def initVar (base : Int) (c : VarCfg) : Var :=
  { evented := c.evented, rate := c.rate, value := c.default,
    lastSent := if c.evented && c.default.isSome then 0 else -base, deferred := none }

def init (c : Cfg) : State :=
  { now := 0, vars := c.vars.map (initVar c.base), subs := [], nextSid := 0, nextDel := 0, inflight := [] }

def State.body (m : State) : List (Nat × Str) :=
  bodyOf (m.vars.map (·.evented)) (m.vars.map (·.value))

def Sub.bump (s : Sub) : Sub := { s with key := nextKey Gen.C15.seqIncr Gen.C15.seqMax Gen.C15.seqWrapTo s.key }

def notifyOf (now : Int) (body : List (Nat × Str)) (s : Sub) : Obs :=
  .notify s.sid s.key now s.url body

/-- `async_send_events()` without a subscriber: drop expired subscribers, then one NOTIFY per
    remaining subscriber, each with its next key. -/
def broadcast (m : State) : State × List Obs :=
  let live := m.subs.filter (fun s => decide (m.now < s.expires))
  ({ m with subs := live.map Sub.bump,
            nextDel := m.nextDel + live.length,
            inflight := m.inflight ++ (List.range live.length).map (fun i => (m.nextDel + i, none)) },
   live.map (notifyOf m.now m.body))

def broadcastN : Nat → State → State × List Obs
  | 0, m => (m, [])
  | n+1, m =>
    let r := broadcast m
    let r2 := broadcastN n r.1
    (r2.1, r.2 ++ r2.2)

/-- `trigger_event` of variable x followed by the `async_send_events` task it creates -/
def trigger (m : State) (x : Nat) : State × List Obs :=
  let m1 := { m with vars := m.vars.modify x (fun v => { v with lastSent := m.now }) }
  let r := broadcast m1
  (r.1, .trig x m.now :: r.2)

/-- the value setter -/
def setVar (m : State) (x : Nat) (val : Val) : State × List Obs :=
  match m.vars[x]? with
  | none => (m, [])
  | some v =>
    if v.value = some val then (m, [])
    else
      let m1 := { m with vars := m.vars.modify x (fun v => { v with value := some val }) }
      if !v.evented then (m1, [])
      else if v.deferred.isSome then (m1, [])
      else
        let next := v.lastSent + v.rate
        if next ≤ m.now then trigger m1 x
        else ({ m1 with vars := m1.vars.modify x (fun v => { v with deferred := some next }) }, [])

/-- several assignments without yielding: the trigger tasks they create (`pend`, in order of creation) have
    not run yet, so `_last_sent` is still the old one; `_trigger_pending` (= membership in `pend`) keeps a
    second assignment to the same variable from creating a second task. -/
def assignMany (m : State) (pend : List Nat) : List (Nat × Val) → State × List Nat
  | [] => (m, pend)
  | (x, val) :: rest =>
    match m.vars[x]? with
    | none => assignMany m pend rest
    | some v =>
      if v.value = some val then assignMany m pend rest
      else
        let m1 := { m with vars := m.vars.modify x (fun v => { v with value := some val }) }
        if !v.evented || v.deferred.isSome || pend.contains x then assignMany m1 pend rest
        else if v.lastSent + v.rate ≤ m.now then assignMany m1 (pend ++ [x]) rest
        else assignMany { m1 with vars := m1.vars.modify x (fun v => { v with deferred := some (v.lastSent + v.rate) }) }
               pend rest

/-- the pending `trigger_event` tasks run (each sets `_last_sent`), then the `async_send_events` tasks they created -/
def flush (m : State) (D : List Nat) : State × List Obs :=
  let m1 := { m with vars := D.foldl (fun vs x => vs.modify x (fun v => { v with lastSent := m.now })) m.vars }
  let r := broadcastN D.length m1
  (r.1, D.map (fun x => .trig x m.now) ++ r.2)

def setMany (m : State) (l : List (Nat × Val)) : State × List Obs :=
  let r := assignMany m [] l
  flush r.1 r.2

def findSub (subs : List Sub) (k : Nat) : Option Sub := subs.find? (fun s => s.sid == k)

/-- `subscribe_handler` -/
def subscribe (m : State) (sid : SidRef) (cb : Option Str) (to : Option Str) : State × List Obs :=
  match parseTO to with
  | none => (m, [.resp 400 none none])
  | some tv =>
    let timeout : Int := tv.getD Gen.C15.defaultTimeout
    match sid with
    | .known k =>
      (match findSub m.subs k with
       | some _ =>
         ({ m with subs := m.subs.map (fun s => if s.sid = k then { s with timeout := timeout, expires := m.now + timeout * usPerS } else s) },
          [.resp 200 (some k) (some timeout)])
       | none => (m, [.resp 404 none none]))
    | .unknown => (m, [.resp 404 none none])
    | .absent =>
      (match cb with
       | some (c :: cs) =>
         let s : Sub := { sid := m.nextSid, url := stripBrackets (c :: cs), key := Gen.C15.seqStart, timeout := timeout,
                          expires := m.now + timeout * usPerS }
         ({ m with subs := m.subs ++ [s.bump], nextSid := m.nextSid + 1, nextDel := m.nextDel + 1,
                   inflight := m.inflight ++ [(m.nextDel, some s.sid)] },
          [.resp 200 (some s.sid) (some timeout), notifyOf m.now m.body s])
       | _ => (m, [.resp 404 none none]))

/-- `unsubscribe_handler` -/
def unsubscribe (m : State) (sid : SidRef) : State × List Obs :=
  match sid with
  | .known k =>
    (match findSub m.subs k with
     | some _ => ({ m with subs := m.subs.filter (fun s => s.sid != k) }, [.resp 200 none none])
     | none => (m, [.resp 412 none none]))
  | _ => (m, [.resp 412 none none])

/-- earliest pending timer -/
def minFire : List Var → Option Int
  | [] => none
  | v :: vs =>
    match v.deferred, minFire vs with
    | some f, some g => some (if f ≤ g then f else g)
    | some f, none => some f
    | none, r => r

def dueIdx (f : Int) : Nat → List Var → List Nat
  | _, [] => []
  | i, v :: vs => if v.deferred = some f then i :: dueIdx f (i+1) vs else dueIdx f (i+1) vs

/-- the timers due at `f` fire (in one loop iteration): each clears `_defered_event` and creates a
    `trigger_event` task; the tasks run (each sets `_last_sent`), then the `async_send_events`
    tasks they created run. -/
def fire (m : State) (f : Int) : State × List Obs :=
  let due := dueIdx f 0 m.vars
  let m1 := { m with now := f,
                     vars := m.vars.map (fun v => if v.deferred = some f then { v with deferred := none, lastSent := f } else v) }
  let r := broadcastN due.length m1
  (r.1, due.map (fun x => .trig x f) ++ r.2)

def advance : Nat → State → Int → State × List Obs
  | 0, m, target => ({ m with now := target }, [])
  | fuel+1, m, target =>
    match minFire m.vars with
    | none => ({ m with now := target }, [])
    | some f =>
      if f ≤ target then
        let r := fire m f
        let r2 := advance fuel r.1 target
        (r2.1, r.2 ++ r2.2)
      else ({ m with now := target }, [])

def deliveryDone (m : State) (k : Nat) : State × List Obs :=
  match m.inflight.find? (fun p => p.1 == k) with
  | none => (m, [])
  | some p =>
    ({ m with inflight := m.inflight.filter (fun q => q.1 != k) },
     match p.2 with
     | some sid => [.ret sid]
     | none => [])

/-- a NOTIFY delivery raises: `gather` hands the exception to whoever awaits the fan-out — the fire-and-forget
    `async_send_events` task (nothing observable) or the SUBSCRIBE handler (it raises after its response was
    sent); the other deliveries of the fan-out go on, nobody is dropped, nothing is retried -/
def deliveryFailed (m : State) (k : Nat) : State × List Obs :=
  match m.inflight.find? (fun p => p.1 == k) with
  | none => (m, [])
  | some p =>
    ({ m with inflight := m.inflight.filter (fun q => q.1 != k) },
     match p.2 with
     | some sid => [.exc sid]
     | none => [])

def step (m : State) : Op → State × List Obs
  | .subscribe sid cb to => subscribe m sid cb to
  | .unsubscribe sid => unsubscribe m sid
  | .set x v => setVar m x v
  | .setMany l => setMany m l
  | .adv dt => advance (m.vars.length + 1) m (m.now + dt)
  | .done k => deliveryDone m k
  | .fail k => deliveryFailed m k
  | .setKey sid k => ({ m with subs := m.subs.map (fun s => if s.sid = sid then { s with key := k } else s) }, [])

/-- the trace of a history: every operation followed by what the server did -/
def run : State → List Op → List Item
  | _, [] => []
  | m, o :: os =>
    let r := step m o
    (.op o :: r.2.map .obs) ++ run r.1 os

end Upnp.C15
