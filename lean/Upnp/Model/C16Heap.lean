/-
  Object identity for C16.  A Python variable denotes a header-map OBJECT; an object owns a pair of
  dicts.  `replace(other_header_map)` makes the object's two dict references point at the OTHER
  object's dicts (the code: `self._data = new_data.as_dict(); self._case_map = new_data.case_map()`),
  every other operation that produces a header map builds fresh dicts, and `__setitem__` /
  `__delitem__` / `del_lower` mutate the dicts in place.  Because the two references always travel
  together, a pair of dicts is one *cell*; `handle v` is the cell variable `v`'s object currently
  uses.  `hstep` is generic in the cell type, so the CIDict model (`stepM`) and the abstract map
  (`stepS`) run under the very same handle table.  The driver runs exactly these functions.
-/
import Upnp.Model.C16Ops
namespace Upnp.C16
open Upnp

/-- operations on VARIABLES (what the harness' lines say) -/
inductive HOp (κ ν : Type)
  | newDict (v : Nat) (l : List (κ × ν))
  | newCI (v a : Nat)
  | set (v : Nat) (k : κ) (x : ν)
  | del (v : Nat) (k : κ)
  | delLower (v : Nat) (lk : κ)
  | copy (v a : Nat)
  | combine (v a b : Nat)
  | combineLower (v a : Nat) (l : List (κ × ν))
  | replaceDict (v : Nat) (l : List (κ × ν))
  | replaceCI (v a : Nat)

structure HSt (α : Type) where
  cells : Nat → α
  handle : Nat → Nat
  next : Nat

namespace HOp
variable {κ ν : Type}

/-- the variable whose object the operation writes or (re)binds -/
def target : HOp κ ν → Nat
  | .newDict v _ | .newCI v _ | .set v _ _ | .del v _ | .delLower v _ | .copy v _
  | .combine v _ _ | .combineLower v _ _ | .replaceDict v _ | .replaceCI v _ => v

/-- `replace(other)`: the operation makes its target share `a`'s cell -/
def linksTo : HOp κ ν → Nat → Bool
  | .replaceCI _ a, w => a == w
  | _, _ => false

end HOp

section
variable {κ ν α : Type}

/-- one operation on variables, over any cell-level step function (`stepM` or `stepS`) -/
def hstep (step : (Nat → α) → Op κ ν → (Nat → α)) (s : HSt α) : HOp κ ν → HSt α
  | .newDict v l => ⟨step s.cells (.newDict s.next l), upd s.handle v s.next, s.next + 1⟩
  | .newCI v a => ⟨step s.cells (.newCI s.next (s.handle a)), upd s.handle v s.next, s.next + 1⟩
  | .set v k x => { s with cells := step s.cells (.set (s.handle v) k x) }
  | .del v k => { s with cells := step s.cells (.del (s.handle v) k) }
  | .delLower v lk => { s with cells := step s.cells (.delLower (s.handle v) lk) }
  | .copy v a => ⟨step s.cells (.copy s.next (s.handle a)), upd s.handle v s.next, s.next + 1⟩
  | .combine v a b => ⟨step s.cells (.combine s.next (s.handle a) (s.handle b)), upd s.handle v s.next, s.next + 1⟩
  | .combineLower v a l => ⟨step s.cells (.combineLower s.next (s.handle a) l), upd s.handle v s.next, s.next + 1⟩
  | .replaceDict v l => ⟨step s.cells (.replaceDict s.next l), upd s.handle v s.next, s.next + 1⟩
  | .replaceCI v a => { s with handle := upd s.handle v (s.handle a) }

/-- every variable starts unbound (cell 0, never written); cells are allocated from 1 -/
def hinit (dflt : α) : HSt α := ⟨fun _ => dflt, fun _ => 0, 1⟩

def hrun (step : (Nat → α) → Op κ ν → (Nat → α)) (s : HSt α) (ops : List (HOp κ ν)) : HSt α :=
  ops.foldl (hstep step) s

/-- what a variable currently denotes -/
def HSt.val (s : HSt α) (v : Nat) : α := s.cells (s.handle v)

end
end Upnp.C16
