/-
  The operation language of the C16 correspondence check: a register machine over header
  maps.  `stepM` runs an operation on the CIDict model, `stepS` on the abstract map; the
  driver parses the harness' lines into `Op` and uses exactly these functions, and
  `Props/C16.lean` proves the simulation for every operation sequence.
-/
import Upnp.Model.CIDict
import Upnp.Spec.C16
namespace Upnp.C16
open Upnp PyDict

inductive Op (κ ν : Type)
  | newDict (r : Nat) (l : List (κ × ν))         -- `CaseInsensitiveDict(dict(l))`, also kwargs / multidict forms
  | newCI (r a : Nat)                            -- `CaseInsensitiveDict(other)`
  | set (r : Nat) (k : κ) (v : ν)
  | del (r : Nat) (k : κ)
  | delLower (r : Nat) (lk : κ)
  | copy (r a : Nat)
  | combine (r a b : Nat)
  | combineLower (r a : Nat) (l : List (κ × ν))  -- keys of `l` are pre-lowered
  | replaceDict (r : Nat) (l : List (κ × ν))
  | replaceCI (r a : Nat)

def upd {α : Type} (R : Nat → α) (r : Nat) (x : α) : Nat → α := fun i => if i = r then x else R i

section
variable {κ ν : Type} [DecidableEq κ] (lower : κ → κ)

def stepM (R : Nat → CIDict κ ν) : Op κ ν → (Nat → CIDict κ ν)
  | .newDict r l => upd R r (CIDict.ofDict lower (PyDict.ofList l))
  | .newCI r a => upd R r (CIDict.ofDict lower (CIDict.asDict (R a)))
  | .set r k v => upd R r (CIDict.setitem lower (R r) k v)
  | .del r k => match CIDict.delitem lower (R r) k with
      | some d => upd R r d
      | none => R
  | .delLower r lk => match CIDict.delLower (R r) lk with
      | some d => upd R r d
      | none => R
  | .copy r a => upd R r (CIDict.copy (R a))
  | .combine r a b => upd R r (CIDict.combine (R a) (R b))
  | .combineLower r a l => upd R r (CIDict.combineLower (R a) (PyDict.ofList l))
  | .replaceDict r l => upd R r (CIDict.replaceDict lower (R r) (PyDict.ofList l))
  | .replaceCI r a => upd R r (CIDict.replaceCI (R r) (R a))

/-- `true` = the operation raises `KeyError` on the model -/
def raisesM (R : Nat → CIDict κ ν) : Op κ ν → Bool
  | .del r k => (CIDict.delitem lower (R r) k).isNone
  | .delLower r lk => (CIDict.delLower (R r) lk).isNone
  | _ => false

def stepS (S : Nat → SMap κ ν) : Op κ ν → (Nat → SMap κ ν)
  | .newDict r l => upd S r (SMap.writeAll lower [] (PyDict.ofList l))
  | .newCI r a => upd S r (S a)
  | .set r k v => upd S r (SMap.write lower (S r) k v)
  | .del r k => upd S r (SMap.remove (S r) (lower k))
  | .delLower r lk => upd S r (SMap.remove (S r) lk)
  | .copy r a => upd S r (S a)
  | .combine r a b => upd S r (SMap.overlay (S a) (S b))
  | .combineLower r a l => upd S r (SMap.writeAll lower (S a) (PyDict.ofList l))
  | .replaceDict r l => upd S r (SMap.writeAll lower [] (PyDict.ofList l))
  | .replaceCI r a => upd S r (S a)

/-- `true` = the abstract map says the operation must raise `KeyError` -/
def raisesS (S : Nat → SMap κ ν) : Op κ ν → Bool
  | .del r k => (SMap.lookup lower (S r) k).isNone
  | .delLower r lk => (get? (S r) lk).isNone
  | _ => false

def dedup (l : List κ) : List κ := l.foldl (fun acc k => if acc.contains k then acc else acc ++ [k]) []

/-- the model's observation of a header map -/
def observe (probes : List κ) (d : CIDict κ ν) : Obs κ ν :=
  let lows := dedup (probes.map lower)
  { len := CIDict.len d
    iter := CIDict.iter d
    gets := probes.map fun k => (k, CIDict.getitem lower d k)
    getLow := lows.map fun lk => (lk, CIDict.getLower d lk)
    member := probes.map fun k => (k, CIDict.contains' lower d k)
    lowered := CIDict.asLowerDict lower d
    data := CIDict.asDict d
    cmap := CIDict.caseMap d }

/-! ### the inherited `MutableMapping` mutators, as `collections.abc` defines them through
`__getitem__` / `__setitem__` / `__delitem__` / `__iter__` -/

/-- `pop(key)`: `value = self[key]` (KeyError ↦ `none`), then `del self[key]` -/
def popM (d : CIDict κ ν) (k : κ) : Option ν × CIDict κ ν :=
  match CIDict.getitem lower d k with
  | some v => (some v, (CIDict.delitem lower d k).getD d)
  | none => (none, d)
def popS (m : SMap κ ν) (k : κ) : Option ν × SMap κ ν :=
  match SMap.lookup lower m k with
  | some v => (some v, SMap.remove m (lower k))
  | none => (none, m)

/-- `setdefault(key, default)`: `try: return self[key] except KeyError: self[key] = default; return default` -/
def setdefaultM (d : CIDict κ ν) (k : κ) (v : ν) : ν × CIDict κ ν :=
  match CIDict.getitem lower d k with
  | some x => (x, d)
  | none => (v, CIDict.setitem lower d k v)
def setdefaultS (m : SMap κ ν) (k : κ) (v : ν) : ν × SMap κ ν :=
  match SMap.lookup lower m k with
  | some x => (x, m)
  | none => (v, SMap.write lower m k v)

/-- `update(mapping)`: `for key in other: self[key] = other[key]` -/
def updateM (d : CIDict κ ν) (l : List (κ × ν)) : CIDict κ ν :=
  l.foldl (fun acc p => CIDict.setitem lower acc p.1 p.2) d
def updateS (m : SMap κ ν) (l : List (κ × ν)) : SMap κ ν := SMap.writeAll lower m l

/-- `Mapping.items()` as `collections.abc` defines it: `[(k, self[k]) for k in self]` (likewise
    `keys()` is iteration and `values()` the second components) -/
def mixinItems (d : CIDict κ ν) : List (κ × ν) :=
  (CIDict.iter d).filterMap fun k => (CIDict.getitem lower d k).map fun v => (k, v)

end
end Upnp.C16
