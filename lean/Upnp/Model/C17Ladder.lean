/-
  C17 — executable model of the two HTTP requesters of `async_upnp_client/aiohttp.py`.

  The try/except ladders, the retry count and the `issubclass` matrix are DATA (`Tables`), produced
  on every run by `tools/gen_c17.py` (`Upnp/Gen/C17Ladders.lean`); this file is the fixed
  interpreter of those tables:

    * `handle`      – Python's handler selection: first handler one of whose classes is a
                      superclass of the raised class; the action of that handler
    * `plainRequest`   – `AiohttpRequester.async_http_request`: one exchange through the plain ladder
    * `sessionRequest` – `AiohttpSessionRequester.async_http_request`: `retries` attempts through
                      inner ladder + retry ladder (a swallowing handler = next attempt), then one
                      attempt through inner ladder + final ladder
    * `requestHeaders` – `_request_headers` / `_fixed_host_header` on a small URL grammar

  Import-free (core Lean only; linked into the driver).
-/
import Upnp.Model.PyDict
namespace Upnp.C17

abbrev Cls := Nat

inductive Action where
  | raiseCls (c : Cls) (keepStatus : Bool)   -- `raise K(...) from err`; keepStatus: `status=err.status`
  | reraise                                  -- bare `raise`
  | swallow                                  -- log only: the enclosing retry loop continues
deriving DecidableEq, Repr

abbrev Ladder := List (List Cls × Action)

/-- a statement inside an `if log_traffic:` block, as classified by the translator -/
inductive LogStmt where
  | safe               -- `_LOGGER_TRAFFIC_UPNP.debug(fmt, <names / header join / x or "">)`: cannot raise
  | decodeStrictBody   -- an argument `resp_body.decode()`: raises UnicodeDecodeError on a non-UTF-8 body
deriving DecidableEq, Repr

/-- the two traffic-logging blocks of a requester: before the try (request), inside it (response) -/
structure LogBlock where
  pre : List LogStmt
  post : List LogStmt
deriving DecidableEq, Repr

structure Tables where
  supers : List (List Cls)
  plain : Ladder
  inner : Ladder
  retry : Ladder
  final : Ladder
  retries : Nat
  transport : List Cls
  logPlain : LogBlock
  logInner : LogBlock
  cUnicodeDecode : Cls
  cTimeout : Cls
  cClientConn : Cls
  cClientResp : Cls
  cUpnpComm : Cls
  cUpnpConn : Cls
  cUpnpResp : Cls
  cUpnpClientResp : Cls

/-- `issubclass(a, b)` per the generated matrix -/
def subclass (T : Tables) (a b : Cls) : Bool := (T.supers.getD a []).contains b

/-- outcome of one exchange with the transport (what the scripted session does):
    a response `r`, or an exception of class `c` carrying `status` (if it has one) -/
inductive Exch (ρ : Type) where
  | ok (r : ρ)
  | exc (c : Cls) (st : Option Nat)
deriving DecidableEq, Repr

/-- result of running a try/except ladder -/
inductive LRes (ρ : Type) where
  | ret (r : ρ)
  | raised (c : Cls) (st : Option Nat)
  | swallowed
deriving DecidableEq, Repr

def findHandler (T : Tables) (c : Cls) : Ladder → Option Action
  | [] => none
  | (cs, a) :: rest => if cs.any (subclass T c) then some a else findHandler T c rest

/-- what a ladder does to an exception of class `c`: `none` = swallowed,
    `some (k, keep)` = an exception of class `k` leaves the try statement, `keep` = it carries the
    status of the original -/
def handle (T : Tables) (L : Ladder) (c : Cls) : Option (Cls × Bool) :=
  match findHandler T c L with
  | none => some (c, true)
  | some (.raiseCls k keep) => some (k, keep)
  | some .reraise => some (c, true)
  | some .swallow => none

def runLadder {ρ : Type} (T : Tables) (L : Ladder) : Exch ρ → LRes ρ
  | .ok r => .ret r
  | .exc c st =>
    match handle T L c with
    | none => .swallowed
    | some (k, keep) => .raised k (if keep then st else none)

/-- `AiohttpRequester.async_http_request` -/
def plainRequest {ρ : Type} (T : Tables) (o : Exch ρ) : LRes ρ := runLadder T T.plain o

/-- one call of `_async_http_request` wrapped in the outer ladder `L` (retry or final).
    A swallowing handler in the *inner* ladder would fall through to `return` with unbound locals;
    it is modelled as an exception of the out-of-table class `supers.length` (never a library class). -/
def attempt {ρ : Type} (T : Tables) (L : Ladder) (o : Exch ρ) : LRes ρ :=
  match runLadder T T.inner o with
  | .ret r => .ret r
  | .raised c st => runLadder T L (.exc c st)
  | .swallowed => .raised T.supers.length none

/-- `AiohttpSessionRequester.async_http_request`: result and number of `session.request` calls.
    `fuel` = remaining silent attempts. When the script is exhausted the result is `swallowed`
    with the calls made so far (the harness pads scripts, the theorems assume enough outcomes). -/
def sessionLoop {ρ : Type} (T : Tables) : Nat → List (Exch ρ) → Nat → LRes ρ × Nat
  | _, [], n => (.swallowed, n)
  | 0, o :: _, n => (attempt T T.final o, n + 1)
  | k + 1, o :: rest, n =>
    match attempt T T.retry o with
    | .swallowed => sessionLoop T k rest (n + 1)
    | r => (r, n + 1)

def sessionRequest {ρ : Type} (T : Tables) (outs : List (Exch ρ)) : LRes ρ × Nat :=
  sessionLoop T T.retries outs 0

def request {ρ : Type} (T : Tables) (session : Bool) (outs : List (Exch ρ)) : LRes ρ × Nat :=
  if session then sessionRequest T outs
  else match outs with
    | [] => (.swallowed, 0)
    | o :: _ => (plainRequest T o, 1)

/-! ### traffic logging (`log_traffic = _LOGGER_TRAFFIC_UPNP.isEnabledFor(logging.DEBUG)`) -/

/-- what the response-logging block does to a successful exchange when logging is on: the exchange
    turns into the exception a logging statement raises inside the try (then the ladder applies) -/
def logFault (T : Tables) (blk : LogBlock) (utf8ok : Bool) : Option Cls :=
  if blk.post.contains .decodeStrictBody && !utf8ok then some T.cUnicodeDecode else none

def withLog {ρ : Type} (T : Tables) (blk : LogBlock) (log : Bool) (utf8 : ρ → Bool) : Exch ρ → Exch ρ
  | .ok r => if log then (match logFault T blk (utf8 r) with | some c => .exc c none | none => .ok r) else .ok r
  | e => e

/-- a request with the traffic logger at DEBUG (`log = true`) or not; `utf8 r` = the body bytes of response
    `r` are valid UTF-8 -/
def requestL {ρ : Type} (T : Tables) (session log : Bool) (utf8 : ρ → Bool) (outs : List (Exch ρ)) : LRes ρ × Nat :=
  request T session (outs.map (withLog T (if session then T.logInner else T.logPlain) log utf8))

/-- every statement of every logging block is of the kind that cannot raise -/
def logSafe (T : Tables) : Bool :=
  (T.logPlain.pre ++ T.logPlain.post ++ T.logInner.pre ++ T.logInner.post).all (· == .safe)

/-! ### Host header -/

abbrev Str := List Char

/-- ASCII `str.lower()` as a table (no character arithmetic: keeps the proofs elementary) -/
def lowerTable : List (Char × Char) :=
  "ABCDEFGHIJKLMNOPQRSTUVWXYZ".toList.zip "abcdefghijklmnopqrstuvwxyz".toList
def lowerChar (c : Char) : Char := (lowerTable.lookup c).getD c
def lowerStr (s : Str) : Str := s.map lowerChar

inductive Host where
  | plain (h : Str)                       -- IPv4 literal or registered name (no `%`, no `:`)
  | ipv6 (addr : Str)                     -- `[addr]`
  | zoned (addr delim zone : Str)        -- `[addr delim zone]`, delim = `%25` or `%`
deriving DecidableEq, Repr

structure Url where
  scheme : Str
  host : Host
  port : Option Str      -- decimal digits, no leading zero, not "0"
  path : Str             -- starts with `/`, may contain `%`
deriving DecidableEq, Repr

def Host.render : Host → Str
  | .plain h => h
  | .ipv6 a => '[' :: a ++ [']']
  | .zoned a d z => '[' :: a ++ d ++ z ++ [']']

def Url.render (u : Url) : Str :=
  u.scheme ++ "://".toList ++ u.host.render ++ (match u.port with | some p => ':' :: p | none => []) ++ u.path

/-- `_fixed_host_header(url)`: the `Host` value, if one is contributed.
    (`urlparse(url).hostname` is the bracket content lower-cased; the zone is cut at the LAST `%`;
    the model's grammar has no `%` inside `zone`, so that is where `delim` starts when `delim = "%"`,
    and one character further when `delim = "%25"`… the real code cuts at the last `%`, i.e. for
    `%25` it cuts at the `%` of `%25` only if `zone` has no `%` — which the grammar guarantees.) -/
def fixedHost (u : Url) : Option Str :=
  match u.host with
  | .zoned a _ _ =>
      let h := lowerStr a
      let h := if h.contains ':' then '[' :: h ++ [']'] else h
      some (match u.port with | some p => h ++ ':' :: p | none => h)
  | _ => none

/-! #### the same function at TEXT level, parametric in what `urlparse(url)` answers -/

/-- `h[:h.rindex('%')]` -/
def cutLastPercent (h : Str) : Str := ((h.reverse.dropWhile (· != '%')).drop 1).reverse

/-- `_fixed_host_header(url)` transcribed statement by statement; `hostname` / `port` stand for
    `urlparse(url).hostname` / `.port` (decimal text).  An empty hostname is falsy. -/
def fixedHostText (url : Str) (hostname : Option Str) (port : Option Str) : Option Str :=
  if !url.contains '%' then none
  else match hostname with
    | none => none
    | some h =>
      if !h.isEmpty && h.contains '%' then
        let f := cutLastPercent h
        let f := if f.contains ':' then '[' :: f ++ [']'] else f
        some (match port with | some p => f ++ ':' :: p | none => f)
      else none

/-- ASSUMED of `urllib.parse.urlparse` on the grammar (checked against the real `urlparse` by the
    correspondence harness on every case, not proved): `.hostname` is the host — for a bracketed
    literal the bracket content — with the part before the first `%` lower-cased and the zone (delimiter
    included) left as written (CPython: `hostname.partition('%')`, `hostname.lower() + percent + zone`);
    `.port` is the port. -/
def urlparseHostname (u : Url) : Str :=
  match u.host with
  | .plain h => lowerStr h
  | .ipv6 a => lowerStr a
  | .zoned a d z => lowerStr a ++ d ++ z
def urlparsePort (u : Url) : Option Str := u.port

abbrev Headers := PyDict Str Str

def hostKey : Str := "host".toList
def hostName : Str := "Host".toList

/-- `_request_headers(url, self._http_headers, headers)` -/
def requestHeaders (u : Url) (own caller : Headers) : Headers :=
  let merged := PyDict.merge own caller
  match fixedHost u with
  | none => merged
  | some h => PyDict.set (merged.filter fun p => lowerStr p.1 ≠ hostKey) hostName h

end Upnp.C17
