/-
  C18 — executable model of `description_cache.DescriptionCache.async_get_description_dict` /
  `uncache_description` / `peek_description_dict` running on an asyncio event loop, at the
  granularity of ONE READY HANDLE per `step` (the atomicity asyncio gives between awaits).

  A lookup coroutine is a program counter:
    init          created, first step pending
    waitEvt e     `await evt.wait()` on the in-flight marker `e` of another lookup
    waitDl d e    `await self.async_get_description_xml(location)` (download `d`), having installed marker `e`
    done          finished (status is in the monitor part)
  `ready` is the loop's FIFO of handles (task ids), `waiters` the `Event._waiters` queues,
  `mustCancel` = a CancelledError will be thrown into the coroutine at its next step
  (`Task.cancel()`: either the awaited future was cancelled or `_must_cancel` was set).

  The state embeds the monitor state `Mon` of `Spec/C18.lean` and updates it with the monitor's
  own `applyOp` / `applyEv`, so the theorems can speak about the judge directly.
  Import-free.
-/
import Upnp.Model.PyDict
import Upnp.Spec.C18
namespace Upnp.C18
open Upnp

inductive Entry where
  | marker (e : Nat)
  | result (v : Out)
deriving DecidableEq, Repr

inductive Pc where
  | init
  | waitEvt (e : Nat)
  | waitDl (d : Nat) (e : Nat)
  | done
deriving DecidableEq, Repr

structure TState where
  pc : Pc
  mustCancel : Bool
deriving DecidableEq, Repr

structure St where
  mon : Mon := {}
  ts : List TState := []
  dlCancelled : List Nat := []            -- downloads whose future was cancelled
  cache : PyDict Loc Entry := []
  ready : List Nat := []
  waiters : List (Nat × Nat) := []        -- (event, task) in the order `wait()` was called
  nextEvt : Nat := 0
deriving Repr

namespace St

def locOf (s : St) (t : Nat) : Loc := ((s.mon.tasks[t]?).map (·.loc)).getD 0

def setPc (s : St) (t : Nat) (pc : Pc) : St :=
  { s with ts := s.ts.modify t fun k => { k with pc := pc } }

/-- `evt.set()`: every waiter of `e` gets its wakeup scheduled, in waiting order -/
def setEvent (s : St) (e : Nat) : St :=
  { s with ready := s.ready ++ (s.waiters.filter (·.1 == e)).map (·.2),
           waiters := s.waiters.filter (·.1 != e) }

def emit (s : St) (ev : Ev) : St := { s with mon := s.mon.applyEv ev }

/-- the body of the `while True:` loop of `async_get_description_dict`, from its top up to the next
    await or return, for task `t` looking up `loc` -/
def lookupLoop (s : St) (t : Nat) (loc : Loc) : St × List Ev :=
  match PyDict.get? s.cache loc with
  | some (.marker e) =>
      ({ (s.setPc t (.waitEvt e)) with waiters := s.waiters ++ [(e, t)] }, [])
  | some (.result v) =>
      ((s.setPc t .done).emit (.returned t v), [.returned t v])
  | none =>
      let d := s.mon.dls.length
      let e := s.nextEvt
      let s := { s with cache := PyDict.set s.cache loc (.marker e), nextEvt := e + 1 }
      ((s.setPc t (.waitDl d e)).emit (.requested t loc), [.requested t loc])

def eraseIfOurs (s : St) (loc : Loc) (e : Nat) : St :=
  if PyDict.get? s.cache loc = some (.marker e) then { s with cache := PyDict.erase s.cache loc } else s

def storeIfOurs (s : St) (loc : Loc) (e : Nat) (v : Out) : St :=
  if PyDict.get? s.cache loc = some (.marker e) then { s with cache := PyDict.set s.cache loc (.result v) } else s

/-- the `finally:` block: remove the marker if it is still ours, then `evt.set()` -/
def finallyBlock (s : St) (loc : Loc) (e : Nat) : St := (s.eraseIfOurs loc e).setEvent e

/-- the coroutine of task `t` ends (`ev` says how) -/
def finish (s : St) (t : Nat) (ev : Ev) : St :=
  ({ s with ts := s.ts.modify t fun _ => { pc := .done, mustCancel := false } }).emit ev

/-- a handle for a task that awaits a download which is neither released nor cancelled cannot be in
    the ready queue; the model treats such a step as a no-op -/
def blocked (s : St) (k : TState) : Bool :=
  !k.mustCancel && match k.pc with
    | .waitDl d _ => ((s.mon.dls[d]?).bind (·.outcome)).isNone
    | _ => false

/-- one step of task `t` (its handle already popped from the ready queue) -/
def stepTask (s : St) (t : Nat) (k : TState) : St × List Ev :=
  let loc := s.locOf t
  if k.mustCancel then
    -- CancelledError is thrown at the current await point
    match k.pc with
    | .done => (s, [])
    | .waitDl _ e => ((s.finallyBlock loc e).finish t (.cancelled t), [.cancelled t])
    | _ => (s.finish t (.cancelled t), [.cancelled t])
  else
    match k.pc with
    | .done => (s, [])
    | .init => s.lookupLoop t loc
    | .waitEvt _ => s.lookupLoop t loc       -- woken: check the cache again
    | .waitDl d e =>
        match (s.mon.dls[d]?).bind (·.outcome) with
        | none => (s, [])
        | some v =>
            -- store the result if the marker is still ours, then the finally block, then loop
            ((s.storeIfOurs loc e v).finallyBlock loc e).lookupLoop t loc

/-- run the handle at the head of the ready queue -/
def stepHead (s : St) : St × List Ev :=
  match s.ready with
  | [] => (s, [])
  | t :: rest =>
    match s.ts[t]? with
    | none => ({ s with ready := rest }, [])
    | some k => if s.blocked k then (s, []) else stepTask { s with ready := rest } t k

def outstanding (s : St) (d : Nat) : Bool :=
  match s.mon.dls[d]? with
  | some k => k.outcome.isNone && !s.dlCancelled.contains d
  | none => false

/-- apply one environment operation; returns the new state and the events it produced -/
def apply (s0 : St) (op : Op) : St × List Ev :=
  -- the monitor part records every operation exactly as the judge does
  let s := { s0 with mon := s0.mon.applyOp op }
  match op with
  | .lookup _ =>
      ({ s with ts := s.ts ++ [{ pc := .init, mustCancel := false }], ready := s.ready ++ [s.ts.length] }, [])
  | .complete d _ =>
      if s0.outstanding d then
        let owner := ((s.mon.dls[d]?).map (·.owner)).getD 0
        ({ s with ready := s.ready ++ [owner] }, [])
      else (s, [])
  | .cancel t =>
      match s.ts[t]? with
      | none => (s, [])
      | some k =>
        if k.pc = .done then (s, [])
        else
          let s := { s with ts := s.ts.modify t fun k => { k with mustCancel := true } }
          let s := if s.ready.contains t then s else { s with ready := s.ready ++ [t] }
          match k.pc with
          | .waitDl d _ => (if s.outstanding d then { s with dlCancelled := d :: s.dlCancelled } else s, [])
          | .waitEvt e => ({ s with waiters := s.waiters.filter (· != (e, t)) }, [])
          | _ => (s, [])
  | .uncache loc => ({ s with cache := PyDict.erase s.cache loc }, [])
  | .step => s.stepHead

/-- number of unfinished lookups -/
def pendingCount (s : St) : Nat := (s.ts.filter fun k => k.pc != .done).length

def outstandingCount (s : St) : Nat := ((List.range s.mon.dls.length).filter s.outstanding).length

/-- the scheduler snapshot the judge sees after every operation -/
def snap (s : St) : Item := .snap s.ready.length s.outstandingCount s.pendingCount

/-- `peek_description_dict(loc)` -/
def peek (s : St) (loc : Loc) : Bool × Out :=
  match PyDict.get? s.cache loc with
  | some (.result v) => (true, v)
  | _ => (false, none)

end St

/-- the full observable trace of an operation sequence: each operation, the events it caused, a snapshot -/
def runFrom (s : St) : List Op → List Item
  | [] => []
  | op :: rest =>
    let r := s.apply op
    (Item.op op :: r.2.map Item.ev) ++ r.1.snap :: runFrom r.1 rest

def run (ops : List Op) : List Item := runFrom {} ops

def finalState (s : St) : List Op → St
  | [] => s
  | op :: rest => finalState (s.apply op).1 rest

end Upnp.C18
