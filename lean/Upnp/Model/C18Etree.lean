/-
  C18 — executable model of `utils.etree_to_dict` and `description_cache._description_xml_to_dict`
  at TREE level (the element tree is what `defusedxml.ElementTree.fromstring` produced; XML text →
  tree is not modelled).

  `etreePy` transcribes the Python statement by statement, including `dict_meta` (which may be
  `None`) and the two `assert dict_meta is not None`; an assertion failure is `none`.
  `etreeSpec` is the characterisation; `Props/C18.lean` proves `etreePy t = some (etreeSpec t)` for
  every tree: the asserts can never fire.
  Import-free.
-/
import Upnp.Model.PyDict
namespace Upnp.C18
open Upnp

abbrev Str := List Char

/-- an `xml.etree` element: tag (`{ns}local` or `local`), attributes in document order, `.text`
    (`None` or a string, possibly empty), children -/
inductive Elem where
  | mk (tag : Str) (attrs : List (Str × Str)) (text : Option Str) (children : List Elem)

/-- the Python value built by `etree_to_dict` -/
inductive PVal where
  | none
  | str (s : Str)
  | dict (d : List (Str × PVal))
  | list (l : List PVal)

def isWs (c : Char) : Bool := c == ' ' || c == '\t' || c == '\n' || c == '\r'
/-- `str.strip()` (XML text can hold no other ASCII whitespace; Unicode spaces are out of the model) -/
def strip (s : Str) : Str := ((s.dropWhile isWs).reverse.dropWhile isWs).reverse

/-- `tag[tag.find("}") + 1:]` -/
def localName (tag : Str) : Str := if tag.contains '}' then (tag.dropWhile (· != '}')).drop 1 else tag

/-- `defaultdict(list)` filled by `child_dict[k].append(val)` -/
def groupAppend (g : PyDict Str (List PVal)) (k : Str) (v : PVal) : PyDict Str (List PVal) :=
  match PyDict.get? g k with
  | some l => PyDict.set g k (l ++ [v])
  | none => PyDict.set g k [v]

/-- `{k: v[0] if len(v) == 1 else v for k, v in child_dict.items()}` -/
def collapse (g : PyDict Str (List PVal)) : List (Str × PVal) :=
  g.map fun p => (p.1, match p.2 with | [v] => v | l => .list l)

/-- `dict_meta.update(("@" + k, v) for k, v in attrib.items())` -/
def withAttrs (d : List (Str × PVal)) (attrs : List (Str × Str)) : List (Str × PVal) :=
  attrs.foldl (fun acc p => PyDict.set acc ('@' :: p.1) (.str p.2)) d

def truthy (t : Option Str) : Bool := match t with | some (_ :: _) => true | _ => false

mutual
/-- characterisation of `etree_to_dict(tree)`: the single `(tag_name, value)` entry -/
def etreeSpec : Elem → Str × PVal
  | .mk tag attrs text children =>
    let kids := etreeSpecList children
    let stripped := strip (text.getD [])
    if children.isEmpty && attrs.isEmpty then
      (localName tag, if truthy text then .str stripped else .none)
    else
      let d := collapse (kids.foldl (fun g p => groupAppend g p.1 p.2) [])
      let d := withAttrs d attrs
      let d := if truthy text && !stripped.isEmpty then PyDict.set d "#text".toList (.str stripped) else d
      (localName tag, .dict d)
def etreeSpecList : List Elem → List (Str × PVal)
  | [] => []
  | c :: rest => etreeSpec c :: etreeSpecList rest
end

mutual
/-- statement-by-statement transcription; `none` = an `assert dict_meta is not None` failed -/
def etreePy : Elem → Option (Str × PVal)
  | .mk tag attrs text children =>
    let tagName := localName tag
    -- tree_dict = {tag_name: {} if tree.attrib else None}
    let v0 : PVal := if !attrs.isEmpty then .dict [] else .none
    match etreePyList children with
    | Option.none => Option.none
    | some kids =>
      -- if children: … tree_dict = {tag_name: {k: v[0] if len(v) == 1 else v …}}
      let v1 : PVal := if !children.isEmpty
        then .dict (collapse (kids.foldl (fun g p => groupAppend g p.1 p.2) [])) else v0
      -- dict_meta = tree_dict[tag_name]   (the SAME object as the value, or None)
      let meta1 : Option (List (Str × PVal)) := match v1 with | .dict d => some d | _ => Option.none
      -- if tree.attrib: assert dict_meta is not None; dict_meta.update(…)
      let r2 : Option (Option (List (Str × PVal))) :=
        if !attrs.isEmpty then (match meta1 with | some d => some (some (withAttrs d attrs)) | Option.none => Option.none)
        else some meta1
      match r2 with
      | Option.none => Option.none
      | some meta2 =>
        let v2 : PVal := match meta2 with | some d => .dict d | Option.none => v1
        -- if tree.text:
        if truthy text then
          let t := strip (text.getD [])
          if !children.isEmpty || !attrs.isEmpty then
            if !t.isEmpty then
              match meta2 with
              | some d => some (tagName, .dict (PyDict.set d "#text".toList (.str t)))
              | Option.none => Option.none            -- assert dict_meta is not None
            else some (tagName, v2)
          else some (tagName, .str t)
        else some (tagName, v2)
def etreePyList : List Elem → Option (List (Str × PVal))
  | [] => some []
  | c :: rest =>
    match etreePy c, etreePyList rest with
    | some x, some xs => some (x :: xs)
    | _, _ => Option.none
end

/-- `_description_xml_to_dict` after parsing: `root = etree_to_dict(tree).get("root")`; not a dict ⇒ None;
    `root.get("device")` (absent ⇒ None).  `none` = assertion failure, `some PVal.none` = Python `None`. -/
def descriptionOf (t : Elem) : Option PVal :=
  match etreePy t with
  | Option.none => Option.none
  | some (tag, v) =>
    if tag = "root".toList then
      match v with
      | .dict d => some ((PyDict.get? d "device".toList).getD .none)
      | _ => some .none
    else some .none

end Upnp.C18
