/-
  C19 — executable model of the DLNA LastChange expansion (profiles/dlna.py):
  `DlnaDmrEventContentHandler` as a fold over SAX events (with its one raising primitive made
  explicit), `dlna_handle_notify_last_change`, and the part of
  `UpnpService.notify_changed_state_variables` it relies on (string-typed variables).
  Import-free apart from PyDict (linked into the driver).
-/
import Upnp.Model.PyDict
namespace Upnp.C19
open Upnp PyDict

abbrev S := List Char

def sVal : S := "val".toList
def sChannel : S := "channel".toList
def sMaster : S := "Master".toList
def sInstanceID : S := "InstanceID".toList
def sEvent : S := "Event".toList
def sZero : S := "0".toList

/-- a SAX event as expat delivers it (qualified names, attributes as a mapping) -/
inductive Sax where
  | start (name : S) (attrs : List (S × S))
  | stop (name : S)
deriving DecidableEq, Repr

/-- `DlnaDmrEventContentHandler` state -/
structure HSt where
  changes : PyDict S (PyDict S S) := []
  current : Option S := none
deriving DecidableEq, Repr

inductive PyErr where
  | keyError
deriving DecidableEq, Repr

/-- `"0" if self._current_instance is None else self._current_instance` -/
def orZero : Option S → S
  | some id => id
  | none => sZero

/-- `name[name.find(":") + 1:]` when `":" in name` -/
def stripPrefix (name : S) : S :=
  if name.contains ':' then (name.dropWhile (· != ':')).drop 1 else name

/-- `self.changes[current_instance][name] = value` (KeyError when the instance is missing) -/
def assign (changes : PyDict S (PyDict S S)) (cur name v : S) : Except PyErr (PyDict S (PyDict S S)) :=
  match get? changes cur with
  | none => .error .keyError
  | some inner => .ok (set changes cur (set inner name v))

/-- `startElement` / `endElement` (the namespace prefix is stripped first, for the instance
    element as well as for the entries) -/
def step (st : HSt) : Sax → Except PyErr HSt
  | .start name attrs =>
    match get? attrs sVal with
    | none => .ok st                                    -- `if "val" not in attrs: return`
    | some v =>
      if stripPrefix name = sInstanceID then .ok { st with current := some v }
      else
        let cur := orZero st.current                    -- outside any InstanceID: instance 0
        let changes := if contains st.changes cur then st.changes else set st.changes cur []
        let skip : Bool := match get? attrs sChannel with   -- `not in (None, "Master")`
          | none => false
          | some ch => ch != sMaster
        if skip then .ok { st with changes := changes }
        else match assign changes cur (stripPrefix name) v with
          | .error e => .error e
          | .ok ch' => .ok { st with changes := ch' }
  | .stop name =>
    if stripPrefix name = sInstanceID then .ok { st with current := none } else .ok st

/-- the handler over a whole event stream -/
def runFrom (st : HSt) : List Sax → Except PyErr HSt
  | [] => .ok st
  | e :: r => match step st e with
    | .error x => .error x
    | .ok st' => runFrom st' r

def run (evs : List Sax) : Except PyErr HSt := runFrom {} evs

/-- `UpnpService.notify_changed_state_variables` on string-typed variables: unknown names are
    skipped; returns the new values and the names handed to `on_event` -/
def notifyChanged (vars : PyDict S S) (changes : PyDict S S) : PyDict S S × List S :=
  changes.foldl (fun acc p => if contains acc.1 p.1 then (set acc.1 p.1 p.2, acc.2 ++ [p.1]) else acc) (vars, [])

/-- `dlna_handle_notify_last_change`: `emptyValue` = the LastChange value is empty (no parse);
    `evs` = what the parser delivered.  Result: new variable values and the further callbacks. -/
def expand (vars : PyDict S S) (emptyValue : Bool) (evs : List Sax) :
    Except PyErr (PyDict S S × List (List S)) :=
  if emptyValue then .ok (vars, [])
  else match run evs with
    | .error e => .error e
    | .ok st =>
      match get? st.changes sZero with
      | none => .ok (vars, [])
      | some ch0 => let r := notifyChanged vars ch0; .ok (r.1, [r.2])

/-! ### abstract documents and their rendering as events -/

structure Entry where
  pfx  : Option S
  name : S
  chan : Option S
  val  : S
deriving DecidableEq, Repr

structure Inst where
  id : S
  entries : List Entry
  ipfx : Option S := none      -- prefix of the instance element (`rcs:InstanceID`)
deriving DecidableEq, Repr

/-- `loose` = entries written directly under `Event`, before the first `InstanceID` element (the
    property's documents have none; the code counts them for instance 0 — its "safety" fallback) -/
structure LcDoc where
  rootAttrs : List (S × S)
  insts : List Inst
  loose : List Entry := []
deriving DecidableEq, Repr

def qname (e : Entry) : S :=
  match e.pfx with
  | some p => p ++ ':' :: e.name
  | none => e.name

/-- attributes in name order (`channel` < `val`) -/
def entryAttrs (e : Entry) : List (S × S) :=
  match e.chan with
  | some c => [(sChannel, c), (sVal, e.val)]
  | none => [(sVal, e.val)]

def entryEvents (e : Entry) : List Sax := [.start (qname e) (entryAttrs e), .stop (qname e)]

def iname (i : Inst) : S :=
  match i.ipfx with
  | some p => p ++ ':' :: sInstanceID
  | none => sInstanceID

def instEvents (i : Inst) : List Sax :=
  .start (iname i) [(sVal, i.id)] :: (i.entries.flatMap entryEvents ++ [.stop (iname i)])

def events (d : LcDoc) : List Sax :=
  .start sEvent d.rootAttrs :: (d.loose.flatMap entryEvents ++ (d.insts.flatMap instEvents ++ [.stop sEvent]))

end Upnp.C19
