/-
  C20 — executable model of the IGD facade (profiles/igd.py + the lookup part of
  profiles/profile.py and client.py).  Import-free apart from PyDict (linked into the driver).

  Part 1 (routing): device tree, `find_service`, `_service`, `_action`, `_any_action`.
  Part 2 (counters): `async_get_total_*` (offset rule), `_derive_value_per_second`,
  `async_get_traffic_and_status_data` (gather(return_exceptions=True)).
  Numbers are `Int`; time is `Int` microseconds; a rate is an unreduced fraction.
-/
import Upnp.Model.PyDict
namespace Upnp.C20
open Upnp PyDict

abbrev S := List Char

/-! ## Part 1 — routing -/

/-- one facade method as the translator sees it -/
structure OpRow where
  method  : S
  aliases : List S        -- `services or [...]` default, or the single alias of `_action`
  action  : S
  viaAny  : Bool
  ret     : S             -- declared result (inside `Optional[...]`)
deriving DecidableEq, Repr

/-- a service as the facade sees it: its type, where requests go (`cid` names the control URL)
    and the actions its SCPD defines -/
structure Svc where
  ty   : S
  cid  : Nat
  acts : List S
deriving DecidableEq, Repr

/-- `UpnpDevice`: `services` is a dict keyed by service type, `embedded_devices` a dict keyed by
    device type (both exactly as `UpnpDevice.__init__` builds them) -/
inductive Dev where
  | mk (dty : S) (svcs : List (S × Svc)) (subs : List (S × Dev))

instance : Inhabited Dev := ⟨.mk [] [] []⟩

def Dev.dty : Dev → S | .mk t _ _ => t
def Dev.svcs : Dev → List (S × Svc) | .mk _ s _ => s
def Dev.subs : Dev → List (S × Dev) | .mk _ _ s => s

mutual
/-- `UpnpDevice.find_service` -/
def findService : Dev → S → Option Svc
  | .mk _ svcs subs, ty =>
    match get? svcs ty with
    | some s => some s
    | none => findInSubs subs ty
/-- the `for embedded_device in self.embedded_devices.values()` loop of `find_service` -/
def findInSubs : List (S × Dev) → S → Option Svc
  | [], _ => none
  | (_, d) :: r, ty =>
    match findService d ty with
    | some s => some s
    | none => findInSubs r ty
end

mutual
/-- every (registered type, service) pair in the order `find_service` visits them -/
def allServices : Dev → List (S × Svc)
  | .mk _ svcs subs => svcs ++ allServicesSubs subs
def allServicesSubs : List (S × Dev) → List (S × Svc)
  | [] => []
  | (_, d) :: r => allServices d ++ allServicesSubs r
end

mutual
/-- `UpnpDevice.all_devices` -/
def allDevices : Dev → List Dev
  | .mk t svcs subs => Dev.mk t svcs subs :: allDevicesSubs subs
def allDevicesSubs : List (S × Dev) → List Dev
  | [] => []
  | (_, d) :: r => allDevices d ++ allDevicesSubs r
end

/-- `find_device_of_type` (`none` = UpnpError) -/
def profileDevice (deviceTypes : List S) (root : Dev) : Option Dev :=
  (allDevices root).find? fun d => deviceTypes.contains d.dty

section
-- `ord` is the iteration order of the `set` of service types of one alias (hash order at run
-- time; the theorems hold for every order)
variable (ord : List S → List S) (T : List (S × List S))

/-- `UpnpProfileDevice._service` -/
def service (d : Dev) (alias : S) : Option Svc :=
  match get? T alias with
  | none => none
  | some tys => (ord tys).findSome? (findService d)

/-- `UpnpProfileDevice._action` (the service the action object belongs to): the first offered
    service of the alias's types that defines the action -/
def action (d : Dev) (alias name : S) : Option Svc :=
  match get? T alias with
  | none => none
  | some tys => (ord tys).findSome? fun ty =>
      match findService d ty with
      | some s => if s.acts.contains name then some s else none
      | none => none

/-- `IgdDevice._any_action` -/
def anyAction (d : Dev) (aliases : List S) (name : S) : Option Svc :=
  aliases.findSome? fun a => action ord T d a name

/-- the service a facade method sends its request to (`none` = "not available"): a function of the
    tables, the offered services and the operation alone — no availability flag, no subscription
    state, no history -/
def route (d : Dev) (r : OpRow) : Option Svc := anyAction ord T d r.aliases r.action
end

/-- the run-time order of a type set: the observed order first, anything unobserved after it -/
def ordOf (observed : List S) (tys : List S) : List S :=
  observed.filter (tys.contains ·) ++ tys.filter (!observed.contains ·)

/-! ## Part 2 — counters -/

/-- what one reading produced at the gateway -/
inductive Raw where
  | na                 -- the facade found no service/action: the getter returns None
  | ok (n : Int)       -- the response carried this number
  | absent             -- a 200 response without the out-argument: None
  | fail (e : Nat)     -- the call raised (e identifies the exception class)
deriving DecidableEq, Repr

/-- a field of `IgdState` / `TrafficCounterState` -/
inductive Val where
  | none
  | exc (e : Nat)
  | int (n : Int)
deriving DecidableEq, Repr

def Val.isExc : Val → Bool | .exc _ => true | _ => false

/-- the constants of the counter arithmetic (pinned to the source by `igd_counter_pins`) -/
def offsetConst : Int := 2147483648
def kibConst : Int := 1024

/-- what the translator reads off the counter code (data only; compared with the model's constants
    and shapes by `igd_counter_pins` in Props/C20.lean) -/
structure CounterPins where
  negTests : List Bool          -- each `async_get_total_*` tests `total < 0` …
  offsets : List Int            -- … and then sets its offset to this constant, returning `total + offset`
  wrapTest : Bool               -- `if last_value > current_value: return None`
  kib : Int                     -- `delta_value / kib` …
  kibNames : List S             -- … for exactly these value names
  perSecond : Bool              -- `return delta_value / delta_time.total_seconds()`
  gatherOrder : List S          -- the getters of the poll, in order
  returnExceptions : Bool       -- `gather(..., return_exceptions=True)`
  raiseOnlyWithoutResult : Bool -- the only `raise` sits under `if not non_exceptions`
deriving DecidableEq, Repr

/-- `async_get_total_*`: new offset and returned value -/
def readTotal (off : Int) : Raw → Int × Val
  | .ok n => let off' := if n < 0 then offsetConst else off; (off', .int (n + off'))
  | .absent => (off, .none)
  | .na => (off, .none)
  | .fail e => (off, .exc e)

/-- an unreduced fraction `num / den` -/
structure Frac where
  num : Int
  den : Int
deriving DecidableEq, Repr

/-- `_derive_value_per_second`; `tLast`, `tNow` in microseconds.  NOT modelled: at `tNow = tLast`
    the code raises ZeroDivisionError (here: a fraction with denominator 0); the property's domain has
    positive elapsed time, the theorems assume it (`increasing`) and the harness never generates it -/
def derive (isBytes : Bool) (tNow : Int) (cur : Val) (tLast : Int) (last : Val) : Option Frac :=
  match cur, last with
  | .int c, .int l =>
    if l > c then none
    else some ⟨(c - l) * 1000000, (if isBytes then kibConst else 1) * (tNow - tLast)⟩
  | _, _ => none

structure Counter where
  off  : Int := 0
  last : Val := .none
deriving DecidableEq, Repr

/-- one counter over one sample: new state, reported total, rate -/
def stepCounter (isBytes : Bool) (tLast tNow : Int) (c : Counter) (r : Raw) : Counter × Val × Option Frac :=
  let (off', v) := readTotal c.off r
  (⟨off', v⟩, v, derive isBytes tNow v tLast c.last)

structure IgdSt where
  tLast : Int
  br : Counter := {}
  bs : Counter := {}
  pr : Counter := {}
  ps : Counter := {}
deriving DecidableEq, Repr

/-- one sample's readings: four counters, status info, external address (`ok` payloads of the last
    two are irrelevant here: `Val.int 0` stands for "a value") -/
structure Readings where
  br : Raw
  bs : Raw
  pr : Raw
  ps : Raw
  status : Raw
  ip : Raw
deriving DecidableEq, Repr

structure Sample where
  br : Val
  bs : Val
  pr : Val
  ps : Val
  status : Val
  ip : Val
  rbr : Option Frac
  rbs : Option Frac
  rpr : Option Frac
  rps : Option Frac
deriving DecidableEq, Repr

/-- value of the status / address getters (no offset) -/
def plain : Raw → Val
  | .ok _ => .int 0
  | .absent => .none
  | .na => .none
  | .fail e => .exc e

/-- `raise values[0]` when there is no non-exception among the six results -/
def raiseOf : Val → Bool → Option Nat
  | .exc e, true => some e
  | _, _ => none

/-- `async_get_traffic_and_status_data`: the state is updated first; the call raises `values[0]`
    (`Except.error e`) only when all six results are exceptions -/
def sample (st : IgdSt) (tNow : Int) (r : Readings) : IgdSt × Except Nat Sample :=
  let s1 := stepCounter true st.tLast tNow st.br r.br
  let s2 := stepCounter true st.tLast tNow st.bs r.bs
  let s3 := stepCounter false st.tLast tNow st.pr r.pr
  let s4 := stepCounter false st.tLast tNow st.ps r.ps
  let vst := plain r.status
  let vip := plain r.ip
  let allExc := s1.2.1.isExc && s2.2.1.isExc && s3.2.1.isExc && s4.2.1.isExc && vst.isExc && vip.isExc
  (⟨tNow, s1.1, s2.1, s3.1, s4.1⟩,
   match raiseOf s1.2.1 allExc with
   | some e => .error e
   | none => .ok ⟨s1.2.1, s2.2.1, s3.2.1, s4.2.1, vst, vip, s1.2.2, s2.2.2, s3.2.2, s4.2.2⟩)

/-- a whole series from the freshly constructed profile (`t0` = construction time) -/
def runSeries (st : IgdSt) : List (Int × Readings) → List (Except Nat Sample)
  | [] => []
  | (t, r) :: rest => let (st', o) := sample st t r; o :: runSeries st' rest

end Upnp.C20
