/-
  CIDict — `async_upnp_client.utils.CaseInsensitiveDict`, transcribed method by
  method (two dicts: `data : spelling ↦ value`, `cmap : folded ↦ spelling`).
  Generic in the key type and the folding function `lower` (Python `str.lower`;
  the driver instantiates it with ASCII lower on `String`).
  `lowerstr` keys are assumed to be lower-case already (then `k.lower() == k`,
  so the `type(k) is lowerstr` shortcut is not observable).
  `none` results model `KeyError`.
-/
import Upnp.Model.PyDict
namespace Upnp
open PyDict

structure CIDict (κ ν : Type) where
  data : PyDict κ ν
  cmap : PyDict κ κ
deriving Repr

namespace CIDict
variable {κ ν : Type} [DecidableEq κ] (lower : κ → κ)

/-- `{k.lower(): k for k in data}` -/
def caseMapOf (data : PyDict κ ν) : PyDict κ κ :=
  PyDict.ofList (data.map fun p => (lower p.1, p.1))

/-- `_drop_shadowed_keys`: when two spellings folded to one `cmap` entry, keep only
    the spellings `cmap` points at (in `cmap` order). -/
def dropShadowed (data : PyDict κ ν) (cmap : PyDict κ κ) : CIDict κ ν :=
  if cmap.length = data.length then ⟨data, cmap⟩
  else ⟨cmap.filterMap (fun p => (get? data p.2).map (fun v => (p.2, v))), cmap⟩

/-- `CaseInsensitiveDict(d)` / `CaseInsensitiveDict(**kw)` for a plain mapping `d`. -/
def ofDict (d : PyDict κ ν) : CIDict κ ν := dropShadowed d (caseMapOf lower d)

def empty : CIDict κ ν := ⟨[], []⟩

def copy (d : CIDict κ ν) : CIDict κ ν := ⟨d.data, d.cmap⟩

def combine (a b : CIDict κ ν) : CIDict κ ν :=
  dropShadowed (merge a.data b.data) (merge a.cmap b.cmap)

/-- `lower_dict` keys are pre-lowered. -/
def combineLower (a : CIDict κ ν) (ld : PyDict κ ν) : CIDict κ ν :=
  dropShadowed (merge a.data ld) (merge a.cmap (PyDict.ofList (ld.map fun p => (p.1, p.1))))

def getLower (d : CIDict κ ν) (lk : κ) : Option ν :=
  (get? d.cmap lk).bind (get? d.data)

/-- `replace(new_data)` for a plain mapping. -/
def replaceDict (_d : CIDict κ ν) (nd : PyDict κ ν) : CIDict κ ν := ofDict lower nd

/-- `replace(other)` for another header map (value level; object sharing not modelled). -/
def replaceCI (_d other : CIDict κ ν) : CIDict κ ν := ⟨other.data, other.cmap⟩

def delLower (d : CIDict κ ν) (lk : κ) : Option (CIDict κ ν) :=
  match get? d.cmap lk with
  | none => none
  | some k => if contains d.data k then some ⟨erase d.data k, erase d.cmap lk⟩ else none

def setitem (d : CIDict κ ν) (k : κ) (v : ν) : CIDict κ ν :=
  let lk := lower k
  let data := match get? d.cmap lk with
    | some k' => if k' ≠ k then erase d.data k' else d.data
    | none => d.data
  ⟨set data k v, set d.cmap lk k⟩

def getitem (d : CIDict κ ν) (k : κ) : Option ν :=
  (get? d.cmap (lower k)).bind (get? d.data)

def delitem (d : CIDict κ ν) (k : κ) : Option (CIDict κ ν) := delLower d (lower k)

def len (d : CIDict κ ν) : Nat := d.data.length
def iter (d : CIDict κ ν) : List κ := keys d.data
def asDict (d : CIDict κ ν) : PyDict κ ν := d.data
def caseMap (d : CIDict κ ν) : PyDict κ κ := d.cmap
def asLowerDict (d : CIDict κ ν) : PyDict κ ν :=
  PyDict.ofList (d.data.map fun p => (lower p.1, p.2))
/-- `Mapping.__contains__`: `try: self[key]` -/
def contains' (d : CIDict κ ν) (k : κ) : Bool := (getitem lower d k).isSome

def eqCI [DecidableEq ν] (a b : CIDict κ ν) : Bool :=
  eqv (asLowerDict lower a) (asLowerDict lower b)
def eqDict [DecidableEq ν] (a : CIDict κ ν) (m : PyDict κ ν) : Bool :=
  eqv (asLowerDict lower a) (PyDict.ofList (m.map fun p => (lower p.1, p.2)))

end CIDict
end Upnp
