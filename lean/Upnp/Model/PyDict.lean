/-
  PyDict — Python's insertion-ordered `dict` as an association list.
  `set` on an existing key keeps its position (and the old key object);
  a new key is appended.  `erase` removes the (unique) entry.
  Import-free: this file is linked into the driver.
-/
namespace Upnp

abbrev PyDict (κ ν : Type) := List (κ × ν)

namespace PyDict
variable {κ ν : Type} [DecidableEq κ]

def get? : PyDict κ ν → κ → Option ν
  | [], _ => none
  | (k', v) :: r, k => if k' = k then some v else get? r k

def contains (d : PyDict κ ν) (k : κ) : Bool := (get? d k).isSome

def set : PyDict κ ν → κ → ν → PyDict κ ν
  | [], k, v => [(k, v)]
  | (k', v') :: r, k, v => if k' = k then (k', v) :: r else (k', v') :: set r k v

def erase : PyDict κ ν → κ → PyDict κ ν
  | [], _ => []
  | (k', v') :: r, k => if k' = k then r else (k', v') :: erase r k

def keys (d : PyDict κ ν) : List κ := d.map (·.1)
def values (d : PyDict κ ν) : List ν := d.map (·.2)

/-- `{**a, **b}` -/
def merge (a b : PyDict κ ν) : PyDict κ ν := b.foldl (fun acc p => set acc p.1 p.2) a

/-- `dict(pairs)` / a dict display / comprehension evaluated left to right. -/
def ofList (l : List (κ × ν)) : PyDict κ ν := merge [] l

/-- Python `==` on dicts: same key set, same value per key (order-insensitive). -/
def eqv [DecidableEq ν] (a b : PyDict κ ν) : Bool :=
  a.length == b.length && a.all (fun p => get? b p.1 == some p.2)

end PyDict
end Upnp
