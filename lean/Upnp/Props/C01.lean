/-
  C01 — SSDP messages survive the wire and decode independently of history.
  (theorems are added below; this first version pins the generated tables)
-/
import Upnp.Model.C01Ssdp
import Upnp.Model.C01Lru
import Upnp.Spec.C01
import Upnp.Gen.C01Ssdp
namespace Upnp.C01
open Upnp

/-- the literals `build_ssdp_packet` serialises with are the ones the model's `build` uses -/
theorem builder_literals :
    Gen.C01Ssdp.headerSep = [COLON] ∧ Gen.C01Ssdp.lineSep = [CR, LF]
    ∧ Gen.C01Ssdp.afterStartLine = [CR, LF] ∧ Gen.C01Ssdp.terminator = [CR, LF, CR, LF] := by decide

end Upnp.C01
