/-
  C01 — SSDP messages survive the wire and decode independently of history.

  Property theorems only (lemmas: `Lemmas/C01Wire.lean`, `Lemmas/C01Lru.lean`).  The model
  (`Model/C01Ssdp.lean`) transcribes `ssdp.py` at byte level; the driver runs exactly these
  functions against the implementation; `Spec/C01.lean` holds the run-time judge.
-/
import Upnp.Lemmas.C01Wire
import Upnp.Lemmas.C01Dict
import Upnp.Lemmas.C01Lru
import Upnp.Gen.C01Ssdp
namespace Upnp.C01
open Upnp CIDict PyDict

/-! ### the generated tables are the ones the model is about -/

/-- the literals `build_ssdp_packet` serialises with: CRLF line ends, blank-line terminator -/
theorem builder_literals :
    Gen.C01Ssdp.lineSep = [CR, LF] ∧ Gen.C01Ssdp.afterStartLine = [CR, LF]
    ∧ Gen.C01Ssdp.terminator = [CR, LF, CR, LF] := by decide

/-- the literal between name and value is a colon followed by blanks only -/
theorem sep_ok : SepOk Gen.C01Ssdp.headerSep :=
  ⟨Gen.C01Ssdp.headerSep.tail, by decide, by unfold isBlank; decide⟩

/-- what the proofs need of a start line -/
def startLineOk (sl : Bytes) : Bool :=
  !sl.contains CR && !sl.contains LF && stripWs sl == sl && utf8Valid sl && !sl.isEmpty

/-- every start line the gate accepts as a prefix is a clean ASCII line -/
theorem start_lines_ok : Gen.C01Ssdp.ssdpPrefixes.all startLineOk = true := by decide

/-- the `M-SEARCH` builder uses one of the three start lines -/
theorem search_line_ok : Gen.C01Ssdp.ssdpPrefixes.contains Gen.C01Ssdp.searchRequestLine = true := by decide

/-! ### the wire -/

/-- a built message passes the validity gate -/
theorem gate_build (sep sl : Bytes) (hs : List (Bytes × Bytes)) (hsl : sl ∈ Gen.C01Ssdp.ssdpPrefixes) :
    isValidPacket Gen.C01Ssdp.ssdpPrefixes (build sep sl hs) = true := by
  unfold isValidPacket build
  simp only [Bool.and_eq_true, Bool.not_eq_true', List.isEmpty_eq_false_iff, List.contains_eq_mem,
    decide_eq_true_eq, List.any_eq_true]
  refine ⟨⟨by simp, by simp [LF]⟩, sl, hsl, startsWith_append sl _⟩

/-- **The header parser inverts the builder**: for every start line of the three kinds and every
    well-formed header list of ANY length, parsing the built datagram returns the start line, the
    header list itself (same names, same values, same order) and the UDN of its USN. -/
theorem headerParse_build (sep : Bytes) (hsep : SepOk sep) (sl : Bytes) (hsl : startLineOk sl = true)
    (hs : List (Bytes × Bytes)) (h : ∀ p ∈ hs, WFPair p) :
    headerParse (build sep sl hs) = .ok (hs, sl, udnOf hs) := by
  simp only [startLineOk, Bool.and_eq_true, Bool.not_eq_true', List.contains_eq_mem,
    decide_eq_false_iff_not, beq_iff_eq] at hsl
  obtain ⟨⟨⟨⟨h1, h2⟩, h3⟩, h4⟩, _⟩ := hsl
  unfold headerParse
  rw [linesOf_build sep sl hs ⟨h1, h2⟩ (fun p hp => hdrLine_noCRLF sep hsep p (h p hp))]
  simp only [List.headD_cons, h3, h4, List.drop_one, List.tail_cons]
  by_cases he : hs = []
  · subst he; simp [parseLines]
  · simp only [he, if_false]
    have := parseLines_build sep hsep hs h [[]]
    simp [this]

/-- **Decoding a built message** (any header count, any source address, any clock value): the
    result is the start line and the header map `CaseInsensitiveDict({**sent, **extra})` overlaid
    with the per-call metadata — an explicit normal form with no parser left in it. -/
theorem decode_build_wire (sep : Bytes) (hsep : SepOk sep) (sl : Bytes) (hsl : sl ∈ Gen.C01Ssdp.ssdpPrefixes)
    (hs : List (Bytes × Bytes)) (hwf : wfHeaders Gen.C01Ssdp.metaKeys hs = true)
    (loc : Option Addr) (src : Addr) (now : Int) :
    decode (build sep sl hs) loc src now
      = .ok (sl, CIDict.combineLower (headersOf hs (udnOf hs) (withoutPort src)) (callMeta now loc src)) := by
  have hok : startLineOk sl = true := List.all_eq_true.mp start_lines_ok sl hsl
  unfold decode decodeCore
  rw [headerParse_build sep hsep sl hok hs (wfHeaders_spec hwf).1]

/-- What a user sees of the header map decoded from a message built from `hs`, sent by `src`:
    every look-up is by an ARBITRARY spelling `k` of the name. -/
structure RoundTrip (hs : List (Bytes × Bytes)) (src : Addr) (h : Hdrs) : Prop where
  /-- every sent header other than `location` has the sent value -/
  sent : ∀ p ∈ hs, lower p.1 ≠ kLocation → ∀ k, lower k = lower p.1 → getitem lower h k = some (.str p.2)
  /-- `location`: blank text is kept; otherwise the link-local adjustment of the sent URL for this
      source (the identity unless the source is a scoped IPv6 address, `adjust_identity`), and the
      sent text is kept under `_location_original` -/
  locBlank : ∀ p ∈ hs, lower p.1 = kLocation → allPyWs p.2 = true →
      ∀ k, lower k = kLocation → getitem lower h k = some (.str p.2)
  locAdjusted : ∀ p ∈ hs, lower p.1 = kLocation → allPyWs p.2 = false →
      (∀ k, lower k = kLocation → getitem lower h k = some (adjVal p.2 src))
      ∧ (∀ k, lower k = kLocOrig → getitem lower h k = some (.str p.2))
  /-- sender metadata derived from the datagram's source address -/
  host : ∀ k, lower k = kHost → getitem lower h k = some (.str (hostString src))
  port : ∀ k, lower k = kPort → getitem lower h k = some (.int src.port)
  remote : ∀ k, lower k = kRemote → getitem lower h k = some (.addr src)
  /-- the UDN taken from a uuid USN (absent otherwise) -/
  udn : ∀ k, lower k = kUdn → getitem lower h k = (udnOf hs).map Val.str
  /-- the names are exactly the sent names (ignoring case) plus metadata names, each once -/
  namesSub : ∀ n ∈ iter h, lower n ∈ hs.map (fun p => lower p.1) ∨ lower n ∈ Gen.C01Ssdp.metaKeys
  namesSup : ∀ p ∈ hs, ∃ n ∈ iter h, lower n = lower p.1
  namesNodup : ((iter h).map lower).Nodup

/-- the names the model reserves for metadata are the `LOWER_*` constants of the source -/
theorem meta_keys_pinned :
    Gen.C01Ssdp.metaKeys = [kTimestamp, kHost, kPort, kLocal, kRemote, kUdn, kLocOrig, kLocation] := by decide

theorem notReserved_of {x : Bytes} (h : reserved Gen.C01Ssdp.metaKeys x = false) : NotReserved x := by
  rw [meta_keys_pinned] at h
  have hne : kHost ≠ kLocation ∧ kUdn ≠ kLocation ∧ kLocOrig ≠ kLocation ∧ kTimestamp ≠ kLocation
      ∧ kRemote ≠ kLocation ∧ kPort ≠ kLocation ∧ kLocal ≠ kLocation := by decide
  obtain ⟨a, b, c, d, e, f, g⟩ := hne
  refine ⟨?_, ?_, ?_, ?_, ?_, ?_, ?_⟩ <;> (intro hx; subst hx; simp [reserved, *] at h)

/-- **C01, first sentence.**  For every start line among the three SSDP kinds, every header list
    of ANY length whose names are tokens, pairwise distinct ignoring case and not metadata keys, and
    whose values contain no CR/LF/NUL, have no surrounding blanks and are at most 8190 bytes long,
    every source address (IPv4, IPv6, scoped IPv6), local address and clock value: the library's
    decoder applied to what the library's builder produced returns the same start line and a header
    map in which every sent name, looked up by any spelling, has the sent value (`location`: see
    `RoundTrip.locAdjusted`), together with `_host`, `_port`, `_remote_addr` of the source and the
    `_udn` of a uuid USN, and no other names than the sent ones and metadata. -/
theorem decode_build (sep : Bytes) (hsep : SepOk sep) (sl : Bytes) (hsl : sl ∈ Gen.C01Ssdp.ssdpPrefixes)
    (hs : List (Bytes × Bytes)) (hwf : wfHeaders Gen.C01Ssdp.metaKeys hs = true)
    (loc : Option Addr) (src : Addr) (now : Int) :
    ∃ h, decode (build sep sl hs) loc src now = .ok (sl, h) ∧ RoundTrip hs src h := by
  obtain ⟨_, hres, hd⟩ := wfHeaders_spec hwf
  have hr : ∀ p ∈ hs, NotReserved (lower p.1) := fun p hp => notReserved_of (hres p hp)
  refine ⟨decoded hs loc src now, ?_, ?_⟩
  · rw [decode_build_wire sep hsep sl hsl hs hwf]
    rfl
  · exact
    { sent := fun p hp hl k hk => decoded_sent hd hr loc src now hp hl k hk
      locBlank := fun p hp hl hw k hk => decoded_location_blank hd hr loc src now hp hl hw k hk
      locAdjusted := fun p hp hl hw => decoded_location hd hr loc src now hp hl hw
      host := fun k hk => decoded_host hd loc src now k hk
      port := fun k hk => decoded_port hd loc src now k hk
      remote := fun k hk => decoded_remote hd loc src now k hk
      udn := fun k hk => decoded_udn hd hr loc src now k hk
      namesSub := fun n hn => by
        rcases decoded_names_sub hd loc src now hn with h | h
        · exact Or.inl h
        · right; rw [meta_keys_pinned]
          simp only [List.mem_cons, List.not_mem_nil, or_false] at h ⊢
          rcases h with e | e | e | e | e | e | e | e <;> simp [e]
      namesSup := fun p hp => decoded_names_sup hd hr loc src now hp
      namesNodup := decoded_names_nodup hd loc src now }

/-- the built `M-SEARCH` of `build_ssdp_search_packet` is an instance (its four names are distinct
    tokens; `decode_build` applies whenever target, MX and ST texts are well-formed values) -/
theorem search_names_wf :
    distinctCI Gen.C01Ssdp.searchHeaderNames = true
    ∧ Gen.C01Ssdp.searchHeaderNames.all (fun k => isToken k && !reserved Gen.C01Ssdp.metaKeys (lower k)) = true := by
  decide

/-- the decoder factors through the cached part, which sees the source WITHOUT its port: only the
    per-call metadata (`_timestamp`, `_remote_addr`, `_port`, `_local_addr`) is added per call -/
theorem decode_factors (data : Bytes) (loc : Option Addr) (a : Addr) (now : Int) :
    decode data loc a now
      = (decodeCore data (withoutPort a)).map fun r => (r.1, CIDict.combineLower r.2 (callMeta now loc a)) := by
  unfold decode
  cases decodeCore data (withoutPort a) <;> rfl

/-- hence two sources that differ only in the port share the cached part -/
theorem decode_port_irrelevant (data : Bytes) (a b : Addr) (h : withoutPort a = withoutPort b) :
    decodeCore data (withoutPort a) = decodeCore data (withoutPort b) := by rw [h]

/-- `get_adjusted_url` is the identity unless the source is a scoped IPv6 address -/
theorem adjust_identity (u : Bytes) (a : Addr) (h : ¬ (a.v6 = true ∧ a.scope ≠ 0)) :
    adjustUrl u a = some u := by
  unfold adjustUrl urlOutcome; simp [h]

/-- … and unless the URL's host is an IPv6 link-local literal: whenever the URL is rewritten, the
    source is a scoped IPv6 address AND the host `urlsplit` finds is an address in fe80::/10
    (an IPv4 link-local host, 169.254/16, is left alone since the library repair `c72af10`) -/
theorem adjusted_only_v6_link_local (u u' : Bytes) (a : Addr) (h : urlOutcome u a = .adjusted u') :
    (a.v6 = true ∧ a.scope ≠ 0) ∧ ∃ p, urlParts u = .ok p ∧ ipKind p.host = .v6LinkLocal := by
  unfold urlOutcome at h
  by_cases hs : a.v6 = true ∧ a.scope ≠ 0
  · refine ⟨hs, ?_⟩
    have hc : ¬ ((!decide (a.v6 = true ∧ a.scope ≠ 0)) = true) := by simp [hs]
    rw [if_neg hc] at h
    cases hp : urlParts u with
    | error e => rw [hp] at h; cases e <;> simp [Early.outcome] at h
    | ok p =>
      rw [hp] at h
      refine ⟨p, rfl, ?_⟩
      unfold adjustParts at h
      dsimp only at h
      split at h
      · cases h
      · split at h
        · cases h
        · split at h
          · cases h
          · split at h <;> first | cases h | assumption
  · simp [hs] at h

/-- hence: an unchanged or unmodelled answer in every other case -/
theorem adjust_same_unless_v6 (u : Bytes) (a : Addr) (p : UrlParts) (hp : urlParts u = .ok p)
    (hk : ipKind p.host ≠ .v6LinkLocal) : adjustUrl u a = some u ∨ adjustUrl u a = none := by
  unfold adjustUrl
  cases ho : urlOutcome u a with
  | same w => exact Or.inl rfl
  | unmodelled => exact Or.inr rfl
  | adjusted u' =>
    obtain ⟨_, p', hp', hk'⟩ := adjusted_only_v6_link_local u u' a ho
    rw [hp] at hp'; cases hp'; exact absurd hk' hk

/-! ### what holds of EVERY datagram, and the literal reading of "the same values" -/

theorem decode_ok {data : Bytes} {loc : Option Addr} {src : Addr} {now : Int} {rl : Bytes} {h : Hdrs}
    (hd : decode data loc src now = .ok (rl, h)) :
    ∃ pairs udn, h = combineLower (headersOf pairs udn (withoutPort src)) (callMeta now loc src) := by
  unfold decode decodeCore at hd
  cases hp : headerParse data with
  | error e => rw [hp] at hd; cases hd
  | ok r =>
    obtain ⟨pairs, rl', udn⟩ := r
    rw [hp] at hd
    simp only [Except.ok.injEq, Prod.mk.injEq] at hd
    exact ⟨pairs, udn, hd.2.symm⟩

/-- **sender metadata, for ALL datagrams**: whatever bytes were decoded — built by the library or not,
    carrying headers named `_host`, `_PORT`, `_Remote_Addr` in any spelling or not — the decoded map
    reads, under any spelling of these three names, the host string, the port and the address tuple
    of the datagram's SOURCE.  (This is why a header map that sends a metadata name cannot come back
    "the same": the second half of the property's sentence wins, for every datagram.  It was false of
    the code before the repair of F01a.)  It is the theorem behind the judge clause `sourceMetaOk`. -/
theorem source_meta_any (data : Bytes) (loc : Option Addr) (src : Addr) (now : Int) (rl : Bytes) (h : Hdrs)
    (hd : decode data loc src now = .ok (rl, h)) :
    (∀ k, lower k = kHost → getitem lower h k = some (.str (hostString src)))
    ∧ (∀ k, lower k = kPort → getitem lower h k = some (.int src.port))
    ∧ (∀ k, lower k = kRemote → getitem lower h k = some (.addr src)) := by
  obtain ⟨pairs, udn, rfl⟩ := decode_ok hd
  obtain ⟨a, b, c, d, _, _, _, _, _, _, _, _, _, _, _, _, t1, t2, t3⟩ := meta_ne
  refine ⟨?_, ?_, ?_⟩
  · intro k hk
    rw [headers_get, hk, callMeta_get?_none _ _ _ _ ⟨a, b, c, d⟩, extras_eq]
    simp [get?]; rfl
  · intro k hk
    rw [headers_get, hk]
    simp [callMeta, get?, t2, t3]
  · intro k hk
    rw [headers_get, hk]
    simp [callMeta, get?, t1]

/-- a header value containing NUL is refused by the header parser (`InvalidHeader`, RFC 9110 §5.5): the
    reason `validValue` excludes NUL — the text's "values without CR/LF" is false of such a value -/
theorem parseLine_nul (k v : Bytes) (hk : isToken k = true) (hkl : k.length ≤ maxField) (hvl : v.length ≤ maxField)
    (h1 : v.head? ≠ some SP) (h2 : v.head? ≠ some HT) (h3 : v.getLast? ≠ some SP) (h4 : v.getLast? ≠ some HT)
    (h0 : 0 ∈ v) : parseLine (hdrLine [COLON] (k, v)) = .error .invalidHeader := by
  obtain ⟨hne, hall⟩ := isToken_spec hk
  have hcolon : COLON ∉ k := fun e => (isTchar_ne (List.all_eq_true.mp hall _ e)).1 rfl
  have hsplit : splitFirst COLON (k ++ ([COLON] ++ v)) = some (k, v) := by
    simpa using splitFirst_append COLON k v hcolon
  have hhead : ¬ (k.head? = some SP ∨ k.head? = some HT ∨ k.getLast? = some SP ∨ k.getLast? = some HT) := by
    intro e
    rcases e with e | e | e | e
    · exact (isTchar_ne (all_head? hall e)).2.1 rfl
    · exact (isTchar_ne (all_head? hall e)).2.2.1 rfl
    · exact (isTchar_ne (all_getLast? hall e)).2.1 rfl
    · exact (isTchar_ne (all_getLast? hall e)).2.2.1 rfl
  have hempty : k.isEmpty = false := by simpa using hne
  have hnl : ¬ k.length > maxField := by omega
  have hvl' : ¬ v.length > maxField := by omega
  unfold parseLine hdrLine
  simp only [hsplit, hempty, hhead, lstripSPHT_id v h1 h2, rstripSPHT_id v h3 h4, hnl, hvl', hk]
  simp [h0]

/-- **"the same header values", literally, for every sender that is not a scoped IPv6 address**
    (IPv4, unscoped IPv6): EVERY sent header — `location` included — looked up by any spelling has
    exactly the sent value -/
theorem decode_build_unscoped (sep : Bytes) (hsep : SepOk sep) (sl : Bytes) (hsl : sl ∈ Gen.C01Ssdp.ssdpPrefixes)
    (hs : List (Bytes × Bytes)) (hwf : wfHeaders Gen.C01Ssdp.metaKeys hs = true)
    (loc : Option Addr) (src : Addr) (now : Int) (hsrc : ¬ (src.v6 = true ∧ src.scope ≠ 0)) :
    ∃ h, decode (build sep sl hs) loc src now = .ok (sl, h)
      ∧ ∀ p ∈ hs, ∀ k, lower k = lower p.1 → getitem lower h k = some (.str p.2) := by
  obtain ⟨h, hd, hrt⟩ := decode_build sep hsep sl hsl hs hwf loc src now
  refine ⟨h, hd, ?_⟩
  intro p hp k hk
  by_cases hl : lower p.1 = kLocation
  · by_cases hw : allPyWs p.2 = true
    · exact hrt.locBlank p hp hl hw k (hk.trans hl)
    · have := (hrt.locAdjusted p hp hl (by simpa using hw)).1 k (hk.trans hl)
      rw [this]
      unfold adjVal
      rw [adjust_identity p.2 src hsrc]
  · exact hrt.sent p hp hl k hk

/-- … and for a scoped IPv6 sender the ONLY header whose value may differ from the sent one is
    `location`, and only when the URL's host is an IPv6 link-local literal; the sent text is then kept
    under `_location_original` -/
theorem decode_build_location_differs (sep : Bytes) (hsep : SepOk sep) (sl : Bytes) (hsl : sl ∈ Gen.C01Ssdp.ssdpPrefixes)
    (hs : List (Bytes × Bytes)) (hwf : wfHeaders Gen.C01Ssdp.metaKeys hs = true)
    (loc : Option Addr) (src : Addr) (now : Int) :
    ∃ h, decode (build sep sl hs) loc src now = .ok (sl, h)
      ∧ ∀ p ∈ hs, ∀ k, lower k = lower p.1 → ∀ u', getitem lower h k = some (.str u') → u' ≠ p.2 →
          lower p.1 = kLocation ∧ (src.v6 = true ∧ src.scope ≠ 0)
          ∧ (∃ parts, urlParts p.2 = .ok parts ∧ ipKind parts.host = .v6LinkLocal)
          ∧ getitem lower h kLocOrig = some (.str p.2) := by
  obtain ⟨h, hd, hrt⟩ := decode_build sep hsep sl hsl hs hwf loc src now
  refine ⟨h, hd, ?_⟩
  intro p hp k hk u' hu hne
  by_cases hl : lower p.1 = kLocation
  · by_cases hw : allPyWs p.2 = true
    · rw [hrt.locBlank p hp hl hw k (hk.trans hl)] at hu
      simp only [Option.some.injEq, Val.str.injEq] at hu; exact absurd hu.symm hne
    · obtain ⟨ha, ho⟩ := hrt.locAdjusted p hp hl (by simpa using hw)
      rw [ha k (hk.trans hl)] at hu
      unfold adjVal adjustUrl at hu
      cases hout : urlOutcome p.2 src with
      | same w => rw [hout] at hu; simp only [Option.some.injEq, Val.str.injEq] at hu; exact absurd hu.symm hne
      | unmodelled => rw [hout] at hu; simp at hu
      | adjusted v =>
        obtain ⟨hsc, parts, hparts, hkind⟩ := adjusted_only_v6_link_local p.2 v src hout
        exact ⟨hl, hsc, ⟨parts, hparts, hkind⟩, ho kLocOrig (by decide)⟩
  · rw [hrt.sent p hp hl k hk] at hu
    simp only [Option.some.injEq, Val.str.injEq] at hu; exact absurd hu.symm hne

/-! ### the run-time judge is the theorem's reading -/

/-- **The judge evaluated on the model's own observation accepts**: for a well-formed header list,
    probes that cover every sent name (in any spelling) and the metadata names, `roundTripOk` — the predicate the driver evaluates on the
    IMPLEMENTATION's observation — holds of the observation of the map `decode_build` speaks about
    (a location outside the modelled URL grammar is `unk` in the model and any text for the judge).
    So the run-time judge demands nothing the theorem does not establish for the model. -/
theorem judge_accepts_roundtrip (sl : Bytes) (hs : List (Bytes × Bytes)) (src : Addr) (h : Hdrs) (probes : List Bytes)
    (hrt : RoundTrip hs src h)
    (hcov : ∀ p ∈ hs, ∃ q ∈ probes, lower q = lower p.1)
    (hmeta : ∀ k ∈ [kHost, kPort, kRemote, kUdn, kLocOrig], ∃ q ∈ probes, lower q = lower k) :
    roundTripOk Gen.C01Ssdp.metaKeys sl hs src sl (observe probes h) = true := by
  have hl : ∀ k, lower (lower k) = lower k := by
    intro k; unfold lower; simp only [List.map_map]; apply List.map_congr_left; intro b _
    simp only [Function.comp, lowerB]; split <;> (try split) <;> omega
  have klow : lower kHost = kHost ∧ lower kPort = kPort ∧ lower kRemote = kRemote ∧ lower kUdn = kUdn
      ∧ lower kLocOrig = kLocOrig := by decide
  have look : ∀ k, (∃ q ∈ probes, lower q = lower k) → (observe probes h).lookupCI k = some (getitem lower h k) :=
    fun k hc => lookupCI_observe probes h k hc
  have lHost := look kHost (hmeta kHost (by simp))
  have lPort := look kPort (hmeta kPort (by simp))
  have lRemote := look kRemote (hmeta kRemote (by simp))
  have lUdn := look kUdn (hmeta kUdn (by simp))
  have lOrig := look kLocOrig (hmeta kLocOrig (by simp))
  unfold roundTripOk
  simp only [Bool.and_eq_true, beq_self_eq_true, true_and]
  refine ⟨⟨⟨⟨⟨?coh, ?vals⟩, ?sub⟩, ?sup⟩, ?nodup⟩, ?metas⟩
  case coh =>
    unfold Obs.coherent observe
    simp only [List.all_eq_true, List.mem_map, Bool.or_eq_true, bne_iff_ne, ne_eq, beq_iff_eq]
    rintro _ ⟨a, _, rfl⟩ _ ⟨b, _, rfl⟩
    by_cases e : lower a = lower b
    · right; unfold getitem; rw [e]
    · left; exact e
  case vals =>
    rw [List.all_eq_true]
    intro p hp
    have lk := look p.1 (hcov p hp)
    unfold valueOk
    by_cases hloc : lower p.1 = kLocation
    · simp only [hloc, beq_self_eq_true, if_true]
      by_cases hw : allPyWs p.2 = true
      · simp only [hw, if_true]
        rw [lk, hrt.locBlank p hp hloc hw p.1 hloc]; simp
      · have hw' : allPyWs p.2 = false := by simpa using hw
        obtain ⟨ha, ho⟩ := hrt.locAdjusted p hp hloc hw'
        simp only [hw', Bool.false_eq_true, if_false]
        rw [lk, ha p.1 hloc, lOrig, ho kLocOrig klow.2.2.2.2]
        unfold adjVal
        cases adjustUrl p.2 src <;> simp
    · have hne : (lower p.1 == kLocation) = false := by simpa using hloc
      simp only [hne]
      rw [lk, hrt.sent p hp hloc p.1 rfl]; simp
  case sub =>
    rw [List.all_eq_true]
    intro n hn
    have := hrt.namesSub n (by simpa [observe] using hn)
    simp only [Bool.or_eq_true, List.contains_eq_mem, decide_eq_true_eq]
    exact Or.inl this
  case sup =>
    rw [List.all_eq_true]
    intro p hp
    obtain ⟨n, hn, e⟩ := hrt.namesSup p hp
    simp only [List.contains_eq_mem, decide_eq_true_eq, observe]
    exact List.mem_map.mpr ⟨n, hn, e⟩
  case nodup => exact distinctCI_of_nodup (by simpa [observe] using hrt.namesNodup)
  case metas =>
    unfold metaOk
    rw [lHost, lPort, lRemote, lUdn, hrt.host kHost klow.1, hrt.port kPort klow.2.1, hrt.remote kRemote klow.2.2.1,
      hrt.udn kUdn klow.2.2.2.1]
    simp only [beq_self_eq_true, Bool.true_and, beq_iff_eq, Option.some.injEq]
    unfold udnOf mdGet
    cases hs.find? (fun p => lower p.1 == ofString "usn") <;> simp

/-- `decode_build` and the judge together: what the driver would say about the model itself -/
theorem judge_accepts_decode_build (sep : Bytes) (hsep : SepOk sep) (sl : Bytes) (hsl : sl ∈ Gen.C01Ssdp.ssdpPrefixes)
    (hs : List (Bytes × Bytes)) (hwf : wfHeaders Gen.C01Ssdp.metaKeys hs = true)
    (loc : Option Addr) (src : Addr) (now : Int) (probes : List Bytes)
    (hcov : ∀ p ∈ hs, ∃ q ∈ probes, lower q = lower p.1)
    (hmeta : ∀ k ∈ [kHost, kPort, kRemote, kUdn, kLocOrig], ∃ q ∈ probes, lower q = lower k) :
    ∃ h, decode (build sep sl hs) loc src now = .ok (sl, h)
      ∧ roundTripOk Gen.C01Ssdp.metaKeys sl hs src sl (observe probes h) = true := by
  obtain ⟨h, hd, hrt⟩ := decode_build sep hsep sl hsl hs hwf loc src now
  exact ⟨h, hd, judge_accepts_roundtrip sl hs src h probes hrt hcov hmeta⟩

/-- delivery to all configured sinks: for every constructor configuration (only `on_data`, only
    `async_on_data`, both, neither — any list of sinks) every configured callback receives the decoded
    message exactly once and all of them receive the same content; nothing is delivered when the
    datagram was dropped -/
theorem deliver_all (sinks : List Sink) (hn : sinks.Nodup) (x : Bytes × Hdrs) :
    (∀ s ∈ sinks, ((deliver sinks (some x)).filter (·.1 = s)) = [(s, x)])
    ∧ (∀ e ∈ deliver sinks (some x), e.2 = x) ∧ deliver sinks none = [] := by
  refine ⟨?_, ?_, rfl⟩
  · intro s hs
    unfold deliver
    induction sinks with
    | nil => cases hs
    | cons a r ih =>
      simp only [List.nodup_cons] at hn
      simp only [List.map_cons, List.filter_cons]
      rcases List.mem_cons.mp hs with rfl | hr
      · have : (r.map fun t => (t, x)).filter (fun e => decide (e.1 = s)) = [] := by
          rw [List.filter_eq_nil_iff]
          intro e he
          obtain ⟨t, ht, rfl⟩ := List.mem_map.mp he
          simp only [decide_eq_true_eq]
          intro e2; subst e2; exact hn.1 ht
        simp [this]
      · have hne : a ≠ s := fun e => hn.1 (e ▸ hr)
        simp [hne, ih hn.2 hr]
  · intro e he
    unfold deliver at he
    obtain ⟨t, _, rfl⟩ := List.mem_map.mp he
    rfl

/-! ### judge soundness: what a green verdict means for an ARBITRARY observation -/

theorem lookupCI_coherent {o : Obs} (hc : o.coherent = true) {k : Bytes} {v : Option Val}
    (hl : o.lookupCI k = some v) : ∀ q ∈ o.gets, lower q.1 = lower k → q.2 = v := by
  unfold Obs.lookupCI at hl
  cases hf : o.gets.find? (fun p => lower p.1 == lower k) with
  | none => rw [hf] at hl; cases hl
  | some q0 =>
    rw [hf] at hl
    simp only [Option.map_some, Option.some.injEq] at hl
    have hq0 := List.mem_of_find?_eq_some hf
    have hk0 : lower q0.1 = lower k := by simpa using List.find?_some hf
    intro q hq hk
    unfold Obs.coherent at hc
    have := List.all_eq_true.mp (List.all_eq_true.mp hc q hq) q0 hq0
    simp only [Bool.or_eq_true, bne_iff_ne, ne_eq, beq_iff_eq] at this
    rcases this with h | h
    · exact absurd (hk.trans hk0.symm) h
    · rw [h, hl]

/-- **`roundTripOk` is sound**: for ANY observation `o` (in particular the implementation's), a green
    verdict means the declarative clauses — same start line; every probe spelling of a sent name other
    than `location` reads the sent value; `location` reads the sent text when blank, otherwise the sent
    text is under `_location_original`; the names are the sent ones (ignoring case) plus metadata /
    private names, every sent name is there, no two names fold together; every probe spelling of
    `_host`, `_port`, `_remote_addr` reads the source's. -/
theorem roundTripOk_sound (mk : List Bytes) (sl : Bytes) (hs : List (Bytes × Bytes)) (src : Addr) (rl : Bytes) (o : Obs)
    (h : roundTripOk mk sl hs src rl o = true) :
    rl = sl
    ∧ (∀ p ∈ hs, lower p.1 ≠ kLocation → ∀ q ∈ o.gets, lower q.1 = lower p.1 → q.2 = some (.str p.2))
    ∧ (∀ p ∈ hs, lower p.1 = kLocation →
        (allPyWs p.2 = true → ∀ q ∈ o.gets, lower q.1 = kLocation → q.2 = some (.str p.2))
        ∧ (allPyWs p.2 = false → ∀ q ∈ o.gets, lower q.1 = kLocOrig → q.2 = some (.str p.2)))
    ∧ (∀ n ∈ o.iter, lower n ∈ hs.map (fun p => lower p.1) ∨ lower n ∈ mk ∨ n.head? = some 95)
    ∧ (∀ p ∈ hs, ∃ n ∈ o.iter, lower n = lower p.1)
    ∧ (o.iter.map lower).Nodup
    ∧ (∀ q ∈ o.gets, lower q.1 = kHost → q.2 = some (.str (hostString src)))
    ∧ (∀ q ∈ o.gets, lower q.1 = kPort → q.2 = some (.int src.port))
    ∧ (∀ q ∈ o.gets, lower q.1 = kRemote → q.2 = some (.addr src)) := by
  unfold roundTripOk at h
  simp only [Bool.and_eq_true, beq_iff_eq] at h
  obtain ⟨⟨⟨⟨⟨⟨hrl, hcoh⟩, hvals⟩, hsub⟩, hsup⟩, hdis⟩, hmeta⟩ := h
  have klow : lower kHost = kHost ∧ lower kPort = kPort ∧ lower kRemote = kRemote ∧ lower kLocOrig = kLocOrig := by decide
  have hv := List.all_eq_true.mp hvals
  refine ⟨hrl, ?_, ?_, ?_, ?_, distinctCI_spec hdis, ?_, ?_, ?_⟩
  · intro p hp hl q hq hk
    have := hv p hp
    unfold valueOk at this
    have hne : (lower p.1 == kLocation) = false := by simpa using hl
    simp only [hne, Bool.false_eq_true, if_false, beq_iff_eq] at this
    exact lookupCI_coherent hcoh this q hq hk
  · intro p hp hl
    have := hv p hp
    unfold valueOk at this
    simp only [hl, beq_self_eq_true, if_true] at this
    constructor
    · intro hw q hq hk
      simp only [hw, if_true, beq_iff_eq] at this
      exact lookupCI_coherent hcoh this q hq (by rw [hk, hl])
    · intro hw q hq hk
      simp only [hw, Bool.false_eq_true, if_false, Bool.and_eq_true, beq_iff_eq] at this
      exact lookupCI_coherent hcoh this.1 q hq (by rw [hk, klow.2.2.2])
  · intro n hn
    have := List.all_eq_true.mp hsub n hn
    simp only [Bool.or_eq_true, List.contains_eq_mem, decide_eq_true_eq, beq_iff_eq] at this
    rcases this with (a | b) | c
    · exact Or.inl a
    · exact Or.inr (Or.inl b)
    · exact Or.inr (Or.inr c)
  · intro p hp
    have := List.all_eq_true.mp hsup p hp
    simp only [List.contains_eq_mem, decide_eq_true_eq] at this
    obtain ⟨n, hn, e⟩ := List.mem_map.mp this
    exact ⟨n, hn, e⟩
  · unfold metaOk at hmeta
    simp only [Bool.and_eq_true, beq_iff_eq] at hmeta
    intro q hq hk
    exact lookupCI_coherent hcoh hmeta.1.1.1 q hq (by rw [hk, klow.1])
  · unfold metaOk at hmeta
    simp only [Bool.and_eq_true, beq_iff_eq] at hmeta
    intro q hq hk
    exact lookupCI_coherent hcoh hmeta.1.1.2 q hq (by rw [hk, klow.2.1])
  · unfold metaOk at hmeta
    simp only [Bool.and_eq_true, beq_iff_eq] at hmeta
    intro q hq hk
    exact lookupCI_coherent hcoh hmeta.1.2 q hq (by rw [hk, klow.2.2.1])

/-- `sameResult` is sound: a green verdict means equal start lines, equal iteration order, equal case
    maps and equal items up to the value of the time stamp -/
theorem sameResult_sound (rl₁ rl₂ : Bytes) (o₁ o₂ : Obs) (h : sameResult rl₁ o₁ rl₂ o₂ = true) :
    rl₁ = rl₂ ∧ o₁.iter = o₂.iter ∧ o₁.cmap = o₂.cmap
    ∧ o₁.data.map (fun p => (p.1, stripTs p.2)) = o₂.data.map (fun p => (p.1, stripTs p.2)) := by
  unfold sameResult at h
  simp only [Bool.and_eq_true, beq_iff_eq, Obs.noTs] at h
  exact ⟨h.1.1.1, h.1.1.2, h.2, h.1.2⟩

/-! ### decoding is independent of history -/

/-- **`lru_cache` is transparent**: for every capacity, every pure function (failing or not) and
    every sequence of calls — repeated and distinct keys in any order, any number of evictions —
    the cached function returns on every call what the function itself returns. -/
theorem lru_transparent {κ ν ε : Type} [DecidableEq κ] (f : κ → Except ε ν) (cap : Nat) (ks : List κ) :
    Lru.run f { cap := cap, entries := [] } ks = ks.map f :=
  Lru.run_eq _ (fun _ hp => by simp at hp) ks

/-- instance for the decoder: whatever was decoded before, the cached decoder of the model returns
    the pure `decodeCore` of its own (datagram, source-without-port) -/
theorem decode_history_independent (cap : Nat) (calls : List (Bytes × Addr)) :
    Lru.run (fun k : Bytes × Addr => decodeCore k.1 k.2) { cap := cap, entries := [] } calls
      = calls.map (fun k => decodeCore k.1 k.2) :=
  lru_transparent _ cap calls

/-- non-vacuity: a concrete well-formed message with a uuid USN, a respelled name and a link-local
    LOCATION from a scoped IPv6 source decodes (by evaluation of the model) to the expected map -/
example :
    let hs : List (Bytes × Bytes) :=
      [(ofString "NT", ofString "upnp:rootdevice"), (ofString "Usn", ofString "uuid:d1::upnp:rootdevice"),
       (ofString "LOCATION", ofString "http://[fe80::1]:80/d.xml")]
    let src : Addr := { host := ofString "fe80::2", port := 1900, v6 := true, scope := 3 }
    let r := decode (build Gen.C01Ssdp.headerSep (ofString "NOTIFY * HTTP/1.1") hs) none src 5
    let get (k : String) : Option Val := match r with
      | .ok (_, h) => CIDict.getitem lower h (ofString k)
      | .error _ => none
    wfHeaders Gen.C01Ssdp.metaKeys hs = true
    ∧ r.toOption.map (·.1) = some (ofString "NOTIFY * HTTP/1.1")
    ∧ get "usn" = some (.str (ofString "uuid:d1::upnp:rootdevice"))
    ∧ get "location" = some (.str (ofString "http://[fe80::1%3]:80/d.xml"))
    ∧ get "_LOCATION_ORIGINAL" = some (.str (ofString "http://[fe80::1]:80/d.xml"))
    ∧ get "_udn" = some (.str (ofString "uuid:d1"))
    ∧ get "_host" = some (.str (ofString "fe80::2%3"))
    ∧ get "_Port" = some (.int 1900) := by
  decide +kernel

end Upnp.C01
