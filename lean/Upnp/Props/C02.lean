/-
  C02 — no datagram can make the SSDP receive path raise (theorems are added below)
-/
import Upnp.Model.C02Recv
import Upnp.Spec.C02
import Upnp.Gen.C02Recv
namespace Upnp.C02
open Upnp Upnp.C01

/-- every guard of the receive path is present in the source -/
theorem guards_present :
    (Gen.C02Recv.catchInvalidHeader && Gen.C02Recv.catchLineTooLong && Gen.C02Recv.catchUnicode
     && Gen.C02Recv.urlsplitGuard && Gen.C02Recv.hostnameGuard && Gen.C02Recv.portGuard && Gen.C02Recv.tdGuard
     && Gen.C02Recv.dtGuard && Gen.C02Recv.intGuard && Gen.C02Recv.mxClamp) = true := by decide

end Upnp.C02
