/-
  C02 — no datagram can make the SSDP receive path raise.

  Property theorems only (lemmas: `Lemmas/C02Total.lean`).  The model (`Model/C02Recv.lean`) has
  every raising primitive explicit (`Except Exn`) and every repair as a switch (`Fixes`); the
  driver runs `recv` with the switches the translator found in the source
  (`Gen/C02Recv.lean`), the judge `C02.ok` of `Spec/C02.lean` is evaluated on the
  implementation's observations.
-/
import Upnp.Lemmas.C02Total
import Upnp.Lemmas.C02Listener
import Upnp.Lemmas.C02Interface
import Upnp.Props.C01
import Upnp.Gen.C01Ssdp
import Upnp.Gen.C02Recv
import Upnp.Gen.C02Sites
import Upnp.Spec.C03Cfg
import Upnp.Model.C02Sites
namespace Upnp.C02
open Upnp Upnp.C01

/-! ### the source has every guard the model's `Fixes.all` stands for -/

/-- the guards found in the source by the translator -/
def sourceFixes : Fixes :=
  { catchInvalidHeader := Gen.C02Recv.catchInvalidHeader, catchLineTooLong := Gen.C02Recv.catchLineTooLong,
    catchUnicode := Gen.C02Recv.catchUnicode, urlsplitGuard := Gen.C02Recv.urlsplitGuard,
    hostnameGuard := Gen.C02Recv.hostnameGuard, portGuard := Gen.C02Recv.portGuard, tdGuard := Gen.C02Recv.tdGuard,
    dtGuard := Gen.C02Recv.dtGuard, intGuard := Gen.C02Recv.intGuard, mxClamp := Gen.C02Recv.mxClamp,
    checkBeforePurge := Gen.C02Recv.checkBeforePurge }

/-- every raising call of the receive path sits under a handler for what it raises, the MX test
    is `delay > 0`, and `_see_device` validates before it purges -/
theorem guards_present : sourceFixes = Fixes.all := by decide

/-- the constants the model hard-codes are the ones in the source -/
theorem constants_pinned :
    Gen.C02Recv.defaultMaxAge = 900 ∧ Gen.C02Recv.locationTest = ofString "is_usable_location"
    ∧ Gen.C02Recv.mxCap = 5
    ∧ Gen.C02Recv.jitterLo = 100 ∧ Gen.C02Recv.jitterHiOffset = 250
    ∧ Gen.C02Recv.searchRequestLine = ofString "M-SEARCH * HTTP/1.1" ∧ Gen.C02Recv.discover = discover
    ∧ Gen.C02Recv.ntsAlive = ofString "ssdp:alive" ∧ Gen.C02Recv.ntsByebye = ofString "ssdp:byebye"
    ∧ Gen.C02Recv.ntsUpdate = ofString "ssdp:update"
    ∧ Gen.C02Recv.cacheControlReBytes = ofString "max-age\\s*=\\s*(\\d+)"
    ∧ Gen.C02Recv.cacheControlReFlags = ["IGNORECASE"]
    ∧ Gen.C02Recv.searchKeys = [ofString "_udn", ofString "st", ofString "location"]
    ∧ Gen.C02Recv.advertisementKeys = [ofString "_udn", ofString "nt", ofString "nts", ofString "location"]
    ∧ Gen.C02Recv.byebyeKeys = [ofString "_udn", ofString "nt", ofString "nts"] := by decide

/-- **The catalogue of raising primitives is the source's**: every occurrence, in the functions of the
    receive path, of `int(`, `float(`, `urlsplit(`, `urlparse(`, `ip_address(`, `timedelta(`, `randrange(`,
    `range(`, `parse_headers(`, `.decode(`, `.port`, `.hostname`, `+`, an index / `del x[k]`, a
    tuple-unpacking assignment or an `assert` — with the handlers around it — is a row of the table
    `covered` (Model/C02Sites.lean), which says for each row which exception of the model it is, or
    why it cannot raise.  A new site, a moved one, or a handler that disappears breaks this theorem. -/
theorem sites_covered : Gen.C02Sites.sites = covered.map (·.1) := by decide

/-- every row that can raise and has no handler inside its own function is one of the model's
    raising primitives (never an unmodelled "caught elsewhere") -/
theorem unguarded_sites_are_modelled :
    (covered.all fun r => match r.2 with
      | .caught _ => r.1.2.2 != "-"
      | _ => true) = true := by decide

/-! ### the one interface assumption between the decoder model (C01) and the tracker model (C03) -/

/-- the string-level header map the tracker model reads -/
def hsOf (h : Hdrs) : C03.Hdrs String := C16.SMap.writeAll C03.Parse.lower [] (pairsOf h)

/-- what the tracker model needs of a decoded header map (`C03.Parse.parseEv_wf` names it), part 1:
    whenever the USN yields a udn, the `_udn` entry is that udn -/
def udnGuarantee (h : Hdrs) : Prop :=
  ∀ u, (C03.Parse.truthy (PyDict.get? (hsOf h) "usn")).bind C03.Parse.udnFromUsn = some u →
    C03.Parse.truthy (PyDict.get? (hsOf h) "_udn") = some u

/-- … for every header map the decoder returns (PROVED below: `decode_guarantee`) -/
def DecodeGuarantee : Prop :=
  ∀ (d : Bytes) (loc : Option Addr) (src : Addr) (now : Int) (rl : Bytes) (h : Hdrs),
    decodeX Fixes.all d loc src now = .ok (rl, h) → udnGuarantee h

/-- part 2, about the clock and not about the decoder: `_timestamp` is a `datetime`, so not beyond
    `datetime.max` (in the model `_timestamp` is the decimal rendering of the clock value `now`).
    It is an explicit hypothesis of the listener theorems; the real clock cannot violate it. -/
def ClockOk (trk : C03.Cfg) (d : Bytes) (loc : Option Addr) (src : Addr) (now : Int) : Prop :=
  ∀ rl h, decodeX Fixes.all d loc src now = .ok (rl, h) → C03.Parse.tsOf (hsOf h) ≤ trk.tMax

/-! ### totality -/

theorem onData_total (cfg : Cfg) (ep : Endpoint) (t : Tracker) {d : Bytes} {loc : Option Addr} {src : Addr} {now : Int}
    {rl : Bytes} {h : Hdrs} (hd : decodeX Fixes.all d loc src now = .ok (rl, h)) :
    ∃ r, onData Fixes.all cfg ep t rl h = .ok r := by
  cases ep with
  | adv => exact ⟨_, rfl⟩
  | search =>
    obtain ⟨b, hb⟩ := searchClassify_total cfg.targetHost hd
    simp only [onData, hb]; exact ⟨_, rfl⟩
  | listenerAdv =>
    simp only [onData, listenerStep_spec]; exact ⟨_, rfl⟩
  | listenerSearch =>
    obtain ⟨b, hb⟩ := searchClassify_total cfg.targetHost hd
    simp only [onData, hb]
    cases b with
    | false => exact ⟨_, rfl⟩
    | true =>
      simp only [listenerStep_spec]; exact ⟨_, rfl⟩
  | responder =>
    obtain ⟨e, he⟩ := responder_total cfg rl h
    simp only [onData, he]; exact ⟨_, rfl⟩

theorem protocolRecv_some {cfg : Cfg} {data : Bytes} {loc : Option Addr} {src : Addr} {now : Int} {rl : Bytes} {h : Hdrs}
    (hr : protocolRecv Fixes.all cfg.prefixes data loc src now = .ok (some (rl, h))) :
    decodeX Fixes.all data loc src now = .ok (rl, h) := by
  unfold protocolRecv at hr
  split at hr
  · cases hr
  · split at hr
    · rename_i r' hr'; cases hr; exact hr'
    · split at hr <;> cases hr

/-- **C02, first sentence.**  Whatever bytes arrive from whatever sender, at whatever clock value
    and in whatever tracker state, handing the datagram to any endpoint (advertisement listener,
    search listener, the combined listener through either of its sockets, the search responder of
    any device tree) returns normally. -/
theorem recv_total (cfg : Cfg) (ep : Endpoint) (t : Tracker) (data : Bytes) (loc : Option Addr) (src : Addr) (now : Int) :
    ∃ t' eff, recv Fixes.all cfg ep t data loc src now = .ok (t', eff) := by
  unfold recv
  obtain ⟨r, hr⟩ := protocolRecv_total cfg.prefixes data loc src now
  rw [hr]
  cases r with
  | none => exact ⟨t, noEff, rfl⟩
  | some p =>
    obtain ⟨rl, h⟩ := p
    obtain ⟨⟨t', e⟩, ho⟩ := onData_total cfg ep t (protocolRecv_some hr)
    exact ⟨t', e, ho⟩

/-- any sequence of datagrams, to any endpoints, from any senders: never a raise, so every
    endpoint is left in a state from which the next datagram is again handled normally -/
theorem recv_sequence_total (cfg : Cfg) (t : Tracker) (ops : List (Endpoint × Bytes × Option Addr × Addr × Int)) :
    ∃ t' effs, recvAll Fixes.all cfg t ops = .ok (t', effs) ∧ effs.length = ops.length := by
  induction ops generalizing t with
  | nil => exact ⟨t, [], rfl, rfl⟩
  | cons op r ih =>
    obtain ⟨ep, data, loc, src, now⟩ := op
    obtain ⟨t1, e1, h1⟩ := recv_total cfg ep t data loc src now
    obtain ⟨t2, es, h2, hl⟩ := ih t1
    exact ⟨t2, e1 :: es, by simp [recvAll, h1, h2], by simp [hl]⟩

/-! ### the combined listener IS the C03 tracker -/

/-- what the listener endpoints do with a decoded message: exactly one `C03.step` on the event C03's
    own parser makes of the header map; the effect is exactly that step's notification — so C03's and
    C04's theorems (`c03_history_raw`, `c04_step`: which callback fires, with which source,
    `valid_to_saturates`) speak about this endpoint. -/
theorem listener_is_C03_step (trk : C03.Cfg) (sockA : Bool) (t : Tracker) (h : Hdrs) :
    listenerStep Fixes.all trk sockA t h
      = .ok (C03.step ipv (C03.Parse.skipHdr trk) t (C03.Parse.parseEv trk sockA (pairsOf h))) :=
  listenerStep_spec trk sockA t h

/-! ### a dropped datagram is inert, a well-formed message is dispatched -/

theorem listener_dropped (trk : C03.Cfg) (sockA : Bool) (t t' : Tracker) (n : Option (C03.Notif String)) {h : Hdrs}
    (hg : udnGuarantee h) (hclk : C03.Parse.tsOf (hsOf h) ≤ trk.tMax)
    (hc : classifyEv (C03.Parse.parseEv trk sockA (pairsOf h)) = none)
    (hs : listenerStep Fixes.all trk sockA t h = .ok (t', n)) : t' = t ∧ n = none := by
  rw [listenerStep_spec] at hs
  simp only [Except.ok.injEq] at hs
  have hw := C03.Parse.parseEv_wf trk sockA (pairsOf h) hg hclk
  cases hpe : C03.Parse.parseEv trk sockA (pairsOf h) with
  | noise ts =>
    rw [hpe] at hs
    simp only [C03.step, Prod.mk.injEq] at hs
    exact ⟨hs.1.symm, hs.2.symm⟩
  | purge nw =>
    rcases C03.Parse.parseEv_cases trk sockA (pairsOf h) with ⟨ts, hn⟩ | ⟨kind, v, hm, _⟩
    · rw [hpe] at hn; cases hn
    · rw [hpe] at hm; cases hm
  | msg m =>
    rw [hpe] at hs hc hw
    simp only [C03.Ev.wf] at hw
    simp only [classifyEv] at hc
    have hsb : m.sighting? = none ∧ m.byebye? = none := by
      split at hc
      · rename_i hk
        refine ⟨by simp [C03.Msg.sighting?, hk], ?_⟩
        cases hb : m.byebye? with
        | none => rfl
        | some u => rw [hb] at hc; cases hc
      · rename_i hk
        refine ⟨?_, by simp [C03.Msg.byebye?, hk]⟩
        cases hb : m.sighting? with
        | none => rfl
        | some u => rw [hb] at hc; cases hc
    have h1 := C03.invalid_inert ipv (C03.Parse.skipHdr trk) t m hw hsb.1 hsb.2
    have h2 := step_notif_none ipv (C03.Parse.skipHdr trk) t m (wfCore_of_wf hw) hsb.1 hsb.2
    rw [hs] at h1 h2
    exact ⟨h1, h2⟩

/-- **C02, second sentence.**  A datagram that is not a well-formed message for the endpoint
    (gate fails, decoding is rejected, the endpoint's validity test fails, not an
    M-SEARCH/`ssdp:discover`, no matching target) fires no callback, sends nothing, schedules
    nothing and leaves the tracker — the WHOLE state of the C03 model: device map with stored
    headers and locations, watermark — exactly as it was.  For the combined listener this is C03's
    `invalid_inert` (the theorem behind `invalid_inert_raw`) under the interface assumption. -/
theorem dropped_inert (hg : DecodeGuarantee) (cfg : Cfg) (ep : Endpoint) (t t' : Tracker) (eff : Eff) (data : Bytes)
    (loc : Option Addr) (src : Addr) (now : Int) (hclk : ClockOk cfg.trk data loc src now) (hwf : classify cfg ep data loc src now = none)
    (h : recv Fixes.all cfg ep t data loc src now = .ok (t', eff)) : eff = noEff ∧ t' = t := by
  unfold recv at h
  unfold classify at hwf
  cases hp : protocolRecv Fixes.all cfg.prefixes data loc src now with
  | error e => rw [hp] at h; cases h
  | ok r =>
    rw [hp] at h hwf
    cases r with
    | none => cases h; exact ⟨rfl, rfl⟩
    | some p =>
      obtain ⟨rl, hd⟩ := p
      have hdec := protocolRecv_some hp
      dsimp only at h hwf
      cases ep with
      | adv =>
        simp only [onData] at h
        have : (advClassify hd).isSome = false := by
          cases hc : (advClassify hd).isSome <;> simp_all
        simp only [this] at h
        cases h; exact ⟨rfl, rfl⟩
      | search =>
        simp only [onData] at h
        have hf : firesSearch cfg hd = false := by
          cases hc : firesSearch cfg hd <;> simp_all
        unfold firesSearch at hf
        cases hc : searchClassify cfg.targetHost hd with
        | error e => rw [hc] at h; cases h
        | ok b =>
          rw [hc] at h hf
          simp only at hf
          subst hf
          cases h; exact ⟨rfl, rfl⟩
      | listenerAdv =>
        simp only [onData] at h
        cases hs : listenerStep Fixes.all cfg.trk true t hd with
        | error e => rw [hs] at h; cases h
        | ok r =>
          obtain ⟨t1, n⟩ := r
          rw [hs] at h
          simp only [Except.ok.injEq, Prod.mk.injEq] at h
          obtain ⟨rfl, rfl⟩ := h
          obtain ⟨e1, e2⟩ := listener_dropped cfg.trk true t t1 n (hg _ _ _ _ _ _ hdec) (hclk _ _ hdec) hwf hs
          subst e1 e2
          exact ⟨rfl, rfl⟩
      | listenerSearch =>
        simp only [onData] at h
        cases hc : searchClassify cfg.targetHost hd with
        | error e => rw [hc] at h; cases h
        | ok b =>
          rw [hc] at h
          have hfs : firesSearch cfg hd = b := by unfold firesSearch; rw [hc]
          cases b with
          | false => cases h; exact ⟨rfl, rfl⟩
          | true =>
            simp only [hfs, if_true] at hwf
            cases hs : listenerStep Fixes.all cfg.trk false t hd with
            | error e => rw [hs] at h; cases h
            | ok r =>
              obtain ⟨t1, n⟩ := r
              rw [hs] at h
              simp only [Except.ok.injEq, Prod.mk.injEq] at h
              obtain ⟨rfl, rfl⟩ := h
              obtain ⟨e1, e2⟩ := listener_dropped cfg.trk false t t1 n (hg _ _ _ _ _ _ hdec) (hclk _ _ hdec) hwf hs
              subst e1 e2
              exact ⟨rfl, rfl⟩
      | responder =>
        simp only [onData] at h
        unfold responder at h
        by_cases hs : isSearch rl hd = true
        · have hc : responseCount cfg hd = 0 := by
            by_cases hc : responseCount cfg hd = 0
            · exact hc
            · simp [hs, hc] at hwf
          simp [hs, respond, hc] at h; exact ⟨h.2.symm, h.1.symm⟩
        · simp [hs] at h; exact ⟨h.2.symm, h.1.symm⟩

/-- the C02 model decodes exactly as the C01 model does -/
theorem decoder_is_C01 (d : Bytes) (loc : Option Addr) (src : Addr) (now : Int) :
    decodeX Fixes.all d loc src now = decode d loc src now := decodeX_all_eq d loc src now

/-- the responder answers M-SEARCH only: whatever the headers say (`MAN: "ssdp:discover"`, a matching
    ST, any MX), a message with another start line makes it send nothing and schedule nothing -/
theorem responder_only_msearch (fx : Fixes) (cfg : Cfg) (rl : Bytes) (h : Hdrs)
    (hrl : rl ≠ ofString "M-SEARCH * HTTP/1.1") : responder fx cfg rl h = .ok noEff := by
  unfold responder isSearch
  have : (rl == ofString "M-SEARCH * HTTP/1.1") = false := by simpa using hrl
  simp [this]

theorem respond_effect (delay : Int) (count : Nat) {e : Eff} (hc : count ≠ 0)
    (h : respond Fixes.all delay count = .ok e) : e.sends + e.timers ≥ 1 := by
  unfold respond at h
  by_cases hd : delay > 0
  · have : ¬ (delay * 1000 - 250 ≤ 100) := by omega
    simp [hc, hd, this, Fixes.all] at h
    subst h; decide
  · simp [hc, hd, Fixes.all] at h
    subst h
    show count + 0 ≥ 1
    omega

/-- model-level reading of `Obs.dispatched` -/
def dispatchedM (t' : Tracker) (eff : Eff) : Dispatch → Prop
  | .notify => eff.cbMin ≥ 1
  | .see u => u ∈ PyDict.keys t'.devices
  | .unsee u => u ∉ PyDict.keys t'.devices
  | .respond => eff.sends + eff.timers ≥ 1

theorem listener_dispatched (trk : C03.Cfg) (sockA : Bool) (t t' : Tracker) (hi : C03.Inv t)
    (n : Option (C03.Notif String)) {h : Hdrs}
    (hg : udnGuarantee h) (hclk : C03.Parse.tsOf (hsOf h) ≤ trk.tMax)
    (hs : listenerStep Fixes.all trk sockA t h = .ok (t', n)) :
    C03.Inv t' ∧ ∀ x, classifyEv (C03.Parse.parseEv trk sockA (pairsOf h)) = some x → dispatchedM t' (effOfNotif n) x := by
  rw [listenerStep_spec] at hs
  simp only [Except.ok.injEq] at hs
  have hw := C03.Parse.parseEv_wf trk sockA (pairsOf h) hg hclk
  generalize C03.Parse.parseEv trk sockA (pairsOf h) = e at hs hw
  have h1 : (C03.step ipv (C03.Parse.skipHdr trk) t e).1 = t' := by rw [hs]
  have h2 : (C03.step ipv (C03.Parse.skipHdr trk) t e).2 = n := by rw [hs]
  subst h1 h2
  refine ⟨C03.inv_step _ _ hi e, ?_⟩
  intro x hx
  cases e with
  | purge _ => cases hx
  | noise _ => cases hx
  | msg m =>
    have hw := wfCore_of_wf (show m.wf = true from hw)
    simp only [classifyEv] at hx
    split at hx
    · rename_i hk
      cases hb : m.byebye? with
      | none => rw [hb] at hx; cases hx
      | some u =>
        rw [hb] at hx; simp only [Option.map_some, Option.some.injEq] at hx; subst hx
        exact unsee_not_mem _ _ t hi m hw hk u hb
    · rename_i hk
      cases hb : m.sighting? with
      | none => rw [hb] at hx; cases hx
      | some p =>
        rw [hb] at hx; simp only [Option.map_some, Option.some.injEq] at hx; subst hx
        exact see_mem _ _ t m hw hk p.1 p.2 hb

/-- **C02, "a well-formed message is dispatched"**, with the invariant that makes the next datagram
    meet a proper state again: in every state satisfying C03's invariant (unique device keys,
    watermark, a live location per device), a well-formed message has its effect (callback / device
    recorded / device forgotten / answer sent or scheduled) and the invariant is kept. -/
theorem dispatched_effect (hg : DecodeGuarantee) (cfg : Cfg) (ep : Endpoint) (t t' : Tracker) (eff : Eff) (data : Bytes)
    (loc : Option Addr) (src : Addr) (now : Int) (hclk : ClockOk cfg.trk data loc src now) (hn : C03.Inv t)
    (h : recv Fixes.all cfg ep t data loc src now = .ok (t', eff)) :
    C03.Inv t' ∧ ∀ d, classify cfg ep data loc src now = some d → dispatchedM t' eff d := by
  cases hcl : classify cfg ep data loc src now with
  | none =>
    obtain ⟨_, rfl⟩ := dropped_inert hg cfg ep t t' eff data loc src now hclk hcl h
    exact ⟨hn, fun d e => by cases e⟩
  | some d0 =>
    unfold recv at h
    unfold classify at hcl
    cases hp : protocolRecv Fixes.all cfg.prefixes data loc src now with
    | error e => rw [hp] at h; cases h
    | ok r =>
      rw [hp] at h hcl
      cases r with
      | none => cases hcl
      | some p =>
        obtain ⟨rl, hd⟩ := p
        have hdec := protocolRecv_some hp
        dsimp only at h hcl
        cases ep with
        | adv =>
          simp only [onData] at h
          by_cases hc : (advClassify hd).isSome = true
          · simp only [hc, if_true, Option.some.injEq] at hcl h
            cases h; subst hcl
            exact ⟨hn, fun d e => by cases e; show oneCb.cbMin ≥ 1; decide⟩
          · simp [hc] at hcl
        | search =>
          simp only [onData] at h
          by_cases hf : firesSearch cfg hd = true
          · simp only [hf, if_true, Option.some.injEq] at hcl
            unfold firesSearch at hf
            cases hc : searchClassify cfg.targetHost hd with
            | error e => rw [hc] at h; cases h
            | ok b =>
              rw [hc] at h hf; simp only at hf; subst hf
              cases h; subst hcl
              exact ⟨hn, fun d e => by cases e; show oneCb.cbMin ≥ 1; decide⟩
          · simp [hf] at hcl
        | listenerAdv =>
          simp only [onData] at h
          cases hs : listenerStep Fixes.all cfg.trk true t hd with
          | error e => rw [hs] at h; cases h
          | ok r =>
            obtain ⟨t1, n⟩ := r
            rw [hs] at h
            simp only [Except.ok.injEq, Prod.mk.injEq] at h
            obtain ⟨rfl, rfl⟩ := h
            obtain ⟨hi', hd'⟩ := listener_dispatched cfg.trk true t t1 hn n (hg _ _ _ _ _ _ hdec) (hclk _ _ hdec) hs
            exact ⟨hi', fun d e => hd' d (hcl.trans e)⟩
        | listenerSearch =>
          simp only [onData] at h
          by_cases hf : firesSearch cfg hd = true
          · simp only [hf, if_true] at hcl
            unfold firesSearch at hf
            cases hc : searchClassify cfg.targetHost hd with
            | error e => rw [hc] at h; cases h
            | ok b =>
              rw [hc] at h hf; simp only at hf; subst hf
              cases hs : listenerStep Fixes.all cfg.trk false t hd with
              | error e => rw [hs] at h; cases h
              | ok r =>
                obtain ⟨t1, n⟩ := r
                rw [hs] at h
                simp only [Except.ok.injEq, Prod.mk.injEq] at h
                obtain ⟨rfl, rfl⟩ := h
                obtain ⟨hi', hd'⟩ := listener_dispatched cfg.trk false t t1 hn n (hg _ _ _ _ _ _ hdec) (hclk _ _ hdec) hs
                exact ⟨hi', fun d e => hd' d (hcl.trans e)⟩
          · simp [hf] at hcl
        | responder =>
          simp only [onData] at h
          by_cases hc : (isSearch rl hd && responseCount cfg hd != 0) = true
          · simp only [hc, if_true, Option.some.injEq] at hcl; subst hcl
            simp only [Bool.and_eq_true, bne_iff_ne, ne_eq] at hc
            obtain ⟨hs, hcnt⟩ := hc
            unfold responder at h
            simp only [hs, Bool.not_true, Bool.false_eq_true, if_false] at h
            obtain ⟨e1, he1⟩ := respond_total (delayOf hd) (responseCount cfg hd)
            rw [he1] at h
            simp only [Except.ok.injEq, Prod.mk.injEq] at h
            obtain ⟨rfl, rfl⟩ := h
            exact ⟨hn, fun d e => by cases e; exact respond_effect _ _ hcnt he1⟩
          · simp [hc] at hcl

/-- one datagram keeps C03's invariant, whatever it is (no interface hypothesis needed: `C03.inv_step`) -/
theorem recv_inv (cfg : Cfg) (ep : Endpoint) (t t' : Tracker) (eff : Eff) (data : Bytes) (loc : Option Addr) (src : Addr)
    (now : Int) (hn : C03.Inv t) (h : recv Fixes.all cfg ep t data loc src now = .ok (t', eff)) : C03.Inv t' := by
  unfold recv at h
  cases hp : protocolRecv Fixes.all cfg.prefixes data loc src now with
  | error e => rw [hp] at h; cases h
  | ok r =>
    rw [hp] at h
    cases r with
    | none => cases h; exact hn
    | some p =>
      obtain ⟨rl, hd⟩ := p
      dsimp only at h
      cases ep with
      | adv => simp only [onData] at h; cases h; exact hn
      | search =>
        simp only [onData] at h
        cases hc : searchClassify cfg.targetHost hd with
        | error e => rw [hc] at h; cases h
        | ok b => rw [hc] at h; cases h; exact hn
      | listenerAdv =>
        simp only [onData, listenerStep_spec] at h
        cases h; exact C03.inv_step _ _ hn _
      | listenerSearch =>
        simp only [onData] at h
        cases hc : searchClassify cfg.targetHost hd with
        | error e => rw [hc] at h; cases h
        | ok b =>
          rw [hc] at h
          cases b with
          | false => cases h; exact hn
          | true => simp only [listenerStep_spec] at h; cases h; exact C03.inv_step _ _ hn _
      | responder =>
        simp only [onData] at h
        cases hr : responder Fixes.all cfg rl hd with
        | error e => rw [hr] at h; cases h
        | ok e => rw [hr] at h; cases h; exact hn

/-- every state reached from the empty tracker by any sequence of datagrams satisfies C03's invariant
    (the hypothesis of `dispatched_effect` / `model_judged_ok` holds along every history) -/
theorem recv_sequence_inv (cfg : Cfg) (t : Tracker) (hn : C03.Inv t)
    (ops : List (Endpoint × Bytes × Option Addr × Addr × Int)) (t' : Tracker) (effs : List Eff)
    (h : recvAll Fixes.all cfg t ops = .ok (t', effs)) : C03.Inv t' := by
  induction ops generalizing t effs with
  | nil => simp only [recvAll, Except.ok.injEq, Prod.mk.injEq] at h; rw [← h.1]; exact hn
  | cons op r ih =>
    obtain ⟨ep, data, loc, src, now⟩ := op
    unfold recvAll at h
    obtain ⟨t1, e1, h1⟩ := recv_total cfg ep t data loc src now
    rw [h1] at h
    dsimp only at h
    obtain ⟨t2, es, h2, _⟩ := recv_sequence_total cfg t1 r
    rw [h2] at h
    simp only [Except.ok.injEq, Prod.mk.injEq] at h
    obtain ⟨rfl, _⟩ := h
    exact ih t1 (recv_inv cfg ep t t1 e1 data loc src now hn h1) es h2

/-- the judge accepts what the model does: for every datagram, in every state satisfying C03's
    invariant, the model's own outcome rendered as an observation satisfies `C02.ok` — so a judge
    failure at run time is a property of the implementation, never of the judge -/
theorem model_judged_ok (hg : DecodeGuarantee) (cfg : Cfg) (ep : Endpoint) (t : Tracker) (data : Bytes) (loc : Option Addr)
    (src : Addr) (now : Int) (hclk : ClockOk cfg.trk data loc src now) (hn : C03.Inv t) (sortKeys : List String → List String)
    (hsort : ∀ l x, x ∈ sortKeys l ↔ x ∈ l) :
    ∃ o, obsOf t (recv Fixes.all cfg ep t data loc src now) sortKeys = some o
      ∧ ok (classify cfg ep data loc src now) o = true := by
  obtain ⟨t', eff, h⟩ := recv_total cfg ep t data loc src now
  rw [h]
  refine ⟨_, rfl, ?_⟩
  obtain ⟨_, hd⟩ := dispatched_effect hg cfg ep t t' eff data loc src now hclk hn h
  cases hc : classify cfg ep data loc src now with
  | none =>
    obtain ⟨he, ht⟩ := dropped_inert hg cfg ep t t' eff data loc src now hclk hc h
    subst he ht
    simp [ok, Obs.inert, noEff]
  | some d =>
    have := hd d hc
    cases d with
    | notify => simpa [ok, Obs.dispatched, dispatchedM] using this
    | see u => simpa [ok, Obs.dispatched, dispatchedM, hsort] using this
    | unsee u => simpa [ok, Obs.dispatched, dispatchedM, hsort] using this
    | respond => simpa [ok, Obs.dispatched, dispatchedM] using this

/-! ### the interface assumption is a theorem about the decoder model -/

/-- **C01 → C03**: every header map the (repaired) decoder model returns satisfies what the tracker
    model assumes of it (`C03.Parse.RawOp.decoded`, the hypothesis of `parseEv_wf`, `c03_history_raw`,
    `c04_history_raw`, `invalid_inert_raw`): when the USN yields a udn, `_udn` is that udn.  It was
    FALSE of the code before the repair of F01a (a second spelling of `_udn` in the datagram won). -/
theorem decode_guarantee : DecodeGuarantee := by
  intro d loc src now rl h hd
  obtain ⟨pairs, rfl⟩ := decodeX_ok' hd
  exact decode_udn_guarantee pairs _ now loc src

/-- `ClockOk` is the physical clock bound and nothing else: `_timestamp`, as the tracker model reads it
    from the decoded map, IS the clock value of the decode (`tsOf_decoded`: the call metadata wins
    over any received `_timestamp` header, and the decimal rendering is read back exactly) -/
theorem tsOf_hsOf {d : Bytes} {loc : Option Addr} {src : Addr} {now : Int} {rl : Bytes} {h : Hdrs}
    (hd : decodeX Fixes.all d loc src now = .ok (rl, h)) : C03.Parse.tsOf (hsOf h) = now := by
  obtain ⟨pairs, rfl⟩ := decodeX_ok' hd
  exact tsOf_decoded pairs _ now loc src

theorem clockOk_of_le (trk : C03.Cfg) (d : Bytes) (loc : Option Addr) (src : Addr) (now : Int)
    (h : now ≤ trk.tMax) : ClockOk trk d loc src now := by
  intro rl hh hd
  rw [tsOf_hsOf hd]; exact h

/-- non-vacuity of the clock hypothesis: any clock reading up to `datetime.max` satisfies it -/
example : ClockOk C03.specCfg [] none { host := [], port := 0 } 0 := clockOk_of_le _ _ _ _ _ (by decide)

/-- the composed statements; the only hypothesis left is the clock bound `now ≤ datetime.max` -/
theorem dropped_inert_closed (cfg : Cfg) (ep : Endpoint) (t t' : Tracker) (eff : Eff) (data : Bytes)
    (loc : Option Addr) (src : Addr) (now : Int) (hnow : now ≤ cfg.trk.tMax)
    (hwf : classify cfg ep data loc src now = none)
    (h : recv Fixes.all cfg ep t data loc src now = .ok (t', eff)) : eff = noEff ∧ t' = t :=
  dropped_inert decode_guarantee cfg ep t t' eff data loc src now (clockOk_of_le _ _ _ _ _ hnow) hwf h

theorem dispatched_effect_closed (cfg : Cfg) (ep : Endpoint) (t t' : Tracker) (eff : Eff) (data : Bytes)
    (loc : Option Addr) (src : Addr) (now : Int) (hnow : now ≤ cfg.trk.tMax) (hn : C03.Inv t)
    (h : recv Fixes.all cfg ep t data loc src now = .ok (t', eff)) :
    C03.Inv t' ∧ ∀ d, classify cfg ep data loc src now = some d → dispatchedM t' eff d :=
  dispatched_effect decode_guarantee cfg ep t t' eff data loc src now (clockOk_of_le _ _ _ _ _ hnow) hn h

theorem model_judged_ok_closed (cfg : Cfg) (ep : Endpoint) (t : Tracker) (data : Bytes) (loc : Option Addr)
    (src : Addr) (now : Int) (hnow : now ≤ cfg.trk.tMax) (hn : C03.Inv t)
    (sortKeys : List String → List String) (hsort : ∀ l x, x ∈ sortKeys l ↔ x ∈ l) :
    ∃ o, obsOf t (recv Fixes.all cfg ep t data loc src now) sortKeys = some o
      ∧ ok (classify cfg ep data loc src now) o = true :=
  model_judged_ok decode_guarantee cfg ep t data loc src now (clockOk_of_le _ _ _ _ _ hnow) hn sortKeys hsort

/-- **sequences**: in any sequence of datagrams (any endpoints, senders, clock readings up to
    `datetime.max`), from any state, every datagram that is not a well-formed message for its
    endpoint contributes `noEff` and leaves the tracker exactly as the previous datagram left it —
    also between valid ones, with devices known and answers pending -/
theorem recv_sequence_inert (cfg : Cfg) (t : Tracker) (pre : List (Endpoint × Bytes × Option Addr × Addr × Int))
    (ep : Endpoint) (data : Bytes) (loc : Option Addr) (src : Addr) (now : Int)
    (post : List (Endpoint × Bytes × Option Addr × Addr × Int))
    (hnow : now ≤ cfg.trk.tMax) (hc : classify cfg ep data loc src now = none) :
    ∃ t1 e1 t2 e2, recvAll Fixes.all cfg t pre = .ok (t1, e1) ∧ recvAll Fixes.all cfg t1 post = .ok (t2, e2)
      ∧ recvAll Fixes.all cfg t (pre ++ (ep, data, loc, src, now) :: post) = .ok (t2, e1 ++ noEff :: e2) := by
  obtain ⟨t1, e1, h1, _⟩ := recv_sequence_total cfg t pre
  obtain ⟨t2, e2, h2, _⟩ := recv_sequence_total cfg t1 post
  refine ⟨t1, e1, t2, e2, h1, h2, ?_⟩
  obtain ⟨t', eff, hr⟩ := recv_total cfg ep t1 data loc src now
  obtain ⟨he, ht⟩ := dropped_inert_closed cfg ep t1 t' eff data loc src now hnow hc hr
  rw [he, ht] at hr
  have happ : ∀ (l : List (Endpoint × Bytes × Option Addr × Addr × Int)) (s s' : Tracker) (es : List Eff)
      (r : List (Endpoint × Bytes × Option Addr × Addr × Int)) (s'' : Tracker) (es' : List Eff),
      recvAll Fixes.all cfg s l = .ok (s', es) → recvAll Fixes.all cfg s' r = .ok (s'', es') →
      recvAll Fixes.all cfg s (l ++ r) = .ok (s'', es ++ es') := by
    intro l
    induction l with
    | nil => intro s s' es r s'' es' ha hb; simp only [recvAll, Except.ok.injEq, Prod.mk.injEq] at ha; obtain ⟨rfl, rfl⟩ := ha; simpa using hb
    | cons op l ih =>
      intro s s' es r s'' es' ha hb
      obtain ⟨ep', d', l', s0', n'⟩ := op
      simp only [List.cons_append, recvAll] at ha ⊢
      cases hx : recv Fixes.all cfg ep' s d' l' s0' n' with
      | error e => rw [hx] at ha; cases ha
      | ok p =>
        obtain ⟨sm, em⟩ := p
        rw [hx] at ha
        dsimp only at ha ⊢
        cases hy : recvAll Fixes.all cfg sm l with
        | error e => rw [hy] at ha; cases ha
        | ok q =>
          obtain ⟨sq, eq⟩ := q
          rw [hy] at ha
          simp only [Except.ok.injEq, Prod.mk.injEq] at ha
          obtain ⟨rfl, rfl⟩ := ha
          rw [ih sm sq eq r s'' es' hy hb]
          rfl
  apply happ pre t t1 e1 _ t2 (noEff :: e2) h1
  simp [recvAll, hr, h2]

/-! ### a well-formedness that is not the model's own classifier read twice -/

/-- **an externally characterised well-formed message is dispatched**: every `NOTIFY` the library's own
    builder makes from a well-formed header map (C01's `wfHeaders`) that has `NTS: ssdp:alive` (name in any
    spelling) and no `MAN` header is, from every sender, at every clock value, classified `notify` for
    the advertisement listener — by `decode_build` (the decoder inverts the builder), not by unfolding
    the classifier on itself; with `dispatched_effect` the listener's callback fires. -/
theorem classify_built_alive (cfg : Cfg) (hpre : cfg.prefixes = Gen.C01Ssdp.ssdpPrefixes)
    (sep : Bytes) (hsep : SepOk sep) (hs : List (Bytes × Bytes)) (hwf : wfHeaders Gen.C01Ssdp.metaKeys hs = true)
    (hnts : ∃ p ∈ hs, lower p.1 = ofString "nts" ∧ p.2 = ofString "ssdp:alive")
    (hman : ∀ p ∈ hs, lower p.1 ≠ ofString "man")
    (loc : Option Addr) (src : Addr) (now : Int) :
    classify cfg .adv (build sep (ofString "NOTIFY * HTTP/1.1") hs) loc src now = some .notify := by
  have hsl : ofString "NOTIFY * HTTP/1.1" ∈ Gen.C01Ssdp.ssdpPrefixes := by decide
  obtain ⟨_, hres, hd⟩ := wfHeaders_spec hwf
  have hr : ∀ p ∈ hs, NotReserved (lower p.1) := fun p hp => notReserved_of (hres p hp)
  have hdec : decodeX Fixes.all (build sep (ofString "NOTIFY * HTTP/1.1") hs) loc src now
      = .ok (ofString "NOTIFY * HTTP/1.1", decoded hs loc src now) := by
    rw [decoder_is_C01, decode_build_wire sep hsep _ hsl hs hwf]; rfl
  have hgate := gate_build sep (ofString "NOTIFY * HTTP/1.1") hs hsl
  unfold classify protocolRecv
  rw [hpre]
  simp only [hgate, Bool.not_true, Bool.false_eq_true, if_false, hdec]
  -- the two look-ups of `advClassify`
  have getL_eq : ∀ (k : String), lower (ofString k) = ofString k →
      getL (decoded hs loc src now) k = CIDict.getitem lower (decoded hs loc src now) (ofString k) := by
    intro k hk; unfold getL CIDict.getitem CIDict.getLower; rw [hk]
  obtain ⟨p, hp, hpk, hpv⟩ := hnts
  have hnts' : getL (decoded hs loc src now) "nts" = some (.str (ofString "ssdp:alive")) := by
    rw [getL_eq "nts" (by decide), decoded_sent hd hr loc src now hp (by rw [hpk]; decide) (ofString "nts") (by rw [hpk]; decide), hpv]
  have hman' : getL (decoded hs loc src now) "man" = none := by
    rw [getL_eq "man" (by decide), decoded_get hd]
    have l : lower (ofString "man") = ofString "man" := by decide
    rw [l, callMeta_get?_none _ _ _ _ (by decide), lastCI_none (ofString "man") hman]
    have : PyDict.get? (extras hs (udnOf hs) (withoutPort src)) (ofString "man") = none := by
      rw [PyDict.get?_eq_none_iff]
      intro hk
      rcases (extras_keys hs _ _ _ hk).2 with x | x | x | x <;> revert x <;> decide
    rw [this]; rfl
  unfold advClassify
  rw [hman', hnts']
  decide

/-- … hence, by `dispatched_effect`, the advertisement listener's callback fires for it (any tracker state
    satisfying the invariant, any clock reading up to `datetime.max`) -/
theorem built_alive_notifies (cfg : Cfg) (hpre : cfg.prefixes = Gen.C01Ssdp.ssdpPrefixes)
    (sep : Bytes) (hsep : SepOk sep) (hs : List (Bytes × Bytes)) (hwf : wfHeaders Gen.C01Ssdp.metaKeys hs = true)
    (hnts : ∃ p ∈ hs, lower p.1 = ofString "nts" ∧ p.2 = ofString "ssdp:alive")
    (hman : ∀ p ∈ hs, lower p.1 ≠ ofString "man")
    (loc : Option Addr) (src : Addr) (now : Int) (hnow : now ≤ cfg.trk.tMax) (t : Tracker) (hn : C03.Inv t) :
    ∃ t' eff, recv Fixes.all cfg .adv t (build sep (ofString "NOTIFY * HTTP/1.1") hs) loc src now = .ok (t', eff)
      ∧ eff.cbMin ≥ 1 := by
  obtain ⟨t', eff, h⟩ := recv_total cfg .adv t (build sep (ofString "NOTIFY * HTTP/1.1") hs) loc src now
  exact ⟨t', eff, h, (dispatched_effect_closed cfg .adv t t' eff _ loc src now hnow hn h).2 _
    (classify_built_alive cfg hpre sep hsep hs hwf hnts hman loc src now)⟩

/-- non-vacuity: a three-header advertisement satisfies the hypotheses of `classify_built_alive` -/
example :
    let hs : List (Bytes × Bytes) :=
      [(ofString "NT", ofString "upnp:rootdevice"), (ofString "Nts", ofString "ssdp:alive"),
       (ofString "USN", ofString "uuid:d1::upnp:rootdevice")]
    wfHeaders Gen.C01Ssdp.metaKeys hs = true
    ∧ (hs.any fun p => lower p.1 == ofString "nts" && p.2 == ofString "ssdp:alive") = true
    ∧ (hs.all fun p => lower p.1 != ofString "man") = true := by decide +kernel

/-! ### each repair is necessary: one raising datagram per unrepaired variant

`recv_total` is false for every variant of the model with one guard switched off; the witnesses
below are the design-time probes of DESIGN §7 (F02a–F02i) and the new finding F02j, evaluated on
the model by the kernel.  They also show that the hypotheses of `dropped_inert` are not vacuous. -/

def raises {α : Type} (r : Except Exn α) : Option Exn := match r with | .error e => some e | .ok _ => none

def wCfg : Cfg :=
  { prefixes := Gen.C01Ssdp.ssdpPrefixes, trk := C03.specCfg, rootUdn := ofString "uuid:r",
    devices := [(ofString "uuid:r", ofString "urn:schemas-upnp-org:device:Basic:1")], services := [] }
def v4 : Addr := { host := ofString "192.168.1.7", port := 1900 }
def scopedSrc : Addr := { host := ofString "fe80::1", port := 1900, v6 := true, scope := 3 }
def crlf : Bytes := [CR, LF]
def alive (extra : Bytes) : Bytes :=
  ofString "NOTIFY * HTTP/1.1" ++ crlf ++ ofString "NT:upnp:rootdevice" ++ crlf ++ ofString "NTS:ssdp:alive" ++ crlf
  ++ ofString "USN:uuid:d1::upnp:rootdevice" ++ crlf ++ extra ++ crlf ++ crlf
def http : Bytes := ofString "LOCATION:http://192.168.1.7/d"

/-- an exception of the decoder that the protocol does not catch escapes `recv` at every endpoint -/
theorem raise_propagates (fx : Fixes) (cfg : Cfg) (ep : Endpoint) (t : Tracker) (data : Bytes) (loc : Option Addr)
    (src : Addr) (now : Int) (e : Exn) (hg : isValidPacket cfg.prefixes data = true)
    (hd : decodeX fx data loc src now = .error e) (hc : caught fx e = false) :
    recv fx cfg ep t data loc src now = .error e := by
  unfold recv protocolRecv
  simp [hg, hd, hc]

/-- F02a, at the call site: EVERY header value longer than 8190 bytes (not starting with a blank)
    makes the parser raise `LineTooLong`, which the original `except InvalidHeader` does not catch -/
theorem witness_F02a (v : Bytes) (hl : v.length > maxField) (h1 : v.head? ≠ some SP) (h2 : v.head? ≠ some HT) :
    parseLine (ofString "X:" ++ v) = .error .lineTooLong
    ∧ caught { Fixes.all with catchLineTooLong := false } .lineTooLong = false := by
  refine ⟨?_, by decide⟩
  have hs : splitFirst COLON (ofString "X:" ++ v) = some ([88], v) := by
    have e : ofString "X:" = [88, 58] := by decide
    have : ofString "X:" ++ v = [88] ++ COLON :: v := by rw [e]; rfl
    rw [this, splitFirst_append COLON [88] v (by decide)]
  unfold parseLine
  simp only [hs, lstripSPHT_id v h1 h2]
  have : ¬ ([88] : Bytes).length > maxField := by decide
  have hv : v.length > maxField := hl
  simp [hv, isToken, isTchar, SP, HT]

theorem witness_F02b :
    raises (recv { Fixes.all with catchUnicode := false } wCfg .adv {}
      (ofString "NOTIFY * HTTP/1.1 " ++ [255] ++ crlf ++ ofString "NTS:ssdp:alive" ++ crlf ++ crlf) none v4 0)
      = some .unicodeDecode := by decide +kernel

theorem witness_F02c :
    raises (recv { Fixes.all with urlsplitGuard := false } wCfg .adv {} (alive (ofString "LOCATION:http://[fe80::1/")) none scopedSrc 0)
      = some .urlValueError := by decide +kernel

theorem witness_F02d :
    raises (recv { Fixes.all with hostnameGuard := false } wCfg .search {} (alive (ofString "LOCATION:foo")) none scopedSrc 0)
      = some .hostnameAssertion := by decide +kernel

theorem witness_F02e :
    raises (recv { Fixes.all with portGuard := false } wCfg .adv {} (alive (ofString "LOCATION:http://[fe80::1]:99999/")) none scopedSrc 0)
      = some .portValueError := by decide +kernel

theorem witness_F02f :
    raises (maxAgeUs { Fixes.all with tdGuard := false } (ofString "public, max-age=99999999999999999999"))
      = some .timedeltaOverflow := by
  decide +kernel

theorem witness_F02g :
    raises (validToCc { Fixes.all with dtGuard := false } (ofString "max-age=999999999999") 1000)
      = some .datetimeOverflow := by
  decide +kernel

/-- … and an exception of `extract_valid_to` escapes the combined listener whenever the message reaches it -/
theorem validTo_propagates (fx : Fixes) (trk : C03.Cfg) (sockA : Bool) (t : Tracker) (h : Hdrs) (m : C03.Msg String) (e : Exn)
    (hp : C03.Parse.parseEv trk sockA (pairsOf h) = .msg m) (hr : reachesValidTo m = true)
    (hv : validTo fx h m.ts = .error e) : listenerStep fx trk sockA t h = .error e := by
  unfold listenerStep
  simp [hp, hr, hv]

/-- F02h, at the call site: EVERY max-age of more than 4300 digits makes the unguarded `int()` raise -/
theorem witness_F02h (ds : Bytes) (hl : ds.length > 4300) (hd : ∀ b ∈ ds, isDigit b = true) :
    maxAgeUs { Fixes.all with intGuard := false } (ofString "max-age=" ++ ds) = .error .intDigitsLimit := by
  have hne : ds ≠ [] := by intro e; subst e; simp at hl
  obtain ⟨d0, dr, rfl⟩ := List.exists_cons_of_ne_nil hne
  have hd0 : isDigit d0 = true := hd d0 (by simp)
  have hws : isReWs d0 = false := by
    simp only [isDigit, Bool.and_eq_true, decide_eq_true_eq] at hd0
    simp only [isReWs, Bool.or_eq_false_iff, Bool.and_eq_false_iff, beq_eq_false_iff_ne, decide_eq_false_iff_not]
    omega
  have tw : ∀ l : Bytes, (∀ b ∈ l, isDigit b = true) → l.takeWhile isDigit = l := by
    intro l; induction l with
    | nil => intro _; rfl
    | cons a r ih => intro h; simp [List.takeWhile, h a (by simp), ih (fun b hb => h b (by simp [hb]))]
  have htw : (d0 :: dr).takeWhile isDigit = d0 :: dr := tw _ hd
  have hm : matchMaxAgeAt (ofString "max-age=" ++ d0 :: dr) = some (d0 :: dr) := by
    have e1 : ofString "max-age=" ++ d0 :: dr = [109, 97, 120, 45, 97, 103, 101, 61] ++ d0 :: dr := by
      have : ofString "max-age=" = [109, 97, 120, 45, 97, 103, 101, 61] := by decide
      rw [this]
    rw [e1]
    unfold matchMaxAgeAt
    have hst : startsWith (lower (([109, 97, 120, 45, 97, 103, 101, 61] ++ d0 :: dr).take 7)) (ofString "max-age") = true := by
      show startsWith (lower [109, 97, 120, 45, 97, 103, 101]) (ofString "max-age") = true
      decide
    simp only [hst, if_true]
    have hdrop : (([109, 97, 120, 45, 97, 103, 101, 61] ++ d0 :: dr).drop 7).dropWhile isReWs = 61 :: d0 :: dr := by
      simp [isReWs]
    rw [hdrop]
    simp only [List.dropWhile, hws, htw]
    simp
  have hf : findMaxAge (ofString "max-age=" ++ d0 :: dr) = some (d0 :: dr) := by
    have e1 : ofString "max-age=" ++ d0 :: dr = 109 :: ([97, 120, 45, 97, 103, 101, 61] ++ d0 :: dr) := by
      have : ofString "max-age=" = [109, 97, 120, 45, 97, 103, 101, 61] := by decide
      rw [this]; rfl
    rw [e1] at hm ⊢
    unfold findMaxAge
    rw [hm]
  unfold maxAgeUs
  rw [hf]
  have hl' : ¬ (dr.length ≤ 4299) := by simp at hl; omega
  simp [hl', Fixes.all]

theorem witness_F02i :
    raises (recv { Fixes.all with mxClamp := false } wCfg .responder {}
      (ofString "M-SEARCH * HTTP/1.1" ++ crlf ++ ofString "MAN:\"ssdp:discover\"" ++ crlf ++ ofString "MX:-1" ++ crlf
        ++ ofString "ST:ssdp:all" ++ crlf ++ crlf) none v4 0)
      = some .randrangeEmpty := by decide +kernel

/-- non-vacuity of the positive side: a well-formed alive reaches the advertisement listener's
    callback, a well-formed M-SEARCH with MX 2 schedules one deferred answer, MX 0 sends at once -/
example :
    classify wCfg .adv (alive http) none v4 7 = some .notify
    ∧ (recv Fixes.all wCfg .adv {} (alive http) none v4 7).toOption.map (·.2) = some oneCb
    ∧ (recv Fixes.all wCfg .responder {}
        (ofString "M-SEARCH * HTTP/1.1" ++ crlf ++ ofString "MAN:\"ssdp:discover\"" ++ crlf ++ ofString "MX:2" ++ crlf
          ++ ofString "ST:upnp:rootdevice" ++ crlf ++ crlf) none v4 0).toOption.map (·.2) = some { timers := 1 } := by
  decide +kernel

end Upnp.C02
